/-
  Invariants of the ICMPv6 hunt machine (Model/Icmp6Hunt.lean), silence after StopHunt / Close
  (`quiet_run`), and the router-advertisement learning step against Spec/NdpWire.lean.
-/
import PacketVerif.Model.Icmp6Hunt
import PacketVerif.Lemmas.NdpExact
namespace PV.Lemmas.Icmp6Hunt
open PV PV.Model.Ndp PV.Model.Icmp6Hunt PV.Spec.NdpWire PV.Lemmas.NdpExact

@[simp] theorem updLoop_same (f : Nat → Loop) (i : Nat) (l : Loop) : updLoop f i l i = l := by simp [updLoop]
theorem updLoop_other (f : Nat → Loop) (i j : Nat) (l : Loop) (h : j ≠ i) : updLoop f i l j = f j := by
  simp [updLoop, h]

def keys (s : State) : List Bytes := s.routers.map (·.1)

structure Inv (s : State) : Prop where
  nodup : s.hunt.Nodup
  sendOK : ∀ i p, (s.loops i).pc = .send p → s.defaultRouter.isSome = true ∧ p ≠ [] ∧ ∀ r ∈ p, r ∈ keys s
  started : ∀ i, (s.loops i).pc ≠ .done → (s.loops i).mac ∈ s.started
  huntStarted : ∀ m ∈ s.hunt, m ∈ s.started
  fresh : ∀ i, s.nloops ≤ i → (s.loops i).pc = .done
  defKey : ∀ ip, s.defaultRouter = some ip → ip ∈ keys s
  /-- the handler mutex is held across a batch exactly by the loop that is writing it: a loop is
      between its check and its last advertisement iff it is the holder (so at most one loop is) -/
  holderIff : ∀ i, s.holder = some i ↔ ∃ p, (s.loops i).pc = .send p

theorem inv_init : Inv {} := by
  constructor <;> simp [keys]

theorem keys_learn (s : State) (r : RaIn) (hdr : RaHeader) (o : Options) :
    ∀ k, k ∈ keys s → k ∈ keys (learn s r hdr o) := by
  intro k hk
  unfold learn
  split
  · simp only [keys, List.map_map]
    simp only [keys] at hk
    obtain ⟨e, he, rfl⟩ := List.mem_map.1 hk
    apply List.mem_map.2
    refine ⟨e, he, ?_⟩
    simp only [Function.comp]
    split <;> rfl
  · simp only [keys, List.map_append, List.mem_append]
    left; exact hk

theorem learn_fields (s : State) (r : RaIn) (hdr : RaHeader) (o : Options) :
    (learn s r hdr o).hunt = s.hunt ∧ (learn s r hdr o).closed = s.closed ∧
    (learn s r hdr o).loops = s.loops ∧ (learn s r hdr o).nloops = s.nloops ∧
    (learn s r hdr o).started = s.started ∧ (learn s r hdr o).rep = s.rep ∧
    (learn s r hdr o).holder = s.holder := by
  unfold learn; split <;> simp

theorem learn_default (s : State) (r : RaIn) (hdr : RaHeader) (o : Options) :
    ((learn s r hdr o).defaultRouter = s.defaultRouter ∨ (learn s r hdr o).defaultRouter = some r.ipSrc) ∧
    (s.defaultRouter.isSome = true → (learn s r hdr o).defaultRouter.isSome = true) ∧
    r.ipSrc ∈ keys (learn s r hdr o) := by
  unfold learn
  split
  · rename_i x old hf
    refine ⟨Or.inl rfl, fun h => h, ?_⟩
    have hm := List.mem_of_find?_eq_some hf
    have hp := List.find?_some hf
    simp at hp
    simp only [keys, List.map_map]
    apply List.mem_map.2
    refine ⟨_, hm, ?_⟩
    simp [hp]
  · refine ⟨Or.inr rfl, fun _ => rfl, ?_⟩
    simp [keys]

theorem raBody_cases (s1 : State) (r : RaIn) (s' : State) (ok : Bool) (h : raBody s1 r = .ok (s', ok)) :
    s' = s1 ∨ ∃ hdr o, s' = learn s1 r hdr o := by
  unfold raBody at h
  by_cases hk : r.hostKnown = false
  · simp only [hk, if_true] at h; cases h; left; rfl
  · simp only [hk] at h
    cases ho : raOptions r.payload with
    | err e => simp only [ho] at h; cases h; left; rfl
    | panic => simp only [ho] at h; cases h
    | hang => simp only [ho] at h; cases h
    | ok o =>
      simp only [ho] at h
      cases hh : raHeader r.payload with
      | err e => simp only [hh] at h; cases h; left; rfl
      | panic => simp only [hh] at h; cases h
      | hang => simp only [hh] at h; cases h
      | ok hdr => simp only [hh] at h; cases h; right; exact ⟨_, _, rfl⟩

/-- every state change of `processRA` is `rep`, or `learn` -/
theorem processRA_cases (s : State) (r : RaIn) (s' : State) (ok : Bool) (h : processRA s r = .ok (s', ok)) :
    s' = s ∨ s' = { s with rep := s.rep + 1 } ∨ ∃ hdr o, s' = learn { s with rep := s.rep + 1 } r hdr o := by
  unfold processRA at h
  by_cases hl : r.payload.length < 16
  · simp only [hl, if_true] at h; cases h; left; rfl
  · simp only [hl, if_false] at h
    by_cases hr : (s.rep + 1) % 4 ≠ 0
    · rw [if_pos hr] at h; cases h; right; left; rfl
    · rw [if_neg hr] at h
      rcases raBody_cases _ r s' ok h with h1 | h2
      · right; left; exact h1
      · right; right; exact h2

/-- the RA step of the machine: same three cases (the mutex guard only disables the step) -/
theorem step_ra_cases (s : State) (r : RaIn) (s' : State) (o : Out) (h : step s (.ra r) = some (s', o)) :
    s' = s ∨ s' = { s with rep := s.rep + 1 } ∨ ∃ hdr o', s' = learn { s with rep := s.rep + 1 } r hdr o' := by
  simp only [step] at h
  split at h
  · cases h
  · split at h
    · rename_i s1 ok hp
      cases h
      exact processRA_cases s r _ ok hp
    · cases h

theorem inv_of_same_core {s s' : State} (h : Inv s) (hh : s'.hunt = s.hunt) (hl : s'.loops = s.loops)
    (hn : s'.nloops = s.nloops) (hs : s'.started = s.started) (hho : s'.holder = s.holder)
    (hk : ∀ k, k ∈ keys s → k ∈ keys s')
    (hd : s.defaultRouter.isSome = true → s'.defaultRouter.isSome = true)
    (hdk : ∀ ip, s'.defaultRouter = some ip → ip ∈ keys s') : Inv s' := by
  obtain ⟨h1, h2, h3, h4, h5, h6, h7⟩ := h
  refine ⟨by rw [hh]; exact h1, ?_, ?_, ?_, ?_, hdk, ?_⟩
  · intro i p hp; rw [hl] at hp
    obtain ⟨a, b, c⟩ := h2 i p hp
    exact ⟨hd a, b, fun r hr => hk r (c r hr)⟩
  · intro i hi; rw [hl] at hi ⊢; rw [hs]; exact h3 i hi
  · intro m hm; rw [hh] at hm; rw [hs]; exact h4 m hm
  · intro i hi; rw [hl]; rw [hn] at hi; exact h5 i hi
  · intro i; rw [hho, hl]; exact h7 i

/-- a loop other than the holder moves between states that are not `send`: the holder relation is kept -/
theorem holderIff_upd {s : State} (h7 : ∀ i, s.holder = some i ↔ ∃ p, (s.loops i).pc = .send p)
    (i : Nat) (l : Loop) (hold : ∀ p, (s.loops i).pc ≠ .send p) (hnew : ∀ p, l.pc ≠ .send p) :
    ∀ j, s.holder = some j ↔ ∃ p, ((updLoop s.loops i l) j).pc = .send p := by
  intro j
  by_cases hj : j = i
  · subst hj
    simp only [updLoop_same]
    constructor
    · intro hh; obtain ⟨p, hp⟩ := (h7 j).1 hh; exact absurd hp (hold p)
    · intro ⟨p, hp⟩; exact absurd hp (hnew p)
  · simp only [updLoop_other _ _ _ _ hj]; exact h7 j

theorem inv_step {s s' : State} {e : Event} {o : Out} (h : Inv s) (hs : step s e = some (s', o)) : Inv s' := by
  cases e with
  | rxOther => simp only [step] at hs; cases hs; exact h
  | envRepeat v =>
    simp only [step] at hs; cases hs
    exact inv_of_same_core h rfl rfl rfl rfl rfl (fun _ hk => hk) (fun hd => hd) h.defKey
  | close =>
    simp only [step] at hs
    split at hs
    · cases hs
      exact inv_of_same_core h rfl rfl rfl rfl rfl (fun _ hk => hk) (fun hd => hd) h.defKey
    · cases hs
  | ra r =>
    rcases step_ra_cases s r s' o hs with rfl | rfl | ⟨hdr, o', rfl⟩
    · exact h
    · exact inv_of_same_core h rfl rfl rfl rfl rfl (fun _ hk => hk) (fun hd => hd) h.defKey
    · obtain ⟨f1, _, f3, f4, f5, _, f7⟩ := learn_fields { s with rep := s.rep + 1 } r hdr o'
      obtain ⟨g1, g2, g3⟩ := learn_default { s with rep := s.rep + 1 } r hdr o'
      refine inv_of_same_core h f1 f3 f4 f5 f7 (keys_learn { s with rep := s.rep + 1 } r hdr o') g2 ?_
      intro ip hip
      rcases g1 with g | g
      · rw [g] at hip; exact keys_learn { s with rep := s.rep + 1 } r hdr o' ip (h.defKey ip hip)
      · rw [g] at hip; cases hip; exact g3
  | stopHunt mac eff =>
    simp only [step] at hs
    split at hs
    · split at hs
      · cases hs
        obtain ⟨h1, h2, h3, h4, h5, h6, h7⟩ := h
        exact ⟨h1.erase mac, h2, h3, fun m hm => h4 m (List.mem_of_mem_erase hm), h5, h6, h7⟩
      · cases hs
    · cases hs; exact h
  | startHunt mac cls =>
    simp only [step] at hs
    split at hs
    · cases hs; exact h
    · split at hs
      · cases hs; exact h
      · split at hs
        · cases hs
        · split at hs
          · cases hs; exact h
          · rename_i hnm
            cases hs
            obtain ⟨h1, h2, h3, h4, h5, h6, h7⟩ := h
            have hfresh : ∀ p, (s.loops s.nloops).pc ≠ .send p := by
              intro p hp; rw [h5 s.nloops (Nat.le_refl _)] at hp; cases hp
            refine ⟨?_, ?_, ?_, ?_, ?_, h6, ?_⟩
            · exact List.nodup_append.2 ⟨h1, by simp, by
                intro a ha b hb; simp at hb; subst hb; intro he; subst he; exact hnm ha⟩
            · intro i p hp
              by_cases hi : i = s.nloops
              · subst hi; simp at hp
              · simp only [updLoop_other _ _ _ _ hi] at hp; exact h2 i p hp
            · intro i hi
              by_cases hi' : i = s.nloops
              · subst hi'; simp
              · simp only [updLoop_other _ _ _ _ hi'] at hi ⊢
                exact List.mem_cons_of_mem _ (h3 i hi)
            · intro m hm
              simp at hm
              rcases hm with hm | rfl
              · exact List.mem_cons_of_mem _ (h4 m hm)
              · simp
            · intro i hi
              have : i ≠ s.nloops := by simp at hi; omega
              simp only [updLoop_other _ _ _ _ this]
              exact h5 i (by simp at hi; omega)
            · exact holderIff_upd h7 s.nloops _ hfresh (by intro p hp; cases hp)
  | check i =>
    simp only [step] at hs
    obtain ⟨h1, h2, h3, h4, h5, h6, h7⟩ := h
    split at hs
    · rename_i hcf
      obtain ⟨hc, hfree⟩ := hcf
      have hnd : (s.loops i).pc ≠ .done := by rw [hc]; simp
      have hold : ∀ p, (s.loops i).pc ≠ .send p := by intro p hp; rw [hc] at hp; cases hp
      -- the loop moves to a state that is not `send`: wait or done
      have upd : ∀ (pc' : Pc), (∀ p, pc' ≠ .send p) → (pc' = .done ∨ pc' ≠ .done) →
          Inv { s with loops := updLoop s.loops i { s.loops i with pc := pc' } } := by
        intro pc' hpc _
        refine ⟨h1, ?_, ?_, h4, ?_, h6, holderIff_upd h7 i _ hold hpc⟩
        · intro j p hp
          by_cases hj : j = i
          · subst hj; simp at hp; exact absurd hp (hpc p)
          · simp only [updLoop_other _ _ _ _ hj] at hp; exact h2 j p hp
        · intro j hj
          by_cases hji : j = i
          · subst hji; simp; exact h3 j hnd
          · simp only [updLoop_other _ _ _ _ hji] at hj ⊢; exact h3 j hj
        · intro j hj
          by_cases hji : j = i
          · subst hji; exact absurd (h5 j hj) hnd
          · simp only [updLoop_other _ _ _ _ hji]; exact h5 j hj
      split at hs
      · cases hs; exact upd .done (by intro p hp; cases hp) (Or.inl rfl)
      · split at hs
        · rename_i hdef
          split at hs
          · cases hs; exact upd .wait (by intro p hp; cases hp) (Or.inr (by simp))
          · rename_i l hl
            cases hs
            -- the loop takes the mutex for its batch
            refine ⟨h1, ?_, ?_, h4, ?_, h6, ?_⟩
            · intro j p hp
              by_cases hj : j = i
              · subst hj; simp at hp; subst hp
                exact ⟨hdef, fun he => hl he, fun r hr => hr⟩
              · simp only [updLoop_other _ _ _ _ hj] at hp; exact h2 j p hp
            · intro j hj
              by_cases hji : j = i
              · subst hji; simp; exact h3 j hnd
              · simp only [updLoop_other _ _ _ _ hji] at hj ⊢; exact h3 j hj
            · intro j hj
              by_cases hji : j = i
              · subst hji; exact absurd (h5 j hj) hnd
              · simp only [updLoop_other _ _ _ _ hji]; exact h5 j hj
            · intro j
              by_cases hji : j = i
              · subst hji; simp
              · simp only [updLoop_other _ _ _ _ hji]
                constructor
                · intro he; simp at he; exact absurd he.symm hji
                · intro hp
                  have := (h7 j).2 hp
                  rw [hfree] at this; cases this
        · cases hs; exact upd .wait (by intro p hp; cases hp) (Or.inr (by simp))
    · cases hs
  | send i r =>
    simp only [step] at hs
    obtain ⟨h1, h2, h3, h4, h5, h6, h7⟩ := h
    split at hs
    · rename_i p hp
      split at hs
      · rename_i hr
        obtain ⟨a, b, c⟩ := h2 i p hp
        have hnd : (s.loops i).pc ≠ .done := by rw [hp]; simp
        have hhold : s.holder = some i := (h7 i).2 ⟨p, hp⟩
        split at hs
        · -- last advertisement of the batch: the mutex is released
          cases hs
          refine ⟨h1, ?_, ?_, h4, ?_, h6, ?_⟩
          · intro j q hq
            by_cases hj : j = i
            · subst hj; simp at hq
            · simp only [updLoop_other _ _ _ _ hj] at hq; exact h2 j q hq
          · intro j hj
            by_cases hji : j = i
            · subst hji; simp; exact h3 j hnd
            · simp only [updLoop_other _ _ _ _ hji] at hj ⊢; exact h3 j hj
          · intro j hj
            by_cases hji : j = i
            · subst hji; exact absurd (h5 j hj) hnd
            · simp only [updLoop_other _ _ _ _ hji]; exact h5 j hj
          · intro j
            by_cases hji : j = i
            · subst hji; simp
            · simp only [updLoop_other _ _ _ _ hji]
              constructor
              · intro he; cases he
              · intro hq
                have := (h7 j).2 hq
                rw [hhold] at this; simp at this; exact absurd this.symm hji
        · rename_i hne
          cases hs
          refine ⟨h1, ?_, ?_, h4, ?_, h6, ?_⟩
          · intro j q hq
            by_cases hj : j = i
            · subst hj
              simp at hq
              subst hq
              refine ⟨a, ?_, fun x hx => c x (List.mem_of_mem_erase hx)⟩
              intro he; apply hne; simp [he]
            · simp only [updLoop_other _ _ _ _ hj] at hq; exact h2 j q hq
          · intro j hj
            by_cases hji : j = i
            · subst hji; simp; exact h3 j hnd
            · simp only [updLoop_other _ _ _ _ hji] at hj ⊢; exact h3 j hj
          · intro j hj
            by_cases hji : j = i
            · subst hji; exact absurd (h5 j hj) hnd
            · simp only [updLoop_other _ _ _ _ hji]; exact h5 j hj
          · intro j
            by_cases hji : j = i
            · subst hji; simp [hhold]
            · simp only [updLoop_other _ _ _ _ hji]; exact h7 j
      · cases hs
    · cases hs
  | wake i =>
    simp only [step] at hs
    obtain ⟨h1, h2, h3, h4, h5, h6, h7⟩ := h
    split at hs
    · rename_i hw
      cases hs
      have hnd : (s.loops i).pc ≠ .done := by rw [hw]; simp
      have hold : ∀ p, (s.loops i).pc ≠ .send p := by intro p hp; rw [hw] at hp; cases hp
      refine ⟨h1, ?_, ?_, h4, ?_, h6, holderIff_upd h7 i _ hold (by intro p hp; cases hp)⟩
      · intro j q hq
        by_cases hj : j = i
        · subst hj; simp at hq
        · simp only [updLoop_other _ _ _ _ hj] at hq; exact h2 j q hq
      · intro j hj
        by_cases hji : j = i
        · subst hji; simp; exact h3 j hnd
        · simp only [updLoop_other _ _ _ _ hji] at hj ⊢; exact h3 j hj
      · intro j hj
        by_cases hji : j = i
        · subst hji; exact absurd (h5 j hj) hnd
        · simp only [updLoop_other _ _ _ _ hji]; exact h5 j hj
    · cases hs

theorem inv_run {s s' : State} {tr : List Event} {os : List Out} (h : Inv s)
    (hr : run s tr = some (s', os)) : Inv s' := by
  induction tr generalizing s os with
  | nil => simp [run] at hr; obtain ⟨rfl, _⟩ := hr; exact h
  | cons e es ih =>
    simp only [run] at hr
    cases hs : step s e with
    | none => simp [hs] at hr
    | some p =>
      obtain ⟨s1, o⟩ := p
      simp only [hs] at hr
      cases hr2 : run s1 es with
      | none => simp [hr2] at hr
      | some q =>
        obtain ⟨s2, os2⟩ := q
        simp only [hr2] at hr
        cases hr
        exact ih (inv_step h hs) hr2

/-- a run over a concatenation splits at the seam; the outputs are produced one per event -/
theorem run_append (a b : List Event) (s s' : State) (os : List Out)
    (h : run s (a ++ b) = some (s', os)) :
    ∃ s1 os1 os2, run s a = some (s1, os1) ∧ run s1 b = some (s', os2) ∧ os = os1 ++ os2 ∧
      os1.length = a.length := by
  induction a generalizing s os with
  | nil => exact ⟨s, [], os, rfl, h, rfl, rfl⟩
  | cons e es ih =>
    simp only [List.cons_append, run] at h
    cases hs : step s e with
    | none => simp [hs] at h
    | some p =>
      obtain ⟨s1, o⟩ := p
      simp only [hs] at h
      cases hr2 : run s1 (es ++ b) with
      | none => simp [hr2] at h
      | some q =>
        obtain ⟨s2, os2⟩ := q
        simp only [hr2] at h
        cases h
        obtain ⟨t1, o1, o2, r1, r2, he, hlen⟩ := ih s1 os2 hr2
        refine ⟨t1, o :: o1, o2, ?_, r2, by simp [he], by simp [hlen]⟩
        simp [run, hs, r1]


/-- splitting a run at a distinguished event -/
theorem run_split (pre post : List Event) (e : Event) (s : State) (os : List Out)
    (h : run {} (pre ++ [e] ++ post) = some (s, os)) :
    ∃ s0 s1 o os1 os2, run {} pre = some (s0, os1) ∧ step s0 e = some (s1, o) ∧
      run s1 post = some (s, os2) ∧ os.drop (pre.length + 1) = os2 := by
  rw [List.append_assoc] at h
  obtain ⟨s0, os1, osr, r1, r2, he, hlen⟩ := run_append pre ([e] ++ post) {} s os h
  simp only [List.singleton_append, run] at r2
  cases hs : step s0 e with
  | none => simp [hs] at r2
  | some q =>
    obtain ⟨s1, o⟩ := q
    simp only [hs] at r2
    cases hr2 : run s1 post with
    | none => simp [hr2] at r2
    | some q2 =>
      obtain ⟨s2, os2⟩ := q2
      simp only [hr2] at r2
      cases r2
      refine ⟨s0, s1, o, os1, os2, r1, hs, hr2, ?_⟩
      subst he
      rw [← hlen]
      simp


/-! ### a loop in the middle of its batch attacks a hunted host -/

/-- the lookup of a loop that is writing its batch still holds: its MAC is in the hunt list and the
    handler is open (hunt list and `closed` change only under the mutex the loop holds) -/
def SendHunted (s : State) : Prop :=
  ∀ i p, (s.loops i).pc = .send p → (s.loops i).mac ∈ s.hunt ∧ s.closed = false

theorem sendHunted_init : SendHunted {} := by intro i p hp; simp at hp

theorem sendHunted_step {s s' : State} {e : Event} {o : Out} (hI : Inv s) (h : SendHunted s)
    (hs : step s e = some (s', o)) : SendHunted s' := by
  have nosend : s.holder = none → ∀ i p, (s.loops i).pc ≠ .send p := fun hf i p hp => by
    have := (hI.holderIff i).2 ⟨p, hp⟩
    rw [hf] at this; cases this
  cases e with
  | rxOther => simp only [step] at hs; cases hs; exact h
  | envRepeat v => simp only [step] at hs; cases hs; exact h
  | close =>
    simp only [step] at hs
    split at hs
    · rename_i hf; cases hs
      intro i p hp; exact absurd hp (nosend hf i p)
    · cases hs
  | ra r =>
    rcases step_ra_cases s r s' o hs with rfl | rfl | ⟨hdr, o', rfl⟩
    · exact h
    · exact h
    · obtain ⟨f1, f2, f3, _, _, _, _⟩ := learn_fields { s with rep := s.rep + 1 } r hdr o'
      intro i p hp
      rw [f3] at hp ⊢
      rw [f1, f2]
      exact h i p hp
  | stopHunt mac eff =>
    simp only [step] at hs
    split at hs
    · split at hs
      · rename_i hf; cases hs
        intro i p hp; exact absurd hp (nosend hf i p)
      · cases hs
    · cases hs; exact h
  | startHunt mac cls =>
    simp only [step] at hs
    split at hs
    · cases hs; exact h
    · split at hs
      · cases hs; exact h
      · split at hs
        · cases hs
        · rename_i hf
          have hf' : s.holder = none := by simpa [free] using hf
          split at hs
          · cases hs; exact h
          · cases hs
            intro i p hp
            by_cases hi : i = s.nloops
            · subst hi; simp at hp
            · simp only [updLoop_other _ _ _ _ hi] at hp
              exact absurd hp (nosend hf' i p)
  | wake j =>
    simp only [step] at hs
    split at hs
    · cases hs
      intro i p hp
      by_cases hi : i = j
      · subst hi; simp at hp
      · simp only [updLoop_other _ _ _ _ hi] at hp ⊢; exact h i p hp
    · cases hs
  | send j r =>
    simp only [step] at hs
    split at hs
    · rename_i q hq
      split at hs
      · split at hs
        · cases hs
          intro i p hp
          by_cases hi : i = j
          · subst hi; simp at hp
          · simp only [updLoop_other _ _ _ _ hi] at hp ⊢; exact h i p hp
        · cases hs
          intro i p hp
          by_cases hi : i = j
          · subst hi; simp only [updLoop_same]; exact h i q hq
          · simp only [updLoop_other _ _ _ _ hi] at hp ⊢; exact h i p hp
      · cases hs
    · cases hs
  | check j =>
    simp only [step] at hs
    split at hs
    · rename_i hcf
      have other : ∀ (pc' : Pc) (hd : Option Nat), (∀ p, pc' ≠ .send p) →
          SendHunted { s with loops := updLoop s.loops j { s.loops j with pc := pc' }, holder := hd } := by
        intro pc' hd hpc i p hp
        by_cases hi : i = j
        · subst hi; simp at hp; exact absurd hp (hpc p)
        · simp only [updLoop_other _ _ _ _ hi] at hp ⊢; exact h i p hp
      split at hs
      · cases hs; exact other .done _ (by intro p hp; cases hp)
      · rename_i hcond
        split at hs
        · split at hs
          · cases hs; exact other .wait _ (by intro p hp; cases hp)
          · cases hs
            intro i p hp
            by_cases hi : i = j
            · subst hi
              simp only [updLoop_same]
              constructor
              · apply Classical.byContradiction; intro hm; exact hcond (Or.inl hm)
              · cases hcl : s.closed with
                | false => rfl
                | true => exact absurd (Or.inr hcl) hcond
            · simp only [updLoop_other _ _ _ _ hi] at hp ⊢; exact h i p hp
        · cases hs; exact other .wait _ (by intro p hp; cases hp)
    · cases hs

theorem sendHunted_run {s s' : State} {tr : List Event} {os : List Out} (hI : Inv s) (h : SendHunted s)
    (hr : run s tr = some (s', os)) : SendHunted s' := by
  induction tr generalizing s os with
  | nil => simp [run] at hr; obtain ⟨rfl, _⟩ := hr; exact h
  | cons e es ih =>
    simp only [run] at hr
    cases hs : step s e with
    | none => simp [hs] at hr
    | some p =>
      obtain ⟨s1, o⟩ := p
      simp only [hs] at hr
      cases hr2 : run s1 es with
      | none => simp [hr2] at hr
      | some q =>
        obtain ⟨s2, os2⟩ := q
        simp only [hr2] at hr
        cases hr
        exact ih (inv_step hI hs) (sendHunted_step hI h hs) hr2

/-! ### silence after StopHunt / Close -/

/-- no StartHunt for `mac` that would be accepted (address-less or link-local target) -/
def NoRestart (mac : Bytes) (tr : List Event) : Prop :=
  ∀ e ∈ tr, ∀ cls, e = .startHunt mac cls → cls = .v4 ∨ cls = .other6

/-- `mac` is quiet: no loop attacking it can pass its check (it is not hunted, or the handler is
    closed) and none is in the middle of a batch -/
def Quiet (mac : Bytes) (s : State) : Prop :=
  (mac ∉ s.hunt ∨ s.closed = true) ∧ ∀ i, (s.loops i).mac = mac → ∀ p, (s.loops i).pc ≠ .send p

/-- an effective StopHunt / a Close needs the mutex: no batch is in flight when it happens -/
theorem free_no_send {s : State} (h : Inv s) (hf : s.holder = none) : ∀ i p, (s.loops i).pc ≠ .send p := by
  intro i p hp
  have := (h.holderIff i).2 ⟨p, hp⟩
  rw [hf] at this; cases this

/-- a quiet MAC stays quiet and gets no advertisement, as long as no StartHunt for it is accepted –
    or, once the handler is closed, whatever happens -/
theorem quiet_step {mac : Bytes} {s s' : State} {e : Event} {o : Out} (hq : Quiet mac s)
    (hs : step s e = some (s', o))
    (hn : s.closed = true ∨ ∀ cls, e = .startHunt mac cls → cls = .v4 ∨ cls = .other6) :
    Quiet mac s' ∧ (s.closed = true → s'.closed = true) ∧ naCount mac [o] = 0 := by
  obtain ⟨hb, hl⟩ := hq
  cases e with
  | envRepeat v => simp only [step] at hs; cases hs; exact ⟨⟨hb, hl⟩, id, rfl⟩
  | rxOther => simp only [step] at hs; cases hs; exact ⟨⟨hb, hl⟩, id, rfl⟩
  | close =>
    simp only [step] at hs
    split at hs
    · cases hs; exact ⟨⟨Or.inr rfl, hl⟩, fun _ => rfl, rfl⟩
    · cases hs
  | ra r =>
    have ho : naCount mac [o] = 0 := by
      simp only [step] at hs
      split at hs
      · cases hs
      · split at hs
        · cases hs; rfl
        · cases hs
    rcases step_ra_cases s r s' o hs with rfl | rfl | ⟨hdr, o', rfl⟩
    · exact ⟨⟨hb, hl⟩, id, ho⟩
    · exact ⟨⟨hb, hl⟩, id, ho⟩
    · obtain ⟨f1, f2, f3, _, _, _, _⟩ := learn_fields { s with rep := s.rep + 1 } r hdr o'
      refine ⟨⟨?_, ?_⟩, ?_, ho⟩
      · rw [f1, f2]; exact hb
      · rw [f3]; exact hl
      · rw [f2]; exact id
  | stopHunt m eff =>
    simp only [step] at hs
    split at hs
    · split at hs
      · cases hs
        refine ⟨⟨?_, hl⟩, id, rfl⟩
        rcases hb with hb | hb
        · left; intro hm; exact hb (List.mem_of_mem_erase hm)
        · right; exact hb
      · cases hs
    · cases hs; exact ⟨⟨hb, hl⟩, id, rfl⟩
  | startHunt m cls =>
    simp only [step] at hs
    split at hs
    · cases hs; exact ⟨⟨hb, hl⟩, id, rfl⟩
    · split at hs
      · cases hs; exact ⟨⟨hb, hl⟩, id, rfl⟩
      · split at hs
        · cases hs
        · split at hs
          · cases hs; exact ⟨⟨hb, hl⟩, id, rfl⟩
          · rename_i hc1 hc2 _ hnm
            cases hs
            refine ⟨⟨?_, ?_⟩, id, rfl⟩
            · rcases hb with hb | hb
              · rcases hn with hcl | hn
                · right; exact hcl
                · left; intro hm
                  simp at hm
                  rcases hm with hm | hm
                  · exact hb hm
                  · subst hm
                    rcases hn cls rfl with h | h
                    · exact hc1 h
                    · exact hc2 h
              · right; exact hb
            · intro i hi p hp
              by_cases hin : i = s.nloops
              · subst hin; simp at hp
              · simp only [updLoop_other _ _ _ _ hin] at hi hp; exact hl i hi p hp
  | check j =>
    simp only [step] at hs
    split at hs
    · rename_i hcf
      obtain ⟨hc, _⟩ := hcf
      -- loop j moves to wait / done, or – only when its MAC is hunted and the handler open – to send
      have other : ∀ (pc' : Pc) (hd : Option Nat), (∀ p, pc' ≠ .send p) →
          Quiet mac { s with loops := updLoop s.loops j { s.loops j with pc := pc' }, holder := hd } := by
        intro pc' hd hpc
        refine ⟨hb, ?_⟩
        intro i hi p hp
        by_cases hij : i = j
        · subst hij; simp at hp; exact hpc p hp
        · simp only [updLoop_other _ _ _ _ hij] at hi hp; exact hl i hi p hp
      split at hs
      · cases hs; exact ⟨other .done _ (by intro p hp; cases hp), id, rfl⟩
      · rename_i hcond
        split at hs
        · split at hs
          · cases hs; exact ⟨other .wait _ (by intro p hp; cases hp), id, rfl⟩
          · cases hs
            refine ⟨⟨hb, ?_⟩, id, rfl⟩
            intro i hi p hp
            by_cases hij : i = j
            · subst hij
              simp only [updLoop_same] at hi
              -- the check passed, so the loop's MAC is hunted and the handler is open: it is not `mac`
              rcases hb with hb | hb
              · exact hcond (Or.inl (by rw [hi]; exact hb))
              · exact hcond (Or.inr (by simp [hb]))
            · simp only [updLoop_other _ _ _ _ hij] at hi hp; exact hl i hi p hp
        · cases hs; exact ⟨other .wait _ (by intro p hp; cases hp), id, rfl⟩
    · cases hs
  | send j r =>
    simp only [step] at hs
    split at hs
    · rename_i p hp
      have hjm : (s.loops j).mac ≠ mac := fun he => hl j he p hp
      split at hs
      · split at hs
        · cases hs
          refine ⟨⟨hb, ?_⟩, id, by simp [naCount, hjm]⟩
          intro i hi q hq
          by_cases hij : i = j
          · subst hij; simp at hq
          · simp only [updLoop_other _ _ _ _ hij] at hi hq; exact hl i hi q hq
        · cases hs
          refine ⟨⟨hb, ?_⟩, id, by simp [naCount, hjm]⟩
          intro i hi q hq
          by_cases hij : i = j
          · subst hij; simp only [updLoop_same] at hi; exact hjm hi
          · simp only [updLoop_other _ _ _ _ hij] at hi hq; exact hl i hi q hq
      · cases hs
    · cases hs
  | wake j =>
    simp only [step] at hs
    split at hs
    · cases hs
      refine ⟨⟨hb, ?_⟩, id, rfl⟩
      intro i hi p hp
      by_cases hij : i = j
      · subst hij; simp at hp
      · simp only [updLoop_other _ _ _ _ hij] at hi hp; exact hl i hi p hp
    · cases hs

theorem naCount_cons (mac : Bytes) (o : Out) (os : List Out) :
    naCount mac (o :: os) = naCount mac [o] + naCount mac os := by
  cases o <;> simp [naCount]

/-- **silence**: from a state in which `mac` is quiet, no trace without an accepted StartHunt for it
    (any trace at all once the handler is closed) produces a forged advertisement to `mac` -/
theorem quiet_run : ∀ (tr : List Event) (mac : Bytes) (s s' : State) (os : List Out),
    Quiet mac s → (s.closed = true ∨ NoRestart mac tr) → run s tr = some (s', os) → naCount mac os = 0
  | [], _, _, _, _, _, _, hr => by simp [run] at hr; obtain ⟨_, rfl⟩ := hr; rfl
  | e :: es, mac, s, s', os, hq, hn, hr => by
    simp only [run] at hr
    cases hs : step s e with
    | none => simp [hs] at hr
    | some p =>
      obtain ⟨s1, o⟩ := p
      simp only [hs] at hr
      cases hr2 : run s1 es with
      | none => simp [hr2] at hr
      | some q =>
        obtain ⟨s2, os2⟩ := q
        simp only [hr2] at hr
        cases hr
        obtain ⟨a, b, c⟩ := quiet_step hq hs (by
          rcases hn with h | h
          · exact Or.inl h
          · exact Or.inr (fun cls he => h e (by simp) cls he))
        have ih := quiet_run es mac s1 _ os2 a (by
          rcases hn with h | h
          · exact Or.inl (b h)
          · exact Or.inr (fun e' he' cls hc => h e' (by simp [he']) cls hc)) hr2
        rw [naCount_cons, c, ih]


/-! ### learning a router from an advertisement -/

def ofFixed (f : RaFixed) : RaHeader :=
  { curHopLimit := f.curHopLimit, managed := f.managed, other := f.other, preference := f.preference,
    lifetime := f.lifetime, reachable := f.reachable, retrans := f.retrans }

/-- the fixed part of the advertisement: the code's view getters against the reference -/
theorem raHeader_eq (p : Bytes) (h : 16 ≤ p.length) :
    ∃ fx, decodeRaFixed p = some (fx, p.drop 16) ∧ raHeader p = .ok (ofFixed fx) := by
  match p, h with
  | a0 :: a1 :: a2 :: a3 :: hop :: fl :: l1 :: l0 :: r3 :: r2 :: r1 :: r0 :: t3 :: t2 :: t1 :: t0 :: opts, _ =>
    refine ⟨_, rfl, ?_⟩
    simp [raHeader, idx, slice, u16be, u32be, be32_nat32, be16_nat16, ofFixed]
    exact ⟨bit80' fl, bit40' fl, by have := pref_bits fl; simpa using this⟩

/-- the router entry stored for `ip` -/
def entry (s : State) (ip : Bytes) : Option Router := (s.routers.find? (fun e => e.1 = ip)).map (·.2)

theorem find_map_update (l : List (Bytes × Router)) (ip : Bytes) (nw : Router) :
    (l.find? (fun e => e.1 = ip)).isSome = true →
    (l.map (fun e => if e.1 = ip then (e.1, nw) else e)).find? (fun e => e.1 = ip) = some (ip, nw) := by
  induction l with
  | nil => simp
  | cons a t ih =>
    intro h
    by_cases ha : a.1 = ip
    · simp [ha]
    · simp only [List.find?, ha, decide_false] at h
      simp only [List.map, ha, if_false, List.find?, decide_false]
      exact ih h

theorem find_append_new (l : List (Bytes × Router)) (ip : Bytes) (nw : Router) :
    l.find? (fun e => e.1 = ip) = none →
    (l ++ [(ip, nw)]).find? (fun e => e.1 = ip) = some (ip, nw) := by
  intro h
  rw [List.find?_append, h]
  simp

/-- what `learn` stores: header and options of this advertisement; the MAC recorded when the router
    was first seen (source link-layer option, else the Ethernet source) is kept afterwards -/
theorem learn_entry (s : State) (r : RaIn) (hdr : RaHeader) (o : Options) :
    entry (learn s r hdr o) r.ipSrc =
      some { mac := match entry s r.ipSrc with
                    | some old => old.mac
                    | none => raMac o r.etherSrc,
             ip := match entry s r.ipSrc with
                    | some old => old.ip
                    | none => r.ipSrc,
             hdr := hdr, options := o } := by
  unfold learn entry
  cases hf : s.routers.find? (fun e => e.1 = r.ipSrc) with
  | none =>
    simp only [find_append_new _ _ _ hf]
    simp
  | some e =>
    obtain ⟨k, old⟩ := e
    simp only
    rw [find_map_update _ _ _ (by simp [hf])]
    simp

/-- `raOptions` on a message of at least 16 bytes parses exactly the bytes after the fixed part -/
theorem raOptions_drop (p : Bytes) (h : 16 ≤ p.length) : raOptions p = newParseOptions (p.drop 16) := by
  unfold raOptions
  by_cases hl : p.length ≤ 16
  · have : p.drop 16 = [] := by apply List.drop_eq_nil_of_le; omega
    simp only [hl, if_true, this]
    rfl
  · simp only [hl, if_false]
    rw [Lemmas.Ndp.sliceFrom_eq_ok (by omega)]
    rfl

end PV.Lemmas.Icmp6Hunt
