/-
  Invariants of the ICMPv6 hunt machine (Model/Icmp6Hunt.lean), the in-flight bound after StopHunt /
  Close, and the router-advertisement learning step against Spec/NdpWire.lean.
-/
import PacketVerif.Model.Icmp6Hunt
import PacketVerif.Lemmas.NdpExact
namespace PV.Lemmas.Icmp6Hunt
open PV PV.Model.Ndp PV.Model.Icmp6Hunt PV.Spec.NdpWire PV.Lemmas.NdpExact

@[simp] theorem updLoop_same (f : Nat → Loop) (i : Nat) (l : Loop) : updLoop f i l i = l := by simp [updLoop]
theorem updLoop_other (f : Nat → Loop) (i j : Nat) (l : Loop) (h : j ≠ i) : updLoop f i l j = f j := by
  simp [updLoop, h]

def keys (s : State) : List Bytes := s.routers.map (·.1)

structure Inv (s : State) : Prop where
  nodup : s.hunt.Nodup
  sendOK : ∀ i p, (s.loops i).pc = .send p → s.defaultRouter.isSome = true ∧ p ≠ [] ∧ ∀ r ∈ p, r ∈ keys s
  started : ∀ i, (s.loops i).pc ≠ .done → (s.loops i).mac ∈ s.started
  huntStarted : ∀ m ∈ s.hunt, m ∈ s.started
  fresh : ∀ i, s.nloops ≤ i → (s.loops i).pc = .done
  defKey : ∀ ip, s.defaultRouter = some ip → ip ∈ keys s

theorem inv_init : Inv {} := by
  constructor <;> simp [keys]

theorem keys_learn (s : State) (r : RaIn) (hdr : RaHeader) (o : Options) :
    ∀ k, k ∈ keys s → k ∈ keys (learn s r hdr o) := by
  intro k hk
  unfold learn
  split
  · simp only [keys, List.map_map]
    simp only [keys] at hk
    obtain ⟨e, he, rfl⟩ := List.mem_map.1 hk
    apply List.mem_map.2
    refine ⟨e, he, ?_⟩
    simp only [Function.comp]
    split <;> rfl
  · simp only [keys, List.map_append, List.mem_append]
    left; exact hk

theorem learn_fields (s : State) (r : RaIn) (hdr : RaHeader) (o : Options) :
    (learn s r hdr o).hunt = s.hunt ∧ (learn s r hdr o).closed = s.closed ∧
    (learn s r hdr o).loops = s.loops ∧ (learn s r hdr o).nloops = s.nloops ∧
    (learn s r hdr o).started = s.started ∧ (learn s r hdr o).rep = s.rep := by
  unfold learn; split <;> simp

theorem learn_default (s : State) (r : RaIn) (hdr : RaHeader) (o : Options) :
    ((learn s r hdr o).defaultRouter = s.defaultRouter ∨ (learn s r hdr o).defaultRouter = some r.ipSrc) ∧
    (s.defaultRouter.isSome = true → (learn s r hdr o).defaultRouter.isSome = true) ∧
    r.ipSrc ∈ keys (learn s r hdr o) := by
  unfold learn
  split
  · rename_i x old hf
    refine ⟨Or.inl rfl, fun h => h, ?_⟩
    have hm := List.mem_of_find?_eq_some hf
    have hp := List.find?_some hf
    simp at hp
    simp only [keys, List.map_map]
    apply List.mem_map.2
    refine ⟨_, hm, ?_⟩
    simp [hp]
  · refine ⟨Or.inr rfl, fun _ => rfl, ?_⟩
    simp [keys]

theorem raBody_cases (s1 : State) (r : RaIn) (s' : State) (ok : Bool) (h : raBody s1 r = .ok (s', ok)) :
    s' = s1 ∨ ∃ hdr o, s' = learn s1 r hdr o := by
  unfold raBody at h
  by_cases hk : r.hostKnown = false
  · simp only [hk, if_true] at h; cases h; left; rfl
  · simp only [hk] at h
    cases ho : raOptions r.payload with
    | err e => simp only [ho] at h; cases h; left; rfl
    | panic => simp only [ho] at h; cases h
    | hang => simp only [ho] at h; cases h
    | ok o =>
      simp only [ho] at h
      cases hh : raHeader r.payload with
      | err e => simp only [hh] at h; cases h; left; rfl
      | panic => simp only [hh] at h; cases h
      | hang => simp only [hh] at h; cases h
      | ok hdr => simp only [hh] at h; cases h; right; exact ⟨_, _, rfl⟩

/-- every state change of `processRA` is `rep`, or `learn` -/
theorem processRA_cases (s : State) (r : RaIn) (s' : State) (ok : Bool) (h : processRA s r = .ok (s', ok)) :
    s' = s ∨ s' = { s with rep := s.rep + 1 } ∨ ∃ hdr o, s' = learn { s with rep := s.rep + 1 } r hdr o := by
  unfold processRA at h
  by_cases hl : r.payload.length < 16
  · simp only [hl, if_true] at h; cases h; left; rfl
  · simp only [hl, if_false] at h
    by_cases hr : (s.rep + 1) % 4 ≠ 0
    · rw [if_pos hr] at h; cases h; right; left; rfl
    · rw [if_neg hr] at h
      rcases raBody_cases _ r s' ok h with h1 | h2
      · right; left; exact h1
      · right; right; exact h2

theorem inv_of_same_core {s s' : State} (h : Inv s) (hh : s'.hunt = s.hunt) (hl : s'.loops = s.loops)
    (hn : s'.nloops = s.nloops) (hs : s'.started = s.started)
    (hk : ∀ k, k ∈ keys s → k ∈ keys s')
    (hd : s.defaultRouter.isSome = true → s'.defaultRouter.isSome = true)
    (hdk : ∀ ip, s'.defaultRouter = some ip → ip ∈ keys s') : Inv s' := by
  obtain ⟨h1, h2, h3, h4, h5, h6⟩ := h
  refine ⟨by rw [hh]; exact h1, ?_, ?_, ?_, ?_, hdk⟩
  · intro i p hp; rw [hl] at hp
    obtain ⟨a, b, c⟩ := h2 i p hp
    exact ⟨hd a, b, fun r hr => hk r (c r hr)⟩
  · intro i hi; rw [hl] at hi ⊢; rw [hs]; exact h3 i hi
  · intro m hm; rw [hh] at hm; rw [hs]; exact h4 m hm
  · intro i hi; rw [hl]; rw [hn] at hi; exact h5 i hi

theorem inv_step {s s' : State} {e : Event} {o : Out} (h : Inv s) (hs : step s e = some (s', o)) : Inv s' := by
  cases e with
  | envRepeat v =>
    simp only [step] at hs; cases hs
    exact inv_of_same_core h rfl rfl rfl rfl (fun _ hk => hk) (fun hd => hd) h.defKey
  | close =>
    simp only [step] at hs; cases hs
    exact inv_of_same_core h rfl rfl rfl rfl (fun _ hk => hk) (fun hd => hd) h.defKey
  | ra r =>
    simp only [step] at hs
    split at hs
    · rename_i s1 ok hp
      cases hs
      rcases processRA_cases s r _ ok hp with rfl | rfl | ⟨hdr, o', rfl⟩
      · exact h
      · exact inv_of_same_core h rfl rfl rfl rfl (fun _ hk => hk) (fun hd => hd) h.defKey
      · obtain ⟨f1, _, f3, f4, f5, _⟩ := learn_fields { s with rep := s.rep + 1 } r hdr o'
        obtain ⟨g1, g2, g3⟩ := learn_default { s with rep := s.rep + 1 } r hdr o'
        refine inv_of_same_core h f1 f3 f4 f5 (keys_learn { s with rep := s.rep + 1 } r hdr o') g2 ?_
        intro ip hip
        rcases g1 with g | g
        · rw [g] at hip; exact keys_learn { s with rep := s.rep + 1 } r hdr o' ip (h.defKey ip hip)
        · rw [g] at hip; cases hip; exact g3
    · cases hs
  | stopHunt mac eff =>
    simp only [step] at hs
    split at hs
    · cases hs
      obtain ⟨h1, h2, h3, h4, h5, h6⟩ := h
      exact ⟨h1.erase mac, h2, h3, fun m hm => h4 m (List.mem_of_mem_erase hm), h5, h6⟩
    · cases hs; exact h
  | startHunt mac cls =>
    simp only [step] at hs
    split at hs
    · cases hs; exact h
    · split at hs
      · cases hs; exact h
      · split at hs
        · cases hs; exact h
        · rename_i hnm
          cases hs
          obtain ⟨h1, h2, h3, h4, h5, h6⟩ := h
          refine ⟨?_, ?_, ?_, ?_, ?_, h6⟩
          · exact List.nodup_append.2 ⟨h1, by simp, by
              intro a ha b hb; simp at hb; subst hb; intro he; subst he; exact hnm ha⟩
          · intro i p hp
            by_cases hi : i = s.nloops
            · subst hi; simp at hp
            · simp only [updLoop_other _ _ _ _ hi] at hp; exact h2 i p hp
          · intro i hi
            by_cases hi' : i = s.nloops
            · subst hi'; simp
            · simp only [updLoop_other _ _ _ _ hi'] at hi ⊢
              exact List.mem_cons_of_mem _ (h3 i hi)
          · intro m hm
            simp at hm
            rcases hm with hm | rfl
            · exact List.mem_cons_of_mem _ (h4 m hm)
            · simp
          · intro i hi
            have : i ≠ s.nloops := by simp at hi; omega
            simp only [updLoop_other _ _ _ _ this]
            exact h5 i (by simp at hi; omega)
  | check i =>
    simp only [step] at hs
    obtain ⟨h1, h2, h3, h4, h5, h6⟩ := h
    have upd : ∀ (pc' : Pc), (∀ p, pc' = .send p → s.defaultRouter.isSome = true ∧ p ≠ [] ∧ ∀ r ∈ p, r ∈ keys s) →
        (s.loops i).pc ≠ .done →
        Inv { s with loops := updLoop s.loops i { s.loops i with pc := pc' } } := by
      intro pc' hpc hnd
      refine ⟨h1, ?_, ?_, h4, ?_, h6⟩
      · intro j p hp
        by_cases hj : j = i
        · subst hj; simp at hp; exact hpc p hp
        · simp only [updLoop_other _ _ _ _ hj] at hp; exact h2 j p hp
      · intro j hj
        by_cases hji : j = i
        · subst hji; simp; exact h3 j hnd
        · simp only [updLoop_other _ _ _ _ hji] at hj ⊢; exact h3 j hj
      · intro j hj
        by_cases hji : j = i
        · subst hji; exact absurd (h5 j hj) hnd
        · simp only [updLoop_other _ _ _ _ hji]; exact h5 j hj
    split at hs
    · rename_i hc
      have hnd : (s.loops i).pc ≠ .done := by rw [hc]; simp
      split at hs
      · cases hs
        -- the loop ends: pc = done
        refine ⟨h1, ?_, ?_, h4, ?_, h6⟩
        · intro j p hp
          by_cases hj : j = i
          · subst hj; simp at hp
          · simp only [updLoop_other _ _ _ _ hj] at hp; exact h2 j p hp
        · intro j hj
          by_cases hji : j = i
          · subst hji; simp at hj
          · simp only [updLoop_other _ _ _ _ hji] at hj ⊢; exact h3 j hj
        · intro j hj
          by_cases hji : j = i
          · subst hji; simp
          · simp only [updLoop_other _ _ _ _ hji]; exact h5 j hj
      · split at hs
        · rename_i hdef
          split at hs
          · cases hs; exact upd .wait (by intro p hp; cases hp) hnd
          · rename_i l hl
            cases hs
            apply upd _ _ hnd
            intro p hp
            cases hp
            refine ⟨hdef, ?_, fun r hr => hr⟩
            intro he; exact hl he
        · cases hs; exact upd .wait (by intro p hp; cases hp) hnd
    · cases hs
  | send i r =>
    simp only [step] at hs
    obtain ⟨h1, h2, h3, h4, h5, h6⟩ := h
    split at hs
    · rename_i p hp
      split at hs
      · rename_i hr
        cases hs
        obtain ⟨a, b, c⟩ := h2 i p hp
        have hnd : (s.loops i).pc ≠ .done := by rw [hp]; simp
        refine ⟨h1, ?_, ?_, h4, ?_, h6⟩
        · intro j q hq
          by_cases hj : j = i
          · subst hj
            simp at hq
            split at hq
            · cases hq
            · rename_i hne
              cases hq
              refine ⟨a, ?_, fun x hx => c x (List.mem_of_mem_erase hx)⟩
              intro he; apply hne; simpa using he
          · simp only [updLoop_other _ _ _ _ hj] at hq; exact h2 j q hq
        · intro j hj
          by_cases hji : j = i
          · subst hji; simp; exact h3 j hnd
          · simp only [updLoop_other _ _ _ _ hji] at hj ⊢; exact h3 j hj
        · intro j hj
          by_cases hji : j = i
          · subst hji; exact absurd (h5 j hj) hnd
          · simp only [updLoop_other _ _ _ _ hji]; exact h5 j hj
      · cases hs
    · cases hs
  | wake i =>
    simp only [step] at hs
    obtain ⟨h1, h2, h3, h4, h5, h6⟩ := h
    split at hs
    · rename_i hw
      cases hs
      have hnd : (s.loops i).pc ≠ .done := by rw [hw]; simp
      refine ⟨h1, ?_, ?_, h4, ?_, h6⟩
      · intro j q hq
        by_cases hj : j = i
        · subst hj; simp at hq
        · simp only [updLoop_other _ _ _ _ hj] at hq; exact h2 j q hq
      · intro j hj
        by_cases hji : j = i
        · subst hji; simp; exact h3 j hnd
        · simp only [updLoop_other _ _ _ _ hji] at hj ⊢; exact h3 j hj
      · intro j hj
        by_cases hji : j = i
        · subst hji; exact absurd (h5 j hj) hnd
        · simp only [updLoop_other _ _ _ _ hji]; exact h5 j hj
    · cases hs

theorem inv_run {s s' : State} {tr : List Event} {os : List Out} (h : Inv s)
    (hr : run s tr = some (s', os)) : Inv s' := by
  induction tr generalizing s os with
  | nil => simp [run] at hr; obtain ⟨rfl, _⟩ := hr; exact h
  | cons e es ih =>
    simp only [run] at hr
    cases hs : step s e with
    | none => simp [hs] at hr
    | some p =>
      obtain ⟨s1, o⟩ := p
      simp only [hs] at hr
      cases hr2 : run s1 es with
      | none => simp [hr2] at hr
      | some q =>
        obtain ⟨s2, os2⟩ := q
        simp only [hr2] at hr
        cases hr
        exact ih (inv_step h hs) hr2


/-! ### the in-flight bound -/

/-- advertisements loop `i` may still write without passing its check again -/
def budget (l : Loop) : Nat :=
  match l.pc with
  | .send p => p.length
  | _ => 0

/-- number of frames written by loop `i` in a trace -/
def sendsOf (i : Nat) : List Event → Nat
  | [] => 0
  | .send j _ :: rest => (if j = i then 1 else 0) + sendsOf i rest
  | _ :: rest => sendsOf i rest

/-- no StartHunt for `mac` that would be accepted (address-less or link-local target) -/
def NoRestart (mac : Bytes) (tr : List Event) : Prop :=
  ∀ e ∈ tr, ∀ cls, e = .startHunt mac cls → cls = .v4 ∨ cls = .other6

/-- loop `i` cannot pass its check: its MAC is not hunted, or the handler is closed -/
def Blocked (s : State) (i : Nat) : Prop := (s.loops i).mac ∉ s.hunt ∨ s.closed = true

theorem blocked_step {s s' : State} {e : Event} {o : Out} (i : Nat) (hi : i < s.nloops)
    (hb : Blocked s i) (hs : step s e = some (s', o))
    (hn : ∀ cls, e = .startHunt (s.loops i).mac cls → cls = .v4 ∨ cls = .other6) :
    i < s'.nloops ∧ (s'.loops i).mac = (s.loops i).mac ∧ Blocked s' i ∧
    budget (s'.loops i) + (match e with | .send j _ => if j = i then 1 else 0 | _ => 0) ≤ budget (s.loops i) := by
  cases e with
  | envRepeat v => simp only [step] at hs; cases hs; exact ⟨hi, rfl, hb, Nat.le_refl _⟩
  | close =>
    simp only [step] at hs; cases hs
    exact ⟨hi, rfl, Or.inr rfl, Nat.le_refl _⟩
  | ra r =>
    simp only [step] at hs
    split at hs
    · rename_i s1 ok hp
      cases hs
      rcases processRA_cases s r _ ok hp with rfl | rfl | ⟨hdr, o', rfl⟩
      · exact ⟨hi, rfl, hb, Nat.le_refl _⟩
      · exact ⟨hi, rfl, hb, Nat.le_refl _⟩
      · obtain ⟨f1, f2, f3, f4, _, _⟩ := learn_fields { s with rep := s.rep + 1 } r hdr o'
        refine ⟨by rw [f4]; exact hi, by rw [f3], ?_, by rw [f3]; exact Nat.le_refl _⟩
        unfold Blocked; rw [f1, f2, f3]; exact hb
    · cases hs
  | stopHunt mac eff =>
    simp only [step] at hs
    split at hs
    · cases hs
      refine ⟨hi, rfl, ?_, Nat.le_refl _⟩
      rcases hb with hb | hb
      · left; intro hm; exact hb (List.mem_of_mem_erase hm)
      · right; exact hb
    · cases hs; exact ⟨hi, rfl, hb, Nat.le_refl _⟩
  | startHunt mac cls =>
    simp only [step] at hs
    split at hs
    · cases hs; exact ⟨hi, rfl, hb, Nat.le_refl _⟩
    · split at hs
      · cases hs; exact ⟨hi, rfl, hb, Nat.le_refl _⟩
      · split at hs
        · cases hs; exact ⟨hi, rfl, hb, Nat.le_refl _⟩
        · rename_i hc1 hc2 hnm
          cases hs
          have hne : i ≠ s.nloops := by omega
          have hmac : mac ≠ (s.loops i).mac := by
            intro he; subst he
            rcases hn cls rfl with h | h
            · exact hc1 h
            · exact hc2 h
          refine ⟨by simp; omega, by simp only [updLoop_other _ _ _ _ hne], ?_, by
            simp only [updLoop_other _ _ _ _ hne]; exact Nat.le_refl _⟩
          unfold Blocked
          simp only [updLoop_other _ _ _ _ hne]
          rcases hb with hb | hb
          · left; intro hm
            simp at hm
            rcases hm with hm | hm
            · exact hb hm
            · exact hmac hm.symm
          · right; exact hb
  | check j =>
    simp only [step] at hs
    split at hs
    · rename_i hc
      by_cases hji : j = i
      · subst hji
        -- the blocked loop ends here
        have hcond : (s.loops j).mac ∉ s.hunt ∨ s.closed = true := hb
        simp only [hcond, if_true] at hs
        cases hs
        refine ⟨hi, by simp, ?_, by simp [budget]⟩
        unfold Blocked at hb ⊢; simpa using hb
      · have hij : i ≠ j := fun h => hji h.symm
        have key : ∀ (l : Loop) (o' : Out), (s' , o) = ({ s with loops := updLoop s.loops j l }, o') →
            i < s'.nloops ∧ (s'.loops i).mac = (s.loops i).mac ∧ Blocked s' i ∧
              budget (s'.loops i) + 0 ≤ budget (s.loops i) := by
          intro l o' he
          cases he
          refine ⟨hi, by simp only [updLoop_other _ _ _ _ hij], ?_, by
            simp only [updLoop_other _ _ _ _ hij]; exact Nat.le_refl _⟩
          unfold Blocked; simp only [updLoop_other _ _ _ _ hij]; exact hb
        split at hs
        · cases hs; exact key _ _ rfl
        · split at hs
          · split at hs
            · cases hs; exact key _ _ rfl
            · cases hs; exact key _ _ rfl
          · cases hs; exact key _ _ rfl
    · cases hs
  | send j r =>
    simp only [step] at hs
    split at hs
    · rename_i p hp
      split at hs
      · rename_i hr
        cases hs
        by_cases hji : j = i
        · subst hji
          refine ⟨hi, by simp, ?_, ?_⟩
          · unfold Blocked at hb ⊢; simpa using hb
          · simp only [updLoop_same, if_true]
            have hlen : (p.erase r).length = p.length - 1 := List.length_erase_of_mem hr
            have hpos : 0 < p.length := List.length_pos_of_mem hr
            by_cases he : (p.erase r).isEmpty = true
            · simp only [budget, he, if_true, hp]; omega
            · have he' : (p.erase r).isEmpty = false := by simpa using he
              simp only [budget, he', hp, Bool.false_eq_true, if_false]; omega
        · have hij : i ≠ j := fun h => hji h.symm
          refine ⟨hi, by simp only [updLoop_other _ _ _ _ hij], ?_, by
            simp only [updLoop_other _ _ _ _ hij, hji, if_false]; exact Nat.le_refl _⟩
          unfold Blocked; simp only [updLoop_other _ _ _ _ hij]; exact hb
      · cases hs
    · cases hs
  | wake j =>
    simp only [step] at hs
    split at hs
    · rename_i hw
      cases hs
      by_cases hji : j = i
      · subst hji
        refine ⟨hi, by simp, ?_, by simp [budget, hw]⟩
        unfold Blocked at hb ⊢; simpa using hb
      · have hij : i ≠ j := fun h => hji h.symm
        refine ⟨hi, by simp only [updLoop_other _ _ _ _ hij], ?_, by
          simp only [updLoop_other _ _ _ _ hij]; exact Nat.le_refl _⟩
        unfold Blocked; simp only [updLoop_other _ _ _ _ hij]; exact hb
    · cases hs

/-- **in-flight bound**: once loop `i` is blocked (its MAC was removed from the hunt list, or the
    handler was closed) and is not restarted, it writes at most the advertisements of the iteration
    it is in – none if it is not between its check and the end of its sends. -/
theorem blocked_run : ∀ (tr : List Event) (s s' : State) (os : List Out) (i : Nat), i < s.nloops →
    Blocked s i → NoRestart (s.loops i).mac tr → run s tr = some (s', os) →
    sendsOf i tr ≤ budget (s.loops i)
  | [], _, _, _, _, _, _, _, _ => by simp [sendsOf]
  | e :: es, s, s', os, i, hi, hb, hn, hr => by
    simp only [run] at hr
    cases hs : step s e with
    | none => simp [hs] at hr
    | some p =>
      obtain ⟨s1, o⟩ := p
      simp only [hs] at hr
      cases hr2 : run s1 es with
      | none => simp [hr2] at hr
      | some q =>
        obtain ⟨s2, os2⟩ := q
        obtain ⟨a, b, c, d⟩ := blocked_step i hi hb hs (fun cls he => hn e (by simp) cls he)
        have ih := blocked_run es s1 s2 os2 i a c (by
          rw [b]; intro e' he' cls hc; exact hn e' (by simp [he']) cls hc) hr2
        cases e <;> simp only [sendsOf] <;> simp only at d <;> omega


/-! ### learning a router from an advertisement -/

def ofFixed (f : RaFixed) : RaHeader :=
  { curHopLimit := f.curHopLimit, managed := f.managed, other := f.other, preference := f.preference,
    lifetime := f.lifetime, reachable := f.reachable, retrans := f.retrans }

/-- the fixed part of the advertisement: the code's view getters against the reference -/
theorem raHeader_eq (p : Bytes) (h : 16 ≤ p.length) :
    ∃ fx, decodeRaFixed p = some (fx, p.drop 16) ∧ raHeader p = .ok (ofFixed fx) := by
  match p, h with
  | a0 :: a1 :: a2 :: a3 :: hop :: fl :: l1 :: l0 :: r3 :: r2 :: r1 :: r0 :: t3 :: t2 :: t1 :: t0 :: opts, _ =>
    refine ⟨_, rfl, ?_⟩
    simp [raHeader, idx, slice, u16be, u32be, be32_nat32, be16_nat16, ofFixed]
    exact ⟨bit80' fl, bit40' fl, by have := pref_bits fl; simpa using this⟩

/-- the router entry stored for `ip` -/
def entry (s : State) (ip : Bytes) : Option Router := (s.routers.find? (fun e => e.1 = ip)).map (·.2)

theorem find_map_update (l : List (Bytes × Router)) (ip : Bytes) (nw : Router) :
    (l.find? (fun e => e.1 = ip)).isSome = true →
    (l.map (fun e => if e.1 = ip then (e.1, nw) else e)).find? (fun e => e.1 = ip) = some (ip, nw) := by
  induction l with
  | nil => simp
  | cons a t ih =>
    intro h
    by_cases ha : a.1 = ip
    · simp [ha]
    · simp only [List.find?, ha, decide_false] at h
      simp only [List.map, ha, if_false, List.find?, decide_false]
      exact ih h

theorem find_append_new (l : List (Bytes × Router)) (ip : Bytes) (nw : Router) :
    l.find? (fun e => e.1 = ip) = none →
    (l ++ [(ip, nw)]).find? (fun e => e.1 = ip) = some (ip, nw) := by
  intro h
  rw [List.find?_append, h]
  simp

/-- what `learn` stores: header and options of this advertisement; the MAC recorded when the router
    was first seen (source link-layer option, else the Ethernet source) is kept afterwards -/
theorem learn_entry (s : State) (r : RaIn) (hdr : RaHeader) (o : Options) :
    entry (learn s r hdr o) r.ipSrc =
      some { mac := match entry s r.ipSrc with
                    | some old => old.mac
                    | none => raMac o r.etherSrc,
             ip := match entry s r.ipSrc with
                    | some old => old.ip
                    | none => r.ipSrc,
             hdr := hdr, options := o } := by
  unfold learn entry
  cases hf : s.routers.find? (fun e => e.1 = r.ipSrc) with
  | none =>
    simp only [find_append_new _ _ _ hf]
    simp
  | some e =>
    obtain ⟨k, old⟩ := e
    simp only
    rw [find_map_update _ _ _ (by simp [hf])]
    simp

/-- `raOptions` on a message of at least 16 bytes parses exactly the bytes after the fixed part -/
theorem raOptions_drop (p : Bytes) (h : 16 ≤ p.length) : raOptions p = newParseOptions (p.drop 16) := by
  unfold raOptions
  by_cases hl : p.length ≤ 16
  · have : p.drop 16 = [] := by apply List.drop_eq_nil_of_le; omega
    simp only [hl, if_true, this]
    rfl
  · simp only [hl, if_false]
    rw [Lemmas.Ndp.sliceFrom_eq_ok (by omega)]
    rfl

end PV.Lemmas.Icmp6Hunt
