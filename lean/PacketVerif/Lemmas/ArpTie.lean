/-
  Lemmas for Props/C13ArpTie: the regenerated ARP spoofing handler (Gen/ArpGen.lean) against the models
  (Model/Encode.lean `sendARP`, Model/Handlers.lean `arpProcess`, Model/ArpHunt.lean `step`).
-/
import PacketVerif.Gen.ArpGen
import PacketVerif.Lemmas.Ndp
set_option linter.unusedSimpArgs false
namespace PV.Lemmas.ArpTie
open PV PV.Model PV.Model.ArpGo PV.Gen.Arp

theorem bind_assoc {α β γ} (x : Outcome α) (f : α → Outcome β) (g : β → Outcome γ) :
    (x >>= f) >>= g = x >>= fun a => f a >>= g := by cases x <;> rfl

/-- what `RequestRaw` / `reply` do: the frame `sendARP` builds is written to `dst` -/
def sendFrame (e : Env) (st : HSt) (dst : Bytes) (op : Nat) (sm si tm ti : Bytes) : Outcome (HSt × Option Err) :=
  sendARP e.pool e.cfg.parse.hostMAC dst op sm si tm ti >>= fun f => connWriteTo e st f dst

theorem encodeARP_nil (m : Mem) (op : Nat) (a b c d : Bytes) : encodeARP m (nilSl m) op a b c d = .panic := by
  unfold encodeARP nilSl Sl.cap; simp

theorem send_core (e : Env) (st : HSt) (dst : Bytes) (op : Nat) (sm si tm ti : Bytes) :
    (do let (m, t1) ← encodeEther (poolGet e) (whole (poolGet e)) 2054 e.cfg.parse.hostMAC dst
        let t2 ← etherPayloadArg m t1
        let (m, t3) ← encodeARP m t2 op sm si tm ti
        let (t4, t4_err) ← etherSetPayloadE m t1 t3
        if (t4_err.isSome) then pure (st, t4_err)
        else do
          let (st, t5) ← connWriteTo e st (t4.bytes m) dst
          pure (st, t5)) = sendFrame e st dst op sm si tm ti := by
  unfold sendFrame sendARP poolGet
  simp only [bind_assoc]
  cases h1 : encodeEther e.pool (whole e.pool) 2054 e.cfg.parse.hostMAC dst with
  | ok r =>
    obtain ⟨m, t1⟩ := r
    simp only [Outcome.bind_ok]
    unfold etherPayloadArg
    simp only [bind_assoc]
    cases h2 : etherPayloadSl m t1 with
    | ok o =>
      cases o with
      | none => simp only [Outcome.bind_ok, Outcome.pure_eq, encodeARP_nil, Outcome.bind_panic]
      | some pay =>
        simp only [Outcome.bind_ok, Outcome.pure_eq]
        cases h3 : encodeARP m pay op sm si tm ti with
        | ok r2 =>
          obtain ⟨m2, a⟩ := r2
          simp only [Outcome.bind_ok]
          unfold etherSetPayloadE
          simp only [bind_assoc]
          cases h4 : etherSetPayload m2 t1 a.len with
          | ok f =>
            simp only [Outcome.bind_ok, Outcome.pure_eq, Option.isSome_none, Bool.false_eq_true, if_false]
            cases connWriteTo e st (f.bytes m2) dst <;> rfl
          | err x => rfl
          | panic => rfl
          | hang => rfl
        | err x => rfl
        | panic => rfl
        | hang => rfl
    | err x => rfl
    | panic => rfl
    | hang => rfl
  | err x => rfl
  | panic => rfl
  | hang => rfl

theorem reply_eq (e : Env) (st : HSt) (dst sm si tm ti : Bytes) :
    Handler_reply e st dst sm si tm ti = sendFrame e st dst 2 sm si tm ti := by
  rw [← send_core]; rfl

theorem requestRaw_eq (e : Env) (st : HSt) (dst sm si tm ti : Bytes) :
    Handler_RequestRaw e st dst sm si tm ti = sendFrame e st dst 1 sm si tm ti := by
  rw [← send_core]; rfl

theorem bind_pair_eta {α β} (x : Outcome (α × β)) : (x >>= fun r => match r with | (a, b) => pure (a, b)) = x := by
  cases x <;> rfl

theorem Reply_eq (e : Env) (st : HSt) (dst sm si tm ti : Bytes) :
    Handler_Reply e st dst sm si tm ti = sendFrame e st dst 2 sm si tm ti := by
  unfold Handler_Reply; rw [reply_eq]; exact bind_pair_eta _


theorem Request_eq (e : Env) (st : HSt) (tip : Bytes) :
    Handler_Request e st tip =
      if ipIs4 tip then sendFrame e st ethernetBroadcast 1 e.cfg.parse.hostMAC e.hostIP ethernetBroadcast tip
      else .ok (st, some .invalidIP) := by
  unfold Handler_Request; rw [requestRaw_eq]
  cases ipIs4 tip
  · rfl
  · exact bind_pair_eta _

theorem RequestTo_eq (e : Env) (st : HSt) (dst tip : Bytes) :
    Handler_RequestTo e st dst tip =
      if ipIs4 tip then sendFrame e st dst 1 e.cfg.parse.hostMAC e.hostIP ethernetBroadcast tip
      else .ok (st, some .invalidIP) := by
  unfold Handler_RequestTo; rw [requestRaw_eq]
  cases ipIs4 tip
  · rfl
  · exact bind_pair_eta _

theorem Probe_eq (e : Env) (st : HSt) (ip : Bytes) :
    Handler_Probe e st ip = sendFrame e st ethernetBroadcast 1 e.cfg.parse.hostMAC ipv4zero ethernetZero ip := by
  unfold Handler_Probe; rw [requestRaw_eq]; exact bind_pair_eta _

theorem AnnounceTo_eq (e : Env) (st : HSt) (dst ip : Bytes) :
    Handler_AnnounceTo e st dst ip = sendFrame e st dst 1 e.cfg.parse.hostMAC ip ethernetBroadcast ip := by
  unfold Handler_AnnounceTo; rw [requestRaw_eq]; exact bind_pair_eta _

/-! ### the hunt list -/

theorem mapLookup_ok (h : HuntMap) (k : Bytes) : (mapLookup h k).2.2 = decide (k ∈ keys h) := by
  unfold mapLookup keys
  induction h with
  | nil => simp
  | cons x t ih =>
    simp only [List.find?_cons, List.map_cons, List.mem_cons]
    by_cases hx : x.1 = k
    · simp [hx]
    · have : (x.1 == k) = false := by simpa using hx
      rw [this]; simp only [ih]
      have : ¬ k = x.1 := fun h => hx h.symm
      simp [this]

theorem mapSet_fresh (h : HuntMap) (k vm vi : Bytes) (hk : k ∉ keys h) : mapSet h k vm vi = (k, (vm, vi)) :: h := by
  unfold mapSet
  have : h.any (fun x => x.1 == k) = false := by
    rw [List.any_eq_false]; intro x hx hc
    apply hk; unfold keys; rw [List.mem_map]; exact ⟨x, hx, by simpa using hc⟩
  rw [this]; rfl

theorem keys_mapDel (h : HuntMap) (k : Bytes) : keys (mapDel h k) = (keys h).erase k := by
  unfold keys mapDel
  induction h with
  | nil => rfl
  | cons x t ih =>
    simp only [List.eraseP_cons, List.map_cons, List.erase_cons]
    by_cases hx : x.1 = k
    · simp [hx]
    · have h1 : (x.1 == k) = false := by simpa using hx
      rw [h1]; simp only [Bool.false_eq_true, if_false, cond_false, List.map_cons, ih]

theorem mapDel_absent (h : HuntMap) (k : Bytes) (hk : k ∉ keys h) : mapDel h k = h := by
  unfold mapDel
  apply List.eraseP_of_forall_not
  intro x hx hc
  apply hk; unfold keys; rw [List.mem_map]; exact ⟨x, hx, by simpa using hc⟩

/-! ### the API functions in closed form -/

theorem Close_eq (e : Env) (st : HSt) :
    Handler_Close e st =
      if st.closed then .ok (st, none)
      else (chanClose { st with closed := true } >>= fun st' => .ok (st', none)) := by
  unfold Handler_Close; cases st.closed <;> rfl

theorem isClosed_eq (e : Env) (st : HSt) : Handler_isClosed e st = .ok (st, st.closed) := rfl

theorem findHuntByIP_eq (e : Env) (st : HSt) (ip : Bytes) :
    Handler_findHuntByIP e st ip =
      match (mapVals st.hunt).find? (fun v => v.2 == ip) with
      | some v => .ok (st, v, true)
      | none => .ok (st, ([], []), false) := by
  unfold Handler_findHuntByIP; cases (mapVals st.hunt).find? (fun v => v.2 == ip) <;> rfl

theorem IsHunting_eq (e : Env) (st : HSt) (ip : Bytes) :
    Handler_IsHunting e st ip = .ok (st, (mapVals st.hunt).any (fun v => v.2 == ip)) := by
  unfold Handler_IsHunting; rw [findHuntByIP_eq]
  cases h : (mapVals st.hunt).find? (fun v => v.2 == ip) with
  | some v =>
    have := List.find?_some h
    have hm := List.mem_of_find?_eq_some h
    have : (mapVals st.hunt).any (fun v => v.2 == ip) = true := List.any_eq_true.2 ⟨v, hm, this⟩
    rw [this]; rfl
  | none =>
    have : (mapVals st.hunt).any (fun v => v.2 == ip) = false := by
      rw [List.any_eq_false]; intro x hx; exact List.find?_eq_none.1 h x hx
    rw [this]; rfl

theorem StartHunt_eq (e : Env) (st : HSt) (mac ip : Bytes) :
    Handler_StartHunt e st mac ip =
      if macIsNil mac || !ipIs4 ip then .ok (st, 0, some .invalidIP)
      else if mac ∈ keys st.hunt then .ok (st, 2, none)
      else .ok (spawn { st with hunt := (mac, (mac, ip)) :: st.hunt } mac ip, 2, none) := by
  unfold Handler_StartHunt
  cases hc : (macIsNil mac || !ipIs4 ip)
  · simp only [Bool.false_eq_true, if_false]
    have hl := mapLookup_ok st.hunt mac
    by_cases hk : mac ∈ keys st.hunt
    · rw [if_pos hk]; simp only [hk, decide_true] at hl
      show (if (mapLookup st.hunt mac).2.2 = true then _ else _) = _
      rw [if_pos hl]; rfl
    · rw [if_neg hk]; simp only [hk, decide_false] at hl
      show (if (mapLookup st.hunt mac).2.2 = true then _ else _) = _
      rw [if_neg (by simp [hl]), mapSet_fresh _ _ _ _ hk]; rfl
  · rfl

theorem StopHunt_eq (e : Env) (st : HSt) (mac ip : Bytes) :
    Handler_StopHunt e st mac ip = .ok ({ st with hunt := mapDel st.hunt mac }, 1, none) := by
  unfold Handler_StopHunt
  have hl := mapLookup_ok st.hunt mac
  show (if (mapLookup st.hunt mac).2.2 = true then _ else _) = _
  by_cases hk : mac ∈ keys st.hunt
  · simp only [hk, decide_true] at hl; rw [if_pos hl]; rfl
  · simp only [hk, decide_false] at hl; rw [if_neg (by simp [hl]), mapDel_absent _ _ hk]; rfl

/-- one pass of `spoofLoop`'s body -/
theorem spoofLoop_eq (e : Env) (st : HSt) (mac ip : Bytes) :
    Handler_spoofLoop_iter e st mac ip =
      if (mapLookup st.hunt mac).2.2 = true ∧ st.closed = false then
        -- forged announcement "router IP is at our MAC", to the MAC stored in the hunt list; the loop waits unless the write failed
        (sendFrame e st (mapLookup st.hunt mac).1 1 e.cfg.parse.hostMAC e.cfg.routerIP ethernetBroadcast e.cfg.routerIP
          >>= fun r => .ok (r.1, if r.2.isSome then LoopCtl.ret else LoopCtl.wait))
      else if st.closed = false then
        -- restoring request (the router's real MAC and IP) to the loop's own target, then the goroutine ends
        (sendFrame e st mac 1 e.cfg.parse.routerMAC e.cfg.routerIP e.cfg.parse.routerMAC e.cfg.routerIP
          >>= fun r => .ok (r.1, LoopCtl.ret))
      else .ok (st, LoopCtl.ret) := by
  unfold Handler_spoofLoop_iter
  simp only [AnnounceTo_eq, requestRaw_eq]
  rcases hm : mapLookup st.hunt mac with ⟨a, b, c⟩
  cases c <;> cases h2 : st.closed <;>
    simp only [Bool.not_true, Bool.not_false, Bool.or_false, Bool.or_true, Bool.false_eq_true, if_true, if_false, true_and, and_true,
      false_and, and_false, Bool.true_or, Bool.false_or, and_self]
  · cases sendFrame e st mac 1 e.cfg.parse.routerMAC e.cfg.routerIP e.cfg.parse.routerMAC e.cfg.routerIP <;> rfl
  · rfl
  · cases hs : sendFrame e st a 1 e.cfg.parse.hostMAC e.cfg.routerIP ethernetBroadcast e.cfg.routerIP with
    | ok r => obtain ⟨a, b⟩ := r; cases b <;> rfl
    | err x => rfl
    | panic => rfl
    | hang => rfl
  · rfl

end PV.Lemmas.ArpTie
