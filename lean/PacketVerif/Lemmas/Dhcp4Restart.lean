/-
  Helper lemmas for the restart theorems (Props/C18Restart): what `newSubnet` makes of the expectations of `Config.New`,
  the lease loop over a saved table (records without client identifier are skipped), the table of the restarted handler,
  the prefix arithmetic of a lease moved between the home and the netfilter subnet, the invariant "an allocated lease
  carries no pending offer", and the preservation of C11's table invariant by a restart.
-/
import PacketVerif.Props.C18
import PacketVerif.Model.Dhcp4Restart
namespace PV.Lemmas.Dhcp4Restart
open PV PV.Model.Dhcp4Srv PV.Model.Dhcp4File PV.Model.Dhcp4Restart PV.Lemmas.Dhcp4Srv PV.Props PV.Props.C18 PV.Spec.Ledger

/-! ### `newSubnet` on the expectations of `Config.New` -/

theorem newSubnet_expected_inv (e : Expected) (n : LSub) (h : newSubnet (expectedRec e) = .ok n) :
    n = { lan := e.lan / psize e.bits * psize e.bits, bits := e.bits, gw := e.gw, server := .v4 e.server, dns := .v4 e.dns,
          first := e.lan / psize e.bits * psize e.bits + 1, dur := 14400, stage := e.stage }
    ∧ e.lan / psize e.bits * psize e.bits + 1 < 4294967296 ∧ (e.stage = 1 ∨ e.stage = 3)
    ∧ pcontains (e.lan / psize e.bits * psize e.bits) e.bits e.gw = true
    ∧ pcontains (e.lan / psize e.bits * psize e.bits) e.bits (e.lan / psize e.bits * psize e.bits + 1) = true
    ∧ e.dns ≠ 0 := by
  unfold newSubnet expectedRec at h
  simp only [] at h
  by_cases hlt : e.lan / psize e.bits * psize e.bits + 1 < 4294967296
  · simp only [hlt, if_true] at h
    by_cases hs : (e.stage != 1 && e.stage != 3) = true
    · simp [hs] at h
    · by_cases hg : pcontains (e.lan / psize e.bits * psize e.bits) e.bits e.gw = true
      · by_cases hf : pcontains (e.lan / psize e.bits * psize e.bits) e.bits (e.lan / psize e.bits * psize e.bits + 1) = true
        · by_cases hd : e.dns = 0
          · simp [hs, hg, hf, hd] at h
          · simp [hs, hg, hf, hd] at h
            refine ⟨h.symm, hlt, ?_, hg, hf, hd⟩
            simp at hs
            by_cases h1 : e.stage = 1
            · exact Or.inl h1
            · exact Or.inr (hs h1)
        · simp [hs, hg, hf] at h
      · simp [hs, hg] at h
  · simp only [hlt, if_false] at h
    by_cases hs : (e.stage != 1 && e.stage != 3) = true
    · simp [hs] at h
    · by_cases hg : pcontains (e.lan / psize e.bits * psize e.bits) e.bits e.gw = true
      · simp [hs, hg] at h
      · simp [hs, hg] at h

/-- what `newSubnet` built from an expectation is accepted again unchanged when read back from the file -/
theorem newSubnet_resave (e : Expected) (n : LSub) (h : newSubnet (expectedRec e) = .ok n) :
    newSubnet (subRecOf n) = .ok n := by
  obtain ⟨rfl, hlt, hst, hg, hf, hd⟩ := newSubnet_expected_inv e n h
  have hp : 0 < psize e.bits := Nat.two_pow_pos _
  have hm : e.lan / psize e.bits * psize e.bits / psize e.bits * psize e.bits = e.lan / psize e.bits * psize e.bits := by
    rw [Nat.mul_div_cancel _ hp]
  unfold newSubnet subRecOf
  simp only [hm, hlt, if_true, hg, hf]
  rcases hst with h1 | h1 <;> simp [h1, hd, hf]

theorem configChanged_expected (e : Expected) (n : LSub) (h : newSubnet (expectedRec e) = .ok n) :
    configChanged e n = false := by
  obtain ⟨rfl, _⟩ := newSubnet_expected_inv e n h
  simp [configChanged]


/-! ### the lease loop over a saved table -/

/-- a lease `saveConfig` writes and `loadByteArray` accepts up to its client-identifier test -/
def Loadable (n1 : LSub) (e : Cid × Lease) : Prop :=
  e.2.state = .allocated ∧ ∃ ip, e.2.ip = some ip ∧ pcontains n1.lan n1.bits ip = true

/-- the lease loop over saved records: records without client identifier are skipped, the others re-attached -/
theorem loadLeases_saved_all (captured : MAC → Bool) (n1 n2 : LSub) :
    ∀ (xs : List (Cid × Lease)) (t : Table), (∀ e, e ∈ xs → Loadable n1 e) →
      loadLeases captured (some n1) (some n2) (xs.map leaseRecOf) t
        = .ok ((xs.filter (fun e => !e.1.isEmpty)).foldl (fun t e => setLease t e.1 (reloaded captured n2 e.2)) t)
  | [], t, _ => rfl
  | e :: xs, t, hg => by
    obtain ⟨hs, ip, hip, hc⟩ := hg e (List.mem_cons_self ..)
    have ih := loadLeases_saved_all captured n1 n2 xs
    have hrest : ∀ x, x ∈ xs → Loadable n1 x := fun x hx => hg x (List.mem_cons_of_mem _ hx)
    simp only [List.map_cons]
    unfold loadLeases
    have e1 : (leaseRecOf e).state = 2 := rfl
    have e2 : (leaseRecOf e).ip = .v4 ip := by simp [leaseRecOf, hip]
    have hcid : (leaseRecOf e).cid = e.1 := rfl
    by_cases hemp : e.1.isEmpty = true
    · have hf : (e :: xs).filter (fun e => !e.1.isEmpty) = xs.filter (fun e => !e.1.isEmpty) := by
        simp [hemp]
      simp only [e1, e2, hc, hcid, hemp, bne_self_eq_false, Bool.false_eq_true, if_false, Bool.not_true, if_true, hf]
      exact ih t hrest
    · have hemp' : e.1.isEmpty = false := by simpa using hemp
      have hf : (e :: xs).filter (fun e => !e.1.isEmpty) = e :: xs.filter (fun e => !e.1.isEmpty) := by
        simp [hemp']
      have hl : ∀ sub, loadedLease (leaseRecOf e) ip sub = { e.2 with sub := sub } := by
        intro sub
        obtain ⟨c, l⟩ := e
        cases l
        simp_all [leaseRecOf, loadedLease]
      have hmac : (leaseRecOf e).mac = e.2.mac := rfl
      simp only [e1, e2, hc, hcid, hemp', bne_self_eq_false, Bool.false_eq_true, if_false, Bool.not_true, hl, hf,
        List.foldl_cons, hmac]
      unfold reloaded
      rw [hip]
      simp only [Option.getD_some]
      by_cases hcap : captured e.2.mac = true
      · simp only [hcap, if_true, Bool.true_and]
        by_cases hp : attachNet2 n2 ip = true
        · simp only [hp, if_true]
          exact ih _ hrest
        · simp only [hp]
          exact ih _ hrest
      · simp only [hcap, Bool.false_and]
        exact ih _ hrest

/-- **the table of the restarted handler**: for a handler whose subnets are the configured ones and whose allocated leases
    carry an address of the home prefix, `Config.New` over the saved file succeeds, keeps the subnets, and its table holds
    exactly the allocated leases with a non-empty client identifier, each re-attached (`reloaded`) -/
theorem rebuilt_table (home nf : Expected) (capt : List MAC) (n1 n2 : LSub) (t : Table)
    (h1 : newSubnet (subRecOf n1) = .ok n1) (h2 : newSubnet (subRecOf n2) = .ok n2)
    (hc1 : configChanged home n1 = false) (hc2 : configChanged nf n2 = false)
    (hk : KeysUnique t) (hg : ∀ e, e ∈ t → e.2.state = .allocated → Loadable n1 e) :
    ∃ b', rebuilt home nf n1 n2 t capt = .ok b' ∧ b'.net1 = n1 ∧ b'.net2 = n2 ∧ KeysUnique b'.table
      ∧ ∀ c l', (c, l') ∈ b'.table ↔
          ∃ l, (c, l) ∈ t ∧ l.state = .allocated ∧ c ≠ [] ∧ l' = reloaded (fun m => capt.contains m) n2 l := by
  let xs := t.filter (fun e => e.2.state == .allocated)
  let ys := xs.filter (fun e => !e.1.isEmpty)
  have hxs : ∀ e, e ∈ xs → Loadable n1 e := by
    intro e he
    have := List.mem_filter.1 he
    exact hg e this.1 (by simpa using this.2)
  have hnod : (ys.map (·.1)).Nodup :=
    List.Nodup.sublist (List.Sublist.map _ (List.filter_sublist.trans List.filter_sublist)) hk
  have hload := loadLeases_saved_all (fun m => capt.contains m) n1 n2 xs [] hxs
  refine ⟨{ net1 := n1, net2 := n2,
            table := ys.foldl (fun t e => setLease t e.1 (reloaded (fun m => capt.contains m) n2 e.2)) [] }, ?_, rfl, rfl, ?_, ?_⟩
  · unfold rebuilt construct
    simp only [save, loadRec, h1, h2, Option.getD_some]
    rw [hload]
    simp only [hc1, hc2, Bool.or_self, Bool.false_eq_true, if_false]
    rfl
  · exact fold_keys ys [] (by simp [KeysUnique])
  · intro c l'
    constructor
    · intro hm
      rcases fold_mem_of ys [] c l' hm with h0 | ⟨e, he, rfl, rfl⟩
      · simp at h0
      · have hy := List.mem_filter.1 he
        have hx := List.mem_filter.1 hy.1
        refine ⟨e.2, hx.1, by simpa using hx.2, ?_, rfl⟩
        intro hn
        have := hy.2
        rw [hn] at this
        simp at this
    · rintro ⟨l, hm, hs, hne, rfl⟩
      refine fold_mem ys [] (c, l) (List.mem_filter.2 ⟨List.mem_filter.2 ⟨hm, by simpa using hs⟩, ?_⟩) hnod
      cases c with
      | nil => exact absurd rfl hne
      | cons a b => simp


/-! ### prefix arithmetic: a subnet inside a subnet -/

/-- an address of the inner prefix (size `q`) that is the network address of the outer prefix (a multiple of `q * k`)
    is the network address of the inner prefix -/
theorem inner_lan (q k a ip : Nat) (h : ip = a * (q * k)) : ip / q * q = ip := by
  have hd : q ∣ ip := ⟨a * k, by rw [h, Nat.mul_comm q k, ← Nat.mul_assoc, Nat.mul_comm]⟩
  exact Nat.div_mul_cancel hd

/-- an address that is the broadcast address of the outer prefix is the broadcast address of the inner prefix it lies in -/
theorem inner_bcast (q k a ip : Nat) (hq : 0 < q) (hk : 0 < k) (h : ip = a * (q * k) + (q * k - 1)) :
    ip / q * q + (q - 1) = ip := by
  obtain ⟨k', rfl⟩ : ∃ k', k = k' + 1 := ⟨k - 1, by omega⟩
  have e1 : a * (q * (k' + 1)) = q * (a * (k' + 1)) := by
    rw [Nat.mul_comm a, Nat.mul_assoc, Nat.mul_comm (k' + 1) a]
  have e2 : q * (k' + 1) = q * k' + q := Nat.mul_succ q k'
  have e3 : ip = q * (a * (k' + 1) + k') + (q - 1) := by
    rw [Nat.mul_add, h, e1, e2]; omega
  have e4 : ip / q = a * (k' + 1) + k' := by
    rw [e3, Nat.mul_add_div hq, Nat.div_eq_of_lt (by omega)]; rfl
  rw [e4, Nat.mul_comm, ← e3]

theorem masked_lan (a bits : Nat) : a / 2 ^ (32 - bits) * 2 ^ (32 - bits) / 2 ^ (32 - bits) * 2 ^ (32 - bits)
    = a / 2 ^ (32 - bits) * 2 ^ (32 - bits) := by
  rw [C12.masked_div]

/-- the home prefix size is a multiple of the netfilter prefix size when `New` accepts the configuration -/
theorem accepted_sizes (n : NewCfg) (ha : n.accepted = true) :
    ∃ k, 0 < k ∧ 2 ^ (32 - n.homeBits) = 2 ^ (32 - n.nfBits) * k := by
  unfold NewCfg.accepted at ha
  simp only [Bool.and_eq_true, beq_iff_eq, decide_eq_true_eq] at ha
  refine ⟨2 ^ ((32 - n.homeBits) - (32 - n.nfBits)), Nat.two_pow_pos _, ?_⟩
  rw [← Nat.pow_add]; congr 1; omega

/-- **a lease moved from the netfilter subnet to the home subnet keeps a usable address**: a host address of the netfilter
    subnet that is neither our address nor the router's is a host address of the home LAN (the netfilter prefix lies
    inside the home prefix, so it is not the home network or broadcast address; the home gateway is the router) -/
theorem usable_net2_net1 (n : NewCfg) (ha : n.accepted = true) (ip : IP)
    (h : usable (mkCfg n) .net2 ip = true) : usable (mkCfg n) .net1 ip = true := by
  have hc2 : (mkCfg n).net2.contains ip = true := by
    unfold usable at h
    simp only [Bool.and_eq_true] at h
    exact h.1.1.1.1.1
  have hc1 := C12.accepted_net2_in_net1 n ha ip hc2
  obtain ⟨k, hk, hsz⟩ := accepted_sizes n ha
  unfold usable at h ⊢
  simp only [Cfg.sub, Bool.and_eq_true, bne_iff_ne, ne_eq] at h ⊢
  obtain ⟨⟨⟨⟨⟨_, hl⟩, hb⟩, _⟩, hh⟩, hr⟩ := h
  refine ⟨⟨⟨⟨⟨hc1, ?_⟩, ?_⟩, ?_⟩, hh⟩, hr⟩
  · -- not the home network address
    intro e
    apply hl
    simp only [mkCfg, mkSubnet, Subnet.contains, Subnet.size, beq_iff_eq, C12.masked_div] at hc2 e ⊢
    have := inner_lan (2 ^ (32 - n.nfBits)) k (n.homeLan / 2 ^ (32 - n.homeBits)) ip (by rw [e, hsz])
    rw [← this, hc2]
  · -- not the home broadcast address
    intro e
    apply hb
    simp only [mkCfg, mkSubnet, Subnet.contains, Subnet.bcast, Subnet.size, beq_iff_eq, C12.masked_div] at hc2 e ⊢
    have := inner_bcast (2 ^ (32 - n.nfBits)) k (n.homeLan / 2 ^ (32 - n.homeBits)) ip (Nat.two_pow_pos _) hk
      (by rw [e, hsz])
    rw [← hc2]; exact this.symm
  · -- the home gateway is the router
    exact hr

/-- **a lease moved from the home subnet to the netfilter subnet keeps a usable address**: `loadByteArray` moves it only
    when the address is a host address of the netfilter subnet other than its gateway -/
theorem usable_net1_net2 (n : NewCfg) (ip : IP) (h : usable (mkCfg n) .net1 ip = true)
    (hat : attachNet2 (lsubOf (mkCfg n).net2 3) ip = true) : usable (mkCfg n) .net2 ip = true := by
  unfold usable at h ⊢
  unfold attachNet2 at hat
  simp only [Cfg.sub, Bool.and_eq_true, bne_iff_ne, ne_eq] at h hat ⊢
  obtain ⟨⟨⟨⟨⟨_, _⟩, _⟩, _⟩, hh⟩, hr⟩ := h
  obtain ⟨⟨⟨hc, hl⟩, hb⟩, hg⟩ := hat
  refine ⟨⟨⟨⟨⟨?_, hl⟩, ?_⟩, hg⟩, hh⟩, hr⟩
  · simpa [lsubOf, pcontains, psize, Subnet.contains, Subnet.size] using hc
  · simp only [lsubOf, psize, mkCfg, mkSubnet] at hb
    simp only [mkCfg, mkSubnet, Subnet.bcast, Subnet.size, C12.masked_div]
    exact hb

/-- a usable address is not 0.0.0.0 (the network address of a masked prefix is excluded) -/
theorem usable_ne_zero (n : NewCfg) (sub : SubId) (ip : IP) (h : usable (mkCfg n) sub ip = true) : ip ≠ 0 := by
  unfold usable at h
  simp only [Bool.and_eq_true, bne_iff_ne, ne_eq] at h
  obtain ⟨⟨⟨⟨⟨hc, hl⟩, _⟩, _⟩, _⟩, _⟩ := h
  intro e
  apply hl
  cases sub <;>
    simp only [Cfg.sub, mkCfg, mkSubnet, Subnet.contains, Subnet.size, beq_iff_eq, C12.masked_div] at hc ⊢ <;>
    rw [← hc, e] <;> simp

/-! ### an allocated lease carries no pending offer -/

/-- the ACK tail clears the offer it confirms, DISCOVER leaves the lease in discover state: an allocated lease never
    carries an offer (so `saveConfig` never writes one, and a re-attached lease has no address validated for another subnet) -/
def AllocNoOffer (t : Table) : Prop := ∀ c l, (c, l) ∈ t → l.state = .allocated → l.offer = none

theorem ano_set {t : Table} (h : AllocNoOffer t) (c : Cid) (v : Lease) (hv : v.state = .allocated → v.offer = none) :
    AllocNoOffer (setLease t c v) := by
  intro k l hm hs
  rcases mem_setLease.1 hm with ⟨_, rfl⟩ | ⟨_, m⟩
  · exact hv hs
  · exact h k l m hs

theorem ano_del {t : Table} (h : AllocNoOffer t) (c : Cid) : AllocNoOffer (delLease t c) :=
  fun k l hm hs => h k l (mem_delLease.1 hm).2 hs

theorem foc_ano {s : State} (h : AllocNoOffer s.table) (c : Cid) (mac : MAC) :
    (findOrCreate s c mac).state = .allocated → (findOrCreate s c mac).offer = none := by
  rcases findOrCreate_cases s c mac with hm | hf
  · exact h _ _ hm.1
  · rw [hf]; intro _; rfl

theorem ano_step {cfg : Cfg} {s : State} (h : AllocNoOffer s.table) (op : Op) (o : State × List Reply)
    (ho : o ∈ step cfg s op) : AllocNoOffer o.1.table := by
  cases op with
  | discover now m =>
    simp only [step, List.mem_singleton] at ho; subst ho
    rcases discover_outcome cfg s now m with ⟨cur, e⟩ | ⟨s1, ip, _, _, _, e, _⟩ <;> rw [e]
    · exact ano_del h _
    · exact ano_set h _ _ (by intro a; simp [offerLease] at a)
  | request now m =>
    simp only [step, List.mem_singleton] at ho; subst ho
    rcases request_outcome cfg s now m with e | ⟨l', rs, hk, e, _⟩ | ⟨hv, e⟩
    · rw [e]; exact h
    · rw [e]
      rcases verdict_kept hk with rfl | ⟨rfl, _⟩
      · exact ano_set h _ _ (foc_ano h _ _)
      · exact ano_set h _ _ (by intro a; simp [freedLease] at a)
    · rw [e, ackLease_eq]
      have ha := verdict_ack hv
      refine ano_set h _ _ ?_
      intro _
      unfold ackedLease
      by_cases hd : (findOrCreate s (clientId m) m.chaddr).state = .discover
      · simp [hd]
      · simp only [hd, if_false]
        apply foc_ano h
        cases hs : (findOrCreate s (clientId m) m.chaddr).state
        · exact absurd hs ha.notFree
        · exact absurd hs hd
        · rfl
  | decline m =>
    simp only [step, List.mem_singleton] at ho; subst ho
    rcases decline_outcome cfg s m with e | e <;> rw [e]
    · exact ano_set h _ _ (foc_ano h _ _)
    · exact ano_set h _ _ (by intro a; simp [declinedLease] at a)
  | release m =>
    simp only [step, List.mem_singleton] at ho; subst ho
    exact ano_set h _ _ (foc_ano h _ _)
  | minuteTick now =>
    simp only [step, List.mem_singleton] at ho; subst ho
    intro k l hm hs
    obtain ⟨l0, hm0, r⟩ := mem_freeLeases hm
    rcases r with rfl | ⟨rfl, _⟩
    · exact h k _ hm0 hs
    · simp at hs
  | capture mac => simp only [step, List.mem_singleton] at ho; subst ho; exact h
  | releaseCapture mac => simp only [step, List.mem_singleton] at ho; subst ho; exact h
  | hostSeen ip mac => simp only [step, List.mem_singleton] at ho; subst ho; exact h
  | hostGone ip => simp only [step, List.mem_singleton] at ho; subst ho; exact h

/-- the invariant of histories with restarts: C11's table invariant and "allocated ⇒ no pending offer" -/
structure RInv (cfg : Cfg) (s : State) : Prop where
  tinv : TInv cfg s.table
  ano : AllocNoOffer s.table

theorem rinv_init (cfg : Cfg) : RInv cfg (init cfg) := ⟨tinv_nil cfg, by intro c l hm; simp [init] at hm⟩

theorem rinv_step {cfg : Cfg} {s : State} (h : RInv cfg s) (op : Op) (o : State × List Reply)
    (ho : o ∈ step cfg s op) : RInv cfg o.1 :=
  ⟨C11.inv_step h.tinv op o ho, ano_step h.ano op o ho⟩


/-! ### the restarted server -/

/-- `Config.New` returns a handler for `n` (no lease file, or a reset): both `newSubnet` calls succeed, i.e. the router lies
    in the home LAN, the DNS server is not 0.0.0.0, the prefixes are not at the very end of the address space -/
def News (n : NewCfg) : Prop :=
  ∃ n1 n2, newSubnet (expectedRec (homeExp n)) = .ok n1 ∧ newSubnet (expectedRec (nfExp n)) = .ok n2

/-- the subnets of that handler are the subnets of C12's `mkCfg` -/
theorem news_lsubs (n : NewCfg) (h : News n) :
    newSubnet (expectedRec (homeExp n)) = .ok (lsubOf (mkCfg n).net1 1)
    ∧ newSubnet (expectedRec (nfExp n)) = .ok (lsubOf (mkCfg n).net2 3) := by
  obtain ⟨n1, n2, h1, h2⟩ := h
  obtain ⟨e1, _⟩ := newSubnet_expected_inv _ _ h1
  obtain ⟨e2, _⟩ := newSubnet_expected_inv _ _ h2
  constructor
  · rw [h1, e1]; rfl
  · rw [h2, e2]; rfl

theorem loadable_of_tinv (n : NewCfg) (ha : n.accepted = true) {t : Table} (hI : TInv (mkCfg n) t) :
    ∀ e, e ∈ t → e.2.state = .allocated → Loadable (lsubOf (mkCfg n).net1 1) e := by
  intro e he hst
  cases e with
  | mk c l =>
    have hok := hI.ok c l he
    have hsome := hok.allocSome hst
    cases hip : l.ip with
    | none => rw [hip] at hsome; simp at hsome
    | some ip =>
      refine ⟨hst, ip, hip, ?_⟩
      have hus := hok.ipUsable ip hip
      have hc : ((mkCfg n).sub l.sub).contains ip = true := by
        unfold usable at hus
        simp only [Bool.and_eq_true] at hus
        exact hus.1.1.1.1.1
      have h1 : (mkCfg n).net1.contains ip = true := by
        cases hsub : l.sub <;> rw [hsub] at hc
        · exact hc
        · exact C12.accepted_net2_in_net1 n ha ip hc
      simpa [pcontains, psize, lsubOf, Subnet.contains, Subnet.size] using h1

/-- **the restart operation is defined and deterministic**, and its table is exactly the allocated leases with a client
    identifier, each re-attached by `loadByteArray`'s rule; the cursors restart at `FirstIP` -/
theorem restart_spec (n : NewCfg) (ha : n.accepted = true) (hn : News n) (t : Table) (hI : TInv (mkCfg n) t)
    (capt : List MAC) (hosts : List (IP × MAC)) :
    ∃ s', restart n t capt hosts = [s'] ∧ s'.next1 = (mkCfg n).net1.first ∧ s'.next2 = (mkCfg n).net2.first
      ∧ s'.hosts = hosts ∧ s'.captured = capt ∧ KeysUnique s'.table
      ∧ ∀ c l', (c, l') ∈ s'.table ↔
          ∃ l, (c, l) ∈ t ∧ l.state = .allocated ∧ c ≠ []
            ∧ l' = reloaded (fun m => capt.contains m) (lsubOf (mkCfg n).net2 3) l := by
  obtain ⟨hn1, hn2⟩ := news_lsubs n hn
  obtain ⟨b', hb, e1, e2, hk, hm⟩ := rebuilt_table (homeExp n) (nfExp n) capt (lsubOf (mkCfg n).net1 1)
    (lsubOf (mkCfg n).net2 3) t (newSubnet_resave _ _ hn1) (newSubnet_resave _ _ hn2)
    (configChanged_expected _ _ hn1) (configChanged_expected _ _ hn2) hI.keys (loadable_of_tinv n ha hI)
  refine ⟨stateOf b' capt hosts, ?_, ?_, ?_, rfl, rfl, hk, hm⟩
  · simp only [restart, restartWith, hb]
  · simp only [stateOf, e1]; rfl
  · simp only [stateOf, e2]; rfl

theorem reloaded_fields (capt : MAC → Bool) (n2 : LSub) (l : Lease) :
    (reloaded capt n2 l).state = l.state ∧ (reloaded capt n2 l).ip = l.ip ∧ (reloaded capt n2 l).offer = l.offer
    ∧ (reloaded capt n2 l).mac = l.mac ∧ (reloaded capt n2 l).expiry = l.expiry ∧ (reloaded capt n2 l).xid = l.xid :=
  ⟨rfl, rfl, rfl, rfl, rfl, rfl⟩

/-- a re-attached allocated lease is well-formed for its new subnet -/
theorem leaseOK_reloaded (n : NewCfg) (ha : n.accepted = true) {l : Lease} (hok : LeaseOK (mkCfg n) l)
    (hs : l.state = .allocated) (hno : l.offer = none) (capt : MAC → Bool) :
    LeaseOK (mkCfg n) (reloaded capt (lsubOf (mkCfg n).net2 3) l) := by
  refine ⟨?_, ?_, ?_, ?_⟩
  · intro ip hip
    have hip' : l.ip = some ip := hip
    have hus := hok.ipUsable ip hip'
    show usable (mkCfg n) (if capt l.mac && attachNet2 (lsubOf (mkCfg n).net2 3) (l.ip.getD 0) then SubId.net2 else SubId.net1) ip = true
    rw [hip']
    simp only [Option.getD_some]
    by_cases hc : (capt l.mac && attachNet2 (lsubOf (mkCfg n).net2 3) ip) = true
    · simp only [hc, if_true]
      simp only [Bool.and_eq_true] at hc
      cases hsub : l.sub <;> rw [hsub] at hus
      · exact usable_net1_net2 n ip hus hc.2
      · exact hus
    · simp only [hc]
      cases hsub : l.sub <;> rw [hsub] at hus
      · exact hus
      · exact usable_net2_net1 n ha ip hus
  · intro ip hip
    have : l.offer = some ip := hip
    rw [hno] at this; cases this
  · intro _; exact hok.allocSome hs
  · intro hd
    have : l.state = .discover := hd
    rw [hs] at this; cases this

theorem restart_rinv (n : NewCfg) (ha : n.accepted = true) (hn : News n) {t : Table} (hT : TInv (mkCfg n) t)
    (hA : AllocNoOffer t) (capt : List MAC) (hosts : List (IP × MAC)) :
    ∀ s', s' ∈ restart n t capt hosts → RInv (mkCfg n) s' := by
  have h : RInv (mkCfg n) { table := t, next1 := 0, next2 := 0, hosts := [], captured := [] } := ⟨hT, hA⟩
  obtain ⟨s0, e, _, _, _, _, hk, hm⟩ := restart_spec n ha hn t hT capt hosts
  intro s' hs'
  rw [e, List.mem_singleton] at hs'
  subst hs'
  refine ⟨⟨?_, ?_, hk⟩, ?_⟩
  · intro c1 l1 c2 l2 m1 m2 a1 a2 e12
    obtain ⟨p1, q1, _, _, rfl⟩ := (hm c1 l1).1 m1
    obtain ⟨p2, q2, _, _, rfl⟩ := (hm c2 l2).1 m2
    exact h.tinv.uniq c1 p1 c2 p2 q1 q2 a1 a2 e12
  · intro c l m
    obtain ⟨p, q, hs, _, rfl⟩ := (hm c l).1 m
    exact leaseOK_reloaded n ha (h.tinv.ok c p q) hs (h.ano c p q hs) _
  · intro c l m hs
    obtain ⟨p, q, hs', _, rfl⟩ := (hm c l).1 m
    exact h.ano c p q hs'


/-! ### the process (server + lease file) with restarts and the observer's ledger -/

/-- a restart is invisible on the wire: the acknowledgements in force stay in force -/
def observeR (L : Ledger) : ROp → List Reply → Ledger
  | .op o, rs => observe L o rs
  | .restart _ _, _ => L

/-- runs of the process together with the observer's ledger -/
def runR (n : NewCfg) : PState → Ledger → List ROp → List (PState × Ledger)
  | p, L, [] => [(p, L)]
  | p, L, op :: ops => (stepP n p op).flatMap (fun o => runR n o.1 (observeR L op o.2) ops)

/-- messages carry a hardware address (see `C18.OpWF`); a restart is unconstrained -/
def WFOp : ROp → Prop
  | .op o => OpWF o
  | .restart _ _ => True

def KeysNE (t : Table) : Prop := ∀ e, e ∈ t → e.1 ≠ []

theorem getLease_of_mem {t : Table} (hk : KeysUnique t) {c : Cid} {l : Lease} (hm : (c, l) ∈ t) : getLease t c = some l := by
  unfold getLease
  induction t with
  | nil => simp at hm
  | cons e es ih =>
    unfold KeysUnique at hk
    simp only [List.map_cons, List.nodup_cons] at hk
    rcases List.mem_cons.1 hm with rfl | hm'
    · simp [List.find?]
    · have hne : (e.1 == c) = false := by
        apply beq_false_of_ne
        intro he
        apply hk.1
        rw [he]
        exact List.mem_map.2 ⟨(c, l), hm', rfl⟩
      simp only [List.find?, hne]
      exact ih hk.2 hm'

/-- a step that sends no ACK allocates nothing: every allocated lease of the post-state is the same entry of the pre-state -/
theorem alloc_of_no_ack {cfg : Cfg} {s : State} (op : Op) (o : State × List Reply) (ho : o ∈ step cfg s op)
    (hna : acked o.2 = false) : ∀ c l, (c, l) ∈ o.1.table → l.state = .allocated → (c, l) ∈ s.table := by
  have hset : ∀ (c : Cid) (v : Lease), (v.state = .allocated → (c, v) ∈ s.table) →
      ∀ k l, (k, l) ∈ setLease s.table c v → l.state = .allocated → (k, l) ∈ s.table := by
    intro c v hv k l hm hs
    rcases mem_setLease.1 hm with ⟨rfl, rfl⟩ | ⟨_, m⟩
    · exact hv hs
    · exact m
  have hfoc : ∀ (c : Cid) (mac : MAC), (findOrCreate s c mac).state = .allocated → (c, findOrCreate s c mac) ∈ s.table := by
    intro c mac hs
    rcases findOrCreate_cases s c mac with hm | hf
    · exact hm.1
    · rw [hf] at hs; simp [freshLease] at hs
  cases op with
  | discover now m =>
    simp only [step, List.mem_singleton] at ho; subst ho
    rcases discover_outcome cfg s now m with ⟨cur, e⟩ | ⟨s1, ip, _, _, _, e, _⟩ <;> rw [e]
    · intro c l hm _; exact (mem_delLease.1 hm).2
    · exact hset _ _ (by intro a; simp [offerLease] at a)
  | request now m =>
    simp only [step, List.mem_singleton] at ho; subst ho
    rcases request_outcome cfg s now m with e | ⟨l', rs, hk, e, _⟩ | ⟨hv, e⟩
    · rw [e]; intro c l hm _; exact hm
    · rw [e]
      rcases verdict_kept hk with rfl | ⟨rfl, _⟩
      · exact hset _ _ (hfoc _ _)
      · exact hset _ _ (by intro a; simp [freedLease] at a)
    · rw [e, ackLease_eq] at hna
      simp [acked, mkReply] at hna
  | decline m =>
    simp only [step, List.mem_singleton] at ho; subst ho
    rcases decline_outcome cfg s m with e | e <;> rw [e]
    · exact hset _ _ (hfoc _ _)
    · exact hset _ _ (by intro a; simp [declinedLease] at a)
  | release m =>
    simp only [step, List.mem_singleton] at ho; subst ho
    exact hset _ _ (hfoc _ _)
  | minuteTick now =>
    simp only [step, List.mem_singleton] at ho; subst ho
    intro k l hm hs
    obtain ⟨l0, hm0, r⟩ := mem_freeLeases hm
    rcases r with rfl | ⟨rfl, _⟩
    · exact hm0
    · simp at hs
  | capture mac => simp only [step, List.mem_singleton] at ho; subst ho; intro c l hm _; exact hm
  | releaseCapture mac => simp only [step, List.mem_singleton] at ho; subst ho; intro c l hm _; exact hm
  | hostSeen ip mac => simp only [step, List.mem_singleton] at ho; subst ho; intro c l hm _; exact hm
  | hostGone ip => simp only [step, List.mem_singleton] at ho; subst ho; intro c l hm _; exact hm

/-- without an ACK the observer's ledger only shrinks -/
theorem observe_subset_of_no_ack (L : Ledger) (op : Op) (rs : List Reply) (hna : acked rs = false) :
    ∀ b, b ∈ observe L op rs → b ∈ L := by
  have hf : rs.filter (fun r => r.typ == .ack) = [] := by
    apply List.filter_eq_nil_iff.2
    intro r hr
    unfold acked at hna
    rw [List.any_eq_false] at hna
    exact hna r hr
  intro b hb
  cases op <;> simp only [observe, subject, hf, List.map_nil, List.append_nil, List.mem_filter] at hb
  all_goals first | exact hb.1 | exact hb

/-- the invariant of the process: C11's table invariant and "allocated ⇒ no pending offer" for the handler's table AND
    for the table in the lease file, and every allocated lease of the handler is in the file as it is -/
structure PInv (cfg : Cfg) (p : PState) : Prop where
  cur : RInv cfg p.s
  fileT : TInv cfg p.file
  fileA : AllocNoOffer p.file
  covers : ∀ c l, (c, l) ∈ p.s.table → l.state = .allocated → (c, l) ∈ p.file

theorem pinv_init (n : NewCfg) : PInv (mkCfg n) (initP n) :=
  ⟨rinv_init _, tinv_nil _, by intro c l hm; simp [initP] at hm, by intro c l hm; simp [initP, init] at hm⟩

theorem pinv_stepP (n : NewCfg) (ha : n.accepted = true) (hn : News n) {p : PState} (h : PInv (mkCfg n) p) (op : ROp)
    (o : PState × List Reply) (ho : o ∈ stepP n p op) : PInv (mkCfg n) o.1 := by
  cases op with
  | op q =>
    simp only [stepP, List.mem_map] at ho
    obtain ⟨r, hr, rfl⟩ := ho
    have hc := rinv_step h.cur q r hr
    by_cases hack : acked r.2 = true
    · exact ⟨hc, by simp only [fileAfter, hack, if_true]; exact hc.tinv, by simp only [fileAfter, hack, if_true]; exact hc.ano,
        by intro c l hm _; simp only [fileAfter, hack, if_true]; exact hm⟩
    · have hack' : acked r.2 = false := by simpa using hack
      refine ⟨hc, by simp only [fileAfter, hack', Bool.false_eq_true, if_false]; exact h.fileT,
        by simp only [fileAfter, hack', Bool.false_eq_true, if_false]; exact h.fileA, ?_⟩
      intro c l hm hs
      simp only [fileAfter, hack', Bool.false_eq_true, if_false]
      exact h.covers c l (alloc_of_no_ack q r hr hack' c l hm hs) hs
  | restart capt hosts =>
    simp only [stepP, List.mem_map] at ho
    obtain ⟨s', hs', rfl⟩ := ho
    have hc := restart_rinv n ha hn h.fileT h.fileA capt hosts s' hs'
    exact ⟨hc, hc.tinv, hc.ano, fun c l hm _ => hm⟩

/-- what the ledger refinement needs in addition: client identifiers are not empty (handler and file), and the ledger is
    backed by the file as well as by the handler's table -/
structure PSim (p : PState) (L : Ledger) : Prop where
  keys : KeysNE p.s.table
  fkeys : KeysNE p.file
  sim : C11.Sim p.s L
  fsim : ∀ b, b ∈ L → ∃ l, (b.cid, l) ∈ p.file ∧ l.state = .allocated ∧ l.ip = some b.ip ∧ b.expiry ≤ l.expiry

/-- the ledger stays backed by table and file: an ACK rewrites the file from the table, without ACK the ledger only
    shrinks, a restart reloads every acknowledged lease from the file -/
theorem psim_stepP (n : NewCfg) (ha : n.accepted = true) (hn : News n) {p : PState} {L : Ledger} (h : PInv (mkCfg n) p)
    (hS : PSim p L) (op : ROp) (hw : WFOp op) (o : PState × List Reply) (ho : o ∈ stepP n p op) :
    PSim o.1 (observeR L op o.2) := by
  cases op with
  | op q =>
    simp only [stepP, List.mem_map] at ho
    obtain ⟨r, hr, rfl⟩ := ho
    have hk' := keys_step hS.keys q hw r hr
    have hs' := C11.sim_step h.cur.tinv hS.sim q r hr
    by_cases hack : acked r.2 = true
    · exact ⟨hk', by simp only [fileAfter, hack, if_true]; exact hk', hs',
        by simp only [fileAfter, hack, if_true]; exact hs'⟩
    · have hack' : acked r.2 = false := by simpa using hack
      refine ⟨hk', by simp only [fileAfter, hack', Bool.false_eq_true, if_false]; exact hS.fkeys, hs', ?_⟩
      intro b hb
      simp only [fileAfter, hack', Bool.false_eq_true, if_false]
      exact hS.fsim b (observe_subset_of_no_ack L q r.2 hack' b hb)
  | restart capt hosts =>
    simp only [stepP, List.mem_map] at ho
    obtain ⟨s', hs', rfl⟩ := ho
    obtain ⟨s0, e, _, _, _, _, _, hm⟩ := restart_spec n ha hn p.file h.fileT capt hosts
    rw [e, List.mem_singleton] at hs'
    subst hs'
    have hkeys : KeysNE s'.table := by
      intro e' he'
      cases e' with
      | mk c l =>
        obtain ⟨_, _, _, hc, _⟩ := (hm c l).1 he'
        exact hc
    have hsim : C11.Sim s' L := by
      intro b hb
      obtain ⟨l, hml, hst, hip, hex⟩ := hS.fsim b hb
      exact ⟨_, (hm b.cid _).2 ⟨l, hml, hst, hS.fkeys _ hml, rfl⟩, hst, hip, hex⟩
    exact ⟨hkeys, hkeys, hsim, hsim⟩

/-- no OFFER and no ACK carries the address of an allocated lease of another client (table form of C11 (a') / (b)) -/
theorem given_not_bound {cfg : Cfg} {s : State} (hI : TInv cfg s.table) (op : Op) (m : Msg) (hm : C11.msgOf op = some m)
    (o : State × List Reply) (ho : o ∈ step cfg s op) (r : Reply) (hr : r ∈ o.2) (ht : r.typ ≠ .nak) :
    ∀ k l, (k, l) ∈ s.table → l.state = .allocated → l.ip = some r.yiaddr → k = clientId m := by
  intro k l hkl hst hip
  apply Classical.byContradiction
  intro hne
  cases op with
  | discover now m' =>
    simp only [C11.msgOf, Option.some.injEq] at hm; subst hm
    simp only [step, List.mem_singleton] at ho; subst ho
    rcases discover_outcome cfg s now m' with ⟨cur, e⟩ | ⟨s1, ip, _, _, _, e, hav⟩ <;> rw [e] at hr
    · simp at hr
    · simp only [List.mem_singleton] at hr
      subst hr
      obtain ⟨_, _, _, e4⟩ := discLease_props s now m' _ rfl
      have hu : inUse s.table (clientId m') (some ip) = false := by
        rcases hav with hk | hav
        · exact (e4 _ hk).1.1
        · exact (available_usable hav).2.1
      exact inUse_false hu hkl hne (by rw [hst]; simp) hip
  | request now m' =>
    simp only [C11.msgOf, Option.some.injEq] at hm; subst hm
    simp only [step, List.mem_singleton] at ho; subst ho
    rcases request_outcome cfg s now m' with e | ⟨l', rs, _, e, hn⟩ | ⟨hv, e⟩
    · rw [e] at hr; simp at hr
    · rw [e] at hr; exact ht (hn r hr)
    · rw [e, ackLease_eq] at hr
      simp only [List.mem_singleton] at hr
      have hac := verdict_ack hv
      have hipa := ackedLease_ip hac now
      subst hr
      have hy : (mkReply cfg m' RType.ack (ackedLease cfg now (findOrCreate s (clientId m') m'.chaddr))
          (ackedLease cfg now (findOrCreate s (clientId m') m'.chaddr)).ip).yiaddr = reqIPOf m' := by
        simp only [mkReply, hipa, Option.getD_some]
      rw [hy] at hip
      exact noClash_acked hI hac now rfl k l hkl hne hst (by rw [hipa]; exact hip)
  | decline m' =>
    simp only [step, List.mem_singleton] at ho; subst ho
    rcases decline_outcome cfg s m' with e | e <;> rw [e] at hr <;> simp at hr
  | release m' =>
    simp only [step, List.mem_singleton] at ho; subst ho
    simp [release] at hr
  | minuteTick _ => simp [C11.msgOf] at hm
  | capture _ => simp [C11.msgOf] at hm
  | releaseCapture _ => simp [C11.msgOf] at hm
  | hostSeen _ _ => simp [C11.msgOf] at hm
  | hostGone _ => simp [C11.msgOf] at hm


/-- a REQUEST without server identifier (renewing, rebinding, rebooting) that names the address of the allocated lease
    the server finds for the client under the subnet selected now is acknowledged, provided the address lies in that
    subnet, the session does not track it for another MAC and — renewing only — the lease time has not run out -/
theorem nonselecting_acked {cfg : Cfg} {s : State} (now : Nat) (m : Msg) (l : Lease)
    (hf : findOrCreate s (clientId m) m.chaddr = l) (hst : l.state = .allocated) (hip : l.ip = some (reqIPOf m))
    (h0 : reqIPOf m ≠ 0) (hkind : reqKind m ≠ .selecting) (hexp : reqKind m = .renewing → ¬ l.expiry < now)
    (hcont : (cfg.sub (selSub s m.chaddr)).contains (reqIPOf m) = true)
    (hfree : takenByOther s m.chaddr (some (reqIPOf m)) = false) :
    request cfg s now m = ackLease cfg s now m (clientId m) l := by
  have hmac : l.mac = m.chaddr := by rw [← hf]; exact findOrCreate_mac _ _ _
  have hv : verdict cfg s now m l = .ack := by
    unfold verdict
    simp only []
    cases hk : reqKind m with
    | selecting => exact absurd hk hkind
    | renewing =>
      have hb : renewBad s now m l = false := by
        unfold renewBad
        simp [hst, hip, hmac, hexp hk, hfree]
      simp [hb]
    | rebinding =>
      have hb : rebootBad s (cfg.sub (selSub s m.chaddr)) m l = false := by
        unfold rebootBad
        simp [hst, hip, hmac, hcont, hfree]
      simp [hst, hb]
    | rebooting =>
      have hb : rebootBad s (cfg.sub (selSub s m.chaddr)) m l = false := by
        unfold rebootBad
        simp [hst, hip, hmac, hcont, hfree]
      simp [hst, hb]
  unfold request
  have h0' : (reqIPOf m == 0) = false := by simpa using h0
  simp only [h0', Bool.false_eq_true, if_false, hf, hv]


/-- decidable form of `WFOp` (for concrete histories) -/
def wfOpB : ROp → Bool
  | .op (.discover _ m) => !m.chaddr.isEmpty
  | .op (.request _ m) => !m.chaddr.isEmpty
  | .op (.decline m) => !m.chaddr.isEmpty
  | .op (.release m) => !m.chaddr.isEmpty
  | _ => true

theorem wfOp_of_B {op : ROp} (h : wfOpB op = true) : WFOp op := by
  have ne : ∀ (b : Bytes), (!b.isEmpty) = true → b ≠ [] := by
    intro b hb e; rw [e] at hb; simp at hb
  cases op with
  | restart _ _ => trivial
  | op p =>
    cases p <;> simp only [WFOp, OpWF, C11.msgOf] <;> intro m hm <;> simp at hm
    all_goals (subst hm; exact ne _ h)

end PV.Lemmas.Dhcp4Restart
