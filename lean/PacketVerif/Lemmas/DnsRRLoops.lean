/-
  Lemmas for the tie of the regenerated `(*DNSEntry).decodeRRs` / `DecodeAnswers` (Gen/LoopsDns.lean, in the monad
  `OutcomeS GDNSEntry`: the entry the pointer receiver points to is the state and survives an error return) with
  `Model.decodeRR` / `decodeRRs` / `decodeAnswers` (Model/DnsRR.lean): the view of the generated entry as the model's
  entry (Go maps as keyed association lists → the model's record lists), map lookups / stores under that view, and the
  one-iteration lemma of the record loop.
-/
import PacketVerif.Props.C17Tie
import PacketVerif.Lemmas.DnsRR
namespace PV.Lemmas.DnsRRLoops
open PV PV.Model PV.Model.LoopGo PV.Model.LoopGoDns PV.Gen.LoopsDns PV.Lemmas.DnsLoops PV.Props.C17Tie

/-! ### the view -/

def ipRecView (r : GIPResourceRecord) : IPRec := { name := r.Name, ip := r.IP, ttl := r.TTL.toNat }
def nameRecView (r : GNameResourceRecord) : NameRec := { name := r.Name, cname := r.CName, ttl := r.TTL.toNat }

/-- a Go map seen as the list of its values in insertion order (a nil map has none) -/
def mapView {κ ν β : Type} (f : ν → β) : GMap κ ν → List β
  | none => []
  | some l => l.map (fun kv => f kv.2)

/-- the generated `DNSEntry` as the model's -/
def entryView (e : GDNSEntry) : DNSEntry :=
  { name := e.Name, ip4 := mapView ipRecView e.IP4Records, ip6 := mapView ipRecView e.IP6Records,
    cname := mapView nameRecView e.CNameRecords, ptr := mapView ipRecView e.PTRRecords }

/-- every key of the map is the key field of its value (what `decodeRRs` maintains: `IP4Records[ip] = {IP: ip, …}`) -/
def Keyed {κ ν : Type} (key : ν → κ) (m : GMap κ ν) : Prop := ∀ l, m = some l → ∀ kv ∈ l, kv.1 = key kv.2

/-- the map is allocated and keyed -/
def KeyedSome {κ ν : Type} (key : ν → κ) (m : GMap κ ν) : Prop := ∃ l, m = some l ∧ ∀ kv ∈ l, kv.1 = key kv.2

/-- the four maps of an entry are keyed by their records (nil maps allowed) -/
structure EntryKeyed (e : GDNSEntry) : Prop where
  ip4 : Keyed (fun r : GIPResourceRecord => r.IP) e.IP4Records
  ip6 : Keyed (fun r : GIPResourceRecord => r.IP) e.IP6Records
  cn : Keyed (fun r : GNameResourceRecord => r.Name) e.CNameRecords
  ptr : Keyed (fun r : GIPResourceRecord => r.Name) e.PTRRecords

/-- … and allocated (the state of the record loop after the four `make`s) -/
structure Good (e : GDNSEntry) : Prop where
  ip4 : KeyedSome (fun r : GIPResourceRecord => r.IP) e.IP4Records
  ip6 : KeyedSome (fun r : GIPResourceRecord => r.IP) e.IP6Records
  cn : KeyedSome (fun r : GNameResourceRecord => r.Name) e.CNameRecords
  ptr : KeyedSome (fun r : GIPResourceRecord => r.Name) e.PTRRecords

theorem mapHas_view {κ ν β : Type} [DecidableEq κ] [BEq κ] [LawfulBEq κ] {key : ν → κ} {m : GMap κ ν} (h : KeyedSome key m) (k : κ)
    (f : ν → β) (keyB : β → κ) (hk : ∀ v, keyB (f v) = key v) :
    mapHas m k = (mapView f m).any (fun r => keyB r == k) := by
  obtain ⟨l, rfl, hl⟩ := h
  simp only [mapHas, mapView, List.any_map]
  induction l with
  | nil => rfl
  | cons kv t ih =>
    have h1 := hl kv (List.mem_cons_self ..)
    simp only [List.any_cons, Function.comp, hk, ← h1]
    rw [ih (fun kv' h' => hl kv' (List.mem_cons_of_mem _ h'))]
    congr 1
    by_cases hc : kv.fst = k <;> simp [hc]

theorem mapSet_fresh {κ ν : Type} [DecidableEq κ] {key : ν → κ} {m : GMap κ ν} (h : KeyedSome key m) (k : κ) (v : ν)
    (hn : mapHas m k = false) (hkv : key v = k) :
    ∃ m', mapSet m k v = .ok m' ∧ KeyedSome key m' ∧ ∀ {β : Type} (f : ν → β), mapView f m' = mapView f m ++ [f v] := by
  obtain ⟨l, rfl, hl⟩ := h
  simp only [mapHas] at hn
  refine ⟨some (l ++ [(k, v)]), ?_, ⟨l ++ [(k, v)], rfl, ?_⟩, ?_⟩
  · simp [mapSet, hn]
  · intro kv hm
    rcases List.mem_append.mp hm with h1 | h1
    · exact hl kv h1
    · simp only [List.mem_singleton] at h1; subst h1; exact hkv.symm
  · intro β f; simp [mapView]

/-! ### the regenerated `decodeName` next to the model's, case by case -/

theorem genName_cases (p : Bytes) (o o' : Int) (ho : o = o') (buffer : Bytes) :
    (∃ b n, ∃ e : Nat, genDecodeName p o buffer 1 = .ok (b, n, (e : Int)) ∧ Model.decodeName p o' 1 = .ok (n, e))
    ∨ (∃ er, genDecodeName p o buffer 1 = .err er ∧ Model.decodeName p o' 1 = .err er)
    ∨ (genDecodeName p o buffer 1 = .panic ∧ Model.decodeName p o' 1 = .panic)
    ∨ (genDecodeName p o buffer 1 = .hang ∧ Model.decodeName p o' 1 = .hang) := by
  subst ho
  have hdn := decodeName_tie p o buffer 1
  revert hdn
  cases hg : genDecodeName p o buffer ((1 : Nat) : Int) with
  | err er => intro hdn; right; left; exact ⟨er, rfl, hdn.symm⟩
  | panic => intro hdn; right; right; left; exact ⟨rfl, hdn.symm⟩
  | hang => intro hdn; right; right; right; exact ⟨rfl, hdn.symm⟩
  | ok v =>
    obtain ⟨b, n, e⟩ := v
    intro hdn
    have hnn := decodeName_end_nonneg p o buffer 1 b n e hg
    obtain ⟨e', rfl⟩ : ∃ e' : Nat, e = (e' : Int) := ⟨e.toNat, by omega⟩
    left
    refine ⟨b, n, e', rfl, ?_⟩
    rw [← hdn]; simp [omap]

/-! ### reads inside the message, as generated and as modelled -/

theorem sliceI2 (p : Bytes) (n : Nat) (i j : Int) (hi : i = n) (hj : j = n + 2) (h : n + 2 ≤ p.length) :
    sliceI p i j = .ok [p[n]'(by omega), p[n + 1]'(by omega)] := by
  rw [sliceI_nat p _ _ n (n + 2) hi (by omega), PV.Lemmas.Dns.slice2 h]

theorem sliceI4 (p : Bytes) (n : Nat) (i j : Int) (hi : i = n) (hj : j = n + 4) (h : n + 4 ≤ p.length) :
    sliceI p i j = .ok [p[n]'(by omega), p[n + 1]'(by omega), p[n + 2]'(by omega), p[n + 3]'(by omega)] := by
  rw [sliceI_nat p _ _ n (n + 4) hi (by omega), PV.Lemmas.Dns.slice4 h]

theorem rd16_val (p : Bytes) (n : Nat) (h : n + 2 ≤ p.length) :
    rd16 p n = .ok ((p[n]'(by omega)).toUInt16 <<< 8 ||| (p[n + 1]'(by omega)).toUInt16).toNat := by
  unfold rd16; rw [PV.Lemmas.Dns.slice2 h, be16_toNat]; rfl

theorem rd32_val (p : Bytes) (n : Nat) (h : n + 4 ≤ p.length) :
    rd32 p n = .ok ((p[n]'(by omega)).toUInt32 <<< 24 ||| (p[n + 1]'(by omega)).toUInt32 <<< 16
      ||| (p[n + 2]'(by omega)).toUInt32 <<< 8 ||| (p[n + 3]'(by omega)).toUInt32).toNat := by
  unfold rd32; rw [PV.Lemmas.Dns.slice4 h, be32_toNat]

theorem u16_eq_iff (x : UInt16) (k : Nat) (hk : k < 65536) : x.toNat = k ↔ x = UInt16.ofNat k := by
  constructor
  · intro h; apply UInt16.toNat_inj.mp; rw [h]; simp [UInt16.toNat_ofNat']; omega
  · intro h; rw [h]; simp [UInt16.toNat_ofNat']; omega

/-! ### running `OutcomeS` do-blocks -/

@[simp] theorem run_pure_bind {σ α β : Type} (a : α) (f : α → OutcomeS σ β) (s : σ) :
    ((pure a : OutcomeS σ α) >>= f).run s = (f a).run s := rfl

theorem run_bind_assoc {σ α β γ : Type} (x : OutcomeS σ α) (g : α → OutcomeS σ β) (f : β → OutcomeS σ γ) (s : σ) :
    ((x >>= g) >>= f).run s = (x >>= fun a => g a >>= f).run s := by
  show OutcomeS.bind (OutcomeS.bind x g) f s = OutcomeS.bind x (fun a => OutcomeS.bind (g a) f) s
  unfold OutcomeS.bind
  rcases x s with ⟨s', o⟩
  cases o <;> rfl

theorem run_ite {σ α : Type} (c : Prop) [Decidable c] (x y : OutcomeS σ α) (s : σ) :
    (if c then x else y).run s = if c then x.run s else y.run s := by
  split <;> rfl

/-- the `if _, found := m[k]; !found { m[k] = v; updated = true }` block of `decodeRRs`, run on the entry -/
theorem insertBlock {κ ν R : Type} [DecidableEq κ] (m : GMap κ ν) (k : κ) (v : ν) (E : GMap κ ν → GDNSEntry) (e : GDNSEntry)
    (updated : Bool) (K : GDNSEntry × Bool → OutcomeS GDNSEntry R) :
    (((if ¬ mapHas m k = true then
          ((monadLift (mapSet m k v) : OutcomeS GDNSEntry _) >>= fun t => putRecv (E t) >>= fun _ => pure (E t, true))
        else pure (e, updated)) : OutcomeS GDNSEntry (GDNSEntry × Bool)) >>= K).run e
    = if mapHas m k = true then (K (e, updated)).run e
      else match mapSet m k v with
        | .ok m' => (K (E m', true)).run (E m')
        | .err er => (e, .err er)
        | .panic => (e, .panic)
        | .hang => (e, .hang) := by
  by_cases h : mapHas m k = true
  · simp only [h, not_true, if_false, if_true, run_pure_bind]
  · have h' : mapHas m k = false := Bool.eq_false_iff.mpr h
    rw [h']
    simp only [Bool.false_eq_true, not_false_eq_true, if_true, if_false, run_bind_assoc, OutcomeS.run_bind_lift]
    cases mapSet m k v <;> simp only [OutcomeS.run_bind_putRecv, run_pure_bind]

theorem u16_ne {x : UInt16} {k : UInt16} (h : x ≠ k) : x.toNat ≠ k.toNat := fun h' => h (UInt16.toNat_inj.mp h')

theorem trim_eq (s suf : Bytes) : LoopGoDns.trimSuffix s suf = Model.trimSuffix s suf := rfl

theorem len4 (l : Bytes) (h : l.length = 4) : ∃ a b c d, l = [a, b, c, d] := by
  match l, h with
  | [a, b, c, d], _ => exact ⟨a, b, c, d, rfl⟩

theorem ipTo4_shape (x : Bytes) : ipTo4 x = [] ∨ ∃ a b c d, ipTo4 x = [a, b, c, d] := by
  unfold ipTo4
  split
  · next h => right; exact len4 x h
  split
  · next h => right; exact len4 _ (by simp [h.1])
  · left; rfl

/-! ### one iteration of the record loop -/

/-- what `net.ParseIP(s)` followed by `To4()` is to the model: nil → not an address, a 4-byte result → IPv4 -/
def ptrView (b : Bytes) : PtrIP :=
  if b = [] then .invalid
  else match ipTo4 b with
    | [a, b, c, d] => .v4 a.toNat b.toNat c.toNat d.toNat
    | _ => .v6

abbrev LoopRes := GDNSEntry × Int × Bool × Bytes

/-- the relation between one unfolding of the generated loop (run on the entry as state) and `Model.decodeRR`:
    on success the loop continues with an entry that is the model's, on a failure the state is the entry as it was -/
def StepRel (L : GDNSEntry → Int → Bool → Bytes → OutcomeS GDNSEntry LoopRes) (e : GDNSEntry) (updated : Bool)
    (lhs : GDNSEntry × Outcome LoopRes) : Outcome (DNSEntry × Nat × Bool) → Prop
  | .ok (e1, off', u) => ∃ e' tb', Good e' ∧ entryView e' = e1 ∧ e'.Name = e.Name ∧ lhs = (L e' (off' : Int) (updated || u) tb').run e'
  | .err er => lhs = (e, .err er)
  | .panic => lhs = (e, .panic)
  | .hang => lhs = (e, .hang)

theorem rrStep (parseIP : Bytes → Bytes) (ip6 : Bytes → PtrIP) (hP : ∀ s, ptrView (parseIP s) = parsePtrIP ip6 s)
    (count : Int) (p buffer : Bytes) (fuel : Nat) (e : GDNSEntry) (offset : Int) (updated : Bool) (tmpBuf : Bytes) (i : Int)
    (hi : i < count) (hg : Good e) :
    StepRel (fun e' off' u' tb' => genDNSEntry_decodeRRs_loop1 parseIP count p buffer fuel e' off' u' tb' (i + 1)) e updated
      ((genDNSEntry_decodeRRs_loop1 parseIP count p buffer (fuel + 1) e offset updated tmpBuf i).run e)
      (Model.decodeRR ip6 (entryView e) p offset) := by
  rw [genDNSEntry_decodeRRs_loop1]
  unfold Model.decodeRR
  simp only [hi, if_true, OutcomeS.run_bind_lift]
  rcases genName_cases p offset offset rfl buffer with ⟨b, name, endq, h1, h2⟩ | ⟨er, h1, h2⟩ | ⟨h1, h2⟩ | ⟨h1, h2⟩
  case' inr.inl => rw [h1, h2]; simp only [StepRel]
  case' inr.inr.inl => rw [h1, h2]; simp only [StepRel]
  case' inr.inr.inr => rw [h1, h2]; simp only [StepRel]
  rw [h1, h2]
  simp only []
  by_cases h10 : endq + 10 > p.length
  · have : (endq : Int) + 10 > (p.length : Int) := by omega
    simp only [h10, this, if_true, StepRel, OutcomeS.run_monadLift]
  have h10I : ¬ ((endq : Int) + 10 > (p.length : Int)) := by omega
  simp only [h10, h10I, if_false]
  rw [rd16_val p endq (by omega), rd32_val p (endq + 4) (by omega), rd16_val p (endq + 8) (by omega)]
  simp only [OutcomeS.run_bind_lift]
  rw [sliceI2 p endq _ _ rfl rfl (by omega), sliceI4 p (endq + 4) _ _ (by omega) (by omega) (by omega),
    sliceI2 p (endq + 8) _ _ (by omega) (by omega) (by omega)]
  simp only [beU16, beU32]
  generalize ((p[endq]'(by omega)).toUInt16 <<< 8 ||| (p[endq + 1]'(by omega)).toUInt16) = T
  generalize ((p[endq + 4]'(by omega)).toUInt32 <<< 24 ||| (p[endq + 4 + 1]'(by omega)).toUInt32 <<< 16
      ||| (p[endq + 4 + 2]'(by omega)).toUInt32 <<< 8 ||| (p[endq + 4 + 3]'(by omega)).toUInt32) = TTL
  generalize ((p[endq + 8]'(by omega)).toUInt16 <<< 8 ||| (p[endq + 8 + 1]'(by omega)).toUInt16) = D
  by_cases hoff : endq + 10 + D.toNat > p.length
  · have : (endq : Int) + 10 + (D.toNat : Int) > (p.length : Int) := by omega
    simp only [hoff, this, if_true, StepRel, OutcomeS.run_monadLift]
  have hoffI : ¬ ((endq : Int) + 10 + (D.toNat : Int) > (p.length : Int)) := by omega
  simp only [hoff, hoffI, if_false]
  by_cases hT1 : T = 1
  · subst hT1
    have : (1 : UInt16).toNat = 1 := rfl
    simp only [this, if_true]
    by_cases hD : D = 4
    · subst hD
      have hD4 : (4 : UInt16).toNat = 4 := rfl
      rw [hD4] at hoff hoffI
      simp only [hD4, ne_eq, not_true, if_false, OutcomeS.run_bind_lift]
      rw [sliceI4 p (endq + 10) _ _ (by omega) (by omega) (by omega), PV.Lemmas.Dns.slice4 (by omega)]
      simp only [addrFromSlice, List.length_cons, List.length_nil, true_or, if_true]
      generalize ([p[endq + 10]'(by omega), p[endq + 10 + 1]'(by omega), p[endq + 10 + 2]'(by omega), p[endq + 10 + 3]'(by omega)] : Bytes) = ip
      have hh : hasIP (entryView e).ip4 ip = mapHas e.IP4Records ip :=
        (mapHas_view hg.ip4 ip ipRecView (fun r => r.ip) (fun _ => rfl)).symm
      rw [hh, insertBlock]
      by_cases hm : mapHas e.IP4Records ip = true
      · simp only [hm, if_true, StepRel]
        exact ⟨e, b, hg, rfl, rfl, by simp⟩
      · obtain ⟨m', hs, hk', hv⟩ := mapSet_fresh hg.ip4 ip ({ Name := name, IP := ip, TTL := TTL } : GIPResourceRecord)
          (by simpa using hm) rfl
        simp only [hm, hs, StepRel]
        refine ⟨{ e with IP4Records := m' }, b, ⟨hk', hg.ip6, hg.cn, hg.ptr⟩, ?_, rfl, by simp⟩
        simp only [entryView, hv, ipRecView]
    · have hDn := u16_ne hD
      have : (4 : UInt16).toNat = 4 := rfl
      rw [this] at hDn
      simp only [hD, hDn, ne_eq, not_false_eq_true, if_true, StepRel, OutcomeS.run_monadLift]
  have hTn1 := u16_ne hT1
  have : (1 : UInt16).toNat = 1 := rfl
  rw [this] at hTn1
  simp only [hT1, hTn1, if_false]
  by_cases hT28 : T = 28
  · subst hT28
    have : (28 : UInt16).toNat = 28 := rfl
    simp only [this, if_true]
    by_cases hD : D = 16
    · subst hD
      have hD16 : (16 : UInt16).toNat = 16 := rfl
      rw [hD16] at hoff hoffI
      simp only [hD16, ne_eq, not_true, if_false, OutcomeS.run_bind_lift]
      rw [sliceI_nat p _ _ (endq + 10) (endq + 10 + 16) (by omega) (by omega), PV.Lemmas.Dns.slice_ok (by omega) (by omega)]
      have hl : ((p.take (endq + 10 + 16)).drop (endq + 10)).length = 16 := by
        rw [PV.Lemmas.Dns.slice_len (by omega) (by omega)]; omega
      generalize (p.take (endq + 10 + 16)).drop (endq + 10) = ip at hl
      simp only [addrFromSlice, hl, or_true, if_true]
      have hh : hasIP (entryView e).ip6 ip = mapHas e.IP6Records ip :=
        (mapHas_view hg.ip6 ip ipRecView (fun r => r.ip) (fun _ => rfl)).symm
      rw [hh, insertBlock]
      by_cases hm : mapHas e.IP6Records ip = true
      · simp only [hm, if_true, StepRel]
        exact ⟨e, b, hg, rfl, rfl, by simp⟩
      · obtain ⟨m', hs, hk', hv⟩ := mapSet_fresh hg.ip6 ip ({ Name := name, IP := ip, TTL := TTL } : GIPResourceRecord)
          (by simpa using hm) rfl
        simp only [hm, hs, StepRel]
        refine ⟨{ e with IP6Records := m' }, b, ⟨hg.ip4, hk', hg.cn, hg.ptr⟩, ?_, rfl, by simp⟩
        simp only [entryView, hv, ipRecView]
    · have hDn := u16_ne hD
      have : (16 : UInt16).toNat = 16 := rfl
      rw [this] at hDn
      simp only [hD, hDn, ne_eq, not_false_eq_true, if_true, StepRel, OutcomeS.run_monadLift]
  have hTn28 := u16_ne hT28
  have : (28 : UInt16).toNat = 28 := rfl
  rw [this] at hTn28
  simp only [hT28, hTn28, if_false]
  by_cases hT5 : T = 5
  · subst hT5
    have : (5 : UInt16).toNat = 5 := rfl
    simp only [this, if_true, OutcomeS.run_bind_lift]
    rcases genName_cases p ((endq : Int) + 10) ((endq + 10 : Nat) : Int) (by omega) buffer with
      ⟨b2, cname, e2, h3, h4⟩ | ⟨er, h3, h4⟩ | ⟨h3, h4⟩ | ⟨h3, h4⟩
    case' inr.inl => rw [h3, h4]; simp only [StepRel]
    case' inr.inr.inl => rw [h3, h4]; simp only [StepRel]
    case' inr.inr.inr => rw [h3, h4]; simp only [StepRel]
    rw [h3, h4]
    simp only []
    have hh : hasCName (entryView e).cname name = mapHas e.CNameRecords name :=
      (mapHas_view hg.cn name nameRecView (fun r => r.name) (fun _ => rfl)).symm
    rw [hh, insertBlock]
    by_cases hm : mapHas e.CNameRecords name = true
    · simp only [hm, if_true, StepRel]
      exact ⟨e, b2, hg, rfl, rfl, by simp⟩
    · obtain ⟨m', hs, hk', hv⟩ := mapSet_fresh hg.cn name ({ Name := name, CName := cname, TTL := TTL } : GNameResourceRecord)
        (by simpa using hm) rfl
      simp only [hm, hs, StepRel]
      refine ⟨{ e with CNameRecords := m' }, b2, ⟨hg.ip4, hg.ip6, hk', hg.ptr⟩, ?_, rfl, by simp⟩
      simp only [entryView, hv, nameRecView]
  have hTn5 := u16_ne hT5
  have : (5 : UInt16).toNat = 5 := rfl
  rw [this] at hTn5
  simp only [hT5, hTn5, if_false]
  by_cases hT15 : T = 15
  · subst hT15
    have : (15 : UInt16).toNat = 15 := rfl
    simp only [this, if_true, StepRel]
    exact ⟨e, b, hg, rfl, rfl, by simp⟩
  have hTn15 := u16_ne hT15
  have : (15 : UInt16).toNat = 15 := rfl
  rw [this] at hTn15
  simp only [hT15, hTn15, if_false]
  by_cases hT12 : T = 12
  · subst hT12
    have : (12 : UInt16).toNat = 12 := rfl
    simp only [this, if_true]
    have hs : LoopGoDns.trimSuffix name [46, 105, 110, 45, 97, 100, 100, 114, 46, 97, 114, 112, 97] = Model.trimSuffix name inAddrArpa := rfl
    rw [hs, ← hP]
    generalize parseIP (Model.trimSuffix name inAddrArpa) = tmp
    unfold ptrView
    by_cases ht : tmp = []
    · simp only [ht, if_true, StepRel]
      exact ⟨e, b, hg, rfl, rfl, by simp⟩
    simp only [ht, if_false]
    rcases ipTo4_shape tmp with h4 | ⟨x0, x1, x2, x3, h4⟩
    · rw [h4]
      simp only [if_true, StepRel]
      exact ⟨e, b, hg, rfl, rfl, by simp⟩
    rw [h4]
    have i3 : idxI [x0, x1, x2, x3] 3 = .ok x3 := rfl
    have i2 : idxI [x0, x1, x2, x3] 2 = .ok x2 := rfl
    have i1 : idxI [x0, x1, x2, x3] 1 = .ok x1 := rfl
    have i0 : idxI [x0, x1, x2, x3] 0 = .ok x0 := rfl
    simp only [reduceCtorEq, if_false, OutcomeS.run_bind_lift, i3, i2, i1, i0]
    rcases genName_cases p ((endq : Int) + 10) ((endq + 10 : Nat) : Int) (by omega) buffer with
      ⟨b2, pn, e2, h3, h5⟩ | hrest
    rotate_left
    · rcases hrest with ⟨er, h3, h5⟩ | ⟨h3, h5⟩ | ⟨h3, h5⟩ <;> (rw [h3, h5]; simp only [StepRel])
    rw [h3, h5]
    simp only [addrFromSlice, List.length_cons, List.length_nil, true_or, if_true]
    have hh : hasIPName (entryView e).ptr pn = mapHas e.PTRRecords pn :=
      (mapHas_view hg.ptr pn ipRecView (fun r => r.name) (fun _ => rfl)).symm
    rw [hh, insertBlock]
    by_cases hm : mapHas e.PTRRecords pn = true
    · simp only [hm, if_true, StepRel]
      exact ⟨e, b2, hg, rfl, rfl, by simp⟩
    · obtain ⟨m', hs, hk', hv⟩ := mapSet_fresh hg.ptr pn ({ Name := pn, IP := [x3, x2, x1, x0], TTL := TTL } : GIPResourceRecord)
        (by simpa using hm) rfl
      simp only [hm, hs, StepRel]
      refine ⟨{ e with PTRRecords := m' }, b2, ⟨hg.ip4, hg.ip6, hg.cn, hk'⟩, ?_, rfl, by simp⟩
      simp only [entryView, hv, ipRecView, UInt8.ofNat_toNat]
  have hTn12 := u16_ne hT12
  have : (12 : UInt16).toNat = 12 := rfl
  rw [this] at hTn12
  simp only [hT12, hTn12, if_false, StepRel]
  exact ⟨e, b, hg, rfl, rfl, by simp⟩

/-! ### the whole loop -/

/-- what the callers see of the loop's result: the returned offset and `updated` -/
def loopView (v : LoopRes) : Int × Bool := (v.2.1, v.2.2.1)

/-- **the record loop.**  Run on a keyed, allocated entry as state, with at least the translator's fuel, the generated
    loop leaves the entry the model's `decodeRRs` returns (also when a record fails: the records stored before it stay)
    and has the model's outcome; on success the entry it returns is the state. -/
theorem rrLoop_eq (parseIP : Bytes → Bytes) (ip6 : Bytes → PtrIP) (hP : ∀ s, ptrView (parseIP s) = parsePtrIP ip6 s)
    (count : Int) (p buffer : Bytes) : ∀ (fuel : Nat) (e : GDNSEntry) (offset : Int) (updated : Bool) (tmpBuf : Bytes) (i : Int),
    Good e → (count - i).toNat + 1 ≤ fuel →
    ∃ e' r, (genDNSEntry_decodeRRs_loop1 parseIP count p buffer fuel e offset updated tmpBuf i).run e = (e', r) ∧ Good e' ∧
      (entryView e', omap loopView r) = Model.decodeRRs ip6 (count - i).toNat (entryView e) p offset updated ∧
      (∀ v, r = .ok v → v.1 = e') ∧ e'.Name = e.Name := by
  intro fuel
  induction fuel with
  | zero => intro e offset updated tmpBuf i _ hf; omega
  | succ fuel ih =>
    intro e offset updated tmpBuf i hg hf
    by_cases hi : i < count
    · obtain ⟨n, hn⟩ : ∃ n, (count - i).toNat = n + 1 := ⟨(count - i).toNat - 1, by omega⟩
      have hn' : (count - (i + 1)).toNat = n := by omega
      have step := rrStep parseIP ip6 hP count p buffer fuel e offset updated tmpBuf i hi hg
      rw [hn, Model.decodeRRs]
      cases hm : Model.decodeRR ip6 (entryView e) p offset with
      | ok v =>
        obtain ⟨e1, off', u⟩ := v
        rw [hm] at step
        obtain ⟨e1', tb', hg', hv, hnm, heq⟩ := step
        obtain ⟨e', r, h1, h2, h3, h4, h5⟩ := ih e1' (off' : Int) (updated || u) tb' (i + 1) hg' (by omega)
        refine ⟨e', r, by rw [heq, h1], h2, ?_, h4, by rw [h5, hnm]⟩
        rw [h3, hn', hv]
      | err er => rw [hm] at step; exact ⟨e, .err er, step, hg, rfl, (fun v h => by cases h), rfl⟩
      | panic => rw [hm] at step; exact ⟨e, .panic, step, hg, rfl, (fun v h => by cases h), rfl⟩
      | hang => rw [hm] at step; exact ⟨e, .hang, step, hg, rfl, (fun v h => by cases h), rfl⟩
    · have hn : (count - i).toNat = 0 := by omega
      rw [genDNSEntry_decodeRRs_loop1, hn, Model.decodeRRs]
      simp only [hi, if_false, OutcomeS.run_pure]
      exact ⟨e, _, rfl, hg, rfl, (fun v h => by cases h; rfl), rfl⟩

/-! ### `decodeRRs` itself: the four `make`s, the loop, the results -/

/-- `if m == nil { m = make(…) }` -/
def initM {κ ν : Type} : GMap κ ν → GMap κ ν
  | none => some []
  | some l => some l

def initE (e : GDNSEntry) : GDNSEntry :=
  { Name := e.Name, IP4Records := initM e.IP4Records, IP6Records := initM e.IP6Records,
    CNameRecords := initM e.CNameRecords, PTRRecords := initM e.PTRRecords }

theorem init_run (parseIP : Bytes → Bytes) (e : GDNSEntry) (count : Int) (p : Bytes) (offset : Int) (buffer : Bytes) (s0 : GDNSEntry) :
    (genDNSEntry_decodeRRs parseIP e count p offset buffer).run s0 =
      ((genDNSEntry_decodeRRs_loop1 parseIP count p buffer ((count - 0).toNat + 1) (initE e) offset false [] 0) >>=
        fun r => pure (r.1, r.2.1, r.2.2.1)).run (initE e) := by
  rcases e with ⟨n, m4, m6, mc, mp⟩
  cases m4 <;> cases m6 <;> cases mc <;> cases mp <;> rfl

theorem keyedSome_init {κ ν : Type} {key : ν → κ} {m : GMap κ ν} (h : Keyed key m) : KeyedSome key (initM m) := by
  cases m with
  | none => exact ⟨[], rfl, fun kv h => by cases h⟩
  | some l => exact ⟨l, rfl, h l rfl⟩

theorem mapView_init {κ ν β : Type} (f : ν → β) (m : GMap κ ν) : mapView f (initM m) = mapView f m := by
  cases m <;> rfl

theorem good_init {e : GDNSEntry} (h : EntryKeyed e) : Good (initE e) :=
  ⟨keyedSome_init h.ip4, keyedSome_init h.ip6, keyedSome_init h.cn, keyedSome_init h.ptr⟩

theorem view_init (e : GDNSEntry) : entryView (initE e) = entryView e := by
  simp only [entryView, initE, mapView_init]

theorem keyed_of_some {κ ν : Type} {key : ν → κ} {m : GMap κ ν} (h : KeyedSome key m) : Keyed key m := by
  obtain ⟨l, rfl, hl⟩ := h
  intro l' h'; cases h'; exact hl

theorem keyed_of_good {e : GDNSEntry} (h : Good e) : EntryKeyed e :=
  ⟨keyed_of_some h.ip4, keyed_of_some h.ip6, keyed_of_some h.cn, keyed_of_some h.ptr⟩

end PV.Lemmas.DnsRRLoops
