/-
  Lemmas about the DNS name model: slice primitives, the label-type bit tests, totality
  (no panic, no hang) of `scanLabels` / `decodeSeg` / `decodeName`.
-/
import PacketVerif.Model.DnsName
namespace PV.Lemmas.Dns
open PV PV.Model

/-! ### slice primitives -/

theorem idx_ok {b : Bytes} {i : Nat} (h : i < b.length) : idx b i = .ok b[i] := by
  unfold idx; simp [List.getElem?_eq_getElem h]

theorem idx_eq_ok_iff {b : Bytes} {i : Nat} {v : UInt8} : idx b i = .ok v ↔ b[i]? = some v := by
  unfold idx
  cases h : b[i]? <;> simp

theorem idx_cases (b : Bytes) (i : Nat) : (∃ v, idx b i = .ok v ∧ i < b.length) ∨ (idx b i = .panic ∧ b.length ≤ i) := by
  unfold idx
  cases h : b[i]? with
  | none => right; exact ⟨rfl, by simpa using h⟩
  | some v => left; exact ⟨v, rfl, (List.getElem?_eq_some_iff.mp h).1⟩

theorem slice_ok {b : Bytes} {lo hi : Nat} (h1 : lo ≤ hi) (h2 : hi ≤ b.length) :
    slice b lo hi = .ok ((b.take hi).drop lo) := by
  unfold slice; simp [h1, h2]

theorem slice_len {b : Bytes} {lo hi : Nat} (h1 : lo ≤ hi) (h2 : hi ≤ b.length) :
    ((b.take hi).drop lo).length = hi - lo := by
  simp; omega

theorem slice_eq_drop_take (b : Bytes) (lo hi : Nat) : (b.take hi).drop lo = (b.drop lo).take (hi - lo) := by
  rw [List.drop_take]

theorem slice2 {b : Bytes} {i : Nat} (h : i + 2 ≤ b.length) :
    slice b i (i + 2) = .ok [b[i]'(by omega), b[i+1]'(by omega)] := by
  rw [slice_ok (by omega) h, slice_eq_drop_take]
  have : i + 2 - i = 2 := by omega
  rw [this]
  have e1 : b.drop i = b[i] :: b.drop (i + 1) := List.drop_eq_getElem_cons (by omega)
  have e2 : b.drop (i + 1) = b[i + 1] :: b.drop (i + 2) := List.drop_eq_getElem_cons (by omega)
  rw [e1, e2]; rfl

/-! ### the label-type tests `data[index] & 0xc0` as ranges -/

set_option maxRecDepth 100000 in
theorem bits_fin : ∀ i : Fin 256,
    ((UInt8.ofNat i.val &&& 0xc0 == 0xc0) = decide (192 ≤ i.val)) ∧
    ((UInt8.ofNat i.val &&& 0xc0 == 0x40) = decide (64 ≤ i.val ∧ i.val < 128)) ∧
    ((UInt8.ofNat i.val &&& 0xc0 == 0x80) = decide (128 ≤ i.val ∧ i.val < 192)) ∧
    ((UInt8.ofNat i.val == 0) = decide (i.val = 0)) ∧
    ((UInt8.ofNat i.val &&& 0x3f).toNat = i.val % 64) := by decide

theorem ofNat_toNat (b : UInt8) : UInt8.ofNat b.toNat = b := by simp

theorem bits (b : UInt8) :
    ((b &&& 0xc0 == 0xc0) = decide (192 ≤ b.toNat)) ∧
    ((b &&& 0xc0 == 0x40) = decide (64 ≤ b.toNat ∧ b.toNat < 128)) ∧
    ((b &&& 0xc0 == 0x80) = decide (128 ≤ b.toNat ∧ b.toNat < 192)) ∧
    ((b == 0) = decide (b.toNat = 0)) ∧
    ((b &&& 0x3f).toNat = b.toNat % 64) := by
  have := bits_fin ⟨b.toNat, b.toNat_lt⟩
  simpa [ofNat_toNat] using this

theorem ptrTarget_eq (hi lo : UInt8) (h : 192 ≤ hi.toNat) : ptrTarget hi lo = (hi.toNat - 192) * 256 + lo.toNat := by
  unfold ptrTarget
  rw [(bits hi).2.2.2.2]
  have := hi.toNat_lt
  omega

/-! ### totality -/

theorem scan_safe : ∀ (fuel : Nat) (data : Bytes) (offset index : Nat) (acc : Bytes),
    index < data.length → data.length - index ≤ fuel →
    scanLabels fuel data offset index acc ≠ .panic ∧ scanLabels fuel data offset index acc ≠ .hang := by
  intro fuel
  induction fuel with
  | zero => intro data offset index acc h1 h2; omega
  | succ n ih =>
    intro data offset index acc h1 h2
    rw [scanLabels, idx_ok h1]
    simp only []
    split
    · simp
    split
    · simp
    split
    · simp
    split
    · simp
    split
    · simp
    split
    · simp
    next hle =>
      rw [slice_ok (by omega) (by omega)]
      simp only []
      split
      · simp
      next hlt =>
        apply ih
        · omega
        · omega

theorem finishName_safe (seg : Bytes) (i : Nat) : finishName seg i ≠ .panic ∧ finishName seg i ≠ .hang := by
  unfold finishName; split <;> simp

theorem afterScan_safe (data : Bytes) (offset : Nat) (recur : Nat → Outcome (Bytes × Nat)) (r : Outcome Scan)
    (hrec : ∀ o, recur o ≠ .panic ∧ recur o ≠ .hang) (h1 : r ≠ .panic) (h2 : r ≠ .hang) :
    afterScan data offset recur r ≠ .panic ∧ afterScan data offset recur r ≠ .hang := by
  match r with
  | .panic => exact absurd rfl h1
  | .hang => exact absurd rfl h2
  | .err e => simp [afterScan]
  | .ok (.done acc index) => simpa [afterScan] using finishName_safe acc index
  | .ok (.ptr acc index) =>
    simp only [afterScan]
    split
    · simp
    next hle =>
      rw [slice2 (by omega)]
      simp only []
      split
      · simp
      · have := hrec (ptrTarget data[index] data[index + 1])
        split
        · exact finishName_safe _ _
        · simp
        · exact absurd ‹_› this.1
        · exact absurd ‹_› this.2

theorem decodeSeg_safe : ∀ (fuel : Nat) (data : Bytes) (offset level : Nat), 0 < fuel → 258 ≤ fuel + level →
    decodeSeg fuel data offset level ≠ .panic ∧ decodeSeg fuel data offset level ≠ .hang := by
  intro fuel
  induction fuel with
  | zero =>
    intro data offset level h0 h
    omega
  | succ n ih =>
    intro data offset level _ h
    rw [decodeSeg]
    split
    · simp
    split
    · simp
    next hl ho =>
      rw [idx_ok (by omega)]
      simp only []
      split
      · simp
      · apply afterScan_safe
        · intro o; unfold maxRecursionLevel at hl; apply ih <;> omega
        · exact (scan_safe _ _ _ _ _ (by omega) (by omega)).1
        · exact (scan_safe _ _ _ _ _ (by omega) (by omega)).2

theorem decodeName_safe (data : Bytes) (offset : Int) (level : Nat) (hl : 1 ≤ level) :
    decodeName data offset level ≠ .panic ∧ decodeName data offset level ≠ .hang := by
  unfold decodeName
  split
  · simp
  split
  · simp
  split
  · simp
  · have := decodeSeg_safe nameFuel data offset.toNat level (by decide) (by unfold nameFuel; omega)
    split
    · simp
    · simp
    · exact absurd ‹_› this.1
    · exact absurd ‹_› this.2

/-! ### encodeName -/

theorem setIdx_ok {data : Bytes} {i : Nat} (v : UInt8) (h : i < data.length) :
    setIdx data i v = .ok (data.set i v) := by unfold setIdx; rw [if_pos h]

theorem encodeNameLoop_ok : ∀ (name : Bytes) (i l : Nat) (data : Bytes) (offset : Nat),
    l ≤ i → offset + i + name.length + 2 ≤ data.length →
    ∃ d l', encodeNameLoop name i l data offset = .ok (d, l') ∧ d.length = data.length ∧ l' ≤ i + name.length := by
  intro name
  induction name with
  | nil => intro i l data offset h1 h2; exact ⟨data, l, rfl, rfl, by simpa using h1⟩
  | cons c rest ih =>
    intro i l data offset h1 h2
    simp only [List.length_cons] at h2
    rw [encodeNameLoop]
    split
    · rw [setIdx_ok _ (by omega)]
      simp only []
      obtain ⟨d, l', a, b, c'⟩ := ih (i + 1) 0 (data.set (offset + i - l) (UInt8.ofNat l)) offset (by omega) (by simp; omega)
      exact ⟨d, l', a, by simpa using b, by simp; omega⟩
    · rw [setIdx_ok _ (by omega)]
      simp only []
      obtain ⟨d, l', a, b, c'⟩ := ih (i + 1) (l + 1) (data.set (offset + i + 1) c) offset (by omega) (by simp; omega)
      exact ⟨d, l', a, by simpa using b, by simp; omega⟩

theorem encodeName_ok (name data : Bytes) (offset : Nat) (h : offset + name.length + 2 ≤ data.length) :
    ∃ d, encodeName name data offset = .ok (d, if name.length = 0 then offset + 1 else offset + name.length + 2) := by
  unfold encodeName
  obtain ⟨d, l, a, b, c⟩ := encodeNameLoop_ok name 0 0 data offset (Nat.le_refl _) (by omega)
  rw [a]
  simp only []
  split
  next hz =>
    rw [setIdx_ok _ (by omega)]
    have : name.length = 0 := by simpa using hz
    exact ⟨d.set offset 0, by simp [this]⟩
  next hz =>
    rw [setIdx_ok _ (by omega)]
    simp only []
    rw [setIdx_ok _ (by simp; omega)]
    have : ¬ name.length = 0 := by simpa using hz
    exact ⟨(d.set (offset + name.length - l) (UInt8.ofNat l)).set (offset + name.length + 1) 0, by simp [this]⟩

end PV.Lemmas.Dns
