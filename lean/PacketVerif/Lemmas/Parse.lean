/-
  Helper lemmas relating `Model.parse` to the reference decoder `Spec.decode`, and the structural
  invariants of a decoded frame (used by C01, C02, C16).
-/
import PacketVerif.Lemmas.Views
namespace PV.Lemmas
open PV PV.Model

theorem find?_cons_ite {α} (f : α → Bool) (x : α) (xs : List α) :
    (x :: xs).find? f = if f x = true then some x else xs.find? f := by
  rw [List.find?_cons]; cases f x <;> rfl

theorem ite_bor {α} (a b : Bool) (x y : α) :
    (if (a || b) = true then x else y) = if a = true then x else if b = true then x else y := by
  cases a <;> cases b <;> rfl

theorem map_ite_some {α β} (f : α → β) (c : Prop) [Decidable c] (x : α) (y : Option α) :
    Option.map f (if c then some x else y) = if c then some (f x) else Option.map f y := by
  split <;> rfl

theorem udp_class_eq_table (sp dp : Nat) : udpClass sp dp = Spec.udpService sp dp := by
  unfold udpClass Spec.udpService Spec.udpTable
  simp only [find?_cons_ite, List.find?_nil, map_ite_some, Option.map_none, ite_bor,
    Pid.ssl, Pid.dhcp4, Pid.dhcp6, Pid.dns, Pid.mdns, Pid.llmnr, Pid.ntp, Pid.ssdp, Pid.wsdp, Pid.nbns,
    Pid.plex, Pid.ubiquiti]

theorem lookup_cons_ite (k a : Nat) (b : Nat) (xs : List (Nat × Nat)) :
    ((a, b) :: xs).lookup k = if (k == a) = true then some b else xs.lookup k := by
  rw [List.lookup_cons]; cases (k == a) <;> rfl

theorem ether_only_eq_table (et : Nat) : etherOnly et = Spec.l2Table.lookup et := by
  unfold etherOnly Spec.l2Table
  simp only [lookup_cons_ite, List.lookup_nil, Pid.pause, Pid.rrcp, Pid.lldp, Pid.p80211r, Pid.ieee1905,
    Pid.sonos, Pid.p880a]

/-- projection of what Parse returns onto the record of the reference decoder -/
def toDec (r : ParseRes) : Spec.Decoded :=
  { pid := r.frame.pid, ip4 := r.frame.offIP4, ip6 := r.frame.offIP6, udp := r.frame.offUDP, tcp := r.frame.offTCP,
    pay := r.frame.offPayload, srcMAC := r.frame.srcMAC, dstMAC := r.frame.dstMAC, srcIP := r.frame.srcIP,
    dstIP := r.frame.dstIP, srcPort := r.frame.srcPort, dstPort := r.frame.dstPort, host := r.frame.hostEv,
    echo := r.frame.echo, err := r.err.isSome }

def toSC (c : Cfg) : Spec.SCfg := ⟨c.hostMAC, c.routerMAC, c.lanAddr, c.lanBits⟩

theorem guard_ok (fr : Frame) (k : Unit → Outcome ParseRes) : guard (.ok ()) fr k = k () := rfl
theorem guard_err (e : Err) (fr : Frame) (k : Unit → Outcome ParseRes) : guard (.err e) fr k = .ok ⟨fr, some e⟩ := rfl

theorem parseICMP_eq (fr : Frame) (pay : Bytes) (replyType pid : Nat) :
    parseICMP fr pay replyType pid =
      if pay.length < 8 then .ok ⟨fr, some .frameLen⟩
      else .ok ⟨{ fr with echo := if Spec.at_ pay 0 == replyType then some (Spec.u16 pay 4) else fr.echo, pid := pid }, none⟩ := by
  unfold parseICMP
  rw [lenAtLeast_eq]
  by_cases h : pay.length < 8
  · rw [if_neg (by omega), if_pos h]; rfl
  · rw [if_pos (by omega), if_neg h, guard_ok, byteN_at pay 0 (by omega), be16At_u16 pay 4 (by omega)]
    simp only [Outcome.bind_ok, guard_ok, Outcome.pure_eq]
    split <;> rfl

/-- the statement shape shared by all transport branches -/
def ProtoSpec (p : Bytes) (fr : Frame) (proto : Nat) : Prop :=
  ∃ r, parseProto fr proto (p.drop fr.offPayload) = .ok r ∧
    toDec r = Spec.transport p (toDec ⟨fr, none⟩) proto fr.offPayload

theorem parseProto_udp (p : Bytes) (fr : Frame) : ProtoSpec p fr 17 := by
  unfold ProtoSpec parseProto Spec.transport
  simp only [BEq.rfl, if_true, lenAtLeast_eq, List.length_drop]
  by_cases h : p.length - fr.offPayload < 8
  · rw [if_neg (by omega), if_pos h, guard_err]
    exact ⟨_, rfl, rfl⟩
  · rw [if_pos (by omega), if_neg h, guard_ok,
      be16At_u16 _ 0 (by rw [List.length_drop]; omega), be16At_u16 _ 2 (by rw [List.length_drop]; omega)]
    simp only [Outcome.bind_ok, u16_drop, Nat.add_zero, udp_class_eq_table]
    cases Spec.udpService (Spec.u16 p fr.offPayload) (Spec.u16 p (fr.offPayload + 2)) with
    | none => exact ⟨_, rfl, rfl⟩
    | some pid => exact ⟨_, rfl, rfl⟩

theorem parseProto_tcp (p : Bytes) (fr : Frame) : ProtoSpec p fr 6 := by
  unfold ProtoSpec parseProto Spec.transport
  simp only [Nat.reduceBEq, Bool.false_eq_true, if_false, BEq.rfl, if_true, tcpValid_eq, List.length_drop, at_drop]
  by_cases h : p.length - fr.offPayload < 20 ∨ Spec.at_ p (fr.offPayload + 12) / 16 * 4 < 20 ∨
      p.length - fr.offPayload < Spec.at_ p (fr.offPayload + 12) / 16 * 4
  · rw [if_neg (by omega), if_pos h, guard_err]
    exact ⟨_, rfl, rfl⟩
  · rw [if_pos (by omega), if_neg h, guard_ok,
      be16At_u16 _ 0 (by rw [List.length_drop]; omega), be16At_u16 _ 2 (by rw [List.length_drop]; omega)]
    simp only [Outcome.bind_ok, u16_drop, Nat.add_zero]
    exact ⟨_, rfl, rfl⟩

theorem parseProto_icmp4 (p : Bytes) (fr : Frame) (he : fr.echo = none) : ProtoSpec p fr 1 := by
  unfold ProtoSpec parseProto Spec.transport
  simp only [Nat.reduceBEq, Bool.false_eq_true, if_false, BEq.rfl, if_true, true_or, parseICMP_eq,
    List.length_drop, at_drop, u16_drop, Nat.add_zero, he]
  by_cases h : p.length - fr.offPayload < 8
  · rw [if_pos h, if_pos h]; exact ⟨_, rfl, rfl⟩
  · rw [if_neg h, if_neg h]; exact ⟨_, rfl, rfl⟩

theorem parseProto_icmp6 (p : Bytes) (fr : Frame) (he : fr.echo = none) : ProtoSpec p fr 58 := by
  unfold ProtoSpec parseProto Spec.transport
  simp only [Nat.reduceBEq, Bool.false_eq_true, if_false, BEq.rfl, if_true, or_true, parseICMP_eq,
    List.length_drop, at_drop, u16_drop, Nat.add_zero, he]
  by_cases h : p.length - fr.offPayload < 8
  · rw [if_pos h, if_pos h]; exact ⟨_, rfl, rfl⟩
  · rw [if_neg h, if_neg h]; exact ⟨_, rfl, rfl⟩

theorem parseProto_spec (p : Bytes) (fr : Frame) (proto : Nat) (he : fr.echo = none) : ProtoSpec p fr proto := by
  by_cases h17 : proto = 17
  · subst h17; exact parseProto_udp p fr
  by_cases h6 : proto = 6
  · subst h6; exact parseProto_tcp p fr
  by_cases h1 : proto = 1
  · subst h1; exact parseProto_icmp4 p fr he
  by_cases h58 : proto = 58
  · subst h58; exact parseProto_icmp6 p fr he
  unfold ProtoSpec parseProto Spec.transport
  simp only [beq_iff_eq, h17, h6, h1, h58, if_false, or_self]
  by_cases h2 : proto = 2
  · rw [if_pos h2, if_pos h2]; exact ⟨_, rfl, rfl⟩
  · rw [if_neg h2, if_neg h2]; exact ⟨_, rfl, rfl⟩


theorem group_bit (v : UInt8) : (v &&& 0x01 != 0) = (v.toNat % 2 == 1) := by
  have h : (v &&& 1).toNat = v.toNat % 2 := by rw [UInt8.toNat_and]; exact Nat.and_one_is_mod _
  by_cases h0 : v &&& 1 = 0
  · rw [h0] at h
    have : v.toNat % 2 = 0 := by rw [← h]; rfl
    simp [h0, this]
  · have : v.toNat % 2 ≠ 0 := by
      intro hc; rw [hc] at h; exact h0 (UInt8.toNat_inj.mp h)
    have h1 : v.toNat % 2 = 1 := by omega
    simp [h0, h1]

theorem parse_invalid (cfg : Cfg) (p : Bytes) (h : ¬ (14 ≤ p.length ∧ etherHeaderLenOf (Spec.u16 p 12) ≤ p.length)) :
    parse cfg p = .ok ⟨{}, some .frameLen⟩ := by
  unfold parse
  rw [etherValid_eq, if_neg h]

theorem decode_invalid (cfg : Spec.SCfg) (p : Bytes)
    (h : ¬ (14 ≤ p.length ∧ etherHeaderLenOf (Spec.u16 p 12) ≤ p.length)) :
    Spec.decode cfg p = { err := true } := by
  unfold Spec.decode
  have hdr : (if (Spec.u16 p 12 == 0x8100) = true then 18 else if (Spec.u16 p 12 == 0x88a8) = true then 22 else 14)
      = etherHeaderLenOf (Spec.u16 p 12) := rfl
  simp only [hdr]
  by_cases h14 : p.length < 14
  · rw [if_pos h14]
  · rw [if_neg h14, if_pos (by omega)]

theorem field_idx0 (p : Bytes) (k n : Nat) (hn : 0 < n) (h : k < p.length) :
    idx (Spec.field p k n) 0 = .ok (p[k]'h) := by
  unfold idx Spec.field
  rw [List.getElem?_take_of_lt hn, List.getElem?_drop, Nat.add_zero, List.getElem?_eq_getElem h]

theorem src_group (p : Bytes) (h14 : 14 ≤ p.length) :
    ∃ v, idx (Spec.field p 6 6) 0 = .ok v ∧ (v &&& 0x01 != 0) = (Spec.at_ p 6 % 2 == 1) :=
  ⟨_, field_idx0 p 6 6 (by omega) (by omega), by rw [group_bit, at_eq p 6 (by omega)]⟩

/- the common prefix of Parse on a frame whose Ethernet header is valid (names `p h14 hh` are taken
   from the context of the calling lemma) -/
set_option hygiene false in
macro "parse_prefix" : tactic => `(tactic| (
  unfold parse
  rw [etherValid_eq, if_pos (And.intro h14 hh)]
  obtain ⟨s0, hs0, hs0g⟩ := src_group p h14
  simp only [show slice p 6 12 = .ok (Spec.field p 6 6) from slice_field p 6 12 (by omega) (by omega),
    show slice p 0 6 = .ok (Spec.field p 0 6) from slice_field p 0 6 (by omega) (by omega),
    etherHeaderLen_eq p h14, Outcome.bind_ok, hs0, hs0g, be16At_u16 p 12 (by omega)]))

set_option hygiene false in
macro "decode_prefix" : tactic => `(tactic| (
  unfold Spec.decode
  have hdr : (if (Spec.u16 p 12 == 0x8100) = true then 18 else if (Spec.u16 p 12 == 0x88a8) = true then 22 else 14)
      = etherHeaderLenOf (Spec.u16 p 12) := rfl
  simp only [hdr, if_neg (Nat.not_lt.mpr h14), if_neg (Nat.not_lt.mpr hh)]))

/-- statement shape of every branch lemma -/
def ParseSpec (cfg : Cfg) (p : Bytes) : Prop :=
  ∃ r, parse cfg p = .ok r ∧ toDec r = Spec.decode (toSC cfg) p

theorem parse_spec_invalid (cfg : Cfg) (p : Bytes)
    (h : ¬ (14 ≤ p.length ∧ etherHeaderLenOf (Spec.u16 p 12) ≤ p.length)) : ParseSpec cfg p :=
  ⟨_, parse_invalid cfg p h, by rw [decode_invalid _ p h]; rfl⟩

theorem parse_spec_group (cfg : Cfg) (p : Bytes) (h14 : 14 ≤ p.length)
    (hh : etherHeaderLenOf (Spec.u16 p 12) ≤ p.length) (hg : (Spec.at_ p 6 % 2 == 1) = true) : ParseSpec cfg p := by
  unfold ParseSpec
  parse_prefix
  decode_prefix
  simp only [hg, if_true]
  exact ⟨_, rfl, rfl⟩

theorem parse_spec_8023 (cfg : Cfg) (p : Bytes) (h14 : 14 ≤ p.length)
    (hh : etherHeaderLenOf (Spec.u16 p 12) ≤ p.length) (hg : ¬ (Spec.at_ p 6 % 2 == 1) = true)
    (het : Spec.u16 p 12 < 1536) : ParseSpec cfg p := by
  unfold ParseSpec
  parse_prefix
  decode_prefix
  simp only [hg, het, if_true]
  exact ⟨_, rfl, rfl⟩

theorem parse_spec_other (cfg : Cfg) (p : Bytes) (h14 : 14 ≤ p.length)
    (hh : etherHeaderLenOf (Spec.u16 p 12) ≤ p.length) (hg : ¬ (Spec.at_ p 6 % 2 == 1) = true)
    (het : ¬ Spec.u16 p 12 < 1536) (h4 : Spec.u16 p 12 ≠ 0x0800) (h6 : Spec.u16 p 12 ≠ 0x86dd)
    (ha : Spec.u16 p 12 ≠ 0x0806) : ParseSpec cfg p := by
  unfold ParseSpec
  parse_prefix
  decode_prefix
  simp only [hg, het, beq_iff_eq, h4, h6, ha, if_false, ether_only_eq_table]
  cases List.lookup (Spec.u16 p 12) Spec.l2Table with
  | none => exact ⟨_, rfl, rfl⟩
  | some pid => exact ⟨_, rfl, rfl⟩


theorem hdr_ip4 : etherHeaderLenOf 2048 = 14 := rfl
theorem hdr_ip6 : etherHeaderLenOf 34525 = 14 := rfl
theorem hdr_arp : etherHeaderLenOf 2054 = 14 := rfl

theorem parse_spec_ip4 (cfg : Cfg) (p : Bytes) (h14 : 14 ≤ p.length)
    (hg : ¬ (Spec.at_ p 6 % 2 == 1) = true) (het : Spec.u16 p 12 = 0x0800) : ParseSpec cfg p := by
  have hh : etherHeaderLenOf (Spec.u16 p 12) ≤ p.length := by rw [het, hdr_ip4]; exact h14
  unfold ParseSpec
  parse_prefix
  decode_prefix
  simp only [hg, het, hdr_ip4, if_false, Nat.reduceLT, BEq.rfl, if_true, sliceFrom_ok p 14 h14, Outcome.bind_ok,
    ip4Valid_eq, at_drop, u16_drop, List.length_drop, Nat.reduceAdd, Bool.false_eq_true]
  by_cases hc : p.length - 14 < 20 ∨ Spec.at_ p 14 % 16 * 4 < 20 ∨ p.length - 14 < Spec.at_ p 14 % 16 * 4 ∨
      Spec.u16 p 16 < Spec.at_ p 14 % 16 * 4 ∨ p.length - 14 < Spec.u16 p 16
  · rw [if_neg (by omega), if_pos hc, guard_err]
    exact ⟨_, rfl, rfl⟩
  · have hl : 20 ≤ (p.drop 14).length := by rw [List.length_drop]; omega
    rw [if_pos (by omega), if_neg hc, guard_ok, ip4IHL_eq _ (by omega), byteN_at _ 9 (by omega),
      slice_field _ 12 16 (by omega) (by omega), slice_field _ 16 20 (by omega) (by omega)]
    simp only [Outcome.bind_ok, at_drop, field_drop, Nat.reduceAdd, Nat.reduceSub]
    rw [sliceFrom_ok p _ (by omega)]
    simp only [Outcome.bind_ok]
    exact parseProto_spec p _ _ rfl

theorem parse_spec_ip6 (cfg : Cfg) (p : Bytes) (h14 : 14 ≤ p.length)
    (hg : ¬ (Spec.at_ p 6 % 2 == 1) = true) (het : Spec.u16 p 12 = 0x86dd) : ParseSpec cfg p := by
  have hh : etherHeaderLenOf (Spec.u16 p 12) ≤ p.length := by rw [het, hdr_ip6]; exact h14
  unfold ParseSpec
  parse_prefix
  decode_prefix
  simp only [hg, het, hdr_ip6, if_false, Nat.reduceLT, Nat.reduceBEq, BEq.rfl, if_true, sliceFrom_ok p 14 h14,
    Outcome.bind_ok, ip6Valid_eq, u16_drop, List.length_drop, Nat.reduceAdd, Bool.false_eq_true]
  by_cases hc : p.length - 14 < 40 ∨ Spec.u16 p 18 + 40 ≠ p.length - 14
  · rw [if_neg (by omega), if_pos hc, guard_err]
    exact ⟨_, rfl, rfl⟩
  · have hl : 40 ≤ (p.drop 14).length := by rw [List.length_drop]; omega
    rw [if_pos (by omega), if_neg hc, guard_ok, byteN_at _ 6 (by omega),
      slice_field _ 8 24 (by omega) (by omega), slice_field _ 24 40 (by omega) (by omega)]
    simp only [Outcome.bind_ok, at_drop, field_drop, Nat.reduceAdd, Nat.reduceSub]
    rw [sliceFrom_ok p _ (by omega)]
    simp only [Outcome.bind_ok]
    exact parseProto_spec p _ _ rfl

theorem parse_spec_arp (cfg : Cfg) (p : Bytes) (h14 : 14 ≤ p.length)
    (hg : ¬ (Spec.at_ p 6 % 2 == 1) = true) (het : Spec.u16 p 12 = 0x0806) : ParseSpec cfg p := by
  have hh : etherHeaderLenOf (Spec.u16 p 12) ≤ p.length := by rw [het, hdr_arp]; exact h14
  unfold ParseSpec
  parse_prefix
  decode_prefix
  simp only [hg, het, hdr_arp, if_false, Nat.reduceLT, Nat.reduceBEq, BEq.rfl, if_true, sliceFrom_ok p 14 h14,
    Outcome.bind_ok, List.length_drop, Nat.reduceAdd, Bool.false_eq_true]
  by_cases hl : p.length - 14 < 28
  · rw [if_pos hl, if_pos (.inl hl)]
    exact ⟨_, rfl, rfl⟩
  · have hl' : 28 ≤ (p.drop 14).length := by rw [List.length_drop]; omega
    rw [if_neg hl, byteN_at _ 4 (by omega), slice_field _ 14 18 (by omega) (by omega),
      slice_field _ 8 14 (by omega) (by omega)]
    simp only [Outcome.bind_ok, at_drop, field_drop, Nat.reduceAdd, Nat.reduceSub, bne_iff_ne, ne_eq]
    by_cases h6 : Spec.at_ p 18 = 6
    · simp only [h6, hl, not_true_eq_false, or_self, if_false]
      exact ⟨_, rfl, rfl⟩
    · simp only [h6, not_false_eq_true, or_true, if_true]
      exact ⟨_, rfl, rfl⟩

theorem parse_spec (cfg : Cfg) (p : Bytes) : ParseSpec cfg p := by
  by_cases hv : 14 ≤ p.length ∧ etherHeaderLenOf (Spec.u16 p 12) ≤ p.length
  · obtain ⟨h14, hh⟩ := hv
    by_cases hg : (Spec.at_ p 6 % 2 == 1) = true
    · exact parse_spec_group cfg p h14 hh hg
    by_cases het : Spec.u16 p 12 < 1536
    · exact parse_spec_8023 cfg p h14 hh hg het
    by_cases h4 : Spec.u16 p 12 = 0x0800
    · exact parse_spec_ip4 cfg p h14 hg h4
    by_cases h6 : Spec.u16 p 12 = 0x86dd
    · exact parse_spec_ip6 cfg p h14 hg h6
    by_cases ha : Spec.u16 p 12 = 0x0806
    · exact parse_spec_arp cfg p h14 hg ha
    exact parse_spec_other cfg p h14 hh hg het h4 h6 ha
  · exact parse_spec_invalid cfg p hv

/-- structural invariant of a decoded frame over a buffer of `n` bytes -/
def DInv (n : Nat) (d : Spec.Decoded) : Prop :=
  d.srcMAC.length = 6 ∧ d.dstMAC.length = 6 ∧
  (d.srcIP.length = 0 ∨ d.srcIP.length = 4 ∨ d.srcIP.length = 16) ∧
  (d.dstIP.length = 0 ∨ d.dstIP.length = 4 ∨ d.dstIP.length = 16) ∧
  14 ≤ d.pay ∧ d.pay ≤ n ∧
  (d.ip4 ≠ 0 → 14 ≤ d.ip4 ∧ d.ip4 + 20 ≤ d.pay) ∧
  (d.ip6 ≠ 0 → 14 ≤ d.ip6 ∧ d.ip6 + 40 ≤ d.pay) ∧
  (d.udp ≠ 0 → d.udp ≤ d.pay) ∧ (d.tcp ≠ 0 → d.tcp = d.pay)

theorem transport_inv (p : Bytes) (d : Spec.Decoded) (proto : Nat) (h : DInv p.length d)
    (hu : d.udp = 0) (ht : d.tcp = 0) : DInv p.length (Spec.transport p d proto d.pay) := by
  obtain ⟨h1, h2, h3, h4, h5, h6, h7, h8, -, -⟩ := h
  unfold Spec.transport
  simp only []
  repeat' split
  all_goals (simp only [DInv]; and_intros)
  all_goals first | omega | exact fun _ => trivial


theorem decode_inv (cfg : Spec.SCfg) (p : Bytes) (h14 : 14 ≤ p.length)
    (hh : etherHeaderLenOf (Spec.u16 p 12) ≤ p.length) : DInv p.length (Spec.decode cfg p) := by
  decode_prefix
  have hs := field_length p 6 6 (by omega)
  have hd := field_length p 0 6 (by omega)
  have hc := etherHeaderLenOf_cases (Spec.u16 p 12)
  generalize etherHeaderLenOf (Spec.u16 p 12) = o at hh hc ⊢
  clear hdr
  have hnil : ([] : Bytes).length = 0 := rfl
  split
  · simp only [DInv]; omega
  split
  · simp only [DInv]; omega
  split
  · split
    · simp only [DInv]; omega
    · rename_i hv
      apply transport_inv p _ _ _ rfl rfl
      have := field_length p (o + 12) 4 (by omega)
      have := field_length p (o + 16) 4 (by omega)
      simp only [DInv]; omega
  split
  · split
    · simp only [DInv]; omega
    · rename_i hv
      apply transport_inv p _ _ _ rfl rfl
      have := field_length p (o + 8) 16 (by omega)
      have := field_length p (o + 24) 16 (by omega)
      simp only [DInv]; omega
  split
  · split
    · simp only [DInv]; omega
    · simp only [DInv]; omega
  split
  · simp only [DInv]; omega
  · simp only [DInv]; omega

theorem decode_err_invalid (cfg : Spec.SCfg) (p : Bytes) (h : (Spec.decode cfg p).err = false) :
    14 ≤ p.length ∧ etherHeaderLenOf (Spec.u16 p 12) ≤ p.length := by
  apply Decidable.byContradiction
  intro hn
  rw [decode_invalid cfg p hn] at h
  cases h

/-- invariants of every frame Parse returns with a nil error -/
theorem parse_inv (cfg : Cfg) (p : Bytes) (f : Frame) (h : parse cfg p = .ok ⟨f, none⟩) :
    DInv p.length (toDec ⟨f, none⟩) := by
  obtain ⟨r, hr, hd⟩ := parse_spec cfg p
  rw [h] at hr
  cases hr
  rw [hd]
  have he : (Spec.decode (toSC cfg) p).err = false := by rw [← hd]; rfl
  obtain ⟨h14, hh⟩ := decode_err_invalid _ p he
  exact decode_inv _ p h14 hh

theorem frameView_eq (p : Bytes) (off : Nat) (h : off ≤ p.length) :
    frameView p off = .ok (if off = 0 then .nil else .span off (p.length - off)) := by
  unfold frameView
  by_cases h0 : off = 0
  · subst h0; rfl
  · rw [if_neg h0, if_pos (by simpa using h0), if_pos h]

theorem frameView_inside (p : Bytes) (off : Nat) (h : off ≤ p.length) :
    ∃ v, frameView p off = .ok v ∧ v.inside p.length := by
  refine ⟨_, frameView_eq p off h, ?_⟩
  split
  · trivial
  · simp only [Val.inside]; omega

theorem frame_offsets_le (cfg : Cfg) (p : Bytes) (f : Frame) (h : parse cfg p = .ok ⟨f, none⟩) :
    f.offIP4 ≤ p.length ∧ f.offIP6 ≤ p.length ∧ f.offUDP ≤ p.length ∧ f.offTCP ≤ p.length ∧
      f.offPayload ≤ p.length := by
  have hi := parse_inv cfg p f h
  simp only [DInv, toDec] at hi
  omega

end PV.Lemmas
