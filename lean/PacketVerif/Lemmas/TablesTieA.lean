import PacketVerif.Gen.TablesGen
import PacketVerif.Lemmas.Tables
import PacketVerif.Spec.TableInv
namespace PV.Lemmas.TablesTieA
open PV PV.Model.Tables PV.Model.TablesGo PV.Gen.Tables PV.Spec
open PV.Lemmas.Tables

/-! ### generic loop / slice facts -/

/-- a `for i, v := range` loop that returns at the first element satisfying `p` -/
theorem forRange_indexed_map_find {α β σ ρ} (f : α → β) (p : σ → β → Bool) (q : α → Bool)
    (r : σ → Int → β → ρ) (k : σ → ρ) (st : σ) :
    ∀ (l : List α) (i : Int), (∀ a ∈ l, p st (f a) = q a) →
      forRange (indexed (l.map f) i) st
        (fun st iv => if p st iv.2 = true then Ctl.ret (r st iv.1 iv.2) else Ctl.next st) k
      = match l.find? q with
        | some a => r st (i + (l.findIdx q : Nat)) (f a)
        | none => k st
  | [], i, _ => by simp [indexed, forRange]
  | a :: l, i, h => by
    have ha := h a (List.mem_cons_self ..)
    have ih := forRange_indexed_map_find f p q r k st l (i + 1) (fun b hb => h b (List.mem_cons_of_mem _ hb))
    simp only [List.map_cons, indexed, forRange, ha]
    by_cases hq : q a = true
    · simp [hq, List.find?_cons, List.findIdx_cons]
    · have hq' : q a = false := by simpa using hq
      simp only [hq', List.find?_cons, List.findIdx_cons, cond_false]
      simp only [Bool.false_eq_true, if_false]
      rw [ih]
      cases l.find? q with
      | none => rfl
      | some b =>
        simp only
        congr 1
        omega

theorem forRange_next {α σ ρ} (g : σ → α → σ) (k : σ → ρ) :
    ∀ (l : List α) (st : σ), forRange l st (fun st a => Ctl.next (g st a)) k = k (l.foldl g st)
  | [], st => rfl
  | a :: l, st => by simp only [forRange, List.foldl_cons]; exact forRange_next g k l _

/-- the Go idiom that deletes position `i` of a slice -/
def delAt {α} (L : List α) (i : Int) : Option (List α) :=
  if (i + 1 == ((L.length : Nat) : Int)) = true then sliceTo L i
  else match copyWithin L i (i + 1) with
    | none => none
    | some l1 => sliceTo l1 (((l1.length : Nat) : Int) - 1)

theorem delAt_eq {α} (L : List α) (n : Nat) (hn : n < L.length) :
    delAt L (n : Int) = some (L.eraseIdx n) := by
  unfold delAt
  by_cases hl : n + 1 = L.length
  · have : (((n : Int) + 1) == ((L.length : Nat) : Int)) = true := by simp; omega
    simp only [this, if_true]
    unfold sliceTo
    have h2 : (0 : Int) ≤ (n : Int) ∧ (n : Int) ≤ (L.length : Int) := by omega
    simp only [h2, and_self, if_true, Int.toNat_natCast]
    rw [List.eraseIdx_eq_take_drop_succ, List.drop_of_length_le (by omega)]
    simp
  · have : (((n : Int) + 1) == ((L.length : Nat) : Int)) = false := by simp; omega
    simp only [this, Bool.false_eq_true, if_false]
    unfold copyWithin
    have h2 : (0 : Int) ≤ (n : Int) ∧ (n : Int) ≤ (L.length : Int) ∧ (0 : Int) ≤ (n : Int) + 1 ∧
        (n : Int) + 1 ≤ (L.length : Int) := by omega
    simp only [h2, and_self, if_true, Int.toNat_natCast]
    have h3 : ((n : Int) + 1).toNat = n + 1 := by omega
    simp only [h3, List.length_drop]
    have h4 : min (L.length - n) (L.length - (n + 1)) = L.length - (n + 1) := by omega
    simp only [h4]
    unfold sliceTo
    have h5 : (List.take n L ++ List.take (L.length - (n + 1)) (List.drop (n + 1) L) ++
        List.drop (n + (L.length - (n + 1))) L).length = L.length := by
      simp only [List.length_append, List.length_take, List.length_drop]; omega
    rw [h5]
    have h6 : (0 : Int) ≤ ((L.length : Nat) : Int) - 1 ∧ ((L.length : Nat) : Int) - 1 ≤ ((L.length : Nat) : Int) := by omega
    simp only [h6, and_self, if_true]
    have h7 : (((L.length : Nat) : Int) - 1).toNat = L.length - 1 := by omega
    rw [h7, List.eraseIdx_eq_take_drop_succ]
    have h8 : List.take (L.length - (n + 1)) (List.drop (n + 1) L) = List.drop (n + 1) L := by
      apply List.take_of_length_le; simp
    rw [h8]
    have h9 : (List.take n L ++ List.drop (n + 1) L).length = L.length - 1 := by
      simp only [List.length_append, List.length_take, List.length_drop]; omega
    rw [List.take_append_of_le_length (by omega), List.take_of_length_le (by omega)]

theorem eraseP_eq_findIdx {α} (p : α → Bool) :
    ∀ (l : List α) {a : α}, l.find? p = some a → l.eraseP p = l.eraseIdx (l.findIdx p) ∧ l.findIdx p < l.length
  | [], _, h => by simp at h
  | x :: l, a, h => by
    by_cases hx : p x = true
    · simp [List.eraseP_cons, List.findIdx_cons, hx]
    · have hx' : p x = false := by simpa using hx
      rw [List.find?_cons, hx'] at h
      have ih := eraseP_eq_findIdx p l h
      simp only [List.eraseP_cons, List.findIdx_cons, hx', cond_false, List.eraseIdx_cons_succ, ih.1,
        List.length_cons]
      exact ⟨trivial, by omega⟩

end PV.Lemmas.TablesTieA
