import PacketVerif.Gen.TablesGen
import PacketVerif.Lemmas.Tables
import PacketVerif.Spec.TableInv
namespace PV.Lemmas.TablesTieA
open PV PV.Model.Tables PV.Model.TablesGo PV.Gen.Tables PV.Spec
open PV.Lemmas.Tables
set_option linter.unusedVariables false

/-! ### generic loop / slice facts -/

/-- a `for i, v := range` loop that returns at the first element satisfying `p` -/
theorem forRange_indexed_map_find {α β σ ρ} (f : α → β) (p : σ → β → Bool) (q : α → Bool)
    (r : σ → Int → β → ρ) (k : σ → ρ) (st : σ) :
    ∀ (l : List α) (i : Int), (∀ a ∈ l, p st (f a) = q a) →
      forRange (indexed (l.map f) i) st
        (fun st iv => if p st iv.2 = true then Ctl.ret (r st iv.1 iv.2) else Ctl.next st) k
      = match l.find? q with
        | some a => r st (i + (l.findIdx q : Nat)) (f a)
        | none => k st
  | [], i, _ => by simp [indexed, forRange]
  | a :: l, i, h => by
    have ha := h a (List.mem_cons_self ..)
    have ih := forRange_indexed_map_find f p q r k st l (i + 1) (fun b hb => h b (List.mem_cons_of_mem _ hb))
    simp only [List.map_cons, indexed, forRange, ha]
    by_cases hq : q a = true
    · simp [hq, List.findIdx_cons]
    · have hq' : q a = false := by simpa using hq
      simp only [hq', List.find?_cons, List.findIdx_cons, cond_false]
      simp only [Bool.false_eq_true, if_false]
      rw [ih]
      cases l.find? q with
      | none => rfl
      | some b =>
        simp only
        congr 1
        omega

theorem forRange_next {α σ ρ} (g : σ → α → σ) (k : σ → ρ) :
    ∀ (l : List α) (st : σ), forRange l st (fun st a => Ctl.next (g st a)) k = k (l.foldl g st)
  | [], st => rfl
  | a :: l, st => by simp only [forRange, List.foldl_cons]; exact forRange_next g k l _

/-- the Go idiom that deletes position `i` of a slice -/
def delAt {α} (L : List α) (i : Int) : Option (List α) :=
  if (i + 1 == ((L.length : Nat) : Int)) = true then sliceTo L i
  else match copyWithin L i (i + 1) with
    | none => none
    | some l1 => sliceTo l1 (((l1.length : Nat) : Int) - 1)

theorem delAt_eq {α} (L : List α) (n : Nat) (hn : n < L.length) :
    delAt L (n : Int) = some (L.eraseIdx n) := by
  unfold delAt
  by_cases hl : n + 1 = L.length
  · have : (((n : Int) + 1) == ((L.length : Nat) : Int)) = true := by simp; omega
    simp only [this, if_true]
    unfold sliceTo
    have h2 : (0 : Int) ≤ (n : Int) ∧ (n : Int) ≤ (L.length : Int) := by omega
    simp only [h2, and_self, if_true, Int.toNat_natCast]
    rw [List.eraseIdx_eq_take_drop_succ, List.drop_of_length_le (by omega)]
    simp
  · have : (((n : Int) + 1) == ((L.length : Nat) : Int)) = false := by simp; omega
    simp only [this, Bool.false_eq_true, if_false]
    unfold copyWithin
    have h2 : (0 : Int) ≤ (n : Int) ∧ (n : Int) ≤ (L.length : Int) ∧ (0 : Int) ≤ (n : Int) + 1 ∧
        (n : Int) + 1 ≤ (L.length : Int) := by omega
    simp only [h2, and_self, if_true, Int.toNat_natCast]
    have h3 : ((n : Int) + 1).toNat = n + 1 := by omega
    simp only [h3, List.length_drop]
    have h4 : min (L.length - n) (L.length - (n + 1)) = L.length - (n + 1) := by omega
    simp only [h4]
    unfold sliceTo
    have h5 : (List.take n L ++ List.take (L.length - (n + 1)) (List.drop (n + 1) L) ++
        List.drop (n + (L.length - (n + 1))) L).length = L.length := by
      simp only [List.length_append, List.length_take, List.length_drop]; omega
    rw [h5]
    have h6 : (0 : Int) ≤ ((L.length : Nat) : Int) - 1 ∧ ((L.length : Nat) : Int) - 1 ≤ ((L.length : Nat) : Int) := by omega
    simp only [h6, and_self, if_true]
    have h7 : (((L.length : Nat) : Int) - 1).toNat = L.length - 1 := by omega
    rw [h7, List.eraseIdx_eq_take_drop_succ]
    have h8 : List.take (L.length - (n + 1)) (List.drop (n + 1) L) = List.drop (n + 1) L := by
      apply List.take_of_length_le; simp
    rw [h8]
    have h9 : (List.take n L ++ List.drop (n + 1) L).length = L.length - 1 := by
      simp only [List.length_append, List.length_take, List.length_drop]; omega
    rw [List.take_append_of_le_length (by omega), List.take_of_length_le (by omega)]

theorem eraseP_eq_findIdx {α} (p : α → Bool) :
    ∀ (l : List α) {a : α}, l.find? p = some a → l.eraseP p = l.eraseIdx (l.findIdx p) ∧ l.findIdx p < l.length
  | [], _, h => by simp at h
  | x :: l, a, h => by
    by_cases hx : p x = true
    · simp [List.findIdx_cons, hx]
    · have hx' : p x = false := by simpa using hx
      rw [List.find?_cons, hx'] at h
      have ih := eraseP_eq_findIdx p l h
      simp only [List.eraseP_cons, List.findIdx_cons, hx', cond_false, List.eraseIdx_cons_succ, ih.1,
        List.length_cons]
      exact ⟨trivial, by omega⟩

/-! ### pointer reads -/

theorem M_of_mem {s : Sess} (hn : (s.macs.map (·.id)).Nodup) {m : MacRec} (hm : m ∈ s.macs) : M s m.id = m := by
  unfold M; rw [macById_of_mem hn hm]; rfl

theorem M_of_macById {s : Sess} {e : Nat} {m : MacRec} (h : macById s e = some m) : M s e = m := by
  unfold M; rw [h]; rfl

theorem H_of_hostById {s : Sess} {i : Nat} {h : HostRec} (e : hostById s i = some h) : H s i = h := by
  unfold H; rw [e]; rfl

/-! ### 1. `MACTable.findMAC` -/

theorem findMAC_eq {s : Sess} (hn : (s.macs.map (·.id)).Nodup) (mac : MAC) :
    MACTable_findMAC s mac =
      match findMAC s mac with
      | some m => (s, some m.id, ((s.macs.findIdx (fun m => m.mac == mac) : Nat) : Int))
      | none => (s, none, -1) := by
  unfold MACTable_findMAC macPtrs findMAC
  have := forRange_indexed_map_find (fun m : MacRec => m.id) (fun (s : Sess) v => (M s v).mac == mac)
    (fun m => m.mac == mac) (fun (s : Sess) (pos : Int) v => (s, some v, pos)) (fun s => (s, (none : Option Nat), (-1 : Int)))
    s s.macs 0 (by intro a ha; simp only [M_of_mem hn ha])
  simp only [Int.zero_add] at this
  refine this.trans ?_
  cases List.find? (fun m => m.mac == mac) s.macs <;> rfl

theorem findMAC_tie {s : Sess} (hn : (s.macs.map (·.id)).Nodup) (mac : MAC) :
    (MACTable_findMAC s mac).1 = s ∧
    (MACTable_findMAC s mac).2.1 = (findMAC s mac).map (·.id) ∧
    ((MACTable_findMAC s mac).2.2 = -1 ↔ findMAC s mac = none) ∧
    (findMAC s mac ≠ none →
      (MACTable_findMAC s mac).2.2 = ((s.macs.findIdx (fun m => m.mac == mac) : Nat) : Int) ∧
      s.macs.findIdx (fun m => m.mac == mac) < s.macs.length) := by
  rw [findMAC_eq hn]
  cases h : findMAC s mac with
  | none => simp
  | some m =>
    simp only [Option.map_some, true_and, ne_eq, reduceCtorEq, not_false_eq_true, forall_const]
    exact (eraseP_eq_findIdx _ s.macs h).2

/-! ### 2. `MACTable.findOrCreate` -/

theorem macFindOrCreate_tie {s : Sess} (hn : (s.macs.map (·.id)).Nodup) (mac : MAC) :
    MACTable_findOrCreate s mac = ((macFindOrCreate s mac).1, (macFindOrCreate s mac).2.id) := by
  unfold MACTable_findOrCreate macFindOrCreate
  rw [findMAC_eq hn]
  cases h : findMAC s mac with
  | none => rfl
  | some m => rfl

/-! ### 3. `MACTable.delete` -/

theorem macDelete_tie {s : Sess} (hn : (s.macs.map (·.id)).Nodup) (mac : MAC) :
    MACTable_delete s mac = some ({ s with macs := s.macs.eraseP (fun x => x.mac == mac) }, none) := by
  have key : ∀ (pos : Int), MACTable_delete s mac =
      (let pos := (MACTable_findMAC s mac).2.2
       let s := (MACTable_findMAC s mac).1
       if (pos == (-1 : Int)) = true then some (s, none)
       else match delAt s.macs pos with
         | none => none
         | some l => some (setMacs s l, none)) := by
    intro _
    unfold MACTable_delete delAt
    simp only
    split
    · rfl
    · split
      · rfl
      · cases copyWithin (MACTable_findMAC s mac).1.macs (MACTable_findMAC s mac).2.2
            ((MACTable_findMAC s mac).2.2 + 1) with
        | none => rfl
        | some l => simp only [setMacs]; rfl
  rw [key 0, findMAC_eq hn]
  cases h : findMAC s mac with
  | none =>
    have : s.macs.eraseP (fun x => x.mac == mac) = s.macs := by
      apply List.eraseP_of_forall_not
      intro a ha
      have := findMAC_none h a ha
      simpa using this
    simp [this]
  | some m =>
    have h2 := eraseP_eq_findIdx _ s.macs h
    have h3 : ((((s.macs.findIdx (fun m => m.mac == mac) : Nat) : Int)) == (-1 : Int)) = false := by
      simp
    simp only [h3, Bool.false_eq_true, if_false, delAt_eq _ _ h2.2, h2.1, setMacs]

/-! ### 4. `MACEntry.unlink` -/

theorem forRange_indexed_find {α σ ρ} (body : σ → Int × α → Ctl σ ρ) (st : σ) (q : α → Bool)
    (r : Int → α → ρ) (k : σ → ρ) :
    ∀ (l : List α) (i : Int),
      (∀ (j : Int), ∀ a ∈ l, body st (j, a) = if q a = true then Ctl.ret (r j a) else Ctl.next st) →
      forRange (indexed l i) st body k
      = match l.find? q with
        | some a => r (i + (l.findIdx q : Nat)) a
        | none => k st
  | [], i, _ => by simp [indexed, forRange]
  | a :: l, i, h => by
    have ha := h i a (List.mem_cons_self ..)
    have ih := forRange_indexed_find body st q r k l (i + 1) (fun j b hb => h j b (List.mem_cons_of_mem _ hb))
    simp only [indexed, forRange, ha]
    by_cases hq : q a = true
    · simp [hq, List.findIdx_cons]
    · have hq' : q a = false := by simpa using hq
      simp only [hq', List.find?_cons, List.findIdx_cons, cond_false]
      simp only [Bool.false_eq_true, if_false]
      rw [ih]
      cases l.find? q with
      | none => rfl
      | some b =>
        simp only
        congr 1
        omega

theorem macById_updMac_self {s : Sess} {e : Nat} {m : MacRec} (h : macById s e = some m)
    (f : MacRec → MacRec) (hf : ∀ x, (f x).id = x.id) : macById (updMac s e f) e = some (f m) := by
  have hm := (macById_some h).2
  unfold macById updMac at *
  simp only [List.find?_map]
  have : ((fun m : MacRec => m.id == e) ∘ fun m => if m.id = e then f m else m) = (fun m : MacRec => m.id == e) := by
    funext x
    simp only [Function.comp]
    by_cases hx : x.id = e <;> simp [hx, hf]
  rw [this, h]
  simp [hm]

theorem updMac_congr {s : Sess} {e : Nat} {f g : MacRec → MacRec}
    (h : ∀ x ∈ s.macs, x.id = e → f x = g x) : updMac s e f = updMac s e g := by
  unfold updMac
  congr 1
  apply List.map_congr_left
  intro x hx
  by_cases hxe : x.id = e
  · simp [hxe, h x hx hxe]
  · simp [hxe]

theorem updMac_id {s : Sess} {e : Nat} {f : MacRec → MacRec}
    (h : ∀ x ∈ s.macs, x.id = e → f x = x) : updMac s e f = s := by
  unfold updMac
  have : s.macs.map (fun m => if m.id = e then f m else m) = s.macs := by
    conv => rhs; rw [← List.map_id s.macs]
    apply List.map_congr_left
    intro x hx
    by_cases hxe : x.id = e
    · simp [hxe, h x hx hxe]
    · simp [hxe]
  rw [this]

theorem updMac_updMac_list (s : Sess) (e : Nat) (l1 l2 : List Nat) :
    updMac (updMac s e (fun x => { x with hostList := l1 })) e (fun x => { x with hostList := l2 })
      = updMac s e (fun x => { x with hostList := l2 }) := by
  unfold updMac
  simp only [List.map_map]
  congr 1
  apply List.map_congr_left
  intro x _
  by_cases hxe : x.id = e <;> simp [hxe]

theorem unlink_body_eq {s : Sess} {e : Nat} {m : MacRec} (hm : macById s e = some m) (j : Int) :
    (if ((j + (1 : Int)) == (((M s e).hostList.length : Nat) : Int)) = true then
        match sliceTo (M s e).hostList j with
        | none => (Ctl.ret none : Ctl Sess (Option Sess))
        | some l_ =>
        let s := updMac s e (fun x => { x with hostList := l_ })
        Ctl.ret (some s)
      else
        match copyWithin (M s e).hostList j (j + (1 : Int)) with
        | none => Ctl.ret (none)
        | some l_ =>
        let s := updMac s e (fun x => { x with hostList := l_ })
        match sliceTo (M s e).hostList ((((M s e).hostList.length : Nat) : Int) - (1 : Int)) with
        | none => Ctl.ret (none)
        | some l_ =>
        let s := updMac s e (fun x => { x with hostList := l_ })
        Ctl.ret (some s))
    = Ctl.ret ((delAt m.hostList j).map (fun l => updMac s e (fun x => { x with hostList := l }))) := by
  rw [M_of_macById hm]
  unfold delAt
  split
  · cases sliceTo m.hostList j <;> rfl
  · cases hc : copyWithin m.hostList j (j + 1) with
    | none => rfl
    | some l1 =>
      simp only
      rw [M_of_macById (macById_updMac_self hm (fun x => { x with hostList := l1 }) (fun _ => rfl))]
      simp only
      cases sliceTo l1 (((l1.length : Nat) : Int) - 1) with
      | none => rfl
      | some l2 => simp only [updMac_updMac_list, Option.map_some]

theorem unlink_tie {s : Sess} (hi : Inv s) {hid : Nat} {h : HostRec} (hh : hostById s hid = some h) (e : Nat) :
    MACEntry_unlink s e hid =
      some (updMac s e (fun m => { m with hostList := unlinkList s m.hostList h.ip })) := by
  unfold MACEntry_unlink
  simp only [hh]
  cases hm : macById s e with
  | none =>
    have hM : (M s e).hostList = [] := by unfold M; rw [hm]; rfl
    rw [hM]
    simp only [indexed, forRange]
    rw [updMac_id]
    intro x hx hxe
    unfold macById at hm
    have := List.find?_eq_none.1 hm x hx
    simp [hxe] at this
  | some m =>
    have hmm := macById_some hm
    let q : Nat → Bool := fun i => match hostById s i with
                     | some v => v.ip == h.ip
                     | none => false
    have key := forRange_indexed_find
      (fun (s : Sess) (iv : Int × Nat) =>
        let i := iv.1
        let i_elem := iv.2
        if ((H s i_elem).ip == h.ip) then
          if ((i + (1 : Int)) == (((M s e).hostList.length : Nat) : Int)) then
            match sliceTo (M s e).hostList i with
            | none => (Ctl.ret none : Ctl Sess (Option Sess))
            | some l_ =>
            let s := updMac s e (fun x => { x with hostList := l_ })
            Ctl.ret (some s)
          else
            match copyWithin (M s e).hostList i (i + (1 : Int)) with
            | none => Ctl.ret (none)
            | some l_ =>
            let s := updMac s e (fun x => { x with hostList := l_ })
            match sliceTo (M s e).hostList ((((M s e).hostList.length : Nat) : Int) - (1 : Int)) with
            | none => Ctl.ret (none)
            | some l_ =>
            let s := updMac s e (fun x => { x with hostList := l_ })
            Ctl.ret (some s)
        else
          Ctl.next s) s q
      (fun j _ => (delAt m.hostList j).map (fun l => updMac s e (fun x => { x with hostList := l })))
      (fun s => some s) m.hostList 0 (by
        intro j a ha
        obtain ⟨p, hp, hpid, _⟩ := hi.listed m hmm.1 a ha
        have hb := hostById_of_mem hi.hidNodup hp
        rw [hpid] at hb
        simp only [q, hb, H_of_hostById hb]
        split
        · exact unlink_body_eq hm j
        · rfl)
    rw [M_of_macById hm]
    refine key.trans ?_
    have hU : ∀ x ∈ s.macs, x.id = e →
        ({ x with hostList := unlinkList s x.hostList h.ip } : MacRec) = { x with hostList := m.hostList.eraseP q } := by
      intro x hx hxe
      have : x = m := inj_of_nodup_map (fun y : MacRec => y.id) hi.midNodup hx hmm.1 (by simp [hxe, hmm.2])
      subst this
      rfl
    rw [updMac_congr hU]
    cases hf : m.hostList.find? q with
    | none =>
      simp only
      have : m.hostList.eraseP q = m.hostList := by
        apply List.eraseP_of_forall_not
        intro a ha
        have := List.find?_eq_none.1 hf a ha
        exact this
      rw [this, updMac_id]
      intro x hx hxe
      have : x = m := inj_of_nodup_map (fun y : MacRec => y.id) hi.midNodup hx hmm.1 (by simp [hxe, hmm.2])
      subst this
      rfl
    | some a =>
      have h2 := eraseP_eq_findIdx q m.hostList hf
      simp only [Int.zero_add, delAt_eq _ _ h2.2, Option.map_some, h2.1]

/-! ### 5. `Session.printHostTable` -/

theorem print_inner (s : Sess) : ∀ (l : List Nat) (c : Int),
    forRange l (s, c) (fun (st : Sess × Int) host =>
      let s := st.1
      let count := st.2
      let host_entry := (H s host).entry
      let host_ip := (H s host).ip
      let host_mac := (H s host).mac
      let count := (count + 1)
      (Ctl.next (s, count) : Ctl (Sess × Int) (Ctl (Sess × Int) (Option Sess)))) (fun st =>
      let s := st.1
      let count := st.2
      (Ctl.next (s, count) : Ctl (Sess × Int) (Option Sess))) = Ctl.next (s, c + (l.length : Nat))
  | [], c => by simp [forRange]
  | a :: l, c => by
    simp only [forRange]
    have ih := print_inner s l (c + 1)
    simp only at ih
    rw [ih]
    simp only [List.length_cons]
    congr 2
    omega

theorem print_outer (s : Sess) (K : Sess × Int → Option Sess) : ∀ (l : List MacRec) (c : Int),
    (∀ a ∈ l, M s a.id = a) →
    forRange (l.map (·.id)) (s, c) (fun st v =>
      let s := st.1
      let count := st.2
      forRange (M s v).hostList (s, count) (fun st host =>
        let s := st.1
        let count := st.2
        let host_entry := (H s host).entry
        let host_ip := (H s host).ip
        let host_mac := (H s host).mac
        let count := (count + 1)
        Ctl.next (s, count)) (fun st =>
        let s := st.1
        let count := st.2
        Ctl.next (s, count))) K = K (s, c + ((l.map (fun m => m.hostList.length)).sum : Nat))
  | [], c, _ => by simp [forRange]
  | a :: l, c, h => by
    have ha := h a (List.mem_cons_self ..)
    have ih := print_outer s K l (c + (a.hostList.length : Nat)) (fun b hb => h b (List.mem_cons_of_mem _ hb))
    simp only at ih
    simp only [List.map_cons, forRange, ha]
    have hin := print_inner s a.hostList c
    simp only at hin
    rw [hin]
    simp only
    rw [ih]
    simp only [List.sum_cons]
    congr 2
    omega

theorem printHostTable_tie {s : Sess} (hn : (s.macs.map (·.id)).Nodup) :
    Session_printHostTable s = if printTablePanics s then none else some s := by
  unfold Session_printHostTable macPtrs
  have := print_outer s (fun st =>
    let s := st.1
    let count := st.2
    if (count != (tableLen s)) then
      none
    else
      some s) s.macs 0 (fun a ha => M_of_mem hn ha)
  simp only at this
  simp only
  rw [this]
  unfold printTablePanics tableLen
  simp only [Int.zero_add]
  by_cases hc : (s.macs.map (fun m => m.hostList.length)).sum = s.hosts.length
  · simp [hc]
  · have : ¬ (((s.macs.map (fun m => m.hostList.length)).sum : Nat) : Int) = ((s.hosts.length : Nat) : Int) := by omega
    simp [hc, this]

theorem printHostTable_ok {s : Sess} (hi : Inv s) : Session_printHostTable s = some s := by
  rw [printHostTable_tie hi.midNodup]
  unfold printTablePanics
  simp [count_eq hi]

theorem printTablePanics_false {s : Sess} (hi : Inv s) : printTablePanics s = false := by
  unfold printTablePanics
  simp [count_eq hi]

/-! ### 6. `Session.deleteHost` -/

theorem updMac_ids (s : Sess) (e : Nat) (f : MacRec → MacRec) (hf : ∀ x, (f x).id = x.id) :
    (updMac s e f).macs.map (·.id) = s.macs.map (·.id) := by
  unfold updMac
  simp only [List.map_map]
  apply List.map_congr_left
  intro x _
  by_cases hxe : x.id = e <;> simp [hxe, hf]

theorem deleteHost_tie {s : Sess} (hi : Inv s) (ip : IP) :
    Session_deleteHost s ip = some (deleteHost s ip) := by
  unfold Session_deleteHost Session_findIP tableGet deleteHost
  cases hf : findHost s ip with
  | none => rfl
  | some h =>
    have hp := findHost_some hf
    have hb : hostById s h.id = some h := hostById_of_mem hi.hidNodup hp
    obtain ⟨m, hm, hme, _, _⟩ := hi.hostEntry (ip, h) hp
    simp only at hme
    have hmb : macById s h.entry = some m := by rw [← hme]; exact macById_of_mem hi.midNodup hm
    simp only [Option.map_some, H_of_hostById hb, unlink_tie hi hb h.entry]
    have hmb1 := macById_updMac_self hmb (fun m => { m with hostList := unlinkList s m.hostList h.ip }) (fun _ => rfl)
    have hmb2 : macById (tableDel (updMac s h.entry
        (fun m => { m with hostList := unlinkList s m.hostList h.ip })) ip) h.entry = _ := hmb1
    have hs2 : ({ (updMac s h.entry (fun m => { m with hostList := unlinkList s m.hostList h.ip })) with
        hosts := (updMac s h.entry (fun m => { m with hostList := unlinkList s m.hostList h.ip })).hosts.filter
          (fun p => p.1 != ip) } : Sess) =
        tableDel (updMac s h.entry (fun m => { m with hostList := unlinkList s m.hostList h.ip })) ip := rfl
    rw [hs2]
    rw [M_of_macById hmb1, M_of_macById hmb2, hmb2]
    simp only
    have hn2 : ((tableDel (updMac s h.entry
        (fun m => { m with hostList := unlinkList s m.hostList h.ip })) ip).macs.map (·.id)).Nodup := by
      show ((updMac s h.entry (fun m => { m with hostList := unlinkList s m.hostList h.ip })).macs.map (·.id)).Nodup
      rw [updMac_ids s h.entry (fun m => { m with hostList := unlinkList s m.hostList h.ip }) (fun _ => rfl)]
      exact hi.midNodup
    rw [macDelete_tie hn2]
    cases hl : unlinkList s m.hostList h.ip with
    | nil => simp [tableDel]
    | cons a l =>
      have : ¬ ((l.length : Int) + 1 = 0) := by omega
      simp [this]

/-! ### 7. `Session.findOrCreateHostWithLock` -/

theorem updMac_updMac (s : Sess) (e : Nat) (f g : MacRec → MacRec) :
    updMac (updMac s e f) e g = updMac s e (fun x => if (f x).id = e then g (f x) else f x) := by
  unfold updMac
  simp only [List.map_map]
  congr 1
  apply List.map_congr_left
  intro x _
  by_cases hxe : x.id = e <;> simp [hxe]

theorem hostById_tableSet (s : Sess) (ip : IP) (r : HostRec) (hfr : ∀ p ∈ s.hosts, p.2.id ≠ r.id) :
    hostById (tableSet s ip r) r.id = some r := by
  unfold hostById tableSet
  simp only [List.find?_append]
  have : List.find? (fun p : IP × HostRec => p.2.id == r.id) (s.hosts.filter (fun p => p.1 != ip)) = none := by
    apply List.find?_eq_none.2
    intro x hx
    have := hfr x (List.mem_filter.1 hx).1
    simpa using this
  rw [this]
  simp

/-- the creation tail of the generated `findOrCreateHostWithLock` (it occurs twice there) -/
def genLink (fm : MAC → String) (now : Int) (s : Sess) (macEntry : Nat) (addr_IP : IP) : Option (Sess × Nat × Bool) :=
  let host := ({ id := s.nextId, ip := addr_IP, mac := (M s macEntry).mac, entry := macEntry, online := false, lastSeen := zeroTime, manuf := "", names := {}, dirty := false } : HostRec)
  let s := alloc s
  let host := { host with dirty := true }
  let host := { host with manuf := (fm (M s macEntry).mac) }
  let host := { host with lastSeen := now }
  let s := tableSet s addr_IP host
  let host := host.id
  if (((H s host).manuf != "") && ((H s host).manuf != (M s macEntry).manuf)) then
    let s := updMac s macEntry (fun x => { x with manuf := (H s host).manuf })
    let s := updMac s macEntry (fun x => { x with lastSeen := now })
    let s := updMac s macEntry (fun x => { x with hostList := ((M s macEntry).hostList ++ [host]) })
    some (s, host, false)
  else
    let s := updMac s macEntry (fun x => { x with lastSeen := now })
    let s := updMac s macEntry (fun x => { x with hostList := ((M s macEntry).hostList ++ [host]) })
    some (s, host, false)

theorem genLink_eq (fm : MAC → String) (now : Int) {s1 : Sess} (hi : Inv s1) {e : MacRec} (he : e ∈ s1.macs)
    (ip : IP) : genLink fm now s1 e.id ip = some (linkHost s1 e ip now (fm e.mac), s1.nextId, false) := by
  have hM1 : macById s1 e.id = some e := macById_of_mem hi.midNodup he
  have hMa : M (alloc s1) e.id = e := M_of_macById hM1
  have hM0 : M s1 e.id = e := M_of_macById hM1
  unfold genLink
  simp only [hM0, hMa]
  have hH := hostById_tableSet (alloc s1) ip
    { id := s1.nextId, ip := ip, mac := e.mac, entry := e.id, online := false, lastSeen := now,
      manuf := fm e.mac, names := {}, dirty := true }
    (by intro p hp; have := hi.freshH p hp; simp only [ne_eq]; omega)
  have hM3 : macById (tableSet (alloc s1) ip
    { id := s1.nextId, ip := ip, mac := e.mac, entry := e.id, online := false, lastSeen := now,
      manuf := fm e.mac, names := {}, dirty := true }) e.id = some e := hM1
  simp only [H_of_hostById hH, M_of_macById hM3]
  have hx : ∀ x ∈ s1.macs, x.id = e.id → x = e := fun x hx hxe =>
    inj_of_nodup_map (fun y : MacRec => y.id) hi.midNodup hx he hxe
  split
  · rename_i hc
    have h4 := macById_updMac_self hM3 (fun x => { x with manuf := fm e.mac }) (fun _ => rfl)
    have h5 := macById_updMac_self h4 (fun x => { x with lastSeen := now }) (fun _ => rfl)
    rw [M_of_macById h5]
    rw [updMac_updMac, updMac_updMac]
    congr 2
    unfold linkHost updMac tableSet alloc newHost
    simp only
    congr 1
    apply List.map_congr_left
    intro x hxm
    unfold linkG
    by_cases hxe : x.id = e.id
    · have := hx x hxm hxe
      subst this
      have hc' : fm x.mac ≠ "" ∧ fm x.mac ≠ x.manuf := by simpa using hc
      simp [hc']
    · simp [hxe]
  · rename_i hc
    have h5 := macById_updMac_self hM3 (fun x => { x with lastSeen := now }) (fun _ => rfl)
    rw [M_of_macById h5]
    rw [updMac_updMac]
    congr 2
    unfold linkHost updMac tableSet alloc newHost
    simp only
    congr 1
    apply List.map_congr_left
    intro x hxm
    unfold linkG
    by_cases hxe : x.id = e.id
    · have := hx x hxm hxe
      subst this
      have hc' : ¬ (fm x.mac ≠ "" ∧ fm x.mac ≠ x.manuf) := by simpa using hc
      simp [hc']
    · simp [hxe]

theorem genCreate_eq (fm : MAC → String) (now : Int) {s0 : Sess} (hi : Inv s0) (mac : MAC) (ip : IP) :
    genLink fm now (MACTable_findOrCreate s0 mac).1 (MACTable_findOrCreate s0 mac).2 ip =
      some ((createHost s0 mac ip now (fm mac)).1, (createHost s0 mac ip now (fm mac)).2, false) := by
  rw [macFindOrCreate_tie hi.midNodup, createHost_eq]
  obtain ⟨h1, h2, h3, _⟩ := inv_macFindOrCreate hi mac
  simp only
  rw [genLink_eq fm now h1 h2 ip, h3]

theorem findOrCreateHost_tie {s : Sess} (hi : Inv s) (fm : MAC → String) (now : Int) (mac : MAC) (ip : IP) :
    Session_findOrCreateHostWithLock fm now s mac ip =
      (let r := findOrCreateHost s mac ip now (fm mac)
       if r.panic then none
       else some (r.s, r.host,
         match findHost s ip with
         | some h => decide ((macById s h.entry).map (·.mac) = some mac)
         | none => false)) := by
  unfold Session_findOrCreateHostWithLock findOrCreateHost tableGet findHost
  cases hfind : s.hosts.find? (fun p => p.1 == ip) with
  | none =>
    simp only [Option.map_none, Bool.false_eq_true, if_false]
    exact genCreate_eq fm now hi mac ip
  | some p =>
    obtain ⟨k, h⟩ := p
    have hp := (find?_mem_pred hfind).1
    have hb : hostById s h.id = some h := hostById_of_mem hi.hidNodup hp
    obtain ⟨m, hm, hme, _, _⟩ := hi.hostEntry (k, h) hp
    simp only at hme
    have hmb : macById s h.entry = some m := by rw [← hme]; exact macById_of_mem hi.midNodup hm
    simp only [Option.map_some, H_of_hostById hb, M_of_macById hmb, hmb]
    by_cases hc : m.mac = mac
    · simp [hc]
    · have hc2 : (m.mac == mac) = false := by simpa using hc
      have hc3 : ¬ (some m.mac = some mac) := by simpa using hc
      simp only [hc2, hc3, Bool.false_eq_true, if_false, printHostTable_ok hi, printTablePanics_false hi,
        deleteHost_tie hi ip, decide_false]
      exact genCreate_eq fm now (inv_deleteHost hi ip) mac ip

end PV.Lemmas.TablesTieA
