/-
  The DNSSL label walk of Model/Ndp.lean against the LENIENT reference reading (Spec/DnsslLenient.lean): on every
  framed DNSSL option without a Punycode marker, `dnsslUnmarshal` returns exactly what the receiver that stops at
  the first empty name reads - whatever follows that empty name.  Same route as Lemmas/NdpDnssl.lean (walk over the
  remaining bytes `loopL`, induction on the fuel in lock step with the reference's name reader), without the
  padding hypothesis.
-/
import PacketVerif.Lemmas.NdpDnssl
import PacketVerif.Spec.DnsslLenient
namespace PV.Lemmas.NdpDnsslLenient
open PV PV.Model.Ndp PV.Lemmas.Ndp PV.Spec.NdpWire PV.Lemmas.NdpExact PV.Lemmas.NdpDnssl PV.Spec.DnsslLenient

theorem lenient_nil (f : Nat) : dnsNamesLenient (f + 1) [] = some [] := rfl

theorem lenient_cons (f : Nat) (n : UInt8) (tl : Bytes) :
    dnsNamesLenient (f + 1) (n :: tl) =
      match dnsName ((n :: tl).length + 1) (n :: tl) with
      | none => none
      | some ([], _) => some []
      | some (ls, rest) => (dnsNamesLenient f rest).map (fun r => PV.Spec.NdpWire.joinDots ls :: r) := rfl

theorem lenient_fuel : ∀ (f g : Nat) (b : Bytes), b.length < f → b.length < g →
    dnsNamesLenient f b = dnsNamesLenient g b
  | 0, _, _, h, _ => by omega
  | _ + 1, 0, _, _, h => by omega
  | f + 1, g + 1, [], _, _ => rfl
  | f + 1, g + 1, n :: tl, hf, hg => by
    rw [lenient_cons, lenient_cons]
    cases hd : dnsName ((n :: tl).length + 1) (n :: tl) with
    | none => rfl
    | some p =>
      obtain ⟨ls, r⟩ := p
      have hl := dnsName_len _ _ _ _ hd
      cases ls with
      | nil => rfl
      | cons l ls =>
        simp only []
        rw [lenient_fuel f g r (by omega) (by omega)]

/-- the walk started inside a name (at a non-zero length byte), for one fuel value -/
def MidL (fuel : Nat) : Prop :=
  ∀ (n : UInt8) (tl : Bytes) (acc : DnsslAcc), (n :: tl).length < fuel → n ≠ 0 → hasPuny (n :: tl) = false →
    loopL fuel (n :: tl) acc =
      match dnsName ((n :: tl).length + 1) (n :: tl) with
      | none => .err .other
      | some (ls, r) =>
        match dnsNamesLenient (r.length + 1) r with
        | none => .err .other
        | some ds => .ok (done acc (PV.Spec.NdpWire.joinDots (acc.labels ++ ls) :: ds))

/-- the walk started where a name starts, for one fuel value -/
def StartL (fuel : Nat) : Prop :=
  ∀ (b : Bytes) (acc : DnsslAcc), b.length < fuel → 2 ≤ b.length → acc.labels = [] → hasPuny b = false →
    loopL fuel b acc =
      match dnsNamesLenient (b.length + 1) b with
      | none => .err .other
      | some ds => .ok (done acc ds)

theorem startL_of_mid (fuel : Nat) (hm : MidL fuel) : StartL fuel := by
  intro b acc hf h2 hl hp
  match b, h2 with
  | n :: t :: tl', _ =>
    cases fuel with
    | zero => omega
    | succ f =>
      by_cases hn : n = 0
      · subst hn
        have hlhs : loopL (f + 1) (0 :: t :: tl') acc = .ok acc := by
          rw [loopL]
          have : ¬ ((0 : UInt8).toNat ≥ (t :: tl').length) := by simp
          rw [if_neg this, if_pos (by simp)]
        rw [hlhs, lenient_cons, dnsName_zero]
        simp only [done_nil acc hl]
      · rw [hm n (t :: tl') acc hf hn hp, lenient_cons]
        cases hd : dnsName ((n :: t :: tl').length + 1) (n :: t :: tl') with
        | none => rfl
        | some p =>
          obtain ⟨ls, r⟩ := p
          have hlen := dnsName_len _ _ _ _ hd
          cases ls with
          | nil => exact absurd hd (dnsName_ne_nil _ n _ hn r)
          | cons l ls =>
            simp only []
            rw [lenient_fuel (n :: t :: tl').length (r.length + 1) r (by omega) (by omega), hl]
            cases dnsNamesLenient (r.length + 1) r with
            | none => rfl
            | some ds => simp [done]

theorem midL_step (fuel : Nat) (hm : MidL fuel) : MidL (fuel + 1) := by
  have hstart := startL_of_mid fuel hm
  intro n tl acc hf hn hp
  have hn0 := toNat_ne_zero hn
  simp only [List.length_cons] at hf
  have hpl : hasPuny (tl.take n.toNat) = false :=
    hasPuny_false_of hp (fun h => hasPuny_cons n tl (hasPuny_take tl _ h))
  have hpd : hasPuny (tl.drop n.toNat) = false :=
    hasPuny_false_of hp (fun h => hasPuny_cons n tl (hasPuny_drop tl _ h))
  rw [loopL]
  simp only [List.length_cons]
  rw [dnsName_cons_ne _ n tl hn]
  by_cases hge : n.toNat ≥ tl.length
  · rw [if_pos hge]
    by_cases hlt : tl.length < n.toNat
    · rw [if_pos hlt]
    · rw [if_neg hlt]
      have : tl.drop n.toNat = [] := List.drop_of_length_le (by omega)
      rw [this, dnsName_nil]
      have hnone : (if badLabel (tl.take n.toNat) = true then none
          else Option.map (fun p => (tl.take n.toNat :: p.fst, p.snd)) (none : Option (List Bytes × Bytes))) = none := by
        split <;> rfl
      rw [hnone]
  · have hlt : ¬ tl.length < n.toNat := by omega
    rw [if_neg hge, if_neg hn0, if_neg hlt]
    have hne : tl.take n.toNat ≠ [] := by
      intro h; have := congrArg List.length h
      rw [List.length_take] at this; simp only [List.length_nil] at this; omega
    rw [labelOk_eq _ hne]
    by_cases hbad : badLabel (tl.take n.toNat) = true
    · rw [hbad]; simp only [Bool.not_true, if_true]
    · have hbad' : badLabel (tl.take n.toNat) = false := by simpa using hbad
      rw [hbad']
      simp only [Bool.not_false, Bool.true_eq_false, Bool.false_eq_true, if_false, hpl, Bool.or_false]
      cases hc : tl.drop n.toNat with
      | nil => have := congrArg List.length hc; simp at this; omega
      | cons c tl2 =>
        rw [hc] at hpd
        have hlen2 : (c :: tl2).length = tl.length - n.toNat := by rw [← hc]; simp
        simp only [List.length_cons] at hlen2
        simp only []
        by_cases hc0 : c = 0
        · subst hc0
          rw [if_pos rfl, dnsName_zero]
          have hp2 : hasPuny tl2 = false := hasPuny_false_of hpd (hasPuny_cons 0 tl2)
          simp only [Option.map_some, joinDots_eq]
          match tl2, hp2, hlen2 with
          | [], _, _ =>
            simp [lenient_nil, done]
          | [z], _, _ =>
            by_cases hz : z = 0
            · subst hz; simp [lenient_cons, dnsName_zero, done]
            · have hz0 := toNat_ne_zero hz
              cases fuel with
              | zero => omega
              | succ f' =>
                have hzp : 0 < z.toNat := by omega
                simp only [hz, if_false]
                rw [loopL, if_pos (by simp)]
                simp [lenient_cons, dnsName_cons_ne _ z [] hz, hzp]
          | z :: y :: r, hp2, hlen2 =>
            simp only []
            rw [hstart (z :: y :: r) _ (by simp only [List.length_cons] at hlen2 ⊢; omega) (by simp) rfl hp2]
            cases dnsNamesLenient ((z :: y :: r).length + 1) (z :: y :: r) with
            | none => rfl
            | some ds => simp [done]
        · rw [if_neg hc0]
          have hf2 : (c :: tl2).length < fuel := by simp only [List.length_cons]; omega
          have hfu : dnsName (tl.length + 1) (c :: tl2) = dnsName ((c :: tl2).length + 1) (c :: tl2) :=
            dnsName_fuel _ _ _ (by simp only [List.length_cons]; omega) (by omega)
          rw [hfu]
          rw [hm c tl2 _ hf2 hc0 hpd]
          cases hd : dnsName ((c :: tl2).length + 1) (c :: tl2) with
          | none => rfl
          | some p =>
            obtain ⟨ls, r⟩ := p
            simp only [Option.map_some, List.append_assoc, List.singleton_append]
            cases dnsNamesLenient (r.length + 1) r with
            | none => rfl
            | some ds => simp [done]

theorem midL : ∀ fuel, MidL fuel
  | 0 => by intro n tl acc hf; omega
  | fuel + 1 => midL_step fuel (midL fuel)

theorem startL (fuel : Nat) : StartL fuel := startL_of_mid fuel (midL fuel)

/-- the lenient reference reading in the code's record type -/
def dnsslSpecLenient (body : Bytes) : Outcome Dnssl :=
  match decodeDnsslLenient body with
  | some (lt, names) => .ok { lifetime := lt, names := names, puny := false }
  | none => .err .other

/-- **the DNSSL label walk reads every framed DNSSL option as the lenient reference does** (no padding
    hypothesis; the names area carries no Punycode marker) -/
theorem dnssl_agree_lenient (o : Tlv) (hw : o.wf) (hp : hasPuny (o.body.drop 6) = false) :
    dnsslUnmarshal o.bytes = dnsslSpecLenient o.body := by
  obtain ⟨t, len, body⟩ := o
  obtain ⟨hl1, hl2, hb⟩ := hw
  simp only at hl1 hl2 hb hp
  obtain ⟨b0, b1, b2, b3, b4, b5, names, rfl⟩ := six_of_len len body hl1 hb
  simp only [List.drop_succ_cons, List.drop_zero] at hp
  simp only [List.length_cons] at hb
  simp only [Tlv.bytes]
  unfold dnsslUnmarshal dnsslSpecLenient decodeDnsslLenient
  have hlen2 : ¬ (t :: UInt8.ofNat len :: b0 :: b1 :: b2 :: b3 :: b4 :: b5 :: names).length < 2 := by
    simp only [List.length_cons]; omega
  rw [if_neg hlen2]
  simp only [idx, List.getElem?_cons_zero, List.getElem?_cons_succ, Outcome.bind_ok, ofNat_toNat_lt hl2]
  rw [sliceFrom_eq_ok (by simp only [List.length_cons]; omega)]
  simp only [Outcome.bind_ok, List.drop_succ_cons, List.drop_zero, List.length_cons]
  have hi : ¬ ((len : Int) * 8 - 2 ≠ ((names.length + 1 + 1 + 1 + 1 + 1 + 1 : Nat) : Int)) := by omega
  rw [if_neg hi, slice_eq_ok (by omega) (by simp only [List.length_cons]; omega)]
  have e1 : List.drop 2 (List.take 6 (b0 :: b1 :: b2 :: b3 :: b4 :: b5 :: names)) = [b2, b3, b4, b5] := by simp
  rw [e1]
  simp only [u32be, Outcome.bind_ok, be32_nat32]
  rw [dnsslLoop_eq_loopL _ _ _ _ (by simp only [List.length_cons]; omega)]
  simp only [List.drop_succ_cons, List.drop_zero]
  match names, hb, hp with
  | [], _, _ => simp [loopL, lenient_nil]
  | [x], hb, _ => simp only [List.length_cons, List.length_nil] at hb; omega
  | x :: y :: r, hb, hp =>
    rw [startL _ (x :: y :: r) {} (by simp only [List.length_cons]; omega) (by simp) rfl hp]
    cases dnsNamesLenient ((x :: y :: r).length + 1) (x :: y :: r) with
    | none => rfl
    | some ds =>
      cases ds with
      | nil => rfl
      | cons d ds => simp [done]

end PV.Lemmas.NdpDnsslLenient
