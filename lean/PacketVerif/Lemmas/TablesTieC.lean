/-
  Ties of the small regenerated table operations (lookups, offer / capture / release, name update,
  Notify, DHCPv4Update) on top of the ties of TablesTieA (MAC table, deleteHost, host creation) and
  TablesTieB (online transition, makeOffline, notify, purge).
-/
import PacketVerif.Gen.TablesGen
import PacketVerif.Lemmas.Tables
import PacketVerif.Spec.TableInv
import PacketVerif.Lemmas.TablesTieA
namespace PV.Lemmas.TablesTieC
open PV PV.Model.Tables PV.Model.TablesGo PV.Gen.Tables PV.Spec PV.Lemmas.Tables

theorem findIP_tie (s : Sess) (ip : IP) : Session_findIP s ip = (s, (findHost s ip).map (·.id)) := rfl
theorem FindIP_tie (s : Sess) (ip : IP) : Session_FindIP s ip = (s, (findIP s ip).map (·.id)) := rfl

theorem H_of {s : Sess} {id : Nat} {h : HostRec} (e : hostById s id = some h) : H s id = h := by simp [H, e]
theorem M_of {s : Sess} {id : Nat} {m : MacRec} (e : macById s id = some m) : M s id = m := by simp [M, e]

theorem hostById_updHost (s : Sess) (id j : Nat) (f : HostRec → HostRec) (hf : ∀ h, (f h).id = h.id) :
    hostById (updHost s id f) j = (hostById s j).map (fun h => if h.id = id then f h else h) := by
  unfold hostById updHost
  simp only [List.find?_map, Option.map_map]
  have : ((fun p : IP × HostRec => p.2.id == j) ∘ fun p : IP × HostRec => if p.2.id = id then (p.1, f p.2) else p)
      = (fun p : IP × HostRec => p.2.id == j) := by
    funext p; simp only [Function.comp]; split <;> simp [hf]
  rw [this]
  cases s.hosts.find? (fun p => p.2.id == j) with
  | none => rfl
  | some p => simp only [Option.map_some, Function.comp]; split <;> rfl

theorem hostById_id {s : Sess} {id : Nat} {h : HostRec} (e : hostById s id = some h) : h.id = id := by
  obtain ⟨_, _, hh⟩ := hostById_some e; exact hh

theorem hostById_updMac (s : Sess) (id j : Nat) (f : MacRec → MacRec) : hostById (updMac s id f) j = hostById s j := rfl
theorem macById_updHost (s : Sess) (id j : Nat) (f : HostRec → HostRec) : macById (updHost s id f) j = macById s j := rfl

theorem updHost_updHost (s : Sess) (id : Nat) (f g : HostRec → HostRec) (hf : ∀ h, (f h).id = h.id) :
    updHost (updHost s id f) id g = updHost s id (fun x => g (f x)) := by
  unfold updHost; simp only [List.map_map]; congr 1
  apply List.map_congr_left; intro p _; simp only [Function.comp]
  by_cases h : p.2.id = id <;> simp [h, hf]

/-- under unique entry ids, an update that writes a value read from the entry itself is the pointwise update -/
theorem updMac_read {s : Sess} (hn : (s.macs.map (·.id)).Nodup) (e : Nat) (g : MacRec → MacRec → MacRec) :
    updMac s e (fun x => g (M s e) x) = updMac s e (fun x => g x x) := by
  unfold updMac; congr 1
  apply List.map_congr_left; intro m hm
  by_cases h : m.id = e
  · simp only [h, if_true]; rw [M_of (h ▸ macById_of_mem hn hm)]
  · simp [h]

/-- `Host.UpdateDHCP4Name` -/
theorem updateDHCP4Name_tie {s : Sess} (hn : (s.macs.map (·.id)).Nodup) (hid : Nat) (n : NameEntry) :
    Host_UpdateDHCP4Name s hid n = updateName s hid .dhcp4 n := by
  unfold Host_UpdateDHCP4Name updateName
  cases e : hostById s hid with
  | none => rfl
  | some h =>
    simp only [H_of e, Names.get]
    have e1 : hostById (updHost s hid fun x => { x with names := { x.names with dhcp4 := ((h.names.dhcp4.merge n).1) } }) hid
        = some { h with names := { h.names with dhcp4 := ((h.names.dhcp4.merge n).1) } } := by
      rw [hostById_updHost, e]
      · simp [hostById_id e]
      · intro _; rfl
    by_cases hm : (h.names.dhcp4.merge n).2 = true
    · simp only [hm, if_true, Bool.or_true]
      rw [updHost_updHost]
      rotate_left
      · intro _; rfl
      have e2 : hostById (updHost s hid fun x => { x with names := x.names.set .dhcp4 (h.names.dhcp4.merge n).1, dirty := true }) hid
          = some { h with names := h.names.set .dhcp4 (h.names.dhcp4.merge n).1, dirty := true } := by
        rw [hostById_updHost, e]
        · simp [hostById_id e]
        · intro _; rfl
      simp only [Names.set] at e2 ⊢
      rw [H_of e2]
      have := updMac_read (s := updHost s hid fun x => { x with names := { x.names with dhcp4 := (h.names.dhcp4.merge n).1 }, dirty := true })
        hn h.entry (fun r x => { x with names := { x.names with dhcp4 := (r.names.dhcp4.merge (h.names.dhcp4.merge n).1).1 } })
      simpa [Names.get, Names.set] using this
    · simp only [hm, Bool.or_false, Names.set]
      simp

/-! ### on top of the MAC-table ties -/
open PV.Lemmas.TablesTieA in
/-- `Session.DHCPv4IPOffer` -/
theorem dhcpv4IPOffer_tie {s : Sess} (hn : (s.macs.map (·.id)).Nodup) (mac : MAC) :
    Session_DHCPv4IPOffer s mac = (s, dhcpv4IPOffer s mac) := by
  unfold Session_DHCPv4IPOffer dhcpv4IPOffer
  rw [findMAC_eq hn]
  cases h : findMAC s mac with
  | none => rfl
  | some m => simp only [M_of_mem hn (findMAC_some h).1]

theorem updMac_updMac (s : Sess) (id : Nat) (f g : MacRec → MacRec) (hf : ∀ m, (f m).id = m.id) :
    updMac (updMac s id f) id g = updMac s id (fun x => g (f x)) := by
  unfold updMac; simp only [List.map_map]; congr 1
  apply List.map_congr_left; intro m _; simp only [Function.comp]
  by_cases h : m.id = id <;> simp [h, hf]

/-- the entry `MACTable.findOrCreate` returns is the object behind the returned pointer -/
theorem M_macFindOrCreate {s : Sess} (hi : Inv s) (mac : MAC) :
    M (macFindOrCreate s mac).1 (macFindOrCreate s mac).2.id = (macFindOrCreate s mac).2 :=
  PV.Lemmas.TablesTieA.M_of_mem (inv_macFindOrCreate hi mac).1.midNodup (inv_macFindOrCreate hi mac).2.1

open PV.Lemmas.TablesTieA in
/-- `Session.SetDHCPv4IPOffer` is the model's `setOffer` step -/
theorem setOffer_tie {s : Sess} (hi : Inv s) (cfg : Cfg) (mac : MAC) (ip : IP) (name : NameEntry) :
    Session_SetDHCPv4IPOffer s mac ip name = (step cfg s (.setOffer mac ip name)).1 := by
  unfold Session_SetDHCPv4IPOffer step
  simp only [macFindOrCreate_tie hi.midNodup]
  rw [updMac_updMac]
  intro _; rfl

open PV.Lemmas.TablesTieA in
/-- `Session.Capture` is the model's `capture` step (state and returned error) -/
theorem capture_tie {s : Sess} (hi : Inv s) (cfg : Cfg) (mac : MAC) :
    Session_Capture s mac = ((step cfg s (.capture mac)).1, (step cfg s (.capture mac)).2.err) := by
  unfold Session_Capture step
  simp only [macFindOrCreate_tie hi.midNodup, M_macFindOrCreate hi]
  split
  · rfl
  · split <;> rfl

open PV.Lemmas.TablesTieA in
/-- `Session.Release` is the model's `release` step -/
theorem release_tie {s : Sess} (hn : (s.macs.map (·.id)).Nodup) (cfg : Cfg) (mac : MAC) :
    Session_Release s mac = ((step cfg s (.release mac)).1, (step cfg s (.release mac)).2.err) := by
  unfold Session_Release
  rw [findMAC_eq hn]
  cases h : findMAC s mac with
  | none => simp only [step, h]
  | some m => simp only [step, h]

end PV.Lemmas.TablesTieC
