/-
  Ties of the small regenerated table operations (lookups, offer / capture / release, name update,
  Notify, DHCPv4Update) on top of the ties of TablesTieA (MAC table, deleteHost, host creation) and
  TablesTieB (online transition, makeOffline, notify, purge).
-/
import PacketVerif.Gen.TablesGen
import PacketVerif.Lemmas.Tables
import PacketVerif.Spec.TableInv
namespace PV.Lemmas.TablesTieC
open PV PV.Model.Tables PV.Model.TablesGo PV.Gen.Tables PV.Spec

theorem findIP_tie (s : Sess) (ip : IP) : Session_findIP s ip = (s, (findHost s ip).map (·.id)) := rfl
theorem FindIP_tie (s : Sess) (ip : IP) : Session_FindIP s ip = (s, (findIP s ip).map (·.id)) := rfl

end PV.Lemmas.TablesTieC
