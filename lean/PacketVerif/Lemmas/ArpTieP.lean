/-
  Lemmas for Props/C13ArpTie, part 2: `sendARP` returns no error value; the regenerated `ProcessPacket`
  projected onto the state of Model/Handlers.lean is `Handlers.arpProcess`.
-/
import PacketVerif.Lemmas.ArpTie
import PacketVerif.Lemmas.ComposeArp
set_option linter.unusedSimpArgs false
namespace PV.Lemmas.ArpTie
open PV PV.Model PV.Model.ArpGo PV.Gen.Arp

/-- the computation does not end in a Go `error` value (it returns, panics or hangs) -/
def noErr {α} (x : Outcome α) : Prop :=
  match x with
  | .err _ => False
  | _ => True

theorem noErr_ok {α} (a : α) : noErr (Outcome.ok a) := trivial
theorem noErr_pure {α} (a : α) : noErr (pure a : Outcome α) := trivial
theorem noErr_panic {α} : noErr (Outcome.panic : Outcome α) := trivial
theorem noErr_bind {α β} (x : Outcome α) (f : α → Outcome β) (hx : noErr x) (hf : ∀ a, noErr (f a)) : noErr (x >>= f) := by
  cases x with
  | ok a => exact hf a
  | err e => exact hx.elim
  | panic => exact noErr_panic
  | hang => trivial
theorem noErr_ite {α} (c : Prop) [Decidable c] (x y : Outcome α) (hx : noErr x) (hy : noErr y) : noErr (if c then x else y) := by
  split <;> assumption

theorem noErr_reslice (m : Mem) (s : Sl) (a b : Nat) : noErr (s.reslice m a b) := by
  unfold Sl.reslice; exact noErr_ite _ _ _ (noErr_ok _) noErr_panic
theorem noErr_copyAt (m : Mem) (s : Sl) (a b : Nat) (src : Bytes) : noErr (s.copyAt m a b src) := by
  unfold Sl.copyAt; exact noErr_bind _ _ (noErr_reslice ..) (fun _ => noErr_pure _)
theorem noErr_put8 (m : Mem) (s : Sl) (i : Nat) (v : UInt8) : noErr (s.put8 m i v) := by
  unfold Sl.put8; exact noErr_ite _ _ _ (noErr_ok _) noErr_panic
theorem noErr_put16 (m : Mem) (s : Sl) (a v : Nat) : noErr (s.put16 m a v) := noErr_copyAt ..
theorem noErr_idx (b : Bytes) (i : Nat) : noErr (idx b i) := by
  unfold idx; split
  · exact noErr_ok _
  · exact noErr_panic
theorem noErr_get8 (m : Mem) (s : Sl) (i : Nat) : noErr (s.get8 m i) := by
  unfold Sl.get8; exact noErr_ite _ _ _ (noErr_idx ..) noErr_panic
theorem noErr_mac6 (mac : Bytes) : noErr (mac6 mac) := by
  unfold mac6; exact noErr_ite _ _ _ (noErr_ok _) noErr_panic

theorem noErr_encodeEther (m : Mem) (b : Sl) (t : Nat) (src dst : Bytes) : noErr (encodeEther m b t src dst) := by
  unfold encodeEther
  refine noErr_ite _ _ _ noErr_panic ?_
  refine noErr_bind _ _ (noErr_reslice ..) (fun e => ?_)
  refine noErr_bind _ _ (noErr_copyAt ..) (fun m => ?_)
  refine noErr_bind _ _ (noErr_copyAt ..) (fun m => ?_)
  exact noErr_bind _ _ (noErr_put16 ..) (fun m => noErr_pure _)

theorem noErr_encodeARP (m : Mem) (b : Sl) (op : Nat) (a1 a2 a3 a4 : Bytes) : noErr (encodeARP m b op a1 a2 a3 a4) := by
  unfold encodeARP
  refine noErr_ite _ _ _ noErr_panic ?_
  refine noErr_bind _ _ (noErr_reslice ..) (fun e => ?_)
  refine noErr_bind _ _ (noErr_put16 ..) (fun m => ?_)
  refine noErr_bind _ _ (noErr_put16 ..) (fun m => ?_)
  refine noErr_bind _ _ (noErr_put8 ..) (fun m => ?_)
  refine noErr_bind _ _ (noErr_put8 ..) (fun m => ?_)
  refine noErr_bind _ _ (noErr_put16 ..) (fun m => ?_)
  refine noErr_bind _ _ (noErr_mac6 ..) (fun sm => ?_)
  refine noErr_bind _ _ (noErr_copyAt ..) (fun m => ?_)
  refine noErr_bind _ _ (noErr_copyAt ..) (fun m => ?_)
  refine noErr_bind _ _ (noErr_mac6 ..) (fun sm => ?_)
  refine noErr_bind _ _ (noErr_copyAt ..) (fun m => ?_)
  exact noErr_bind _ _ (noErr_copyAt ..) (fun m => noErr_pure _)

theorem noErr_etherHdrLen (m : Mem) (p : Sl) : noErr (etherHdrLen m p) := by
  unfold etherHdrLen
  refine noErr_bind _ _ (noErr_get8 ..) (fun a => ?_)
  exact noErr_bind _ _ (noErr_get8 ..) (fun b => noErr_pure _)

theorem noErr_etherPayloadSl (m : Mem) (p : Sl) : noErr (etherPayloadSl m p) := by
  unfold etherPayloadSl
  refine noErr_bind _ _ (noErr_etherHdrLen ..) (fun n => ?_)
  refine noErr_ite _ _ _ (noErr_bind _ _ (by unfold Sl.from_; exact noErr_reslice ..) (fun _ => noErr_pure _)) ?_
  exact noErr_ite _ _ _ (noErr_bind _ _ (noErr_reslice ..) (fun _ => noErr_pure _)) (noErr_pure _)

theorem noErr_etherSetPayload (m : Mem) (p : Sl) (n : Nat) : noErr (etherSetPayload m p n) := by
  unfold etherSetPayload
  exact noErr_bind _ _ (noErr_etherHdrLen ..) (fun _ => noErr_reslice ..)

theorem noErr_sendARP (g : Mem) (h d : Bytes) (op : Nat) (a1 a2 a3 a4 : Bytes) : noErr (sendARP g h d op a1 a2 a3 a4) := by
  unfold sendARP
  refine noErr_bind _ _ (noErr_encodeEther ..) (fun r => ?_)
  refine noErr_bind _ _ (noErr_etherPayloadSl ..) (fun o => ?_)
  cases o with
  | none => exact noErr_panic
  | some pay =>
    refine noErr_bind _ _ (noErr_encodeARP ..) (fun r2 => ?_)
    exact noErr_bind _ _ (noErr_etherSetPayload ..) (fun _ => noErr_pure _)


/-! ### projection onto the state of Model/Handlers.lean -/

/-- the handler record as Model/Handlers.lean sees it (`mu`: `arpMutex` is held) -/
def absM (mu : Bool) (st : HSt) : Handlers.ArpSt := { hunt := keys st.hunt, mu := mu, sent := st.sent.map (·.1) }

theorem reply_abs (mu : Bool) (e : Env) (st : HSt) (dst a b c d : Bytes) :
    Handlers.arpReply e.toArpEnv (absM mu st) dst a b c d =
      (sendFrame e st dst 2 a b c d >>= fun r => .ok (absM mu r.1, r.2.isNone)) := by
  unfold Handlers.arpReply sendFrame
  have hn := noErr_sendARP e.pool e.cfg.parse.hostMAC dst 2 a b c d
  cases hs : sendARP e.pool e.cfg.parse.hostMAC dst 2 a b c d with
  | ok f =>
    simp only [Outcome.bind_ok]
    unfold Handlers.writeTo connWriteTo
    cases e.conn <;> simp [absM]
  | err x => rw [hs] at hn; exact hn.elim
  | panic => rfl
  | hang => rfl


open PV.Lemmas.ComposeArp in
theorem processPacket_abs (e : Env) (st : HSt) (fr : Frame) (p : Bytes)
    (hoff : ∀ m o, e.offer m = some o → o.length = 4) :
    (Handler_ProcessPacket e st fr p >>= fun r => .ok (absM false r.1, r.2)) =
      Handlers.arpProcess e.toArpEnv (absM false st) fr p := by
  unfold Handler_ProcessPacket Handlers.arpProcess
  simp only [Reply_eq]
  by_cases hp : fr.pid = 3
  case neg =>
    have : (fr.pid != 3) = true := by simpa using hp
    rw [this, if_pos rfl, if_pos (by simpa [Pid.arp] using hp)]; rfl
  have : (fr.pid != 3) = false := by simpa using hp
  have hq : ¬ (fr.pid ≠ Pid.arp) := by simp [Pid.arp, hp]
  rw [this, if_neg (by simp), if_neg hq]
  unfold framePayload
  cases hb : sliceFrom p fr.offPayload with
  | err x => simp only [Outcome.bind_err]
  | panic => simp only [Outcome.bind_panic]
  | hang => simp only [Outcome.bind_hang]
  | ok b =>
  simp only [Outcome.bind_ok]
  by_cases hl : b.length < 28
  · unfold arpIsValid Ndp.arpClassify; rw [if_pos hl, if_pos hl]
    simp [Handlers.arpRet]
  unfold arpIsValid Ndp.arpClassify arpSrcIP arpDstIP arpSrcMAC arpOperation
  rw [if_neg hl, if_neg hl]
  rw [slice_field b 0 2 (by omega) (by omega), slice_field b 2 4 (by omega) (by omega),
    slice_field b 6 8 (by omega) (by omega), slice_field b 8 14 (by omega) (by omega),
    slice_field b 14 18 (by omega) (by omega), slice_field b 24 28 (by omega) (by omega),
    Ndp.idx_eq_ok (by omega : 4 < b.length), Ndp.idx_eq_ok (by omega : 5 < b.length)]
  simp only [Outcome.bind_ok, Nat.reduceSub, u16be_field b 0 (by omega), u16be_field b 2 (by omega),
    u16be_field b 6 (by omega), Outcome.pure_eq]
  generalize Spec.u16 b 0 = ht
  generalize Spec.u16 b 2 = pt
  generalize Spec.u16 b 6 = op
  generalize b[4] = hl4
  generalize b[5] = pl5
  generalize Spec.field b 8 6 = sm
  generalize Spec.field b 14 4 = si
  generalize Spec.field b 24 4 = ti
  by_cases h1 : ht = 1
  case neg => simp [h1, Handlers.arpRet]
  by_cases h2 : pt = 0x0800
  case neg => simp [h1, h2, Handlers.arpRet]
  by_cases h3 : hl4 = 6
  case neg => simp [h1, h2, h3, Handlers.arpRet]
  by_cases h4 : pl5 = 4
  case neg => simp [h1, h2, h3, h4, Handlers.arpRet]
  simp only [h1, h2, h3, h4, ne_eq, not_true_eq_false, if_false, Option.isSome_none, Bool.false_eq_true, ipIsLinkLocalUnicast]
  by_cases l1 : Ndp.isLinkLocal4 si = true
  case pos => simp [l1, Handlers.arpRet]
  by_cases l2 : Ndp.isLinkLocal4 ti = true
  case pos => simp [l1, l2, Handlers.arpRet]
  by_cases o2 : op = 2
  case pos => simp [l1, l2, o2, Handlers.arpRet]
  by_cases o1 : op = 1
  case neg => simp [l1, l2, o1, o2, Handlers.arpRet]
  subst o1
  by_cases e1 : si = ti
  case pos => simp [l1, l2, e1, Handlers.arpRet]
  simp only [l1, l2, e1, Bool.false_eq_true, if_false, Outcome.bind_ok, Outcome.pure_eq, or_self, Nat.reduceBEq, beq_self_eq_true, if_true,
    beq_iff_eq, ipv4zero]
  have hlock : Handlers.lock (absM false st).mu = .ok true := rfl
  have habs : ∀ mu, ({ hunt := (absM false st).hunt, mu := mu, sent := (absM false st).sent } : Handlers.ArpSt) = absM mu st := fun _ => rfl
  by_cases z : si = [0, 0, 0, 0]
  case pos =>
    simp only [z, if_true, Option.isSome_none, Bool.false_eq_true, if_false, o2, Outcome.bind_ok]
    cases ho : e.offer sm with
    | none => simp [dhcpOffer, ho, ipIs4]
    | some o =>
      have h4 := hoff sm o ho
      by_cases eo : o = ti
      case pos => simp [dhcpOffer, ho, ipIs4, h4, eo]
      by_cases lc : lanContains e ti = true
      case neg =>
        have lc' : ¬ Netip.prefixContains e.cfg.parse.lanAddr e.cfg.parse.lanBits ti = true := lc
        simp [dhcpOffer, ho, ipIs4, h4, eo, lc, lc']
      have lc' : Netip.prefixContains e.cfg.parse.lanAddr e.cfg.parse.lanBits ti = true := lc
      simp only [dhcpOffer, ho, ipIs4, h4, eo, lc, lc', bne_iff_ne, ne_eq, not_false_eq_true, and_self, if_true, beq_self_eq_true,
        decide_true, Outcome.bind_ok, decide_not, ip4Broadcast]
      rw [reply_abs false]
      cases sendFrame e st sm 2 e.cfg.parse.hostMAC ti sm [255, 255, 255, 255] <;> rfl
  simp only [z, if_false, Option.isSome_none, Bool.false_eq_true, o2, Outcome.bind_ok, hlock, habs]
  have hk := mapLookup_ok st.hunt sm
  by_cases hm : sm ∈ keys st.hunt
  case neg =>
    have hm' : ¬ sm ∈ (absM false st).hunt := hm
    simp only [hm, decide_false] at hk
    simp [hk, hm', Handlers.unlock, absM] <;> (intro h; exact absurd h hm)
  have hm' : sm ∈ (absM false st).hunt := hm
  simp only [hm, decide_true] at hk
  by_cases hr : ti = e.cfg.routerIP
  case neg => simp [hk, hm', hr, Handlers.unlock, absM] <;> (intro _ h; exact absurd h hr)
  simp only [hk, hm', hr, if_true, beq_self_eq_true, Outcome.bind_ok, and_self]
  rw [reply_abs true]
  cases sendFrame e st sm 2 e.cfg.parse.hostMAC e.cfg.routerIP sm si <;> rfl

end PV.Lemmas.ArpTie
