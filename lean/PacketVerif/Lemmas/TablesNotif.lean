/-
  Lemmas for C06: what is sent on the notification channel, and the consumer-view invariant.
-/
import PacketVerif.Lemmas.TablesRefine
namespace PV.Lemmas.Tables
open PV PV.Model.Tables PV.Spec

/-! ### the consumer's view -/

theorem applyAll_nil (V : View) : V.applyAll [] = V := rfl
theorem applyAll_cons (V : View) (n : Notif) (ns : List Notif) : V.applyAll (n :: ns) = (V.apply n).applyAll ns := rfl
theorem applyAll_append (V : View) (a b : List Notif) : V.applyAll (a ++ b) = (V.applyAll a).applyAll b := by
  unfold View.applyAll; rw [List.foldl_append]
theorem applyAll_single (V : View) (n : Notif) : V.applyAll [n] = V.apply n := rfl

/-- every host without a pending announcement is known to the consumer exactly as it is -/
def Synced (s : Sess) (V : View) : Prop :=
  ∀ k x, findHost s k = some x → x.dirty = false → V k = some (x.mac, x.online)

/-- a host-field update under which a clean host can only come from a clean host with the same
    owner and state keeps the view in sync -/
theorem synced_map {s s' : Sess} {V : View} (g : HostRec → HostRec)
    (hf : ∀ k, findHost s' k = (findHost s k).map g)
    (hg : ∀ x, (g x).dirty = false → x.dirty = false ∧ (g x).mac = x.mac ∧ (g x).online = x.online)
    (h : Synced s V) : Synced s' V := by
  intro k x' hx' hd
  rw [hf] at hx'
  cases hfx : findHost s k with
  | none => simp [hfx] at hx'
  | some x =>
    simp only [hfx, Option.map_some, Option.some.injEq] at hx'
    subst hx'
    obtain ⟨a, b, c⟩ := hg x hd
    rw [b, c]; exact h k x hfx a

theorem synced_same {s s' : Sess} {V : View} (hf : ∀ k, findHost s' k = findHost s k) (h : Synced s V) : Synced s' V := by
  intro k x hx hd; rw [hf] at hx; exact h k x hx hd

/-! ### `makeOffline` -/

theorem toNotif_fields (s : Sess) (h : HostRec) :
    (toNotif s h).mac = h.mac ∧ (toNotif s h).ip = h.ip ∧ (toNotif s h).online = h.online := by
  unfold toNotif; split <;> exact ⟨rfl, rfl, rfl⟩

theorem makeOffline_notifs (s : Sess) (i : Nat) :
    (makeOffline s i).2 = match hostById s i with
      | none => []
      | some h => [toNotif (updHost s i fun x => { x with online := false, dirty := false })
                    { h with online := false, dirty := false }] := by
  unfold makeOffline
  cases hostById s i with
  | none => rfl
  | some h => simp only; split <;> rfl

theorem synced_makeOffline {s : Sess} (hi : Inv s) {V : View} (h : Synced s V) (i : Nat) :
    Synced (makeOffline s i).1 (V.applyAll (makeOffline s i).2) := by
  rw [makeOffline_notifs]
  cases hb : hostById s i with
  | none =>
    simp only [applyAll_nil]
    refine synced_same ?_ h
    intro k
    rw [findHost_makeOffline]
    cases hf : findHost s k with
    | none => rfl
    | some x =>
      have := hostById_none hb _ (findHost_some hf)
      simp only at this
      simp [offG, this]
  | some h0 =>
    obtain ⟨k0, hp0, hid0⟩ := hostById_some hb
    have hk0 := hi.keyIp _ hp0
    simp only at hk0
    simp only [applyAll_single]
    intro k x' hx' hd
    rw [findHost_makeOffline] at hx'
    cases hfx : findHost s k with
    | none => simp [hfx] at hx'
    | some x =>
      simp only [hfx, Option.map_some, Option.some.injEq] at hx'
      obtain ⟨hxm, hxk⟩ := findHost_mem hi hfx
      obtain ⟨n1, n2, n3⟩ := toNotif_fields (updHost s i fun x => { x with online := false, dirty := false })
        { h0 with online := false, dirty := false }
      unfold View.apply
      rw [n1, n2, n3]
      by_cases hc : x.id = i
      · have : (k, x) = (k0, h0) := id_inj hi hxm hp0 (by simp [hc, hid0])
        simp only [Prod.mk.injEq] at this
        obtain ⟨rfl, rfl⟩ := this
        subst hx'
        simp [hk0, offG, hc]
      · have hx'' : x' = x := by rw [← hx']; simp [offG, hc]
        subst hx''
        have : k ≠ h0.ip := by
          intro e
          have : (k, x') = (k0, h0) := key_inj hi hxm hp0 (by simp [e, hk0])
          simp only [Prod.mk.injEq] at this
          exact hc (by rw [this.2, hid0])
        simp only [this, if_false]
        exact h k x' hfx hd

theorem synced_makeOfflineAll {s : Sess} (hi : Inv s) {V : View} (h : Synced s V) (l : List Nat) :
    Synced (makeOfflineAll s l).1 (V.applyAll (makeOfflineAll s l).2) := by
  induction l generalizing s V with
  | nil => exact h
  | cons i rest ih =>
    unfold makeOfflineAll
    simp only [applyAll_append]
    exact ih (inv_makeOffline hi i) (synced_makeOffline hi h i)

/-! ### `notify` -/

theorem synced_notifyHost {s : Sess} (hi : Inv s) {V : View} (h : Synced s V) (hid : Nat) (flag : Bool) :
    Synced (notifyHost s hid flag).1 (V.applyAll (notifyHost s hid flag).2) := by
  unfold notifyHost
  cases hb : hostById s hid with
  | none => exact h
  | some h0 =>
    simp only
    split
    · exact h
    · generalize (if flag = true ∧ h0.ip.is4 = true then _ else _ : List Nat) = offl
      have hi1 := inv_makeOfflineAll hi offl
      have h1 := synced_makeOfflineAll hi h offl
      generalize (makeOfflineAll s offl) = r at hi1 h1
      cases hb1 : hostById r.1 hid with
      | none => exact h1
      | some x1 =>
        simp only [applyAll_append, applyAll_single]
        obtain ⟨k1, hp1, hid1⟩ := hostById_some hb1
        have hk1 := hi1.keyIp _ hp1
        simp only at hk1
        obtain ⟨n1, n2, n3⟩ := toNotif_fields r.1 x1
        intro k x' hx' hd
        rw [findHost_updHost] at hx'
        cases hfx : findHost r.1 k with
        | none => simp [hfx] at hx'
        | some x =>
          simp only [hfx, Option.map_some, Option.some.injEq] at hx'
          obtain ⟨hxm, hxk⟩ := findHost_mem hi1 hfx
          unfold View.apply
          rw [n1, n2, n3]
          by_cases hc : x.id = hid
          · have : (k, x) = (k1, x1) := id_inj hi1 hxm hp1 (by simp [hc, hid1])
            simp only [Prod.mk.injEq] at this
            obtain ⟨rfl, rfl⟩ := this
            subst hx'
            simp [hk1, hc]
          · have hx'' : x' = x := by rw [← hx']; simp [hc]
            subst hx''
            have : k ≠ x1.ip := by
              intro e
              have : (k, x') = (k1, x1) := key_inj hi1 hxm hp1 (by simp [e, hk1])
              simp only [Prod.mk.injEq] at this
              exact hc (by rw [this.2, hid1])
            simp only [this, if_false]
            exact h1 k x' hfx hd

theorem synced_notifyOp {s : Sess} (hi : Inv s) {V : View} (h : Synced s V) (host : Option Nat) (dhcp4 : Bool)
    (srcMAC : MAC) (flag : Bool) :
    Synced (notifyOp s host dhcp4 srcMAC flag).1 (V.applyAll (notifyOp s host dhcp4 srcMAC flag).2) := by
  unfold notifyOp
  cases host with
  | some hid => exact synced_notifyHost hi h _ _
  | none =>
    simp only
    split
    · exact h
    · split
      · exact h
      · split
        · exact h
        · exact synced_notifyHost hi h _ _


/-! ### Parse, name updates, DHCPv4Update, purge keep the view in sync -/

theorem synced_foc {s : Sess} (hi : Inv s) {V : View} (h : Synced s V) (mac : MAC) (ip : IP) (now : Int) (manuf : String) :
    Synced (findOrCreateHost s mac ip now manuf).s V := by
  obtain ⟨_, h', f1, _, _, _, _, f6, f7⟩ := foc_spec hi mac ip now manuf
  intro k x hx hd
  by_cases hk : k = ip
  · subst hk
    rw [f1] at hx
    simp only [Option.some.injEq] at hx
    subst hx
    rcases f6 with ⟨h0, g1, _, g3⟩ | ⟨_, _, g3, _⟩
    · subst g3
      exact h k h0 g1 hd
    · rw [g3] at hd; cases hd
  · rw [f7 k hk] at hx
    exact h k x hx hd

theorem synced_onlineTransition {s : Sess} (hi : Inv s) (hj : CurIP4 s) {V : View} (h : Synced s V) (hid : Nat) :
    Synced (onlineTransition s hid) V := by
  cases hb : hostById s hid with
  | none => unfold onlineTransition; simp only [hb]; exact h
  | some h0 =>
    obtain ⟨k0, hp0, hid0⟩ := hostById_some hb
    by_cases hon : h0.online = true
    · unfold onlineTransition; simp only [hb, hon, if_true]; exact h
    · have hoff : h0.online = false := by simpa using hon
      subst hid0
      refine synced_map (onlG h0) (onlineTransition_findHost hi hj hp0 hoff) ?_ h
      intro x hd
      unfold onlG at hd ⊢
      split at hd
      · simp at hd
      · split at hd
        · simp at hd
        · rename_i c1 c2
          simp only [c1, c2, if_false]
          exact ⟨hd, by trivial, by trivial⟩

theorem synced_parse {s : Sess} (hi : Inv s) (hj : CurIP4 s) {V : View} (h : Synced s V) (c : Cfg) (ev : FrameEv)
    (now : Int) (manuf : String) : Synced (parse c s ev now manuf).s V := by
  unfold parse
  split
  · exact h
  · rename_i mac ip _
    simp only
    have h1 := synced_foc hi h mac ip now manuf
    split
    · exact h1
    · split
      · exact h1
      · split
        · exact h1
        · exact synced_onlineTransition (inv_findOrCreateHost hi mac ip now manuf)
            (cur_findOrCreateHost hi hj mac ip now manuf) h1 _

theorem synced_updateName {s : Sess} {V : View} (h : Synced s V) (hid : Nat) (k : NameKind) (n : NameEntry) :
    Synced (updateName s hid k n) V := by
  unfold updateName
  split
  · exact h
  · rename_i h0 _
    simp only
    generalize (h0.names.get k).merge n = r
    have key : Synced (updHost s hid (fun x => { x with names := x.names.set k r.1, dirty := x.dirty || r.2 })) V := by
      refine synced_map _ (fun k' => findHost_updHost s hid _ k') ?_ h
      intro x hd
      split at hd
      · rename_i c1
        simp only [c1, if_true]
        simp only [Bool.or_eq_false_iff] at hd
        exact ⟨hd.1, by trivial, by trivial⟩
      · rename_i c1
        simp only [c1, if_false]
        exact ⟨hd, by trivial, by trivial⟩
    split
    · exact synced_same (fun k' => rfl) key
    · exact key

theorem synced_dhcpUpdate {s : Sess} (hi : Inv s) (hj : CurIP4 s) {V : View} (h : Synced s V) (mac : MAC) (ip : IP)
    (name : NameEntry) (now : Int) (manuf : String) :
    Synced (dhcpUpdate s mac ip name now manuf).1 (V.applyAll (dhcpUpdate s mac ip name now manuf).2.notifs) := by
  unfold dhcpUpdate
  split
  · exact h
  · simp only
    have hi1 := inv_findOrCreateHost hi mac ip now manuf
    have hj1 := cur_findOrCreateHost hi hj mac ip now manuf
    have h1 := synced_foc hi h mac ip now manuf
    split
    · exact h1
    · generalize findOrCreateHost s mac ip now manuf = r at *
      have hi2 := inv_updateName hi1 r.host .dhcp4 name
      have hj2 := (updateName_facts hj1 r.host .dhcp4 name).2
      have h2 := synced_updateName h1 r.host .dhcp4 name
      split
      · exact h2
      · rename_i x _
        simp only
        have hi3 : Inv (updMac (updateName r.s r.host .dhcp4 name) x.entry (fun m => { m with ip4offer := x.ip })) :=
          inv_updMac hi2 _ (by keepM) (by onSame)
        have hj3 : CurIP4 (updMac (updateName r.s r.host .dhcp4 name) x.entry (fun m => { m with ip4offer := x.ip })) :=
          cur_updMac hj2 _ (by keepM) (by intro m; rfl)
        have h3 : Synced (updMac (updateName r.s r.host .dhcp4 name) x.entry (fun m => { m with ip4offer := x.ip })) V :=
          synced_same (fun k' => rfl) h2
        apply synced_notifyHost
        · split
          · exact hi3
          · exact inv_onlineTransition hi3 _
        · split
          · exact h3
          · exact synced_onlineTransition hi3 hj3 h3 _

theorem synced_purge {s : Sess} (hi : Inv s) {V : View} (h : Synced s V) (c : Cfg) (now : Int) :
    Synced (purge c s now).1 (V.applyAll (purge c s now).2) := by
  unfold purge
  simp only
  have h1 := synced_makeOfflineAll hi h ((List.filter (fun e => !(!e.online && decide (e.lastSeen < now - c.purgeDL)) &&
    (e.online && decide (e.lastSeen < now - c.offlineDL))) (List.map (fun x => x.snd) s.hosts)).map (·.id))
  intro k x hx hd
  rw [findHost_foldl_deleteHost] at hx
  split at hx
  · cases hx
  · exact h1 k x hx hd

theorem synced_step {s : Sess} (hi : Inv s) (hj : CurIP4 s) {V : View} (h : Synced s V) (c : Cfg) (op : Op) :
    Synced (Model.Tables.step c s op).1 (V.applyAll (Model.Tables.step c s op).2.notifs) := by
  cases op with
  | frame ev now manuf => exact synced_parse hi hj h c ev now manuf
  | notify host dhcp4 srcMAC flag => exact synced_notifyOp hi h host dhcp4 srcMAC flag
  | dhcpUpdate mac ip name now manuf => exact synced_dhcpUpdate hi hj h mac ip name now manuf
  | setOffer mac ip name =>
    refine synced_same (s := s) ?_ h
    intro k; simp only [Model.Tables.step, findHost_updMac]; unfold findHost; rw [macFindOrCreate_hosts]
  | capture mac =>
    have hn : (Model.Tables.step c s (Op.capture mac)).2.notifs = [] := by
      simp only [Model.Tables.step]
      split
      · rfl
      · split <;> rfl
    rw [hn]
    refine synced_same (s := s) ?_ h
    intro k
    simp only [Model.Tables.step]
    split
    · unfold findHost; simp only [macFindOrCreate_hosts]
    · split
      · unfold findHost; simp only [macFindOrCreate_hosts]
      · simp only [findHost_updMac]; unfold findHost; rw [macFindOrCreate_hosts]
  | release mac =>
    have hn : (Model.Tables.step c s (Op.release mac)).2.notifs = [] := by
      simp only [Model.Tables.step]
      split <;> rfl
    rw [hn]
    refine synced_same (s := s) ?_ h
    intro k
    simp only [Model.Tables.step]
    split <;> rfl
  | purge now => exact synced_purge hi h c now
  | setLastSeen ip t =>
    simp only [Model.Tables.step]
    split
    · dsimp only
      refine synced_map _ (fun k' => findHost_updHost s _ _ k') ?_ h
      intro x hd
      split at hd
      · rename_i c1; simp only [c1, if_true]; exact ⟨hd, by trivial, by trivial⟩
      · rename_i c1; simp only [c1, if_false]; exact ⟨hd, by trivial, by trivial⟩
    · exact h
  | updateName host kind name => exact synced_updateName h host kind name
  | printTable => exact h

theorem synced_packet {s : Sess} (hi : Inv s) (hj : CurIP4 s) {V : View} (h : Synced s V) (c : Cfg) (ev : FrameEv)
    (now : Int) (manuf : String) (upd : Option (NameKind × NameEntry)) :
    Synced (packet c s ev now manuf upd).1 (V.applyAll (packet c s ev now manuf upd).2) := by
  unfold packet
  have hi1 := inv_parse hi c ev now manuf
  have h1 := synced_parse hi hj h c ev now manuf
  simp only
  split
  · exact h1
  · apply synced_notifyOp
    · split
      · exact inv_updateName hi1 _ _ _
      · exact hi1
    · split
      · exact synced_updateName h1 _ _ _
      · exact h1


/-! ### NewSession: nothing announced yet, everything pending -/

def AllDirty (s : Sess) : Prop := ∀ k x, findHost s k = some x → x.dirty = true

theorem allDirty_foc {s : Sess} (hi : Inv s) (h : AllDirty s) (mac : MAC) (ip : IP) (now : Int) (manuf : String) :
    AllDirty (findOrCreateHost s mac ip now manuf).s := by
  obtain ⟨_, h', f1, _, _, _, _, f6, f7⟩ := foc_spec hi mac ip now manuf
  intro k x hx
  by_cases hk : k = ip
  · subst hk
    rw [f1] at hx
    simp only [Option.some.injEq] at hx
    subst hx
    rcases f6 with ⟨h0, g1, _, g3⟩ | ⟨_, _, g3, _⟩
    · subst g3; exact h k h0 g1
    · exact g3
  · rw [f7 k hk] at hx; exact h k x hx

theorem allDirty_upd {s : Sess} (h : AllDirty s) (id mid : Nat) {f : HostRec → HostRec} (hf : ∀ x, (f x).dirty = x.dirty)
    (g : MacRec → MacRec) : AllDirty (updMac (updHost s id f) mid g) := by
  intro k x hx
  rw [findHost_updMac, findHost_updHost] at hx
  cases hfx : findHost s k with
  | none => simp [hfx] at hx
  | some y =>
    simp only [hfx, Option.map_some, Option.some.injEq] at hx
    subst hx
    split
    · rw [hf]; exact h k y hfx
    · exact h k y hfx

theorem synced_init (c : Cfg) (now : Int) (mh mr : String) :
    Synced (Model.Tables.init c now mh mr) (fun _ => none) := by
  have hd : AllDirty (Model.Tables.init c now mh mr) := by
    unfold Model.Tables.init
    have h0 : AllDirty Model.Tables.empty := by intro k x hx; simp [findHost, Model.Tables.empty] at hx
    have h1 := allDirty_foc inv_empty h0 c.hostMAC c.hostIP4 now mh
    have hi1 := inv_findOrCreateHost inv_empty c.hostMAC c.hostIP4 now mh
    generalize findOrCreateHost Model.Tables.empty c.hostMAC c.hostIP4 now mh = r1 at *
    have h2 : AllDirty (initHost c now r1) := by
      unfold initHost
      split
      · exact h1
      · exact allDirty_upd h1 _ _ (by intro x; rfl) _
    have hi2 := inv_initHost hi1 c now
    have h3 := allDirty_foc hi2 h2 c.routerMAC c.routerIP4 now mr
    generalize findOrCreateHost (initHost c now r1) c.routerMAC c.routerIP4 now mr = r2 at *
    unfold initRouter
    split
    · exact h3
    · exact allDirty_upd h3 _ _ (by intro x; rfl) _
  intro k x hx hc
  rw [hd k x hx] at hc
  cases hc

/-! ### histories -/

theorem packet_facts {s : Sess} (hi : Inv s) (hj : CurIP4 s) (c : Cfg) (ev : FrameEv) (now : Int) (manuf : String)
    (upd : Option (NameKind × NameEntry)) :
    Inv (packet c s ev now manuf upd).1 ∧ CurIP4 (packet c s ev now manuf upd).1 := by
  unfold packet
  have hi1 := inv_parse hi c ev now manuf
  have hj1 : CurIP4 (parse c s ev now manuf).s := (step_facts hi hj c (.frame ev now manuf)).2
  simp only
  split
  · exact ⟨hi1, hj1⟩
  · have key : ∀ s1 : Sess, Spec.Inv s1 → CurIP4 s1 →
        Spec.Inv (notifyOp s1 (parse c s ev now manuf).host ev.dhcp4 ev.srcMAC (parse c s ev now manuf).flag).1 ∧
        CurIP4 (notifyOp s1 (parse c s ev now manuf).host ev.dhcp4 ev.srcMAC (parse c s ev now manuf).flag).1 :=
      fun s1 h1 h2 => ⟨inv_notifyOp h1 _ _ _ _, (notifyOp_facts h1 h2 _ _ _ _).2⟩
    apply key
    · split
      · exact inv_updateName hi1 _ _ _
      · exact hi1
    · split
      · exact (updateName_facts hj1 _ _ _).2
      · exact hj1

theorem step6_facts {s : Sess} (hi : Inv s) (hj : CurIP4 s) {V : View} (h : Synced s V) (c : Cfg) (op : Op6) :
    Inv (step6 c s op).1 ∧ CurIP4 (step6 c s op).1 ∧ Synced (step6 c s op).1 (V.applyAll (step6 c s op).2) := by
  cases op with
  | packet ev now manuf upd =>
    obtain ⟨a, b⟩ := packet_facts hi hj c ev now manuf upd
    exact ⟨a, b, synced_packet hi hj h c ev now manuf upd⟩
  | api op => exact ⟨Lemmas.Tables.inv_step hi c op, (step_facts hi hj c op).2, synced_step hi hj h c op⟩

theorem run6_facts (c : Cfg) (ops : List Op6) :
    ∀ (s : Sess) (V : View), Inv s → CurIP4 s → Synced s V →
      Inv (run6 c s ops).1 ∧ CurIP4 (run6 c s ops).1 ∧ Synced (run6 c s ops).1 (V.applyAll (run6 c s ops).2) := by
  induction ops with
  | nil => intro s V hi hj h; exact ⟨hi, hj, h⟩
  | cons op rest ih =>
    intro s V hi hj h
    obtain ⟨a, b, d⟩ := step6_facts hi hj h c op
    have := ih _ _ a b d
    simp only [run6, applyAll_append]
    exact this


/-! ### repeat traffic -/

theorem packet_repeat_silent {s : Sess} (hi : Inv s) (c : Cfg) (ev : FrameEv) (now : Int) (manuf : String)
    {mac : MAC} {ip : IP} (he : hostEvent c ev = some (mac, ip)) {h0 : HostRec} (hf : findHost s ip = some h0)
    (hmac : h0.mac = mac) (hon : h0.online = true) (hcl : h0.dirty = false) :
    (packet c s ev now manuf none).2 = [] := by
  obtain ⟨hnp, h', f1, f2, _, _, _, f6, _⟩ := foc_spec hi mac ip now manuf
  have hit := inv_findOrCreateHost hi mac ip now manuf
  obtain ⟨hpm, _⟩ := findHost_mem hit f1
  have hb : hostById (findOrCreateHost s mac ip now manuf).s (findOrCreateHost s mac ip now manuf).host = some h' := by
    rw [← f2]; exact hostById_of_mem hit.hidNodup hpm
  have hh : h' = { h0 with lastSeen := now } := by
    rcases f6 with ⟨h1, g1, _, g3⟩ | ⟨g1, _⟩
    · rw [hf] at g1; cases g1; exact g3
    · exact absurd hmac (g1 h0 hf)
  have hpar : parse c s ev now manuf =
      ({ s := ((findOrCreateHost s mac ip now manuf).s), host := (some (findOrCreateHost s mac ip now manuf).host) } : ParseRes) := by
    unfold parse
    simp only [he, hnp, Bool.false_eq_true, if_false, hb, hh, hon, if_true]
  unfold packet
  simp only [hpar, Bool.false_eq_true, if_false]
  unfold notifyOp notifyHost
  simp only [hb, hh, hcl, Bool.not_false, if_true]

/-! ### what `makeOfflineAll` sends -/

/-- the (MAC, address, online) content of a notification -/
def evOf (n : Notif) : Event := { mac := n.mac, ip := n.ip, online := n.online }

theorem hostById_mapH (s : Sess) {g : HostRec → HostRec} (hg : ∀ x, (g x).id = x.id) (j : Nat) :
    hostById (mapH s g) j = (hostById s j).map g := by
  unfold hostById mapH
  simp only [List.find?_map, Option.map_map]
  have : ((fun p : IP × HostRec => p.2.id == j) ∘ fun p : IP × HostRec => (p.1, g p.2)) = fun p => p.2.id == j := by
    funext p; simp [hg]
  rw [this]; rfl

theorem hostById_makeOffline (s : Sess) (i j : Nat) :
    hostById (makeOffline s i).1 j = (hostById s j).map (offG [i]) := by
  have key : hostById (updHost s i fun x => { x with online := false, dirty := false }) j =
      (hostById s j).map (offG [i]) := by
    rw [updHost_eq, hostById_mapH _ (by intro x; split <;> rfl)]
    congr 1
    funext x
    simp [offG]
  unfold makeOffline
  cases hb : hostById s i with
  | none =>
    simp only
    cases hj : hostById s j with
    | none => rfl
    | some x =>
      obtain ⟨k, hp, hid⟩ := hostById_some hj
      have := hostById_none hb _ hp
      simp only at this
      simp [offG, this]
  | some h =>
    simp only
    split
    · exact key
    · exact key

theorem makeOfflineAll_events (s : Sess) (l : List Nat) :
    (makeOfflineAll s l).2.map evOf =
      l.filterMap (fun i => (hostById s i).map (fun h => { mac := h.mac, ip := h.ip, online := false })) := by
  induction l generalizing s with
  | nil => rfl
  | cons i rest ih =>
    unfold makeOfflineAll
    simp only [List.map_append, ih, List.filterMap_cons]
    have htail : rest.filterMap (fun j => (hostById (makeOffline s i).1 j).map
        (fun h => ({ mac := h.mac, ip := h.ip, online := false } : Event))) =
        rest.filterMap (fun j => (hostById s j).map (fun h => { mac := h.mac, ip := h.ip, online := false })) := by
      congr 1
      funext j
      rw [hostById_makeOffline, Option.map_map]
      congr 1
      funext h
      simp only [Function.comp, offG]
      split <;> rfl
    rw [htail, makeOffline_notifs]
    cases hb : hostById s i with
    | none => simp
    | some h =>
      obtain ⟨n1, n2, n3⟩ := toNotif_fields (updHost s i fun x => { x with online := false, dirty := false })
        { h with online := false, dirty := false }
      simp [evOf, n1, n2, n3]

/-! ### purge announces exactly the addresses that aged out -/

theorem filterMap_congr' {α β} {f g : α → Option β} : ∀ {l : List α}, (∀ a ∈ l, f a = g a) → l.filterMap f = l.filterMap g
  | [], _ => rfl
  | x :: l, h => by
    have hx := h x (List.mem_cons_self ..)
    have ih := filterMap_congr' (l := l) (fun a ha => h a (List.mem_cons_of_mem _ ha))
    simp [List.filterMap_cons, hx, ih]

theorem purge_events {s : Sess} (hi : Inv s) (c : Cfg) (now : Int) :
    (purge c s now).2.map evOf =
      Spec.transitions c (s.hosts.map (·.1)) (abs s) (.purge now) := by
  have hage : ∀ p ∈ s.hosts, abs s p.1 = some (absE p.2) := by
    intro p hp
    have := findHost_of_mem hi.keysNodup hp
    simp [abs, this]
  unfold purge
  simp only
  rw [makeOfflineAll_events]
  unfold Spec.transitions Spec.diff
  simp only [Spec.step]
  -- no address comes online by ageing
  have hons : (s.hosts.map (·.1)).filterMap (onEvent (abs s) (Spec.age c (abs s) now)) = [] := by
    apply List.filterMap_eq_nil_iff.2
    intro k hk
    obtain ⟨p, hp, rfl⟩ := List.mem_map.1 hk
    simp only [onEvent, Spec.age, hage p hp, repeatOf, absE]
    by_cases hon : p.2.online = true
    · by_cases hold : p.2.lastSeen < now - c.offlineDL <;> simp [hon, hold]
    · have hoff : p.2.online = false := by simpa using hon
      by_cases hold : p.2.lastSeen < now - c.purgeDL <;> simp [hoff, hold]
  rw [hons, List.append_nil]
  simp only [List.filterMap_map, List.filterMap_filter]
  apply filterMap_congr'
  intro p hp
  have hb := hostById_of_mem hi.hidNodup hp
  have hk := hi.keyIp p hp
  simp only [Function.comp, offEvent, hage p hp, Spec.age, absE]
  by_cases hon : p.2.online = true
  · by_cases hold : p.2.lastSeen < now - c.offlineDL
    · simp [hon, hold, hb, hk]
    · simp [hon, hold]
  · have hoff : p.2.online = false := by simpa using hon
    by_cases hold : p.2.lastSeen < now - c.purgeDL
    · simp [hoff, hold]
    · simp [hoff, hold]


/-! ### every notification's fields equal the tracked state -/

/-- `n` reports a tracked host exactly: address, owner and online flag of the host, manufacturer,
    names and router flag of its MAC entry -/
def Reported (s : Sess) (n : Notif) : Prop :=
  ∃ p ∈ s.hosts, ∃ m ∈ s.macs, m.id = p.2.entry ∧
    n = { mac := p.2.mac, ip := p.2.ip, online := p.2.online, manuf := m.manuf, names := m.names, isRouter := m.isRouter }

theorem reported_toNotif {s : Sess} (hi : Inv s) {k : IP} {h : HostRec} (hp : (k, h) ∈ s.hosts) :
    Reported s (toNotif s h) := by
  obtain ⟨m, hm, e1, _, _⟩ := hi.hostEntry (k, h) hp
  simp only at e1
  have hmb : macById s h.entry = some m := by rw [← e1]; exact macById_of_mem hi.midNodup hm
  refine ⟨(k, h), hp, m, hm, e1, ?_⟩
  unfold toNotif; simp only [hmb]

theorem reported_mapM {s : Sess} {n : Notif} (h : Reported s n) {g : MacRec → MacRec}
    (hg : ∀ m, (g m).id = m.id ∧ (g m).manuf = m.manuf ∧ (g m).names = m.names ∧ (g m).isRouter = m.isRouter) :
    Reported (mapM s g) n := by
  obtain ⟨p, hp, m, hm, e, rfl⟩ := h
  refine ⟨p, hp, g m, mem_mapM.2 ⟨m, hm, rfl⟩, by rw [(hg m).1, e], ?_⟩
  rw [(hg m).2.1, (hg m).2.2.1, (hg m).2.2.2]

theorem reported_mapH {s : Sess} {n : Notif} (h : Reported s n) {g : HostRec → HostRec} (hg : KeepH g)
    (hon : ∀ x, x.online = n.online → (g x).online = n.online) : Reported (mapH s g) n := by
  obtain ⟨p, hp, m, hm, e, rfl⟩ := h
  refine ⟨(p.1, g p.2), mem_mapH.2 ⟨p, hp, rfl⟩, m, hm, by simp only [(hg p.2).2.2.2, e], ?_⟩
  simp only [(hg p.2).2.1, (hg p.2).2.2.1, hon p.2 rfl]

theorem reported_updHost {s : Sess} {n : Notif} (h : Reported s n) (id : Nat) {f : HostRec → HostRec} (hf : KeepH f)
    (hon : ∀ x, x.online = n.online → (f x).online = n.online) : Reported (updHost s id f) n := by
  rw [updHost_eq]
  refine reported_mapH h hf.ite ?_
  intro x hx
  split
  · exact hon x hx
  · exact hx

theorem reported_updMac {s : Sess} {n : Notif} (h : Reported s n) (id : Nat) {f : MacRec → MacRec}
    (hf : ∀ m, (f m).id = m.id ∧ (f m).manuf = m.manuf ∧ (f m).names = m.names ∧ (f m).isRouter = m.isRouter) :
    Reported (updMac s id f) n := by
  rw [updMac_eq]
  refine reported_mapM h ?_
  intro m
  split
  · exact hf m
  · exact ⟨rfl, rfl, rfl, rfl⟩

theorem reported_pres_makeOffline {s : Sess} {n : Notif} (h : Reported s n) (hoff : n.online = false) (j : Nat) :
    Reported (makeOffline s j).1 n := by
  unfold makeOffline
  split
  · exact h
  · simp only
    have h1 : Reported (updHost s j fun x => { x with online := false, dirty := false }) n :=
      reported_updHost h j (by keepH) (by intro x _; exact hoff.symm)
    split
    · exact h1
    · exact reported_updMac h1 _ (by intro m; exact ⟨rfl, rfl, rfl, rfl⟩)

theorem reported_pres_makeOfflineAll {s : Sess} {n : Notif} (h : Reported s n) (hoff : n.online = false) (l : List Nat) :
    Reported (makeOfflineAll s l).1 n := by
  induction l generalizing s with
  | nil => exact h
  | cons i rest ih => unfold makeOfflineAll; exact ih (reported_pres_makeOffline h hoff i)

theorem reported_makeOffline {s : Sess} (hi : Inv s) (i : Nat) :
    ∀ n ∈ (makeOffline s i).2, Reported (makeOffline s i).1 n ∧ n.online = false := by
  intro n hn
  rw [makeOffline_notifs] at hn
  cases hb : hostById s i with
  | none => simp [hb] at hn
  | some h =>
    simp only [hb, List.mem_singleton] at hn
    obtain ⟨k, hp, hid⟩ := hostById_some hb
    have hi1 : Inv (updHost s i fun x => { x with online := false, dirty := false }) :=
      inv_updHost hi _ (by keepH) (by intro h hh; simp at hh)
    have hp1 : (k, ({ h with online := false, dirty := false } : HostRec)) ∈
        (updHost s i fun x => { x with online := false, dirty := false }).hosts := by
      rw [updHost_eq]
      refine mem_mapH.2 ⟨(k, h), hp, ?_⟩
      simp [hid]
    have hr := reported_toNotif hi1 hp1
    rw [← hn] at hr
    refine ⟨?_, by rw [hn]; exact (toNotif_fields _ _).2.2⟩
    unfold makeOffline
    simp only [hb]
    split
    · exact hr
    · exact reported_updMac hr _ (by intro m; exact ⟨rfl, rfl, rfl, rfl⟩)

theorem reported_makeOfflineAll {s : Sess} (hi : Inv s) (l : List Nat) :
    ∀ n ∈ (makeOfflineAll s l).2, Reported (makeOfflineAll s l).1 n ∧ n.online = false := by
  induction l generalizing s with
  | nil => intro n hn; simp [makeOfflineAll] at hn
  | cons i rest ih =>
    intro n hn
    unfold makeOfflineAll at hn ⊢
    simp only [List.mem_append] at hn
    rcases hn with hn | hn
    · obtain ⟨a, b⟩ := reported_makeOffline hi i n hn
      exact ⟨reported_pres_makeOfflineAll a b rest, b⟩
    · exact ih (inv_makeOffline hi i) n hn

theorem reported_notifyHost {s : Sess} (hi : Inv s) (hid : Nat) (flag : Bool) :
    ∀ n ∈ (notifyHost s hid flag).2, Reported (notifyHost s hid flag).1 n := by
  unfold notifyHost
  cases hb : hostById s hid with
  | none => intro n hn; simp at hn
  | some h0 =>
    simp only
    split
    · intro n hn; simp at hn
    · generalize (if flag = true ∧ h0.ip.is4 = true then _ else _ : List Nat) = offl
      have hi1 := inv_makeOfflineAll hi offl
      have h1 := reported_makeOfflineAll hi offl
      generalize (makeOfflineAll s offl) = r at hi1 h1
      cases hb1 : hostById r.1 hid with
      | none => intro n hn; exact (h1 n hn).1
      | some x1 =>
        simp only
        intro n hn
        obtain ⟨k1, hp1, _⟩ := hostById_some hb1
        rcases List.mem_append.1 hn with hn | hn
        · exact reported_updHost (h1 n hn).1 _ (by keepH) (by intro x hx; exact hx)
        · simp only [List.mem_singleton] at hn
          subst hn
          exact reported_updHost (reported_toNotif hi1 hp1) _ (by keepH) (by intro x hx; exact hx)

theorem reported_notifyOp {s : Sess} (hi : Inv s) (host : Option Nat) (dhcp4 : Bool) (srcMAC : MAC) (flag : Bool) :
    ∀ n ∈ (notifyOp s host dhcp4 srcMAC flag).2, Reported (notifyOp s host dhcp4 srcMAC flag).1 n := by
  unfold notifyOp
  cases host with
  | some hid => exact reported_notifyHost hi _ _
  | none =>
    simp only
    split
    · intro n hn; simp at hn
    · split
      · intro n hn; simp at hn
      · split
        · intro n hn; simp at hn
        · exact reported_notifyHost hi _ _

theorem reported_dhcpUpdate {s : Sess} (hi : Inv s) (mac : MAC) (ip : IP) (name : NameEntry) (now : Int) (manuf : String) :
    ∀ n ∈ (dhcpUpdate s mac ip name now manuf).2.notifs, Reported (dhcpUpdate s mac ip name now manuf).1 n := by
  unfold dhcpUpdate
  split
  · intro n hn; simp at hn
  · simp only
    have hi1 := inv_findOrCreateHost hi mac ip now manuf
    split
    · intro n hn; simp at hn
    · have hi2 := inv_updateName hi1 (findOrCreateHost s mac ip now manuf).host .dhcp4 name
      split
      · intro n hn; simp at hn
      · rename_i x _
        simp only
        apply reported_notifyHost
        have hi3 : Inv (updMac (updateName (findOrCreateHost s mac ip now manuf).s
            (findOrCreateHost s mac ip now manuf).host .dhcp4 name) x.entry (fun m => { m with ip4offer := x.ip })) :=
          inv_updMac hi2 _ (by keepM) (by onSame)
        split
        · exact hi3
        · exact inv_onlineTransition hi3 _

theorem deleteHost_macs_sub {s : Sess} (hi : Inv s) (ip : IP) :
    ∀ m' ∈ (deleteHost s ip).macs, ∃ m ∈ s.macs, m'.id = m.id ∧ m'.manuf = m.manuf ∧ m'.names = m.names ∧
      m'.isRouter = m.isRouter := by
  intro m' hm'
  cases hf : findHost s ip with
  | none =>
    have : deleteHost s ip = s := by unfold deleteHost; simp only [hf]
    rw [this] at hm'
    exact ⟨m', hm', rfl, rfl, rfl, rfl⟩
  | some h =>
    rw [deleteHost_eq hi hf] at hm'
    have hd : m' ∈ (delState s ip h).macs := by
      cases hmb : macById (delState s ip h) h.entry with
      | none => rw [hmb] at hm'; exact hm'
      | some m1 =>
        rw [hmb] at hm'
        simp only at hm'
        split at hm'
        · exact List.mem_of_mem_eraseP hm'
        · exact hm'
    unfold delState at hd
    simp only [List.mem_map] at hd
    obtain ⟨m, hm, rfl⟩ := hd
    refine ⟨m, hm, unlinkG_id _ _ _, ?_, ?_, ?_⟩ <;> (unfold unlinkG; split <;> rfl)

theorem reported_deleteHost {s : Sess} (hi : Inv s) {n : Notif} (h : Reported s n) {ip : IP} (hne : n.ip ≠ ip) :
    Reported (deleteHost s ip) n := by
  obtain ⟨p, hp, m, hm, e, rfl⟩ := h
  have hi' := inv_deleteHost hi ip
  have hk := hi.keyIp p hp
  have hp' : p ∈ (deleteHost s ip).hosts := by
    rw [deleteHost_hosts]
    refine List.mem_filter.2 ⟨hp, ?_⟩
    simp only at hne
    simp [← hk, hne]
  obtain ⟨m', hm', e1, _, _⟩ := hi'.hostEntry p hp'
  obtain ⟨m0, hm0, a, b, c, d⟩ := deleteHost_macs_sub hi ip m' hm'
  have : m0 = m := mid_inj hi hm0 hm (by rw [← a, e1, e])
  subst this
  exact ⟨p, hp', m', hm', e1, by rw [b, c, d]⟩

theorem reported_purge {s : Sess} (hi : Inv s) (c : Cfg) (now : Int) :
    ∀ n ∈ (purge c s now).2, Reported (purge c s now).1 n := by
  unfold purge
  simp only
  intro n hn
  generalize hoffL : (List.map (fun x => x.id) (List.filter (fun e => !(!e.online && decide (e.lastSeen < now - c.purgeDL)) &&
    (e.online && decide (e.lastSeen < now - c.offlineDL))) (List.map (fun x => x.snd) s.hosts))) = offL at hn ⊢
  obtain ⟨hr, _⟩ := reported_makeOfflineAll hi offL n hn
  -- the announced address belongs to a host that was online when purge started
  have hev : evOf n ∈ (makeOfflineAll s offL).2.map evOf := List.mem_map.2 ⟨n, hn, rfl⟩
  rw [makeOfflineAll_events] at hev
  simp only [List.mem_filterMap, Option.map_eq_some_iff] at hev
  obtain ⟨i, hiL, h0, hb0, hev0⟩ := hev
  have hnip : n.ip = h0.ip := by have := congrArg Event.ip hev0; simpa [evOf] using this.symm
  obtain ⟨k0, hp0, hid0⟩ := hostById_some hb0
  have h0on : h0.online = true := by
    rw [← hoffL] at hiL
    simp only [List.mem_map, List.mem_filter, Bool.and_eq_true] at hiL
    obtain ⟨y, ⟨⟨q, hq, rfl⟩, _, hyon, _⟩, hyid⟩ := hiL
    have : q = (k0, h0) := id_inj hi hq hp0 (by simp [hyid, hid0])
    subst this
    exact hyon
  -- so it is not in the delete list
  have key : ∀ (l : List IP) (t : Sess), Inv t → Reported t n → (∀ ip ∈ l, n.ip ≠ ip) → Reported (l.foldl deleteHost t) n := by
    intro l
    induction l with
    | nil => intro t _ h _; exact h
    | cons ip rest ih =>
      intro t ht h hl
      rw [List.foldl_cons]
      exact ih _ (inv_deleteHost ht ip) (reported_deleteHost ht h (hl ip (List.mem_cons_self ..)))
        (fun ip' hip' => hl ip' (List.mem_cons_of_mem _ hip'))
  apply key _ _ (inv_makeOfflineAll hi offL) hr
  intro ip hip e
  simp only [List.mem_map, List.mem_filter, Bool.and_eq_true, Bool.not_eq_eq_eq_not, Bool.not_true] at hip
  obtain ⟨y, ⟨⟨q, hq, rfl⟩, hyoff, _⟩, hyip⟩ := hip
  have hk0 := hi.keyIp _ hp0
  have hkq := hi.keyIp _ hq
  simp only at hk0
  have : q = (k0, h0) := key_inj hi hq hp0 (by simp [← hkq, hyip, ← e, hnip, hk0])
  subst this
  simp only at hyoff
  rw [h0on] at hyoff
  cases hyoff

theorem reported_step {s : Sess} (hi : Inv s) (c : Cfg) (op : Op) :
    ∀ n ∈ (Model.Tables.step c s op).2.notifs, Reported (Model.Tables.step c s op).1 n := by
  cases op with
  | notify host dhcp4 srcMAC flag => exact reported_notifyOp hi host dhcp4 srcMAC flag
  | dhcpUpdate mac ip name now manuf => exact reported_dhcpUpdate hi mac ip name now manuf
  | purge now => exact reported_purge hi c now
  | frame ev now manuf => intro n hn; simp [Model.Tables.step] at hn
  | setOffer mac ip name => intro n hn; simp [Model.Tables.step] at hn
  | capture mac =>
    intro n hn
    simp only [Model.Tables.step] at hn
    split at hn
    · simp at hn
    · split at hn <;> simp at hn
  | release mac =>
    intro n hn
    simp only [Model.Tables.step] at hn
    split at hn <;> simp at hn
  | setLastSeen ip t =>
    intro n hn
    simp only [Model.Tables.step] at hn
    split at hn <;> simp at hn
  | updateName host kind name => intro n hn; simp [Model.Tables.step] at hn
  | printTable => intro n hn; simp [Model.Tables.step] at hn

theorem reported_packet {s : Sess} (hi : Inv s) (c : Cfg) (ev : FrameEv) (now : Int) (manuf : String)
    (upd : Option (NameKind × NameEntry)) :
    ∀ n ∈ (packet c s ev now manuf upd).2, Reported (packet c s ev now manuf upd).1 n := by
  unfold packet
  have hi1 := inv_parse hi c ev now manuf
  simp only
  split
  · intro n hn; simp at hn
  · apply reported_notifyOp
    split
    · exact inv_updateName hi1 _ _ _
    · exact hi1


/-! ### at most one notification per address and step -/

theorem nodup_filterMap {α β} (f : α → Option β) :
    ∀ (l : List α), l.Nodup → (∀ a ∈ l, ∀ b ∈ l, ∀ c, f a = some c → f b = some c → a = b) → (l.filterMap f).Nodup
  | [], _, _ => by simp
  | x :: l, hn, hinj => by
    rw [List.nodup_cons] at hn
    have ih := nodup_filterMap f l hn.2 (fun a ha b hb c => hinj a (List.mem_cons_of_mem _ ha) b (List.mem_cons_of_mem _ hb) c)
    rw [List.filterMap_cons]
    cases hfx : f x with
    | none => exact ih
    | some c =>
      simp only
      refine List.nodup_cons.2 ⟨?_, ih⟩
      intro hc
      obtain ⟨b, hb, hfb⟩ := List.mem_filterMap.1 hc
      have := hinj x (List.mem_cons_self ..) b (List.mem_cons_of_mem _ hb) c hfx hfb
      subst this
      exact hn.1 hb

theorem hostById_makeOfflineAll (s : Sess) (l : List Nat) (j : Nat) :
    hostById (makeOfflineAll s l).1 j = (hostById s j).map (offG l) := by
  induction l generalizing s with
  | nil =>
    simp only [makeOfflineAll]
    cases hostById s j <;> simp [offG]
  | cons i rest ih =>
    unfold makeOfflineAll
    simp only
    rw [ih, hostById_makeOffline, Option.map_map]
    congr 1
    funext x
    exact offG_offG i rest x

theorem offl_ips_nodup {s : Sess} (hi : Inv s) {l : List Nat} (hl : l.Nodup) :
    ((makeOfflineAll s l).2.map (·.ip)).Nodup := by
  have : (makeOfflineAll s l).2.map (·.ip) = ((makeOfflineAll s l).2.map evOf).map (·.ip) := by
    rw [List.map_map]; rfl
  rw [this, makeOfflineAll_events, List.map_filterMap]
  apply nodup_filterMap _ _ hl
  intro a _ b _ c ha hb
  simp only [Option.map_map, Option.map_eq_some_iff, Function.comp] at ha hb
  obtain ⟨x, hx, rfl⟩ := ha
  obtain ⟨y, hy, e⟩ := hb
  obtain ⟨kx, hpx, hidx⟩ := hostById_some hx
  obtain ⟨ky, hpy, hidy⟩ := hostById_some hy
  have h1 := hi.keyIp _ hpx
  have h2 := hi.keyIp _ hpy
  simp only at h1 h2
  have : (kx, x) = (ky, y) := key_inj hi hpx hpy (by simp [← h1, ← h2, e])
  simp only [Prod.mk.injEq] at this
  rw [← hidx, ← hidy, this.2]

theorem notifyHost_ips_nodup {s : Sess} (hi : Inv s) (hid : Nat) (flag : Bool) :
    ((notifyHost s hid flag).2.map (·.ip)).Nodup := by
  unfold notifyHost
  cases hb : hostById s hid with
  | none => simp
  | some h0 =>
    simp only
    split
    · simp
    · have hoffl : (if flag = true ∧ h0.ip.is4 = true then
          match macById s h0.entry with
          | none => []
          | some m => m.hostList.filter (fun i => match hostById s i with
                                                  | some v => i != hid && !v.online && v.dirty
                                                  | none => false)
          else ([] : List Nat)).Nodup ∧ hid ∉ (if flag = true ∧ h0.ip.is4 = true then
          match macById s h0.entry with
          | none => []
          | some m => m.hostList.filter (fun i => match hostById s i with
                                                  | some v => i != hid && !v.online && v.dirty
                                                  | none => false)
          else ([] : List Nat)) := by
        split
        · cases hm : macById s h0.entry with
          | none => simp
          | some m =>
            simp only
            refine ⟨List.Nodup.sublist List.filter_sublist (hi.listNodup m (macById_some hm).1), ?_⟩
            intro hmem
            simp only [List.mem_filter, hb] at hmem
            simp at hmem
        · simp
      generalize (if flag = true ∧ h0.ip.is4 = true then _ else _ : List Nat) = offl at hoffl
      obtain ⟨hnd, hnot⟩ := hoffl
      have h1 := offl_ips_nodup hi hnd
      have hbr := hostById_makeOfflineAll s offl hid
      rw [hb] at hbr
      simp only [Option.map_some, offG, hostById_some hb |>.choose_spec.2, hnot, if_false] at hbr
      simp only [hbr, List.map_append, List.map_cons, List.map_nil]
      refine List.nodup_append.2 ⟨h1, by simp, ?_⟩
      intro a ha b hb'
      simp only [List.mem_singleton] at hb'
      subst hb'
      rw [(toNotif_fields _ _).2.1]
      -- an address announced offline belongs to a host in `offl`, which is not `hid`
      intro e
      have hev : a ∈ ((makeOfflineAll s offl).2.map evOf).map (·.ip) := by
        rw [List.map_map]; exact ha
      rw [makeOfflineAll_events, List.map_filterMap] at hev
      simp only [List.mem_filterMap, Option.map_map, Option.map_eq_some_iff, Function.comp] at hev
      obtain ⟨i, hiL, y, hy, hyip⟩ := hev
      obtain ⟨k0, hp0, hid0⟩ := hostById_some hb
      obtain ⟨ky, hpy, hidy⟩ := hostById_some hy
      have g1 := hi.keyIp _ hp0
      have g2 := hi.keyIp _ hpy
      simp only at g1 g2
      have : (ky, y) = (k0, h0) := key_inj hi hpy hp0 (by simp [← g1, ← g2, hyip, e])
      simp only [Prod.mk.injEq] at this
      apply hnot
      rw [← hid0, ← this.2, hidy]
      exact hiL


theorem notifyOp_ips_nodup {s : Sess} (hi : Inv s) (host : Option Nat) (dhcp4 : Bool) (srcMAC : MAC) (flag : Bool) :
    ((notifyOp s host dhcp4 srcMAC flag).2.map (·.ip)).Nodup := by
  unfold notifyOp
  cases host with
  | some hid => exact notifyHost_ips_nodup hi _ _
  | none =>
    simp only
    split
    · simp
    · split
      · simp
      · split
        · simp
        · exact notifyHost_ips_nodup hi _ _

theorem step_ips_nodup {s : Sess} (hi : Inv s) (c : Cfg) (op : Op) :
    ((Model.Tables.step c s op).2.notifs.map (·.ip)).Nodup := by
  cases op with
  | notify host dhcp4 srcMAC flag => exact notifyOp_ips_nodup hi host dhcp4 srcMAC flag
  | dhcpUpdate mac ip name now manuf =>
    simp only [Model.Tables.step]
    unfold dhcpUpdate
    split
    · simp
    · simp only
      have hi1 := inv_findOrCreateHost hi mac ip now manuf
      split
      · simp
      · have hi2 := inv_updateName hi1 (findOrCreateHost s mac ip now manuf).host .dhcp4 name
        split
        · simp
        · rename_i x _
          simp only
          apply notifyHost_ips_nodup
          have hi3 : Inv (updMac (updateName (findOrCreateHost s mac ip now manuf).s
              (findOrCreateHost s mac ip now manuf).host .dhcp4 name) x.entry (fun m => { m with ip4offer := x.ip })) :=
            inv_updMac hi2 _ (by keepM) (by onSame)
          split
          · exact hi3
          · exact inv_onlineTransition hi3 _
  | purge now =>
    simp only [Model.Tables.step, purge]
    apply offl_ips_nodup hi
    have : (List.map (fun x => x.id) (List.filter (fun e => !(!e.online && decide (e.lastSeen < now - c.purgeDL)) &&
        (e.online && decide (e.lastSeen < now - c.offlineDL))) (List.map (fun x => x.snd) s.hosts))).Sublist
        (s.hosts.map (·.2.id)) := by
      have h1 := List.Sublist.map (fun x : HostRec => x.id) (List.filter_sublist (p := fun e =>
        !(!e.online && decide (e.lastSeen < now - c.purgeDL)) && (e.online && decide (e.lastSeen < now - c.offlineDL)))
        (l := List.map (fun x => x.snd) s.hosts))
      rw [List.map_map] at h1
      exact h1
    exact List.Nodup.sublist this hi.hidNodup
  | frame ev now manuf => simp [Model.Tables.step]
  | setOffer mac ip name => simp [Model.Tables.step]
  | capture mac =>
    simp only [Model.Tables.step]
    split
    · simp
    · split <;> simp
  | release mac =>
    simp only [Model.Tables.step]
    split <;> simp
  | setLastSeen ip t =>
    simp only [Model.Tables.step]
    split <;> simp
  | updateName host kind name => simp [Model.Tables.step]
  | printTable => simp [Model.Tables.step]

theorem packet_ips_nodup {s : Sess} (hi : Inv s) (c : Cfg) (ev : FrameEv) (now : Int) (manuf : String)
    (upd : Option (NameKind × NameEntry)) : ((packet c s ev now manuf upd).2.map (·.ip)).Nodup := by
  unfold packet
  have hi1 := inv_parse hi c ev now manuf
  simp only
  split
  · simp
  · apply notifyOp_ips_nodup
    split
    · exact inv_updateName hi1 _ _ _
    · exact hi1


/-! ### Notify only announces what is pending -/

theorem notifyHost_only_pending {s : Sess} (hi : Inv s) (hid : Nat) (flag : Bool) :
    ∀ n ∈ (notifyHost s hid flag).2, ∃ x, findHost s n.ip = some x ∧ x.dirty = true ∧ x.mac = n.mac := by
  unfold notifyHost
  cases hb : hostById s hid with
  | none => intro n hn; simp at hn
  | some h0 =>
    simp only
    split
    · intro n hn; simp at hn
    · rename_i hdirty
      have hoffl : ∀ i ∈ (if flag = true ∧ h0.ip.is4 = true then
          match macById s h0.entry with
          | none => []
          | some m => m.hostList.filter (fun i => match hostById s i with
                                                  | some v => i != hid && !v.online && v.dirty
                                                  | none => false)
          else ([] : List Nat)), (∀ v, hostById s i = some v → v.dirty = true) ∧ i ≠ hid := by
        intro i hi'
        split at hi'
        · split at hi'
          · simp at hi'
          · simp only [List.mem_filter] at hi'
            constructor
            · intro v hv
              have := hi'.2
              simp only [hv, Bool.and_eq_true] at this
              exact this.2
            · intro e
              have := hi'.2
              subst e
              simp [hb] at this
        · simp at hi'
      generalize (if flag = true ∧ h0.ip.is4 = true then _ else _ : List Nat) = offl at hoffl
      have hbr := hostById_makeOfflineAll s offl hid
      rw [hb] at hbr
      have hnot : hid ∉ offl := fun hm => (hoffl hid hm).2 rfl
      obtain ⟨k0, hp0, hid0⟩ := hostById_some hb
      simp only [Option.map_some, offG, hid0, hnot, if_false] at hbr
      simp only [hbr]
      intro n hn
      rcases List.mem_append.1 hn with hn | hn
      · have hev : evOf n ∈ (makeOfflineAll s offl).2.map evOf := List.mem_map.2 ⟨n, hn, rfl⟩
        rw [makeOfflineAll_events] at hev
        simp only [List.mem_filterMap, Option.map_eq_some_iff] at hev
        obtain ⟨i, hiL, v, hv, hevv⟩ := hev
        obtain ⟨kv, hpv, _⟩ := hostById_some hv
        have hk := hi.keyIp _ hpv
        simp only at hk
        have hnip : n.ip = v.ip := by have := congrArg Event.ip hevv; simpa [evOf] using this.symm
        have hnmac : n.mac = v.mac := by have := congrArg Event.mac hevv; simpa [evOf] using this.symm
        refine ⟨v, ?_, (hoffl i hiL).1 v hv, hnmac.symm⟩
        rw [hnip, hk]
        exact findHost_of_mem hi.keysNodup hpv
      · simp only [List.mem_singleton] at hn
        subst hn
        have hk := hi.keyIp _ hp0
        simp only at hk
        refine ⟨h0, ?_, by simpa using hdirty, ((toNotif_fields _ _).1).symm⟩
        rw [(toNotif_fields _ _).2.1, hk]
        exact findHost_of_mem hi.keysNodup hp0

end PV.Lemmas.Tables
