/-
  Lemmas for Props/C09Atomic.lean: the invariant of the interleaved atomicity machine (Model/Atomic.lean).

  `Inv` says: the owner table and the threads' `cur` agree (mutual exclusion per guard); every operation is
  `Disciplined`; the sections a thread is in / has still to enter are a suffix of its current operation; the sequential
  run of the commit history equals the store with the sections in progress completed (`abs`); and per thread the
  committed operations followed by the pending ones are its program.
-/
import PacketVerif.Model.Atomic
namespace PV.Lemmas.Atomic
open PV.Model.Atomic

section
variable {G L D : Type} [DecidableEq G]

@[simp] theorem upd_same {V : Type} (st : G → V) (g : G) (d : V) : upd st g d g = d := by simp [upd]
theorem upd_ne {V : Type} (st : G → V) {g h : G} (d : V) (hne : h ≠ g) : upd st g d h = st h := by simp [upd, hne]
theorem upd_self {V : Type} (st : G → V) (g : G) : upd st g (st g) = st := by
  funext h; by_cases hh : h = g <;> simp [upd, hh]

omit [DecidableEq G] in
@[simp] theorem setTh_same (th : Nat → Thread G L D) (i : Nat) (t : Thread G L D) : setTh th i t i = t := by simp [setTh]
omit [DecidableEq G] in
theorem setTh_ne (th : Nat → Thread G L D) {i j : Nat} (t : Thread G L D) (hne : j ≠ i) : setTh th i t j = th j := by
  simp [setTh, hne]

theorem serial_append (l0 : L) (a : List (Op G L D)) (op : Op G L D) (st : Store G D) :
    serial l0 (a ++ [op]) st = runOp l0 op (serial l0 a st) := by
  induction a generalizing st with
  | nil => simp [serial]
  | cons x xs ih => simp [serial, ih]

/-- read-only sections in front of a last section: only the last one changes the store -/
theorem runSecs_ro (pre : List (Sec G L D)) (s : Sec G L D) (hro : ∀ x ∈ pre, ReadOnly x) (l : L) (st : Store G D) :
    ∃ l', (runSecs (pre ++ [s]) l st).2 = upd st s.g (runMicros s.body (l', st s.g)).2 := by
  induction pre generalizing l with
  | nil => exact ⟨l, by simp [runSecs]⟩
  | cons x xs ih =>
    have hx : ReadOnly x := hro x (List.mem_cons_self ..)
    obtain ⟨l', hl'⟩ := ih (fun y hy => hro y (List.mem_cons_of_mem _ hy)) (runMicros x.body (l, st x.g)).1
    refine ⟨l', ?_⟩
    simp only [List.cons_append, runSecs]
    rw [hx l (st x.g), upd_self]
    exact hl'

omit [DecidableEq G] in
theorem mem_dropLast_mid (pre : List (Sec G L D)) (s : Sec G L D) (r : List (Sec G L D)) (hr : r ≠ []) :
    s ∈ (pre ++ s :: r).dropLast := by
  rw [List.dropLast_append_of_ne_nil (by simp), List.dropLast_cons_of_ne_nil hr]
  simp

/-- the invariant of the interleaved machine -/
structure Inv (l0 : L) (st0 : Store G D) (progs : Nat → List (Op G L D)) (σ : State G L D) : Prop where
  own_cur : ∀ g i, σ.owner g = some i → ∃ s ms, (σ.th i).cur = some (s, ms) ∧ s.g = g
  cur_own : ∀ i s ms, (σ.th i).cur = some (s, ms) → σ.owner s.g = some i
  disc : ∀ i, Disciplined (σ.th i).curOp ∧ ∀ op ∈ (σ.th i).ops, Disciplined op
  shape : ∀ i, ∃ pre, (σ.th i).curOp.secs =
      pre ++ (match (σ.th i).cur with | some (s, _) => s :: (σ.th i).rest | none => (σ.th i).rest) ∧
      ((σ.th i).cur = none → (σ.th i).rest ≠ [] → pre ≠ [])
  ser : serial l0 (σ.hist.map (·.2)) st0 = abs σ
  order : ∀ i, ((σ.hist.filter (fun e => e.1 == i)).map (·.2)) ++ pending (σ.th i) = progs i

theorem inv_init (l0 : L) (st0 : Store G D) (progs : Nat → List (Op G L D))
    (hd : ∀ i, ∀ op ∈ progs i, Disciplined op) : Inv l0 st0 progs (init l0 st0 progs) := by
  refine ⟨?_, ?_, ?_, ?_, ?_, ?_⟩
  · intro g i h; simp [init] at h
  · intro i s ms h; simp [init] at h
  · intro i; exact ⟨by simp [init, nop, Disciplined], by simpa [init] using hd i⟩
  · intro i; exact ⟨[], by simp [init, nop], by simp [init]⟩
  · funext g; simp [init, serial, abs]
  · intro i; simp [init, pending]

/-- entering a section: the abstraction changes exactly at the guard of the section -/
theorem abs_acquire (σ : State G L D) (i : Nat) (s : Sec G L D) (t' : Thread G L D) (hist' : List (Nat × Op G L D))
    (hoc : ∀ g i, σ.owner g = some i → ∃ s ms, (σ.th i).cur = some (s, ms) ∧ s.g = g)
    (hcur : (σ.th i).cur = none) (hfree : σ.owner s.g = none) (ht' : t'.cur = some (s, s.body)) :
    abs { store := σ.store, owner := upd σ.owner s.g (some i), th := setTh σ.th i t', hist := hist' } =
      upd (abs σ) s.g (runMicros s.body (t'.loc, σ.store s.g)).2 ∧ abs σ s.g = σ.store s.g := by
  constructor
  · funext h
    by_cases hh : h = s.g
    · subst hh; simp [abs, ht']
    · rw [upd_ne _ _ hh]
      simp only [abs, upd_ne _ _ hh]
      cases ho : σ.owner h with
      | none => rfl
      | some j =>
        have hj : j ≠ i := by
          intro e; subst e
          obtain ⟨s', ms, hc, _⟩ := hoc h j ho
          rw [hcur] at hc; cases hc
        simp [setTh_ne _ _ hj]
  · simp [abs, hfree]

theorem inv_step (l0 : L) (st0 : Store G D) (progs : Nat → List (Op G L D)) (σ σ' : State G L D)
    (hi : Inv l0 st0 progs σ) (hs : Step l0 σ σ') : Inv l0 st0 progs σ' := by
  obtain ⟨hoc, hco, hdisc, hshape, hser, hord⟩ := hi
  cases hs with
  | acqFirst i op ops' s r hcur hrest hops hsecs hfree =>
    have hdop : Disciplined op := (hdisc i).2 op (by rw [hops]; exact List.mem_cons_self ..)
    have habs := abs_acquire σ i s { loc := l0, cur := some (s, s.body), rest := r, curOp := op, ops := ops' }
      (if r = [] then σ.hist ++ [(i, op)] else σ.hist) hoc hcur hfree rfl
    refine ⟨?_, ?_, ?_, ?_, ?_, ?_⟩
    · intro g j hg
      by_cases hgg : g = s.g
      · subst hgg
        have : j = i := by simpa using hg.symm
        subst this
        exact ⟨s, s.body, by simp, rfl⟩
      · have hg' : σ.owner g = some j := by simpa [upd_ne _ _ hgg] using hg
        have hj : j ≠ i := by
          intro e; subst e
          obtain ⟨s', ms, hc, _⟩ := hoc g j hg'
          rw [hcur] at hc; cases hc
        simpa [setTh_ne _ _ hj] using hoc g j hg'
    · intro j s' ms hc
      by_cases hj : j = i
      · subst hj
        simp at hc
        obtain ⟨rfl, _⟩ := hc
        simp
      · simp only [setTh_ne _ _ hj] at hc
        have := hco j s' ms hc
        have hne : s'.g ≠ s.g := by intro e; rw [e, hfree] at this; cases this
        simpa [upd_ne _ _ hne] using this
    · intro j
      by_cases hj : j = i
      · subst hj
        simp only [setTh_same]
        exact ⟨hdop, fun o ho => (hdisc j).2 o (by rw [hops]; exact List.mem_cons_of_mem _ ho)⟩
      · simpa [setTh_ne _ _ hj] using hdisc j
    · intro j
      by_cases hj : j = i
      · subst hj
        exact ⟨[], by simp [hsecs], by simp⟩
      · simpa [setTh_ne _ _ hj] using hshape j
    · show serial l0 ((if r = [] then σ.hist ++ [(i, op)] else σ.hist).map (·.2)) st0 = _
      rw [habs.1]
      by_cases hr : r = []
      · subst hr
        simp only [if_true, List.map_append, List.map_cons, List.map_nil, serial_append, hser]
        simp [runOp, hsecs, runSecs, habs.2]
      · simp only [hr, if_false, hser]
        have hro : ReadOnly s := hdop.1 s (by rw [hsecs]; exact mem_dropLast_mid [] s r hr)
        rw [hro, ← habs.2, upd_self]
    · intro j
      by_cases hj : j = i
      · subst hj
        have := hord j
        simp only [pending, hrest, hops, if_true, List.nil_append] at this
        by_cases hr : r = []
        · subst hr
          simp [pending, List.filter_append, ← this]
        · simp [pending, hr, ← this]
      · have := hord j
        simp only [setTh_ne _ _ hj]
        by_cases hr : r = []
        · have hji : (i == j) = false := by simpa using (fun e => hj e.symm)
          simpa [hr, List.filter_append, hji] using this
        · simpa [hr] using this
  | skip i op ops' hcur hrest hops hsecs =>
    have hth : ∀ j, (setTh σ.th i { (σ.th i) with ops := ops' } j).cur = (σ.th j).cur ∧
        (setTh σ.th i { (σ.th i) with ops := ops' } j).loc = (σ.th j).loc ∧
        (setTh σ.th i { (σ.th i) with ops := ops' } j).rest = (σ.th j).rest ∧
        (setTh σ.th i { (σ.th i) with ops := ops' } j).curOp = (σ.th j).curOp := by
      intro j
      by_cases hj : j = i
      · subst hj; simp
      · simp [setTh_ne _ _ hj]
    refine ⟨?_, ?_, ?_, ?_, ?_, ?_⟩
    · intro g j hg
      simpa [(hth j).1] using hoc g j hg
    · intro j s' ms hc
      rw [(hth j).1] at hc
      exact hco j s' ms hc
    · intro j
      by_cases hj : j = i
      · subst hj
        simp only [setTh_same]
        exact ⟨(hdisc j).1, fun o ho => (hdisc j).2 o (by rw [hops]; exact List.mem_cons_of_mem _ ho)⟩
      · simpa [setTh_ne _ _ hj] using hdisc j
    · intro j
      rw [(hth j).1, (hth j).2.2.1, (hth j).2.2.2]
      exact hshape j
    · have habs : abs { σ with th := setTh σ.th i { (σ.th i) with ops := ops' }, hist := σ.hist ++ [(i, op)] } = abs σ := by
        funext g
        simp only [abs]
        cases σ.owner g with
        | none => rfl
        | some j => simp only [(hth j).1, (hth j).2.1]
      rw [habs]
      simp only [List.map_append, List.map_cons, List.map_nil, serial_append, hser]
      simp [runOp, hsecs, runSecs]
    · intro j
      by_cases hj : j = i
      · subst hj
        have := hord j
        simp only [pending, hrest, hops, if_true, List.nil_append] at this
        simp [pending, hrest, List.filter_append, ← this]
      · have := hord j
        have hji : (i == j) = false := by simpa using (fun e => hj e.symm)
        simpa [setTh_ne _ _ hj, List.filter_append, hji] using this
  | acqNext i s r hcur hrest hfree =>
    have habs := abs_acquire σ i s { (σ.th i) with cur := some (s, s.body), rest := r }
      (if r = [] then σ.hist ++ [(i, (σ.th i).curOp)] else σ.hist) hoc hcur hfree rfl
    obtain ⟨pre, hpre, hpne⟩ := hshape i
    rw [hcur] at hpre
    simp only [hrest] at hpre
    have hpne' : pre ≠ [] := hpne hcur (by rw [hrest]; simp)
    refine ⟨?_, ?_, ?_, ?_, ?_, ?_⟩
    · intro g j hg
      by_cases hgg : g = s.g
      · subst hgg
        have : j = i := by simpa using hg.symm
        subst this
        exact ⟨s, s.body, by simp, rfl⟩
      · have hg' : σ.owner g = some j := by simpa [upd_ne _ _ hgg] using hg
        have hj : j ≠ i := by
          intro e; subst e
          obtain ⟨s', ms, hc, _⟩ := hoc g j hg'
          rw [hcur] at hc; cases hc
        simpa [setTh_ne _ _ hj] using hoc g j hg'
    · intro j s' ms hc
      by_cases hj : j = i
      · subst hj
        simp at hc
        obtain ⟨rfl, _⟩ := hc
        simp
      · simp only [setTh_ne _ _ hj] at hc
        have := hco j s' ms hc
        have hne : s'.g ≠ s.g := by intro e; rw [e, hfree] at this; cases this
        simpa [upd_ne _ _ hne] using this
    · intro j
      by_cases hj : j = i
      · subst hj; simpa using hdisc j
      · simpa [setTh_ne _ _ hj] using hdisc j
    · intro j
      by_cases hj : j = i
      · subst hj
        exact ⟨pre, by simpa using hpre, by simp⟩
      · simpa [setTh_ne _ _ hj] using hshape j
    · show serial l0 ((if r = [] then σ.hist ++ [(i, (σ.th i).curOp)] else σ.hist).map (·.2)) st0 = _
      rw [habs.1]
      have hd := (hdisc i).1
      by_cases hr : r = []
      · subst hr
        simp only [if_true, List.map_append, List.map_cons, List.map_nil, serial_append, hser]
        have hro : ∀ x ∈ pre, ReadOnly x := by
          intro x hx
          apply hd.1 x
          rw [hpre, List.dropLast_concat]; exact hx
        have hlen : 2 ≤ (σ.th i).curOp.secs.length := by
          rw [hpre]
          cases pre with
          | nil => exact absurd rfl hpne'
          | cons a as => simp
        have hli : LocalIndep s := hd.2 hlen s (by rw [hpre]; simp)
        obtain ⟨l', hl'⟩ := runSecs_ro pre s hro l0 (abs σ)
        simp only [runOp, hpre, hl', habs.2]
        rw [hli l' (σ.th i).loc]
      · simp only [hr, if_false, hser]
        have hro : ReadOnly s := hd.1 s (by rw [hpre]; exact mem_dropLast_mid pre s r hr)
        rw [hro, ← habs.2, upd_self]
    · intro j
      by_cases hj : j = i
      · subst hj
        have := hord j
        simp only [pending, hrest] at this
        by_cases hr : r = []
        · subst hr
          simp only [List.cons_ne_nil, if_false] at this
          simp [pending, List.filter_append, ← this]
        · simp only [List.cons_ne_nil, if_false] at this
          simp [pending, hr, ← this]
      · have := hord j
        simp only [setTh_ne _ _ hj]
        by_cases hr : r = []
        · have hji : (i == j) = false := by simpa using (fun e => hj e.symm)
          simpa [hr, List.filter_append, hji] using this
        · simpa [hr] using this
  | micro i s m ms hcur =>
    have hown : σ.owner s.g = some i := hco i s (m :: ms) hcur
    refine ⟨?_, ?_, ?_, ?_, ?_, ?_⟩
    · intro g j hg
      by_cases hj : j = i
      · subst hj
        obtain ⟨s', ms', hc, hg'⟩ := hoc g j hg
        rw [hcur] at hc
        cases hc
        exact ⟨s, ms, by simp, hg'⟩
      · simpa [setTh_ne _ _ hj] using hoc g j hg
    · intro j s' ms' hc
      by_cases hj : j = i
      · subst hj
        simp at hc
        obtain ⟨rfl, _⟩ := hc
        exact hown
      · simp only [setTh_ne _ _ hj] at hc
        exact hco j s' ms' hc
    · intro j
      by_cases hj : j = i
      · subst hj; simpa using hdisc j
      · simpa [setTh_ne _ _ hj] using hdisc j
    · intro j
      by_cases hj : j = i
      · subst hj
        obtain ⟨pre, hp, _⟩ := hshape j
        rw [hcur] at hp
        exact ⟨pre, by simpa using hp, by simp⟩
      · simpa [setTh_ne _ _ hj] using hshape j
    · rw [hser]
      funext h
      by_cases hh : h = s.g
      · subst hh
        simp [abs, hown, hcur, runMicros]
      · simp only [abs, upd_ne _ _ hh]
        cases ho : σ.owner h with
        | none => rfl
        | some j =>
          have hj : j ≠ i := by
            intro e; subst e
            obtain ⟨s', ms', hc, hg'⟩ := hoc h j ho
            rw [hcur] at hc; cases hc
            exact hh hg'.symm
          simp [setTh_ne _ _ hj]
    · intro j
      by_cases hj : j = i
      · subst hj; simpa [pending] using hord j
      · simpa [setTh_ne _ _ hj] using hord j
  | rel i s hcur =>
    have hown : σ.owner s.g = some i := hco i s [] hcur
    refine ⟨?_, ?_, ?_, ?_, ?_, ?_⟩
    · intro g j hg
      by_cases hgg : g = s.g
      · subst hgg; simp at hg
      · have hg' : σ.owner g = some j := by simpa [upd_ne _ _ hgg] using hg
        have hj : j ≠ i := by
          intro e; subst e
          obtain ⟨s', ms', hc, hg''⟩ := hoc g j hg'
          rw [hcur] at hc; cases hc
          exact hgg hg''.symm
        simpa [setTh_ne _ _ hj] using hoc g j hg'
    · intro j s' ms' hc
      by_cases hj : j = i
      · subst hj; simp at hc
      · simp only [setTh_ne _ _ hj] at hc
        have := hco j s' ms' hc
        have hne : s'.g ≠ s.g := by
          intro e; rw [e, hown] at this
          exact hj (Option.some.inj this).symm
        simpa [upd_ne _ _ hne] using this
    · intro j
      by_cases hj : j = i
      · subst hj; simpa using hdisc j
      · simpa [setTh_ne _ _ hj] using hdisc j
    · intro j
      by_cases hj : j = i
      · subst hj
        obtain ⟨pre, hp, _⟩ := hshape j
        rw [hcur] at hp
        refine ⟨pre ++ [s], by simpa using hp, by simp⟩
      · simpa [setTh_ne _ _ hj] using hshape j
    · rw [hser]
      funext h
      by_cases hh : h = s.g
      · subst hh
        simp [abs, hown, hcur, runMicros]
      · simp only [abs, upd_ne _ _ hh]
        cases ho : σ.owner h with
        | none => rfl
        | some j =>
          have hj : j ≠ i := by
            intro e; subst e
            obtain ⟨s', ms', hc, hg'⟩ := hoc h j ho
            rw [hcur] at hc; cases hc
            exact hh hg'.symm
          simp [setTh_ne _ _ hj]
    · intro j
      by_cases hj : j = i
      · subst hj; simpa [pending] using hord j
      · simpa [setTh_ne _ _ hj] using hord j

theorem inv_reach (l0 : L) (st0 : Store G D) (progs : Nat → List (Op G L D))
    (hd : ∀ i, ∀ op ∈ progs i, Disciplined op) (σ : State G L D) (hr : Reach l0 (init l0 st0 progs) σ) :
    Inv l0 st0 progs σ := by
  induction hr with
  | refl => exact inv_init l0 st0 progs hd
  | step _ hs ih => exact inv_step l0 st0 progs _ _ ih hs

end
end PV.Lemmas.Atomic
