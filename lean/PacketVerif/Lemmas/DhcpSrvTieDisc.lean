/-
  Tie of the regenerated handleDiscover of the DHCPv4 server to Model/Dhcp4Srv.lean (`discover`).
-/
import PacketVerif.Lemmas.DhcpSrvTieD
import PacketVerif.Lemmas.DhcpSrvTieAlloc
namespace PV.Lemmas.DhcpSrvTie
open PV PV.Model.Dhcp4Srv PV.Model.DhcpSrvGo PV.Lemmas.Dhcp4Srv PV.Gen.DhcpSrv

/-- the table holds an entry under `c` -/
def Present (s : State) (c : Cid) : Prop := (getLease s.table c).isSome = true

theorem present_of_has {s : State} {c : Cid} {l : Lease} (h : Has s c l) : Present s c := by
  unfold Present; rw [h]; rfl

theorem has_of_present {s : State} {c : Cid} (h : Present s c) : Has s c (L s c) := by
  unfold Present at h; unfold Has L
  cases hg : getLease s.table c with
  | none => rw [hg] at h; cases h
  | some l => rfl

@[simp] theorem present_updL (s : State) (c : Cid) (f : Lease → Lease) : Present (updL s c f) c ↔ Present s c := by
  unfold Present updL
  simp only [getLease_map_upd, BEq.rfl, if_true, Option.isSome_map]

@[simp] theorem present_setCursor (s : State) (c : Cid) (sub : SubId) (n : IP) : Present (setCursor s sub n) c ↔ Present s c := by
  unfold Present; rw [setCursor_table]

theorem L_updL {s : State} {c : Cid} (h : Present s c) (f : Lease → Lease) : L (updL s c f) c = f (L s c) :=
  has_L (has_updL (has_of_present h) f)

theorem setCursor_next (s : State) (sub : SubId) (n : IP) :
    (setCursor s sub n).next1 = (match sub with | .net1 => n | .net2 => s.next1)
      ∧ (setCursor s sub n).next2 = (match sub with | .net1 => s.next2 | .net2 => n) := by
  cases sub <;> exact ⟨rfl, rfl⟩

/-! ### the statement blocks of the generated function (verbatim copies, tied by `handleDiscover_unfold : … := rfl`) -/

def discA (now : Nat) (m : Msg) (s : State) (lease : Cid) : State :=
  if ((L s lease).state == LState.allocated) then
    let s := updL s lease (fun l => { l with offer := AddrV.toOpt (AddrV.ofOpt (L s lease).ip) })
    let s :=
      if (decide ((L s lease).expiry < now)) then
        let s := updL s lease (fun l => { l with offer := AddrV.toOpt AddrV.invalid })
        s
      else
        s
    s
  else
    if ((L s lease).state == LState.discover) then
      let s :=
        if (!((L s lease).xid == m.xid)) then
          let s := updL s lease (fun l => { l with offer := AddrV.toOpt AddrV.invalid })
          s
        else
          s
      s
    else
      s

def discB (cfg : Cfg) (s : State) (lease : Cid) : State :=
  if (Handler_inUse cfg s lease (AddrV.ofOpt (L s lease).offer)) then
    let s := updL s lease (fun l => { l with offer := AddrV.toOpt AddrV.invalid })
    s
  else
    s

def discFin (cfg : Cfg) (m : Msg) (s : State) (lease : Cid) : Option (State × Option Reply) :=
  let s := updL s lease (fun l => { l with state := LState.discover })
  let s := updL s lease (fun l => { l with xid := m.xid })
  let opts := (((L s lease).sub, none) : OptsV)
  let opts : OptsV := (opts.1, some (cfg.sub (L s lease).sub).dur)
  let ret := (some (encodeReply cfg m RType.offer (AddrV.ofOpt (L s lease).offer) opts))
  some (s, ret)

theorem handleDiscover_unfold (cfg : Cfg) (now fuel : Nat) (s : State) (m : Msg) :
    Handler_handleDiscover cfg now fuel s m =
      (let r := Handler_findOrCreate cfg s (getClientID cfg s m) m.chaddr
       let sB := discB cfg (discA now m r.1 r.2) r.2
       if (!((AddrV.ofOpt (L sB r.2).offer) != AddrV.invalid)) then
         match Handler_allocIPOffer cfg fuel sB r.2 (addrFromSlice (optBytes m.reqOpt)) with
         | none => none
         | some ra => if ra.2 then some (Handler_delete cfg ra.1 r.2, none) else discFin cfg m ra.1 r.2
       else discFin cfg m sB r.2) := rfl

/-- the model's lease after the `switch lease.State` block -/
def laOf (now : Nat) (m : Msg) (l0 : Lease) : Lease :=
  match l0.state with
  | .allocated => { l0 with offer := if l0.expiry < now then none else l0.ip }
  | .discover => if l0.xid != m.xid then { l0 with offer := none } else l0
  | .free => l0

theorem discA_spec (now : Nat) (m : Msg) (s1 : State) (c : Cid) (hp : Present s1 c) :
    L (discA now m s1 c) c = laOf now m (L s1 c) ∧ Present (discA now m s1 c) c ∧ Frame c s1 (discA now m s1 c)
      ∧ (discA now m s1 c).next1 = s1.next1 ∧ (discA now m s1 c).next2 = s1.next2
      ∧ (KeysUnique s1.table → KeysUnique (discA now m s1 c).table) := by
  unfold discA
  have hp1 : Present (updL s1 c (fun l => { l with offer := AddrV.toOpt (AddrV.ofOpt (L s1 c).ip) })) c := (present_updL ..).2 hp
  have hcases : (L s1 c).state = .free ∨ (L s1 c).state = .discover ∨ (L s1 c).state = .allocated := by
    cases (L s1 c).state <;> simp
  rcases hcases with hst | hst | hst
  · -- free
    have e1 : ((L s1 c).state == LState.allocated) = false := by rw [hst]; rfl
    have e2 : ((L s1 c).state == LState.discover) = false := by rw [hst]; rfl
    rw [e1, e2]
    simp only [Bool.false_eq_true, if_false]
    refine ⟨?_, hp, frame_refl c s1, (by first | rfl | trivial), (by first | rfl | trivial), id⟩
    unfold laOf; rw [hst]
  · -- discover
    have e1 : ((L s1 c).state == LState.allocated) = false := by rw [hst]; rfl
    have e2 : ((L s1 c).state == LState.discover) = true := by rw [hst]; rfl
    rw [e1, e2]
    simp only [Bool.false_eq_true, if_false, if_true]
    by_cases hx : (L s1 c).xid = m.xid
    · have h1 : (!((L s1 c).xid == m.xid)) = false := by simp [hx]
      rw [h1]
      simp only [Bool.false_eq_true, if_false]
      refine ⟨?_, hp, frame_refl c s1, (by first | rfl | trivial), (by first | rfl | trivial), id⟩
      unfold laOf; rw [hst]; simp [hx]
    · have h1 : (!((L s1 c).xid == m.xid)) = true := by simpa using hx
      rw [h1]
      simp only [if_true]
      refine ⟨?_, (present_updL ..).2 hp, frame_updL (frame_refl c s1) _, (by first | rfl | trivial), (by first | rfl | trivial), keysUnique_updL c _⟩
      show L (updL s1 c _) c = _
      rw [L_updL hp]
      unfold laOf; rw [hst]; simp [hx]
  · -- allocated
    have e1 : ((L s1 c).state == LState.allocated) = true := by rw [hst]; rfl
    rw [e1]
    by_cases he : (L s1 c).expiry < now
    · have he' : decide ((L (updL s1 c (fun l => { l with offer := AddrV.toOpt (AddrV.ofOpt (L s1 c).ip) })) c).expiry < now) = true := by
        rw [L_updL hp]; simpa using he
      simp only [if_true]
      rw [he']
      simp only [if_true]
      refine ⟨?_, (present_updL ..).2 hp1, frame_updL (frame_updL (frame_refl c s1) _) _, (by first | rfl | trivial), (by first | rfl | trivial), fun h => keysUnique_updL c _ (keysUnique_updL c _ h)⟩
      show L (updL (updL s1 c _) c _) c = _
      rw [L_updL hp1, L_updL hp]
      unfold laOf; rw [hst]; simp [he]
    · have he' : decide ((L (updL s1 c (fun l => { l with offer := AddrV.toOpt (AddrV.ofOpt (L s1 c).ip) })) c).expiry < now) = false := by
        rw [L_updL hp]; simpa using he
      simp only [if_true]
      rw [he']
      simp only [Bool.false_eq_true, if_false]
      refine ⟨?_, hp1, frame_updL (frame_refl c s1) _, (by first | rfl | trivial), (by first | rfl | trivial), keysUnique_updL c _⟩
      show L (updL s1 c _) c = _
      rw [L_updL hp]
      unfold laOf; rw [hst]; simp [he]

theorem frame_trans {c : Cid} {s s1 s2 : State} (h1 : Frame c s s1) (h2 : Frame c s1 s2) : Frame c s s2 :=
  ⟨h2.del.trans h1.del, h2.hosts.trans h1.hosts, h2.captured.trans h1.captured⟩

/-- the model's lease after the `inUse` test -/
def l1Of (s : State) (c : Cid) (la : Lease) : Lease :=
  if inUse s.table c la.offer || takenByOther s la.mac la.offer then { la with offer := none } else la

theorem discB_spec (cfg : Cfg) (s sA : State) (c : Cid) (hp : Present sA c) (hfr : Frame c s sA) (hu : KeysUnique sA.table) :
    L (discB cfg sA c) c = l1Of s c (L sA c) ∧ Present (discB cfg sA c) c ∧ Frame c sA (discB cfg sA c)
      ∧ (discB cfg sA c).next1 = sA.next1 ∧ (discB cfg sA c).next2 = sA.next2 ∧ KeysUnique (discB cfg sA c).table := by
  unfold discB l1Of
  rw [inUse_tie cfg sA hu c, inUse_frame hfr, takenByOther_frame hfr]
  by_cases h : (inUse s.table c (L sA c).offer || takenByOther s (L sA c).mac (L sA c).offer) = true
  · simp only [h, if_true, toOpt_invalid]
    exact ⟨L_updL hp _, (present_updL ..).2 hp, frame_updL (frame_refl c sA) _, (by first | rfl | trivial), (by first | rfl | trivial), keysUnique_updL c _ hu⟩
  · simp only [h, Bool.false_eq_true, if_false]
    exact ⟨trivial, hp, frame_refl c sA, (by first | rfl | trivial), (by first | rfl | trivial), hu⟩

/-- the model's final step: state `discover`, the transaction id, the OFFER -/
theorem discFin_spec (cfg : Cfg) (m : Msg) (s s2 : State) (c : Cid) (hp : Present s2 c) (hfr : Frame c s s2) :
    ∃ s3 r, discFin cfg m s2 c = some (s3, some r)
      ∧ touch s3 c = { table := setLease s.table c { L s2 c with state := .discover, xid := m.xid }, next1 := s2.next1, next2 := s2.next2,
                        hosts := s.hosts, captured := s.captured }
      ∧ r = mkReply cfg m .offer { L s2 c with state := .discover, xid := m.xid } (L s2 c).offer := by
  unfold discFin
  have hp1 : Present (updL s2 c (fun l => { l with state := LState.discover })) c := (present_updL ..).2 hp
  have hp2 : Present (updL (updL s2 c (fun l => { l with state := LState.discover })) c (fun l => { l with xid := m.xid })) c :=
    (present_updL ..).2 hp1
  refine ⟨_, _, rfl, ?_, ?_⟩
  · rw [touch_of_frame (frame_updL (frame_updL hfr _) _) (has_of_present hp2), L_updL hp1, L_updL hp]
    rfl
  · simp only [L_updL hp1, L_updL hp]
    exact encodeReply_mk cfg m .offer { L s2 c with state := .discover, xid := m.xid } (L s2 c).offer

/-! ### allocIPOffer reads the table through `inUse … c` and the session only -/

theorem available_frame (cfg : Cfg) {c : Cid} {s s2 : State} (h : Frame c s s2) (sub : SubId) (a : IP) :
    available cfg s2 c sub a = available cfg s c sub a := by
  unfold available
  rw [inUse_frame h, sessionKnows_frame h]

theorem allocIPOffer_frame (cfg : Cfg) {c : Cid} {s s2 : State} (h : Frame c s s2) (h1 : s2.next1 = s.next1) (h2 : s2.next2 = s.next2)
    (sub : SubId) (req : AddrV) : allocIPOffer cfg s2 c sub req = allocIPOffer cfg s c sub req := by
  unfold allocIPOffer
  have hav : available cfg s2 c sub = available cfg s c sub := funext (available_frame cfg h sub)
  have hcur : cursor s2 sub = cursor s sub := by cases sub <;> simp [cursor, h1, h2]
  rw [hav, hcur]

theorem state_ext {a b : State} (h1 : a.table = b.table) (h2 : a.next1 = b.next1) (h3 : a.next2 = b.next2)
    (h4 : a.hosts = b.hosts) (h5 : a.captured = b.captured) : a = b := by
  cases a; cases b; simp_all

theorem setCursor_fields (s : State) (sub : SubId) (n : IP) :
    (setCursor s sub n).hosts = s.hosts ∧ (setCursor s sub n).captured = s.captured := by
  cases sub <;> exact ⟨rfl, rfl⟩

theorem setCursor_next_congr {s s2 : State} (h1 : s2.next1 = s.next1) (h2 : s2.next2 = s.next2) (sub : SubId) (n : IP) :
    (setCursor s2 sub n).next1 = (setCursor s sub n).next1 ∧ (setCursor s2 sub n).next2 = (setCursor s sub n).next2 := by
  cases sub <;> simp [setCursor, h1, h2]

/-- the model's `discover` over the two intermediate leases -/
theorem discover_eq (cfg : Cfg) (s : State) (now : Nat) (m : Msg) :
    discover cfg s now m =
      (let c := clientId m
       let l1 := l1Of s c (laOf now m (findOrCreate s c m.chaddr))
       let fin (s : State) (l : Lease) : State × List Reply :=
         let l' := { l with state := .discover, xid := m.xid }
         ({ s with table := setLease s.table c l' }, [mkReply cfg m .offer l' l'.offer])
       match l1.offer with
       | some _ => fin s l1
       | none =>
         match allocIPOffer cfg s c l1.sub (addrFromSlice (optBytes m.reqOpt)) with
         | (some ip, cur) => fin (setCursor s l1.sub cur) { l1 with offer := some ip }
         | (none, cur) => ({ setCursor s l1.sub cur with table := delLease s.table c }, [])) := rfl

theorem handleDiscover_tie (cfg : Cfg) (now fuel : Nat) (s : State) (hu : KeysUnique s.table) (m : Msg)
    (hb : ∀ sub, (cfg.sub sub).bcast < 4294967296) (hf : ∀ sub, (cfg.sub sub).bcast ≤ fuel) :
    ∃ s' r, Handler_handleDiscover cfg now fuel s m = some (s', r)
      ∧ touch s' (clientId m) = touch (discover cfg s now m).1 (clientId m)
      ∧ r.toList = (discover cfg s now m).2 := by
  rw [handleDiscover_unfold, discover_eq]
  simp only [getClientID_tie]
  obtain ⟨_, _, hn1, hn2, _, h6⟩ := findOrCreate_fields cfg s (clientId m) m.chaddr
  have hfr1 := frame_foc cfg s (clientId m) m.chaddr
  have hhas1 := findOrCreate_has cfg s (clientId m) m.chaddr
  have hu1 := findOrCreate_keys cfg s hu (clientId m) m.chaddr
  rw [h6]
  generalize (Handler_findOrCreate cfg s (clientId m) m.chaddr).1 = s1 at *
  generalize clientId m = c at *
  have hl0 : L s1 c = findOrCreate s c m.chaddr := has_L hhas1
  obtain ⟨hLA, hpA, hfrA, hnA1, hnA2, huA⟩ := discA_spec now m s1 c (present_of_has hhas1)
  have hfrA' := frame_trans hfr1 hfrA
  obtain ⟨hLB, hpB, hfrB, hnB1, hnB2, huB⟩ := discB_spec cfg s (discA now m s1 c) c hpA hfrA' (huA hu1)
  have hfrB' := frame_trans hfrA' hfrB
  rw [hLA, hl0] at hLB
  have hB1 : (discB cfg (discA now m s1 c) c).next1 = s.next1 := by rw [hnB1, hnA1, hn1]
  have hB2 : (discB cfg (discA now m s1 c) c).next2 = s.next2 := by rw [hnB2, hnA2, hn2]
  generalize discB cfg (discA now m s1 c) c = sB at *
  generalize hl1 : l1Of s c (laOf now m (findOrCreate s c m.chaddr)) = l1 at *
  cases hoff : l1.offer with
  | some a =>
    have hc : (!((AddrV.ofOpt (L sB c).offer) != AddrV.invalid)) = false := by rw [hLB, hoff]; rfl
    simp only [hc, Bool.false_eq_true, if_false]
    obtain ⟨s3, r, hfin, hto, hr⟩ := discFin_spec cfg m s sB c hpB hfrB'
    refine ⟨s3, some r, hfin, ?_, ?_⟩
    · rw [hto, touch_set, hLB]
      exact state_ext (by simp [hoff]) hB1 hB2 rfl rfl
    · rw [hr, hLB]; simp [hoff]
  | none =>
    have hc : (!((AddrV.ofOpt (L sB c).offer) != AddrV.invalid)) = true := by rw [hLB, hoff]; rfl
    simp only [hc, if_true]
    rw [allocIPOffer_tie cfg fuel sB huB c _ (hb _) (hf _), hLB, allocIPOffer_frame cfg hfrB' hB1 hB2]
    cases hal : allocIPOffer cfg s c l1.sub (addrFromSlice (optBytes m.reqOpt)) with
    | mk o cur =>
      cases o with
      | some ip =>
        simp only [Bool.false_eq_true, if_false]
        have hp4 : Present (updL (setCursor sB l1.sub cur) c (fun l => { l with offer := some ip })) c :=
          (present_updL ..).2 ((present_setCursor ..).2 hpB)
        have hfr4 : Frame c s (updL (setCursor sB l1.sub cur) c (fun l => { l with offer := some ip })) :=
          frame_updL (frame_setCursor hfrB' _ _) _
        obtain ⟨s3, r, hfin, hto, hr⟩ := discFin_spec cfg m s _ c hp4 hfr4
        have hL4 : L (updL (setCursor sB l1.sub cur) c (fun l => { l with offer := some ip })) c = { l1 with offer := some ip } := by
          rw [L_updL ((present_setCursor ..).2 hpB), L_setCursor, hLB]
        refine ⟨s3, some r, hfin, ?_, ?_⟩
        · rw [hto, hL4]
          have hts := touch_set (setCursor s l1.sub cur) c { { l1 with offer := some ip } with state := .discover, xid := m.xid }
          rw [setCursor_table] at hts
          show _ = touch { setCursor s l1.sub cur with table := setLease (setCursor s l1.sub cur).table c _ } c
          rw [setCursor_table, hts]
          obtain ⟨g1, g2⟩ := setCursor_next_congr hB1 hB2 l1.sub cur
          obtain ⟨g3, g4⟩ := setCursor_fields s l1.sub cur
          exact state_ext rfl g1 g2 g3.symm g4.symm
        · rw [hr, hL4]; rfl
      | none =>
        simp only [if_true]
        refine ⟨_, none, rfl, ?_, rfl⟩
        rw [delete_tie, touch_del, touch_del, setCursor_table, hfrB'.del]
        obtain ⟨g1, g2⟩ := setCursor_next_congr hB1 hB2 l1.sub cur
        obtain ⟨g3, g4⟩ := setCursor_fields s l1.sub cur
        obtain ⟨g5, g6⟩ := setCursor_fields sB l1.sub cur
        exact state_ext rfl g1 g2 (by rw [g5, g3, hfrB'.hosts]) (by rw [g6, g4, hfrB'.captured])

end PV.Lemmas.DhcpSrvTie
