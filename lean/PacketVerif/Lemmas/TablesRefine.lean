/-
  Lemmas for C04 (refinement of the table model to the abstract host map) and C06.
  Host-level characterisation of every primitive: what `findHost` answers afterwards.
-/
import PacketVerif.Lemmas.Tables
import PacketVerif.Spec.HostMap
namespace PV.Lemmas.Tables
open PV PV.Model.Tables PV.Spec

/-! ### `findHost` after each primitive -/

theorem findHost_mapH (s : Sess) (g : HostRec → HostRec) (k : IP) :
    findHost (mapH s g) k = (findHost s k).map g := by
  unfold findHost mapH
  simp only [List.find?_map, Option.map_map]
  rfl

@[simp] theorem findHost_mapM (s : Sess) (g : MacRec → MacRec) (k : IP) : findHost (mapM s g) k = findHost s k := rfl

theorem findHost_updHost (s : Sess) (id : Nat) (f : HostRec → HostRec) (k : IP) :
    findHost (updHost s id f) k = (findHost s k).map (fun h => if h.id = id then f h else h) := by
  rw [updHost_eq, findHost_mapH]

@[simp] theorem findHost_updMac (s : Sess) (id : Nat) (f : MacRec → MacRec) (k : IP) :
    findHost (updMac s id f) k = findHost s k := rfl

theorem find?_congr' {α} {p q : α → Bool} : ∀ {l : List α}, (∀ a ∈ l, p a = q a) → l.find? p = l.find? q
  | [], _ => rfl
  | x :: l, h => by
    have hx := h x (List.mem_cons_self ..)
    have ih := find?_congr' (l := l) (fun a ha => h a (List.mem_cons_of_mem _ ha))
    simp [List.find?_cons, hx, ih]

theorem deleteHost_hosts (s : Sess) (ip : IP) : (deleteHost s ip).hosts = s.hosts.filter (fun p => p.1 != ip) := by
  unfold deleteHost
  cases hf : findHost s ip with
  | none =>
    simp only
    exact (filter_key_ne_self (findHost_none hf)).symm
  | some h =>
    simp only
    split
    · rfl
    · split <;> rfl

theorem findHost_filter_ne (s : Sess) (ip k : IP) :
    (s.hosts.filter (fun p => p.1 != ip)).find? (fun p => p.1 == k) =
      if k = ip then none else s.hosts.find? (fun p => p.1 == k) := by
  rw [List.find?_filter]
  by_cases h : k = ip
  · subst h
    simp only [if_true]
    apply List.find?_eq_none.2
    intro p _
    by_cases hp : p.1 = k <;> simp [hp]
  · simp only [h, if_false]
    apply find?_congr'
    intro p _
    by_cases hp : p.1 = k
    · subst hp; simp [h]
    · simp [hp]

theorem findHost_deleteHost (s : Sess) (ip k : IP) :
    findHost (deleteHost s ip) k = if k = ip then none else findHost s k := by
  unfold findHost
  rw [deleteHost_hosts, findHost_filter_ne]
  split <;> rfl

theorem findHost_linkHost (s1 : Sess) (e : MacRec) (ip : IP) (now : Int) (manuf : String) (k : IP) :
    findHost (linkHost s1 e ip now manuf) k =
      if k = ip then some (newHost s1 e ip now manuf) else findHost s1 k := by
  unfold findHost linkHost
  simp only [List.find?_append, findHost_filter_ne]
  by_cases h : k = ip
  · subst h; simp
  · have : (ip == k) = false := by simp; exact fun e => h e.symm
    simp [h, this]

theorem macFindOrCreate_hosts (s : Sess) (mac : MAC) : (macFindOrCreate s mac).1.hosts = s.hosts := by
  rcases macFindOrCreate_cases s mac with ⟨e, _, h⟩ | ⟨_, h⟩ <;> rw [h]

theorem findHost_createHost (s : Sess) (mac : MAC) (ip : IP) (now : Int) (manuf : String) (k : IP) :
    findHost (createHost s mac ip now manuf).1 k =
      if k = ip then some (newHost (macFindOrCreate s mac).1 (macFindOrCreate s mac).2 ip now manuf)
      else findHost s k := by
  rw [createHost_eq]
  simp only [findHost_linkHost]
  split
  · rfl
  · unfold findHost; rw [macFindOrCreate_hosts]

/-! ### abstraction -/

def absE (h : HostRec) : AEntry := { mac := h.mac, online := h.online, lastSeen := h.lastSeen }

/-- the abstract map of a table state: what `FindIP` shows of every address -/
def abs (s : Sess) : HostMap := fun k => (findHost s k).map absE

theorem abs_mapH (s : Sess) {g : HostRec → HostRec} (hg : ∀ h, absE (g h) = absE h) : abs (mapH s g) = abs s := by
  funext k
  simp only [abs, findHost_mapH, Option.map_map]
  congr 1
  funext h
  exact hg h

theorem abs_updHost (s : Sess) (id : Nat) {f : HostRec → HostRec} (hf : ∀ h, absE (f h) = absE h) :
    abs (updHost s id f) = abs s := by
  rw [updHost_eq]
  apply abs_mapH
  intro h
  split
  · exact hf h
  · rfl

@[simp] theorem abs_updMac (s : Sess) (id : Nat) (f : MacRec → MacRec) : abs (updMac s id f) = abs s := rfl

theorem abs_macFindOrCreate (s : Sess) (mac : MAC) : abs (macFindOrCreate s mac).1 = abs s := by
  funext k
  simp only [abs, findHost, macFindOrCreate_hosts]

/-- "current IPv4" invariant: an online IPv4 host is the one its MAC entry records as current -/
def CurIP4 (s : Sess) : Prop :=
  ∀ p ∈ s.hosts, p.2.online = true → p.2.ip.is4 = true → ∀ m ∈ s.macs, m.id = p.2.entry → m.ip4 = p.2.ip


/-! ### entry membership facts under `Inv` -/

theorem mem_list_iff_entry {s : Sess} (hi : Inv s) {p : IP × HostRec} (hp : p ∈ s.hosts) {m : MacRec} (hm : m ∈ s.macs) :
    p.2.id ∈ m.hostList ↔ p.2.entry = m.id := by
  constructor
  · intro h
    obtain ⟨q, hq, e1, e2⟩ := hi.listed m hm _ h
    have : q = p := inj_of_nodup_map (fun q : IP × HostRec => q.2.id) hi.hidNodup hq hp e1
    subst this; exact e2
  · intro h
    obtain ⟨m2, hm2, e1, _, e3⟩ := hi.hostEntry p hp
    have : m2 = m := inj_of_nodup_map (fun x : MacRec => x.id) hi.midNodup hm2 hm (by rw [e1, h])
    subst this; exact e3

theorem entry_iff_mac {s : Sess} (hi : Inv s) {p : IP × HostRec} (hp : p ∈ s.hosts) {m : MacRec} (hm : m ∈ s.macs) :
    p.2.entry = m.id ↔ p.2.mac = m.mac := by
  obtain ⟨m2, hm2, e1, e2, _⟩ := hi.hostEntry p hp
  constructor
  · intro h
    have : m2 = m := inj_of_nodup_map (fun x : MacRec => x.id) hi.midNodup hm2 hm (by rw [e1, h])
    subst this; exact e2.symm
  · intro h
    have : m2 = m := inj_of_nodup_map (fun x : MacRec => x.mac) hi.macNodup hm2 hm (by rw [e2, h])
    subst this; exact e1.symm

theorem entry_eq_iff_mac_eq {s : Sess} (hi : Inv s) {p q : IP × HostRec} (hp : p ∈ s.hosts) (hq : q ∈ s.hosts) :
    p.2.entry = q.2.entry ↔ p.2.mac = q.2.mac := by
  obtain ⟨m, hm, e1, e2, _⟩ := hi.hostEntry q hq
  rw [← e1, ← e2]
  exact entry_iff_mac hi hp hm

theorem key_inj {s : Sess} (hi : Inv s) {p q : IP × HostRec} (hp : p ∈ s.hosts) (hq : q ∈ s.hosts) (e : p.1 = q.1) : p = q :=
  inj_of_nodup_map (fun q : IP × HostRec => q.1) hi.keysNodup hp hq e

theorem id_inj {s : Sess} (hi : Inv s) {p q : IP × HostRec} (hp : p ∈ s.hosts) (hq : q ∈ s.hosts) (e : p.2.id = q.2.id) : p = q :=
  inj_of_nodup_map (fun q : IP × HostRec => q.2.id) hi.hidNodup hp hq e

theorem mid_inj {s : Sess} (hi : Inv s) {m n : MacRec} (hm : m ∈ s.macs) (hn : n ∈ s.macs) (e : m.id = n.id) : m = n :=
  inj_of_nodup_map (fun x : MacRec => x.id) hi.midNodup hm hn e

theorem findHost_mem {s : Sess} (hi : Inv s) {k : IP} {x : HostRec} (h : findHost s k = some x) : (k, x) ∈ s.hosts ∧ x.ip = k :=
  ⟨findHost_some h, hi.keyIp _ (findHost_some h)⟩

/-! ### `CurIP4` preservation: primitives -/

theorem cur_mapH {s : Sess} (hj : CurIP4 s) {g : HostRec → HostRec} (hg : KeepH g)
    (hon : ∀ h, (g h).online = true → h.online = true) : CurIP4 (mapH s g) := by
  intro q hq hon' h4 m hm hme
  obtain ⟨p, hp, rfl⟩ := mem_mapH.1 hq
  simp only [(hg p.2).2.1, (hg p.2).2.2.2] at h4 hme ⊢
  exact hj p hp (hon _ hon') h4 m hm hme

theorem cur_mapM {s : Sess} (hj : CurIP4 s) {g : MacRec → MacRec} (hg : KeepM g)
    (hip : ∀ m, (g m).ip4 = m.ip4) : CurIP4 (mapM s g) := by
  intro p hp hon h4 q hq hqe
  obtain ⟨m, hm, rfl⟩ := mem_mapM.1 hq
  rw [hip]; rw [(hg m).1] at hqe
  exact hj p hp hon h4 m hm hqe

theorem cur_updHost {s : Sess} (hj : CurIP4 s) (id : Nat) {f : HostRec → HostRec} (hf : KeepH f)
    (hon : ∀ h, (f h).online = true → h.online = true) : CurIP4 (updHost s id f) := by
  rw [updHost_eq]
  refine cur_mapH hj hf.ite ?_
  intro h hh
  split at hh
  · exact hon _ hh
  · exact hh

theorem cur_updMac {s : Sess} (hj : CurIP4 s) (id : Nat) {f : MacRec → MacRec} (hf : KeepM f)
    (hip : ∀ m, (f m).ip4 = m.ip4) : CurIP4 (updMac s id f) := by
  rw [updMac_eq]
  refine cur_mapM hj hf.ite ?_
  intro m
  split
  · exact hip m
  · rfl

theorem cur_macFindOrCreate {s : Sess} (hi : Inv s) (hj : CurIP4 s) (mac : MAC) : CurIP4 (macFindOrCreate s mac).1 := by
  rcases macFindOrCreate_cases s mac with ⟨e, _, h⟩ | ⟨_, h⟩
  · rw [h]; exact hj
  · rw [h]
    intro p hp hon h4 m hm hme
    rcases List.mem_append.1 hm with hm | hm
    · exact hj p hp hon h4 m hm hme
    · simp only [List.mem_singleton] at hm
      subst hm
      obtain ⟨m', hm', h1, _⟩ := hi.hostEntry p hp
      have := hi.freshM m' hm'
      simp only [newMac] at hme
      omega

theorem linkG_ip4 (e hid now manuf) (m : MacRec) : (linkG e hid now manuf m).ip4 = m.ip4 := by
  unfold linkG; split <;> rfl

theorem cur_linkHost {s1 : Sess} (hj : CurIP4 s1) (e : MacRec) {ip : IP}
    (hn : ∀ p ∈ s1.hosts, p.1 ≠ ip) (now : Int) (manuf : String) : CurIP4 (linkHost s1 e ip now manuf) := by
  intro p hp hon h4 q hq hqe
  have hh : (linkHost s1 e ip now manuf).hosts = s1.hosts ++ [(ip, newHost s1 e ip now manuf)] := by
    unfold linkHost; simp only; rw [filter_key_ne_self hn]
  rw [hh] at hp
  unfold linkHost at hq
  simp only [List.mem_map] at hq
  obtain ⟨m, hm, rfl⟩ := hq
  rw [linkG_ip4]; rw [linkG_id] at hqe
  rcases List.mem_append.1 hp with hp | hp
  · exact hj p hp hon h4 m hm hqe
  · simp only [List.mem_singleton] at hp; subst hp
    simp [newHost] at hon

theorem cur_createHost {s : Sess} (hi : Inv s) (hj : CurIP4 s) (mac : MAC) {ip : IP} (hn : ∀ p ∈ s.hosts, p.1 ≠ ip)
    (now : Int) (manuf : String) : CurIP4 (createHost s mac ip now manuf).1 := by
  rw [createHost_eq]
  exact cur_linkHost (cur_macFindOrCreate hi hj mac) _ (by rw [macFindOrCreate_hosts]; exact hn) now manuf

theorem unlinkG_ip4 (a b) (m : MacRec) : (unlinkG a b m).ip4 = m.ip4 := by unfold unlinkG; split <;> rfl

theorem cur_deleteHost {s : Sess} (hi : Inv s) (hj : CurIP4 s) (ip : IP) : CurIP4 (deleteHost s ip) := by
  cases hf : findHost s ip with
  | none => unfold deleteHost; simp only [hf]; exact hj
  | some h =>
    have hd : CurIP4 (delState s ip h) := by
      intro p hp hon h4 q hq hqe
      unfold delState at hp hq
      simp only [List.mem_filter, List.mem_map] at hp hq
      obtain ⟨m, hm, rfl⟩ := hq
      rw [unlinkG_ip4]; rw [unlinkG_id] at hqe
      exact hj p hp.1 hon h4 m hm hqe
    rw [deleteHost_eq hi hf]
    cases macById (delState s ip h) h.entry with
    | none => exact hd
    | some m =>
      simp only
      split
      · intro p hp hon h4 q hq hqe
        exact hd p hp hon h4 q (List.mem_of_mem_eraseP hq) hqe
      · exact hd

theorem cur_foldl_deleteHost {s : Sess} (hi : Inv s) (hj : CurIP4 s) (l : List IP) : CurIP4 (l.foldl deleteHost s) := by
  induction l generalizing s with
  | nil => exact hj
  | cons i rest ih => exact ih (inv_deleteHost hi i) (cur_deleteHost hi hj i)

theorem cur_findOrCreateHost {s : Sess} (hi : Inv s) (hj : CurIP4 s) (mac : MAC) (ip : IP) (now : Int) (manuf : String) :
    CurIP4 (findOrCreateHost s mac ip now manuf).s := by
  unfold findOrCreateHost
  cases hf : s.hosts.find? (fun p => p.1 == ip) with
  | none =>
    simp only
    apply cur_createHost hi hj
    intro p hp e
    have := List.find?_eq_none.1 hf p hp
    simp [e] at this
  | some p =>
    obtain ⟨k, h⟩ := p
    simp only
    split
    · simp only
      exact cur_updMac (cur_updHost hj _ (by keepH) (by onSame)) _ (by keepM) (by intro m; rfl)
    · split
      · exact hj
      · simp only
        exact cur_createHost (inv_deleteHost hi ip) (cur_deleteHost hi hj ip) mac (deleteHost_no_key hi ip) now manuf


/-! ### `onlineTransition`: host-level effect -/

theorem macById_updMac (s : Sess) (id j : Nat) {f : MacRec → MacRec} (hf : ∀ m, (f m).id = m.id) :
    macById (updMac s id f) j = (macById s j).map (fun m => if m.id = id then f m else m) := by
  unfold macById updMac
  simp only [List.find?_map]
  congr 1
  apply find?_congr'
  intro m _
  simp only [Function.comp]
  split
  · rw [hf]
  · rfl

@[simp] theorem macById_updHost (s : Sess) (id j : Nat) (f : HostRec → HostRec) :
    macById (updHost s id f) j = macById s j := rfl

@[simp] theorem hostById_updMac (s : Sess) (id j : Nat) (f : MacRec → MacRec) :
    hostById (updMac s id f) j = hostById s j := rfl

theorem macById_setOnline (s : Sess) (id j : Nat) :
    macById (updMac s id (fun m => { m with online := true })) j =
      (macById s j).map (fun m => if m.id = id then { m with online := true } else m) :=
  macById_updMac s id j (fun _ => rfl)

/-- what `onlineTransition` of host `h` does to a host `x` -/
def onlG (h : HostRec) (x : HostRec) : HostRec :=
  if x.id = h.id then { x with online := true, dirty := true }
  else if h.ip.is4 ∧ x.ip.is4 ∧ x.mac = h.mac ∧ x.online then { x with online := false, dirty := true }
  else x

theorem onlineTransition_findHost {s : Sess} (hi : Inv s) (hj : CurIP4 s) {k : IP} {h : HostRec}
    (hp : (k, h) ∈ s.hosts) (hoff : h.online = false) (k' : IP) :
    findHost (onlineTransition s h.id) k' = (findHost s k').map (onlG h) := by
  have hb : hostById s h.id = some h := hostById_of_mem hi.hidNodup hp
  obtain ⟨m0, hm0, e1, e2, e3⟩ := hi.hostEntry (k, h) hp
  simp only at e1 e2 e3
  have hmb : macById s h.entry = some m0 := by rw [← e1]; exact macById_of_mem hi.midNodup hm0
  -- per-host equality is enough
  suffices hx : ∀ x, findHost s k' = some x →
      findHost (onlineTransition s h.id) k' = some (onlG h x) ∧ True by
    cases hf : findHost s k' with
    | some x => rw [(hx x hf).1]; rfl
    | none =>
      -- no host at k': none of the maps creates one
      unfold onlineTransition
      simp only [hb, hoff, Bool.false_eq_true, if_false]
      split
      · simp only [macById_updHost, macById_setOnline, hmb]
        simp only [Option.map_some, e1, if_true]
        split
        · rw [markSiblings_eq, findHost_mapH, findHost_updMac, findHost_updHost, findHost_updMac, hf]; rfl
        · rw [findHost_updHost, findHost_updMac, hf]; rfl
      · split <;> split <;> simp only [findHost_updMac, findHost_updHost, hf, Option.map_none]
  intro x hf
  refine ⟨?_, trivial⟩
  obtain ⟨hxm, hxk⟩ := findHost_mem hi hf
  have hne_of : x.id ≠ h.id → x.ip ≠ h.ip := by
    intro hne e
    have hk := hi.keyIp (k, h) hp
    simp only at hk
    have : (k', x) = (k, h) := key_inj hi hxm hp (by simp [← hxk, e, hk])
    simp only [Prod.mk.injEq] at this
    exact hne (by rw [this.2])
  have hmemlist : x.id ∈ m0.hostList ↔ x.mac = h.mac := by
    rw [mem_list_iff_entry hi hxm hm0, entry_iff_mac hi hxm hm0, e2]
  unfold onlineTransition
  simp only [hb, hoff, Bool.false_eq_true, if_false]
  by_cases h4 : h.ip.is4 = true
  · simp only [h4, if_true]
    simp only [macById_updHost, macById_setOnline, hmb]
    simp only [Option.map_some, e1, if_true]
    by_cases hne : h.ip = m0.ip4
    · simp only [hne, ne_eq, not_true_eq_false, if_false]
      rw [findHost_updHost, findHost_updMac, hf]
      simp only [Option.map_some, Option.some.injEq]
      unfold onlG
      by_cases hid : x.id = h.id
      · simp [hid]
      · simp only [hid, if_false]
        have : ¬ (h.ip.is4 = true ∧ x.ip.is4 = true ∧ x.mac = h.mac ∧ x.online = true) := by
          rintro ⟨_, hx4, hxmac, hxon⟩
          have hxe : x.entry = m0.id := (entry_iff_mac hi hxm hm0).2 (by rw [hxmac, e2])
          have := hj (k', x) hxm hxon hx4 m0 hm0 hxe.symm
          exact hne_of hid (by rw [← this, hne])
        simp [this]
    · have hne' : h.ip ≠ m0.ip4 := hne
      simp only [ne_eq, hne, not_false_eq_true, if_true]
      rw [markSiblings_eq, findHost_mapH, findHost_updMac, findHost_updHost, findHost_updMac, hf]
      simp only [Option.map_some, Option.some.injEq]
      unfold onlG
      by_cases hid : x.id = h.id
      · have : (k', x) = (k, h) := id_inj hi hxm hp hid
        simp only [Prod.mk.injEq] at this
        obtain ⟨_, rfl⟩ := this
        simp
      · simp only [hid, if_false]
        by_cases hc : x.mac = h.mac
        · simp [hmemlist.2 hc, hc, h4, hne_of hid]
        · have : ¬ x.id ∈ m0.hostList := fun hm => hc (hmemlist.1 hm)
          simp [this, hc]
  · simp only [h4, Bool.false_eq_true, if_false]
    have : findHost (updHost (updMac s h.entry fun m => { m with online := true }) h.id
        fun x => { x with online := true, dirty := true }) k' = some (onlG h x) := by
      rw [findHost_updHost, findHost_updMac, hf]
      simp only [Option.map_some, Option.some.injEq]
      unfold onlG
      by_cases hid : x.id = h.id
      · simp [hid]
      · simp [hid, h4]
    split <;> split <;> exact this


theorem mem_updMac {s : Sess} {id : Nat} {f : MacRec → MacRec} {q : MacRec} :
    q ∈ (updMac s id f).macs ↔ ∃ m ∈ s.macs, q = if m.id = id then f m else m := by
  rw [updMac_eq]; exact mem_mapM

@[simp] theorem updHost_macs (s : Sess) (id : Nat) (f : HostRec → HostRec) : (updHost s id f).macs = s.macs := rfl
@[simp] theorem markSiblings_macs (s : Sess) (l : List Nat) (ip : IP) : (markSiblings s l ip).macs = s.macs := rfl

theorem onlineTransition_macs {s : Sess} (hi : Inv s) {k : IP} {h : HostRec}
    (hp : (k, h) ∈ s.hosts) (hoff : h.online = false) :
    ∀ q ∈ (onlineTransition s h.id).macs, ∃ m ∈ s.macs, q.id = m.id ∧
      q.ip4 = if m.id = h.entry ∧ h.ip.is4 = true then h.ip else m.ip4 := by
  have hb : hostById s h.id = some h := hostById_of_mem hi.hidNodup hp
  obtain ⟨m0, hm0, e1, e2, e3⟩ := hi.hostEntry (k, h) hp
  simp only at e1 e2 e3
  have hmb : macById s h.entry = some m0 := by rw [← e1]; exact macById_of_mem hi.midNodup hm0
  intro q hq
  unfold onlineTransition at hq
  simp only [hb, hoff, Bool.false_eq_true, if_false] at hq
  by_cases h4 : h.ip.is4 = true
  · simp only [h4, if_true, macById_updHost, macById_setOnline, hmb, Option.map_some, e1] at hq
    by_cases hne : h.ip = m0.ip4
    · simp only [hne, ne_eq, not_true_eq_false, if_false, updHost_macs] at hq
      obtain ⟨m, hm, rfl⟩ := mem_updMac.1 hq
      refine ⟨m, hm, by split <;> rfl, ?_⟩
      by_cases hc : m.id = h.entry
      · have : m = m0 := mid_inj hi hm hm0 (by rw [hc, e1])
        subst this
        simp [hc, h4, hne]
      · simp [hc]
    · simp only [ne_eq, hne, not_false_eq_true, if_true, markSiblings_macs] at hq
      obtain ⟨m1, hm1, rfl⟩ := mem_updMac.1 hq
      simp only [updHost_macs] at hm1
      obtain ⟨m, hm, rfl⟩ := mem_updMac.1 hm1
      by_cases hc : m.id = h.entry
      · exact ⟨m, hm, by simp [hc], by simp [hc, h4]⟩
      · exact ⟨m, hm, by simp [hc], by simp [hc]⟩
  · simp only [h4, Bool.false_eq_true, if_false] at hq
    have base : ∀ q ∈ (updHost (updMac s h.entry fun m => { m with online := true }) h.id
        fun x => { x with online := true, dirty := true }).macs, ∃ m ∈ s.macs, q.id = m.id ∧ q.ip4 = m.ip4 := by
      intro q hq
      simp only [updHost_macs] at hq
      obtain ⟨m, hm, rfl⟩ := mem_updMac.1 hq
      exact ⟨m, hm, by split <;> rfl, by split <;> rfl⟩
    have step : ∀ (t : Sess) (f : MacRec → MacRec), (∀ m, (f m).id = m.id ∧ (f m).ip4 = m.ip4) →
        (∀ q ∈ t.macs, ∃ m ∈ s.macs, q.id = m.id ∧ q.ip4 = m.ip4) →
        ∀ q ∈ (updMac t h.entry f).macs, ∃ m ∈ s.macs, q.id = m.id ∧ q.ip4 = m.ip4 := by
      intro t f hf ht q hq
      obtain ⟨m1, hm1, rfl⟩ := mem_updMac.1 hq
      obtain ⟨m, hm, a, b⟩ := ht m1 hm1
      refine ⟨m, hm, ?_, ?_⟩
      · split
        · rw [(hf m1).1, a]
        · exact a
      · split
        · rw [(hf m1).2, b]
        · exact b
    have fin : ∃ m ∈ s.macs, q.id = m.id ∧ q.ip4 = m.ip4 := by
      split at hq <;> split at hq
      · exact step _ _ (by intro m; exact ⟨rfl, rfl⟩) (step _ _ (by intro m; exact ⟨rfl, rfl⟩) base) q hq
      · exact step _ _ (by intro m; exact ⟨rfl, rfl⟩) base q hq
      · exact step _ _ (by intro m; exact ⟨rfl, rfl⟩) base q hq
      · exact base q hq
    obtain ⟨m, hm, a, b⟩ := fin
    exact ⟨m, hm, a, by simp [h4, b]⟩

theorem cur_onlineTransition {s : Sess} (hi : Inv s) (hj : CurIP4 s) (hid : Nat) : CurIP4 (onlineTransition s hid) := by
  cases hb : hostById s hid with
  | none => unfold onlineTransition; simp only [hb]; exact hj
  | some h =>
    obtain ⟨k, hp, hidEq⟩ := hostById_some hb
    by_cases hon : h.online = true
    · unfold onlineTransition; simp only [hb, hon, if_true]; exact hj
    · have hoff : h.online = false := by simpa using hon
      subst hidEq
      have hi' := inv_onlineTransition hi h.id
      intro p' hp' hon' h4' q hq hqe
      have hfh : findHost (onlineTransition s h.id) p'.1 = some p'.2 := findHost_of_mem hi'.keysNodup hp'
      rw [onlineTransition_findHost hi hj hp hoff] at hfh
      cases hfx : findHost s p'.1 with
      | none => simp [hfx] at hfh
      | some x =>
        simp only [hfx, Option.map_some, Option.some.injEq] at hfh
        obtain ⟨hxm, hxk⟩ := findHost_mem hi hfx
        obtain ⟨m, hm, a, b⟩ := onlineTransition_macs hi hp hoff q hq
        rw [← hfh] at hon' h4' hqe ⊢
        unfold onlG at hon' h4' hqe ⊢
        by_cases hc : x.id = h.id
        · have : (p'.1, x) = (k, h) := id_inj hi hxm hp hc
          simp only [Prod.mk.injEq] at this
          obtain ⟨_, rfl⟩ := this
          simp only [if_true] at h4' hqe ⊢
          rw [b]
          have : m.id = x.entry := by rw [← a, hqe]
          simp [this, h4']
        · simp only [hc, if_false] at hon' h4' hqe ⊢
          split at hon'
          · simp at hon'
          · rename_i hnm
            simp only [hnm, if_false] at h4' hqe ⊢
            have hme : m.id = x.entry := by rw [← a, hqe]
            have hnot : ¬ (m.id = h.entry ∧ h.ip.is4 = true) := by
              rintro ⟨c1, c2⟩
              apply hnm
              refine ⟨c2, h4', ?_, hon'⟩
              exact (entry_eq_iff_mac_eq hi hxm hp).1 (by simp only; rw [← hme, c1])
            rw [b]
            simp only [hnot, if_false]
            exact hj _ hxm hon' h4' m hm hme


/-! ### `findOrCreateHostWithLock`: host-level effect -/

theorem hostById_none {s : Sess} {i : Nat} (h : hostById s i = none) : ∀ p ∈ s.hosts, p.2.id ≠ i := by
  unfold hostById at h
  simp only [Option.map_eq_none_iff] at h
  intro p hp e
  have := List.find?_eq_none.1 h p hp
  simp [e] at this

theorem printTablePanics_false {s : Sess} (hi : Inv s) : printTablePanics s = false := by
  unfold printTablePanics; rw [count_eq hi]; simp

theorem repeatOf_abs {s : Sess} (mac : MAC) (ip : IP) :
    repeatOf (abs s) mac ip = match findHost s ip with
      | some h0 => decide (h0.mac = mac) && h0.online
      | none => false := by
  unfold repeatOf abs
  cases findHost s ip <;> rfl

theorem foc_spec {s : Sess} (hi : Inv s) (mac : MAC) (ip : IP) (now : Int) (manuf : String) :
    (findOrCreateHost s mac ip now manuf).panic = false ∧
    ∃ h', findHost (findOrCreateHost s mac ip now manuf).s ip = some h' ∧
      h'.id = (findOrCreateHost s mac ip now manuf).host ∧ h'.mac = mac ∧ h'.lastSeen = now ∧
      h'.online = repeatOf (abs s) mac ip ∧
      ((∃ h0, findHost s ip = some h0 ∧ h0.mac = mac ∧ h' = { h0 with lastSeen := now }) ∨
       ((∀ h0, findHost s ip = some h0 → h0.mac ≠ mac) ∧ h'.online = false ∧ h'.dirty = true ∧ h'.names = {} ∧
          h'.manuf = manuf)) ∧
      (∀ k, k ≠ ip → findHost (findOrCreateHost s mac ip now manuf).s k = findHost s k) := by
  have hnew : ∀ (t : Sess), Inv t → findHost t ip = none → (∀ k, k ≠ ip → findHost t k = findHost s k) →
      (∀ h0, findHost s ip = some h0 → h0.mac ≠ mac) →
      ∃ h', findHost (createHost t mac ip now manuf).1 ip = some h' ∧ h'.id = (createHost t mac ip now manuf).2 ∧
        h'.mac = mac ∧ h'.lastSeen = now ∧ h'.online = repeatOf (abs s) mac ip ∧
        ((∃ h0, findHost s ip = some h0 ∧ h0.mac = mac ∧ h' = { h0 with lastSeen := now }) ∨
         ((∀ h0, findHost s ip = some h0 → h0.mac ≠ mac) ∧ h'.online = false ∧ h'.dirty = true ∧ h'.names = {} ∧
            h'.manuf = manuf)) ∧
        (∀ k, k ≠ ip → findHost (createHost t mac ip now manuf).1 k = findHost s k) := by
    intro t ht _ hk hmac
    refine ⟨newHost (macFindOrCreate t mac).1 (macFindOrCreate t mac).2 ip now manuf, ?_, ?_, ?_, rfl, ?_, ?_, ?_⟩
    · rw [findHost_createHost]; simp
    · rw [createHost_eq]; rfl
    · exact (inv_macFindOrCreate ht mac).2.2.1
    · rw [repeatOf_abs]
      cases hf : findHost s ip with
      | none => rfl
      | some h0 => simp [newHost, hmac h0 hf]
    · right; exact ⟨hmac, rfl, rfl, rfl, rfl⟩
    · intro k hk'
      rw [findHost_createHost]; simp only [hk', if_false]; exact hk k hk'
  unfold findOrCreateHost
  cases hf : s.hosts.find? (fun p => p.1 == ip) with
  | none =>
    have hfn : findHost s ip = none := by unfold findHost; rw [hf]; rfl
    simp only
    exact ⟨trivial, hnew s hi hfn (fun _ _ => rfl) (by intro h0 h; rw [hfn] at h; cases h)⟩
  | some p =>
    obtain ⟨k0, h0⟩ := p
    have hfs : findHost s ip = some h0 := by unfold findHost; rw [hf]; rfl
    obtain ⟨hpm, hk0⟩ := findHost_mem hi hfs
    obtain ⟨m0, hm0, e1, e2, _⟩ := hi.hostEntry (ip, h0) hpm
    simp only at e1 e2
    have hmb : macById s h0.entry = some m0 := by rw [← e1]; exact macById_of_mem hi.midNodup hm0
    simp only [hmb, Option.map_some, Option.some.injEq, e2]
    by_cases hmac : h0.mac = mac
    · simp only [hmac, if_true]
      refine ⟨trivial, { h0 with lastSeen := now }, ?_, rfl, hmac, rfl, ?_, ?_, ?_⟩
      · rw [findHost_updMac, findHost_updHost, hfs]; simp
      · rw [repeatOf_abs, hfs]; simp [hmac]
      · left; exact ⟨h0, hfs, hmac, rfl⟩
      · intro k hk
        rw [findHost_updMac, findHost_updHost]
        cases hfk : findHost s k with
        | none => rfl
        | some x =>
          obtain ⟨hxm, _⟩ := findHost_mem hi hfk
          have : x.id ≠ h0.id := by
            intro e
            have := id_inj hi hxm hpm e
            simp only [Prod.mk.injEq] at this
            exact hk this.1
          simp [this]
    · simp only [hmac, if_false, printTablePanics_false hi, Bool.false_eq_true]
      refine ⟨trivial, ?_⟩
      apply hnew (deleteHost s ip) (inv_deleteHost hi ip)
      · rw [findHost_deleteHost]; simp
      · intro k hk; rw [findHost_deleteHost]; simp [hk]
      · intro h0' hh; rw [hfs] at hh; cases hh; exact hmac

/-! ### `makeOffline`: host-level effect -/

def offG (l : List Nat) (x : HostRec) : HostRec :=
  if x.id ∈ l then { x with online := false, dirty := false } else x

theorem findHost_makeOffline (s : Sess) (i : Nat) (k : IP) :
    findHost (makeOffline s i).1 k = (findHost s k).map (offG [i]) := by
  unfold makeOffline
  cases hb : hostById s i with
  | none =>
    simp only
    cases hf : findHost s k with
    | none => rfl
    | some x =>
      have := hostById_none hb _ (findHost_some hf)
      simp only at this
      simp [offG, this]
  | some h =>
    simp only
    have : findHost (updHost s i fun x => { x with online := false, dirty := false }) k =
        (findHost s k).map (offG [i]) := by
      rw [findHost_updHost]
      congr 1
      funext x
      simp [offG]
    split
    · exact this
    · exact this

theorem offG_offG (i : Nat) (l : List Nat) (x : HostRec) : offG l (offG [i] x) = offG (i :: l) x := by
  unfold offG
  by_cases h1 : x.id = i
  · by_cases h2 : x.id ∈ l <;> simp [h1]
  · by_cases h2 : x.id ∈ l <;> simp [h1, h2]

theorem findHost_makeOfflineAll (s : Sess) (l : List Nat) (k : IP) :
    findHost (makeOfflineAll s l).1 k = (findHost s k).map (offG l) := by
  induction l generalizing s with
  | nil =>
    simp only [makeOfflineAll]
    cases findHost s k <;> simp [offG]
  | cons i rest ih =>
    unfold makeOfflineAll
    simp only
    rw [ih, findHost_makeOffline, Option.map_map]
    congr 1
    funext x
    exact offG_offG i rest x

theorem cur_makeOffline {s : Sess} (hj : CurIP4 s) (i : Nat) : CurIP4 (makeOffline s i).1 := by
  unfold makeOffline
  split
  · exact hj
  · simp only
    have h1 := cur_updHost hj i (f := fun x => { x with online := false, dirty := false }) (by keepH)
      (by intro h hh; simp at hh)
    split
    · exact h1
    · exact cur_updMac h1 _ (by keepM) (by intro m; rfl)

theorem cur_makeOfflineAll {s : Sess} (hj : CurIP4 s) (l : List Nat) : CurIP4 (makeOfflineAll s l).1 := by
  induction l generalizing s with
  | nil => exact hj
  | cons i rest ih => unfold makeOfflineAll; exact ih (cur_makeOffline hj i)


/-! ### the creation predicate -/

theorem hostEvent_eq_seen (c : Cfg) (ev : FrameEv) : hostEvent c ev = Spec.seen c ev := by
  unfold hostEvent Spec.seen
  have hu : isUnicastMAC ev.srcMAC = Spec.unicast ev.srcMAC := by
    unfold isUnicastMAC Spec.unicast; rfl
  rw [hu]
  cases hk : ev.kind <;> cases hb : Spec.unicast ev.srcMAC <;> simp

/-! ### abstract effect of the "seen" path -/

theorem abs_onlineTransition {t : Sess} (hi : Inv t) (hj : CurIP4 t) {ip : IP} {h : HostRec}
    (hp : (ip, h) ∈ t.hosts) (hoff : h.online = false) :
    abs (onlineTransition t h.id) = fun k =>
      if k = ip then some { mac := h.mac, online := true, lastSeen := h.lastSeen }
      else (abs t k).map (fun e => if ip.is4 = true ∧ k.is4 = true ∧ e.mac = h.mac then { e with online := false } else e) := by
  funext k
  have hip : h.ip = ip := hi.keyIp _ hp
  simp only [abs, onlineTransition_findHost hi hj hp hoff]
  by_cases hk : k = ip
  · subst hk
    have := findHost_of_mem hi.keysNodup hp
    simp only at this
    simp [this, onlG, absE]
  · simp only [hk, if_false]
    cases hf : findHost t k with
    | none => rfl
    | some x =>
      obtain ⟨hxm, hxk⟩ := findHost_mem hi hf
      have hid : x.id ≠ h.id := by
        intro e
        have := id_inj hi hxm hp e
        simp only [Prod.mk.injEq] at this
        exact hk this.1
      simp only [Option.map_some, Option.some.injEq, onlG, hid, if_false, hip, hxk, absE]
      by_cases hc : ip.is4 = true ∧ k.is4 = true ∧ x.mac = h.mac
      · by_cases hon : x.online = true
        · simp [hc, hon]
        · have : x.online = false := by simpa using hon
          simp [hc, this]
      · have : ¬ (ip.is4 = true ∧ k.is4 = true ∧ x.mac = h.mac ∧ x.online = true) := fun ⟨a, b, c', _⟩ => hc ⟨a, b, c'⟩
        simp [hc, this]

/-- the table side of "address `ip` seen for `mac`": find-or-create, then the online transition if
    the host is not online -/
def seeModel (s : Sess) (mac : MAC) (ip : IP) (now : Int) (manuf : String) : Sess :=
  match hostById (findOrCreateHost s mac ip now manuf).s (findOrCreateHost s mac ip now manuf).host with
  | none => (findOrCreateHost s mac ip now manuf).s
  | some h =>
    if h.online then (findOrCreateHost s mac ip now manuf).s
    else onlineTransition (findOrCreateHost s mac ip now manuf).s (findOrCreateHost s mac ip now manuf).host

theorem abs_foc {s : Sess} (hi : Inv s) (mac : MAC) (ip : IP) (now : Int) (manuf : String) :
    abs (findOrCreateHost s mac ip now manuf).s = fun k =>
      if k = ip then some { mac := mac, online := repeatOf (abs s) mac ip, lastSeen := now } else abs s k := by
  obtain ⟨_, h', f1, _, f3, f4, f5, _, f7⟩ := foc_spec hi mac ip now manuf
  funext k
  by_cases hk : k = ip
  · subst hk; simp [abs, f1, absE, f3, f4, f5]
  · simp [abs, f7 k hk, hk]

theorem abs_see_of {s t : Sess} (mac : MAC) (ip : IP) (now : Int) (hit : Inv t) (hjt : CurIP4 t)
    (habs : abs t = fun k => if k = ip then some { mac := mac, online := repeatOf (abs s) mac ip, lastSeen := now }
      else abs s k)
    {h' : HostRec} (hp : (ip, h') ∈ t.hosts) :
    abs (if h'.online then t else onlineTransition t h'.id) = Spec.see (abs s) mac ip now := by
  have hf := findHost_of_mem hit.keysNodup hp
  simp only at hf
  have hab : abs t ip = some (absE h') := by simp [abs, hf]
  rw [habs] at hab
  simp only [if_true, Option.some.injEq] at hab
  have hmac : h'.mac = mac := by have := congrArg AEntry.mac hab; simpa [absE] using this.symm
  have hon : h'.online = repeatOf (abs s) mac ip := by have := congrArg AEntry.online hab; simpa [absE] using this.symm
  have hls : h'.lastSeen = now := by have := congrArg AEntry.lastSeen hab; simpa [absE] using this.symm
  funext k
  unfold Spec.see
  by_cases hrep : h'.online = true
  · simp only [hrep, if_true, habs]
    by_cases hk : k = ip
    · simp [hk, ← hon, hrep]
    · simp only [hk, if_false, ← hon, hrep]
      cases abs s k <;> simp
  · have hoff : h'.online = false := by simpa using hrep
    simp only [hoff, Bool.false_eq_true, if_false]
    rw [abs_onlineTransition hit hjt hp hoff, habs]
    by_cases hk : k = ip
    · simp [hk, hmac, hls]
    · simp only [hk, if_false, ← hon, hoff, hmac]
      cases abs s k with
      | none => simp
      | some e => by_cases hc : ip.is4 = true ∧ k.is4 = true ∧ e.mac = mac <;> simp [hc]

theorem seeModel_facts {s : Sess} (hi : Inv s) (hj : CurIP4 s) (mac : MAC) (ip : IP) (now : Int) (manuf : String) :
    abs (seeModel s mac ip now manuf) = Spec.see (abs s) mac ip now ∧
    Inv (seeModel s mac ip now manuf) ∧ CurIP4 (seeModel s mac ip now manuf) := by
  obtain ⟨_, h', f1, f2, _⟩ := foc_spec hi mac ip now manuf
  have hit := inv_findOrCreateHost hi mac ip now manuf
  have hjt := cur_findOrCreateHost hi hj mac ip now manuf
  obtain ⟨hpm, _⟩ := findHost_mem hit f1
  have hb : hostById (findOrCreateHost s mac ip now manuf).s (findOrCreateHost s mac ip now manuf).host = some h' := by
    rw [← f2]; exact hostById_of_mem hit.hidNodup hpm
  unfold seeModel
  simp only [hb]
  refine ⟨?_, ?_, ?_⟩
  · rw [← f2]; exact abs_see_of mac ip now hit hjt (abs_foc hi mac ip now manuf) hpm
  · split
    · exact hit
    · exact inv_onlineTransition hit _
  · split
    · exact hjt
    · exact cur_onlineTransition hit hjt _

theorem parse_eq_seeModel {s : Sess} (hi : Inv s) (c : Cfg) (ev : FrameEv) (now : Int) (manuf : String)
    {mac : MAC} {ip : IP} (he : hostEvent c ev = some (mac, ip)) :
    (parse c s ev now manuf).s = seeModel s mac ip now manuf := by
  unfold parse seeModel
  simp only [he, (foc_spec hi mac ip now manuf).1, Bool.false_eq_true, if_false]
  cases hostById (findOrCreateHost s mac ip now manuf).s (findOrCreateHost s mac ip now manuf).host with
  | none => rfl
  | some h =>
    simp only
    split <;> rfl


/-! ### notify / name updates leave the abstract map alone -/

theorem abs_makeOfflineAll_of_offline {s : Sess} (hi : Inv s) (l : List Nat)
    (hl : ∀ i ∈ l, ∀ v, hostById s i = some v → v.online = false) : abs (makeOfflineAll s l).1 = abs s := by
  funext k
  simp only [abs, findHost_makeOfflineAll]
  cases hf : findHost s k with
  | none => rfl
  | some x =>
    simp only [Option.map_some, Option.some.injEq, offG]
    split
    · rename_i hm
      have := hl _ hm x (hostById_of_mem hi.hidNodup (findHost_some hf))
      simp [absE, this]
    · rfl

theorem notifyHost_facts {s : Sess} (hi : Inv s) (hj : CurIP4 s) (hid : Nat) (flag : Bool) :
    abs (notifyHost s hid flag).1 = abs s ∧ CurIP4 (notifyHost s hid flag).1 := by
  unfold notifyHost
  cases hb : hostById s hid with
  | none => exact ⟨rfl, hj⟩
  | some h =>
    simp only
    split
    · exact ⟨rfl, hj⟩
    · have hoffl : ∀ i ∈ (if flag = true ∧ h.ip.is4 = true then
          match macById s h.entry with
          | none => []
          | some m => m.hostList.filter (fun i => match hostById s i with
                                                  | some v => i != hid && !v.online && v.dirty
                                                  | none => false)
          else ([] : List Nat)), ∀ v, hostById s i = some v → v.online = false := by
        intro i hi' v hv
        split at hi'
        · split at hi'
          · simp at hi'
          · simp only [List.mem_filter, hv] at hi'
            have := hi'.2
            simp only [Bool.and_eq_true, Bool.not_eq_eq_eq_not, Bool.not_true] at this
            exact this.1.2
        · simp at hi'
      generalize (if flag = true ∧ h.ip.is4 = true then _ else _ : List Nat) = offl at hoffl
      have h1 := abs_makeOfflineAll_of_offline hi offl hoffl
      have h2 := cur_makeOfflineAll hj offl
      split
      · exact ⟨h1, h2⟩
      · dsimp only
        exact ⟨by rw [abs_updHost _ _ (by intro h; rfl), h1], cur_updHost h2 _ (by keepH) (by onSame)⟩

theorem notifyOp_facts {s : Sess} (hi : Inv s) (hj : CurIP4 s) (host : Option Nat) (dhcp4 : Bool) (srcMAC : MAC) (flag : Bool) :
    abs (notifyOp s host dhcp4 srcMAC flag).1 = abs s ∧ CurIP4 (notifyOp s host dhcp4 srcMAC flag).1 := by
  unfold notifyOp
  cases host with
  | some hid => exact notifyHost_facts hi hj _ _
  | none =>
    simp only
    split
    · exact ⟨rfl, hj⟩
    · split
      · exact ⟨rfl, hj⟩
      · split
        · exact ⟨rfl, hj⟩
        · exact notifyHost_facts hi hj _ _

theorem updateName_facts {s : Sess} (hj : CurIP4 s) (hid : Nat) (k : NameKind) (n : NameEntry) :
    abs (updateName s hid k n) = abs s ∧ CurIP4 (updateName s hid k n) := by
  unfold updateName
  split
  · exact ⟨rfl, hj⟩
  · simp only
    split
    · exact ⟨by rw [abs_updMac, abs_updHost _ _ (by intro h; rfl)],
        cur_updMac (cur_updHost hj _ (by keepH) (by onSame)) _ (by keepM) (by intro m; rfl)⟩
    · exact ⟨abs_updHost _ _ (by intro h; rfl), cur_updHost hj _ (by keepH) (by onSame)⟩

theorem findHost_updateName (s : Sess) (hid : Nat) (k : NameKind) (n : NameEntry) (ip : IP) :
    (findHost (updateName s hid k n) ip).map (fun h => (h.id, h.ip, h.mac, h.entry, h.online, h.lastSeen)) =
      (findHost s ip).map (fun h => (h.id, h.ip, h.mac, h.entry, h.online, h.lastSeen)) := by
  unfold updateName
  split
  · rfl
  · simp only
    have : ∀ (r : NameEntry × Bool), (findHost (updHost s hid fun x =>
        { x with names := x.names.set k r.1, dirty := x.dirty || r.2 }) ip).map
          (fun h => (h.id, h.ip, h.mac, h.entry, h.online, h.lastSeen)) =
        (findHost s ip).map (fun h => (h.id, h.ip, h.mac, h.entry, h.online, h.lastSeen)) := by
      intro r
      rw [findHost_updHost, Option.map_map]
      congr 1
      funext h
      simp only [Function.comp]
      split <;> rfl
    split
    · rw [findHost_updMac]; exact this _
    · exact this _

/-! ### DHCPv4Update -/

theorem dhcpUpdate_facts {s : Sess} (hi : Inv s) (hj : CurIP4 s) (mac : MAC) (ip : IP) (name : NameEntry) (now : Int)
    (manuf : String) (hv : (!ip.isValid || ip.isUnspecified) = false) :
    abs (dhcpUpdate s mac ip name now manuf).1 = Spec.see (abs s) mac ip now ∧
    CurIP4 (dhcpUpdate s mac ip name now manuf).1 := by
  obtain ⟨hnp, h', f1, f2, _⟩ := foc_spec hi mac ip now manuf
  have hit := inv_findOrCreateHost hi mac ip now manuf
  have hjt := cur_findOrCreateHost hi hj mac ip now manuf
  have haf := abs_foc hi mac ip now manuf
  unfold dhcpUpdate
  simp only [hv, Bool.false_eq_true, if_false, hnp]
  generalize findOrCreateHost s mac ip now manuf = r at *
  -- state after the name update and the offer
  have hfu := findHost_updateName r.s r.host .dhcp4 name ip
  rw [f1] at hfu
  cases hfx : findHost (updateName r.s r.host .dhcp4 name) ip with
  | none => rw [hfx] at hfu; simp at hfu
  | some x =>
    rw [hfx] at hfu
    simp only [Option.map_some, Option.some.injEq, Prod.mk.injEq] at hfu
    have hhost : r.host = x.id := by rw [← f2, hfu.1]
    rw [hhost] at hfx ⊢
    have hiu := inv_updateName hit x.id .dhcp4 name
    obtain ⟨hau, hju⟩ := updateName_facts hjt x.id .dhcp4 name
    obtain ⟨hxm, _⟩ := findHost_mem hiu hfx
    have hbx : hostById (updateName r.s x.id .dhcp4 name) x.id = some x := hostById_of_mem hiu.hidNodup hxm
    simp only [hbx]
    have hi3 : Inv (updMac (updateName r.s x.id .dhcp4 name) x.entry (fun m => { m with ip4offer := x.ip })) :=
      inv_updMac hiu _ (by keepM) (by onSame)
    have hj3 : CurIP4 (updMac (updateName r.s x.id .dhcp4 name) x.entry (fun m => { m with ip4offer := x.ip })) :=
      cur_updMac hju _ (by keepM) (by intro m; rfl)
    have ha3 : abs (updMac (updateName r.s x.id .dhcp4 name) x.entry (fun m => { m with ip4offer := x.ip })) =
        fun k => if k = ip then some { mac := mac, online := repeatOf (abs s) mac ip, lastSeen := now } else abs s k := by
      rw [abs_updMac, hau]; exact haf
    have hsee := abs_see_of (s := s) mac ip now hi3 hj3 ha3 (h' := x) hxm
    have hi4 : Inv (if x.online = true then (updMac (updateName r.s x.id .dhcp4 name) x.entry (fun m => { m with ip4offer := x.ip }))
        else onlineTransition (updMac (updateName r.s x.id .dhcp4 name) x.entry (fun m => { m with ip4offer := x.ip })) x.id) := by
      split
      · exact hi3
      · exact inv_onlineTransition hi3 _
    have hj4 : CurIP4 (if x.online = true then (updMac (updateName r.s x.id .dhcp4 name) x.entry (fun m => { m with ip4offer := x.ip }))
        else onlineTransition (updMac (updateName r.s x.id .dhcp4 name) x.entry (fun m => { m with ip4offer := x.ip })) x.id) := by
      split
      · exact hj3
      · exact cur_onlineTransition hi3 hj3 _
    obtain ⟨n1, n2⟩ := notifyHost_facts hi4 hj4 x.id true
    exact ⟨by rw [n1, hsee], n2⟩

/-! ### purge -/

theorem findHost_foldl_deleteHost (s : Sess) (l : List IP) (k : IP) :
    findHost (l.foldl deleteHost s) k = if k ∈ l then none else findHost s k := by
  induction l generalizing s with
  | nil => simp
  | cons i rest ih =>
    rw [List.foldl_cons, ih, findHost_deleteHost]
    by_cases h1 : k ∈ rest
    · simp [h1]
    · by_cases h2 : k = i <;> simp [h1, h2]

theorem purge_facts {s : Sess} (hi : Inv s) (hj : CurIP4 s) (c : Cfg) (now : Int) :
    abs (purge c s now).1 = Spec.age c (abs s) now ∧ CurIP4 (purge c s now).1 := by
  unfold purge
  refine ⟨?_, cur_foldl_deleteHost (inv_makeOfflineAll hi _) (cur_makeOfflineAll hj _) _⟩
  funext k
  simp only [abs, findHost_foldl_deleteHost, findHost_makeOfflineAll, Spec.age]
  cases hf : findHost s k with
  | none => simp
  | some x =>
    obtain ⟨hxm, hxk⟩ := findHost_mem hi hf
    simp only [Option.map_some, absE]
    have hA : (k ∈ List.map (fun x => x.ip) (List.filter (fun e => !e.online && decide (e.lastSeen < now - c.purgeDL))
        (List.map (fun x => x.snd) s.hosts))) ↔ (x.online = false ∧ x.lastSeen < now - c.purgeDL) := by
      simp only [List.mem_map, List.mem_filter, Bool.and_eq_true, Bool.not_eq_eq_eq_not, Bool.not_true,
        decide_eq_true_eq, Prod.exists, exists_eq_right]
      constructor
      · rintro ⟨y, ⟨⟨ky, hy⟩, c1, c2⟩, e⟩
        have hyk := hi.keyIp _ hy
        simp only at hyk
        have : (ky, y) = (k, x) := key_inj hi hy hxm (by simp [← hyk, e])
        simp only [Prod.mk.injEq] at this
        obtain ⟨_, rfl⟩ := this
        exact ⟨c1, c2⟩
      · rintro ⟨c1, c2⟩
        exact ⟨x, ⟨⟨k, hxm⟩, c1, c2⟩, hxk⟩
    have hB : (x.id ∈ List.map (fun x => x.id) (List.filter (fun e => !(!e.online && decide (e.lastSeen < now - c.purgeDL)) &&
        (e.online && decide (e.lastSeen < now - c.offlineDL))) (List.map (fun x => x.snd) s.hosts))) ↔
        (¬ (x.online = false ∧ x.lastSeen < now - c.purgeDL) ∧ x.online = true ∧ x.lastSeen < now - c.offlineDL) := by
      simp only [List.mem_map, List.mem_filter, Bool.and_eq_true, Bool.not_eq_eq_eq_not, Bool.not_true,
        decide_eq_true_eq, Prod.exists, exists_eq_right, Bool.and_eq_false_imp, decide_eq_false_iff_not, not_and]
      constructor
      · rintro ⟨y, ⟨⟨ky, hy⟩, c1, c2⟩, e⟩
        have : (ky, y) = (k, x) := id_inj hi hy hxm e
        simp only [Prod.mk.injEq] at this
        obtain ⟨_, rfl⟩ := this
        exact ⟨c1, c2⟩
      · rintro ⟨c1, c2⟩
        exact ⟨x, ⟨⟨k, hxm⟩, c1, c2⟩, rfl⟩
    by_cases hcA : x.online = false ∧ x.lastSeen < now - c.purgeDL
    · have : k ∈ List.map (fun x => x.ip) (List.filter (fun e => !e.online && decide (e.lastSeen < now - c.purgeDL))
          (List.map (fun x => x.snd) s.hosts)) := hA.2 hcA
      simp [this, hcA.1, hcA.2]
    · have hnk : ¬ k ∈ List.map (fun x => x.ip) (List.filter (fun e => !e.online && decide (e.lastSeen < now - c.purgeDL))
          (List.map (fun x => x.snd) s.hosts)) := fun h => hcA (hA.1 h)
      simp only [hnk, if_false, Option.map_some, offG]
      by_cases hcB : x.online = true ∧ x.lastSeen < now - c.offlineDL
      · have := hB.2 ⟨hcA, hcB⟩
        simp only [this, if_true]
        simp [hcB.1, hcB.2, absE]
      · have hn : ¬ x.id ∈ List.map (fun x => x.id) (List.filter (fun e => !(!e.online && decide (e.lastSeen < now - c.purgeDL)) &&
            (e.online && decide (e.lastSeen < now - c.offlineDL))) (List.map (fun x => x.snd) s.hosts)) :=
          fun h => hcB (hB.1 h).2
        simp only [hn, if_false]
        have h1 : x.online = false → now - c.purgeDL ≤ x.lastSeen := by
          intro a; exact Int.not_lt.1 (fun b => hcA ⟨a, b⟩)
        simp only [absE]
        by_cases hon : x.online = true
        · have h2 : ¬ x.lastSeen < now - c.offlineDL := fun b => hcB ⟨hon, b⟩
          simp [hon, h2]
        · have hoff : x.online = false := by simpa using hon
          have h2 : ¬ x.lastSeen < now - c.purgeDL := Int.not_lt.2 (h1 hoff)
          simp [hoff, h2]


/-! ### single-host updates, `NewSession` -/

theorem abs_updHost_at {s : Sess} (hi : Inv s) {ip : IP} {h : HostRec} (hp : (ip, h) ∈ s.hosts) (f : HostRec → HostRec) :
    abs (updHost s h.id f) = fun k => if k = ip then some (absE (f h)) else abs s k := by
  funext k
  simp only [abs, findHost_updHost]
  by_cases hk : k = ip
  · subst hk
    have := findHost_of_mem hi.keysNodup hp
    simp only at this
    simp [this]
  · simp only [hk, if_false]
    cases hf : findHost s k with
    | none => rfl
    | some x =>
      obtain ⟨hxm, _⟩ := findHost_mem hi hf
      have : x.id ≠ h.id := by
        intro e
        have := id_inj hi hxm hp e
        simp only [Prod.mk.injEq] at this
        exact hk this.1
      simp [this]

/-- set host `h` and its MAC entry online and record `h.ip` as the entry's current IPv4, when no
    other host of that entry is an online IPv4 host -/
theorem cur_setBothOnline {s : Sess} (hi : Inv s) (hj : CurIP4 s) {ip : IP} {h : HostRec} (hp : (ip, h) ∈ s.hosts)
    (hother : ∀ q ∈ s.hosts, q.2.entry = h.entry → q.2.online = true → q.2.ip.is4 = true → q = (ip, h))
    {fH : HostRec → HostRec} {fM : MacRec → MacRec} (kH : KeepH fH) (kM : KeepM fM)
    (hM : ∀ m, (fM m).ip4 = h.ip) : CurIP4 (updMac (updHost s h.id fH) h.entry fM) := by
  intro p' hp' hon h4 q hq hqe
  obtain ⟨m, hm, rfl⟩ := mem_updMac.1 hq
  simp only [updHost_macs] at hm
  have hp'' : p' ∈ (updHost s h.id fH).hosts := hp'
  rw [updHost_eq] at hp''
  obtain ⟨p, hpm, rfl⟩ := mem_mapH.1 hp''
  simp only at hon h4 hqe ⊢
  by_cases hc : p.2.id = h.id
  · have : p = (ip, h) := id_inj hi hpm hp hc
    subst this
    simp only [if_true] at hon h4 hqe ⊢
    rw [(kH h).2.2.2] at hqe
    rw [(kH h).2.1]
    by_cases hc2 : m.id = h.entry
    · simp [hc2, hM]
    · simp [hc2] at hqe
  · simp only [hc, if_false] at hon h4 hqe ⊢
    by_cases hc2 : m.id = h.entry
    · simp only [hc2, if_true, (kM m).1] at hqe
      have := hother p hpm hqe.symm hon h4
      subst this
      exact absurd rfl hc
    · simp only [hc2, if_false] at hqe ⊢
      exact hj p hpm hon h4 m hm hqe

theorem cur_empty : CurIP4 Model.Tables.empty := by
  intro p hp; simp [Model.Tables.empty] at hp

theorem abs_empty : abs Model.Tables.empty = fun _ => none := rfl

theorem init_facts (c : Cfg) (now : Int) (mh mr : String) :
    abs (Model.Tables.init c now mh mr) = Spec.init c now ∧ (c.hostMAC ≠ c.routerMAC → CurIP4 (Model.Tables.init c now mh mr)) := by
  unfold Model.Tables.init
  -- our own host
  obtain ⟨_, h1, a1, a2, a3, _⟩ := foc_spec inv_empty c.hostMAC c.hostIP4 now mh
  have hi1 := inv_findOrCreateHost inv_empty c.hostMAC c.hostIP4 now mh
  have hj1 := cur_findOrCreateHost inv_empty cur_empty c.hostMAC c.hostIP4 now mh
  have ab1 := abs_foc inv_empty c.hostMAC c.hostIP4 now mh
  generalize findOrCreateHost Model.Tables.empty c.hostMAC c.hostIP4 now mh = r1 at *
  obtain ⟨hp1, _⟩ := findHost_mem hi1 a1
  have hb1 : hostById r1.s r1.host = some h1 := by rw [← a2]; exact hostById_of_mem hi1.hidNodup hp1
  have hoff1 : ∀ q ∈ r1.s.hosts, q.2.online = false := by
    intro q hq
    have := findHost_of_mem hi1.keysNodup hq
    have hq' : abs r1.s q.1 = some (absE q.2) := by simp [abs, this]
    rw [ab1] at hq'
    simp only [abs_empty] at hq'
    split at hq'
    · simp only [Option.some.injEq] at hq'
      have := congrArg AEntry.online hq'
      simp only [absE, repeatOf] at this
      exact this.symm
    · cases hq'
  have hiH : Inv (initHost c now r1) := inv_initHost hi1 c now
  have abH : abs (initHost c now r1) = fun k =>
      if k = c.hostIP4 then some { mac := c.hostMAC, online := true, lastSeen := now + year } else none := by
    unfold initHost
    simp only [hb1]
    rw [abs_updMac, abs_updHost_at hi1 hp1, ab1]
    funext k
    by_cases hk : k = c.hostIP4 <;> simp [hk, absE, a3, abs_empty]
  have hjH : CurIP4 (initHost c now r1) := by
    unfold initHost
    simp only [hb1]
    refine cur_setBothOnline hi1 hj1 hp1 ?_ (by keepH) (by keepM) (by intro m; rfl)
    intro q hq _ hon _
    rw [hoff1 q hq] at hon
    cases hon
  generalize initHost c now r1 = s1 at *
  -- the router
  obtain ⟨_, h2, b1, b2, b3, b4, _⟩ := foc_spec hiH c.routerMAC c.routerIP4 now mr
  have hi2 := inv_findOrCreateHost hiH c.routerMAC c.routerIP4 now mr
  have hj2 := cur_findOrCreateHost hiH hjH c.routerMAC c.routerIP4 now mr
  have ab2 := abs_foc hiH c.routerMAC c.routerIP4 now mr
  generalize findOrCreateHost s1 c.routerMAC c.routerIP4 now mr = r2 at *
  obtain ⟨hp2, _⟩ := findHost_mem hi2 b1
  have hb2 : hostById r2.s r2.host = some h2 := by rw [← b2]; exact hostById_of_mem hi2.hidNodup hp2
  unfold initRouter
  simp only [hb2]
  constructor
  · rw [abs_updMac, abs_updHost_at hi2 hp2, ab2, abH]
    funext k
    unfold Spec.init
    by_cases hk : k = c.routerIP4
    · simp [hk, absE, b3, b4]
    · simp [hk]
  · intro hne
    refine cur_setBothOnline hi2 hj2 hp2 ?_ (by keepH) (by keepM) (by intro m; rfl)
    intro q hq hqe hon _
    have hqmac : q.2.mac = c.routerMAC := by
      rw [← b3]; exact (entry_eq_iff_mac_eq hi2 hq hp2).1 hqe
    by_cases hk : q.1 = c.routerIP4
    · exact key_inj hi2 hq hp2 hk
    · exfalso
      have := findHost_of_mem hi2.keysNodup hq
      have hq' : abs r2.s q.1 = some (absE q.2) := by simp [abs, this]
      rw [ab2, abH] at hq'
      simp only [hk, if_false] at hq'
      split at hq'
      · simp only [Option.some.injEq] at hq'
        have := congrArg AEntry.mac hq'
        simp only [absE] at this
        exact hne (this.trans hqmac)
      · cases hq'


/-! ### one step -/

theorem step_facts {s : Sess} (hi : Inv s) (hj : CurIP4 s) (c : Cfg) (op : Op) :
    abs (Model.Tables.step c s op).1 = Spec.step c (abs s) op ∧ CurIP4 (Model.Tables.step c s op).1 := by
  cases op with
  | frame ev now manuf =>
    simp only [Model.Tables.step, Spec.step, ← hostEvent_eq_seen]
    cases he : hostEvent c ev with
    | none =>
      have : (parse c s ev now manuf).s = s := by unfold parse; simp only [he]
      rw [this]; exact ⟨rfl, hj⟩
    | some p =>
      obtain ⟨mac, ip⟩ := p
      rw [parse_eq_seeModel hi c ev now manuf he]
      obtain ⟨a, _, b⟩ := seeModel_facts hi hj mac ip now manuf
      exact ⟨a, b⟩
  | notify host dhcp4 srcMAC flag => exact notifyOp_facts hi hj host dhcp4 srcMAC flag
  | dhcpUpdate mac ip name now manuf =>
    simp only [Model.Tables.step, Spec.step]
    by_cases hv : (!ip.isValid || ip.isUnspecified) = true
    · have h1 : dhcpUpdate s mac ip name now manuf = (s, { err := some .invalidIP }) := by
        unfold dhcpUpdate; simp only [hv, if_true]
      have h2 : ¬ (ip.isValid = true ∧ ¬ ip.isUnspecified = true) := by
        intro ⟨a, b⟩
        simp [a] at hv
        exact b hv
      rw [h1]; simp only [h2, if_false]; exact ⟨trivial, hj⟩
    · have hv' : (!ip.isValid || ip.isUnspecified) = false := by simpa using hv
      have h2 : ip.isValid = true ∧ ¬ ip.isUnspecified = true := by
        simp only [Bool.or_eq_false_iff, Bool.not_eq_eq_eq_not, Bool.not_false] at hv'
        exact ⟨hv'.1, by simp [hv'.2]⟩
      simp only [h2, not_false_eq_true, and_self, if_true]
      exact dhcpUpdate_facts hi hj mac ip name now manuf hv'
  | setOffer mac ip name =>
    simp only [Model.Tables.step, Spec.step]
    exact ⟨by rw [abs_updMac, abs_macFindOrCreate],
      cur_updMac (cur_macFindOrCreate hi hj mac) _ (by keepM) (by intro m; rfl)⟩
  | capture mac =>
    simp only [Model.Tables.step, Spec.step]
    split
    · exact ⟨abs_macFindOrCreate s mac, cur_macFindOrCreate hi hj mac⟩
    · split
      · exact ⟨abs_macFindOrCreate s mac, cur_macFindOrCreate hi hj mac⟩
      · exact ⟨by rw [abs_updMac, abs_macFindOrCreate],
          cur_updMac (cur_macFindOrCreate hi hj mac) _ (by keepM) (by intro m; rfl)⟩
  | release mac =>
    simp only [Model.Tables.step, Spec.step]
    split
    · exact ⟨rfl, cur_updMac hj _ (by keepM) (by intro m; rfl)⟩
    · exact ⟨rfl, hj⟩
  | purge now => exact purge_facts hi hj c now
  | setLastSeen ip t =>
    simp only [Model.Tables.step, Spec.step]
    cases hf : findHost s ip with
    | none =>
      refine ⟨?_, hj⟩
      funext k
      by_cases hk : k = ip
      · subst hk; simp [abs, hf]
      · simp [hk]
    | some h =>
      obtain ⟨hpm, _⟩ := findHost_mem hi hf
      refine ⟨?_, cur_updHost hj _ (by keepH) (by onSame)⟩
      dsimp only
      rw [abs_updHost_at hi hpm]
      funext k
      by_cases hk : k = ip
      · subst hk; simp [abs, hf, absE]
      · simp [hk]
  | updateName host kind name => exact updateName_facts hj host kind name
  | printTable => exact ⟨rfl, hj⟩

/-! ### observable queries in terms of the abstract map -/

theorem findIP_abs (s : Sess) (ip : IP) : (findIP s ip).map absE = abs s ip := rfl

theorem getHosts_abs {s : Sess} (hi : Inv s) (mac : MAC) (ip : IP) (online : Bool) :
    (∃ h ∈ getHosts s, h.mac = mac ∧ h.ip = ip ∧ h.online = online) ↔
    (∃ e, abs s ip = some e ∧ e.mac = mac ∧ e.online = online) := by
  unfold getHosts
  constructor
  · rintro ⟨h, hm, rfl, rfl, rfl⟩
    obtain ⟨p, hp, rfl⟩ := List.mem_map.1 hm
    have := findHost_of_mem hi.keysNodup hp
    rw [← hi.keyIp p hp] at this
    exact ⟨absE p.2, by simp [abs, this], rfl, rfl⟩
  · rintro ⟨e, he, rfl, rfl⟩
    simp only [abs] at he
    cases hf : findHost s ip with
    | none => simp [hf] at he
    | some x =>
      simp only [hf, Option.map_some, Option.some.injEq] at he
      obtain ⟨hxm, hxk⟩ := findHost_mem hi hf
      exact ⟨x, List.mem_map.2 ⟨(ip, x), hxm, rfl⟩, by simp [← he, absE], hxk, by simp [← he, absE]⟩

theorem ipAddrs_abs {s : Sess} (hi : Inv s) (mac : MAC) (l : List (MAC × IP)) (hl : ipAddrs s mac = some l) (ip : IP) :
    (mac, ip) ∈ l ↔ ∃ e, abs s ip = some e ∧ e.mac = mac := by
  unfold ipAddrs at hl
  cases hm : findMAC s mac with
  | none => simp [hm] at hl
  | some m =>
    obtain ⟨hmm, hmac⟩ := findMAC_some hm
    simp only [hm, Option.map_some, Option.some.injEq] at hl
    subst hl
    simp only [List.mem_filterMap, Option.map_eq_some_iff, Prod.mk.injEq]
    constructor
    · rintro ⟨i, hi', x, hx, rfl, rfl⟩
      obtain ⟨k, hxm, _⟩ := hostById_some hx
      have hk := hi.keyIp _ hxm
      simp only at hk
      have := findHost_of_mem hi.keysNodup hxm
      simp only at this
      rw [← hk] at this
      exact ⟨absE x, by simp only [abs, this]; rfl, rfl⟩
    · rintro ⟨e, he, rfl⟩
      simp only [abs] at he
      cases hf : findHost s ip with
      | none => simp [hf] at he
      | some x =>
        simp only [hf, Option.map_some, Option.some.injEq] at he
        obtain ⟨hxm, hxk⟩ := findHost_mem hi hf
        have hxmac : x.mac = m.mac := by rw [hmac, ← he]; rfl
        have hin : x.id ∈ m.hostList :=
          (mem_list_iff_entry hi hxm hmm).2 ((entry_iff_mac hi hxm hmm).2 hxmac)
        exact ⟨x.id, hin, x, hostById_of_mem hi.hidNodup hxm, by rw [← he]; rfl, hxk⟩

/-- `FindMACEntry` finds an entry for every MAC that owns a tracked address -/
theorem findMACEntry_of_abs {s : Sess} (hi : Inv s) {ip : IP} {e : AEntry} (he : abs s ip = some e) :
    ∃ m, findMACEntry s e.mac = some m := by
  simp only [abs] at he
  cases hf : findHost s ip with
  | none => simp [hf] at he
  | some x =>
    simp only [hf, Option.map_some, Option.some.injEq] at he
    obtain ⟨hxm, _⟩ := findHost_mem hi hf
    obtain ⟨m, hm, _, h2, _⟩ := hi.hostEntry _ hxm
    refine ⟨m, ?_⟩
    have := findMAC_of_mem hi.macNodup hm
    rw [h2] at this
    rw [← he]; exact this

end PV.Lemmas.Tables
