/-
  Lemmas for the DNS decoder tie (Props/C17Tie.lean): the body of `decodeName` regenerated from layer_dns.go
  (Gen/LoopsDns.lean) against Model/DnsName.lean — big-endian reads as arithmetic, fuel-independence of the model's
  label scan and pointer recursion, the generated label loop = `scanLabels` + the pointer arm (`loop1_eq`), the
  generated tail = `finishName` (`genTail_eq`), and the recursive body = `decodeSeg` for every fuel (`rec_tie`).
-/
import PacketVerif.Gen.LoopsDns
import PacketVerif.Model.DnsRR
import PacketVerif.Lemmas.DnsName
import PacketVerif.Lemmas.LoopGo
namespace PV.Lemmas.DnsLoops
open PV PV.Model PV.Model.LoopGo PV.Model.LoopGoDns PV.Gen.LoopsDns

theorem be16_toNat (a b : UInt8) : ((a.toUInt16 <<< 8) ||| b.toUInt16).toNat = a.toNat * 256 + b.toNat := by
  have ha := a.toNat_lt
  have hb := b.toNat_lt
  simp only [UInt16.toNat_or, UInt16.toNat_shiftLeft, UInt8.toNat_toUInt16]
  have e8 : UInt16.toNat 8 % 16 = 8 := by decide
  have e : a.toNat <<< 8 % 2 ^ 16 = a.toNat <<< 8 := by
    simp [Nat.shiftLeft_eq]; omega
  rw [e8, e, ← Nat.shiftLeft_add_eq_or_of_lt (by omega), Nat.shiftLeft_eq]

theorem and3fff_toNat (a b : UInt8) :
    (((a.toUInt16 <<< 8) ||| b.toUInt16) &&& (16383 : UInt16)).toNat = ptrTarget a b := by
  have ha := a.toNat_lt
  have hb := b.toNat_lt
  rw [UInt16.toNat_and, be16_toNat]
  have e : UInt16.toNat 16383 = 2 ^ 14 - 1 := by decide
  rw [e, Nat.and_two_pow_sub_one_eq_mod]
  unfold ptrTarget
  rw [UInt8.toNat_and]
  have e2 : UInt8.toNat 0x3f = 2 ^ 6 - 1 := by decide
  rw [e2, Nat.and_two_pow_sub_one_eq_mod]
  omega

theorem orsh (x y k : Nat) (h : y < 2 ^ k) : x * 2 ^ k ||| y = x * 2 ^ k + y := by
  rw [← Nat.shiftLeft_eq, Nat.shiftLeft_add_eq_or_of_lt h]

theorem be32_toNat (a b c d : UInt8) :
    ((a.toUInt32 <<< 24) ||| (b.toUInt32 <<< 16) ||| (c.toUInt32 <<< 8) ||| d.toUInt32).toNat = be32 a b c d := by
  have ha := a.toNat_lt
  have hb := b.toNat_lt
  have hc := c.toNat_lt
  have hd := d.toNat_lt
  simp only [UInt32.toNat_or, UInt32.toNat_shiftLeft, UInt8.toNat_toUInt32]
  have e24 : UInt32.toNat 24 % 32 = 24 := by decide
  have e16 : UInt32.toNat 16 % 32 = 16 := by decide
  have e8 : UInt32.toNat 8 % 32 = 8 := by decide
  have ea : a.toNat <<< 24 % 2 ^ 32 = a.toNat * 2 ^ 24 := by simp [Nat.shiftLeft_eq]; omega
  have eb : b.toNat <<< 16 % 2 ^ 32 = b.toNat * 2 ^ 16 := by simp [Nat.shiftLeft_eq]; omega
  have ec : c.toNat <<< 8 % 2 ^ 32 = c.toNat * 2 ^ 8 := by simp [Nat.shiftLeft_eq]; omega
  rw [e24, e16, e8, ea, eb, ec, Nat.or_assoc, Nat.or_assoc, orsh _ _ _ hd, orsh _ _ 16 (by omega), orsh _ _ 24 (by omega)]
  unfold be32
  omega

theorem sliceI_nat (b : Bytes) (i j : Int) (lo hi : Nat) (hi' : i = lo) (hj : j = hi) :
    sliceI b i j = slice b lo hi := by
  subst hi' hj
  simp [sliceI, slice]

/-- fuel-independence of the label scan -/
theorem scan_fuel : ∀ (f1 f2 : Nat) (data : Bytes) (offset index : Nat) (acc : Bytes),
    0 < f1 → data.length - index ≤ f1 → 0 < f2 → data.length - index ≤ f2 →
    scanLabels f1 data offset index acc = scanLabels f2 data offset index acc := by
  intro f1
  induction f1 with
  | zero => intro f2 data offset index acc h; omega
  | succ n ih =>
    intro f2 data offset index acc _ h1 h2 h3
    match f2, h2 with
    | m + 1, _ =>
      rw [scanLabels, scanLabels]
      rcases PV.Lemmas.Dns.idx_cases data index with ⟨v, hv, hlt⟩ | ⟨hp, _⟩
      · rw [hv]
        simp only []
        split
        · rfl
        split
        · rfl
        split
        · rfl
        split
        · rfl
        split
        · rfl
        split
        · rfl
        next hle =>
          rw [PV.Lemmas.Dns.slice_ok (by omega) (by omega)]
          simp only []
          split
          · rfl
          next hlt2 =>
            apply ih <;> omega
      · rw [hp]

def liftSeg (buffer : Bytes) : Outcome (Bytes × Nat) → Outcome (Bytes × Bytes × Int)
  | .ok (seg, e) => .ok (buffer ++ seg, nameOf seg, (e : Int))
  | .err e => .err e | .panic => .panic | .hang => .hang

def loopOut (data : Bytes) (offset : Nat) (recur : Nat → Outcome (Bytes × Nat)) (buffer : Bytes) :
    Outcome Scan → Outcome (Bytes × Int)
  | .ok (.done acc index) => .ok (buffer ++ acc, (index : Int))
  | .ok (.ptr acc index) =>
    if index + 2 > data.length then .err .parseFrame
    else
      match slice data index (index + 2) with
      | .ok [hi, lo] =>
        if ptrTarget hi lo ≥ offset then .err .parseFrame
        else
          match recur (ptrTarget hi lo) with
          | .ok (seg, _) => .ok (buffer ++ (acc ++ seg), (index : Int) + 1)
          | .err e => .err e | .panic => .panic | .hang => .hang
      | .ok _ => .panic
      | .err e => .err e | .panic => .panic | .hang => .hang
  | .err e => .err e | .panic => .panic | .hang => .hang

theorem loop1_eq (rec : Bytes → Int → Bytes → Int → Outcome (Bytes × Bytes × Int)) (recur : Nat → Outcome (Bytes × Nat))
    (data : Bytes) (offset : Nat) (level : Int) (buffer : Bytes)
    (hrec : ∀ (offsetp : Nat) (buf : Bytes), rec data (offsetp : Int) buf (level + 1) = liftSeg buf (recur offsetp)) :
    ∀ (fuel : Nat) (index : Nat) (acc : Bytes),
    genDecodeName_loop1 rec data (offset : Int) level fuel (buffer ++ acc) (index : Int)
      = loopOut data offset recur buffer (scanLabels fuel data offset index acc) := by
  intro fuel
  induction fuel with
  | zero => intro index acc; rfl
  | succ n ih =>
    intro index acc
    rw [genDecodeName_loop1, scanLabels, PV.Lemmas.LoopGo.idxI_natCast]
    rcases PV.Lemmas.Dns.idx_cases data index with ⟨b, hb, hlt⟩ | ⟨hp, _⟩
    · rw [hb]
      simp only [Outcome.bind_ok]
      by_cases hz : b = 0
      · subst hz; simp [loopOut]
      · have hz' : (b == 0) = false := by simpa using hz
        simp only [hz, hz', ne_eq, not_false_eq_true, if_true, Bool.false_eq_true, if_false]
        simp only [beq_iff_eq]
        by_cases hc0 : b &&& 192 = 192
        · simp only [hc0, if_true, loopOut]
          by_cases hlen : index + 2 > data.length
          · have : (index : Int) + 2 > (data.length : Int) := by omega
            simp [hlen, this]
          · have hI : ¬ ((index : Int) + 2 > (data.length : Int)) := by omega
            simp only [hlen, hI, if_false]
            rw [sliceI_nat data _ _ index (index + 2) rfl (by omega)]
            rw [PV.Lemmas.Dns.slice2 (b := data) (i := index) (by omega)]
            generalize data[index]'(by omega) = hi
            generalize data[index + 1]'(by omega) = lo
            simp only [Outcome.bind_ok, beU16, and3fff_toNat]
            by_cases hge : ptrTarget hi lo ≥ offset
            · have : ((ptrTarget hi lo : Nat) : Int) ≥ (offset : Int) := by omega
              simp [hge, this]
            · have hI2 : ¬ (((ptrTarget hi lo : Nat) : Int) ≥ (offset : Int)) := by omega
              simp only [hge, hI2, if_false]
              rw [hrec]
              cases hr : recur (ptrTarget hi lo) with
              | ok v => obtain ⟨seg, e⟩ := v; simp [liftSeg]
              | err e => simp [liftSeg]
              | panic => simp [liftSeg]
              | hang => simp [liftSeg]
        · simp only [hc0, if_false]
          by_cases hc1 : b &&& 192 = 64
          · simp [hc1, loopOut]
          simp only [hc1, if_false]
          by_cases hc2 : b &&& 192 = 128
          · simp [hc2, loopOut]
          simp only [hc2, if_false]
          by_cases h255 : index + b.toNat + 1 - offset > 255
          · have : (index : Int) + (b.toNat : Int) + 1 - (offset : Int) > 255 := by omega
            simp [h255, this, loopOut]
          have hI : ¬ ((index : Int) + (b.toNat : Int) + 1 - (offset : Int) > 255) := by omega
          simp only [h255, hI, if_false]
          by_cases hgt : index + b.toNat + 1 > data.length
          · have : (index : Int) + (b.toNat : Int) + 1 > (data.length : Int) := by omega
            simp [hgt, this, loopOut]
          have hI3 : ¬ ((index : Int) + (b.toNat : Int) + 1 < (index : Int) + 1 ∨ (index : Int) + (b.toNat : Int) + 1 > (data.length : Int)) := by omega
          simp only [hgt, hI3, if_false]
          rw [sliceI_nat data _ _ (index + 1) (index + b.toNat + 1) (by omega) (by omega)]
          rw [PV.Lemmas.Dns.slice_ok (by omega) (by omega)]
          simp only [Outcome.bind_ok]
          by_cases hge : index + b.toNat + 1 ≥ data.length
          · have : (index : Int) + (b.toNat : Int) + 1 ≥ (data.length : Int) := by omega
            simp [hge, this, loopOut]
          have hI4 : ¬ ((index : Int) + (b.toNat : Int) + 1 ≥ (data.length : Int)) := by omega
          simp only [hge, hI4, if_false]
          have := ih (index + b.toNat + 1) (acc ++ 46 :: (List.drop (index + 1) (List.take (index + b.toNat + 1) data)))
          rw [← this]
          congr 1
          simp
    · rw [hp]; rfl

/-- the statements of `decodeName` after its loop, as generated -/
def genTail (start : Int) (r : Bytes × Int) : Outcome (Bytes × Bytes × Int) :=
  if ((r.1.length : Int) - start) > (255 : Int) then Outcome.err Err.parseFrame
  else if (r.1.length : Int) ≤ start then do
    let t10 ← sliceI r.1 start (r.1.length : Int)
    pure (r.1, t10, (r.2 + (1 : Int)))
  else do
    let t11 ← sliceI r.1 (start + (1 : Int)) (r.1.length : Int)
    pure (r.1, t11, (r.2 + (1 : Int)))

theorem genTail_eq (buffer seg : Bytes) (i : Nat) :
    genTail (buffer.length : Int) (buffer ++ seg, (i : Int)) = liftSeg buffer (finishName seg i) := by
  unfold genTail finishName
  simp only [List.length_append]
  by_cases h : seg.length > 255
  · have : ((buffer.length + seg.length : Nat) : Int) - (buffer.length : Int) > 255 := by omega
    rw [if_pos this, if_pos h]; rfl
  · have hI : ¬ (((buffer.length + seg.length : Nat) : Int) - (buffer.length : Int) > 255) := by omega
    simp only [h, hI, if_false]
    cases seg with
    | nil => simp [sliceI, liftSeg, nameOf]
    | cons c rest =>
      have hI2 : ¬ (((buffer.length + (c :: rest).length : Nat) : Int) ≤ (buffer.length : Int)) := by simp; omega
      simp only [hI2, if_false]
      have e : sliceI (buffer ++ c :: rest) ((buffer.length : Int) + 1) ((buffer.length + (c :: rest).length : Nat) : Int) = .ok rest := by
        rw [sliceI_nat _ _ _ (buffer.length + 1) (buffer.length + (c :: rest).length) (by omega) rfl]
        rw [PV.Lemmas.Dns.slice_ok (by simp) (by simp)]
        congr 1
        have : buffer.length + (c :: rest).length = (buffer ++ c :: rest).length := by simp
        rw [this, List.take_length]
        simp
      rw [e]
      simp [liftSeg, nameOf]

theorem loopOut_tail (data : Bytes) (offset : Nat) (recur : Nat → Outcome (Bytes × Nat)) (buffer : Bytes) (r : Outcome Scan) :
    (loopOut data offset recur buffer r >>= genTail (buffer.length : Int)) = liftSeg buffer (afterScan data offset recur r) := by
  cases r with
  | ok s =>
    cases s with
    | done acc index => simp only [loopOut, afterScan, Outcome.bind_ok]; exact genTail_eq _ _ _
    | ptr acc index =>
      simp only [loopOut, afterScan]
      by_cases h1 : index + 2 > data.length
      · simp [h1, liftSeg]
      · simp only [h1, if_false]
        rw [PV.Lemmas.Dns.slice2 (b := data) (i := index) (by omega)]
        generalize data[index]'(by omega) = hi
        generalize data[index + 1]'(by omega) = lo
        simp only []
        by_cases h2 : ptrTarget hi lo ≥ offset
        · simp [h2, liftSeg]
        · simp only [h2, if_false]
          cases hr : recur (ptrTarget hi lo) with
          | ok v =>
            obtain ⟨seg, e⟩ := v
            simp only [Outcome.bind_ok]
            exact genTail_eq buffer (acc ++ seg) (index + 1)
          | err e => rfl
          | panic => rfl
          | hang => rfl
  | err e => rfl
  | panic => rfl
  | hang => rfl

theorem rec_tie : ∀ (fuel : Nat) (data : Bytes) (offset : Nat) (buffer : Bytes) (level : Nat),
    genDecodeName_rec fuel data (offset : Int) buffer (level : Int) = liftSeg buffer (decodeSeg fuel data offset level) := by
  intro fuel
  induction fuel with
  | zero => intro data offset buffer level; rfl
  | succ n ih =>
    intro data offset buffer level
    rw [genDecodeName_rec, decodeSeg]
    by_cases hl : level > maxRecursionLevel
    · have : (level : Int) > 255 := by unfold maxRecursionLevel at hl; omega
      simp [hl, this, liftSeg]
    have hlI : ¬ ((level : Int) > 255) := by unfold maxRecursionLevel at hl; omega
    simp only [hl, hlI, if_false]
    by_cases ho : offset ≥ data.length
    · have : (offset : Int) ≥ (data.length : Int) := by omega
      simp [ho, this, liftSeg]
    have hoI : ¬ ((offset : Int) ≥ (data.length : Int)) := by omega
    have hneg : ¬ ((offset : Int) < 0) := by omega
    simp only [ho, hoI, hneg, if_false]
    rw [PV.Lemmas.LoopGo.idxI_natCast, PV.Lemmas.Dns.idx_ok (by omega)]
    generalize data[offset]'(by omega) = b0
    simp only [Outcome.bind_ok]
    by_cases hz : b0 = 0
    · subst hz; simp [liftSeg, nameOf]
    have hz' : (b0 == 0) = false := by simpa using hz
    simp only [hz, hz', if_false, Bool.false_eq_true]
    have hrec : ∀ (offsetp : Nat) (buf : Bytes),
        genDecodeName_rec n data (offsetp : Int) buf ((level : Int) + 1) = liftSeg buf (decodeSeg n data offsetp (level + 1)) := by
      intro offsetp buf
      have := ih data offsetp buf (level + 1)
      simpa using this
    have hloop := loop1_eq (genDecodeName_rec n) (fun offsetp => decodeSeg n data offsetp (level + 1)) data offset (level : Int) buffer hrec
      (((data.length : Int) - (offset : Int)).toNat + 1) offset []
    rw [List.append_nil] at hloop
    rw [hloop, scan_fuel _ data.length data offset offset [] (by omega) (by omega) (by omega) (by omega)]
    exact loopOut_tail data offset _ buffer _

/-- fuel-independence of the pointer recursion: `257 - level` calls suffice -/
theorem decodeSeg_fuel : ∀ (f1 f2 : Nat) (data : Bytes) (offset level : Nat),
    0 < f1 → 257 ≤ f1 + level → 0 < f2 → 257 ≤ f2 + level →
    decodeSeg f1 data offset level = decodeSeg f2 data offset level := by
  intro f1
  induction f1 with
  | zero => intro f2 data offset level h; omega
  | succ n ih =>
    intro f2 data offset level _ h1 h2 h3
    match f2, h2 with
    | m + 1, _ =>
      rw [decodeSeg, decodeSeg]
      by_cases hl : level > maxRecursionLevel
      · simp [hl]
      · have hl' : level ≤ 255 := by unfold maxRecursionLevel at hl; omega
        have e : (fun offsetp => decodeSeg n data offsetp (level + 1)) = (fun offsetp => decodeSeg m data offsetp (level + 1)) := by
          funext offsetp
          apply ih <;> omega
        rw [e]

/-! ### encodeName -/

/-- map over the value of an outcome -/
def omap {α β} (f : α → β) : Outcome α → Outcome β
  | .ok a => .ok (f a)
  | .err e => .err e | .panic => .panic | .hang => .hang

theorem ofNat_mod256 (l : Nat) : UInt8.ofNat (((l : Int) % (256 : Int)).toNat) = UInt8.ofNat l := by
  have : ((l : Int) % (256 : Int)).toNat = l % 256 := by omega
  rw [this]
  apply UInt8.toNat_inj.mp
  simp

theorem setI_nat (b : Bytes) (i : Int) (n : Nat) (v : UInt8) (h : i = n) : setI b i v = setIdx b n v := by
  subst h
  unfold setI setIdx
  by_cases hl : n < b.length
  · simp [hl]
  · simp [hl]

def encView (r : Bytes × Nat) : Bytes × Int := (r.1, (r.2 : Int))

theorem encLoop_eq (offset : Nat) : ∀ (rest pre : Bytes) (fuel : Nat) (data : Bytes) (l : Nat),
    l ≤ pre.length → rest.length < fuel →
    genEncodeName_loop1 (pre ++ rest) (offset : Int) fuel data (l : Int) (pre.length : Int)
      = omap encView (encodeNameLoop rest pre.length l data offset) := by
  intro rest
  induction rest with
  | nil =>
    intro pre fuel data l hl hf
    match fuel, hf with
    | f + 1, _ =>
      rw [genEncodeName_loop1]
      simp [encodeNameLoop, omap, encView]
  | cons c rest ih =>
    intro pre fuel data l hl hf
    match fuel, hf with
    | f + 1, hf =>
      rw [genEncodeName_loop1, encodeNameLoop]
      have hlt : (pre.length : Int) < ((pre ++ c :: rest).length : Int) := by simp; omega
      simp only [hlt, if_true, PV.Lemmas.LoopGo.idxI_append_at, Outcome.bind_ok]
      have hih := ih (pre ++ [c]) f
      simp only [List.append_assoc, List.cons_append, List.nil_append, List.length_append, List.length_cons, List.length_nil] at hih
      by_cases hc : c = 46
      · subst hc
        simp only [if_true, beq_self_eq_true]
        rw [setI_nat data _ (offset + pre.length - l) _ (by omega), ofNat_mod256]
        cases hs : setIdx data (offset + pre.length - l) (UInt8.ofNat l) with
        | ok d =>
          simp only [Outcome.bind_ok, Outcome.pure_eq]
          have := hih d 0 (by omega) (by simp at hf; omega)
          simpa using this
        | err e => rfl
        | panic => rfl
        | hang => rfl
      · have hc' : (c == 46) = false := by simpa using hc
        simp only [hc, hc', if_false, Bool.false_eq_true]
        rw [setI_nat data _ (offset + pre.length + 1) _ (by omega)]
        cases hs : setIdx data (offset + pre.length + 1) c with
        | ok d =>
          simp only [Outcome.bind_ok, Outcome.pure_eq]
          have := hih d (l + 1) (by omega) (by simp at hf; omega)
          simpa using this
        | err e => rfl
        | panic => rfl
        | hang => rfl

theorem encLoop_l_le : ∀ (rest : Bytes) (i l : Nat) (data : Bytes) (offset : Nat) (d : Bytes) (l' : Nat),
    l ≤ i → encodeNameLoop rest i l data offset = .ok (d, l') → l' ≤ i + rest.length := by
  intro rest
  induction rest with
  | nil => intro i l data offset d l' h he; simp [encodeNameLoop] at he; simp; omega
  | cons c rest ih =>
    intro i l data offset d l' h he
    rw [encodeNameLoop] at he
    split at he
    · split at he
      · have := ih _ _ _ _ _ _ (by omega) he; simp; omega
      all_goals cases he
    · split at he
      · have := ih _ _ _ _ _ _ (by omega) he; simp; omega
      all_goals cases he

end PV.Lemmas.DnsLoops
