/- helper lemmas for the provenance machine (C10) -/
import PacketVerif.Model.Prov
namespace PV.Prov

theorem anyTainted_false {T : ClassSet} {l : List Src} (h : anyTainted T l = false) :
    ∀ x ∈ l, x.tainted T = false := by
  induction l with
  | nil => intro x hx; cases hx
  | cons y ys ih =>
    simp only [anyTainted, Bool.or_eq_false_iff] at h
    intro x hx
    cases hx with
    | head => exact h.1
    | tail _ hx => exact ih h.2 x hx

theorem closedB_mem {T : ClassSet} {table : List Site} (h : closedB T table = true) :
    ∀ s ∈ table, anyTainted T s.rhs = false ∨ T s.cls = true := by
  induction table with
  | nil => intro s hs; cases hs
  | cons t ts ih =>
    simp only [closedB, Bool.and_eq_true, Bool.or_eq_true, Bool.not_eq_true'] at h
    intro s hs
    cases hs with
    | head => exact h.1
    | tail _ hs => exact ih h.2 s hs

/-- the invariant: outside T every retained reference is private memory -/
def Clean (T : ClassSet) (s : Retained) : Prop :=
  ∀ p ∈ s, T p.1 = false → p.2.isHeap = true

theorem clean_nil (T : ClassSet) : Clean T [] := by
  intro p hp; cases hp

theorem derivable_heap {r r' : Ref} (h : r.isHeap = true) (d : r.derivable r' = true) : r'.isHeap = true := by
  cases r with
  | heap v => cases r' with
    | heap w => rfl
    | view n off len => simp [Ref.derivable] at d
  | view n off len => simp [Ref.isHeap] at h

theorem admissible_clean {T : ClassSet} {s : Retained} {n : Nat} {src : Src} {pick : Nat} {r : Ref}
    (hs : Clean T s) (ht : src.tainted T = false) (ha : admissible s n src pick r = true) : r.isHeap = true := by
  cases src with
  | heap => simpa [admissible] using ha
  | pkt => simp [Src.tainted] at ht
  | unknown => simp [Src.tainted] at ht
  | cls c =>
    simp only [Src.tainted] at ht
    simp only [admissible] at ha
    cases hp : s[pick]? with
    | none => simpa [hp] using ha
    | some p =>
      obtain ⟨c', r0⟩ := p
      simp only [hp, Bool.and_eq_true, beq_iff_eq] at ha
      have hmem : (c', r0) ∈ s := List.mem_of_getElem? hp
      have h0 : r0.isHeap = true := hs (c', r0) hmem (by simpa [ha.1] using ht)
      exact derivable_heap h0 ha.2

theorem exec_clean {T : ClassSet} {table : List Site} (hc : closedB T table = true) (n : Nat) {s : Retained}
    (hs : Clean T s) (e : Exec) : Clean T (exec table n s e) := by
  cases hsite : table[e.site]? with
  | none =>
    have : exec table n s e = s := by simp [exec, hsite]
    rw [this]; exact hs
  | some site =>
    cases hsrc : site.rhs[e.src]? with
    | none =>
      have : exec table n s e = s := by simp [exec, hsite, hsrc]
      rw [this]; exact hs
    | some src =>
      by_cases ha : admissible s n src e.pick e.ref = true
      · have : exec table n s e = (site.cls, e.ref) :: s := by simp [exec, hsite, hsrc, ha]
        rw [this]
        intro p hp hT
        cases hp with
        | head =>
          have hmem : site ∈ table := List.mem_of_getElem? hsite
          cases closedB_mem hc site hmem with
          | inl hclean =>
            exact admissible_clean hs (anyTainted_false hclean src (List.mem_of_getElem? hsrc)) ha
          | inr hin => simp [hin] at hT
        | tail _ hp => exact hs p hp hT
      · have : exec table n s e = s := by simp [exec, hsite, hsrc, ha]
        rw [this]; exact hs

theorem execs_clean {T : ClassSet} {table : List Site} (hc : closedB T table = true) (n : Nat) (es : List Exec) :
    ∀ s, Clean T s → Clean T (es.foldl (exec table n) s) := by
  induction es with
  | nil => intro s hs; exact hs
  | cons e es ih => intro s hs; exact ih _ (exec_clean hc n hs e)

theorem eraseIdx_clean {T : ClassSet} {s : Retained} (hs : Clean T s) (k : Nat) : Clean T (s.eraseIdx k) := by
  intro p hp
  exact hs p (List.mem_of_mem_eraseIdx hp)

theorem step_clean {T : ClassSet} {table : List Site} (hc : closedB T table = true) {s : Retained}
    (hs : Clean T s) (op : Op) : Clean T (step table s op) := by
  cases op with
  | packet n es => exact execs_clean hc n es s hs
  | forget k => exact eraseIdx_clean hs k

theorem run_clean {T : ClassSet} {table : List Site} (hc : closedB T table = true) (ops : List Op) :
    ∀ s, Clean T s → Clean T (run table s ops) := by
  induction ops with
  | nil => intro s hs; exact hs
  | cons op ops ih => intro s hs; exact ih _ (step_clean hc hs op)

theorem deref_heap {r : Ref} (h : r.isHeap = true) (σ σ' : Store) : r.deref σ = r.deref σ' := by
  cases r with
  | heap v => rfl
  | view n off len => simp [Ref.isHeap] at h

theorem observe_clean {T : ClassSet} (σ σ' : Store) : ∀ s : Retained, Clean T s → observe T σ s = observe T σ' s := by
  intro s
  induction s with
  | nil => intro _; rfl
  | cons p s ih =>
    intro hs
    obtain ⟨c, r⟩ := p
    have hs' : Clean T s := fun q hq => hs q (List.mem_cons_of_mem _ hq)
    simp only [observe]
    cases hc : T c with
    | true => simpa using ih hs'
    | false =>
      have hr : r.isHeap = true := hs (c, r) (List.mem_cons_self) hc
      simp [deref_heap hr σ σ', ih hs']

/-- the library's part of a history with explicit buffers -/
def toOps : List OpS → List Op
  | [] => []
  | .lib n _ es :: ops => .packet n es :: toOps ops
  | .forget k :: ops => .forget k :: toOps ops
  | .overwrite _ _ :: ops => toOps ops

/-- the retained component of the store machine is the plain machine's: the store is never read -/
theorem runS_snd (table : List Site) (ops : List OpS) : ∀ st : Store × Retained,
    (runS table st ops).2 = run table st.2 (toOps ops) := by
  induction ops with
  | nil => intro st; rfl
  | cons op ops ih =>
    intro st
    cases op with
    | lib n data es => simpa [runS, run, stepS, toOps] using ih (stepS table st (.lib n data es))
    | forget k => simpa [runS, run, stepS, toOps] using ih (stepS table st (.forget k))
    | overwrite n data => simpa [runS, run, stepS, toOps] using ih (stepS table st (.overwrite n data))

theorem toOps_noOverwrite (ops : List OpS) : toOps (noOverwrite ops) = toOps ops := by
  induction ops with
  | nil => rfl
  | cons op ops ih =>
    cases op with
    | lib n data es => simp [noOverwrite, toOps, ih]
    | forget k => simp [noOverwrite, toOps, ih]
    | overwrite n data => simp [noOverwrite, toOps, ih]

end PV.Prov
