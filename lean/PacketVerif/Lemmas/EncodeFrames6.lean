/-
  Helper lemmas for C03 / C07, part 3: frame equations of the IPv6 send paths (see `EncodeFrames.lean`).
-/
import PacketVerif.Lemmas.EncodeMem
set_option linter.unusedSimpArgs false
namespace PV.Lemmas
open PV PV.Model

theorem composeUDP6_frame (g : Mem) (sm dm sip dip : Bytes) (hop : UInt8) (sp dp : Nat) (pl : Bytes)
    (h1 : sm.length = 6) (h2 : dm.length = 6) (h3 : sip.length = 16) (h4 : dip.length = 16)
    (hsp : sp < 65536) (hdp : dp < 65536) (hfit : 62 + pl.length ≤ g.length) (hsmall : 8 + pl.length < 65536) :
    composeUDP6 g sm dm hop sip dip sp dp pl =
      .ok (dm ++ sm ++ [0x86, 0xdd] ++ ip6Hdr (8 + pl.length) 17 hop sip dip ++
        udpHdr sp dp (8 + pl.length) 0 0 ++ pl) := by
  have hcap : 62 ≤ g.length := by omega
  cells h1; cells h2; cells h3; cells h4; cells_le hcap
  rename_i T
  simp only [List.length_cons] at hfit
  obtain ⟨A, T', rfl, hA⟩ := split_tail T pl.length (by omega)
  unfold composeUDP6
  enc_exec
  frame_close T'


/-- the UDP-over-IPv6 checksum as `sendMDNS` computes it (pseudo header, checksum field zero, 0 sent as 0xffff) -/
def udp6Psh (sip dip : Bytes) (sp dp : Nat) (pl : Bytes) : Bytes :=
  sip ++ dip ++ ([UInt8.ofNat ((8 + pl.length) / 16777216), UInt8.ofNat ((8 + pl.length) / 65536),
      UInt8.ofNat ((8 + pl.length) / 256), UInt8.ofNat (8 + pl.length), 0, 0, 0, 17] : Bytes) ++
      (udpHdr sp dp (8 + pl.length) 0 0 ++ pl)

def udp6Cks (sip dip : Bytes) (sp dp : Nat) (pl : Bytes) : UInt16 :=
  if checksum (udp6Psh sip dip sp dp pl) == 0 then 0xffff else checksum (udp6Psh sip dip sp dp pl)

theorem sendUDP6_frame (g : Mem) (sm dm sip dip : Bytes) (hop : UInt8) (sp dp : Nat) (pl : Bytes)
    (h1 : sm.length = 6) (h2 : dm.length = 6) (h3 : sip.length = 16) (h4 : dip.length = 16)
    (hsp : sp < 65536) (hdp : dp < 65536) (hfit : 62 + pl.length ≤ g.length) (hsmall : 8 + pl.length < 65536) :
    sendUDP6 g sm dm hop sip dip sp dp pl =
      .ok (dm ++ sm ++ ([0x86, 0xdd] : Bytes) ++ ip6Hdr (8 + pl.length) 17 hop sip dip ++
        udpHdr sp dp (8 + pl.length) (udp6Cks sip dip sp dp pl).toUInt8 (udp6Cks sip dip sp dp pl >>> 8).toUInt8 ++
        pl) := by
  have hcap : 62 ≤ g.length := by omega
  cells h1; cells h2; cells h3; cells h4; cells_le hcap
  rename_i T
  simp only [List.length_cons] at hfit
  obtain ⟨A, T', rfl, hA⟩ := split_tail T pl.length (by omega)
  unfold sendUDP6
  enc_exec
  exact congrArg Outcome.ok (take_eq_frame _ _ T' _
      (by simp only [List.cons_append, List.nil_append, List.append_assoc, hi8_34525, lo8_34525, hi8_0, lo8_0,
            udpHdr, ip6Hdr, udp6Cks, udp6Psh]; rfl)
      (by simp only [List.length_cons, List.length_nil, List.length_append, udpHdr, ip6Hdr]; omega))


theorem sendICMP6_frame (g : Mem) (hm dm sip dip msg : Bytes)
    (h1 : hm.length = 6) (h2 : dm.length = 6) (h3 : sip.length = 16) (h4 : dip.length = 16)
    (hl : 4 ≤ msg.length) (hfit : 54 + msg.length ≤ g.length) (hsmall : msg.length < 65536) :
    sendICMP6 g hm dm sip dip msg =
      .ok (dm ++ hm ++ ([0x86, 0xdd] : Bytes) ++
        ip6Hdr msg.length 58 (if isLLUorLLM dip then 255 else 64) sip dip ++
        putChecksum msg 2 (checksum (icmp6Pseudo sip dip msg))) := by
  have hcap : 54 ≤ g.length := by omega
  unfold sendICMP6
  rw [if_neg (by omega)]
  cells h1; cells h2; cells h3; cells h4; cells_le hcap
  rename_i T
  cells_le hl
  rename_i rest
  simp only [List.length_cons] at hfit hsmall
  obtain ⟨A, T', rfl, hA⟩ := split_tail T (rest.length + 1 + 1 + 1 + 1) (by omega)
  enc_exec
  exact congrArg Outcome.ok (take_eq_frame _ _ T' _
      (by simp only [List.cons_append, List.nil_append, List.append_assoc, hi8_34525, lo8_34525, ip6Hdr,
            putChecksum, List.set_cons_succ, List.set_cons_zero])
      (by simp only [List.length_cons, List.length_nil, List.length_append, ip6Hdr, putChecksum, List.length_set];
          omega))


end PV.Lemmas
