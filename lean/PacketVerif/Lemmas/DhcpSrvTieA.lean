/-
  Ties of the regenerated pure predicates and table functions of the DHCPv4 server
  (getClientID, takenByOther, inUse, available, findOrCreate, delete, freeLeases, MinuteTicker)
  to Model/Dhcp4Srv.lean.
-/
import PacketVerif.Lemmas.DhcpSrvTieBase
namespace PV.Lemmas.DhcpSrvTie
open PV PV.Model.Dhcp4Srv PV.Model.DhcpSrvGo PV.Lemmas.Dhcp4Srv PV.Gen.DhcpSrv

theorem any_congr_mem {α} {l : List α} {p q : α → Bool} (h : ∀ e ∈ l, p e = q e) : l.any p = l.any q := by
  induction l with
  | nil => rfl
  | cons a l ih =>
    simp only [List.any_cons]
    rw [h a (List.mem_cons_self ..), ih (fun e he => h e (List.mem_cons_of_mem _ he))]

theorem getLease_of_mem {t : Table} (hu : KeysUnique t) {k : Cid} {v : Lease} (hm : (k, v) ∈ t) : getLease t k = some v := by
  induction t with
  | nil => cases hm
  | cons e t ih =>
    obtain ⟨k', v'⟩ := e
    unfold KeysUnique at hu
    simp only [List.map_cons, List.nodup_cons] at hu
    rw [getLease_cons]
    cases List.mem_cons.1 hm with
    | inl h => cases h; simp
    | inr h =>
      have hne : k' ≠ k := by
        intro he; subst he
        exact hu.1 (List.mem_map.2 ⟨(k', v), h, rfl⟩)
      have : (k' == k) = false := by simpa using hne
      simp only [this]
      exact ih hu.2 h

theorem L_of_mem {s : State} (hu : KeysUnique s.table) {k : Cid} {v : Lease} (hm : (k, v) ∈ s.table) : L s k = v := by
  unfold L; rw [getLease_of_mem hu hm]; rfl

/-! ### loops over the table -/

theorem forRange_any {α ρ} (l : List α) (P : α → Bool) (r : ρ) (k : Unit → ρ) :
    forRange l () (fun _ a => if P a then Ctl.ret r else Ctl.next ()) k = if l.any P then r else k () := by
  induction l with
  | nil => rfl
  | cons a l ih =>
    unfold forRange
    cases h : P a <;> simp [h, ih]

/-! ### getClientID -/

theorem getClientID_tie (cfg : Cfg) (s : State) (m : Msg) : getClientID cfg s m = clientId m := by
  unfold getClientID clientId optBytes
  cases h : m.cidOpt with
  | none => simp
  | some c =>
    cases c with
    | nil => simp
    | cons a r => simp

/-! ### takenByOther / inUse / available -/

theorem takenByOther_tie (cfg : Cfg) (s : State) (c : Cid) (ip : AddrV) :
    Handler_takenByOther cfg s c ip = takenByOther s (L s c).mac (AddrV.toOpt ip) := by
  unfold Handler_takenByOther takenByOther
  cases ip with
  | invalid => rfl
  | v6 => rfl
  | v4 a =>
    simp only [sessFind, AddrV.toOpt]
    cases h : sessionKnows s a <;> simp [bne]

/-- Go's `inUse` = the model's lease-table half `inUse` ∨ `takenByOther` (for an address a lease can hold) -/
theorem inUse_tie (cfg : Cfg) (s : State) (hu : KeysUnique s.table) (c : Cid) (o : Option IP) :
    Handler_inUse cfg s c (AddrV.ofOpt o) = (inUse s.table c o || takenByOther s (L s c).mac o) := by
  unfold Handler_inUse
  rw [forRange_any (tableKeys s) (fun l => ((l != c) && ((L s l).state != LState.free)) && ((AddrV.ofOpt (L s l).ip) == AddrV.ofOpt o))]
  have hany : (tableKeys s).any (fun l => ((l != c) && ((L s l).state != LState.free)) && ((AddrV.ofOpt (L s l).ip) == AddrV.ofOpt o))
      = inUse s.table c o := by
    unfold tableKeys inUse
    rw [List.any_map]
    apply any_congr_mem
    intro e he
    obtain ⟨k, v⟩ := e
    simp only [Function.comp, L_of_mem hu he, ofOpt_eq_iff]
  rw [hany, takenByOther_tie, ofOpt_toOpt]
  cases inUse s.table c o <;> simp

theorem inUse_tie_v6 (cfg : Cfg) (s : State) (c : Cid) : Handler_inUse cfg s c AddrV.v6 = false := by
  unfold Handler_inUse
  rw [forRange_any (tableKeys s) (fun l => ((l != c) && ((L s l).state != LState.free)) && ((AddrV.ofOpt (L s l).ip) == AddrV.v6))]
  have : (tableKeys s).any (fun l => ((l != c) && ((L s l).state != LState.free)) && ((AddrV.ofOpt (L s l).ip) == AddrV.v6)) = false := by
    rw [List.any_eq_false]
    intro l _
    have := ofOpt_ne_v6 (L s l).ip
    simp [this]
  rw [this, takenByOther_tie]; rfl

theorem v4_beq (a b : IP) : (AddrV.v4 a == AddrV.v4 b) = (a == b) := by
  rw [Bool.eq_iff_iff]; simp

theorem available_tie (cfg : Cfg) (s : State) (hu : KeysUnique s.table) (c : Cid) (a : IP) :
    Handler_available cfg s c (AddrV.v4 a) = available cfg s c (L s c).sub a := by
  unfold Handler_available available usable
  have hin := inUse_tie cfg s hu c (some a)
  simp only [AddrV.ofOpt] at hin
  rw [hin]
  simp only [AddrV.is4, subContains, sessFind, v4_beq, bne]
  have hto : takenByOther s (L s c).mac (some a) = true → (sessionKnows s a).isNone = false := by
    unfold takenByOther
    cases h : sessionKnows s a <;> simp [h]
  revert hto
  generalize takenByOther s (L s c).mac (some a) = t
  generalize (sessionKnows s a).isNone = n
  generalize inUse s.table c (some a) = i
  generalize (cfg.sub (L s c).sub).contains a = b1
  generalize (a == (cfg.sub (L s c).sub).lan) = b2
  generalize (a == (cfg.sub (L s c).sub).bcast) = b3
  generalize (a == (cfg.sub (L s c).sub).gw) = b4
  generalize (a == cfg.host) = b5
  generalize (a == cfg.router) = b6
  intro hto
  cases b1 <;> cases b2 <;> cases b3 <;> cases b4 <;> cases b5 <;> cases b6 <;> cases i <;> cases t <;> cases n <;> simp_all

theorem available_not4 (cfg : Cfg) (s : State) (c : Cid) (ip : AddrV) (h : AddrV.is4 ip = false) :
    Handler_available cfg s c ip = false := by
  unfold Handler_available
  simp [h]

/-! ### findOrCreate / delete -/

/-- the condition of the fast path of `findOrCreate` -/
def focKeeps (s : State) (c : Cid) (mac : MAC) : Bool :=
  match getLease s.table c with
  | some l => l.sub == selSub s mac && l.mac == mac
  | none => false

theorem zeroLease_fresh (mac : MAC) (sub : SubId) :
    { { { { { zeroLease with state := LState.free } with offer := AddrV.toOpt AddrV.invalid } with mac := mac } with
        ip := AddrV.toOpt AddrV.invalid } with sub := sub } = freshLease mac sub := rfl

theorem findOrCreate_tie (cfg : Cfg) (s : State) (c : Cid) (mac : MAC) :
    Handler_findOrCreate cfg s c mac
      = (if focKeeps s c mac then s else tableSet s c (freshLease mac (selSub s mac)), c) := by
  unfold Handler_findOrCreate focKeeps selSub tableFind L
  cases hcap : isCaptured s mac <;> cases hg : getLease s.table c with
  | none => simp [hcap, hg, freshLease, zeroLease]
  | some l =>
    simp only [hcap, hg, Option.isSome_some, if_true, Option.getD_some]
    by_cases h1 : l.sub = SubId.net1 <;> by_cases h2 : l.sub = SubId.net2 <;> by_cases h3 : l.mac = mac <;>
      simp_all [freshLease, zeroLease]

/-- after `findOrCreate` the client's entry is the model's `findOrCreate` lease -/
theorem findOrCreate_has (cfg : Cfg) (s : State) (c : Cid) (mac : MAC) :
    Has (Handler_findOrCreate cfg s c mac).1 c (findOrCreate s c mac) := by
  rw [findOrCreate_tie]
  unfold focKeeps findOrCreate Has
  cases hg : getLease s.table c with
  | none => simp [getLease_setLease_self]
  | some l =>
    by_cases hk : l.sub = selSub s mac ∧ l.mac = mac
    · simp [hk, hg]
    · have : (l.sub == selSub s mac && l.mac == mac) = false := by
        simp only [Bool.and_eq_false_iff, beq_eq_false_iff_ne]
        by_cases h1 : l.sub = selSub s mac
        · right; exact fun h2 => hk ⟨h1, h2⟩
        · left; exact h1
      simp [this, hk, getLease_setLease_self]

/-- … and the rest of the state is the old one: the table differs at `c` only -/
theorem findOrCreate_frame (cfg : Cfg) (s : State) (c : Cid) (mac : MAC) (l : Lease) :
    ({ (Handler_findOrCreate cfg s c mac).1 with table := setLease (Handler_findOrCreate cfg s c mac).1.table c l } : State)
      = { s with table := setLease s.table c l } := by
  rw [findOrCreate_tie]
  cases focKeeps s c mac
  · simp only [Bool.false_eq_true, if_false, tableSet, setLease_setLease]
  · simp

theorem findOrCreate_fields (cfg : Cfg) (s : State) (c : Cid) (mac : MAC) :
    (Handler_findOrCreate cfg s c mac).1.hosts = s.hosts ∧ (Handler_findOrCreate cfg s c mac).1.captured = s.captured
      ∧ (Handler_findOrCreate cfg s c mac).1.next1 = s.next1 ∧ (Handler_findOrCreate cfg s c mac).1.next2 = s.next2
      ∧ delLease (Handler_findOrCreate cfg s c mac).1.table c = delLease s.table c
      ∧ (Handler_findOrCreate cfg s c mac).2 = c := by
  rw [findOrCreate_tie]
  cases focKeeps s c mac <;> simp [tableSet, delLease_setLease]

theorem findOrCreate_keys (cfg : Cfg) (s : State) (hu : KeysUnique s.table) (c : Cid) (mac : MAC) :
    KeysUnique (Handler_findOrCreate cfg s c mac).1.table := by
  rw [findOrCreate_tie]
  cases focKeeps s c mac
  · simpa [tableSet] using keysUnique_setLease c _ hu
  · simpa using hu

theorem delete_tie (cfg : Cfg) (s : State) (c : Cid) : Handler_delete cfg s c = { s with table := delLease s.table c } := rfl

/-! ### freeLeases -/

theorem forRange_next {α σ ρ} (l : List α) (st : σ) (g : σ → α → σ) (k : σ → ρ) :
    forRange l st (fun st a => Ctl.next (g st a)) k = k (l.foldl g st) := by
  induction l generalizing st with
  | nil => rfl
  | cons a l ih => unfold forRange; simp [ih]

def freeOne (now : Nat) (l : Lease) : Lease := if l.state != .free && l.expiry < now then { l with state := .free } else l

theorem freeLeases_eq_map (t : Table) (now : Nat) : freeLeases t now = t.map (fun e => (e.1, freeOne now e.2)) := by
  unfold freeLeases freeOne
  apply List.map_congr_left
  intro e _
  split <;> rfl

/-- one step of the translated loop body: rewrite the entry of key `k` -/
def freeStep (now : Nat) (s : State) (k : Cid) : State :=
  if (((L s k).state != LState.free) && (decide ((L s k).expiry < now))) then updL s k (fun l => { l with state := LState.free }) else s

theorem freeStep_table (now : Nat) (s : State) (k : Cid) :
    (freeStep now s k).table = s.table.map (fun e => if e.1 == k then (e.1, freeOne now (L s k)) else e) ∨ True := Or.inr trivial

theorem foldl_freeStep (now : Nat) : ∀ (pre post : Table) (s : State), s.table = pre.map (fun e => (e.1, freeOne now e.2)) ++ post →
    KeysUnique (pre ++ post) →
    (post.map (·.1)).foldl (freeStep now) s = { s with table := (pre ++ post).map (fun e => (e.1, freeOne now e.2)) } := by
  intro pre post
  induction post generalizing pre with
  | nil => intro s hs _; cases s; simp_all
  | cons e post ih =>
    intro s hs hu
    obtain ⟨k, v⟩ := e
    simp only [List.map_cons, List.foldl_cons]
    have hk : getLease s.table k = some v := by
      apply getLease_of_mem
      · have hkeys : s.table.map (·.1) = (pre ++ (k, v) :: post).map (·.1) := by
          rw [hs]; simp only [List.map_append, List.map_map, List.map_cons]; rfl
        unfold KeysUnique; rw [hkeys]; exact hu
      · rw [hs]; simp
    have hL : L s k = v := by unfold L; rw [hk]; rfl
    have hnotpre : ∀ e ∈ pre, (e.1 == k) = false := by
      intro e he
      unfold KeysUnique at hu
      simp only [List.map_append, List.map_cons] at hu
      have := (List.nodup_append.1 hu).2.2 e.1 (List.mem_map.2 ⟨e, he, rfl⟩) k (List.mem_cons_self ..)
      simpa using this
    have hnotpost : ∀ e ∈ post, (e.1 == k) = false := by
      intro e he
      unfold KeysUnique at hu
      simp only [List.map_append, List.map_cons] at hu
      have h2 := (List.nodup_append.1 hu).2.1
      simp only [List.nodup_cons] at h2
      have : e.1 ≠ k := fun h => h2.1 (h ▸ List.mem_map.2 ⟨e, he, rfl⟩)
      simpa using this
    have hstep : (freeStep now s k).table = (pre ++ [(k, v)]).map (fun e => (e.1, freeOne now e.2)) ++ post := by
      have hupd : ∀ f : Lease → Lease, (updL s k f).table = pre.map (fun e => (e.1, freeOne now e.2)) ++ (k, f v) :: post := by
        intro f
        unfold updL
        simp only [hs, List.map_append, List.map_cons, List.map_map, BEq.rfl, if_true]
        congr 1
        · apply List.map_congr_left; intro e he; simp [Function.comp, hnotpre e he]
        · congr 1
          conv => rhs; rw [← List.map_id post]
          apply List.map_congr_left; intro e he; simp [hnotpost e he]
      unfold freeStep
      rw [hL]
      simp only [List.map_append, List.map_cons, List.map_nil, List.append_assoc, List.cons_append, List.nil_append]
      by_cases hc : ((v.state != LState.free) && decide (v.expiry < now)) = true
      · rw [if_pos hc, hupd]
        simp [freeOne, hc]
      · rw [if_neg hc, hs]
        have : freeOne now v = v := by
          unfold freeOne
          simp only [Bool.and_eq_true, decide_eq_true_eq] at hc ⊢
          rw [if_neg hc]
        simp [this]
    have hrest : ∀ f : Unit, (freeStep now s k).hosts = s.hosts ∧ (freeStep now s k).captured = s.captured ∧ (freeStep now s k).next1 = s.next1 ∧ (freeStep now s k).next2 = s.next2 := by
      intro _; unfold freeStep; split <;> simp
    have := ih (pre ++ [(k, v)]) (freeStep now s k) hstep (by simpa [List.append_assoc] using hu)
    rw [this]
    have hr := hrest ()
    cases hfs : freeStep now s k
    cases s
    simp_all [List.append_assoc]

theorem freeLeases_tie (cfg : Cfg) (s : State) (hu : KeysUnique s.table) (now : Nat) :
    Handler_freeLeases cfg s now = ({ s with table := freeLeases s.table now }, false) := by
  unfold Handler_freeLeases
  have hbody : (fun (s : State) (lease : Cid) =>
        (let s :=
          if (((L s lease).state != LState.free) && (decide ((L s lease).expiry < now))) then
            let s := updL s lease (fun l => { l with state := LState.free })
            s
          else
            s
        Ctl.next s : Ctl State (State × Bool))) = fun s lease => Ctl.next (freeStep now s lease) := by
    funext s lease; rfl
  rw [hbody, forRange_next]
  unfold tableKeys
  rw [foldl_freeStep now [] s.table s (by simp) (by simpa using hu), freeLeases_eq_map]
  simp

theorem minuteTicker_tie (cfg : Cfg) (s : State) (hu : KeysUnique s.table) (now : Nat) :
    [((Handler_MinuteTicker cfg s now).1, ([] : List Reply))] = step cfg s (.minuteTick now) := by
  unfold Handler_MinuteTicker
  rw [freeLeases_tie cfg s hu now]
  rfl

end PV.Lemmas.DhcpSrvTie
