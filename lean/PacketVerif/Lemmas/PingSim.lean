/-
  Whole-execution simulation: a pool of calls, each running the reference program `pingProg` (= the regenerated
  `Session_ping` / `Session_Ping6` by `Props/C19PingTie.ping_tie` / `Ping6_tie`), interleaved in any way with each other
  and with `echoNotify`, is a run of the transition system of Model/Ping.lean.
-/
import PacketVerif.Model.PingGo
import PacketVerif.Lemmas.Ping
namespace PV.Lemmas.PingSim
open PV PV.Model PV.Model.Ping PV.Model.PingGo PV.Lemmas.Ping

/-- the arguments of call p -/
structure Args where
  v6 : Bool
  src : GAddr
  dst : GAddr
  timeout : Int

/-- the Go side: the heap and the residual program of every call -/
structure G where
  st : State
  pr : Nat → Prog

inductive GEv where
  | tau (p : Nat)                      -- call p runs its next lock section / read
  | ret (p : Nat) (err : Option Err)   -- the transmitting call of p returned
  | fire (p : Nat) (c : Chan)          -- a channel of p's select became ready
  | echo (id : Nat)                    -- Parse called echoNotify(id)
  | other

/-- `echoNotify` as regenerated (`Gen.Ping.echoNotify`, restated here so that this file does not import Gen;
    `Props/C19PingTie.echoNotify_sim` proves the two equal) -/
def echoNotifyRef (st : State) (id : Nat) : State :=
  if decide (tlen st.table ≤ 0) then st
  else match tget st.table id with
    | some entry => { chanClose (setRecv st entry true) entry with table := tdel st.table id }
    | none => st

def setPr (g : G) (p : Nat) (s : State) (k : Prog) : G := ⟨s, fun q => if q = p then k else g.pr q⟩

/-- a receive from `wakeup q` is ready only once that channel was closed; `time.After` may fire at any moment -/
def chanReady (st : State) : Chan → Bool
  | .wakeup q => decide (0 < (st.th q).closes)
  | .after _ => true

def gstep (g : G) : GEv → Option G
  | .tau p => ((g.pr p).step g.st .tau).map fun r => setPr g p r.1 r.2
  | .ret p err => ((g.pr p).step g.st (.ret err)).map fun r => setPr g p r.1 r.2
  | .fire p c =>
    if chanReady g.st c then
      ((g.pr p).step g.st (.fire c)).map fun r => setPr g p r.1 r.2
    else none
  | .echo id => some ⟨echoNotifyRef g.st id, g.pr⟩
  | .other => some g

/-- the model's classification of what the call returned (`nil`, `ErrTimeout` after a send, the send's own error) -/
def RetRel : Ret → Option Err → Prop
  | .nil, r => r = none
  | .timeout, r => r = some .timeout
  | .sendErr, r => r.isSome
  | .none, _ => False

/-- where call p is: the model's program counter stands for a residual program -/
inductive At (a : Args) (p : Nat) (th : Thread) : Prog → Prop
  | init : th.pc = .init → At a p th (pingProg a.v6 p a.src a.dst a.timeout)
  | send : th.pc = .send → At a p th (sendProg a.v6 p a.src a.dst (effTimeout a.timeout) th.id)
  | cleanup (e : Err) : th.pc = .cleanup → At a p th (cleanupProg th.id (some e))
  | wait : th.pc = .wait → At a p th (waitProg p th.id (effTimeout a.timeout))
  | unreg : th.pc = .unreg → At a p th (unregProg p th.id)
  | rd : th.pc = .done → th.ret = (if th.recv then .nil else .timeout) →
      At a p th (.read fun st => if !(st.th p).recv then .done (some .timeout) else .done none)
  | done (r : Option Err) : th.pc = .done → RetRel th.ret r → At a p th (.done r)

/-- the simulation relation: same table and counter, same entry state, and every call is where the model says -/
structure Sim (a : Nat → Args) (g : G) (s : State) : Prop where
  table : s.table = g.st.table
  nextId : s.nextId = g.st.nextId
  recv : ∀ p, (s.th p).recv = (g.st.th p).recv
  closes : ∀ p, (s.th p).closes = (g.st.th p).closes
  at_ : ∀ p, At (a p) p (s.th p) (g.pr p)


theorem at_congr {a : Args} {p : Nat} {th th' : Thread} {k : Prog} (h : At a p th k)
    (hpc : th'.pc = th.pc) (hid : th'.id = th.id) (hret : th'.ret = th.ret) (hrecv : th.pc = .done → th'.recv = th.recv) :
    At a p th' k := by
  cases h with
  | init h => exact .init (hpc ▸ h)
  | send h => rw [← hid]; exact .send (hpc ▸ h)
  | cleanup e h => rw [← hid]; exact .cleanup e (hpc ▸ h)
  | wait h => rw [← hid]; exact .wait (hpc ▸ h)
  | unreg h => rw [← hid]; exact .unreg (hpc ▸ h)
  | rd h hr => exact .rd (hpc ▸ h) (by rw [hret, hrecv h]; exact hr)
  | done r h hr => exact .done r (hpc ▸ h) (hret ▸ hr)

/-- a step of call p alone: its record, the table and the counter change; the entries' state does not -/
theorem sim_local {a : Nat → Args} {g : G} {s : State} (hs : Sim a g s) (p : Nat) (t' : Thread) (st' : State) (k : Prog)
    (hth : st'.th = g.st.th) (hr : t'.recv = (s.th p).recv) (hc : t'.closes = (s.th p).closes) (hat : At (a p) p t' k) :
    Sim a (setPr g p st' k) { table := st'.table, nextId := st'.nextId, th := upd s.th p t' } := by
  constructor
  · rfl
  · rfl
  · intro q; simp only [setPr, hth, upd]; split
    · rename_i h; subst h; rw [hr]; exact hs.recv q
    · exact hs.recv q
  · intro q; simp only [setPr, hth, upd]; split
    · rename_i h; subst h; rw [hc]; exact hs.closes q
    · exact hs.closes q
  · intro q; simp only [setPr, upd]; split
    · rename_i h; subst h; exact hat
    · exact hs.at_ q

theorem echo_ref (s : State) (id : Nat) :
    step s (.echo id) = some (echoNotifyRef { s with th := markSeen s.th id } id) := by
  simp only [step, echoNotifyRef, tlen, setRecv, chanClose]
  cases ht : s.table with
  | nil => simp
  | cons x l =>
    have h1 : ¬ ((↑((x :: l).length) : Int) ≤ 0) := by simp
    simp only [List.isEmpty_cons, Bool.false_eq_true, if_false, h1, decide_false]
    cases hg : tget (x :: l) id with
    | none => simp
    | some q =>
      simp only [Option.some.injEq, State.mk.injEq, true_and]
      funext r; simp only [upd]; split <;> simp_all


theorem sim_tau {a : Nat → Args} {g g' : G} {s : State} (hs : Sim a g s) {p : Nat}
    (hg : gstep g (.tau p) = some g') : ∃ evs s', run s evs = some s' ∧ Sim a g' s' := by
  simp only [gstep, Option.map_eq_some_iff] at hg
  obtain ⟨r, hr, rfl⟩ := hg
  have hat := hs.at_ p
  generalize hk : g.pr p = k at hat hr
  cases hat with
  | init hpc =>
    simp only [pingProg, Prog.step] at hr
    cases hr
    refine ⟨[.reg p], _, by simp only [run, step, hpc, if_true]; rfl, ?_⟩
    have := sim_local hs p { s.th p with pc := .send, id := s.nextId } (regSection p g.st).1
      (sendProg (a p).v6 p (a p).src (a p).dst (effTimeout (a p).timeout) (regSection p g.st).2) rfl rfl rfl
      (by simp only [regSection, ← hs.nextId]; exact At.send rfl)
    simpa [regSection, u16succ, idMod, hs.table, hs.nextId] using this
  | send hpc => simp [sendProg, Prog.step] at hr
  | cleanup e hpc =>
    simp only [cleanupProg, Prog.step] at hr
    cases hr
    refine ⟨[.cleanup p], _, by simp only [run, step, hpc, if_true]; rfl, ?_⟩
    have := sim_local hs p { s.th p with pc := .done, ret := .sendErr } { g.st with table := tdel g.st.table (s.th p).id }
      (.done (some e)) rfl rfl rfl (At.done (some e) rfl (by simp [RetRel]))
    simpa [hs.table, hs.nextId] using this
  | wait hpc => simp [waitProg, Prog.step] at hr
  | unreg hpc =>
    simp only [unregProg, Prog.step] at hr
    cases hr
    refine ⟨[.unreg p], _, by simp only [run, step, hpc, if_true]; rfl, ?_⟩
    have := sim_local hs p { s.th p with pc := .done, ret := if (s.th p).recv then .nil else .timeout }
      { g.st with table := tdel g.st.table (s.th p).id } _ rfl rfl rfl (At.rd rfl rfl)
    simpa [hs.table, hs.nextId] using this
  | rd hpc hret =>
    simp only [Prog.step] at hr
    cases hr
    refine ⟨[], s, rfl, ?_⟩
    have hrr : (g.st.th p).recv = (s.th p).recv := (hs.recv p).symm
    have hat' : At (a p) p (s.th p) (if !(g.st.th p).recv then .done (some .timeout) else .done none) := by
      rw [hrr]
      cases hrv : (s.th p).recv
      · exact At.done _ hpc (by rw [hret, hrv]; simp [RetRel])
      · exact At.done _ hpc (by rw [hret, hrv]; simp [RetRel])
    have := sim_local hs p (s.th p) g.st _ rfl rfl rfl hat'
    have e : ({ table := g.st.table, nextId := g.st.nextId, th := upd s.th p (s.th p) } : State) = s := by
      cases s with | mk t n th =>
      simp only [State.mk.injEq]
      exact ⟨hs.table.symm, hs.nextId.symm, by funext q; simp only [upd]; split <;> simp_all⟩
    rw [e] at this; exact this
  | done r hpc hret => simp [Prog.step] at hr

theorem sim_ret {a : Nat → Args} {g g' : G} {s : State} (hs : Sim a g s) {p : Nat} {err : Option Err}
    (hg : gstep g (.ret p err) = some g') : ∃ evs s', run s evs = some s' ∧ Sim a g' s' := by
  simp only [gstep, Option.map_eq_some_iff] at hg
  obtain ⟨r, hr, rfl⟩ := hg
  have hat := hs.at_ p
  generalize hk : g.pr p = k at hat hr
  have hst : ({ table := g.st.table, nextId := g.st.nextId, th := g.st.th } : State) = g.st := rfl
  cases hat with
  | send hpc =>
    simp only [sendProg, Prog.step] at hr
    cases hr
    cases err with
    | none =>
      refine ⟨[.sendOk p], _, by simp only [run, step, hpc, if_true]; rfl, ?_⟩
      have := sim_local hs p { s.th p with pc := .wait, sent := true } g.st
        (waitProg p (s.th p).id (effTimeout (a p).timeout)) rfl rfl rfl (At.wait rfl)
      simpa [hs.table, hs.nextId] using this
    | some e =>
      refine ⟨[.sendErr p], _, by simp only [run, step, hpc, if_true]; rfl, ?_⟩
      have := sim_local hs p { s.th p with pc := .cleanup } g.st
        (cleanupProg (s.th p).id (some e)) rfl rfl rfl (At.cleanup e rfl)
      simpa [hs.table, hs.nextId] using this
  | init hpc => simp [pingProg, Prog.step] at hr
  | cleanup e hpc => simp [cleanupProg, Prog.step] at hr
  | wait hpc => simp [waitProg, Prog.step] at hr
  | unreg hpc => simp [unregProg, Prog.step] at hr
  | rd hpc hret => simp [Prog.step] at hr
  | done r hpc hret => simp [Prog.step] at hr


theorem sim_fire {a : Nat → Args} {g g' : G} {s : State} (hs : Sim a g s) {p : Nat} {c : Chan}
    (hg : gstep g (.fire p c) = some g') : ∃ evs s', run s evs = some s' ∧ Sim a g' s' := by
  simp only [gstep] at hg
  split at hg
  · rename_i hguard
    simp only [Option.map_eq_some_iff] at hg
    obtain ⟨r, hr, rfl⟩ := hg
    have hat := hs.at_ p
    generalize hk : g.pr p = k at hat hr
    cases hat with
    | wait hpc =>
      simp only [waitProg, Prog.step] at hr
      split at hr
      · rename_i hmem
        cases hr
        have hsim := sim_local hs p { s.th p with pc := .unreg } g.st (unregProg p (s.th p).id) rfl rfl rfl (At.unreg rfl)
        simp at hmem
        rcases hmem with rfl | rfl
        · have hcl : 0 < (s.th p).closes := by rw [hs.closes p]; simpa [chanReady] using hguard
          refine ⟨[.wake p], _, by simp only [run, step, hpc, hcl, and_self, if_true]; rfl, ?_⟩
          simpa [hs.table, hs.nextId] using hsim
        · refine ⟨[.timeout p], _, by simp only [run, step, hpc, if_true]; rfl, ?_⟩
          simpa [hs.table, hs.nextId] using hsim
      · cases hr
    | init hpc => simp [pingProg, Prog.step] at hr
    | send hpc => simp [sendProg, Prog.step] at hr
    | cleanup e hpc => simp [cleanupProg, Prog.step] at hr
    | unreg hpc => simp [unregProg, Prog.step] at hr
    | rd hpc hret => simp [Prog.step] at hr
    | done r hpc hret => simp [Prog.step] at hr
  · cases hg

theorem sim_echo {a : Nat → Args} {g : G} {s : State} (hs : Sim a g s) (hw : InvW s) (id : Nat) :
    Sim a ⟨echoNotifyRef g.st id, g.pr⟩ (echoNotifyRef { s with th := markSeen s.th id } id) := by
  have hms : ∀ q, (markSeen s.th id q).pc = (s.th q).pc ∧ (markSeen s.th id q).id = (s.th q).id ∧
      (markSeen s.th id q).ret = (s.th q).ret ∧ (markSeen s.th id q).recv = (s.th q).recv ∧
      (markSeen s.th id q).closes = (s.th q).closes := by
    intro q; simp only [markSeen]; split <;> simp
  have hsame : Sim a ⟨g.st, g.pr⟩ { table := g.st.table, nextId := s.nextId, th := markSeen s.th id } :=
    ⟨rfl, hs.nextId, fun q => by rw [(hms q).2.2.2.1]; exact hs.recv q,
      fun q => by rw [(hms q).2.2.2.2]; exact hs.closes q,
      fun q => at_congr (hs.at_ q) (hms q).1 (hms q).2.1 (hms q).2.2.1 (fun _ => (hms q).2.2.2.1)⟩
  unfold echoNotifyRef
  simp only [hs.table]
  split
  · exact hsame
  · cases hget : tget g.st.table id with
    | none => simp only []; exact hsame
    | some e =>
      simp only []
      have hact : (s.th e).active = true := (hw.entry id e (tget_some (hs.table ▸ hget))).1
      have hnd : (s.th e).pc ≠ .done := by
        intro h; rw [active_pc] at hact; rw [h] at hact; simp at hact
      refine ⟨rfl, hs.nextId, ?_, ?_, ?_⟩
      · intro q; simp only [chanClose, setRecv, upd]
        split
        · rfl
        · rw [(hms q).2.2.2.1]; exact hs.recv q
      · intro q; simp only [chanClose, setRecv, upd]
        split
        · rename_i h; subst h; simp only [if_true]; rw [(hms _).2.2.2.2, hs.closes _]
        · rw [(hms q).2.2.2.2]; exact hs.closes q
      · intro q
        apply at_congr (hs.at_ q)
        · simp only [chanClose, setRecv, upd]; split
          · rename_i h; subst h; simp [hms]
          · exact (hms q).1
        · simp only [chanClose, setRecv, upd]; split
          · rename_i h; subst h; simp [hms]
          · exact (hms q).2.1
        · simp only [chanClose, setRecv, upd]; split
          · rename_i h; subst h; simp [hms]
          · exact (hms q).2.2.1
        · intro hd
          simp only [chanClose, setRecv, upd]; split
          · rename_i h; subst h; exact absurd hd hnd
          · exact (hms q).2.2.2.1

/-- one step of the Go side is at most one transition of the model, and the relation is kept -/
theorem sim_step {a : Nat → Args} {g g' : G} {s : State} (hs : Sim a g s) (hw : InvW s) {e : GEv}
    (hg : gstep g e = some g') : ∃ evs s', run s evs = some s' ∧ Sim a g' s' ∧ InvW s' := by
  have key : (∃ evs s', run s evs = some s' ∧ Sim a g' s') → ∃ evs s', run s evs = some s' ∧ Sim a g' s' ∧ InvW s' := by
    rintro ⟨evs, s', hr, hsim⟩
    refine ⟨evs, s', hr, hsim, ?_⟩
    clear hsim hg hs
    induction evs generalizing s with
    | nil => simp only [run] at hr; cases hr; exact hw
    | cons x xs ih =>
      simp only [run] at hr
      split at hr
      · rename_i s1 h1; exact ih (invW_step hw h1) hr
      · cases hr
  cases e with
  | tau p => exact key (sim_tau hs hg)
  | ret p err => exact key (sim_ret hs hg)
  | fire p c => exact key (sim_fire hs hg)
  | echo id =>
    simp only [gstep] at hg; cases hg
    exact key ⟨[.echo id], _, by simp only [run, echo_ref], sim_echo hs hw id⟩
  | other => simp only [gstep] at hg; cases hg; exact key ⟨[], s, rfl, hs⟩

theorem run_append (s : State) (xs ys : List Event) :
    run s (xs ++ ys) = (run s xs).bind (fun s' => run s' ys) := by
  induction xs generalizing s with
  | nil => rfl
  | cons x xs ih =>
    simp only [List.cons_append, run]
    cases step s x with
    | none => rfl
    | some s1 => exact ih s1

def grun (g : G) : List GEv → Option G
  | [] => some g
  | e :: es => match gstep g e with
    | some g' => grun g' es
    | none => none

/-- every execution of the Go side is an execution of the model -/
theorem sim_run {a : Nat → Args} {g g' : G} {s : State} (hs : Sim a g s) (hw : InvW s) (es : List GEv)
    (hg : grun g es = some g') : ∃ evs s', run s evs = some s' ∧ Sim a g' s' ∧ InvW s' := by
  induction es generalizing g s with
  | nil => simp only [grun] at hg; cases hg; exact ⟨[], s, rfl, hs, hw⟩
  | cons e es ih =>
    simp only [grun] at hg
    split at hg
    · rename_i g1 h1
      obtain ⟨ev1, s1, hr1, hs1, hw1⟩ := sim_step hs hw h1
      obtain ⟨ev2, s2, hr2, hs2, hw2⟩ := ih hs1 hw1 hg
      exact ⟨ev1 ++ ev2, s2, by rw [run_append, hr1]; exact hr2, hs2, hw2⟩
    · cases hg

/-- the initial configuration: nobody has called yet -/
def ginit (a : Nat → Args) (id0 : Nat) : G :=
  ⟨Ping.init id0, fun p => pingProg (a p).v6 p (a p).src (a p).dst (a p).timeout⟩

theorem sim_init (a : Nat → Args) (id0 : Nat) : Sim a (ginit a id0) (Ping.init id0) :=
  ⟨rfl, rfl, fun _ => rfl, fun _ => rfl, fun _ => At.init rfl⟩

end PV.Lemmas.PingSim
