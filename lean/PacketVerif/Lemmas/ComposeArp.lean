/-
  Composition Parse ∘ ARP handler: the byte-level classification `Model.ArpFrame.arpEventOf` in the
  vocabulary of the reference reading `Spec.ArpWire`, and the projections of `Spec.decode` it needs.
-/
import PacketVerif.Lemmas.Compose
import PacketVerif.Lemmas.Ndp
import PacketVerif.Model.ArpFrame
import PacketVerif.Spec.ArpWire
namespace PV.Lemmas.ComposeArp
open PV PV.Model PV.Lemmas PV.Lemmas.Compose
open PV.Spec (at_ u16 field)
open PV.Spec.ArpWire

/-! ### `arpClassify` on a payload of at least 28 bytes, in cursor form -/

/-- the classification of `arp.ProcessPacket` read off the ARP bytes with `at_` / `u16` / `field` -/
def classRef (b : Bytes) : Ndp.ArpClass :=
  if u16 b 0 ≠ 1 then .errHType
  else if u16 b 2 ≠ 0x0800 then .errProto
  else if at_ b 4 ≠ 6 then .errHLen
  else if at_ b 5 ≠ 4 then .errPLen
  else if linkLocal4 (field b 14 4) || linkLocal4 (field b 24 4) then .linkLocal
  else if u16 b 6 = 2 then .reply
  else if u16 b 6 = 1 then
    if field b 14 4 = field b 24 4 then .announcement
    else if field b 14 4 = [0, 0, 0, 0] then .probe (field b 8 6) (field b 24 4)
    else .request (field b 8 6) (field b 14 4) (field b 24 4)
  else .invalidOp

theorem u8_ne (a : UInt8) (n : Nat) (hn : n < 256) : (a ≠ UInt8.ofNat n) ↔ a.toNat ≠ n := by
  constructor
  · intro h hc; apply h; apply UInt8.toNat_inj.1; rw [hc]; simp [UInt8.toNat_ofNat, Nat.mod_eq_of_lt hn]
  · intro h hc; apply h; rw [hc]; simp [UInt8.toNat_ofNat, Nat.mod_eq_of_lt hn]

theorem slice_field (b : Bytes) (lo hi : Nat) (h1 : lo ≤ hi) (h2 : hi ≤ b.length) :
    slice b lo hi = .ok (field b lo (hi - lo)) := by
  rw [Ndp.slice_eq_ok h1 h2]
  unfold Spec.field
  rw [List.drop_take]

theorem u16be_field (b : Bytes) (k : Nat) (h : k + 2 ≤ b.length) : Ndp.u16be (field b k 2) = .ok (u16 b k) := by
  unfold Spec.field
  rw [List.drop_eq_getElem_cons (by omega : k < b.length), List.drop_eq_getElem_cons (by omega : k + 1 < b.length)]
  simp only [List.take_succ_cons, Ndp.u16be, be16, u16]
  rw [at_eq b k (by omega), at_eq b (k + 1) (by omega)]

theorem field_len (b : Bytes) (k n : Nat) (h : k + n ≤ b.length) : (field b k n).length = n := by
  unfold Spec.field; simp; omega

theorem u8_beq (a : UInt8) (n : Nat) (hn : n < 256) : (a == UInt8.ofNat n) = (a.toNat == n) := by
  rw [Bool.eq_iff_iff, beq_iff_eq, beq_iff_eq]
  constructor
  · intro h; rw [h]; simp [Nat.mod_eq_of_lt hn]
  · intro h; apply UInt8.toNat_inj.1; rw [h]; simp [Nat.mod_eq_of_lt hn]

theorem isLinkLocal4_eq (ip : Bytes) (h : ip.length = 4) : Ndp.isLinkLocal4 ip = linkLocal4 ip := by
  obtain ⟨a, b, c, d, rfl⟩ := len4 ip h
  simp only [Ndp.isLinkLocal4, linkLocal4, at_, List.getElem?_cons_zero, List.getElem?_cons_succ, Option.getD_some]
  rw [show (a == 169) = (a.toNat == 169) from u8_beq a 169 (by omega),
    show (b == 254) = (b.toNat == 254) from u8_beq b 254 (by omega)]

theorem arpClassify_ref (b : Bytes) (h : 28 ≤ b.length) : Ndp.arpClassify b = .ok (classRef b) := by
  unfold Ndp.arpClassify classRef
  rw [if_neg (by omega)]
  rw [slice_field b 0 2 (by omega) (by omega), slice_field b 2 4 (by omega) (by omega),
    slice_field b 6 8 (by omega) (by omega), slice_field b 8 14 (by omega) (by omega),
    slice_field b 14 18 (by omega) (by omega), slice_field b 24 28 (by omega) (by omega),
    Ndp.idx_eq_ok (by omega : 4 < b.length), Ndp.idx_eq_ok (by omega : 5 < b.length)]
  simp only [Outcome.bind_ok, Nat.reduceSub, u16be_field b 0 (by omega), u16be_field b 2 (by omega),
    u16be_field b 6 (by omega), Outcome.pure_eq]
  have e6 : (b[4] ≠ 6) ↔ at_ b 4 ≠ 6 := by rw [at_eq b 4 (by omega)]; exact u8_ne b[4] 6 (by omega)
  have e4 : (b[5] ≠ 4) ↔ at_ b 5 ≠ 4 := by rw [at_eq b 5 (by omega)]; exact u8_ne b[5] 4 (by omega)
  simp only [e6, e4, isLinkLocal4_eq _ (field_len b 14 4 (by omega)), isLinkLocal4_eq _ (field_len b 24 4 (by omega)),
    Bool.or_eq_true, apply_ite Outcome.ok]

/-! ### which frames Parse hands to the ARP handler -/

/-- the frame reaches `arp.ProcessPacket`: unicast Ethernet source, EtherType 0x0806 at offset 12,
    at least 28 bytes after the 14-byte header, hardware address length 6 -/
def arpGate (p : Bytes) : Bool := srcUnicast p && arpOK p

theorem udpService_mem (sp dp pid : Nat) (h : Spec.udpService sp dp = some pid) :
    ∃ e ∈ Spec.udpTable, e.2.2 = pid := by
  simp only [Spec.udpService, Option.map_eq_some_iff] at h
  obtain ⟨a, ha, hp⟩ := h
  exact ⟨a, List.mem_of_find?_eq_some ha, hp⟩

theorem udpService_ne3 (sp dp pid : Nat) (h : Spec.udpService sp dp = some pid) : pid ≠ 3 := by
  obtain ⟨e, he, rfl⟩ := udpService_mem sp dp pid h
  have : ∀ e ∈ Spec.udpTable, e.2.2 ≠ 3 := by decide
  exact this e he

theorem transport_pid_ne3 (p : Bytes) (d : Spec.Decoded) (proto o : Nat) (hd : d.pid ≠ 3) :
    (Spec.transport p d proto o).pid ≠ 3 := by
  unfold Spec.transport
  simp only []
  repeat' split
  all_goals first | exact hd | (simp only []; omega) | (rename_i h; exact udpService_ne3 _ _ _ h) | skip
  all_goals (simp only []; split <;> omega)

theorem l2Table_ne3 (et pid : Nat) (h : Spec.l2Table.lookup et = some pid) : pid ≠ 3 := by
  unfold Spec.l2Table at h
  simp only [lookup_cons_ite, List.lookup_nil] at h
  repeat' split at h
  all_goals first | (cases h; omega) | cases h

/-- what the composition needs from the reference decoder: Parse classifies the frame ARP without error
    exactly for the frames of `arpGate`; the payload then starts at offset 14 -/
def DecArp (cfg : Model.Cfg) (p : Bytes) : Prop :=
  (((Spec.decode (toSC cfg) p).pid = 3 ∧ (Spec.decode (toSC cfg) p).err = false) ↔ arpGate p = true) ∧
  (arpGate p = true → (Spec.decode (toSC cfg) p).pay = 14 ∧ (Spec.decode (toSC cfg) p).srcMAC = field p 6 6)

theorem arpGate_false_of (p : Bytes) (h : srcUnicast p = false ∨ arpOK p = false) : arpGate p = false := by
  unfold arpGate; rcases h with h | h <;> simp [h]

theorem decArp_invalid (cfg : Model.Cfg) (p : Bytes)
    (h : ¬ (14 ≤ p.length ∧ etherHeaderLenOf (u16 p 12) ≤ p.length)) : DecArp cfg p := by
  have ha : arpOK p = false := by
    apply decide_eq_false; intro hc
    apply h; refine ⟨hc.1, ?_⟩; rw [hc.2.1]; exact hc.1
  have hg := arpGate_false_of p (Or.inr ha)
  unfold DecArp
  rw [decode_invalid _ p h, hg]
  simp

theorem decArp_group (cfg : Model.Cfg) (p : Bytes) (h14 : 14 ≤ p.length)
    (hh : etherHeaderLenOf (u16 p 12) ≤ p.length) (hg : (at_ p 6 % 2 == 1) = true) : DecArp cfg p := by
  have hu := srcUnicast_not p hg
  have hgate := arpGate_false_of p (Or.inl hu)
  unfold DecArp
  decode_prefix
  simp only [hg, if_true, hgate]
  simp

theorem decArp_8023 (cfg : Model.Cfg) (p : Bytes) (h14 : 14 ≤ p.length)
    (hh : etherHeaderLenOf (u16 p 12) ≤ p.length) (hg : ¬ (at_ p 6 % 2 == 1) = true)
    (het : u16 p 12 < 1536) : DecArp cfg p := by
  have hgate := arpGate_false_of p (Or.inr (arpOK_et p (by omega)))
  unfold DecArp
  decode_prefix
  simp only [hg, het, if_true, hgate]
  simp

theorem decArp_other (cfg : Model.Cfg) (p : Bytes) (h14 : 14 ≤ p.length)
    (hh : etherHeaderLenOf (u16 p 12) ≤ p.length) (hg : ¬ (at_ p 6 % 2 == 1) = true)
    (het : ¬ u16 p 12 < 1536) (h4 : u16 p 12 ≠ 0x0800) (h6 : u16 p 12 ≠ 0x86dd)
    (ha : u16 p 12 ≠ 0x0806) : DecArp cfg p := by
  have hgate := arpGate_false_of p (Or.inr (arpOK_et p ha))
  unfold DecArp
  decode_prefix
  simp only [hg, het, beq_iff_eq, h4, h6, ha, if_false, hgate]
  cases hl : List.lookup (u16 p 12) Spec.l2Table with
  | none => simp
  | some pid =>
    have := l2Table_ne3 _ _ hl
    simp [this]

theorem decArp_ip4 (cfg : Model.Cfg) (p : Bytes) (h14 : 14 ≤ p.length)
    (hg : ¬ (at_ p 6 % 2 == 1) = true) (het : u16 p 12 = 0x0800) : DecArp cfg p := by
  have hh : etherHeaderLenOf (u16 p 12) ≤ p.length := by rw [het, hdr_ip4]; exact h14
  have hgate := arpGate_false_of p (Or.inr (arpOK_et p (by omega)))
  unfold DecArp
  decode_prefix
  simp only [hg, het, hdr_ip4, if_false, Nat.reduceLT, BEq.rfl, if_true, Nat.reduceAdd, Bool.false_eq_true, hgate]
  split
  · simp
  · refine ⟨⟨fun h => absurd h.1 (transport_pid_ne3 p _ _ _ (by simp)), fun h => by cases h⟩, fun h => by cases h⟩

theorem decArp_ip6 (cfg : Model.Cfg) (p : Bytes) (h14 : 14 ≤ p.length)
    (hg : ¬ (at_ p 6 % 2 == 1) = true) (het : u16 p 12 = 0x86dd) : DecArp cfg p := by
  have hh : etherHeaderLenOf (u16 p 12) ≤ p.length := by rw [het, hdr_ip6]; exact h14
  have hgate := arpGate_false_of p (Or.inr (arpOK_et p (by omega)))
  unfold DecArp
  decode_prefix
  simp only [hg, het, hdr_ip6, if_false, Nat.reduceLT, Nat.reduceBEq, BEq.rfl, if_true, Nat.reduceAdd,
    Bool.false_eq_true, hgate]
  split
  · simp
  · refine ⟨⟨fun h => absurd h.1 (transport_pid_ne3 p _ _ _ (by simp)), fun h => by cases h⟩, fun h => by cases h⟩

theorem decArp_arp (cfg : Model.Cfg) (p : Bytes) (h14 : 14 ≤ p.length)
    (hg : ¬ (at_ p 6 % 2 == 1) = true) (het : u16 p 12 = 0x0806) : DecArp cfg p := by
  have hh : etherHeaderLenOf (u16 p 12) ≤ p.length := by rw [het, hdr_arp]; exact h14
  have hu := srcUnicast_of p hg
  unfold DecArp
  decode_prefix
  simp only [hg, het, hdr_arp, if_false, Nat.reduceLT, Nat.reduceBEq, BEq.rfl, if_true, Nat.reduceAdd,
    Bool.false_eq_true]
  by_cases hc : p.length - 14 < 28 ∨ at_ p 18 ≠ 6
  · have ha : arpOK p = false := by apply decide_eq_false; omega
    rw [if_pos hc, arpGate_false_of p (Or.inr ha)]
    simp
  · have ha : arpOK p = true := by apply decide_eq_true; omega
    rw [if_neg hc]
    simp [arpGate, hu, ha]

theorem decArp (cfg : Model.Cfg) (p : Bytes) : DecArp cfg p := by
  by_cases hv : 14 ≤ p.length ∧ etherHeaderLenOf (u16 p 12) ≤ p.length
  · obtain ⟨h14, hh⟩ := hv
    by_cases hg : (at_ p 6 % 2 == 1) = true
    · exact decArp_group cfg p h14 hh hg
    by_cases het : u16 p 12 < 1536
    · exact decArp_8023 cfg p h14 hh hg het
    by_cases h4 : u16 p 12 = 0x0800
    · exact decArp_ip4 cfg p h14 hg h4
    by_cases h6 : u16 p 12 = 0x86dd
    · exact decArp_ip6 cfg p h14 hg h6
    by_cases ha : u16 p 12 = 0x0806
    · exact decArp_arp cfg p h14 hg ha
    exact decArp_other cfg p h14 hh hg het h4 h6 ha
  · exact decArp_invalid cfg p hv

/-! ### the handler's decision, read off the frame with the reference reading -/

/-- what the ARP handler decides about a raw frame, in the vocabulary of `Spec.ArpWire` -/
def arpEventRef (c : ArpFrame.Cfg) (offer : Bytes → Option Bytes) (p : Bytes) : Option ArpHunt.Event :=
  if srcIndividual p then
    match decodeArpFrame p with
    | none => none
    | some a =>
      match Spec.ArpWire.kindOf a with
      | .request => some (.rxRequest (field p 6 6) a.sha (a.tpa == c.routerIP))
      | .probe => some (.rxProbe a.sha (offer a.sha) a.tpa
          (Netip.prefixContains c.parse.lanAddr c.parse.lanBits a.tpa))
      | .announcement => some .rxOther
      | .reply => some .rxOther
      | .ignored => none
  else none

theorem arpGate_false_ref (c : ArpFrame.Cfg) (offer : Bytes → Option Bytes) (p : Bytes) (h : arpGate p = false) :
    arpEventRef c offer p = none := by
  unfold arpEventRef
  by_cases hu : srcIndividual p = true
  · rw [if_pos hu]
    have ha : arpOK p = false := by
      unfold arpGate at h
      have : srcUnicast p = true := hu
      simpa [this] using h
    have : decodeArpFrame p = none := by
      unfold decodeArpFrame
      unfold arpOK at ha
      have ha' := of_decide_eq_false ha
      by_cases h42 : p.length < 42
      · rw [if_pos h42]
      · rw [if_neg h42]
        by_cases het : u16 p 12 ≠ 0x0806
        · rw [if_pos het]
        · rw [if_neg het]
          have h18 : at_ p 18 ≠ 6 := by intro h18; apply ha'; omega
          rw [if_pos (Or.inr (Or.inr (Or.inl h18)))]
    rw [this]
  · rw [if_neg hu]

theorem arpEventOf_ref (c : ArpFrame.Cfg) (offer : Bytes → Option Bytes) (p : Bytes) :
    ArpFrame.arpEventOf c offer p = .ok (arpEventRef c offer p) := by
  obtain ⟨r, hp, hd⟩ := parse_spec c.parse p
  obtain ⟨hiff, hpay⟩ := decArp c.parse p
  rw [← hd] at hiff hpay
  have epid : (toDec r).pid = r.frame.pid := rfl
  have eerr : (toDec r).err = r.err.isSome := rfl
  have epay : (toDec r).pay = r.frame.offPayload := rfl
  have esrc : (toDec r).srcMAC = r.frame.srcMAC := rfl
  rw [epid, eerr] at hiff
  unfold ArpFrame.arpEventOf
  rw [hp]
  simp only [Outcome.bind_ok]
  cases hg : arpGate p with
  | false =>
    rw [arpGate_false_ref c offer p hg]
    by_cases he : r.err.isSome = true
    · rw [if_pos he]; rfl
    · rw [if_neg he]
      have he' : r.err.isSome = false := by simpa using he
      have hpid : r.frame.pid ≠ Pid.arp := by
        intro hc
        have := hiff.1 ⟨hc, he'⟩
        rw [hg] at this; cases this
      rw [if_pos hpid]; rfl
  | true =>
    obtain ⟨hpid, herr⟩ := hiff.2 hg
    obtain ⟨h14, hsrc⟩ := hpay hg
    rw [epay] at h14
    rw [esrc] at hsrc
    rw [if_neg (by rw [herr]; simp), if_neg (by rw [hpid]; simp [Pid.arp]), h14, hsrc]
    have hu : srcUnicast p = true := by unfold arpGate at hg; simp at hg; exact hg.1
    have ha : arpOK p = true := by unfold arpGate at hg; simp at hg; exact hg.2
    have ha' := of_decide_eq_true ha
    rw [sliceFrom_ok p 14 (by omega)]
    simp only [Outcome.bind_ok]
    rw [arpClassify_ref (p.drop 14) (by simp; omega)]
    simp only [Outcome.bind_ok, Outcome.pure_eq]
    congr 1
    unfold classRef arpEventRef decodeArpFrame Spec.ArpWire.kindOf
    simp only [at_drop, u16_drop, field_drop, Nat.reduceAdd]
    rw [if_pos (show srcIndividual p = true from hu), if_neg (by omega : ¬ p.length < 42),
      if_neg (by omega : ¬ u16 p 12 ≠ 0x0806)]
    by_cases c1 : u16 p 14 ≠ 1
    · rw [if_pos c1, if_pos (Or.inl c1)]; rfl
    by_cases c2 : u16 p 16 ≠ 2048
    · rw [if_neg c1, if_pos c2, if_pos (Or.inr (Or.inl c2))]; rfl
    by_cases c4 : at_ p 19 ≠ 4
    · rw [if_neg c1, if_neg c2, if_neg (by omega : ¬ at_ p 18 ≠ 6), if_pos c4,
        if_pos (Or.inr (Or.inr (Or.inr c4)))]; rfl
    rw [if_neg c1, if_neg c2, if_neg (by omega : ¬ at_ p 18 ≠ 6), if_neg c4,
      if_neg (by omega : ¬ (u16 p 14 ≠ 1 ∨ u16 p 16 ≠ 2048 ∨ at_ p 18 ≠ 6 ∨ at_ p 19 ≠ 4))]
    simp only []
    by_cases c5 : (linkLocal4 (field p 28 4) || linkLocal4 (field p 38 4)) = true
    · rw [if_pos c5, if_pos c5]; rfl
    rw [if_neg c5, if_neg c5]
    by_cases c6 : u16 p 20 = 2
    · rw [if_pos c6, if_pos c6]; rfl
    rw [if_neg c6, if_neg c6]
    by_cases c7 : u16 p 20 = 1
    · rw [if_pos c7, if_pos c7]
      by_cases c8 : field p 28 4 = field p 38 4
      · rw [if_pos c8, if_pos c8]; rfl
      rw [if_neg c8, if_neg c8]
      by_cases c9 : field p 28 4 = [0, 0, 0, 0]
      · rw [if_pos c9, if_pos c9]; rfl
      · rw [if_neg c9, if_neg c9]; rfl
    · rw [if_neg c7, if_neg c7]; rfl

/-! ### where a pending forged reply comes from -/

open ArpHunt in
/-- ProcessPacket holds the mutex for a forged reply to `m` only because a request of ARP sender `m`
    for the router was received -/
theorem holder_rx_origin (m : Bytes) : ∀ (tr : List ArpHunt.Event) (s0 s : ArpHunt.State) (os : List ArpHunt.Out),
    ArpHunt.run s0 tr = some (s, os) → s.holder = some (.rx m) →
    s0.holder = some (.rx m) ∨ ∃ e, ArpHunt.Event.rxRequest e m true ∈ tr
  | [], s0, s, _, hr, hh => by
    simp [ArpHunt.run] at hr; obtain ⟨rfl, _⟩ := hr; exact Or.inl hh
  | ev :: es, s0, s, os, hr, hh => by
    simp only [ArpHunt.run] at hr
    cases hs : ArpHunt.step s0 ev with
    | none => simp [hs] at hr
    | some q =>
      obtain ⟨s1, o⟩ := q
      simp only [hs] at hr
      cases hr2 : ArpHunt.run s1 es with
      | none => simp [hr2] at hr
      | some q2 =>
        obtain ⟨s2, os2⟩ := q2
        simp only [hr2] at hr
        cases hr
        rcases holder_rx_origin m es s1 _ os2 hr2 hh with h1 | ⟨e, he⟩
        · -- how did s1 get this holder?
          cases ev with
          | rxOther => simp only [step] at hs; cases hs; exact Or.inl h1
          | rxProbe a b c d => simp only [step] at hs; split at hs <;> (cases hs; exact Or.inl h1)
          | close =>
            simp only [step] at hs
            split at hs
            · cases hs; exact Or.inl h1
            · cases hs
          | stopHunt x y =>
            simp only [step] at hs
            split at hs
            · cases hs; exact Or.inl h1
            · cases hs
          | startHunt x v =>
            simp only [step] at hs
            split at hs
            · cases hs; exact Or.inl h1
            · split at hs
              · cases hs
              · split at hs <;> (cases hs; exact Or.inl h1)
          | check i =>
            simp only [step] at hs
            split at hs
            · split at hs
              · cases hs; exact Or.inl h1
              · split at hs <;> (cases hs; cases h1)
            · cases hs
          | restore i =>
            simp only [step] at hs
            split at hs
            · cases hs; cases h1
            · cases hs
          | forge i =>
            simp only [step] at hs
            split at hs
            · cases hs; cases h1
            · cases hs
          | wake i =>
            simp only [step] at hs
            split at hs
            · cases hs; exact Or.inl h1
            · cases hs
          | reply x =>
            simp only [step] at hs
            split at hs
            · cases hs; cases h1
            · cases hs
          | rxRequest e x r =>
            simp only [step] at hs
            split at hs
            · split at hs
              · rename_i hc
                cases hs
                have hx : x = m := by
                  have : some (Holder.rx x) = some (Holder.rx m) := h1
                  cases this; rfl
                subst hx
                have hr' : r = true := hc.2
                subst hr'
                exact Or.inr ⟨e, by simp⟩
              · cases hs; exact Or.inl h1
            · cases hs
        · exact Or.inr ⟨e, List.mem_cons_of_mem _ he⟩
