/-
  Lemmas for Props/C18FileTie: the regenerated bodies of Gen/DhcpFileGen (tools/goextract/dhcpfile.go) against
  Model/Dhcp4File.
-/
import PacketVerif.Gen.DhcpFileGen
import PacketVerif.Lemmas.DhcpFileBcast
set_option linter.unusedSimpArgs false
open PV PV.Model.Dhcp4Srv PV.Model.Dhcp4File PV.Model.Dhcp4Restart PV.Model.DhcpFileGo
namespace PV.Lemmas.DhcpFileTie

def WFRec (r : SubRec) : Prop :=
  match r.lan with
  | .v4 a b => a < 4294967296 ∧ b ≤ 32
  | _ => True

def gsubOf (n : LSub) : GSubnet :=
  { cfg := subRecOf n, broadcast := .v4 (n.lan + (psize n.bits - 1)),
    options := [(54, addrAsSlice n.server), (1, maskBytes n.bits), (3, ip4Bytes n.gw), (6, addrAsSlice n.dns)],
    nextIP := .v4 n.first }

def liftSub : Outcome LSub → Outcome GSubnet
  | .ok n => .ok (gsubOf n)
  | .err e => .err e
  | .panic => .panic
  | .hang => .hang

@[simp] theorem liftSub_ok (n : LSub) : liftSub (.ok n) = .ok (gsubOf n) := rfl
@[simp] theorem liftSub_err (e : Err) : liftSub (.err e) = .err e := rfl

theorem masked_lt (a b : Nat) (h : a < 4294967296) : a / psize b * psize b < 4294967296 :=
  Nat.lt_of_le_of_lt (Nat.div_mul_le_self a (psize b)) h

theorem masked_mod (a b : Nat) : (a / psize b * psize b) % 2 ^ (32 - b) = 0 := by
  unfold psize; exact Nat.mul_mod_left _ _

theorem newSubnet_tie (r : SubRec) (hwf : WFRec r) : Gen.DhcpFile.newSubnet r = liftSub (Model.Dhcp4File.newSubnet r) := by
  cases hl : r.lan with
  | invalid => simp [Gen.DhcpFile.newSubnet, Model.Dhcp4File.newSubnet, hl, prefixIsValid, failErr, liftSub]
  | v6 => simp [Gen.DhcpFile.newSubnet, Model.Dhcp4File.newSubnet, hl, prefixIsValid, prefixAddr, addrIs4, failErr, liftSub]
  | v4 a b =>
    simp only [WFRec, hl] at hwf
    obtain ⟨ha, hb⟩ := hwf
    have hbc := PV.Lemmas.DhcpFileBcast.bcast_be32 (a / psize b * psize b) b hb (masked_lt a b ha) (masked_mod a b)
    generalize hL : a / psize b * psize b = L at hbc
    unfold Gen.DhcpFile.newSubnet
    simp only [hl, prefixIsValid, prefixAddr, addrIs4, prefixMasked, addrAs4, zeroSubnet, zeroSubRec, indices, prefixBits, cidrMask, hL]
    have hb' : (True ∧ 0 ≤ (b:Int) ∧ (b:Int) ≤ 32) := ⟨trivial, Int.natCast_nonneg b, by omega⟩
    simp only [if_pos hb', Int.toNat_natCast]
    simp [ip4Bytes, maskBytes, List.range, List.range.loop, idxN, idx, setN, failErr, addrFrom4]
    simp only [Lemmas.DhcpFileBcast.orNot] at hbc
    simp only [hbc]
    have hmask : [UInt8.ofNat ((4294967296 - 2 ^ (32 - b)) / 16777216), UInt8.ofNat ((4294967296 - 2 ^ (32 - b)) / 65536),
        UInt8.ofNat ((4294967296 - 2 ^ (32 - b)) / 256), UInt8.ofNat (4294967296 - 2 ^ (32 - b))] = maskBytes b := rfl
    simp only [hmask]
    clear hbc hmask
    unfold Model.Dhcp4File.newSubnet
    simp only [hl, hL]
    have hpp : 0 < psize b := Nat.pow_pos (by decide)
    have hpc : ∀ x, pcontains a b x = pcontains L b x := by
      intro x; unfold pcontains; rw [← hL, Nat.mul_div_cancel _ hpp]
    have hps : psize b = 2 ^ (32 - b) := rfl
    have hsl : ∀ x, addrAsSlice (.v4 x) = ip4Bytes x := fun _ => rfl
    have hli := @apply_ite _ _ liftSub
    by_cases hdur : r.dur = 0 <;> by_cases hst : (¬r.stage = 1 ∧ ¬r.stage = 3) <;> simp [hdur, hst, hli] <;>
    (cases hg : r.gw <;> simp [prefixContains, hpc, hli]) <;>
    (rename_i g; by_cases hcg : pcontains L b g = true <;> simp [hcg, hli]) <;>
    (cases hf : r.first with
     | v4 f =>
       have hcf' : (f = 0 ∨ pcontains L b f = false) ↔ ¬(¬f = 0 ∧ pcontains L b f = true) := by
         cases pcontains L b f <;> simp
       by_cases hcf : (¬f = 0 ∧ pcontains L b f = true) <;> by_cases h1 : L + 1 < 4294967296 <;>
                 simp [prefixContains, addrIsUnspecified, addrNext, hpc, h1, hcf', hcf, hli] <;>
                 (cases hd : r.dns <;> simp [gsubOf, subRecOf, psize, hsl, hli])
     | _ => by_cases h1 : L + 1 < 4294967296 <;> simp [prefixContains, addrIsUnspecified, addrNext, hpc, h1, hli] <;>
                 (cases hd : r.dns <;> simp [gsubOf, subRecOf, psize, hsl, hli]))

/-! ### configChanged -/

theorem configChanged_tie (e : Expected) (n : LSub) (hm : n.lan % psize n.bits = 0) :
    Gen.DhcpFile.configChanged (expectedRec e) (subRecOf n) = .ok (Model.Dhcp4File.configChanged e n) := by
  have h : n.lan / psize n.bits * psize n.bits = n.lan := Nat.div_mul_cancel (Nat.dvd_of_mod_eq_zero hm)
  unfold Gen.DhcpFile.configChanged Model.Dhcp4File.configChanged
  simp [expectedRec, subRecOf, prefixMasked, addrIs4, h]
  by_cases h1 : e.lan / psize e.bits * psize e.bits = n.lan <;> by_cases h2 : e.bits = n.bits <;>
    by_cases h3 : e.gw = n.gw <;> by_cases h4 : FAddr.v4 e.dns = n.dns <;> by_cases h5 : FAddr.v4 e.server = n.server <;>
    simp [h1, h2, h3, h4, h5] <;> (rw [h2] at h1; simp [h1])

/-- every subnet `newSubnet` returns has a masked prefix (what `configChanged` relies on) -/
theorem newSubnet_masked (r : SubRec) (n : LSub) (h : Model.Dhcp4File.newSubnet r = .ok n) : n.lan % psize n.bits = 0 := by
  unfold Model.Dhcp4File.newSubnet at h
  cases hl : r.lan with
  | invalid => simp [hl] at h
  | v6 => simp [hl] at h
  | v4 a b =>
    simp only [hl] at h
    repeat' split at h
    all_goals (first | (injection h with h; subst h; exact Nat.mul_mod_left _ _) | (exact absurd h (by simp)))

/-! ### loops: a `for … in` whose body always ends in `yield` is a fold -/

def foldO {α τ} (G : α → τ → Outcome τ) : List α → τ → Outcome τ
  | [], t => .ok t
  | a :: xs, t => match G a t with
    | .ok t' => foldO G xs t'
    | .err e => .err e
    | .panic => .panic
    | .hang => .hang

def mapO {α β} (f : α → β) : Outcome α → Outcome β
  | .ok a => .ok (f a)
  | .err e => .err e
  | .panic => .panic
  | .hang => .hang

theorem forIn_fold {α σ τ} (F : α → σ → Outcome (ForInStep σ)) (G : α → τ → Outcome τ) (emb : τ → σ)
    (h : ∀ a t, F a (emb t) = mapO (fun t' => ForInStep.yield (emb t')) (G a t)) :
    ∀ xs t, forIn xs (emb t) F = mapO emb (foldO G xs t) := by
  intro xs
  induction xs with
  | nil => intro t; simp [foldO, mapO]
  | cons a xs ih =>
    intro t
    simp only [List.forIn_cons, h, foldO]
    cases G a t <;> simp [mapO, ih]

/-! ### loadByteArray -/

/-- one iteration of the lease loop of `loadByteArray`, as `Model.Dhcp4File.loadLeases` does it -/
def leaseStep (captured : MAC → Bool) (n1 n2 : LSub) (v : LeaseRec) (t : Table) : Outcome Table :=
  if v.state != 2 then .ok t
  else match v.ip with
    | .v4 ip =>
      if !pcontains n1.lan n1.bits ip then .ok t
      else if v.cid.isEmpty then .ok t
      else .ok (setLease t v.cid (loadedLease v ip (if captured v.mac && attachNet2 n2 ip then .net2 else .net1)))
    | _ => .ok t

theorem loadLeases_fold (captured : MAC → Bool) (n1 n2 : LSub) :
    ∀ xs t, loadLeases captured (some n1) (some n2) xs t = foldO (leaseStep captured n1 n2) xs t := by
  intro xs
  induction xs with
  | nil => intro t; simp [loadLeases, foldO]
  | cons v xs ih =>
    intro t
    unfold loadLeases foldO
    by_cases hs : v.state != 2
    · simp [hs, ih, leaseStep]
    · cases hip : v.ip with
      | v4 ip =>
        by_cases hc : pcontains n1.lan n1.bits ip = true <;> by_cases he : v.cid = [] <;>
          by_cases hcap : captured v.mac = true <;> by_cases ha : attachNet2 n2 ip = true <;>
          simp [hs, hip, hc, he, hcap, ha, ih, leaseStep]
      | _ => simp [hs, hip, ih, leaseStep]

def liftLoad : Outcome (LSub × LSub × Table) → Outcome (Option GSubnet × Option GSubnet × Option Table)
  | .ok (n1, n2, t) => .ok (some (gsubOf n1), some (gsubOf n2), some t)
  | .err e => .err e
  | .panic => .panic
  | .hang => .hang

def WFFile (d : FileRec) : Prop := (∀ r, d.net1 = some r → WFRec r) ∧ (∀ r, d.net2 = some r → WFRec r)

/-- `loadByteArray` after `yaml.Unmarshal` -/
def afterDec (captured : MAC → Bool) : Option FileRec → Outcome (Option GSubnet × Option GSubnet × Option Table)
  | none => .err .other
  | some d => liftLoad (loadRec captured d)

def loadBytesSpec (env : Env) (source : Bytes) : Outcome (Option GSubnet × Option GSubnet × Option Table) :=
  match openFile env.hash source with
  | .damaged => .err .other
  | .legacy y => afterDec env.captured (env.dec y)
  | .verified y => afterDec env.captured (env.dec y)

theorem bind_ite_ok {α β} (c : Prop) [Decidable c] (a b : α) (f : α → Outcome β) :
    ((if c then Outcome.ok a else Outcome.ok b) >>= f) = f (if c then a else b) := by
  split <;> rfl
theorem afterUnmarshal (env : Env) (source y : Bytes) (d : FileRec) (hwf : WFFile d)
    (hy : openLeaseFile env.hash source = .ok y) (hd : env.dec y = some d) :
    Gen.DhcpFile.Handler_loadByteArray env source = liftLoad (loadRec env.captured d) := by
  unfold Gen.DhcpFile.Handler_loadByteArray loadRec
  cases h1 : d.net1 with
  | none => simp [hy, yamlUnmarshal, hd, h1, failErr, liftLoad]
  | some r1 =>
    cases h2 : d.net2 with
    | none => simp [hy, yamlUnmarshal, hd, h1, h2, failErr, liftLoad]
    | some r2 =>
      have e1 : SubRec.mk r1.lan r1.gw r1.server r1.dns r1.first r1.dur r1.stage = r1 := rfl
      have e2 : SubRec.mk r2.lan r2.gw r2.server r2.dns r2.first r2.dur r2.stage = r2 := rfl
      simp only [hy, yamlUnmarshal, hd, h1, h2, deref, Outcome.bind_ok, Outcome.pure_eq, zeroSubRec, e1, e2, Option.isNone_some, Option.isSome_some, Bool.or_self, Bool.false_eq_true, if_false, if_true,
        newSubnet_tie r1 (hwf.1 r1 h1), newSubnet_tie r2 (hwf.2 r2 h2)]
      cases hm1 : Model.Dhcp4File.newSubnet r1 <;> simp only [liftSub, Outcome.bind_ok, Outcome.bind_err, Outcome.bind_panic, Outcome.bind_hang, liftLoad]
      rename_i m1
      cases hm2 : Model.Dhcp4File.newSubnet r2 <;> simp only [liftSub, Outcome.bind_ok, Outcome.bind_err, Outcome.bind_panic, Outcome.bind_hang, liftLoad]
      rename_i m2
      cases hls : d.leases with
      | none => simp [loadLeases]
      | some ls =>
        simp only [Option.isSome_some, if_true, sliceElems, Option.getD_some]
        rw [forIn_fold (G := leaseStep env.captured m1 m2) (emb := some)]
        · rw [loadLeases_fold]
          cases foldO (leaseStep env.captured m1 m2) ls [] <;> simp [mapO]
        · intro v t
          unfold leaseStep
          by_cases hs : (v.state != 2) = true
          · simp [hs, mapO]
          · have hs2 : v.state = 2 := by simpa using hs
            cases hip : v.ip with
            | v4 ip =>
              by_cases hc : pcontains m1.lan m1.bits ip = true <;> by_cases he : v.cid = [] <;>
                by_cases hcap : env.captured v.mac = true <;>
                simp [hs2, hip, hc, he, hcap, mapO, Gen.DhcpFile.orElseM, Gen.DhcpFile.andThenM, addrIsValid, prefixContains, gsubOf, subRecOf, prefixAddr,
                  storeLease, ptrTag, loadedLease, stateOfInt, attachNet2]
              by_cases a1 : pcontains m2.lan m2.bits ip = true <;> by_cases a2 : ip = m2.lan <;>
                by_cases a3 : ip = m2.lan + (psize m2.bits - 1) <;> by_cases a4 : ip = m2.gw <;> simp [a1, a2, a3, a4, bind_ite_ok]
            | _ => simp [hs2, hip, mapO, Gen.DhcpFile.orElseM, addrIsValid, prefixContains]

theorem loadByteArray_tie (env : Env) (source : Bytes) (hwf : ∀ y d, env.dec y = some d → WFFile d) :
    Gen.DhcpFile.Handler_loadByteArray env source = loadBytesSpec env source := by
  unfold loadBytesSpec
  cases ho : openFile env.hash source with
  | damaged =>
    unfold Gen.DhcpFile.Handler_loadByteArray
    simp [openLeaseFile, ho, failErr]
  | legacy y =>
    have hy : openLeaseFile env.hash source = .ok y := by simp [openLeaseFile, ho]
    cases hd : env.dec y with
    | none => unfold Gen.DhcpFile.Handler_loadByteArray; simp [hy, yamlUnmarshal, hd, failErr, afterDec]
    | some d => simpa [afterDec, hd] using afterUnmarshal env source y d (hwf y d hd) hy hd
  | verified y =>
    have hy : openLeaseFile env.hash source = .ok y := by simp [openLeaseFile, ho]
    cases hd : env.dec y with
    | none => unfold Gen.DhcpFile.Handler_loadByteArray; simp [hy, yamlUnmarshal, hd, failErr, afterDec]
    | some d => simpa [afterDec, hd] using afterUnmarshal env source y d (hwf y d hd) hy hd

/-! ### loadConfig -/

def loadConfigSpec (env : Env) (fname : String) : Outcome (Option GSubnet × Option GSubnet × Option Table) :=
  if fname = "" then .ok (none, none, none)
  else match env.readFile fname with
    | none => .err .other
    | some b => loadBytesSpec env b

theorem loadConfig_tie (env : Env) (fname : String) (hwf : ∀ y d, env.dec y = some d → WFFile d) :
    Gen.DhcpFile.Handler_loadConfig env fname = loadConfigSpec env fname := by
  unfold Gen.DhcpFile.Handler_loadConfig loadConfigSpec
  by_cases hf : fname = ""
  · simp [hf]
  · cases hr : env.readFile fname <;> simp [hf, readFile, hr, failErr, loadByteArray_tie env _ hwf]

/-! ### saveConfig -/

/-- `table.Leases` after the loop of `saveConfig` over the table entries `xs` -/
def accL : Option (List LeaseRec) → List (Cid × Lease) → Option (List LeaseRec)
  | o, [] => o
  | o, e :: xs => accL (if e.2.state = .allocated then sliceAppend o (leaseRecOf e) else o) xs

theorem accL_elems : ∀ xs o, sliceElems (accL o xs) = sliceElems o ++ (xs.filter (fun e => e.2.state == .allocated)).map leaseRecOf := by
  intro xs
  induction xs with
  | nil => intro o; simp [accL]
  | cons e xs ih =>
    intro o
    by_cases h : e.2.state = .allocated
    · simp only [accL, h, if_true]; rw [ih]; simp [sliceAppend, sliceElems, h]
    · simp only [accL, h, if_false]; rw [ih]; simp [h]

theorem forIn_fold_id {α σ} (F : α → σ → Outcome (ForInStep σ)) (G : α → σ → Outcome σ)
    (h : ∀ a t, F a t = mapO ForInStep.yield (G a t)) : ∀ xs t, forIn xs t F = foldO G xs t := by
  intro xs
  induction xs with
  | nil => intro t; simp [foldO]
  | cons a xs ih =>
    intro t
    simp only [List.forIn_cons, h, foldO]
    cases G a t <;> simp [mapO, ih]

def saveStep (e : Cid × Lease) (tb : FileRec) : Outcome FileRec :=
  .ok (if e.2.state = .allocated then { tb with leases := sliceAppend tb.leases (leaseRecOf e) } else tb)

theorem saveStep_fold : ∀ xs tb, foldO saveStep xs tb = .ok { tb with leases := accL tb.leases xs } := by
  intro xs
  induction xs with
  | nil => intro tb; simp [foldO, accL]
  | cons e xs ih =>
    intro tb
    by_cases h : e.2.state = .allocated <;> simp [foldO, saveStep, accL, h, ih]

/-- the record `saveConfig` hands to `yaml.Marshal` -/
def savedRec (n1 n2 : SubRec) (t : Table) : FileRec := { net1 := some n1, net2 := some n2, leases := accL none t }

def saveSpec (env : Env) (fs : List FsOp) (n1 n2 : SubRec) (t : Table) (fname : String) : Outcome (Bool × List FsOp) :=
  if fname = "" then .ok (false, fs)
  else match env.enc (savedRec n1 n2 t) with
    | none => .ok (true, fs)
    | some stream =>
      let tmp := fname ++ ".tmp"
      let w := FsOp.writeFile tmp (sealFile env.hash stream)
      if env.ioFails fs.length then .ok (true, fs ++ [w])
      else if env.ioFails (fs.length + 1) then .ok (true, fs ++ [w, .rename tmp fname, .remove tmp])
      else .ok (false, fs ++ [w, .rename tmp fname])

theorem saveConfig_tie (env : Env) (fs : List FsOp) (h : GHandler) (fname : String) (g1 g2 : GSubnet) (t : Table)
    (h1 : h.net1 = some g1) (h2 : h.net2 = some g2) (ht : h.table = some t) :
    Gen.DhcpFile.Handler_saveConfig env fs h fname = saveSpec env fs g1.cfg g2.cfg t fname := by
  unfold Gen.DhcpFile.Handler_saveConfig saveSpec
  by_cases hf : fname = ""
  · simp [hf]
  · simp only [hf, h1, h2, ht, deref, mapElems, sliceElems]
    simp
    rw [forIn_fold_id (G := saveStep)]
    · rw [saveStep_fold]
      simp only [Outcome.bind_ok, emptyRec, savedRec]
      cases he : env.enc { net1 := some g1.cfg, net2 := some g2.cfg, leases := accL none t } <;>
        by_cases w1 : env.ioFails fs.length = true <;> by_cases w2 : env.ioFails (fs.length + 1) = true <;>
        simp [yamlMarshal, he, fsCall, sealLeaseFile, w1, w2, hf]
    · intro e tb
      cases hs : e.2.state <;> simp [saveStep, entryState, hs, mapO, leaseValue]

/-! ### Config.New -/

/-- what `loadConfig` returns, at model level: `none` = no file name -/
def loadModel (env : Env) (fname : String) : Outcome (Option (LSub × LSub × Table)) :=
  if fname = "" then .ok none
  else match env.readFile fname with
    | none => .err .other
    | some b =>
      match openFile env.hash b with
      | .damaged => .err .other
      | .legacy y => (match env.dec y with | none => .err .other | some d => mapO some (loadRec env.captured d))
      | .verified y => (match env.dec y with | none => .err .other | some d => mapO some (loadRec env.captured d))

def liftLoad2 : Outcome (Option (LSub × LSub × Table)) → Outcome (Option GSubnet × Option GSubnet × Option Table)
  | .ok none => .ok (none, none, none)
  | .ok (some (n1, n2, t)) => .ok (some (gsubOf n1), some (gsubOf n2), some t)
  | .err e => .err e
  | .panic => .panic
  | .hang => .hang

theorem loadConfigSpec_model (env : Env) (fname : String) : loadConfigSpec env fname = liftLoad2 (loadModel env fname) := by
  unfold loadConfigSpec loadModel
  by_cases hf : fname = ""
  · simp [hf, liftLoad2]
  · cases hr : env.readFile fname with
    | none => simp [hf, liftLoad2]
    | some b =>
      cases ho : openFile env.hash b with
      | damaged => simp [hf, loadBytesSpec, ho, liftLoad2]
      | legacy y =>
        cases hd : env.dec y with
        | none => simp [hf, loadBytesSpec, ho, hd, afterDec, liftLoad2]
        | some d => cases hl : loadRec env.captured d <;> simp [hf, loadBytesSpec, ho, hd, hl, afterDec, mapO, liftLoad, liftLoad2]
      | verified y =>
        cases hd : env.dec y with
        | none => simp [hf, loadBytesSpec, ho, hd, afterDec, liftLoad2]
        | some d => cases hl : loadRec env.captured d <;> simp [hf, loadBytesSpec, ho, hd, hl, afterDec, mapO, liftLoad, liftLoad2]

/-- the reset branch of `Config.New` -/
def resetSpec (home nf : Expected) : Outcome Built :=
  match Model.Dhcp4File.newSubnet (expectedRec home) with
  | .ok n1 =>
    (match Model.Dhcp4File.newSubnet (expectedRec nf) with
     | .ok n2 => .ok { net1 := n1, net2 := n2, table := [] }
     | .err e => .err e
     | .panic => .panic
     | .hang => .hang)
  | .err e => .err e
  | .panic => .panic
  | .hang => .hang

def fromModel (home nf : Expected) : Outcome (Option (LSub × LSub × Table)) → Outcome Built
  | .ok none => resetSpec home nf
  | .ok (some (n1, n2, t)) => if configChanged home n1 || configChanged nf n2 then resetSpec home nf else .ok { net1 := n1, net2 := n2, table := t }
  | .err _ => resetSpec home nf
  | .panic => .panic
  | .hang => .hang

theorem loadFile_model (env : Env) (fname : String) (home nf : Expected) :
    loadFile env.hash env.dec home nf env.captured (if fname = "" then none else env.readFile fname) = fromModel home nf (loadModel env fname) := by
  unfold loadModel
  by_cases hf : fname = ""
  · (simp [hf, loadFile, construct, fromModel, resetSpec] <;> try rfl)
  · cases hr : env.readFile fname with
    | none => (simp [hf, loadFile, construct, fromModel, resetSpec] <;> try rfl)
    | some b =>
      cases ho : openFile env.hash b with
      | damaged => (simp [hf, loadFile, ho, construct, fromModel, resetSpec] <;> try rfl)
      | legacy y =>
        cases hd : env.dec y with
        | none => (simp [hf, loadFile, ho, hd, construct, fromModel, resetSpec] <;> try rfl)
        | some d => cases hl : loadRec env.captured d <;> (simp [hf, loadFile, ho, hd, hl, construct, mapO, fromModel, resetSpec] <;> try rfl)
      | verified y =>
        cases hd : env.dec y with
        | none => (simp [hf, loadFile, ho, hd, construct, fromModel, resetSpec] <;> try rfl)
        | some d => cases hl : loadRec env.captured d <;> (simp [hf, loadFile, ho, hd, hl, construct, mapO, fromModel, resetSpec] <;> try rfl)

theorem loadRec_masked (cap : MAC → Bool) (d : FileRec) (n1 n2 : LSub) (t : Table) (h : loadRec cap d = .ok (n1, n2, t)) :
    n1.lan % psize n1.bits = 0 ∧ n2.lan % psize n2.bits = 0 := by
  unfold loadRec at h
  cases h1 : d.net1 with
  | none => simp [h1] at h
  | some r1 =>
    cases h2 : d.net2 with
    | none => simp [h1, h2] at h
    | some r2 =>
      simp only [h1, h2] at h
      cases hm1 : Model.Dhcp4File.newSubnet r1 with
      | ok m1 =>
        cases hm2 : Model.Dhcp4File.newSubnet r2 with
        | ok m2 =>
          simp only [hm1, hm2] at h
          cases hl : loadLeases cap (some m1) (some m2) (d.leases.getD []) [] with
          | ok t' =>
            simp only [hl] at h
            injection h with h
            injection h with ha hb
            injection hb with hb hc
            subst ha; subst hb
            exact ⟨newSubnet_masked _ _ hm1, newSubnet_masked _ _ hm2⟩
          | _ => simp [hl] at h
        | _ => simp [hm1, hm2] at h
      | _ => simp [hm1] at h

theorem loadModel_masked (env : Env) (fname : String) (n1 n2 : LSub) (t : Table) (h : loadModel env fname = .ok (some (n1, n2, t))) :
    n1.lan % psize n1.bits = 0 ∧ n2.lan % psize n2.bits = 0 := by
  unfold loadModel at h
  by_cases hf : fname = ""
  · simp [hf] at h
  · simp only [hf, if_false] at h
    cases hr : env.readFile fname with
    | none => simp [hr] at h
    | some b =>
      simp only [hr] at h
      cases ho : openFile env.hash b with
      | damaged => simp [ho] at h
      | legacy y =>
        simp only [ho] at h
        cases hd : env.dec y with
        | none => simp [hd] at h
        | some d =>
          simp only [hd] at h
          cases hl : loadRec env.captured d <;> simp [hl, mapO] at h
          subst h; exact loadRec_masked _ _ _ _ _ hl
      | verified y =>
        simp only [ho] at h
        cases hd : env.dec y with
        | none => simp [hd] at h
        | some d =>
          simp only [hd] at h
          cases hl : loadRec env.captured d <;> simp [hl, mapO] at h
          subst h; exact loadRec_masked _ _ _ _ _ hl

def cfgOf (n : NewCfg) (modeI : Int) (fname : String) : GConfig :=
  { mode := modeI, netfilterIP := .v4 n.nfAddr n.nfBits, dns := (match n.dns with | some d => .v4 d | none => .invalid), filename := fname }
def nicOf (n : NewCfg) : GNic := { homeLAN4 := .v4 n.homeLan n.homeBits, router := .v4 n.router, host := .v4 n.host }
def normMode (m : Int) : Int := if m != 1 && m != 2 && m != 3 then 3 else m
def WFNew (n : NewCfg) : Prop := n.homeLan < 4294967296 ∧ n.homeBits ≤ 32 ∧ n.nfAddr < 4294967296 ∧ n.nfBits ≤ 32

def handlerOf (modeI : Int) (fname : String) (b : Built) : GHandler :=
  { mode := normMode modeI, filename := fname, table := some b.table, net1 := some (gsubOf b.net1),
    net2 := some (appendRouteOptions (gsubOf b.net2) (.v4 b.net1.gw) (cidrMask b.net1.bits (32 - (b.net1.bits : Int))) (.v4 b.net2.gw)) }

def newSpec (env : Env) (fs : List FsOp) (n : NewCfg) (modeI : Int) (fname : String) : Outcome (GHandler × List FsOp) :=
  if n.accepted = false then .err .other else
  match loadFile env.hash env.dec (homeExp n) (nfExp n) env.captured (if fname = "" then none else env.readFile fname) with
  | .ok b =>
    (match saveSpec env fs (subRecOf b.net1) (subRecOf b.net2) b.table fname with
     | .ok r => .ok (handlerOf modeI fname b, r.2)
     | .err e => .err e
     | .panic => .panic
     | .hang => .hang)
  | .err e => .err e
  | .panic => .panic
  | .hang => .hang

/-- an expectation with its prefix already masked (what `Config.New` passes for the netfilter subnet) -/
def maskedExp (e : Expected) : Expected := { e with lan := e.lan / psize e.bits * psize e.bits }

theorem mask_idem (a b : Nat) : a / psize b * psize b / psize b * psize b = a / psize b * psize b := by
  unfold psize
  rw [Nat.mul_div_cancel _ (Nat.pow_pos (by decide))]

theorem newSubnet_maskedExp (e : Expected) :
    Model.Dhcp4File.newSubnet (expectedRec (maskedExp e)) = Model.Dhcp4File.newSubnet (expectedRec e) := by
  simp only [Model.Dhcp4File.newSubnet, expectedRec, maskedExp, mask_idem]
  rfl

theorem configChanged_maskedExp (e : Expected) (x : LSub) :
    Model.Dhcp4File.configChanged (maskedExp e) x = Model.Dhcp4File.configChanged e x := by
  simp only [Model.Dhcp4File.configChanged, maskedExp, mask_idem]

theorem liftSub_bind {β} (x : Outcome LSub) (f : GSubnet → Outcome β) :
    (liftSub x >>= f) = match x with | .ok n => f (gsubOf n) | .err e => .err e | .panic => .panic | .hang => .hang := by
  cases x <;> rfl

set_option hygiene false in
/-- the reset branch: both subnets from `newSubnet`, empty table, route options, save -/
macro "reset_branch" : tactic => `(tactic| (
  cases hr1 : Model.Dhcp4File.newSubnet (expectedRec (homeExp n)) <;> simp only []
  cases hr2 : Model.Dhcp4File.newSubnet (expectedRec (nfExp n)) <;> simp only []
  rw [PV.Lemmas.DhcpFileTie.saveConfig_tie env fs _ fname _ _ _ rfl rfl rfl]
  simp only [hcfg, gsubOf]
  generalize saveSpec env fs _ _ _ fname = S
  cases S <;> simp [handlerOf, normMode, hmode, gsubOf, subRecOf, prefixBits]))

theorem New_tie (env : Env) (fs : List FsOp) (n : NewCfg) (modeI : Int) (fname : String) (hn : WFNew n)
    (hwf : ∀ y d, env.dec y = some d → WFFile d) :
    Gen.DhcpFile.Config_New env fs (cfgOf n modeI fname) (nicOf n) = newSpec env fs n modeI fname := by
  unfold Gen.DhcpFile.Config_New newSpec
  by_cases hacc : n.accepted = true
  · have hacc' := hacc
    simp only [NewCfg.accepted, Bool.and_eq_true, decide_eq_true_eq] at hacc'
    obtain ⟨hc, hb⟩ := hacc'
    have hc' : pcontains n.homeLan n.homeBits n.nfAddr = true := by simpa [pcontains, psize] using hc
    have hb' : ¬ ((n.nfBits : Int) < (n.homeBits : Int)) := by omega
    have hdns : (if (!addrIsValid (match n.dns with | some d => FAddr.v4 d | none => FAddr.invalid)) = true then FAddr.v4 n.router
                 else (match n.dns with | some d => FAddr.v4 d | none => FAddr.invalid)) = FAddr.v4 (n.dns.getD n.router) := by
      cases n.dns <;> simp [addrIsValid]
    cases hd : n.dns <;> by_cases hmode : (modeI != 1 && modeI != 2 && modeI != 3) = true <;>
      simp only [cfgOf, nicOf, prefixIsValid, prefixContains, prefixAddr, prefixBits, zeroHandler, loadConfig_tie env _ hwf, hc', hb', hd, hmode, hacc,
        addrIsValid, Bool.not_true, Bool.not_false, Bool.false_eq_true, if_false, if_true, decide_false, decide_true, Outcome.bind_ok, Outcome.pure_eq]
    all_goals (
      rw [loadConfigSpec_model, loadFile_model]
      have hmk := loadModel_masked env fname
      generalize loadModel env fname = Lm at hmk ⊢
      have hH : SubRec.mk (.v4 n.homeLan n.homeBits) (.v4 n.router) (.v4 n.host) (.v4 (n.dns.getD n.router)) zeroSubRec.first zeroSubRec.dur 1
          = expectedRec (homeExp n) := rfl
      simp only [hd, Option.getD_none, Option.getD_some] at hH
      have hN : SubRec.mk (prefixMasked (.v4 n.nfAddr n.nfBits)) (.v4 n.nfAddr) (.v4 n.host) familyDNSAddr zeroSubRec.first zeroSubRec.dur 3
          = expectedRec (maskedExp (nfExp n)) := rfl
      have wfH : WFRec (expectedRec (homeExp n)) := ⟨hn.1, hn.2.1⟩
      have wfN : WFRec (expectedRec (maskedExp (nfExp n))) := ⟨masked_lt _ _ hn.2.2.1, hn.2.2.2⟩
      simp only [hH, hN, PV.Lemmas.DhcpFileTie.newSubnet_tie _ wfH, PV.Lemmas.DhcpFileTie.newSubnet_tie _ wfN, newSubnet_maskedExp]
      have hcfg : ∀ g ip m r, (appendRouteOptions g ip m r).cfg = g.cfg := fun _ _ _ _ => rfl
      cases Lm with
      | panic => simp [liftLoad2, try3, fromModel]
      | hang => simp [liftLoad2, try3, fromModel]
      | err e =>
        simp [liftLoad2, try3, fromModel, Gen.DhcpFile.orElseM, deref, liftSub_bind, resetSpec]
        reset_branch
      | ok o =>
        cases o with
        | none =>
          simp [liftLoad2, try3, fromModel, Gen.DhcpFile.orElseM, deref, liftSub_bind, resetSpec]
          reset_branch
        | some tr =>
          obtain ⟨n1, n2, t⟩ := tr
          obtain ⟨hm1, hm2⟩ := hmk n1 n2 t rfl
          have hg1 : (gsubOf n1).cfg = subRecOf n1 := rfl
          have hg2 : (gsubOf n2).cfg = subRecOf n2 := rfl
          simp only [liftLoad2, try3, fromModel, Gen.DhcpFile.orElseM, deref, Outcome.bind_ok, Outcome.pure_eq, hg1, hg2,
            PV.Lemmas.DhcpFileTie.configChanged_tie _ _ hm1, PV.Lemmas.DhcpFileTie.configChanged_tie _ _ hm2, configChanged_maskedExp,
            Option.isNone_some, Bool.or_false, Bool.false_or, Bool.false_eq_true, if_false]
          by_cases c1 : Model.Dhcp4File.configChanged (homeExp n) n1 = true
          · simp [c1, liftSub_bind, resetSpec]
            reset_branch
          · by_cases c2 : Model.Dhcp4File.configChanged (nfExp n) n2 = true
            · simp [c1, c2, liftSub_bind, resetSpec]
              reset_branch
            · simp only [c1, c2, if_false, Outcome.bind_ok, Bool.false_eq_true, Bool.or_self]
              rw [PV.Lemmas.DhcpFileTie.saveConfig_tie env fs _ fname _ _ _ rfl rfl rfl]
              simp only [hcfg, gsubOf]
              generalize saveSpec env fs _ _ _ fname = S
              cases S <;> simp [handlerOf, normMode, hmode, gsubOf, subRecOf, prefixBits])
  · have hacc' : n.accepted = false := by simpa using hacc
    simp only [NewCfg.accepted, Bool.and_eq_false_iff, decide_eq_false_iff_not] at hacc'
    by_cases hc' : pcontains n.homeLan n.homeBits n.nfAddr = true
    · have hb' : ((n.nfBits : Int) < (n.homeBits : Int)) := by
        rcases hacc' with h | h
        · simp [pcontains, psize, h] at hc'
        · omega
      simp [cfgOf, nicOf, prefixIsValid, prefixContains, prefixAddr, prefixBits, hacc, hc', hb', failErr]
    · simp [cfgOf, nicOf, prefixIsValid, prefixContains, prefixAddr, prefixBits, hacc, hc', failErr]
