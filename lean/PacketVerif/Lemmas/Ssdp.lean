/-
  Helper lemmas for Props/C08Ssdp.lean: the index form of the CACHE-CONTROL pair loop stays in range and computes
  what the pattern-matching model `Model.findMaxAge` computes.
-/
import PacketVerif.Model.Ssdp
namespace PV.Lemmas.Ssdp
open PV PV.Model PV.Model.Ssdp

theorem at_ok (l : List Bytes) (i : Nat) (h : i < l.length) : at_ l i = .ok l[i] := by
  simp [at_, List.getElem?_eq_getElem h]

theorem findMaxAge_short (l : List Bytes) (h : l.length < 2) : findMaxAge l = none := by
  match l, h with
  | [], _ => rfl
  | [_], _ => rfl

/-- the loop from index `i` with enough fuel: in range, and the value `findMaxAge` finds in `options[i:]` -/
theorem pairLoop_eq (options : List Bytes) : ∀ (fuel i : Nat), options.length < i + 2 * fuel → 0 < fuel →
    pairLoop options fuel i = .ok (findMaxAge (options.drop i))
  | 0, i, h, h0 => by omega
  | fuel + 1, i, h, _ => by
    rw [pairLoop]
    by_cases hi : i + 1 < options.length
    · rw [if_pos hi, at_ok options i (by omega)]
      simp only [Outcome.bind_ok]
      have hd : options.drop i = options[i] :: options[i + 1] :: options.drop (i + 2) := by
        rw [List.drop_eq_getElem_cons (by omega : i < options.length),
          List.drop_eq_getElem_cons (by omega : i + 1 < options.length)]
      rw [hd]
      simp only [findMaxAge]
      by_cases hk : (toLowerAscii options[i] == maxAge) = true
      · rw [if_pos hk, if_pos hk, at_ok options (i + 1) hi]; rfl
      · rw [if_neg hk, if_neg hk]
        exact pairLoop_eq options fuel (i + 2) (by omega) (by omega)
    · rw [if_neg hi, findMaxAge_short _ (by rw [List.length_drop]; omega)]; rfl

theorem aliveSeconds_eq (cc : Bytes) : aliveSeconds cc = ssdpExpirySeconds cc := by
  unfold aliveSeconds ssdpExpirySeconds
  by_cases h : ((splitOn 61 cc).length % 2 == 0) = true
  · simp only [h, if_true]
    rw [pairLoop_eq _ _ 0 (by omega) (by omega)]
    simp only [List.drop_zero, Outcome.bind_ok]
    cases findMaxAge (splitOn 61 cc) with
    | none => rfl
    | some v => simp only [Outcome.pure_eq, Outcome.bind_ok]; cases atoiSmall v <;> rfl
  · simp only [h, Bool.false_eq_true, if_false]; rfl

theorem aliveSeconds_ok (cc : Bytes) : ∃ s, aliveSeconds cc = .ok s := by
  rw [aliveSeconds_eq]
  unfold ssdpExpirySeconds
  simp only []
  split <;> exact ⟨_, rfl⟩

end PV.Lemmas.Ssdp
