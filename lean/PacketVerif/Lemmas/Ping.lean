/-
  Invariants of the ping machine (Model/Ping.lean) and their preservation by every step.
  `InvW` needs no hypothesis; `Inv` needs the identifier counter not to wrap (`NoWrap`).
-/
import PacketVerif.Model.Ping
namespace PV.Lemmas.Ping
open PV PV.Model.Ping

@[simp] theorem upd_same (f : Nat → Thread) (p : Nat) (t : Thread) : upd f p t p = t := by simp [upd]
theorem upd_other (f : Nat → Thread) (p q : Nat) (t : Thread) (h : q ≠ p) : upd f p t q = f q := by
  simp [upd, h]

theorem mem_tdel {t : List (Nat × Nat)} {id i q : Nat} : (i, q) ∈ tdel t id ↔ (i, q) ∈ t ∧ i ≠ id := by
  simp [tdel]

theorem mem_tset {t : List (Nat × Nat)} {id p i q : Nat} :
    (i, q) ∈ tset t id p ↔ (i = id ∧ q = p) ∨ ((i, q) ∈ t ∧ i ≠ id) := by
  simp [tset, mem_tdel]

theorem tget_some {t : List (Nat × Nat)} {id q : Nat} (h : tget t id = some q) : (id, q) ∈ t := by
  unfold tget at h
  cases hf : t.find? (fun e => e.1 = id) with
  | none => simp [hf] at h
  | some e =>
    simp [hf] at h
    have h1 := List.find?_some hf
    have h2 := List.mem_of_find?_eq_some hf
    simp at h1
    cases e with
    | mk a b => simp at h h1; subst h; subst h1; exact h2

theorem tget_none {t : List (Nat × Nat)} {id : Nat} (h : tget t id = none) : ∀ q, (id, q) ∉ t := by
  unfold tget at h
  intro q hq
  cases hf : t.find? (fun e => e.1 = id) with
  | none =>
    have := List.find?_eq_none.mp hf (id, q) hq
    simp at this
  | some e => simp [hf] at h

/-- wrap-insensitive invariant -/
structure InvW (s : State) : Prop where
  entry : ∀ i q, (i, q) ∈ s.table →
    (s.th q).active = true ∧ (s.th q).id = i ∧ (s.th q).closes = 0 ∧ (s.th q).recv = false
  closes_le : ∀ p, (s.th p).closes ≤ 1
  fresh : ∀ p, (s.th p).pc = .init → (s.th p).closes = 0 ∧ (s.th p).recv = false ∧ (s.th p).seen = false
            ∧ (s.th p).sent = false

theorem invW_init (id0 : Nat) : InvW (init id0) := by
  constructor <;> simp [init]

theorem active_pc {t : Thread} : t.active = true ↔ (t.pc = .send ∨ t.pc = .cleanup ∨ t.pc = .wait ∨ t.pc = .unreg) := by
  cases t with | mk pc _ _ _ _ _ _ => cases pc <;> simp [Thread.active]

theorem invW_step {s s' : State} {e : Event} (h : InvW s) (hs : step s e = some s') : InvW s' := by
  obtain ⟨hE, hC, hF⟩ := h
  cases e with
  | reg p =>
    simp only [step] at hs
    split at hs
    · rename_i hp
      cases hs
      obtain ⟨f1, f2, f3, f4⟩ := hF p hp
      refine ⟨?_, ?_, ?_⟩
      · intro i q hm
        rcases mem_tset.mp hm with ⟨rfl, rfl⟩ | ⟨hm, hne⟩
        · simp [Thread.active, f1, f2]
        · have := hE i q hm
          by_cases hq : q = p
          · subst hq; simp [active_pc, hp] at this
          · simpa [upd_other _ _ _ _ hq] using this
      · intro q; by_cases hq : q = p
        · subst hq; simp; exact hC q
        · simpa [upd_other _ _ _ _ hq] using hC q
      · intro q; by_cases hq : q = p
        · subst hq; simp
        · simpa [upd_other _ _ _ _ hq] using hF q
    · cases hs
  | sendOk p =>
    simp only [step] at hs
    split at hs
    · rename_i hp
      cases hs
      refine ⟨?_, ?_, ?_⟩
      · intro i q hm
        have := hE i q hm
        by_cases hq : q = p
        · subst hq; simpa [Thread.active, hp] using this
        · simpa [upd_other _ _ _ _ hq] using this
      · intro q; by_cases hq : q = p
        · subst hq; simp; exact hC q
        · simpa [upd_other _ _ _ _ hq] using hC q
      · intro q; by_cases hq : q = p
        · subst hq; simp
        · simpa [upd_other _ _ _ _ hq] using hF q
    · cases hs
  | sendErr p =>
    simp only [step] at hs
    split at hs
    · rename_i hp
      cases hs
      refine ⟨?_, ?_, ?_⟩
      · intro i q hm
        have := hE i q hm
        by_cases hq : q = p
        · subst hq; simpa [Thread.active, hp] using this
        · simpa [upd_other _ _ _ _ hq] using this
      · intro q; by_cases hq : q = p
        · subst hq; simp; exact hC q
        · simpa [upd_other _ _ _ _ hq] using hC q
      · intro q; by_cases hq : q = p
        · subst hq; simp
        · simpa [upd_other _ _ _ _ hq] using hF q
    · cases hs
  | cleanup p =>
    simp only [step] at hs
    split at hs
    · rename_i hp
      cases hs
      refine ⟨?_, ?_, ?_⟩
      · intro i q hm
        obtain ⟨hm, hne⟩ := mem_tdel.mp hm
        have := hE i q hm
        by_cases hq : q = p
        · subst hq; exact absurd this.2.1.symm (by simpa using hne)
        · simpa [upd_other _ _ _ _ hq] using this
      · intro q; by_cases hq : q = p
        · subst hq; simp; exact hC q
        · simpa [upd_other _ _ _ _ hq] using hC q
      · intro q; by_cases hq : q = p
        · subst hq; simp
        · simpa [upd_other _ _ _ _ hq] using hF q
    · cases hs
  | wake p =>
    simp only [step] at hs
    split at hs
    · rename_i hp
      cases hs
      refine ⟨?_, ?_, ?_⟩
      · intro i q hm
        have := hE i q hm
        by_cases hq : q = p
        · subst hq; simpa [Thread.active, hp.1] using this
        · simpa [upd_other _ _ _ _ hq] using this
      · intro q; by_cases hq : q = p
        · subst hq; simp; exact hC q
        · simpa [upd_other _ _ _ _ hq] using hC q
      · intro q; by_cases hq : q = p
        · subst hq; simp
        · simpa [upd_other _ _ _ _ hq] using hF q
    · cases hs
  | timeout p =>
    simp only [step] at hs
    split at hs
    · rename_i hp
      cases hs
      refine ⟨?_, ?_, ?_⟩
      · intro i q hm
        have := hE i q hm
        by_cases hq : q = p
        · subst hq; simpa [Thread.active, hp] using this
        · simpa [upd_other _ _ _ _ hq] using this
      · intro q; by_cases hq : q = p
        · subst hq; simp; exact hC q
        · simpa [upd_other _ _ _ _ hq] using hC q
      · intro q; by_cases hq : q = p
        · subst hq; simp
        · simpa [upd_other _ _ _ _ hq] using hF q
    · cases hs
  | unreg p =>
    simp only [step] at hs
    split at hs
    · rename_i hp
      cases hs
      refine ⟨?_, ?_, ?_⟩
      · intro i q hm
        obtain ⟨hm, hne⟩ := mem_tdel.mp hm
        have := hE i q hm
        by_cases hq : q = p
        · subst hq; exact absurd this.2.1.symm (by simpa using hne)
        · simpa [upd_other _ _ _ _ hq] using this
      · intro q; by_cases hq : q = p
        · subst hq; simp; exact hC q
        · simpa [upd_other _ _ _ _ hq] using hC q
      · intro q; by_cases hq : q = p
        · subst hq; simp
        · simpa [upd_other _ _ _ _ hq] using hF q
    · cases hs
  | other => simp only [step] at hs; cases hs; exact ⟨hE, hC, hF⟩
  | echo id =>
    -- markSeen only touches the history field of active threads
    have ms_pc : ∀ q, (markSeen s.th id q).pc = (s.th q).pc ∧ (markSeen s.th id q).id = (s.th q).id ∧
        (markSeen s.th id q).closes = (s.th q).closes ∧ (markSeen s.th id q).recv = (s.th q).recv ∧
        (markSeen s.th id q).sent = (s.th q).sent ∧ (markSeen s.th id q).active = (s.th q).active := by
      intro q; unfold markSeen; split <;> simp [Thread.active]
    have ms_fresh : ∀ q, (s.th q).pc = .init → markSeen s.th id q = s.th q := by
      intro q hq; unfold markSeen
      have : (s.th q).active = false := by simp [Thread.active, hq]
      simp [this]
    have base : InvW { s with th := markSeen s.th id } := by
      refine ⟨?_, ?_, ?_⟩
      · intro i q hm
        have := hE i q hm
        obtain ⟨a, b, c, d, _, f⟩ := ms_pc q
        simp only [f, b, c, d]; exact this
      · intro q; rw [(ms_pc q).2.2.1]; exact hC q
      · intro q hq
        have hq' : (s.th q).pc = .init := by rw [← (ms_pc q).1]; exact hq
        simp only [ms_fresh q hq']; exact hF q hq'
    simp only [step] at hs
    split at hs
    · cases hs; exact base
    · split at hs
      · cases hs; exact base
      · rename_i q hg
        cases hs
        have hm := tget_some hg
        obtain ⟨bE, bC, bF⟩ := base
        have hq := bE id q hm
        refine ⟨?_, ?_, ?_⟩
        · intro i r hmr
          obtain ⟨hmr, hne⟩ := mem_tdel.mp hmr
          have hr := bE i r hmr
          by_cases hrq : r = q
          · subst hrq; exact absurd (hr.2.1.symm.trans hq.2.1) hne
          · simpa [upd_other _ _ _ _ hrq] using hr
        · intro r; by_cases hrq : r = q
          · subst hrq; simp; have := hq.2.2.1; simp at this; omega
          · simpa [upd_other _ _ _ _ hrq] using bC r
        · intro r; by_cases hrq : r = q
          · subst hrq
            intro hpc
            have : (markSeen s.th id r).active = true := hq.1
            simp at hpc
            simp [Thread.active, hpc] at this
          · simpa [upd_other _ _ _ _ hrq] using bF r


/-- invariant that needs the identifier counter not to wrap -/
structure Inv (s : State) : Prop where
  w : InvW s
  lt : ∀ p, (s.th p).active = true → (s.th p).id < s.nextId
  distinct : ∀ p q, (s.th p).active = true → (s.th q).active = true → (s.th p).id = (s.th q).id → p = q
  inTab : ∀ p, (s.th p).active = true →
      (((s.th p).id, p) ∈ s.table ∧ (s.th p).seen = false) ∨
      ((s.th p).recv = true ∧ (s.th p).closes = 1 ∧ (s.th p).seen = true)
  sentPc : ∀ p, (((s.th p).pc = .wait ∨ (s.th p).pc = .unreg) → (s.th p).sent = true) ∧
               (((s.th p).pc = .send ∨ (s.th p).pc = .cleanup) → (s.th p).sent = false)
  doneRet : ∀ p, (s.th p).pc = .done →
      ((s.th p).ret = .nil ↔ ((s.th p).sent = true ∧ (s.th p).seen = true)) ∧
      ((s.th p).ret = .timeout ↔ ((s.th p).sent = true ∧ (s.th p).seen = false)) ∧
      ((s.th p).ret = .sendErr ↔ (s.th p).sent = false)

theorem inv_init (id0 : Nat) : Inv (init id0) := by
  refine ⟨invW_init id0, ?_, ?_, ?_, ?_, ?_⟩ <;> simp [init, Thread.active]

/-- a thread moves between two registered program counters; table and counter untouched -/
theorem inv_pcmove {s : State} (h : Inv s) (p : Nat) (pc' : Pc) (sent' : Bool)
    (hact : (s.th p).active = true)
    (hact' : ({ s.th p with pc := pc', sent := sent' } : Thread).active = true)
    (hsent : ((pc' = .wait ∨ pc' = .unreg) → sent' = true) ∧ ((pc' = .send ∨ pc' = .cleanup) → sent' = false))
    (hw : InvW { s with th := upd s.th p { s.th p with pc := pc', sent := sent' } }) :
    Inv { s with th := upd s.th p { s.th p with pc := pc', sent := sent' } } := by
  obtain ⟨_, hL, hD, hT, hS, hR⟩ := h
  have act : ∀ q, (upd s.th p { s.th p with pc := pc', sent := sent' } q).active = (s.th q).active := by
    intro q; by_cases hq : q = p
    · subst hq; simp [hact]; exact hact'
    · simp [upd_other _ _ _ _ hq]
  have idq : ∀ q, (upd s.th p { s.th p with pc := pc', sent := sent' } q).id = (s.th q).id := by
    intro q; by_cases hq : q = p
    · subst hq; simp
    · simp [upd_other _ _ _ _ hq]
  refine ⟨hw, ?_, ?_, ?_, ?_, ?_⟩
  · intro q hq; simp only [act, idq] at hq ⊢; exact hL q hq
  · intro q r hq hr he; simp only [act, idq] at hq hr he; exact hD q r hq hr he
  · intro q hq; simp only [act, idq] at hq ⊢
    by_cases hqp : q = p
    · subst hqp; simpa using hT q hq
    · simpa [upd_other _ _ _ _ hqp] using hT q hq
  · intro q; by_cases hqp : q = p
    · subst hqp; simpa using hsent
    · simpa [upd_other _ _ _ _ hqp] using hS q
  · intro q; by_cases hqp : q = p
    · subst hqp; intro hpc; simp at hpc; subst hpc; simp [Thread.active] at hact'
    · simpa [upd_other _ _ _ _ hqp] using hR q

/-- a registered thread unregisters (`cleanup` / `unreg`) -/
theorem inv_leave {s : State} (h : Inv s) (p : Nat) (r : Ret)
    (hact : (s.th p).active = true)
    (hret : (r = .nil ↔ ((s.th p).sent = true ∧ (s.th p).seen = true)) ∧
            (r = .timeout ↔ ((s.th p).sent = true ∧ (s.th p).seen = false)) ∧
            (r = .sendErr ↔ (s.th p).sent = false))
    (hw : InvW { s with table := tdel s.table (s.th p).id, th := upd s.th p { s.th p with pc := .done, ret := r } }) :
    Inv { s with table := tdel s.table (s.th p).id, th := upd s.th p { s.th p with pc := .done, ret := r } } := by
  obtain ⟨_, hL, hD, hT, hS, hR⟩ := h
  refine ⟨hw, ?_, ?_, ?_, ?_, ?_⟩
  · intro q hq; by_cases hqp : q = p
    · subst hqp; simp [Thread.active] at hq
    · simp only [upd_other _ _ _ _ hqp] at hq ⊢; exact hL q hq
  · intro q r' hq hr he
    by_cases hqp : q = p
    · subst hqp; simp [Thread.active] at hq
    · by_cases hrp : r' = p
      · subst hrp; simp [Thread.active] at hr
      · simp only [upd_other _ _ _ _ hqp, upd_other _ _ _ _ hrp] at hq hr he; exact hD q r' hq hr he
  · intro q hq; by_cases hqp : q = p
    · subst hqp; simp [Thread.active] at hq
    · simp only [upd_other _ _ _ _ hqp] at hq ⊢
      rcases hT q hq with ⟨hm, hs⟩ | hr
      · left; refine ⟨mem_tdel.mpr ⟨hm, ?_⟩, hs⟩
        intro he; exact hqp (hD q p hq hact he)
      · right; exact hr
  · intro q; by_cases hqp : q = p
    · subst hqp; simp
    · simpa [upd_other _ _ _ _ hqp] using hS q
  · intro q; by_cases hqp : q = p
    · subst hqp; intro _; simpa using hret
    · simpa [upd_other _ _ _ _ hqp] using hR q

theorem inv_step {s s' : State} {e : Event} (h : Inv s) (hs : step s e = some s')
    (hnw : ∀ p, e = .reg p → s.nextId + 1 < idMod) : Inv s' := by
  have hw' : InvW s' := invW_step h.w hs
  cases e with
  | other => simp only [step] at hs; cases hs; exact h
  | sendOk p =>
    simp only [step] at hs
    split at hs
    · rename_i hp; cases hs
      exact inv_pcmove h p .wait true (by simp [Thread.active, hp]) (by simp [Thread.active]) (by simp) hw'
    · cases hs
  | sendErr p =>
    simp only [step] at hs
    split at hs
    · rename_i hp; cases hs
      have := (h.sentPc p).2 (Or.inl hp)
      have e1 : ({ s.th p with pc := Pc.cleanup } : Thread) = { s.th p with pc := Pc.cleanup, sent := false } := by
        rw [← this]
      rw [e1] at hw' ⊢
      exact inv_pcmove h p .cleanup false (by simp [Thread.active, hp]) (by simp [Thread.active]) (by simp) hw'
    · cases hs
  | wake p =>
    simp only [step] at hs
    split at hs
    · rename_i hp; cases hs
      have := (h.sentPc p).1 (Or.inl hp.1)
      have e1 : ({ s.th p with pc := Pc.unreg } : Thread) = { s.th p with pc := Pc.unreg, sent := true } := by
        rw [← this]
      rw [e1] at hw' ⊢
      exact inv_pcmove h p .unreg true (by simp [Thread.active, hp.1]) (by simp [Thread.active]) (by simp) hw'
    · cases hs
  | timeout p =>
    simp only [step] at hs
    split at hs
    · rename_i hp; cases hs
      have := (h.sentPc p).1 (Or.inl hp)
      have e1 : ({ s.th p with pc := Pc.unreg } : Thread) = { s.th p with pc := Pc.unreg, sent := true } := by
        rw [← this]
      rw [e1] at hw' ⊢
      exact inv_pcmove h p .unreg true (by simp [Thread.active, hp]) (by simp [Thread.active]) (by simp) hw'
    · cases hs
  | cleanup p =>
    simp only [step] at hs
    split at hs
    · rename_i hp; cases hs
      have hsent := (h.sentPc p).2 (Or.inr hp)
      exact inv_leave h p .sendErr (by simp [Thread.active, hp]) (by simp [hsent]) hw'
    · cases hs
  | unreg p =>
    simp only [step] at hs
    split at hs
    · rename_i hp; cases hs
      have hact : (s.th p).active = true := by simp [Thread.active, hp]
      have hsent := (h.sentPc p).1 (Or.inr hp)
      refine inv_leave h p _ hact ?_ hw'
      rcases h.inTab p hact with ⟨hm, hseen⟩ | ⟨hr, _, hseen⟩
      · have := (h.w.entry _ _ hm).2.2.2
        simp [this, hsent, hseen]
      · simp [hr, hsent, hseen]
    · cases hs
  | reg p =>
    have hn := hnw p rfl
    simp only [step] at hs
    split at hs
    · rename_i hp; cases hs
      obtain ⟨hW, hL, hD, hT, hS, hR⟩ := h
      have hnact : (s.th p).active = false := by simp [Thread.active, hp]
      have hmod : (s.nextId + 1) % idMod = s.nextId + 1 := Nat.mod_eq_of_lt hn
      refine ⟨hw', ?_, ?_, ?_, ?_, ?_⟩
      · intro q hq; simp only [hmod]
        by_cases hqp : q = p
        · subst hqp; simp
        · simp only [upd_other _ _ _ _ hqp] at hq ⊢; have := hL q hq; omega
      · intro q r hq hr he
        by_cases hqp : q = p <;> by_cases hrp : r = p
        · rw [hqp, hrp]
        · subst hqp; simp only [upd_other _ _ _ _ hrp] at hr he; simp at he
          have := hL r hr; omega
        · subst hrp; simp only [upd_other _ _ _ _ hqp] at hq he; simp at he
          have := hL q hq; omega
        · simp only [upd_other _ _ _ _ hqp, upd_other _ _ _ _ hrp] at hq hr he; exact hD q r hq hr he
      · intro q hq
        by_cases hqp : q = p
        · subst hqp; left; simp [mem_tset]
          exact (hW.fresh q hp).2.2.1
        · simp only [upd_other _ _ _ _ hqp] at hq ⊢
          rcases hT q hq with ⟨hm, hs⟩ | hr
          · left; refine ⟨mem_tset.mpr (Or.inr ⟨hm, ?_⟩), hs⟩
            have := hL q hq; omega
          · right; exact hr
      · intro q; by_cases hqp : q = p
        · subst hqp; simp; exact (hW.fresh q hp).2.2.2
        · simpa [upd_other _ _ _ _ hqp] using hS q
      · intro q; by_cases hqp : q = p
        · subst hqp; simp
        · simpa [upd_other _ _ _ _ hqp] using hR q
    · cases hs
  | echo id =>
    obtain ⟨hW, hL, hD, hT, hS, hR⟩ := h
    have ms : ∀ q, (markSeen s.th id q).pc = (s.th q).pc ∧ (markSeen s.th id q).id = (s.th q).id ∧
        (markSeen s.th id q).closes = (s.th q).closes ∧ (markSeen s.th id q).recv = (s.th q).recv ∧
        (markSeen s.th id q).sent = (s.th q).sent ∧ (markSeen s.th id q).active = (s.th q).active ∧
        (markSeen s.th id q).ret = (s.th q).ret := by
      intro q; unfold markSeen; split <;> simp [Thread.active]
    have ms_seen : ∀ q, (markSeen s.th id q).seen =
        (if (s.th q).active = true ∧ (s.th q).id = id then true else (s.th q).seen) := by
      intro q; unfold markSeen; split <;> simp
    -- when no entry for `id` exists every registered call with that id has already been completed
    have base : (∀ q, (id, q) ∉ s.table) → InvW { s with th := markSeen s.th id } →
        Inv { s with th := markSeen s.th id } := by
      intro hno hw
      refine ⟨hw, ?_, ?_, ?_, ?_, ?_⟩
      · intro q hq; simp only [(ms q).2.2.2.2.2.1, (ms q).2.1] at hq ⊢; exact hL q hq
      · intro q r hq hr he
        simp only [(ms q).2.2.2.2.2.1, (ms r).2.2.2.2.2.1, (ms q).2.1, (ms r).2.1] at hq hr he
        exact hD q r hq hr he
      · intro q hq
        simp only [(ms q).2.2.2.2.2.1] at hq
        simp only [(ms q).2.1, (ms q).2.2.1, (ms q).2.2.2.1, ms_seen q]
        rcases hT q hq with ⟨hm, hs⟩ | ⟨hr, hc, hs⟩
        · left; refine ⟨hm, ?_⟩
          have : (s.th q).id ≠ id := by intro he; rw [he] at hm; exact hno q hm
          simp [this, hs]
        · right; simp [hr, hc, hs]
      · intro q; simp only [(ms q).1, (ms q).2.2.2.2.1]; exact hS q
      · intro q; simp only [(ms q).1]; intro hpc
        have : (s.th q).active = false := by simp [Thread.active, hpc]
        simp only [(ms q).2.2.2.2.1, (ms q).2.2.2.2.2.2, ms_seen q, this]
        simpa using hR q hpc
    simp only [step] at hs
    split at hs
    · rename_i hemp; cases hs
      apply base _ hw'
      intro q hq; simp [List.isEmpty_iff] at hemp; rw [hemp] at hq; simp at hq
    · split at hs
      · rename_i hg; cases hs
        exact base (tget_none hg) hw'
      · rename_i q hg; cases hs
        have hm := tget_some hg
        obtain ⟨qa, qid, qc, qr⟩ := hW.entry id q hm
        have uniq : ∀ r, (s.th r).active = true → (s.th r).id = id → r = q :=
          fun r hr he => hD r q hr qa (he.trans qid.symm)
        refine ⟨hw', ?_, ?_, ?_, ?_, ?_⟩
        · intro r hr; by_cases hrq : r = q
          · subst hrq; simp [(ms r).2.1]; exact hL r qa
          · simp only [upd_other _ _ _ _ hrq, (ms r).2.2.2.2.2.1, (ms r).2.1] at hr ⊢; exact hL r hr
        · have actq : ∀ r, (upd (markSeen s.th id) q
              { markSeen s.th id q with recv := true, closes := (markSeen s.th id q).closes + 1 } r).active
              = (s.th r).active := by
            intro r; by_cases hrq : r = q
            · subst hrq; simp [Thread.active, (ms r).1]
            · simp [upd_other _ _ _ _ hrq, (ms r).2.2.2.2.2.1]
          have idq : ∀ r, (upd (markSeen s.th id) q
              { markSeen s.th id q with recv := true, closes := (markSeen s.th id q).closes + 1 } r).id
              = (s.th r).id := by
            intro r; by_cases hrq : r = q
            · subst hrq; simp [(ms r).2.1]
            · simp [upd_other _ _ _ _ hrq, (ms r).2.1]
          intro a b ha hb he; simp only [actq, idq] at ha hb he; exact hD a b ha hb he
        · intro r hr; by_cases hrq : r = q
          · subst hrq; right
            simp [(ms r).2.2.1, qc, ms_seen r, qa, qid]
          · simp only [upd_other _ _ _ _ hrq, (ms r).2.2.2.2.2.1] at hr
            simp only [upd_other _ _ _ _ hrq, (ms r).2.1, (ms r).2.2.1, (ms r).2.2.2.1, ms_seen r]
            have hne : (s.th r).id ≠ id := fun he => hrq (uniq r hr he)
            rcases hT r hr with ⟨hmr, hs⟩ | ⟨hr1, hc, hs⟩
            · left; exact ⟨mem_tdel.mpr ⟨hmr, hne⟩, by simp [hne, hs]⟩
            · right; simp [hr1, hc, hs]
        · intro r; by_cases hrq : r = q
          · subst hrq; simp [(ms r).1, (ms r).2.2.2.2.1]; exact hS r
          · simp only [upd_other _ _ _ _ hrq, (ms r).1, (ms r).2.2.2.2.1]; exact hS r
        · intro r; by_cases hrq : r = q
          · subst hrq; intro hpc; simp [(ms r).1] at hpc
            simp [Thread.active, hpc] at qa
          · simp only [upd_other _ _ _ _ hrq, (ms r).1]; intro hpc
            have : (s.th r).active = false := by simp [Thread.active, hpc]
            simp only [(ms r).2.2.2.2.1, (ms r).2.2.2.2.2.2, ms_seen r, this]
            simpa using hR r hpc

theorem invW_run {s s' : State} {tr : List Event} (h : InvW s) (hr : run s tr = some s') : InvW s' := by
  induction tr generalizing s with
  | nil => simp [run] at hr; subst hr; exact h
  | cons e es ih =>
    simp only [run] at hr
    cases hs : step s e with
    | none => simp [hs] at hr
    | some s1 => simp only [hs] at hr; exact ih (invW_step h hs) hr

theorem inv_run {s s' : State} {tr : List Event} (h : Inv s) (hn : NoWrap s tr) (hr : run s tr = some s') :
    Inv s' := by
  induction tr generalizing s with
  | nil => simp [run] at hr; subst hr; exact h
  | cons e es ih =>
    simp only [run] at hr
    simp only [NoWrap] at hn
    cases hs : step s e with
    | none => simp [hs] at hr
    | some s1 =>
      simp only [hs] at hr hn
      exact ih (inv_step h hs hn.1) hn.2 hr

end PV.Lemmas.Ping
