/-
  Lemmas about the replies of the DHCP server model (option values, lease time) used by C11 / C12.
-/
import PacketVerif.Lemmas.Dhcp4Inv
import PacketVerif.Spec.Ledger
namespace PV.Lemmas.Dhcp4Srv
open PV PV.Model.Dhcp4Srv PV.Spec.Ledger

theorem be32_ip4Bytes (n : Nat) :
    (match ip4Bytes n with | [a, b, c, d] => be32 a b c d | _ => 0) = n % 4294967296 := by
  simp only [ip4Bytes, be32, UInt8.toNat_ofNat']
  have foo : ((n / 16777216 % 256 * 256 + n / 65536 % 256) * 256 + n / 256 % 256) * 256 + n % 256 = n % 4294967296 := by
    omega
  exact foo

theorem optOf_mkReply_51 (cfg : Cfg) (m : Msg) (t : RType) (l : Lease) (a : Option IP) :
    optOf (mkReply cfg m t l a) 51 = some (ip4Bytes (cfg.sub l.sub).dur) := by
  unfold optOf mkReply replyOpts
  cases l.sub <;> simp [List.lookup]

theorem leaseSecs_mkReply (cfg : Cfg) (m : Msg) (t : RType) (l : Lease) (a : Option IP) :
    leaseSecs (mkReply cfg m t l a) = (cfg.sub l.sub).dur % 4294967296 := by
  unfold leaseSecs
  rw [optOf_mkReply_51]
  exact be32_ip4Bytes _


end PV.Lemmas.Dhcp4Srv
