/-
  Lemmas for Props/ComposeDhcp.lean: the DHCPv4 handler on raw payloads (`Model.Dhcp4Frame`).
  * the byte decoder is total: `IsValid` (Lemmas/Views), `ParseOptions` (Props/C03Dhcp `parse_total`), the field reads
    after the 240-byte check;
  * `processRaw` is `handleMsg ∘ decode`;
  * the observer's ledger is monotone (`observe_mono`), which carries a raw history (replies that found no room in the
    request buffer are never seen) to the abstract history of C11 / C12 (`runRawL_sub`).
-/
import PacketVerif.Model.Dhcp4Frame
import PacketVerif.Lemmas.Views
import PacketVerif.Props.C03Dhcp
import PacketVerif.Props.C11
namespace PV.Lemmas.ComposeDhcp
open PV PV.Model PV.Model.Dhcp4Srv PV.Model.Dhcp4Opt PV.Model.Dhcp4Frame PV.Spec.Ledger
open PV.Props.C03Dhcp (parse_total)

/-! ### the field reads -/

theorem sl (p : Bytes) (lo hi : Nat) (h1 : lo ≤ hi) (h2 : hi ≤ p.length) : slice p lo hi = .ok ((p.take hi).drop lo) :=
  PV.Lemmas.slice_ok p lo hi h1 h2

theorem ix (p : Bytes) (i : Nat) (h : i < p.length) : idx p i = .ok p[i] := PV.Lemmas.idx_ok' p i h

theorem msgOf_ok (rx : Rx) (p : Bytes) (o : Opts) (h : 240 ≤ p.length) :
    ∃ m, msgOf rx p o = .ok m ∧ m.chaddr = (p.take 34).drop 28 ∧ m.xid = (p.take 8).drop 4 ∧ m.srcIP = rx.srcIP
      ∧ m.cidOpt = optGet o 61 ∧ m.reqOpt = optGet o 50 ∧ m.srvOpt = optGet o 54 := by
  unfold msgOf
  rw [sl p 28 34 (by omega) (by omega), sl p 4 8 (by omega) (by omega)]
  rw [ix p 12 (by omega), ix p 13 (by omega), ix p 14 (by omega), ix p 15 (by omega), ix p 16 (by omega),
    ix p 17 (by omega), ix p 18 (by omega), ix p 19 (by omega), ix p 10 (by omega)]
  exact ⟨_, rfl, rfl, rfl, rfl, rfl, rfl, rfl⟩

/-! ### `classify` is total -/

theorem clientClass_ok (p : Bytes) (h : 240 ≤ p.length) : ∃ c, clientClass p = .ok c := by
  unfold clientClass
  obtain ⟨o, ho⟩ := parse_total p
  rw [ho, sl p 28 34 (by omega) (by omega)]
  simp only [Outcome.bind_ok]
  repeat (first | exact ⟨_, rfl⟩ | split)

theorem classify_ok (now : Nat) (rx : Rx) (p : Bytes) : ∃ c, classify now rx p = .ok c := by
  unfold classify
  have hs := PV.Lemmas.dhcpValid_safe p
  cases hv : dhcpValid p with
  | err e => exact ⟨_, rfl⟩
  | panic => rw [hv] at hs; cases hs
  | hang => rw [hv] at hs; cases hs
  | ok u =>
    cases u
    have hl := PV.Lemmas.dhcpValid_len p hv
    simp only []
    split
    · exact clientClass_ok p hl
    · obtain ⟨o, ho⟩ := parse_total p
      rw [ho]
      simp only [Outcome.bind_ok]
      split
      · split
        · exact ⟨_, rfl⟩
        · obtain ⟨m, hm, _⟩ := msgOf_ok rx p o hl
          rw [hm]
          simp only [Outcome.bind_ok]
          repeat (first | exact ⟨_, rfl⟩ | split)
      · exact ⟨_, rfl⟩

theorem decode_ok (now : Nat) (rx : Rx) (p : Bytes) : ∃ o, decode now rx p = .ok o := by
  unfold decode
  obtain ⟨c, hc⟩ := classify_ok now rx p
  rw [hc]
  cases c <;> exact ⟨_, rfl⟩

theorem decode_some {now : Nat} {rx : Rx} {p : Bytes} {op : Op} (h : decode now rx p = .ok (some op)) :
    classify now rx p = .ok (.server op) := by
  unfold decode at h
  obtain ⟨c, hc⟩ := classify_ok now rx p
  rw [hc] at h ⊢
  cases c with
  | server op' =>
    have h' : (Outcome.ok (some op') : Outcome (Option Op)) = .ok (some op) := h
    cases h'; rfl
  | rejected e => have h' : (Outcome.ok none : Outcome (Option Op)) = .ok (some op) := h; cases h'
  | client a b d => have h' : (Outcome.ok none : Outcome (Option Op)) = .ok (some op) := h; cases h'
  | ignored t => have h' : (Outcome.ok none : Outcome (Option Op)) = .ok (some op) := h; cases h'

theorem decode_none {now : Nat} {rx : Rx} {p : Bytes} (h : decode now rx p = .ok none) :
    ∃ c, classify now rx p = .ok c ∧ ∀ op, c ≠ .server op := by
  unfold decode at h
  obtain ⟨c, hc⟩ := classify_ok now rx p
  rw [hc] at h
  refine ⟨c, hc, ?_⟩
  intro op hop
  rw [hop] at h
  have h' : (Outcome.ok (some op) : Outcome (Option Op)) = .ok none := h
  cases h'

theorem clientClass_not_server (p : Bytes) (hl : 240 ≤ p.length) (op : Op) : clientClass p ≠ .ok (.server op) := by
  unfold clientClass
  obtain ⟨o, ho⟩ := parse_total p
  rw [ho, sl p 28 34 (by omega) (by omega)]
  simp only [Outcome.bind_ok]
  repeat (first | (intro h; cases h) | split)

/-- what a payload must look like to reach a server handler, and the message the handler is given -/
theorem classify_server {now : Nat} {rx : Rx} {p : Bytes} {op : Op} (h : classify now rx p = .ok (.server op)) :
    dhcpValid p = .ok () ∧ rx.dstPort ≠ 68 ∧
      ∃ o t m, parseOptions p = .ok o ∧ optGet o 53 = some [t] ∧ msgOf rx p o = .ok m ∧
        ((t = 1 ∧ op = .discover now m) ∨ (t = 3 ∧ op = .request now m) ∨ (t = 4 ∧ op = .decline m)
          ∨ (t = 7 ∧ op = .release m)) := by
  unfold classify at h
  cases hv : dhcpValid p with
  | err e => rw [hv] at h; cases h
  | panic => rw [hv] at h; cases h
  | hang => rw [hv] at h; cases h
  | ok u =>
    cases u
    have hl := PV.Lemmas.dhcpValid_len p hv
    rw [hv] at h
    simp only [] at h
    by_cases hp : (rx.dstPort == 68) = true
    · rw [if_pos hp] at h
      exact absurd h (clientClass_not_server p hl op)
    · rw [if_neg hp] at h
      refine ⟨rfl, by simpa using hp, ?_⟩
      obtain ⟨o, ho⟩ := parse_total p
      rw [ho] at h
      simp only [Outcome.bind_ok] at h
      split at h
      · rename_i t ht
        split at h
        · cases h
        · obtain ⟨m, hm, _⟩ := msgOf_ok rx p o hl
          rw [hm] at h
          simp only [Outcome.bind_ok] at h
          refine ⟨o, t, m, ho, ht, hm, ?_⟩
          by_cases h1 : (t == 1) = true
          · rw [if_pos h1] at h; cases h; exact Or.inl ⟨by simpa using h1, rfl⟩
          rw [if_neg h1] at h
          by_cases h3 : (t == 3) = true
          · rw [if_pos h3] at h; cases h; exact Or.inr (Or.inl ⟨by simpa using h3, rfl⟩)
          rw [if_neg h3] at h
          by_cases h4 : (t == 4) = true
          · rw [if_pos h4] at h; cases h; exact Or.inr (Or.inr (Or.inl ⟨by simpa using h4, rfl⟩))
          rw [if_neg h4] at h
          by_cases h7 : (t == 7) = true
          · rw [if_pos h7] at h; cases h; exact Or.inr (Or.inr (Or.inr ⟨by simpa using h7, rfl⟩))
          rw [if_neg h7] at h
          cases h
      · cases h

theorem decode_isMsg {now : Nat} {rx : Rx} {p : Bytes} {op : Op} (h : decode now rx p = .ok (some op)) :
    isMsgOp op = true := by
  obtain ⟨_, _, o, t, m, _, _, _, hc⟩ := classify_server (decode_some h)
  rcases hc with ⟨_, e⟩ | ⟨_, e⟩ | ⟨_, e⟩ | ⟨_, e⟩ <;> rw [e] <;> rfl

/-- the hardware address of the decoded message is bytes 28..33 of the payload, its IP source the datagram's -/
theorem decode_msg {now : Nat} {rx : Rx} {p : Bytes} {op : Op} (h : decode now rx p = .ok (some op)) :
    ∃ m, Props.C11.msgOf op = some m ∧ m.chaddr = (p.take 34).drop 28 ∧ m.xid = (p.take 8).drop 4 ∧ m.srcIP = rx.srcIP := by
  obtain ⟨hv, _, o, t, m, _, _, hm, hc⟩ := classify_server (decode_some h)
  obtain ⟨m', hm', h1, h2, h3, _⟩ := msgOf_ok rx p o (PV.Lemmas.dhcpValid_len p hv)
  rw [hm] at hm'
  cases hm'
  rcases hc with ⟨_, e⟩ | ⟨_, e⟩ | ⟨_, e⟩ | ⟨_, e⟩ <;> rw [e] <;> exact ⟨m, rfl, h1, h2, h3⟩

/-! ### `step` on a message op is `handleMsg` -/

theorem step_msg (cfg : Dhcp4Srv.Cfg) (s : State) (op : Op) (h : isMsgOp op = true) : step cfg s op = [handleMsg cfg s op] := by
  cases op <;> first | rfl | cases h

/-! ### `processRaw` is `handleMsg ∘ decode` -/

theorem processRaw_some (cfg : Dhcp4Srv.Cfg) (s : State) {now : Nat} {rx : Rx} {p : Bytes} {op : Op}
    (h : decode now rx p = .ok (some op)) :
    processRaw cfg s now rx p = .ok { ret := none, state := (handleMsg cfg s op).1,
                                      replies := (handleMsg cfg s op).2.filter (fits rx.cap), forged := false } := by
  unfold processRaw
  rw [decode_some h]
  rfl

theorem processRaw_none (cfg : Dhcp4Srv.Cfg) (s : State) {now : Nat} {rx : Rx} {p : Bytes}
    (h : decode now rx p = .ok none) :
    ∃ ret forged, processRaw cfg s now rx p = .ok { ret := ret, state := s, replies := [], forged := forged } := by
  obtain ⟨c, hc, hn⟩ := decode_none h
  unfold processRaw
  rw [hc]
  cases c with
  | rejected e => exact ⟨_, _, rfl⟩
  | client a b d => exact ⟨_, _, rfl⟩
  | ignored t => exact ⟨_, _, rfl⟩
  | server op => exact absurd rfl (hn op)

/-! ### the ledger is monotone -/

theorem observe_mono {L L0 : Ledger} {rs rs0 : List Reply} (op : Op) (hL : ∀ b, b ∈ L → b ∈ L0)
    (hr : ∀ r, r ∈ rs → r ∈ rs0) : ∀ b, b ∈ observe L op rs → b ∈ observe L0 op rs0 := by
  intro b hb
  have key : ∀ c : Cid,
      b ∈ L.filter (fun b => b.cid != c) ++ (rs.filter (fun r => r.typ == .ack)).map (fun r => ⟨r.yiaddr, c, opNow op + leaseSecs r⟩) →
      b ∈ L0.filter (fun b => b.cid != c) ++ (rs0.filter (fun r => r.typ == .ack)).map (fun r => ⟨r.yiaddr, c, opNow op + leaseSecs r⟩) := by
    intro c hb
    rcases List.mem_append.1 hb with h | h
    · obtain ⟨h1, h2⟩ := List.mem_filter.1 h
      exact List.mem_append_left _ (List.mem_filter.2 ⟨hL _ h1, h2⟩)
    · obtain ⟨r, h1, h2⟩ := List.mem_map.1 h
      obtain ⟨h3, h4⟩ := List.mem_filter.1 h1
      exact List.mem_append_right _ (List.mem_map.2 ⟨r, List.mem_filter.2 ⟨hr _ h3, h4⟩, h2⟩)
  cases op with
  | minuteTick now =>
    simp only [observe] at hb ⊢
    obtain ⟨h1, h2⟩ := List.mem_filter.1 hb
    exact List.mem_filter.2 ⟨hL _ h1, h2⟩
  | discover now m => exact key _ hb
  | request now m => exact key _ hb
  | decline m => exact key _ hb
  | release m => exact key _ hb
  | capture mac => exact hL _ hb
  | releaseCapture mac => exact hL _ hb
  | hostSeen ip mac => exact hL _ hb
  | hostGone ip => exact hL _ hb

/-! ### raw histories and the abstract histories of C11 / C12 -/

/-- the observer's ledger after a raw event: it sees the decoded message and the replies actually written -/
def observeRaw (L : Ledger) (e : RawEv) (rs : List Reply) : Ledger :=
  match opOf e with
  | some op => observe L op rs
  | none => L

/-- runs over raw events together with the observer's ledger (`Props.C11.runL` for byte strings) -/
def runRawL (cfg : Dhcp4Srv.Cfg) : State → Ledger → List RawEv → List (State × Ledger)
  | s, L, [] => [(s, L)]
  | s, L, e :: es => (stepRaw cfg s e).flatMap (fun o => runRawL cfg o.1 (observeRaw L e o.2) es)

/-- the abstract history of a raw history: the decoded operations, payloads that decode to nothing dropped -/
def opsOf (evs : List RawEv) : List Op := evs.filterMap opOf

theorem opOf_rx_some {now : Nat} {rx : Rx} {p : Bytes} {op : Op} (h : decode now rx p = .ok (some op)) :
    opOf (.rx now rx p) = some op := by
  simp only [opOf, h]

theorem opOf_rx_none {now : Nat} {rx : Rx} {p : Bytes} (h : decode now rx p = .ok none) :
    opOf (.rx now rx p) = none := by
  simp only [opOf, h]

/-- every raw run is an abstract run of the decoded operations whose ledger contains the raw run's ledger (replies
    that found no room in the request buffer are unknown to the observer of the raw run) -/
theorem runRawL_sub (cfg : Dhcp4Srv.Cfg) : ∀ (evs : List RawEv) (s : State) (L L0 : Ledger), (∀ b, b ∈ L → b ∈ L0) →
    ∀ sl, sl ∈ runRawL cfg s L evs → ∃ L0', (sl.1, L0') ∈ Props.C11.runL cfg s L0 (opsOf evs) ∧ ∀ b, b ∈ sl.2 → b ∈ L0'
  | [], s, L, L0, hL, sl, h => by
    simp only [runRawL, List.mem_singleton] at h
    subst h
    exact ⟨L0, by simp [opsOf, Props.C11.runL], hL⟩
  | e :: es, s, L, L0, hL, sl, h => by
    simp only [runRawL, List.mem_flatMap] at h
    obtain ⟨o, ho, h'⟩ := h
    cases e with
    | env op =>
      have hops : opsOf (RawEv.env op :: es) = op :: opsOf es := by simp [opsOf, opOf]
      have hsub : ∀ b, b ∈ observeRaw L (.env op) o.2 → b ∈ observe L0 op o.2 := by
        intro b hb
        simp only [observeRaw, opOf] at hb
        exact observe_mono op hL (fun _ h => h) b hb
      obtain ⟨L0', h1, h2⟩ := runRawL_sub cfg es o.1 _ _ hsub sl h'
      refine ⟨L0', ?_, h2⟩
      rw [hops]
      simp only [Props.C11.runL, List.mem_flatMap]
      exact ⟨o, ho, h1⟩
    | rx now rx p =>
      simp only [stepRaw] at ho
      obtain ⟨d, hd⟩ := decode_ok now rx p
      cases d with
      | some op =>
        rw [processRaw_some cfg s hd] at ho
        simp only [List.mem_singleton] at ho
        subst ho
        have hops : opsOf (RawEv.rx now rx p :: es) = op :: opsOf es := by simp [opsOf, opOf_rx_some hd]
        have hsub : ∀ b, b ∈ observeRaw L (.rx now rx p) ((handleMsg cfg s op).2.filter (fits rx.cap)) →
            b ∈ observe L0 op (handleMsg cfg s op).2 := by
          intro b hb
          simp only [observeRaw, opOf_rx_some hd] at hb
          exact observe_mono op hL (fun _ h => (List.mem_filter.1 h).1) b hb
        obtain ⟨L0', h1, h2⟩ := runRawL_sub cfg es _ _ _ hsub sl h'
        refine ⟨L0', ?_, h2⟩
        rw [hops]
        simp only [Props.C11.runL, List.mem_flatMap]
        exact ⟨handleMsg cfg s op, by rw [step_msg cfg s op (decode_isMsg hd)]; exact List.mem_singleton.2 rfl, h1⟩
      | none =>
        obtain ⟨ret, forged, hp⟩ := processRaw_none cfg s hd
        rw [hp] at ho
        simp only [List.mem_singleton] at ho
        subst ho
        have hops : opsOf (RawEv.rx now rx p :: es) = opsOf es := by simp [opsOf, opOf_rx_none hd]
        have hsub : ∀ b, b ∈ observeRaw L (.rx now rx p) [] → b ∈ L0 := by
          intro b hb
          simp only [observeRaw, opOf_rx_none hd] at hb
          exact hL b hb
        obtain ⟨L0', h1, h2⟩ := runRawL_sub cfg es _ _ _ hsub sl h'
        exact ⟨L0', by rw [hops]; exact h1, h2⟩

/-- the states of a raw history are the states of the abstract history of its decoded operations -/
theorem runRaw_eq_run (cfg : Dhcp4Srv.Cfg) : ∀ (evs : List RawEv) (s : State), runRaw cfg s evs = run cfg s (opsOf evs)
  | [], s => by simp [runRaw, run, opsOf]
  | e :: es, s => by
    cases e with
    | env op =>
      have hops : opsOf (RawEv.env op :: es) = op :: opsOf es := by simp [opsOf, opOf]
      rw [hops]
      simp only [runRaw, run, stepRaw]
      congr 1
      funext o
      exact runRaw_eq_run cfg es o.1
    | rx now rx p =>
      obtain ⟨d, hd⟩ := decode_ok now rx p
      cases d with
      | some op =>
        have hops : opsOf (RawEv.rx now rx p :: es) = op :: opsOf es := by simp [opsOf, opOf_rx_some hd]
        rw [hops]
        simp only [runRaw, run, stepRaw, processRaw_some cfg s hd, step_msg cfg s op (decode_isMsg hd),
          List.flatMap_cons, List.flatMap_nil, List.append_nil]
        exact runRaw_eq_run cfg es _
      | none =>
        obtain ⟨ret, forged, hp⟩ := processRaw_none cfg s hd
        have hops : opsOf (RawEv.rx now rx p :: es) = opsOf es := by simp [opsOf, opOf_rx_none hd]
        rw [hops]
        simp only [runRaw, stepRaw, hp, List.flatMap_cons, List.flatMap_nil, List.append_nil]
        exact runRaw_eq_run cfg es s

end PV.Lemmas.ComposeDhcp
