/-
  ProcessDNS on an arbitrary prior table, QDCOUNT other than 1, and rejection of incomplete
  (truncated) resource records.
-/
import PacketVerif.Lemmas.DnsRRComplete
namespace PV.Lemmas.Dns
open PV PV.Model PV.Spec

/-! ### whatever `decodeRR` accepts is a complete record -/

theorem decodeRR_accepts_complete (ip6 : Bytes → PtrIP) (ent ent' : DNSEntry) (m : Bytes) (off : Nat) (o : Nat) (u : Bool)
    (h : decodeRR ip6 ent m off = .ok (ent', o, u)) :
    ∃ ls e d rdl, NameAt m off off ls e d ∧ wireLen ls ≤ 256 ∧ d ≤ 254 ∧ e + 10 ≤ m.length ∧
      rd16 m (e + 8) = .ok rdl ∧ o = e + 10 + rdl ∧ o ≤ m.length := by
  unfold decodeRR at h
  rcases decodeName_cases m off with ⟨n, endq, hdn⟩ | ⟨er, hdn⟩
  · obtain ⟨_, ls, d, hna, _, hw, hd⟩ := decodeName_accepts m off n endq hdn
    rw [hdn] at h
    simp only [] at h
    split at h
    · cases h
    next hle =>
      obtain ⟨t, ht⟩ := rd16_ok (p := m) (i := endq) (by omega)
      obtain ⟨ttl, httl⟩ := rd32_ok (p := m) (i := endq + 4) (by omega)
      obtain ⟨dl, hdl⟩ := rd16_ok (p := m) (i := endq + 8) (by omega)
      rw [ht, httl, hdl] at h
      simp only [] at h
      split at h
      · cases h
      next hoff =>
        have key : o = endq + 10 + dl := by
          revert h
          repeat' split
          all_goals (intro h; first | (cases h; done) | (simp at h; omega))
        exact ⟨ls, endq, d, dl, by simpa using hna, hw, hd, by omega, hdl, key, by omega⟩
  · rw [hdn] at h; cases h

theorem u16At_of_bound {m : Bytes} {i : Nat} (h : i + 2 ≤ m.length) : ∃ v, u16At m i = some v := by
  unfold u16At
  rw [List.getElem?_eq_getElem (by omega), List.getElem?_eq_getElem (by omega)]
  exact ⟨_, rfl⟩

theorem u32At_of_bound {m : Bytes} {i : Nat} (h : i + 4 ≤ m.length) : ∃ v, u32At m i = some v := by
  unfold u32At
  rw [List.getElem?_eq_getElem (by omega), List.getElem?_eq_getElem (by omega), List.getElem?_eq_getElem (by omega),
    List.getElem?_eq_getElem (by omega)]
  exact ⟨_, rfl⟩

/-- **an incomplete record is rejected**: where the reference decoder finds no complete resource
    record — the owner name is not a reference name, or the fixed part (type, class, TTL,
    RDLENGTH) or the RDATA runs past the end of the message — `decodeRR` returns an error.
    (`hedge` excludes the one case in which the decoder is more liberal than the reference: an
    owner name of exactly 256 uncompressed octets, see `decodeName_sound`.) -/
theorem decodeRR_rejects_incomplete (ip6 : Bytes → PtrIP) (ent : DNSEntry) (m : Bytes) (off : Nat)
    (hnone : rrAt? m off = none) (hedge : ∀ ls e d, NameAt m off off ls e d → wireLen ls ≤ 255) :
    ∃ er, decodeRR ip6 ent m off = .err er := by
  have hret := decodeRR_returns ip6 ent m off
  cases hr : decodeRR ip6 ent m off with
  | err er => exact ⟨er, rfl⟩
  | panic => exact absurd hr hret.1
  | hang => exact absurd hr hret.2
  | ok v =>
    exfalso
    obtain ⟨ent', o, u⟩ := v
    obtain ⟨ls, e, d, rdl, hna, _, _, hle, hrd, ho, hol⟩ := decodeRR_accepts_complete ip6 ent ent' m off o u hr
    have hw := hedge ls e d hna
    have hdec : decodeName? m off = some (text ls, e, d) := by
      unfold decodeName?
      rw [nameAt?_complete hna]
      simp only []
      rw [if_pos hw]
    obtain ⟨t, ht⟩ := u16At_of_bound (m := m) (i := e) (by omega)
    obtain ⟨c, hc⟩ := u16At_of_bound (m := m) (i := e + 2) (by omega)
    obtain ⟨ttl, httl⟩ := u32At_of_bound (m := m) (i := e + 4) (by omega)
    obtain ⟨l, hl⟩ := u16At_of_bound (m := m) (i := e + 8) (by omega)
    have hl' := (rd16_of_u16At hl).1
    rw [hrd] at hl'
    injection hl' with hl'
    subst hl'
    unfold rrAt? at hnone
    rw [hdec] at hnone
    simp only [bind, Option.bind, pure] at hnone
    rw [ht, hc, httl, hl] at hnone
    simp only [] at hnone
    rw [if_pos (by omega)] at hnone
    cases hnone

/-! ### the record loop, split after `k` records -/

theorem decodeRRs_add (ip6 : Bytes → PtrIP) (p : Bytes) : ∀ (k j : Nat) (e : DNSEntry) (off : Int) (u : Bool),
    decodeRRs ip6 (k + j) e p off u =
      (match decodeRRs ip6 k e p off u with
       | (e1, .ok (o1, u1)) => decodeRRs ip6 j e1 p o1 u1
       | r => r) := by
  intro k
  induction k with
  | zero => intro j e off u; simp [decodeRRs]
  | succ k ih =>
    intro j e off u
    rw [show k + 1 + j = (k + j) + 1 by omega, decodeRRs, decodeRRs]
    cases hr : decodeRR ip6 e p off with
    | ok v => obtain ⟨e', off', u'⟩ := v; simp only []; exact ih j e' off' (u || u')
    | err er => rfl
    | panic => rfl
    | hang => rfl

/-! ### ProcessDNS on any table -/

/-- the entry ProcessDNS starts from: the one stored under the question name, else a fresh one -/
def priorEntry (t : DNSTable) (name : Bytes) : DNSEntry :=
  match t.find name with
  | some e => e
  | none => DNSEntry.empty name

/-- what ProcessDNS does with the result `(e', r)` of the record loop -/
def processResult (t : DNSTable) (qname : Bytes) (e' : DNSEntry) : Outcome (Int × Bool) → DNSTable × Outcome (Option DNSEntry)
  | .ok (_, true) => (t.put e'.name e', .ok (some e'))
  | .ok (_, false) => ((if (t.find qname).isSome then t.put e'.name e' else t), .ok none)
  | .err er => ((if (t.find qname).isSome then t.put e'.name e' else t), .err er)
  | .panic => ((if (t.find qname).isSome then t.put e'.name e' else t), .panic)
  | .hang => ((if (t.find qname).isSome then t.put e'.name e' else t), .hang)

theorem processDNS_of_decode_table (ip6 : Bytes → PtrIP) (t : DNSTable) (m : Bytes) (q : Model.Question) (idx an : Nat)
    (e' : DNSEntry) (r : Outcome (Int × Bool))
    (hq : decodeQuestion m 12 = .ok (q, idx)) (han : rd16 m 6 = .ok an)
    (hd : decodeRRs ip6 an (priorEntry t q.name) m idx false = (e', r)) :
    processDNS ip6 t m = processResult t q.name e' r := by
  have hlen : ¬ m.length < 12 := by
    intro hl
    unfold decodeQuestion at hq
    rw [if_pos hl] at hq
    cases hq
  unfold processDNS
  rw [if_neg hlen, hq]
  simp only []
  unfold decodeAnswers
  rw [if_neg hlen, han]
  simp only []
  cases hf : t.find q.name with
  | none =>
    simp only [priorEntry, hf] at hd
    simp only []
    rw [hd]
    cases r with
    | ok v => obtain ⟨o, u⟩ := v; cases u <;> simp [processResult, hf]
    | err er => simp [processResult, hf]
    | panic => simp [processResult, hf]
    | hang => simp [processResult, hf]
  | some e0 =>
    simp only [priorEntry, hf] at hd
    simp only []
    rw [hd]
    cases r with
    | ok v => obtain ⟨o, u⟩ := v; cases u <;> simp [processResult, hf]
    | err er => simp [processResult, hf]
    | panic => simp [processResult, hf]
    | hang => simp [processResult, hf]

end PV.Lemmas.Dns
