/-
  Ties between the generated table operations (`Gen/TablesGen.lean`) and the hand-written model
  (`Model/Tables.lean`): notification, online transition, makeOffline, notify, GetHosts, purge.
-/
import PacketVerif.Gen.TablesGen
import PacketVerif.Lemmas.Tables
import PacketVerif.Spec.TableInv
namespace PV.Lemmas.TablesTieB
open PV PV.Model.Tables PV.Model.TablesGo PV.Gen.Tables PV.Spec
open PV.Lemmas.Tables

/-! ### loops -/

theorem forRange_next {α σ ρ} (f : σ → α → σ) (body : σ → α → Ctl σ ρ) (k : σ → ρ)
    (hb : ∀ st a, body st a = .next (f st a)) :
    ∀ (l : List α) (st : σ), forRange l st body k = k (l.foldl f st)
  | [], st => rfl
  | a :: l, st => by
    rw [forRange, hb]
    exact forRange_next f body k hb l (f st a)

/-- a loop whose body only looks for an element satisfying `p` and breaks there -/
theorem forRange_any {α σ ρ} (p : α → Bool) (body : σ → α → Ctl σ ρ) (k : σ → ρ) (st stB : σ)
    (hb : ∀ a, body st a = if p a then .brk stB else .next st) :
    ∀ (l : List α), forRange l st body k = k (if l.any p then stB else st)
  | [] => rfl
  | a :: l => by
    rw [forRange, hb]
    by_cases h : p a = true
    · simp [h]
    · have h' : p a = false := by simpa using h
      simp only [h', List.any_cons, Bool.false_or]
      exact forRange_any p body k st stB hb l

/-! ### dereferencing -/

theorem H_of_some {s : Sess} {id : Nat} {h : HostRec} (e : hostById s id = some h) : H s id = h := by
  simp [H, e]
theorem M_of_some {s : Sess} {id : Nat} {m : MacRec} (e : macById s id = some m) : M s id = m := by
  simp [M, e]
theorem M_of_none {s : Sess} {id : Nat} (e : macById s id = none) : M s id = default := by
  simp [M, e]

@[simp] theorem macById_updHost (s : Sess) (id : Nat) (f) (j : Nat) :
    macById (updHost s id f) j = macById s j := rfl
@[simp] theorem hostById_updMac (s : Sess) (id : Nat) (f) (j : Nat) :
    hostById (updMac s id f) j = hostById s j := rfl
@[simp] theorem M_updHost (s : Sess) (id : Nat) (f) (j : Nat) : M (updHost s id f) j = M s j := rfl
@[simp] theorem H_updMac (s : Sess) (id : Nat) (f) (j : Nat) : H (updMac s id f) j = H s j := rfl

theorem find?_map_upd {α} (key : α → Nat) (g : α → α) (hg : ∀ a, key (g a) = key a) (j : Nat) :
    ∀ l : List α, (l.map g).find? (fun a => key a == j) = (l.find? (fun a => key a == j)).map g
  | [] => rfl
  | a :: l => by
    simp only [List.map_cons, List.find?_cons, hg]
    cases key a == j
    · simpa using find?_map_upd key g hg j l
    · rfl

theorem hostById_updHost (s : Sess) (id : Nat) (f : HostRec → HostRec) (hf : ∀ h, (f h).id = h.id)
    (j : Nat) : hostById (updHost s id f) j = (hostById s j).map (fun h => if h.id = id then f h else h) := by
  unfold hostById updHost
  simp only []
  rw [find?_map_upd (fun p : IP × HostRec => p.2.id)]
  · cases s.hosts.find? (fun p => p.2.id == j) with
    | none => rfl
    | some p => by_cases hp : p.2.id = id <;> simp [hp]
  · intro p; by_cases hp : p.2.id = id <;> simp [hp, hf]

theorem macById_updMac (s : Sess) (id : Nat) (f : MacRec → MacRec) (hf : ∀ m, (f m).id = m.id)
    (j : Nat) : macById (updMac s id f) j = (macById s j).map (fun m => if m.id = id then f m else m) := by
  unfold macById updMac
  simp only []
  rw [find?_map_upd (fun m : MacRec => m.id)]
  intro m; by_cases hp : m.id = id <;> simp [hp, hf]

/-! ### 1, 2, 8 -/

theorem toNotification_tie {s : Sess} {hid : Nat} {h : HostRec} (e : hostById s hid = some h) :
    toNotification s hid = (s, toNotif s h) := by
  unfold toNotification toNotif
  simp only [e, H_of_some e]
  cases hm : macById s h.entry with
  | none => simp only [M_of_none hm]; rfl
  | some m => simp only [M_of_some hm]

theorem sendNotification_tie {ce : ChanEnv} {s : Sess} {out : List Notif} {n : Notif}
    (hc : ce.closed = false) (hl : ce.len < ce.cap) :
    Session_sendNotification ce s out n = (s, out ++ [n]) := by
  unfold Session_sendNotification
  simp [hc, hl]

theorem getHosts_tie (s : Sess) : Session_GetHosts s = (s, s.hosts.map (·.2.id)) := by
  unfold Session_GetHosts
  simp only []
  rw [forRange_next (fun (st : Sess × List Nat) v => (st.1, st.2 ++ [v]))]
  · have : ∀ (l : List Nat) (acc : List Nat),
        l.foldl (fun (st : Sess × List Nat) v => (st.1, st.2 ++ [v])) (s, acc) = (s, acc ++ l) := by
      intro l; induction l with
      | nil => intro acc; simp
      | cons a l ih => intro acc; simp [ih]
    rw [this]; rfl
  · intro st a; rfl

end PV.Lemmas.TablesTieB
