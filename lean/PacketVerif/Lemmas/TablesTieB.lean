/-
  Ties between the generated table operations (`Gen/TablesGen.lean`) and the hand-written model
  (`Model/Tables.lean`): notification, online transition, makeOffline, notify, GetHosts, purge.
-/
import PacketVerif.Gen.TablesGen
import PacketVerif.Lemmas.Tables
import PacketVerif.Spec.TableInv
set_option linter.unusedVariables false
namespace PV.Lemmas.TablesTieB
open PV PV.Model.Tables PV.Model.TablesGo PV.Gen.Tables PV.Spec
open PV.Lemmas.Tables

/-! ### loops -/

theorem forRange_next {α σ ρ} (f : σ → α → σ) (body : σ → α → Ctl σ ρ) (k : σ → ρ)
    (hb : ∀ st a, body st a = .next (f st a)) :
    ∀ (l : List α) (st : σ), forRange l st body k = k (l.foldl f st)
  | [], st => rfl
  | a :: l, st => by
    rw [forRange, hb]
    exact forRange_next f body k hb l (f st a)

/-- a loop whose body only looks for an element satisfying `p` and breaks there -/
theorem forRange_any {α σ ρ} (p : α → Bool) (body : σ → α → Ctl σ ρ) (k : σ → ρ) (st stB : σ)
    (hb : ∀ a, body st a = if p a then .brk stB else .next st) :
    ∀ (l : List α), forRange l st body k = k (if l.any p then stB else st)
  | [] => rfl
  | a :: l => by
    rw [forRange, hb]
    by_cases h : p a = true
    · simp [h]
    · have h' : p a = false := by simpa using h
      simp only [h', List.any_cons, Bool.false_or]
      exact forRange_any p body k st stB hb l

/-! ### dereferencing -/

theorem H_of_some {s : Sess} {id : Nat} {h : HostRec} (e : hostById s id = some h) : H s id = h := by
  simp [H, e]
theorem M_of_some {s : Sess} {id : Nat} {m : MacRec} (e : macById s id = some m) : M s id = m := by
  simp [M, e]
theorem M_of_none {s : Sess} {id : Nat} (e : macById s id = none) : M s id = default := by
  simp [M, e]

@[simp] theorem macById_updHost (s : Sess) (id : Nat) (f) (j : Nat) :
    macById (updHost s id f) j = macById s j := rfl
@[simp] theorem hostById_updMac (s : Sess) (id : Nat) (f) (j : Nat) :
    hostById (updMac s id f) j = hostById s j := rfl
@[simp] theorem M_updHost (s : Sess) (id : Nat) (f) (j : Nat) : M (updHost s id f) j = M s j := rfl
@[simp] theorem H_updMac (s : Sess) (id : Nat) (f) (j : Nat) : H (updMac s id f) j = H s j := rfl

theorem find?_map_upd {α} (key : α → Nat) (g : α → α) (hg : ∀ a, key (g a) = key a) (j : Nat) :
    ∀ l : List α, (l.map g).find? (fun a => key a == j) = (l.find? (fun a => key a == j)).map g
  | [] => rfl
  | a :: l => by
    simp only [List.map_cons, List.find?_cons, hg]
    cases key a == j
    · simpa using find?_map_upd key g hg j l
    · rfl

theorem hostById_updHost (s : Sess) (id : Nat) (f : HostRec → HostRec) (hf : ∀ h, (f h).id = h.id)
    (j : Nat) : hostById (updHost s id f) j = (hostById s j).map (fun h => if h.id = id then f h else h) := by
  unfold hostById updHost
  simp only []
  rw [find?_map_upd (fun p : IP × HostRec => p.2.id)]
  · cases s.hosts.find? (fun p => p.2.id == j) with
    | none => rfl
    | some p => by_cases hp : p.2.id = id <;> simp [hp]
  · intro p; by_cases hp : p.2.id = id <;> simp [hp, hf]

theorem macById_updMac (s : Sess) (id : Nat) (f : MacRec → MacRec) (hf : ∀ m, (f m).id = m.id)
    (j : Nat) : macById (updMac s id f) j = (macById s j).map (fun m => if m.id = id then f m else m) := by
  unfold macById updMac
  simp only []
  rw [find?_map_upd (fun m : MacRec => m.id)]
  intro m; by_cases hp : m.id = id <;> simp [hp, hf]

/-! ### 1, 2, 8 -/

theorem toNotification_tie {s : Sess} {hid : Nat} {h : HostRec} (e : hostById s hid = some h) :
    toNotification s hid = (s, toNotif s h) := by
  unfold toNotification toNotif
  simp only [e, H_of_some e]
  cases hm : macById s h.entry with
  | none => simp only [M_of_none hm]; rfl
  | some m => simp only [M_of_some hm]

theorem sendNotification_tie {ce : ChanEnv} {s : Sess} {out : List Notif} {n : Notif}
    (hc : ce.closed = false) (hl : ce.len < ce.cap) :
    Session_sendNotification ce s out n = (s, out ++ [n]) := by
  unfold Session_sendNotification
  simp [hc, hl]

theorem getHosts_tie (s : Sess) : Session_GetHosts s = (s, s.hosts.map (·.2.id)) := by
  unfold Session_GetHosts
  simp only []
  rw [forRange_next (fun (st : Sess × List Nat) v => (st.1, st.2 ++ [v]))]
  · have : ∀ (l : List Nat) (acc : List Nat),
        l.foldl (fun (st : Sess × List Nat) v => (st.1, st.2 ++ [v])) (s, acc) = (s, acc ++ l) := by
      intro l; induction l with
      | nil => intro acc; simp
      | cons a l ih => intro acc; simp [ih]
    rw [this]; rfl
  · intro st a; rfl

/-! ### 3, 4: onlineTransition -/

/-- the host-side effect of one iteration of the sibling loop -/
def sibStep (ip : IP) (s : Sess) (v : Nat) : Sess :=
  if ((H s v).ip.is4 && (H s v).ip != ip) && (H s v).online then
    updHost s v (fun x => { x with online := false, dirty := true }) else s

theorem sibStep_ids (ip : IP) (s : Sess) (v : Nat) :
    (sibStep ip s v).hosts.map (·.2.id) = s.hosts.map (·.2.id) := by
  unfold sibStep
  split
  · unfold updHost
    simp only [List.map_map]
    apply List.map_congr_left
    intro p _
    by_cases hp : p.2.id = v <;> simp [hp]
  · rfl

theorem markSiblings_sibStep {s : Sess} (hn : (s.hosts.map (·.2.id)).Nodup) (ip : IP) (v : Nat) (l : List Nat) :
    markSiblings (sibStep ip s v) l ip = markSiblings s (v :: l) ip := by
  unfold sibStep
  split
  next hc =>
    unfold markSiblings updHost
    simp only [List.map_map]
    congr 1
    apply List.map_congr_left
    intro p hp
    by_cases hv : p.2.id = v
    · have hH : H s v = p.2 := by rw [← hv]; exact H_of_some (hostById_of_mem hn hp)
      rw [hH] at hc
      simp only [Bool.and_eq_true, bne_iff_ne, ne_eq] at hc
      simp [hv, hc.1.1, hc.1.2, hc.2]
    · have : ¬ v = p.2.id := fun h => hv h.symm
      simp [hv, List.mem_cons]
  next hc =>
    unfold markSiblings
    congr 1
    apply List.map_congr_left
    intro p hp
    by_cases hv : p.2.id = v
    · have hH : H s v = p.2 := by rw [← hv]; exact H_of_some (hostById_of_mem hn hp)
      rw [hH] at hc
      simp only [Bool.and_eq_true, bne_iff_ne, ne_eq, not_and, Bool.not_eq_true] at hc
      by_cases h1 : p.2.ip.is4 = true
      · by_cases h2 : p.2.ip = ip
        · simp [h2]
        · have := hc ⟨h1, h2⟩
          simp [this]
      · simp [h1]
    · simp [hv, List.mem_cons]

theorem foldl_sibStep (ip : IP) : ∀ (l : List Nat) (s : Sess), (s.hosts.map (·.2.id)).Nodup →
    l.foldl (sibStep ip) s = markSiblings s l ip
  | [], s, _ => by
    unfold markSiblings
    simp
  | v :: l, s, hn => by
    rw [List.foldl_cons, foldl_sibStep ip l _ (by rw [sibStep_ids]; exact hn), markSiblings_sibStep hn]

theorem updHost_updHost (s : Sess) (v : Nat) (f g : HostRec → HostRec) (hf : ∀ h, (f h).id = h.id) :
    updHost (updHost s v f) v g = updHost s v (fun x => g (f x)) := by
  unfold updHost
  simp only [List.map_map]
  congr 1
  apply List.map_congr_left
  intro p _
  by_cases hp : p.2.id = v <;> simp [hp, hf]

theorem updMac_same {s : Sess} (hn : (s.macs.map (·.id)).Nodup) (e : Nat) (f : MacRec → MacRec)
    (hf : ∀ m, macById s e = some m → f m = m) : updMac s e f = s := by
  unfold updMac
  have : s.macs.map (fun m => if m.id = e then f m else m) = s.macs := by
    conv => rhs; rw [← List.map_id s.macs]
    apply List.map_congr_left
    intro m hm
    by_cases he : m.id = e
    · simp only [he, if_true, id]
      exact hf m (he ▸ macById_of_mem hn hm)
    · simp [he]
  rw [this]

theorem updMac_ids (s : Sess) (e : Nat) (f : MacRec → MacRec) (hf : ∀ m, (f m).id = m.id) :
    (updMac s e f).macs.map (·.id) = s.macs.map (·.id) := by
  unfold updMac
  simp only [List.map_map]
  apply List.map_congr_left
  intro m _
  by_cases he : m.id = e <;> simp [he, hf]

theorem updHost_ids (s : Sess) (v : Nat) (f : HostRec → HostRec) (hf : ∀ h, (f h).id = h.id) :
    (updHost s v f).hosts.map (·.2.id) = s.hosts.map (·.2.id) := by
  unfold updHost
  simp only [List.map_map]
  apply List.map_congr_left
  intro p _
  by_cases hp : p.2.id = v <;> simp [hp, hf]

theorem macById_updMac_self {s : Sess} {e : Nat} {m : MacRec} (f : MacRec → MacRec)
    (hm : macById s e = some m) (hf : ∀ m, (f m).id = m.id) : macById (updMac s e f) e = some (f m) := by
  rw [macById_updMac _ _ _ hf, hm]; simp [(macById_some hm).2]

theorem updHost_off_dirty (s : Sess) (v : Nat) :
    updHost (updHost s v (fun x => { x with online := false })) v (fun x => { x with dirty := true }) =
      updHost s v (fun x => { x with online := false, dirty := true }) :=
  updHost_updHost s v (fun x => { x with online := false }) (fun x => { x with dirty := true }) (fun _ => rfl)

theorem updHost_on_dirty (s : Sess) (v : Nat) :
    updHost (updHost s v (fun x => { x with online := true })) v (fun x => { x with dirty := true }) =
      updHost s v (fun x => { x with online := true, dirty := true }) :=
  updHost_updHost s v (fun x => { x with online := true }) (fun x => { x with dirty := true }) (fun _ => rfl)

theorem sib_body (ip : IP) (s : Sess) (v : Nat) :
    (if ((H s v).ip.is4 && (H s v).ip != ip) = true then
      if (H s v).online = true then
        Ctl.next (updHost (updHost s v (fun x => { x with online := false })) v (fun x => { x with dirty := true }))
      else Ctl.next s
    else Ctl.next s : Ctl Sess Sess) = Ctl.next (sibStep ip s v) := by
  unfold sibStep
  rw [updHost_off_dirty]
  by_cases h1 : ((H s v).ip.is4 && (H s v).ip != ip) = true
  · by_cases h2 : (H s v).online = true
    · simp only [h1, h2, if_true, Bool.and_self]
    · simp [h1, h2]
  · simp [h1]

theorem setGua_eq {s : Sess} (hn : (s.macs.map (·.id)).Nodup) {e : Nat} {m : MacRec}
    (hm : macById s e = some m) (c : Bool) (ip : IP) :
    (if (c && ip != (M s e).ip6gua) = true then updMac s e (fun x => { x with ip6gua := ip }) else s) =
      (if c = true then updMac s e (fun x => { x with ip6gua := ip }) else s) := by
  rw [M_of_some hm]
  cases c
  · simp
  · by_cases hq : ip = m.ip6gua
    · have : updMac s e (fun x => { x with ip6gua := ip }) = s := by
        apply updMac_same hn
        intro m' hm'
        rw [hm] at hm'
        cases hm'
        rw [hq]
      simp [this]
    · simp [hq]

theorem setLla_eq {s : Sess} (hn : (s.macs.map (·.id)).Nodup) {e : Nat} {m : MacRec}
    (hm : macById s e = some m) (c : Bool) (ip : IP) :
    (if (c && ip != (M s e).ip6lla) = true then updMac s e (fun x => { x with ip6lla := ip }) else s) =
      (if c = true then updMac s e (fun x => { x with ip6lla := ip }) else s) := by
  rw [M_of_some hm]
  cases c
  · simp
  · by_cases hq : ip = m.ip6lla
    · have : updMac s e (fun x => { x with ip6lla := ip }) = s := by
        apply updMac_same hn
        intro m' hm'
        rw [hm] at hm'
        cases hm'
        rw [hq]
      simp [this]
    · simp [hq]

theorem onlineTransition_tie {s : Sess} (hi : Inv s) (hid : Nat) :
    Session_onlineTransition s hid = onlineTransition s hid := by
  unfold Session_onlineTransition onlineTransition
  cases e : hostById s hid with
  | none => rfl
  | some h =>
    obtain ⟨k, hk, hidEq⟩ := hostById_some e
    obtain ⟨m, hm, hme, -, -⟩ := hi.hostEntry _ hk
    have hmb : macById s h.entry = some m := hme ▸ macById_of_mem hi.midNodup hm
    simp only [H_of_some e]
    by_cases ho : h.online = true
    · simp [ho]
    · simp only [ho, if_false, Bool.false_eq_true]
      rw [updHost_on_dirty]
      have hm1 := macById_updMac_self (fun x => { x with online := true }) hmb (fun _ => rfl)
      have hn1 : ((updMac s h.entry (fun x => { x with online := true })).macs.map (·.id)).Nodup := by
        rw [updMac_ids]
        · exact hi.midNodup
        · intro _; rfl
      have hh1 : ((updMac s h.entry (fun x => { x with online := true })).hosts.map (·.2.id)).Nodup :=
        hi.hidNodup
      generalize updMac s h.entry (fun x => { x with online := true }) = s1 at hm1 hn1 hh1 ⊢
      have hm2 : macById (updHost s1 hid (fun x => { x with online := true, dirty := true })) h.entry = _ := hm1
      have hn2 : ((updHost s1 hid (fun x => { x with online := true, dirty := true })).macs.map (·.id)).Nodup := hn1
      have hh2 : ((updHost s1 hid (fun x => { x with online := true, dirty := true })).hosts.map (·.2.id)).Nodup := by
        rw [updHost_ids]
        · exact hh1
        · intro _; rfl
      generalize updHost s1 hid (fun x => { x with online := true, dirty := true }) = s2 at hm2 hn2 hh2 ⊢
      by_cases h4 : h.ip.is4 = true
      · simp only [h4, if_true, M_of_some hm2, hm2]
        by_cases hne : h.ip = m.ip4
        · simp [hne]
        · have hb : (h.ip != m.ip4) = true := by simpa using hne
          simp only [hb, if_true, ne_eq, hne, not_false_eq_true]
          have hm3 := macById_updMac_self (fun x => { x with ip4 := h.ip }) hm2 (fun _ => rfl)
          rw [M_of_some hm3]
          simp only [sib_body]
          rw [forRange_next (sibStep h.ip) _ _ (fun _ _ => rfl)]
          exact foldl_sibStep h.ip _ _ hh2
      · simp only [h4, if_false, Bool.false_eq_true]
        by_cases hA : (h.ip.isGlobalUnicast && h.ip != (M s2 h.entry).ip6gua) = true
        · have hg : h.ip.isGlobalUnicast = true := by
            simp only [Bool.and_eq_true] at hA; exact hA.1
          rw [if_pos hA]
          simp only [hg, if_true]
          have hm4 := macById_updMac_self (fun x => { x with ip6gua := h.ip }) hm2 (fun _ => rfl)
          have hn4 : ((updMac s2 h.entry (fun x => { x with ip6gua := h.ip })).macs.map (·.id)).Nodup := by
            rw [updMac_ids]
            · exact hn2
            · intro _; rfl
          exact setLla_eq hn4 hm4 _ _
        · have hS := setGua_eq hn2 hm2 h.ip.isGlobalUnicast h.ip
          simp only [hA, if_false, Bool.false_eq_true] at hS ⊢
          rw [← hS]
          exact setLla_eq hn2 hm2 _ _

theorem checkOnlineTransition_tie {s : Sess} (hi : Inv s) (hid : Nat) :
    Session_checkOnlineTransition s hid =
      (match hostById s hid with
       | none => (s, false)
       | some h => if h.online then (s, false) else (onlineTransition s hid, true)) := by
  unfold Session_checkOnlineTransition
  cases e : hostById s hid with
  | none => rfl
  | some h => simp only [H_of_some e, onlineTransition_tie hi]

/-! ### 5: makeOffline -/

theorem any_online_eq {s : Sess} (hn : (s.hosts.map (·.2.id)).Nodup) (l : List Nat)
    (hl : ∀ i ∈ l, ∃ p ∈ s.hosts, p.2.id = i) :
    l.any (fun v => (H s v).online) = s.hosts.any (fun p => decide (p.2.id ∈ l) && p.2.online) := by
  rw [Bool.eq_iff_iff]
  simp only [List.any_eq_true, Bool.and_eq_true, decide_eq_true_eq]
  constructor
  · rintro ⟨v, hv, hon⟩
    obtain ⟨p, hp, hpi⟩ := hl v hv
    have : H s v = p.2 := by rw [← hpi]; exact H_of_some (hostById_of_mem hn hp)
    exact ⟨p, hp, hpi ▸ hv, this ▸ hon⟩
  · rintro ⟨p, hp, hmem, hon⟩
    exact ⟨p.2.id, hmem, by rw [H_of_some (hostById_of_mem hn hp)]; exact hon⟩

theorem updHost_off_clean (s : Sess) (v : Nat) :
    updHost (updHost s v (fun x => { x with online := false })) v (fun x => { x with dirty := false }) =
      updHost s v (fun x => { x with online := false, dirty := false }) :=
  updHost_updHost s v (fun x => { x with online := false }) (fun x => { x with dirty := false }) (fun _ => rfl)

theorem makeOffline_tie {s : Sess} (hi : Inv s) {ce : ChanEnv} (hc : ce.closed = false)
    (hl : ce.len < ce.cap) (out : List Notif) (hid : Nat) :
    Session_makeOffline ce s out hid = ((makeOffline s hid).1, out ++ (makeOffline s hid).2) := by
  unfold Session_makeOffline makeOffline
  cases e : hostById s hid with
  | none => simp
  | some h =>
    obtain ⟨k, hk, hidEq⟩ := hostById_some e
    obtain ⟨m, hm, hme, -, -⟩ := hi.hostEntry _ hk
    have hmb : macById s h.entry = some m := hme ▸ macById_of_mem hi.midNodup hm
    simp only []
    rw [updHost_off_clean]
    have h1 : Inv (updHost s hid (fun x => { x with online := false, dirty := false })) :=
      inv_updHost hi _ (by keepH) (by intro h hh; simp at hh)
    have e1 : hostById (updHost s hid (fun x => { x with online := false, dirty := false })) hid =
        some { h with online := false, dirty := false } := by
      rw [hostById_updHost, e]
      · simp [hidEq]
      · intro _; rfl
    have hmb1 : macById (updHost s hid (fun x => { x with online := false, dirty := false })) h.entry = some m := hmb
    generalize updHost s hid (fun x => { x with online := false, dirty := false }) = s1 at h1 e1 hmb1 ⊢
    simp only [toNotification_tie e1, M_of_some hmb1, hmb1]
    rw [forRange_any (fun v => (H s1 v).online) _ _ _ (s1, out, true) (fun _ => rfl)]
    have hlist : ∀ i ∈ m.hostList, ∃ p ∈ s1.hosts, p.2.id = i := by
      intro i hi'
      obtain ⟨p, hp, hpi, -⟩ := h1.listed m (macById_some hmb1).1 i hi'
      exact ⟨p, hp, hpi⟩
    rw [any_online_eq h1.hidNodup _ hlist]
    simp only [decide_eq_true hl, if_true, sendNotification_tie hc hl]
    cases s1.hosts.any (fun p => decide (p.2.id ∈ m.hostList) && p.2.online) <;> rfl

/-! ### 6: the makeOffline loop of `notify` / `purge` -/

theorem makeOfflineAll_tie {ρ : Type} {ce : ChanEnv} (hc : ce.closed = false) (hl : ce.len < ce.cap)
    (k : Sess × List Notif → ρ) : ∀ (l : List Nat) (s : Sess) (out : List Notif), Inv s →
    forRange l (s, out) (fun st v =>
      let s := st.1
      let out := st.2
      let v_entry := (H s v).entry
      let v_ip := (H s v).ip
      let v_mac := (H s v).mac
      let r_ := Session_makeOffline ce s out v
      let s := r_.1
      let out := r_.2
      Ctl.next (s, out)) k = k ((makeOfflineAll s l).1, out ++ (makeOfflineAll s l).2)
  | [], s, out, _ => by simp [forRange, makeOfflineAll]
  | a :: l, s, out, hi => by
    rw [forRange]
    simp only [makeOffline_tie hi hc hl]
    rw [makeOfflineAll_tie hc hl k l _ _ (inv_makeOffline hi a)]
    simp [makeOfflineAll, List.append_assoc]

/-! ### 7: notify -/

theorem forRange_filter {α σ ρ} (p : α → Bool) (mk : List α → σ) (body : σ → α → Ctl σ ρ) (k : σ → ρ)
    (hb : ∀ acc a, body (mk acc) a = .next (mk (if p a then acc ++ [a] else acc))) :
    ∀ (l : List α) (acc : List α), forRange l (mk acc) body k = k (mk (acc ++ l.filter p))
  | [], acc => by simp [forRange]
  | a :: l, acc => by
    rw [forRange, hb]
    show forRange l (mk (if p a = true then acc ++ [a] else acc)) body k = _
    rw [forRange_filter p mk body k hb l]
    cases hp : p a <;> simp [hp]

theorem makeOffline_hostById {s : Sess} (v : Nat) {j : Nat} {h : HostRec} (e : hostById s j = some h) :
    ∃ h', hostById (makeOffline s v).1 j = some h' := by
  unfold makeOffline
  cases hv : hostById s v with
  | none => exact ⟨h, e⟩
  | some hv' =>
    have : ∃ h', hostById (updHost s v (fun x => { x with online := false, dirty := false })) j = some h' := by
      rw [hostById_updHost, e]
      · exact ⟨_, rfl⟩
      · intro _; rfl
    simp only []
    cases macById (updHost s v (fun x => { x with online := false, dirty := false })) hv'.entry with
    | none => exact this
    | some m => exact this

theorem makeOfflineAll_hostById : ∀ (l : List Nat) {s : Sess} {j : Nat} {h : HostRec},
    hostById s j = some h → ∃ h', hostById (makeOfflineAll s l).1 j = some h'
  | [], s, j, h, e => ⟨h, e⟩
  | v :: l, s, j, h, e => by
    obtain ⟨h1, e1⟩ := makeOffline_hostById v e
    exact makeOfflineAll_hostById l e1

theorem notify_tail {s : Sess} (hi : Inv s) {ce : ChanEnv} (hc : ce.closed = false) (hl : ce.len < ce.cap)
    (out : List Notif) (hid : Nat) {h : HostRec} (e : hostById s hid = some h) (l : List Nat) :
    forRange l (s, out) (fun st v =>
        let s := st.1
        let out := st.2
        let v_entry := (H s v).entry
        let v_ip := (H s v).ip
        let v_mac := (H s v).mac
        let r_ := Session_makeOffline ce s out v
        let s := r_.1
        let out := r_.2
        Ctl.next (s, out)) (fun st =>
        let s := st.1
        let out := st.2
        let r_ := toNotification s hid
        let s := r_.1
        let r_0 := r_.2
        let notification := r_0
        let s := updHost s hid (fun x => { x with dirty := false })
        let r_ := Session_sendNotification ce s out notification
        let s := r_.1
        let out := r_.2
        (s, out)) =
      ((match hostById (makeOfflineAll s l).1 hid with
        | none => makeOfflineAll s l
        | some h1 => (updHost (makeOfflineAll s l).1 hid (fun x => { x with dirty := false }),
            (makeOfflineAll s l).2 ++ [toNotif (makeOfflineAll s l).1 h1])).1,
       out ++ (match hostById (makeOfflineAll s l).1 hid with
        | none => makeOfflineAll s l
        | some h1 => (updHost (makeOfflineAll s l).1 hid (fun x => { x with dirty := false }),
            (makeOfflineAll s l).2 ++ [toNotif (makeOfflineAll s l).1 h1])).2) := by
  rw [makeOfflineAll_tie hc hl _ l s out hi]
  obtain ⟨h1, e1⟩ := makeOfflineAll_hostById l e
  simp only [e1, toNotification_tie e1, sendNotification_tie hc hl, List.append_assoc]

theorem ite_next3 {σ1 σ2 α ρ : Type} (c : Prop) [Decidable c] (a : σ1) (b : σ2) (x y : α) :
    (if c then (Ctl.next (a, b, x) : Ctl (σ1 × σ2 × α) ρ) else Ctl.next (a, b, y)) =
      Ctl.next (a, b, if c then x else y) := by
  split <;> rfl

theorem notify_cond_eq (s : Sess) (hid a : Nat) :
    (a != hid && !(H s a).online && (H s a).dirty) =
      (match hostById s a with
       | some v => a != hid && !v.online && v.dirty
       | none => false) := by
  unfold H
  cases hostById s a with
  | none => 
    have : (default : HostRec).dirty = false := rfl
    simp [this]
  | some v => simp

theorem notify_tie {s : Sess} (hi : Inv s) {ce : ChanEnv} (hc : ce.closed = false) (hl : ce.len < ce.cap)
    (out : List Notif) (hid : Nat) (pid : Int) (smac : MAC) (sip : IP) (flags : Nat) :
    Session_notify ce s out (some hid) pid smac sip flags =
      ((notifyHost s hid (flags &&& 1 == 1)).1, out ++ (notifyHost s hid (flags &&& 1 == 1)).2) := by
  unfold Session_notify notifyHost
  simp only []
  cases e : hostById s hid with
  | none => simp
  | some h =>
    simp only [H_of_some e]
    cases hd : h.dirty with
    | false => simp
    | true =>
      simp only [Bool.not_true, Bool.false_eq_true, if_false]
      by_cases hf : (flags &&& 1 == 1) = true
      · by_cases h4 : h.ip.is4 = true
        · obtain ⟨k, hk, hidEq⟩ := hostById_some e
          obtain ⟨m, hm, hme, -, -⟩ := hi.hostEntry _ hk
          have hmb : macById s h.entry = some m := hme ▸ macById_of_mem hi.midNodup hm
          simp only [hf, h4, if_true, and_self, M_of_some hmb, hmb]
          rw [forRange_filter (fun i => match hostById s i with
              | some v => i != hid && !v.online && v.dirty
              | none => false) (fun acc => (s, out, acc)) _ _ ?_ m.hostList []]
          · exact notify_tail hi hc hl out hid e _
          · intro acc a
            simp only [notify_cond_eq]
            exact ite_next3 _ _ _ _ _
        · simp only [hf, h4, if_true, if_false, and_false, Bool.false_eq_true]
          exact notify_tail hi hc hl out hid e []
      · simp only [hf]
        exact notify_tail hi hc hl out hid e []

/-! ### 9: purge -/

theorem purge_classify {ρ : Type} (s : Sess) (out : List Notif) (dc pc oc : Int)
    (K : Sess × List Notif × List IP × List (MAC × IP) × List Nat → ρ) :
    ∀ (l : List Nat) (P : List IP) (Q : List (MAC × IP)) (O : List Nat),
    forRange l (s, out, P, Q, O) (fun st e =>
      let s := st.1
      let out := st.2.1
      let purge := st.2.2.1
      let probe := st.2.2.2.1
      let offline := st.2.2.2.2
      let e_entry := (H s e).entry
      let e_ip := (H s e).ip
      let e_mac := (H s e).mac
      if ((!(H s e).online) && decide ((H s e).lastSeen < dc)) then
        let purge := (purge ++ [e_ip])
        Ctl.next (s, out, purge, probe, offline)
      else
        if ((H s e).online && decide ((H s e).lastSeen < pc)) then
          let probe := (probe ++ [(e_mac, e_ip)])
          if ((H s e).online && decide ((H s e).lastSeen < oc)) then
            let offline := (offline ++ [e])
            Ctl.next (s, out, purge, probe, offline)
          else
            Ctl.next (s, out, purge, probe, offline)
        else
          if ((H s e).online && decide ((H s e).lastSeen < oc)) then
            let offline := (offline ++ [e])
            Ctl.next (s, out, purge, probe, offline)
          else
            Ctl.next (s, out, purge, probe, offline)) K =
      K (s, out,
        P ++ (l.filter (fun e => (!(H s e).online) && decide ((H s e).lastSeen < dc))).map (fun e => (H s e).ip),
        Q ++ (l.filter (fun e => !((!(H s e).online) && decide ((H s e).lastSeen < dc)) &&
                ((H s e).online && decide ((H s e).lastSeen < pc)))).map (fun e => ((H s e).mac, (H s e).ip)),
        O ++ l.filter (fun e => !((!(H s e).online) && decide ((H s e).lastSeen < dc)) &&
                ((H s e).online && decide ((H s e).lastSeen < oc))))
  | [], P, Q, O => by simp [forRange]
  | a :: l, P, Q, O => by
    rw [forRange]
    cases hA : ((!(H s a).online) && decide ((H s a).lastSeen < dc)) <;>
    cases hB : ((H s a).online && decide ((H s a).lastSeen < pc)) <;>
    cases hC : ((H s a).online && decide ((H s a).lastSeen < oc)) <;>
    simp only [hA, hB, hC, if_true, if_false, Bool.false_eq_true] <;>
    rw [purge_classify s out dc pc oc K l] <;>
    simp only [List.filter_cons, hA, hB, hC, Bool.not_true, Bool.not_false, Bool.and_true, Bool.and_false,
      if_true, if_false, Bool.false_eq_true, List.map_cons, List.append_assoc,
      List.cons_append, List.nil_append]

theorem purge_delete_loop (hdel : ∀ (s : Sess) (ip : IP), Inv s → Session_deleteHost s ip = some (deleteHost s ip)) :
    ∀ (l : List IP) (s : Sess) (out : List Notif), Inv s →
    forRange l (s, out) (fun st v =>
      let s := st.1
      let out := st.2
      match Session_deleteHost s v with
      | none => Ctl.ret (none)
      | some r_ =>
      let s := r_
      Ctl.next (s, out)) (fun st =>
      let s := st.1
      let out := st.2
      some (s, out, (none : Option Err))) = some (l.foldl deleteHost s, out, none)
  | [], s, out, _ => rfl
  | a :: l, s, out, hi => by
    rw [forRange]
    simp only [hdel s a hi]
    exact purge_delete_loop hdel l _ out (inv_deleteHost hi a)

theorem purge_fin (hdel : ∀ (s : Sess) (ip : IP), Inv s → Session_deleteHost s ip = some (deleteHost s ip))
    (PL : List IP) (s : Sess) (out : List Notif) (hi : Inv s) :
    (if decide (((PL.length : Nat) : Int) > (0 : Int)) then
      forRange PL (s, out) (fun st v =>
        let s := st.1
        let out := st.2
        match Session_deleteHost s v with
        | none => Ctl.ret (none)
        | some r_ =>
        let s := r_
        Ctl.next (s, out)) (fun st =>
        let s := st.1
        let out := st.2
        some (s, out, (none : Option Err)))
    else some (s, out, none)) = some (PL.foldl deleteHost s, out, none) := by
  cases PL with
  | nil => simp
  | cons a l =>
    rw [purge_delete_loop hdel _ s out hi]
    simp

theorem filter_ids_ip (s : Sess) (A : HostRec → Bool) : ∀ (l : List (IP × HostRec)),
    (∀ p ∈ l, H s p.2.id = p.2) →
    ((l.map (·.2.id)).filter (fun e => A (H s e))).map (fun e => (H s e).ip) =
      ((l.map (·.2)).filter A).map (·.ip)
  | [], _ => rfl
  | p :: l, hp => by
    have h0 : H s p.2.id = p.2 := hp p (List.mem_cons_self)
    have ih := filter_ids_ip s A l (fun q hq => hp q (List.mem_cons_of_mem _ hq))
    simp only [List.map_cons, List.filter_cons, h0]
    cases A p.2
    · simpa using ih
    · simp only [if_true, List.map_cons, h0, ih]

theorem filter_ids_id (s : Sess) (A : HostRec → Bool) : ∀ (l : List (IP × HostRec)),
    (∀ p ∈ l, H s p.2.id = p.2) →
    (l.map (·.2.id)).filter (fun e => A (H s e)) = ((l.map (·.2)).filter A).map (·.id)
  | [], _ => rfl
  | p :: l, hp => by
    have h0 : H s p.2.id = p.2 := hp p (List.mem_cons_self)
    have ih := filter_ids_id s A l (fun q hq => hp q (List.mem_cons_of_mem _ hq))
    simp only [List.map_cons, List.filter_cons, h0]
    cases A p.2
    · simpa using ih
    · simp only [if_true, List.map_cons, ih]

theorem purge_tie (hdel : ∀ (s : Sess) (ip : IP), Inv s → Session_deleteHost s ip = some (deleteHost s ip))
    {s : Sess} (hi : Inv s) {ce : ChanEnv} (hc : ce.closed = false) (hl : ce.len < ce.cap)
    (cfg : Cfg) (out : List Notif) (now : Int) :
    Session_purge cfg ce s out now = some ((purge cfg s now).1, out ++ (purge cfg s now).2, none) := by
  unfold Session_purge purge
  simp only [getHosts_tie]
  rw [purge_classify]
  have hH : ∀ p ∈ s.hosts, H s p.2.id = p.2 := fun p hp => H_of_some (hostById_of_mem hi.hidNodup hp)
  have e1 : now + cfg.purgeDL * -1 = now - cfg.purgeDL := by omega
  have e2 : now + cfg.offlineDL * -1 = now - cfg.offlineDL := by omega
  simp only [List.nil_append, e1, e2]
  rw [filter_ids_ip s (fun r => !r.online && decide (r.lastSeen < now - cfg.purgeDL)) s.hosts hH]
  rw [filter_ids_id s (fun r => !(!r.online && decide (r.lastSeen < now - cfg.purgeDL)) &&
        (r.online && decide (r.lastSeen < now - cfg.offlineDL))) s.hosts hH]
  rw [makeOfflineAll_tie hc hl _ _ s out hi]
  exact purge_fin hdel _ _ _ (inv_makeOfflineAll hi _)

end PV.Lemmas.TablesTieB
