/-
  Ties between the generated table operations (`Gen/TablesGen.lean`) and the hand-written model
  (`Model/Tables.lean`): notification, online transition, makeOffline, notify, GetHosts, purge.
-/
import PacketVerif.Gen.TablesGen
import PacketVerif.Lemmas.Tables
import PacketVerif.Spec.TableInv
namespace PV.Lemmas.TablesTieB
open PV PV.Model.Tables PV.Model.TablesGo PV.Gen.Tables PV.Spec
open PV.Lemmas.Tables

/-! ### loops -/

theorem forRange_next {α σ ρ} (f : σ → α → σ) (body : σ → α → Ctl σ ρ) (k : σ → ρ)
    (hb : ∀ st a, body st a = .next (f st a)) :
    ∀ (l : List α) (st : σ), forRange l st body k = k (l.foldl f st)
  | [], st => rfl
  | a :: l, st => by
    rw [forRange, hb]
    exact forRange_next f body k hb l (f st a)

/-- a loop whose body only looks for an element satisfying `p` and breaks there -/
theorem forRange_any {α σ ρ} (p : α → Bool) (body : σ → α → Ctl σ ρ) (k : σ → ρ) (st stB : σ)
    (hb : ∀ a, body st a = if p a then .brk stB else .next st) :
    ∀ (l : List α), forRange l st body k = k (if l.any p then stB else st)
  | [] => rfl
  | a :: l => by
    rw [forRange, hb]
    by_cases h : p a = true
    · simp [h]
    · have h' : p a = false := by simpa using h
      simp only [h', List.any_cons, Bool.false_or]
      exact forRange_any p body k st stB hb l

/-! ### dereferencing -/

theorem H_of_some {s : Sess} {id : Nat} {h : HostRec} (e : hostById s id = some h) : H s id = h := by
  simp [H, e]
theorem M_of_some {s : Sess} {id : Nat} {m : MacRec} (e : macById s id = some m) : M s id = m := by
  simp [M, e]
theorem M_of_none {s : Sess} {id : Nat} (e : macById s id = none) : M s id = default := by
  simp [M, e]

@[simp] theorem macById_updHost (s : Sess) (id : Nat) (f) (j : Nat) :
    macById (updHost s id f) j = macById s j := rfl
@[simp] theorem hostById_updMac (s : Sess) (id : Nat) (f) (j : Nat) :
    hostById (updMac s id f) j = hostById s j := rfl
@[simp] theorem M_updHost (s : Sess) (id : Nat) (f) (j : Nat) : M (updHost s id f) j = M s j := rfl
@[simp] theorem H_updMac (s : Sess) (id : Nat) (f) (j : Nat) : H (updMac s id f) j = H s j := rfl

theorem find?_map_upd {α} (key : α → Nat) (g : α → α) (hg : ∀ a, key (g a) = key a) (j : Nat) :
    ∀ l : List α, (l.map g).find? (fun a => key a == j) = (l.find? (fun a => key a == j)).map g
  | [] => rfl
  | a :: l => by
    simp only [List.map_cons, List.find?_cons, hg]
    cases key a == j
    · simpa using find?_map_upd key g hg j l
    · rfl

theorem hostById_updHost (s : Sess) (id : Nat) (f : HostRec → HostRec) (hf : ∀ h, (f h).id = h.id)
    (j : Nat) : hostById (updHost s id f) j = (hostById s j).map (fun h => if h.id = id then f h else h) := by
  unfold hostById updHost
  simp only []
  rw [find?_map_upd (fun p : IP × HostRec => p.2.id)]
  · cases s.hosts.find? (fun p => p.2.id == j) with
    | none => rfl
    | some p => by_cases hp : p.2.id = id <;> simp [hp]
  · intro p; by_cases hp : p.2.id = id <;> simp [hp, hf]

theorem macById_updMac (s : Sess) (id : Nat) (f : MacRec → MacRec) (hf : ∀ m, (f m).id = m.id)
    (j : Nat) : macById (updMac s id f) j = (macById s j).map (fun m => if m.id = id then f m else m) := by
  unfold macById updMac
  simp only []
  rw [find?_map_upd (fun m : MacRec => m.id)]
  intro m; by_cases hp : m.id = id <;> simp [hp, hf]

/-! ### 1, 2, 8 -/

theorem toNotification_tie {s : Sess} {hid : Nat} {h : HostRec} (e : hostById s hid = some h) :
    toNotification s hid = (s, toNotif s h) := by
  unfold toNotification toNotif
  simp only [e, H_of_some e]
  cases hm : macById s h.entry with
  | none => simp only [M_of_none hm]; rfl
  | some m => simp only [M_of_some hm]

theorem sendNotification_tie {ce : ChanEnv} {s : Sess} {out : List Notif} {n : Notif}
    (hc : ce.closed = false) (hl : ce.len < ce.cap) :
    Session_sendNotification ce s out n = (s, out ++ [n]) := by
  unfold Session_sendNotification
  simp [hc, hl]

theorem getHosts_tie (s : Sess) : Session_GetHosts s = (s, s.hosts.map (·.2.id)) := by
  unfold Session_GetHosts
  simp only []
  rw [forRange_next (fun (st : Sess × List Nat) v => (st.1, st.2 ++ [v]))]
  · have : ∀ (l : List Nat) (acc : List Nat),
        l.foldl (fun (st : Sess × List Nat) v => (st.1, st.2 ++ [v])) (s, acc) = (s, acc ++ l) := by
      intro l; induction l with
      | nil => intro acc; simp
      | cons a l ih => intro acc; simp [ih]
    rw [this]; rfl
  · intro st a; rfl

/-! ### 3, 4: onlineTransition -/

/-- the host-side effect of one iteration of the sibling loop -/
def sibStep (ip : IP) (s : Sess) (v : Nat) : Sess :=
  if ((H s v).ip.is4 && (H s v).ip != ip) && (H s v).online then
    updHost s v (fun x => { x with online := false, dirty := true }) else s

theorem sibStep_ids (ip : IP) (s : Sess) (v : Nat) :
    (sibStep ip s v).hosts.map (·.2.id) = s.hosts.map (·.2.id) := by
  unfold sibStep
  split
  · unfold updHost
    simp only [List.map_map]
    apply List.map_congr_left
    intro p _
    by_cases hp : p.2.id = v <;> simp [hp]
  · rfl

theorem markSiblings_sibStep {s : Sess} (hn : (s.hosts.map (·.2.id)).Nodup) (ip : IP) (v : Nat) (l : List Nat) :
    markSiblings (sibStep ip s v) l ip = markSiblings s (v :: l) ip := by
  unfold sibStep
  split
  next hc =>
    unfold markSiblings updHost
    simp only [List.map_map]
    congr 1
    apply List.map_congr_left
    intro p hp
    by_cases hv : p.2.id = v
    · have hH : H s v = p.2 := by rw [← hv]; exact H_of_some (hostById_of_mem hn hp)
      rw [hH] at hc
      simp only [Bool.and_eq_true, bne_iff_ne, ne_eq] at hc
      simp [hv, hc.1.1, hc.1.2, hc.2]
    · have : ¬ v = p.2.id := fun h => hv h.symm
      simp [hv, List.mem_cons]
  next hc =>
    unfold markSiblings
    congr 1
    apply List.map_congr_left
    intro p hp
    by_cases hv : p.2.id = v
    · have hH : H s v = p.2 := by rw [← hv]; exact H_of_some (hostById_of_mem hn hp)
      rw [hH] at hc
      simp only [Bool.and_eq_true, bne_iff_ne, ne_eq, not_and, Bool.not_eq_true] at hc
      by_cases h1 : p.2.ip.is4 = true
      · by_cases h2 : p.2.ip = ip
        · simp [h2]
        · have := hc ⟨h1, h2⟩
          simp [this]
      · simp [h1]
    · simp [hv, List.mem_cons]

theorem foldl_sibStep (ip : IP) : ∀ (l : List Nat) (s : Sess), (s.hosts.map (·.2.id)).Nodup →
    l.foldl (sibStep ip) s = markSiblings s l ip
  | [], s, _ => by
    unfold markSiblings
    simp
  | v :: l, s, hn => by
    rw [List.foldl_cons, foldl_sibStep ip l _ (by rw [sibStep_ids]; exact hn), markSiblings_sibStep hn]

theorem updHost_updHost (s : Sess) (v : Nat) (f g : HostRec → HostRec) (hf : ∀ h, (f h).id = h.id) :
    updHost (updHost s v f) v g = updHost s v (fun x => g (f x)) := by
  unfold updHost
  simp only [List.map_map]
  congr 1
  apply List.map_congr_left
  intro p _
  by_cases hp : p.2.id = v <;> simp [hp, hf]

theorem updMac_same {s : Sess} (hn : (s.macs.map (·.id)).Nodup) (e : Nat) (f : MacRec → MacRec)
    (hf : ∀ m, macById s e = some m → f m = m) : updMac s e f = s := by
  unfold updMac
  have : s.macs.map (fun m => if m.id = e then f m else m) = s.macs := by
    conv => rhs; rw [← List.map_id s.macs]
    apply List.map_congr_left
    intro m hm
    by_cases he : m.id = e
    · simp only [he, if_true, id]
      exact hf m (he ▸ macById_of_mem hn hm)
    · simp [he]
  rw [this]

theorem updMac_ids (s : Sess) (e : Nat) (f : MacRec → MacRec) (hf : ∀ m, (f m).id = m.id) :
    (updMac s e f).macs.map (·.id) = s.macs.map (·.id) := by
  unfold updMac
  simp only [List.map_map]
  apply List.map_congr_left
  intro m _
  by_cases he : m.id = e <;> simp [he, hf]

theorem updHost_ids (s : Sess) (v : Nat) (f : HostRec → HostRec) (hf : ∀ h, (f h).id = h.id) :
    (updHost s v f).hosts.map (·.2.id) = s.hosts.map (·.2.id) := by
  unfold updHost
  simp only [List.map_map]
  apply List.map_congr_left
  intro p _
  by_cases hp : p.2.id = v <;> simp [hp, hf]

theorem macById_updMac_self {s : Sess} {e : Nat} {m : MacRec} (f : MacRec → MacRec)
    (hm : macById s e = some m) (hf : ∀ m, (f m).id = m.id) : macById (updMac s e f) e = some (f m) := by
  rw [macById_updMac _ _ _ hf, hm]; simp [(macById_some hm).2]

theorem updHost_off_dirty (s : Sess) (v : Nat) :
    updHost (updHost s v (fun x => { x with online := false })) v (fun x => { x with dirty := true }) =
      updHost s v (fun x => { x with online := false, dirty := true }) :=
  updHost_updHost s v (fun x => { x with online := false }) (fun x => { x with dirty := true }) (fun _ => rfl)

theorem updHost_on_dirty (s : Sess) (v : Nat) :
    updHost (updHost s v (fun x => { x with online := true })) v (fun x => { x with dirty := true }) =
      updHost s v (fun x => { x with online := true, dirty := true }) :=
  updHost_updHost s v (fun x => { x with online := true }) (fun x => { x with dirty := true }) (fun _ => rfl)

theorem sib_body (ip : IP) (s : Sess) (v : Nat) :
    (if ((H s v).ip.is4 && (H s v).ip != ip) = true then
      if (H s v).online = true then
        Ctl.next (updHost (updHost s v (fun x => { x with online := false })) v (fun x => { x with dirty := true }))
      else Ctl.next s
    else Ctl.next s : Ctl Sess Sess) = Ctl.next (sibStep ip s v) := by
  unfold sibStep
  rw [updHost_off_dirty]
  by_cases h1 : ((H s v).ip.is4 && (H s v).ip != ip) = true
  · by_cases h2 : (H s v).online = true
    · simp only [h1, h2, if_true, Bool.and_self]
    · simp [h1, h2]
  · simp [h1]

theorem setGua_eq {s : Sess} (hn : (s.macs.map (·.id)).Nodup) {e : Nat} {m : MacRec}
    (hm : macById s e = some m) (c : Bool) (ip : IP) :
    (if (c && ip != (M s e).ip6gua) = true then updMac s e (fun x => { x with ip6gua := ip }) else s) =
      (if c = true then updMac s e (fun x => { x with ip6gua := ip }) else s) := by
  rw [M_of_some hm]
  cases c
  · simp
  · by_cases hq : ip = m.ip6gua
    · have : updMac s e (fun x => { x with ip6gua := ip }) = s := by
        apply updMac_same hn
        intro m' hm'
        rw [hm] at hm'
        cases hm'
        rw [hq]
      simp [this]
    · simp [hq]

theorem setLla_eq {s : Sess} (hn : (s.macs.map (·.id)).Nodup) {e : Nat} {m : MacRec}
    (hm : macById s e = some m) (c : Bool) (ip : IP) :
    (if (c && ip != (M s e).ip6lla) = true then updMac s e (fun x => { x with ip6lla := ip }) else s) =
      (if c = true then updMac s e (fun x => { x with ip6lla := ip }) else s) := by
  rw [M_of_some hm]
  cases c
  · simp
  · by_cases hq : ip = m.ip6lla
    · have : updMac s e (fun x => { x with ip6lla := ip }) = s := by
        apply updMac_same hn
        intro m' hm'
        rw [hm] at hm'
        cases hm'
        rw [hq]
      simp [this]
    · simp [hq]

theorem onlineTransition_tie {s : Sess} (hi : Inv s) (hid : Nat) :
    Session_onlineTransition s hid = onlineTransition s hid := by
  unfold Session_onlineTransition onlineTransition
  cases e : hostById s hid with
  | none => rfl
  | some h =>
    obtain ⟨k, hk, hidEq⟩ := hostById_some e
    obtain ⟨m, hm, hme, -, -⟩ := hi.hostEntry _ hk
    have hmb : macById s h.entry = some m := hme ▸ macById_of_mem hi.midNodup hm
    simp only [H_of_some e]
    by_cases ho : h.online = true
    · simp [ho]
    · simp only [ho, if_false, Bool.false_eq_true]
      rw [updHost_on_dirty]
      have hm1 := macById_updMac_self (fun x => { x with online := true }) hmb (fun _ => rfl)
      have hn1 : ((updMac s h.entry (fun x => { x with online := true })).macs.map (·.id)).Nodup := by
        rw [updMac_ids]
        · exact hi.midNodup
        · intro _; rfl
      have hh1 : ((updMac s h.entry (fun x => { x with online := true })).hosts.map (·.2.id)).Nodup :=
        hi.hidNodup
      generalize updMac s h.entry (fun x => { x with online := true }) = s1 at hm1 hn1 hh1 ⊢
      have hm2 : macById (updHost s1 hid (fun x => { x with online := true, dirty := true })) h.entry = _ := hm1
      have hn2 : ((updHost s1 hid (fun x => { x with online := true, dirty := true })).macs.map (·.id)).Nodup := hn1
      have hh2 : ((updHost s1 hid (fun x => { x with online := true, dirty := true })).hosts.map (·.2.id)).Nodup := by
        rw [updHost_ids]
        · exact hh1
        · intro _; rfl
      generalize updHost s1 hid (fun x => { x with online := true, dirty := true }) = s2 at hm2 hn2 hh2 ⊢
      by_cases h4 : h.ip.is4 = true
      · simp only [h4, if_true, M_of_some hm2, hm2]
        by_cases hne : h.ip = m.ip4
        · simp [hne]
        · have hb : (h.ip != m.ip4) = true := by simpa using hne
          simp only [hb, if_true, ne_eq, hne, not_false_eq_true]
          have hm3 := macById_updMac_self (fun x => { x with ip4 := h.ip }) hm2 (fun _ => rfl)
          rw [M_of_some hm3]
          simp only [sib_body]
          rw [forRange_next (sibStep h.ip) _ _ (fun _ _ => rfl)]
          exact foldl_sibStep h.ip _ _ hh2
      · simp only [h4, if_false, Bool.false_eq_true]
        by_cases hA : (h.ip.isGlobalUnicast && h.ip != (M s2 h.entry).ip6gua) = true
        · have hg : h.ip.isGlobalUnicast = true := by
            simp only [Bool.and_eq_true] at hA; exact hA.1
          rw [if_pos hA]
          simp only [hg, if_true]
          have hm4 := macById_updMac_self (fun x => { x with ip6gua := h.ip }) hm2 (fun _ => rfl)
          have hn4 : ((updMac s2 h.entry (fun x => { x with ip6gua := h.ip })).macs.map (·.id)).Nodup := by
            rw [updMac_ids]
            · exact hn2
            · intro _; rfl
          exact setLla_eq hn4 hm4 _ _
        · have hS := setGua_eq hn2 hm2 h.ip.isGlobalUnicast h.ip
          simp only [hA, if_false, Bool.false_eq_true] at hS ⊢
          rw [← hS]
          exact setLla_eq hn2 hm2 _ _

theorem checkOnlineTransition_tie {s : Sess} (hi : Inv s) (hid : Nat) :
    Session_checkOnlineTransition s hid =
      (match hostById s hid with
       | none => (s, false)
       | some h => if h.online then (s, false) else (onlineTransition s hid, true)) := by
  unfold Session_checkOnlineTransition
  cases e : hostById s hid with
  | none => rfl
  | some h => simp only [H_of_some e, onlineTransition_tie hi]

end PV.Lemmas.TablesTieB
