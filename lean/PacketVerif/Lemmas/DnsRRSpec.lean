/-
  Question / resource-record decoding of the model against the reference (`Spec.questionAt?`,
  `Spec.rrAt?`).
-/
import PacketVerif.Lemmas.DnsSpec
import PacketVerif.Lemmas.DnsRR
namespace PV.Lemmas.Dns
open PV PV.Model PV.Spec

theorem rd16_of_u16At {m : Bytes} {i v : Nat} (h : u16At m i = some v) : rd16 m i = .ok v ∧ i + 2 ≤ m.length := by
  unfold u16At at h
  split at h
  next a b ha hb =>
    have h1 := getElem?_lt ha
    have h2 := getElem?_lt hb
    injection h with h
    unfold rd16
    rw [slice2 (by omega)]
    simp only [getElem_of ha, getElem_of hb]
    exact ⟨by rw [h], by omega⟩
  · simp at h

theorem rd32_of_u32At {m : Bytes} {i v : Nat} (h : u32At m i = some v) : rd32 m i = .ok v ∧ i + 4 ≤ m.length := by
  unfold u32At at h
  split at h
  next a b c d ha hb hc hd =>
    have h1 := getElem?_lt ha
    have h2 := getElem?_lt hb
    have h3 := getElem?_lt hc
    have h4 := getElem?_lt hd
    injection h with h
    unfold rd32
    rw [slice4 (by omega)]
    simp only [getElem_of ha, getElem_of hb, getElem_of hc, getElem_of hd]
    exact ⟨by rw [h], by omega⟩
  · simp at h

theorem nameAt_end_gt {m : Bytes} {s p : Nat} {ls : List Bytes} {e d : Nat} (h : NameAt m s p ls e d) : p < e := by
  induction h with
  | root _ => omega
  | label _ _ _ _ _ ih => omega
  | ptr _ _ _ _ _ _ => omega

/-- the executable reference name → the model's decoder returns the same (pointer depth ≤ 254) -/
theorem decodeName_of_spec {m : Bytes} {off : Nat} {t : Bytes} {e d : Nat}
    (h : decodeName? m off = some (t, e, d)) (hd : d ≤ 254) :
    decodeName m off 1 = .ok (t, e) ∧ off < e ∧ off < m.length := by
  unfold decodeName? at h
  split at h
  next ls e' d' hn =>
    split at h
    next hw =>
      injection h with h
      injection h with h1 h2
      injection h2 with h2 h3
      subst h1; subst h2; subst h3
      have hna := nameAt?_sound _ _ _ _ _ _ hn
      have hlt : off < m.length := by
        cases hna with
        | root h => exact getElem?_lt h
        | label h _ _ _ _ => exact getElem?_lt h
        | ptr h _ _ _ _ => exact getElem?_lt h
      refine ⟨?_, nameAt_end_gt hna, hlt⟩
      -- decodeName_eq_spec, inlined (Props may not be imported here)
      have hdl := dotted_length ls
      unfold decodeName
      have c1 : ¬ (1 > maxRecursionLevel) := by decide
      have c2 : ¬ ((off : Int) ≥ (m.length : Int)) := by omega
      have c3 : ¬ ((off : Int) < 0) := by omega
      simp only [c1, c2, c3, if_false]
      have : decodeSeg nameFuel m (off : Int).toNat 1 = .ok (dotted ls, e') := by
        simpa [nameFuel] using decodeSeg_complete hna 256 1 (by omega) (by omega) (by omega)
      rw [this]
      simp [nameOf_dotted]
    · simp at h
  · simp at h

/-- what `rrAt?` = some means, field by field -/
theorem rrAt_facts {m : Bytes} {off : Nat} {r : RR} {o : Nat} (h : rrAt? m off = some (r, o)) :
    ∃ e d rdl, decodeName? m off = some (r.name, e, d) ∧ u16At m e = some r.rtype ∧ u32At m (e + 4) = some r.ttl ∧
      u16At m (e + 8) = some rdl ∧ e + 10 + rdl ≤ m.length ∧ r.rdata = (m.drop (e + 10)).take rdl ∧
      r.rdataOff = e + 10 ∧ o = e + 10 + rdl := by
  unfold rrAt? at h
  cases hn : decodeName? m off with
  | none => rw [hn] at h; simp [bind, Option.bind] at h
  | some v =>
    obtain ⟨t, e, d⟩ := v
    rw [hn] at h
    simp only [bind, Option.bind, pure] at h
    cases ht : u16At m e with
    | none => rw [ht] at h; simp at h
    | some ty =>
      cases hc : u16At m (e + 2) with
      | none => rw [ht, hc] at h; simp at h
      | some cl =>
        cases httl : u32At m (e + 4) with
        | none => rw [ht, hc, httl] at h; simp at h
        | some ttl =>
          cases hl : u16At m (e + 8) with
          | none => rw [ht, hc, httl, hl] at h; simp at h
          | some rdl =>
            rw [ht, hc, httl, hl] at h
            simp only [] at h
            split at h
            next hle =>
              simp at h
              obtain ⟨rfl, rfl⟩ := h
              exact ⟨e, d, rdl, rfl, ht, httl, hl, hle, by simp [List.drop_take], rfl, rfl⟩
            · simp at h


/-- when both the model and the executable reference decode a name at `off`, they agree -/
theorem decodeName_agree {m : Bytes} {off : Nat} {n t : Bytes} {e e' d' : Nat}
    (h1 : decodeName m off 1 = .ok (n, e)) (h2 : decodeName? m off = some (t, e', d')) : n = t ∧ e = e' := by
  obtain ⟨_, ls, d, hn, hnt, _, _⟩ := decodeName_accepts m off n e h1
  simp at hn
  have hc := nameAt?_complete hn
  unfold decodeName? at h2
  rw [hc] at h2
  simp only [] at h2
  split at h2
  · injection h2 with h2
    injection h2 with a b
    injection b with b c
    exact ⟨by rw [hnt, a], b⟩
  · simp at h2

/-- a successful `decodeRR` on a record the reference also decodes: same end offset, and the only
    possible change of the address maps is the reference record appended -/
theorem decodeRR_sound (ip6 : Bytes → PtrIP) (ent ent' : DNSEntry) (m : Bytes) (off : Nat) (r : RR) (o off' : Nat) (u : Bool)
    (hs : rrAt? m off = some (r, o)) (hm : decodeRR ip6 ent m off = .ok (ent', off', u)) :
    off' = o ∧ ent'.name = ent.name ∧
    (ent'.ip4 = ent.ip4 ∨ (r.rtype = 1 ∧ ent'.ip4 = ent.ip4 ++ [{ name := r.name, ip := r.rdata, ttl := r.ttl }])) ∧
    (ent'.ip6 = ent.ip6 ∨ (r.rtype = 28 ∧ ent'.ip6 = ent.ip6 ++ [{ name := r.name, ip := r.rdata, ttl := r.ttl }])) := by
  obtain ⟨e, d, rdl, hn, h1, h2, h3, h4, h5, _, rfl⟩ := rrAt_facts hs
  obtain ⟨r1, _⟩ := rd16_of_u16At h1
  obtain ⟨r2, _⟩ := rd32_of_u32At h2
  obtain ⟨r3, _⟩ := rd16_of_u16At h3
  unfold decodeRR at hm
  rcases decodeName_cases m off with ⟨n, endq, hdn⟩ | ⟨er, hdn⟩
  · obtain ⟨rfl, rfl⟩ := decodeName_agree hdn hn
    rw [hdn] at hm
    simp only [] at hm
    rw [if_neg (by omega), r1, r2, r3] at hm
    simp only [] at hm
    rw [if_neg (by omega)] at hm
    split at hm
    next ht1 =>
      split at hm
      · simp at hm
      next hl4 =>
        have hrdl : rdl = 4 := by simpa using hl4
        subst hrdl
        rw [slice_ok (by omega) (by omega), slice_eq_drop_take] at hm
        have e4 : endq + 10 + 4 - (endq + 10) = 4 := by omega
        simp only [e4, ← h5] at hm
        split at hm
        · injection hm with hm; injection hm with a b; injection b with b c
          subst a; exact ⟨b.symm, rfl, Or.inl rfl, Or.inl rfl⟩
        · injection hm with hm; injection hm with a b; injection b with b c
          subst a; exact ⟨b.symm, rfl, Or.inr ⟨ht1, rfl⟩, Or.inl rfl⟩
    split at hm
    next _ ht28 =>
      split at hm
      · simp at hm
      next hl16 =>
        have hrdl : rdl = 16 := by simpa using hl16
        subst hrdl
        rw [slice_ok (by omega) (by omega), slice_eq_drop_take] at hm
        have e16 : endq + 10 + 16 - (endq + 10) = 16 := by omega
        simp only [e16, ← h5] at hm
        split at hm
        · injection hm with hm; injection hm with a b; injection b with b c
          subst a; exact ⟨b.symm, rfl, Or.inl rfl, Or.inl rfl⟩
        · injection hm with hm; injection hm with a b; injection b with b c
          subst a; exact ⟨b.symm, rfl, Or.inl rfl, Or.inr ⟨ht28, rfl⟩⟩
    split at hm
    · -- CNAME
      split at hm
      next cn ce hc =>
        split at hm
        · injection hm with hm; injection hm with a b; injection b with b c
          subst a; exact ⟨b.symm, rfl, Or.inl rfl, Or.inl rfl⟩
        · injection hm with hm; injection hm with a b; injection b with b c
          subst a; exact ⟨b.symm, rfl, Or.inl rfl, Or.inl rfl⟩
      all_goals simp at hm
    split at hm
    · injection hm with hm; injection hm with a b; injection b with b c
      subst a; exact ⟨b.symm, rfl, Or.inl rfl, Or.inl rfl⟩
    split at hm
    · -- PTR
      split at hm
      · injection hm with hm; injection hm with a b; injection b with b c
        subst a; exact ⟨b.symm, rfl, Or.inl rfl, Or.inl rfl⟩
      · injection hm with hm; injection hm with a b; injection b with b c
        subst a; exact ⟨b.symm, rfl, Or.inl rfl, Or.inl rfl⟩
      · split at hm
        next pn pe hp =>
          split at hm
          · injection hm with hm; injection hm with a b; injection b with b c
            subst a; exact ⟨b.symm, rfl, Or.inl rfl, Or.inl rfl⟩
          · injection hm with hm; injection hm with a b; injection b with b c
            subst a; exact ⟨b.symm, rfl, Or.inl rfl, Or.inl rfl⟩
        all_goals simp at hm
    · injection hm with hm; injection hm with a b; injection b with b c
      subst a; exact ⟨b.symm, rfl, Or.inl rfl, Or.inl rfl⟩
  · rw [hdn] at hm; simp at hm

/-- a stored address record is the reference record `s` of type `t` -/
def FromRR (t : Nat) (x : IPRec) (s : RR) : Prop := s.rtype = t ∧ s.name = x.name ∧ s.rdata = x.ip ∧ s.ttl = x.ttl

theorem decodeRRs_sound (ip6 : Bytes → PtrIP) (m : Bytes) : ∀ (n : Nat) (ent ent' : DNSEntry) (off : Nat) (rrs : List RR) (o : Nat)
    (off' : Int) (u u' : Bool),
    rrsAt? m n off = some (rrs, o) → decodeRRs ip6 n ent m off u = (ent', .ok (off', u')) →
    off' = o ∧ ent'.name = ent.name ∧
    (∀ x ∈ ent'.ip4, x ∈ ent.ip4 ∨ ∃ s ∈ rrs, FromRR 1 x s) ∧
    (∀ x ∈ ent'.ip6, x ∈ ent.ip6 ∨ ∃ s ∈ rrs, FromRR 28 x s) := by
  intro n
  induction n with
  | zero =>
    intro ent ent' off rrs o off' u u' hs hm
    simp [rrsAt?] at hs
    simp [decodeRRs] at hm
    obtain ⟨rfl, rfl⟩ := hs
    obtain ⟨rfl, rfl, rfl⟩ := hm
    exact ⟨rfl, rfl, fun x hx => Or.inl hx, fun x hx => Or.inl hx⟩
  | succ k ih =>
    intro ent ent' off rrs o off' u u' hs hm
    rw [rrsAt?] at hs
    cases hr : rrAt? m off with
    | none => rw [hr] at hs; simp [bind, Option.bind] at hs
    | some v =>
      obtain ⟨r, o1⟩ := v
      rw [hr] at hs
      simp only [bind, Option.bind] at hs
      cases hrest : rrsAt? m k o1 with
      | none => rw [hrest] at hs; simp at hs
      | some w =>
        obtain ⟨rs, o2⟩ := w
        rw [hrest] at hs
        simp [pure] at hs
        obtain ⟨rfl, rfl⟩ := hs
        rw [decodeRRs] at hm
        cases hd : decodeRR ip6 ent m off with
        | ok v =>
          obtain ⟨e1, off1, u1⟩ := v
          rw [hd] at hm
          simp only [] at hm
          obtain ⟨a1, a2, a3, a4⟩ := decodeRR_sound ip6 ent e1 m off r o1 off1 u1 hr hd
          subst a1
          obtain ⟨b1, b2, b3, b4⟩ := ih e1 ent' off1 rs _ off' _ u' hrest hm
          refine ⟨b1, by rw [b2, a2], ?_, ?_⟩
          · intro x hx
            rcases b3 x hx with h | ⟨s, hs, hf⟩
            · rcases a3 with h3 | ⟨ht, h3⟩
              · rw [h3] at h; exact Or.inl h
              · rw [h3] at h
                rcases List.mem_append.mp h with h | h
                · exact Or.inl h
                · right
                  refine ⟨r, List.mem_cons_self .., ?_⟩
                  simp at h; subst h
                  exact ⟨ht, rfl, rfl, rfl⟩
            · exact Or.inr ⟨s, List.mem_cons_of_mem _ hs, hf⟩
          · intro x hx
            rcases b4 x hx with h | ⟨s, hs, hf⟩
            · rcases a4 with h3 | ⟨ht, h3⟩
              · rw [h3] at h; exact Or.inl h
              · rw [h3] at h
                rcases List.mem_append.mp h with h | h
                · exact Or.inl h
                · right
                  refine ⟨r, List.mem_cons_self .., ?_⟩
                  simp at h; subst h
                  exact ⟨ht, rfl, rfl, rfl⟩
            · exact Or.inr ⟨s, List.mem_cons_of_mem _ hs, hf⟩
        | err er => rw [hd] at hm; simp at hm
        | panic => rw [hd] at hm; simp at hm
        | hang => rw [hd] at hm; simp at hm

theorem decodeQuestion_agree {m : Bytes} {q' : Model.Question} {idx : Nat} {q : Spec.Question} {qe : Nat}
    (h1 : decodeQuestion m 12 = .ok (q', idx)) (h2 : questionAt? m 12 = some (q, qe)) :
    q'.name = q.name ∧ idx = qe := by
  unfold questionAt? at h2
  cases hn : decodeName? m 12 with
  | none => rw [hn] at h2; simp [bind, Option.bind] at h2
  | some v =>
    obtain ⟨t, e0, d⟩ := v
    rw [hn] at h2
    simp only [bind, Option.bind, pure] at h2
    cases ht : u16At m e0 with
    | none => rw [ht] at h2; simp at h2
    | some ty =>
      cases hc : u16At m (e0 + 2) with
      | none => rw [ht, hc] at h2; simp at h2
      | some cl =>
        rw [ht, hc] at h2
        simp at h2
        obtain ⟨rfl, rfl⟩ := h2
        unfold decodeQuestion at h1
        split at h1
        · simp at h1
        split at h1
        next qd hqd =>
          split at h1
          · simp at h1
          split at h1
          · simp at h1
          rcases decodeName_cases m (12 : Int) with ⟨n, endq, hdn⟩ | ⟨er, hdn⟩
          · have := decodeName_agree (off := 12) (by simpa using hdn) hn
            obtain ⟨rfl, rfl⟩ := this
            rw [hdn] at h1
            simp only [] at h1
            split at h1
            · simp at h1
            · obtain ⟨r2, _⟩ := rd16_of_u16At ht
              obtain ⟨r3, _⟩ := rd16_of_u16At hc
              rw [r2, r3] at h1
              injection h1 with h1
              injection h1 with a b
              subst a
              exact ⟨rfl, b.symm⟩
          · rw [hdn] at h1; simp at h1
        all_goals simp at h1


end PV.Lemmas.Dns
