/-
  Termination of the record loops of ProcessMDNS / ProcessNBNS over the model of
  `dnsmessage.Parser`: a measure on (parser state, section variable) that every loop iteration
  strictly decreases.
-/
import PacketVerif.Lemmas.Naming
import PacketVerif.Model.DnsMsg
namespace PV.Lemmas.DnsMsg
open PV PV.Model PV.Model.DnsMsg PV.Lemmas.Dns PV.Lemmas.Naming

/-- the record index never exceeds the count of the current section -/
def Inv (p : Parser) : Prop := p.index ≤ p.count p.sect

/-- header counts are never modified -/
def Same (p q : Parser) : Prop := q.qd = p.qd ∧ q.an = p.an ∧ q.ns = p.ns ∧ q.ar = p.ar

theorem Same.refl (p : Parser) : Same p p := ⟨rfl, rfl, rfl, rfl⟩
theorem Same.trans {p q r : Parser} (h1 : Same p q) (h2 : Same q r) : Same p r := by
  unfold Same at *; omega

theorem count_same {p q : Parser} (h : Same p q) (sec : Nat) : q.count sec = p.count sec := by
  unfold Same at h; unfold Parser.count; simp [h.1, h.2.1, h.2.2.1, h.2.2.2]

/-- records of the sections strictly after `sec` -/
def after (p : Parser) (sec : Nat) : Nat :=
  (if sec < 3 then p.an else 0) + (if sec < 4 then p.ns else 0) + (if sec < 5 then p.ar else 0)

/-- loop measure: section changes still possible + records left in the current section + records of later sections -/
def mu (p : Parser) (sec : Nat) : Nat :=
  (6 - sec) + (if p.sect = sec then p.count sec - p.index else p.count sec) + after p sec

theorem after_same {p q : Parser} (h : Same p q) (sec : Nat) : after q sec = after p sec := by
  unfold Same at h; unfold after; simp [h.2.1, h.2.2.1, h.2.2.2]

theorem after_succ (p : Parser) (sec : Nat) (h2 : 2 ≤ sec) (h5 : sec ≤ 4) : after p sec = p.count (sec + 1) + after p (sec + 1) := by
  unfold after Parser.count
  have : sec = 2 ∨ sec = 3 ∨ sec = 4 := by omega
  rcases this with rfl | rfl | rfl <;> simp <;> omega

theorem mu_le (p : Parser) (sec : Nat) : mu p sec ≤ (6 - sec) + p.count sec + after p sec := by
  unfold mu; split <;> omega

/-- a section change strictly decreases the measure, whatever the parser did meanwhile (as long
    as the counts are the same) -/
theorem mu_next_section (p p1 : Parser) (sec : Nat) (hs : Same p p1) (h2 : 2 ≤ sec) (h5 : sec ≤ 4) :
    mu p1 (sec + 1) + 1 ≤ (6 - sec) + after p sec := by
  have := mu_le p1 (sec + 1)
  rw [count_same hs, after_same hs] at this
  rw [after_succ p sec h2 h5]
  omega

/-! ### parser operations -/

theorem checkAdvance_facts (p : Parser) (sec : Nat) (hi : Inv p) :
    Inv (checkAdvance p sec).1 ∧ Same p (checkAdvance p sec).1 ∧
      ((checkAdvance p sec).2 = none →
        (checkAdvance p sec).1.sect = sec ∧ (checkAdvance p sec).1.index < (checkAdvance p sec).1.count sec ∧
        mu (checkAdvance p sec).1 sec = mu p sec ∧ (checkAdvance p sec).1.resHeaderValid = false) := by
  unfold Inv at hi
  simp only [checkAdvance]
  split
  · exact ⟨hi, Same.refl p, by simp⟩
  split
  · exact ⟨hi, Same.refl p, by simp⟩
  next h1 h2 =>
    have hs : p.sect = sec := by omega
    split
    next heq =>
      refine ⟨?_, ⟨rfl, rfl, rfl, rfl⟩, by simp⟩
      simp [Inv]
    next hne =>
      refine ⟨?_, ⟨rfl, rfl, rfl, rfl⟩, ?_⟩
      · simpa [Inv, Parser.count] using hi
      · intro _
        simp only [Parser.count] at hne hi ⊢
        refine ⟨hs, ?_, ?_, trivial⟩
        · rw [hs] at hi; omega
        · simp [mu, after, Parser.count]

theorem resourceHeader_facts (p : Parser) (sec : Nat) (hi : Inv p) :
    Inv (resourceHeader p sec).1 ∧ Same p (resourceHeader p sec).1 ∧
      (∀ hdr, (resourceHeader p sec).2 = .ok hdr →
        (resourceHeader p sec).1.sect = sec ∧ (resourceHeader p sec).1.index < (resourceHeader p sec).1.count sec ∧
        mu (resourceHeader p sec).1 sec = mu p sec ∧ (resourceHeader p sec).1.resHeaderValid = true) := by
  unfold resourceHeader
  -- the optional rewind of `off` touches neither index, section nor counts
  have hi0 : Inv (if p.resHeaderValid then { p with off := p.resHeaderOffset } else p) := by
    split <;> simpa [Inv, Parser.count] using hi
  have hs0 : Same p (if p.resHeaderValid then { p with off := p.resHeaderOffset } else p) := by
    split <;> exact ⟨rfl, rfl, rfl, rfl⟩
  have hm0 : mu (if p.resHeaderValid then { p with off := p.resHeaderOffset } else p) sec = mu p sec := by
    split <;> simp [mu, after, Parser.count]
  generalize (if p.resHeaderValid then { p with off := p.resHeaderOffset } else p) = p0 at hi0 hs0 hm0
  simp only []
  have hc := checkAdvance_facts p0 sec hi0
  cases hca : checkAdvance p0 sec with
  | mk p1 r =>
    rw [hca] at hc
    simp only [] at hc
    cases r with
    | some e => exact ⟨hc.1, hs0.trans hc.2.1, by simp⟩
    | none =>
      obtain ⟨h1, h2, h3⟩ := hc
      obtain ⟨h3a, h3b, h3c, _⟩ := h3 rfl
      simp only []
      cases hu : unpackRHeader p1.msg p1.off with
      | error e => exact ⟨h1, hs0.trans h2, by simp⟩
      | ok v =>
        obtain ⟨hdr, off⟩ := v
        simp only []
        refine ⟨?_, ?_, ?_⟩
        · simpa [Inv, Parser.count] using h1
        · exact hs0.trans ⟨h2.1, h2.2.1, h2.2.2.1, h2.2.2.2⟩
        · intro hdr' _
          refine ⟨h3a, ?_, ?_, trivial⟩
          · simpa [Parser.count] using h3b
          · rw [← hm0, ← h3c]; simp [mu, after, Parser.count]

/-- a successful typed `…Resource()` call on a pending header consumes one record -/
theorem typedResource_facts {α : Type} (p : Parser) (sec : Nat) (ok : Nat → Bool) (unpack : Bytes → Nat → Nat → R α)
    (hi : Inv p) (hs : p.sect = sec) (hlt : p.index < p.count sec) :
    ∀ a, (typedResource p ok unpack).2 = .ok a →
      Inv (typedResource p ok unpack).1 ∧ Same p (typedResource p ok unpack).1 ∧
      (typedResource p ok unpack).1.sect = sec ∧ mu (typedResource p ok unpack).1 sec < mu p sec := by
  intro a
  unfold typedResource
  split
  · simp
  · cases hu : unpack p.msg p.off p.resHeaderLength with
    | error e => simp
    | ok r =>
      simp only []
      intro _
      refine ⟨?_, ⟨rfl, rfl, rfl, rfl⟩, hs, ?_⟩
      · simp only [Inv, Parser.count] at hi ⊢
        simp only [Parser.count] at hlt
        rw [hs]; omega
      · simp only [mu, after, Parser.count, hs, if_true] at hlt ⊢
        omega

/-- a successful skip of the pending header consumes one record -/
theorem skipResource_facts (p : Parser) (sec : Nat) (hi : Inv p) (hs : p.sect = sec) (hlt : p.index < p.count sec)
    (hv : p.resHeaderValid = true) :
    (skipResource p sec).2 = none →
      Inv (skipResource p sec).1 ∧ Same p (skipResource p sec).1 ∧
      (skipResource p sec).1.sect = sec ∧ mu (skipResource p sec).1 sec < mu p sec := by
  unfold skipResource
  rw [if_pos ⟨hv, hs⟩]
  simp only []
  split
  · simp
  · intro _
    refine ⟨?_, ⟨rfl, rfl, rfl, rfl⟩, hs, ?_⟩
    · simp only [Inv, Parser.count] at hi ⊢
      simp only [Parser.count] at hlt
      rw [hs]; omega
    · simp only [mu, after, Parser.count, hs, if_true] at hlt ⊢
      omega

/-! ### the mDNS record loop -/

theorem skipOr_next (s s' : MdnsState) (p1 : Parser) (h : skipOr s p1 = .next s')
    (hi : Inv p1) (hs : p1.sect = s.sec) (hlt : p1.index < p1.count s.sec) (hv : p1.resHeaderValid = true) :
    Inv s'.p ∧ Same p1 s'.p ∧ s'.sec = s.sec ∧ mu s'.p s'.sec < mu p1 s.sec := by
  unfold skipOr at h
  have hf := skipResource_facts p1 s.sec hi hs hlt hv
  cases hsk : skipResource p1 s.sec with
  | mk p2 r =>
    rw [hsk] at h hf
    cases r with
    | some e => simp at h
    | none =>
      simp only [] at h hf
      injection h with h
      subst h
      obtain ⟨a, b, c, d⟩ := hf trivial
      exact ⟨a, b, rfl, d⟩

theorem parseOrSkip_next {α : Type} (s s' : MdnsState) (p1 : Parser) (t : Nat) (unpack : Bytes → Nat → Nat → R α)
    (k : α → MdnsState → MdnsState) (hk : ∀ a st, (k a st).p = st.p ∧ (k a st).sec = st.sec)
    (h : parseOrSkip s p1 t unpack k = .next s')
    (hi : Inv p1) (hs : p1.sect = s.sec) (hlt : p1.index < p1.count s.sec) (hv : p1.resHeaderValid = true) :
    Inv s'.p ∧ Same p1 s'.p ∧ s'.sec = s.sec ∧ mu s'.p s'.sec < mu p1 s.sec := by
  unfold parseOrSkip at h
  have hf := typedResource_facts p1 s.sec (· == t) unpack hi hs hlt
  cases ht : typedResource p1 (· == t) unpack with
  | mk p2 r =>
    rw [ht] at h hf
    cases r with
    | error e => simp only [] at h; exact skipOr_next s s' p1 h hi hs hlt hv
    | ok a =>
      simp only [] at h hf
      injection h with h
      subst h
      obtain ⟨a1, b1, c1, d1⟩ := hf a rfl
      obtain ⟨k1, k2⟩ := hk a { s with p := p2 }
      rw [k1, k2]
      exact ⟨a1, b1, rfl, d1⟩

theorem mdnsStep_next (s s' : MdnsState) (h : mdnsStep s = .next s') (hi : Inv s.p) (h3 : 3 ≤ s.sec) (h5 : s.sec ≤ 5) :
    Inv s'.p ∧ Same s.p s'.p ∧ 3 ≤ s'.sec ∧ s'.sec ≤ 5 ∧ mu s'.p s'.sec < mu s.p s.sec := by
  unfold mdnsStep at h
  have hf := resourceHeader_facts s.p s.sec hi
  cases hrh : resourceHeader s.p s.sec with
  | mk p1 r =>
    rw [hrh] at h hf
    simp only [] at hf
    obtain ⟨hi1, hs1, hok⟩ := hf
    cases r with
    | error e =>
      cases e with
      | sectionDone =>
        simp only [] at h
        split at h
        · simp at h
        next hlt =>
          unfold secAdditionals at hlt
          injection h with h
          subst h
          simp only []
          refine ⟨hi1, hs1, by omega, by omega, ?_⟩
          have := mu_next_section s.p p1 s.sec hs1 (by omega) (by omega)
          have hle : (6 - s.sec) + after s.p s.sec ≤ mu s.p s.sec := by unfold mu; split <;> omega
          omega
      | notStarted => simp at h
      | other => simp at h
    | ok hdr =>
      obtain ⟨e1, e2, e3, e4⟩ := hok hdr rfl
      simp only [] at h
      have wrap : ∀ s'' : MdnsState, Inv s''.p ∧ Same p1 s''.p ∧ s''.sec = s.sec ∧ mu s''.p s''.sec < mu p1 s.sec →
          Inv s''.p ∧ Same s.p s''.p ∧ 3 ≤ s''.sec ∧ s''.sec ≤ 5 ∧ mu s''.p s''.sec < mu s.p s.sec := by
        intro s'' ⟨a, b, c, d⟩
        exact ⟨a, hs1.trans b, by omega, by omega, by omega⟩
      have typed : ∀ (t : Nat) (unpack : Bytes → Nat → Nat → R Bytes) (f : Bytes → MdnsState → MdnsState)
          (hk : ∀ a st, (f a st).p = st.p ∧ (f a st).sec = st.sec),
          (match typedResource p1 (· == t) unpack with
            | (p2, .ok a) => MdnsStep.next (f a { s with p := p2 })
            | (_, .error _) => MdnsStep.done { ipv4 := s.v4, ipv6 := s.v6, err := true }) = .next s' →
          Inv s'.p ∧ Same p1 s'.p ∧ s'.sec = s.sec ∧ mu s'.p s'.sec < mu p1 s.sec := by
        intro t unpack f hk hh
        have hf := typedResource_facts p1 s.sec (· == t) unpack hi1 e1 e2
        cases ht : typedResource p1 (· == t) unpack with
        | mk p2 r =>
          rw [ht] at hh hf
          cases r with
          | error e => simp at hh
          | ok a =>
            simp only [] at hh hf
            injection hh with hh
            subst hh
            obtain ⟨a1, b1, c1, d1⟩ := hf a rfl
            obtain ⟨k1, k2⟩ := hk a { s with p := p2 }
            rw [k1, k2]
            exact ⟨a1, b1, rfl, d1⟩
      split at h
      · exact wrap _ (typed 1 unpackA (fun a st => { st with v4 := st.v4 ++ [{ name := trimSuffix hdr.name sLocal, ip := a, model := [], manufacturer := [] }] })
          (fun _ _ => ⟨rfl, rfl⟩) h)
      split at h
      · exact wrap _ (typed 28 unpackAAAA (fun a st => { st with v6 := st.v6 ++ [{ name := trimSuffix hdr.name sLocal, ip := a, model := [], manufacturer := [] }] })
          (fun _ _ => ⟨rfl, rfl⟩) h)
      split at h
      · exact wrap _ (parseOrSkip_next s s' p1 12 unpackPTR _ (fun _ _ => ⟨rfl, rfl⟩) h hi1 e1 e2 e4)
      split at h
      · exact wrap _ (parseOrSkip_next s s' p1 33 unpackSRV _ (fun _ _ => ⟨rfl, rfl⟩) h hi1 e1 e2 e4)
      split at h
      · exact wrap _ (parseOrSkip_next s s' p1 16 unpackTXT (fun txt st => let m := parseTXT txt; { st with model := if m ≠ [] then m else st.model }) (fun _ _ => ⟨rfl, rfl⟩) h hi1 e1 e2 e4)
      split at h
      · exact wrap _ (parseOrSkip_next s s' p1 41 unpackOPT _ (fun _ _ => ⟨rfl, rfl⟩) h hi1 e1 e2 e4)
      · exact wrap _ (skipOr_next s s' p1 h hi1 e1 e2 e4)

theorem mdnsLoop_terminates : ∀ (fuel : Nat) (s : MdnsState), Inv s.p → 3 ≤ s.sec → s.sec ≤ 5 → mu s.p s.sec < fuel →
    ∃ o, mdnsLoop fuel s = .ok o := by
  intro fuel
  induction fuel with
  | zero => intro s _ _ _ h; omega
  | succ n ih =>
    intro s hi h3 h5 hm
    rw [mdnsLoop]
    cases hst : mdnsStep s with
    | done o => exact ⟨o, rfl⟩
    | next s' =>
      obtain ⟨a, _, c, d, e⟩ := mdnsStep_next s s' hst hi h3 h5
      exact ih s' a c d (by omega)

/-! ### the question loops -/

theorem skipQuestion_facts (p : Parser) (hi : Inv p) :
    Inv (skipQuestion p).1 ∧ Same p (skipQuestion p).1 ∧
      ((skipQuestion p).2 = none → (skipQuestion p).1.sect = 2 ∧ mu (skipQuestion p).1 2 < mu p 2) := by
  unfold skipQuestion
  have hc := checkAdvance_facts p secQuestions hi
  cases hca : checkAdvance p secQuestions with
  | mk p1 r =>
    rw [hca] at hc
    simp only [] at hc
    obtain ⟨h1, h2, h3⟩ := hc
    cases r with
    | some e => exact ⟨h1, h2, by simp⟩
    | none =>
      obtain ⟨a, b, c, _⟩ := h3 rfl
      unfold secQuestions at a b c
      simp only []
      split
      · exact ⟨h1, h2, by simp⟩
      · refine ⟨?_, ⟨h2.1, h2.2.1, h2.2.2.1, h2.2.2.2⟩, ?_⟩
        · simp only [Inv, Parser.count] at h1 ⊢
          simp only [Parser.count] at b
          rw [a] at h1 ⊢; simp at h1 b ⊢; omega
        · intro _
          refine ⟨a, ?_⟩
          rw [← c]
          simp only [mu, after, Parser.count, a, if_true] at b ⊢
          simp at b ⊢; omega

theorem question_facts (p : Parser) (hi : Inv p) :
    Inv (question p).1 ∧ Same p (question p).1 ∧
      (∀ q, (question p).2 = .ok q → (question p).1.sect = 2 ∧ mu (question p).1 2 < mu p 2) := by
  unfold question
  have hc := checkAdvance_facts p secQuestions hi
  cases hca : checkAdvance p secQuestions with
  | mk p1 r =>
    rw [hca] at hc
    simp only [] at hc
    obtain ⟨h1, h2, h3⟩ := hc
    cases r with
    | some e => exact ⟨h1, h2, by simp⟩
    | none =>
      obtain ⟨a, b, c, _⟩ := h3 rfl
      unfold secQuestions at a b c
      simp only []
      split
      · exact ⟨h1, h2, by simp⟩
      · refine ⟨?_, ⟨h2.1, h2.2.1, h2.2.2.1, h2.2.2.2⟩, ?_⟩
        · simp only [Inv, Parser.count] at h1 ⊢
          simp only [Parser.count] at b
          rw [a] at h1 ⊢; simp at h1 b ⊢; omega
        · intro _ _
          refine ⟨a, ?_⟩
          rw [← c]
          simp only [mu, after, Parser.count, a, if_true] at b ⊢
          simp at b ⊢; omega

theorem skipAllQuestions_terminates : ∀ (fuel : Nat) (p : Parser), Inv p → mu p 2 < fuel →
    ∃ p1 r, skipAllQuestions fuel p = .ok (p1, r) ∧ Inv p1 ∧ Same p p1 := by
  intro fuel
  induction fuel with
  | zero => intro p _ h; omega
  | succ n ih =>
    intro p hi hm
    rw [skipAllQuestions]
    obtain ⟨a, b, c⟩ := skipQuestion_facts p hi
    cases hs : skipQuestion p with
    | mk p1 r =>
      rw [hs] at a b c
      simp only [] at a b c
      cases r with
      | some e =>
        cases e with
        | sectionDone => exact ⟨p1, none, rfl, a, b⟩
        | notStarted => exact ⟨p1, _, rfl, a, b⟩
        | other => exact ⟨p1, _, rfl, a, b⟩
      | none =>
        simp only []
        obtain ⟨_, d⟩ := c rfl
        obtain ⟨p2, r2, h1, h2, h3⟩ := ih p1 a (by omega)
        exact ⟨p2, r2, h1, h2, b.trans h3⟩

theorem allQuestions_terminates : ∀ (fuel : Nat) (p : Parser) (qs : List Bytes), Inv p → mu p 2 < fuel →
    ∃ v, allQuestions fuel p qs = .ok v := by
  intro fuel
  induction fuel with
  | zero => intro p _ _ h; omega
  | succ n ih =>
    intro p qs hi hm
    rw [allQuestions]
    obtain ⟨a, b, c⟩ := question_facts p hi
    cases hs : question p with
    | mk p1 r =>
      rw [hs] at a b c
      simp only [] at a b c
      cases r with
      | error e =>
        cases e with
        | sectionDone => exact ⟨_, rfl⟩
        | notStarted => exact ⟨_, rfl⟩
        | other => exact ⟨_, rfl⟩
      | ok q =>
        simp only []
        obtain ⟨_, d⟩ := c q rfl
        exact ih p1 _ a (by omega)

/-! ### whole handlers -/

theorem start_facts (msg : Bytes) (p : Parser) (hdr : MsgHeader) (h : start msg = .ok (p, hdr)) :
    p.sect = 2 ∧ p.index = 0 := by
  unfold start at h
  simp only [bind, Except.bind, pure, Except.pure] at h
  split at h
  · simp at h
  split at h
  · simp at h
  split at h
  · simp at h
  split at h
  · simp at h
  split at h
  · simp at h
  split at h
  · simp at h
  injection h with h
  injection h with h1 h2
  subst h1
  exact ⟨rfl, rfl⟩

theorem inv_of_start {msg : Bytes} {p : Parser} {hdr : MsgHeader} (h : start msg = .ok (p, hdr)) : Inv p := by
  obtain ⟨_, b⟩ := start_facts msg p hdr h
  unfold Inv; omega

theorem mu2_le (p : Parser) : mu p 2 ≤ 4 + p.qd + p.an + p.ns + p.ar := by
  have := mu_le p 2
  simp [after, Parser.count] at this
  omega

theorem mu3_le (p : Parser) : mu p 3 ≤ 3 + p.an + p.ns + p.ar := by
  have := mu_le p 3
  simp [after, Parser.count] at this
  omega

theorem processMDNS_terminates (payload : Bytes) (fuel : Nat) (h : mdnsBound payload ≤ fuel) :
    ∃ o, processMDNS fuel payload = .ok o := by
  unfold processMDNS
  unfold mdnsBound at h
  cases hs : start payload with
  | error e => exact ⟨_, rfl⟩
  | ok v =>
    obtain ⟨p, hdr⟩ := v
    rw [hs] at h
    simp only [] at h ⊢
    have hi := inv_of_start hs
    have hm2 := mu2_le p
    split
    · obtain ⟨v, hv⟩ := allQuestions_terminates fuel p [] hi (by omega)
      rw [hv]
      obtain ⟨p1, r⟩ := v
      cases r with
      | some qs => simp only []; split <;> exact ⟨_, rfl⟩
      | none => exact ⟨_, rfl⟩
    · obtain ⟨p1, r, h1, h2, h3⟩ := skipAllQuestions_terminates fuel p hi (by omega)
      rw [h1]
      cases r with
      | some e => exact ⟨_, rfl⟩
      | none =>
        simp only []
        have hm3 := mu3_le p1
        unfold Same at h3
        exact mdnsLoop_terminates fuel _ h2 (by simp [secAnswers]) (by simp [secAnswers]) (by simp only [secAnswers]; omega)

/-! ### NBNS -/

theorem nbnsStep_next (p p' : Parser) (h : nbnsStep p = .next p') (hi : Inv p) :
    Inv p' ∧ Same p p' ∧ mu p' 3 < mu p 3 := by
  unfold nbnsStep at h
  have hf := resourceHeader_facts p secAnswers hi
  cases hrh : resourceHeader p secAnswers with
  | mk p1 r =>
    rw [hrh] at h hf
    simp only [] at hf
    obtain ⟨hi1, hs1, hok⟩ := hf
    cases r with
    | error e => cases e <;> simp at h
    | ok hdr =>
      obtain ⟨e1, e2, e3, e4⟩ := hok hdr rfl
      unfold secAnswers at e1 e2 e3
      simp only [] at h
      split at h
      · have hf := typedResource_facts p1 3 (fun _ => true) unpackUnknown hi1 e1 e2
        cases ht : typedResource p1 (fun _ => true) unpackUnknown with
        | mk p2 r =>
          rw [ht] at h hf
          cases r with
          | error e => simp at h
          | ok data =>
            simp only [] at h hf
            obtain ⟨a1, b1, c1, d1⟩ := hf data rfl
            split at h
            · simp at h
            · simp at h
            · simp at h
            · injection h with h; subst h
              exact ⟨a1, hs1.trans b1, by omega⟩
      · have hf := skipResource_facts p1 3 hi1 e1 e2 e4
        unfold secAnswers at h
        cases hsk : skipResource p1 3 with
        | mk p2 r =>
          rw [hsk] at h hf
          cases r with
          | some e => simp at h
          | none =>
            simp only [] at h hf
            injection h with h; subst h
            obtain ⟨a1, b1, c1, d1⟩ := hf trivial
            exact ⟨a1, hs1.trans b1, by omega⟩

theorem nbnsStep_done (p : Parser) (o : Outcome NbnsOut) (h : nbnsStep p = .done o) : Returns o := by
  unfold nbnsStep at h
  cases hrh : resourceHeader p secAnswers with
  | mk p1 r =>
    rw [hrh] at h
    cases r with
    | error e => cases e <;> (simp only [] at h; injection h with h; subst h; exact returns_ok _)
    | ok hdr =>
      simp only [] at h
      split at h
      · cases ht : typedResource p1 (fun _ => true) unpackUnknown with
        | mk p2 r =>
          rw [ht] at h
          cases r with
          | error e => simp only [] at h; injection h with h; subst h; exact returns_ok _
          | ok data =>
            simp only [] at h
            have := nbnsNodeStatus_returns data
            split at h
            · injection h with h; subst h; exact returns_ok _
            · exact absurd ‹_› this.1
            · exact absurd ‹_› this.2
            · simp at h
      · cases hsk : skipResource p1 secAnswers with
        | mk p2 r =>
          rw [hsk] at h
          cases r with
          | some e => simp only [] at h; injection h with h; subst h; exact returns_ok _
          | none => simp at h

theorem nbnsLoop_terminates : ∀ (fuel : Nat) (p : Parser), Inv p → mu p 3 < fuel → Returns (nbnsLoop fuel p) := by
  intro fuel
  induction fuel with
  | zero => intro p _ h; omega
  | succ n ih =>
    intro p hi hm
    rw [nbnsLoop]
    cases hst : nbnsStep p with
    | done o => exact nbnsStep_done p o hst
    | next p' =>
      obtain ⟨a, _, c⟩ := nbnsStep_next p p' hst hi
      exact ih p' a (by omega)

theorem processNBNS_terminates (payload : Bytes) (fuel : Nat) (h : nbnsBound payload ≤ fuel) :
    Returns (processNBNS fuel payload) := by
  unfold processNBNS
  unfold nbnsBound at h
  split
  · exact returns_ok _
  cases hs : start payload with
  | error e => exact returns_ok _
  | ok v =>
    obtain ⟨p, hdr⟩ := v
    rw [hs] at h
    simp only [] at h ⊢
    have hi := inv_of_start hs
    have hm2 := mu2_le p
    split
    · exact returns_ok _
    · obtain ⟨p1, r, h1, h2, h3⟩ := skipAllQuestions_terminates fuel p hi (by omega)
      rw [h1]
      cases r with
      | some e => exact returns_ok _
      | none =>
        simp only []
        have hm3 := mu3_le p1
        unfold Same at h3
        exact nbnsLoop_terminates fuel p1 h2 (by omega)

/-! ### provenance of the names returned by ProcessMDNS -/

/-- the name is what the Parser's name decoder returns somewhere in the message, ".local." stripped -/
def NameFrom (m : Bytes) (x : IPName) : Prop :=
  ∃ off nm e, unpackName m off = .ok (nm, e) ∧ x.name = trimSuffix nm sLocal

theorem checkAdvance_msg (p : Parser) (sec : Nat) : (checkAdvance p sec).1.msg = p.msg := by
  simp only [checkAdvance]
  split
  · rfl
  split
  · rfl
  split <;> rfl

theorem resourceHeader_msg (p : Parser) (sec : Nat) : (resourceHeader p sec).1.msg = p.msg := by
  unfold resourceHeader
  have h0 : (if p.resHeaderValid then { p with off := p.resHeaderOffset } else p).msg = p.msg := by split <;> rfl
  generalize (if p.resHeaderValid then { p with off := p.resHeaderOffset } else p) = p0 at h0
  simp only []
  have hc := checkAdvance_msg p0 sec
  cases hca : checkAdvance p0 sec with
  | mk p1 r =>
    rw [hca] at hc
    simp only [] at hc
    cases r with
    | some e => simp only []; rw [hc, h0]
    | none =>
      simp only []
      cases hu : unpackRHeader p1.msg p1.off with
      | error e => simp only []; rw [hc, h0]
      | ok v => obtain ⟨hdr, off⟩ := v; simp only []; rw [hc, h0]

theorem unpackRHeader_name {msg : Bytes} {off : Nat} {hdr : RHeader} {o : Nat} (h : unpackRHeader msg off = .ok (hdr, o)) :
    ∃ e, unpackName msg off = .ok (hdr.name, e) := by
  unfold unpackRHeader at h
  simp only [bind, Except.bind, pure, Except.pure] at h
  split at h
  · simp at h
  next v hv =>
    obtain ⟨nm, o1⟩ := v
    split at h
    · simp at h
    split at h
    · simp at h
    split at h
    · simp at h
    split at h
    · simp at h
    injection h with h
    injection h with h1 h2
    subst h1
    exact ⟨o1, hv⟩

theorem resourceHeader_name (p : Parser) (sec : Nat) (hdr : RHeader) (h : (resourceHeader p sec).2 = .ok hdr) :
    ∃ off e, unpackName p.msg off = .ok (hdr.name, e) := by
  unfold resourceHeader at h
  have h0 : (if p.resHeaderValid then { p with off := p.resHeaderOffset } else p).msg = p.msg := by split <;> rfl
  generalize (if p.resHeaderValid then { p with off := p.resHeaderOffset } else p) = p0 at h0 h
  simp only [] at h
  have hc := checkAdvance_msg p0 sec
  cases hca : checkAdvance p0 sec with
  | mk p1 r =>
    rw [hca] at hc h
    simp only [] at hc h
    cases r with
    | some e => simp at h
    | none =>
      simp only [] at h
      cases hu : unpackRHeader p1.msg p1.off with
      | error e => rw [hu] at h; simp at h
      | ok v =>
        obtain ⟨hd, off⟩ := v
        rw [hu] at h
        simp only [] at h
        injection h with h
        subst h
        obtain ⟨e, he⟩ := unpackRHeader_name hu
        rw [hc, h0] at he
        exact ⟨p1.off, e, he⟩

theorem typedResource_msg {α : Type} (p : Parser) (ok : Nat → Bool) (f : Bytes → Nat → Nat → R α) :
    (typedResource p ok f).1.msg = p.msg := by
  unfold typedResource
  split
  · rfl
  · split <;> rfl

theorem skipResource_msg (p : Parser) (sec : Nat) : (skipResource p sec).1.msg = p.msg := by
  unfold skipResource
  split
  · simp only []; split <;> rfl
  · have hc := checkAdvance_msg p sec
    cases hca : checkAdvance p sec with
    | mk p1 r =>
      rw [hca] at hc
      simp only [] at hc
      cases r with
      | some e => exact hc
      | none =>
        simp only []
        split
        · exact hc
        · exact hc


theorem skipOr_names (s s' : MdnsState) (p1 : Parser) (h : skipOr s p1 = .next s') :
    s'.p.msg = p1.msg ∧ s'.v4 = s.v4 ∧ s'.v6 = s.v6 := by
  unfold skipOr at h
  have hm := skipResource_msg p1 s.sec
  cases hsk : skipResource p1 s.sec with
  | mk p2 r =>
    rw [hsk] at h hm
    cases r with
    | some e => simp at h
    | none =>
      simp only [] at h hm
      injection h with h
      subst h
      exact ⟨hm, rfl, rfl⟩

theorem parseOrSkip_names {α : Type} (s s' : MdnsState) (p1 : Parser) (t : Nat) (unpack : Bytes → Nat → Nat → R α)
    (k : α → MdnsState → MdnsState) (hk : ∀ a st, (k a st).p = st.p ∧ (k a st).v4 = st.v4 ∧ (k a st).v6 = st.v6)
    (h : parseOrSkip s p1 t unpack k = .next s') :
    s'.p.msg = p1.msg ∧ s'.v4 = s.v4 ∧ s'.v6 = s.v6 := by
  unfold parseOrSkip at h
  have hm := typedResource_msg p1 (· == t) unpack
  cases ht : typedResource p1 (· == t) unpack with
  | mk p2 r =>
    rw [ht] at h hm
    cases r with
    | error e => simp only [] at h; exact skipOr_names s s' p1 h
    | ok a =>
      simp only [] at h hm
      injection h with h
      subst h
      obtain ⟨k1, k2, k3⟩ := hk a { s with p := p2 }
      rw [k1, k2, k3]
      exact ⟨hm, rfl, rfl⟩

theorem mdnsStep_names (s s' : MdnsState) (h : mdnsStep s = .next s')
    (hinv : ∀ x ∈ s.v4 ++ s.v6, NameFrom s.p.msg x) :
    s'.p.msg = s.p.msg ∧ (∀ x ∈ s'.v4 ++ s'.v6, NameFrom s.p.msg x) := by
  unfold mdnsStep at h
  have hmsg := resourceHeader_msg s.p s.sec
  have hname := resourceHeader_name s.p s.sec
  cases hrh : resourceHeader s.p s.sec with
  | mk p1 r =>
    rw [hrh] at h hmsg hname
    simp only [] at hmsg hname
    cases r with
    | error e =>
      cases e with
      | sectionDone =>
        simp only [] at h
        split at h
        · simp at h
        · injection h with h; subst h; exact ⟨hmsg, hinv⟩
      | notStarted => simp at h
      | other => simp at h
    | ok hdr =>
      obtain ⟨off, e, hun⟩ := hname hdr rfl
      simp only [] at h
      have keep : ∀ s'' : MdnsState, (s''.p.msg = p1.msg ∧ s''.v4 = s.v4 ∧ s''.v6 = s.v6) →
          s''.p.msg = s.p.msg ∧ (∀ x ∈ s''.v4 ++ s''.v6, NameFrom s.p.msg x) := by
        intro s'' ⟨a, b, c⟩
        rw [b, c]; exact ⟨by rw [a, hmsg], hinv⟩
      have hnew : ∀ a : Bytes, NameFrom s.p.msg { name := trimSuffix hdr.name sLocal, ip := a, model := [], manufacturer := [] } :=
        fun a => ⟨off, hdr.name, e, hun, rfl⟩
      split at h
      · have hm := typedResource_msg p1 (· == 1) unpackA
        cases ht : typedResource p1 (· == 1) unpackA with
        | mk p2 r =>
          rw [ht] at h hm
          cases r with
          | error e => simp at h
          | ok a =>
            simp only [] at h hm
            injection h with h; subst h
            refine ⟨by rw [hm, hmsg], ?_⟩
            intro x hx
            simp only [List.append_assoc, List.mem_append, List.mem_cons, List.mem_nil_iff, or_false] at hx
            rcases hx with hx | hx | hx
            · exact hinv x (List.mem_append.mpr (Or.inl hx))
            · rw [hx]; exact hnew a
            · exact hinv x (List.mem_append.mpr (Or.inr hx))
      split at h
      · have hm := typedResource_msg p1 (· == 28) unpackAAAA
        cases ht : typedResource p1 (· == 28) unpackAAAA with
        | mk p2 r =>
          rw [ht] at h hm
          cases r with
          | error e => simp at h
          | ok a =>
            simp only [] at h hm
            injection h with h; subst h
            refine ⟨by rw [hm, hmsg], ?_⟩
            intro x hx
            simp only [List.mem_append, List.mem_cons, List.mem_nil_iff, or_false] at hx
            rcases hx with hx | hx | hx
            · exact hinv x (List.mem_append.mpr (Or.inl hx))
            · exact hinv x (List.mem_append.mpr (Or.inr hx))
            · rw [hx]; exact hnew a
      split at h
      · exact keep _ (parseOrSkip_names s s' p1 12 unpackPTR _ (fun _ _ => ⟨rfl, rfl, rfl⟩) h)
      split at h
      · exact keep _ (parseOrSkip_names s s' p1 33 unpackSRV _ (fun _ _ => ⟨rfl, rfl, rfl⟩) h)
      split at h
      · exact keep _ (parseOrSkip_names s s' p1 16 unpackTXT
          (fun txt st => let m := parseTXT txt; { st with model := if m ≠ [] then m else st.model }) (fun _ _ => ⟨rfl, rfl, rfl⟩) h)
      split at h
      · exact keep _ (parseOrSkip_names s s' p1 41 unpackOPT _ (fun _ _ => ⟨rfl, rfl, rfl⟩) h)
      · exact keep _ (skipOr_names s s' p1 h)

theorem finalize_names (m : Bytes) (model : Bytes) (v4 v6 : List IPName) (hinv : ∀ x ∈ v4 ++ v6, NameFrom m x) :
    ∀ x ∈ (finalize model v4 v6).ipv4 ++ (finalize model v4 v6).ipv6, NameFrom m x := by
  unfold finalize
  split
  · intro x hx
    simp only [List.mem_append, List.mem_map] at hx
    rcases hx with ⟨y, hy, rfl⟩ | ⟨y, hy, rfl⟩
    · exact hinv y (List.mem_append.mpr (Or.inl hy))
    · exact hinv y (List.mem_append.mpr (Or.inr hy))
  · exact hinv

theorem mdnsStep_done_names (s : MdnsState) (o : MdnsOut) (h : mdnsStep s = .done o)
    (hinv : ∀ x ∈ s.v4 ++ s.v6, NameFrom s.p.msg x) : ∀ x ∈ o.ipv4 ++ o.ipv6, NameFrom s.p.msg x := by
  unfold mdnsStep at h
  cases hrh : resourceHeader s.p s.sec with
  | mk p1 r =>
    rw [hrh] at h
    have errcase : ∀ o', o' = ({ ipv4 := s.v4, ipv6 := s.v6, err := true } : MdnsOut) → ∀ x ∈ o'.ipv4 ++ o'.ipv6, NameFrom s.p.msg x := by
      intro o' ho; subst ho; exact hinv
    have skipcase : ∀ p1, skipOr s p1 = .done o → ∀ x ∈ o.ipv4 ++ o.ipv6, NameFrom s.p.msg x := by
      intro p1 hh
      unfold skipOr at hh
      cases hsk : skipResource p1 s.sec with
      | mk p2 r =>
        rw [hsk] at hh
        cases r with
        | some e => simp only [] at hh; injection hh with hh; exact errcase o hh.symm
        | none => simp at hh
    have poscase : ∀ {α : Type} (p1 : Parser) (t : Nat) (unpack : Bytes → Nat → Nat → R α) (k : α → MdnsState → MdnsState),
        parseOrSkip s p1 t unpack k = .done o → ∀ x ∈ o.ipv4 ++ o.ipv6, NameFrom s.p.msg x := by
      intro α p1 t unpack k hh
      unfold parseOrSkip at hh
      cases ht : typedResource p1 (· == t) unpack with
      | mk p2 r =>
        rw [ht] at hh
        cases r with
        | error e => exact skipcase p1 hh
        | ok a => simp at hh
    cases r with
    | error e =>
      cases e with
      | sectionDone =>
        simp only [] at h
        split at h
        · injection h with h; subst h; exact finalize_names _ _ _ _ hinv
        · simp at h
      | notStarted => simp only [] at h; injection h with h; exact errcase o h.symm
      | other => simp only [] at h; injection h with h; exact errcase o h.symm
    | ok hdr =>
      simp only [] at h
      split at h
      · cases ht : typedResource p1 (· == 1) unpackA with
        | mk p2 r =>
          rw [ht] at h
          cases r with
          | error e => simp only [] at h; injection h with h; exact errcase o h.symm
          | ok a => simp at h
      split at h
      · cases ht : typedResource p1 (· == 28) unpackAAAA with
        | mk p2 r =>
          rw [ht] at h
          cases r with
          | error e => simp only [] at h; injection h with h; exact errcase o h.symm
          | ok a => simp at h
      split at h
      · exact poscase p1 12 unpackPTR _ h
      split at h
      · exact poscase p1 33 unpackSRV _ h
      split at h
      · exact poscase p1 16 unpackTXT _ h
      split at h
      · exact poscase p1 41 unpackOPT _ h
      · exact skipcase p1 h

theorem mdnsLoop_names : ∀ (fuel : Nat) (s : MdnsState) (o : MdnsOut), mdnsLoop fuel s = .ok o →
    (∀ x ∈ s.v4 ++ s.v6, NameFrom s.p.msg x) → ∀ x ∈ o.ipv4 ++ o.ipv6, NameFrom s.p.msg x := by
  intro fuel
  induction fuel with
  | zero => intro s o h; simp [mdnsLoop] at h
  | succ n ih =>
    intro s o h hinv
    rw [mdnsLoop] at h
    cases hst : mdnsStep s with
    | done o' =>
      rw [hst] at h
      simp only [] at h
      injection h with h; subst h
      exact mdnsStep_done_names s _ hst hinv
    | next s' =>
      rw [hst] at h
      simp only [] at h
      obtain ⟨a, b⟩ := mdnsStep_names s s' hst hinv
      have := ih s' o h (by rw [a]; exact b)
      rw [a] at this
      exact this

theorem start_msg (msg : Bytes) (p : Parser) (hdr : MsgHeader) (h : start msg = .ok (p, hdr)) : p.msg = msg := by
  unfold start at h
  simp only [bind, Except.bind, pure, Except.pure] at h
  split at h
  · simp at h
  split at h
  · simp at h
  split at h
  · simp at h
  split at h
  · simp at h
  split at h
  · simp at h
  split at h
  · simp at h
  injection h with h
  injection h with h1 h2
  subst h1
  rfl

theorem skipQuestion_msg (p : Parser) : (skipQuestion p).1.msg = p.msg := by
  unfold skipQuestion
  have hc := checkAdvance_msg p secQuestions
  cases hca : checkAdvance p secQuestions with
  | mk p1 r =>
    rw [hca] at hc
    simp only [] at hc
    cases r with
    | some e => exact hc
    | none => simp only []; split <;> exact hc

theorem skipAllQuestions_msg : ∀ (fuel : Nat) (p p1 : Parser) (r : Option PErr),
    skipAllQuestions fuel p = .ok (p1, r) → p1.msg = p.msg := by
  intro fuel
  induction fuel with
  | zero => intro p p1 r h; simp [skipAllQuestions] at h
  | succ n ih =>
    intro p p1 r h
    rw [skipAllQuestions] at h
    have hm := skipQuestion_msg p
    cases hs : skipQuestion p with
    | mk p2 r2 =>
      rw [hs] at h hm
      simp only [] at hm
      cases r2 with
      | some e =>
        cases e <;> (simp only [] at h; injection h with h; injection h with a b; subst a; exact hm)
      | none =>
        simp only [] at h
        rw [ih p2 p1 r h, hm]

/-- every address entry ProcessMDNS returns carries a name that the Parser's name decoder produced
    at some offset of the payload (".local." stripped) -/
theorem processMDNS_names (payload : Bytes) (fuel : Nat) (o : MdnsOut) (h : processMDNS fuel payload = .ok o) :
    ∀ x ∈ o.ipv4 ++ o.ipv6, x.ip ≠ [] → NameFrom payload x := by
  unfold processMDNS at h
  cases hs : start payload with
  | error e =>
    rw [hs] at h
    simp only [] at h
    injection h with h; subst h
    intro x hx; simp at hx
  | ok v =>
    obtain ⟨p, hdr⟩ := v
    rw [hs] at h
    simp only [] at h
    have hpm := start_msg _ _ _ hs
    split at h
    · -- query: the single entry has no address
      cases ha : allQuestions fuel p [] with
      | ok w =>
        obtain ⟨p1, r⟩ := w
        rw [ha] at h
        cases r with
        | some qs =>
          simp only [] at h
          split at h
          · injection h with h; subst h
            intro x hx hip
            simp at hx
            subst hx
            exact absurd rfl hip
          · injection h with h; subst h; intro x hx; simp at hx
        | none => simp only [] at h; injection h with h; subst h; intro x hx; simp at hx
      | err e => rw [ha] at h; simp at h
      | panic => rw [ha] at h; simp at h
      | hang => rw [ha] at h; simp at h
    · cases hq : skipAllQuestions fuel p with
      | ok w =>
        obtain ⟨p1, r⟩ := w
        rw [hq] at h
        have hm1 := skipAllQuestions_msg fuel p p1 r hq
        cases r with
        | some e => simp only [] at h; injection h with h; subst h; intro x hx; simp at hx
        | none =>
          simp only [] at h
          intro x hx _
          have := mdnsLoop_names fuel _ o h (by intro y hy; simp at hy) x hx
          simpa [hm1, hpm] using this
      | err e => rw [hq] at h; simp at h
      | panic => rw [hq] at h; simp at h
      | hang => rw [hq] at h; simp at h

end PV.Lemmas.DnsMsg
