import PacketVerif.Model.Parse
import PacketVerif.Spec.Decode
namespace PV.Lemmas
open PV PV.Model

/-! ### primitives succeed under their bounds -/

theorem idx_ok (p : Bytes) (k : Nat) (h : k < p.length) : ∃ v, idx p k = .ok v := by
  unfold idx
  rw [List.getElem?_eq_getElem h]
  exact ⟨_, rfl⟩

theorem idx_ok' (p : Bytes) (k : Nat) (h : k < p.length) : idx p k = .ok (p[k]'h) := by
  unfold idx
  rw [List.getElem?_eq_getElem h]

theorem byteN_ok (p : Bytes) (k : Nat) (h : k < p.length) : byteN p k = .ok (p[k]'h).toNat := by
  unfold byteN; rw [idx_ok' p k h]; rfl

theorem be16At_ok (p : Bytes) (k : Nat) (h : k + 1 < p.length) :
    be16At p k = .ok (be16 (p[k]'(by omega)) (p[k+1]'h)) := by
  unfold be16At; rw [idx_ok' p k (by omega), idx_ok' p (k+1) h]; rfl

theorem slice_ok (p : Bytes) (lo hi : Nat) (h1 : lo ≤ hi) (h2 : hi ≤ p.length) :
    slice p lo hi = .ok ((p.take hi).drop lo) := by
  unfold slice; simp [h1, h2]

theorem slice_len (p : Bytes) (lo hi : Nat) (h1 : lo ≤ hi) (h2 : hi ≤ p.length) :
    ((p.take hi).drop lo).length = hi - lo := by
  simp [List.length_drop, List.length_take]; omega

theorem sliceFrom_ok (p : Bytes) (lo : Nat) (h : lo ≤ p.length) : sliceFrom p lo = .ok (p.drop lo) := by
  unfold sliceFrom; simp [h]

/-! ### table-driven getters -/

theorem NE.eval_ok (e : NE) (p : Bytes) (h : e.need ≤ p.length) : ∃ v, e.eval p = .ok v := by
  induction e with
  | byte k =>
    simp only [NE.need] at h
    obtain ⟨v, hv⟩ := idx_ok p k (by omega)
    exact ⟨v.toNat, by simp [NE.eval, hv]⟩
  | const n => exact ⟨n, rfl⟩
  | and a b iha ihb | or a b iha ihb | add a b iha ihb | mul a b iha ihb =>
    simp only [NE.need] at h
    obtain ⟨x, hx⟩ := iha (by omega)
    obtain ⟨y, hy⟩ := ihb (by omega)
    simp only [NE.eval, hx, hy]
    exact ⟨_, rfl⟩
  | shl a n ih | shr a n ih =>
    simp only [NE.need] at h
    obtain ⟨x, hx⟩ := ih h
    simp only [NE.eval, hx]
    exact ⟨_, rfl⟩

theorem G.eval_ok (g : G) (p : Bytes) (hw : g.wf = true) (h : g.need ≤ p.length) :
    ∃ v, g.eval p = .ok v ∧ v.inside p.length := by
  cases g with
  | num e => obtain ⟨v, hv⟩ := NE.eval_ok e p h; exact ⟨.n v, by simp [G.eval, hv], trivial⟩
  | flag e => obtain ⟨v, hv⟩ := NE.eval_ok e p h; exact ⟨.b (v != 0), by simp [G.eval, hv], trivial⟩
  | eq e c => obtain ⟨v, hv⟩ := NE.eval_ok e p h; exact ⟨.b (v == c), by simp [G.eval, hv], trivial⟩
  | span lo hi =>
    simp only [G.wf, decide_eq_true_eq] at hw
    simp only [G.need] at h
    refine ⟨.span lo (hi - lo), by simp [G.eval, hw, h], ?_⟩
    simp only [Val.inside]; omega
  | tail lo =>
    simp only [G.need] at h
    refine ⟨.span lo (p.length - lo), by simp [G.eval, h], ?_⟩
    simp only [Val.inside]; omega
  | ip k len =>
    simp only [G.need] at h
    exact ⟨.ip ((p.take (k+len)).drop k), by simp [G.eval, slice_ok p k (k+len) (by omega) h], trivial⟩

/-- every regular getter of every view needs no more bytes than `IsValid` guarantees -/
def tablesOk : Bool :=
  allViews.all fun V => V.fixed.all fun e => e.2.wf && decide (e.2.need ≤ V.minLen)

theorem tablesOk_true : tablesOk = true := by decide


/-! ### bridge to total readers -/
theorem at_eq (p : Bytes) (k : Nat) (h : k < p.length) : Spec.at_ p k = (p[k]'h).toNat := by
  unfold Spec.at_; rw [List.getElem?_eq_getElem h]; rfl

theorem at_lt (p : Bytes) (k : Nat) : Spec.at_ p k < 256 := by
  unfold Spec.at_; exact UInt8.toNat_lt _

theorem u16_lt (p : Bytes) (k : Nat) : Spec.u16 p k < 65536 := by
  unfold Spec.u16; have := at_lt p k; have := at_lt p (k+1); omega

theorem idx_at (p : Bytes) (k : Nat) (h : k < p.length) : ∃ v, idx p k = .ok v ∧ v.toNat = Spec.at_ p k :=
  ⟨_, idx_ok' p k h, (at_eq p k h).symm⟩

theorem byteN_at (p : Bytes) (k : Nat) (h : k < p.length) : byteN p k = .ok (Spec.at_ p k) := by
  rw [byteN_ok p k h, at_eq p k h]

theorem be16At_u16 (p : Bytes) (k : Nat) (h : k + 1 < p.length) : be16At p k = .ok (Spec.u16 p k) := by
  rw [be16At_ok p k h]; unfold Spec.u16 be16; rw [at_eq p k (by omega), at_eq p (k+1) h]

theorem slice_field (p : Bytes) (lo hi : Nat) (h1 : lo ≤ hi) (h2 : hi ≤ p.length) :
    slice p lo hi = .ok (Spec.field p lo (hi - lo)) := by
  rw [slice_ok p lo hi h1 h2, List.drop_take]; rfl

theorem field_length (p : Bytes) (k n : Nat) (h : k + n ≤ p.length) : (Spec.field p k n).length = n := by
  unfold Spec.field; rw [List.length_take, List.length_drop]; omega

theorem at_drop (p : Bytes) (o k : Nat) : Spec.at_ (p.drop o) k = Spec.at_ p (o + k) := by
  unfold Spec.at_; rw [List.getElem?_drop]

theorem u16_drop (p : Bytes) (o k : Nat) : Spec.u16 (p.drop o) k = Spec.u16 p (o + k) := by
  unfold Spec.u16; rw [at_drop, at_drop]; rfl

theorem field_drop (p : Bytes) (o k n : Nat) : Spec.field (p.drop o) k n = Spec.field p (o + k) n := by
  unfold Spec.field; rw [List.drop_drop]

theorem and15 (n : Nat) : n &&& 15 = n % 16 := Nat.and_two_pow_sub_one_eq_mod n 4
theorem shl2 (n : Nat) : n <<< 2 = n * 4 := Nat.shiftLeft_eq n 2
theorem shr4 (n : Nat) : n >>> 4 = n / 16 := Nat.shiftRight_eq_div_pow n 4


/-! ### validators: closed forms -/
theorem lenAtLeast_eq (p : Bytes) (n : Nat) (e : Err) :
    lenAtLeast p n e = if n ≤ p.length then .ok () else .err e := rfl

theorem etherHeaderLen_eq (p : Bytes) (h : 14 ≤ p.length) :
    etherHeaderLen p = .ok (etherHeaderLenOf (Spec.u16 p 12)) := by
  unfold etherHeaderLen; rw [be16At_u16 p 12 (by omega)]; rfl

theorem etherHeaderLenOf_cases (et : Nat) :
    etherHeaderLenOf et = 14 ∨ etherHeaderLenOf et = 18 ∨ etherHeaderLenOf et = 22 := by
  unfold etherHeaderLenOf; split
  · exact .inr (.inl rfl)
  · split
    · exact .inr (.inr rfl)
    · exact .inl rfl

theorem etherValid_eq (p : Bytes) :
    etherValid p = if 14 ≤ p.length ∧ etherHeaderLenOf (Spec.u16 p 12) ≤ p.length then .ok () else .err .frameLen := by
  unfold etherValid
  by_cases h : 14 ≤ p.length
  · rw [if_pos h, etherHeaderLen_eq p h]
    simp only [Outcome.bind_ok, h, true_and, ge_iff_le]
  · rw [if_neg h, if_neg (fun hh => h hh.1)]

theorem ip4IHL_eq (p : Bytes) (h : 0 < p.length) : ip4IHL p = .ok (Spec.at_ p 0 % 16 * 4) := by
  unfold ip4IHL; rw [byteN_at p 0 h]
  simp only [Outcome.bind_ok, Outcome.pure_eq, and15, shl2]

theorem ip4TotalLen_eq (p : Bytes) (h : 4 ≤ p.length) : ip4TotalLen p = .ok (Spec.u16 p 2) :=
  be16At_u16 p 2 (by omega)

theorem ip4Valid_eq (p : Bytes) :
    ip4Valid p = if 20 ≤ p.length ∧ 20 ≤ Spec.at_ p 0 % 16 * 4 ∧ Spec.at_ p 0 % 16 * 4 ≤ p.length ∧
        Spec.u16 p 2 ≤ p.length ∧ Spec.at_ p 0 % 16 * 4 ≤ Spec.u16 p 2 then .ok () else .err .frameLen := by
  unfold ip4Valid
  by_cases h : 20 ≤ p.length
  · rw [if_pos h, ip4IHL_eq p (by omega), ip4TotalLen_eq p (by omega)]
    simp only [Outcome.bind_ok, h, true_and, ge_iff_le]
  · rw [if_neg h, if_neg (fun hh => h hh.1)]

theorem tcpHeaderLen_eq (p : Bytes) (h : 13 ≤ p.length) : tcpHeaderLen p = .ok (Spec.at_ p 12 / 16 * 4) := by
  unfold tcpHeaderLen; rw [byteN_at p 12 (by omega)]
  simp only [Outcome.bind_ok, Outcome.pure_eq, shr4]

theorem tcpValid_eq (p : Bytes) :
    tcpValid p = if 20 ≤ p.length ∧ 20 ≤ Spec.at_ p 12 / 16 * 4 ∧ Spec.at_ p 12 / 16 * 4 ≤ p.length
      then .ok () else .err .frameLen := by
  unfold tcpValid
  by_cases h : 20 ≤ p.length
  · rw [if_pos h, tcpHeaderLen_eq p (by omega)]
    simp only [Outcome.bind_ok, h, true_and, ge_iff_le]
  · rw [if_neg h, if_neg (fun hh => h hh.1)]

theorem ip6Valid_eq (p : Bytes) :
    ip6Valid p = if 40 ≤ p.length ∧ Spec.u16 p 4 + 40 = p.length then .ok () else .err .frameLen := by
  unfold ip6Valid
  by_cases h : 40 ≤ p.length
  · rw [if_pos h, be16At_u16 p 4 (by omega)]
    simp only [Outcome.bind_ok, h, true_and, beq_iff_eq]
  · rw [if_neg h, if_neg (fun hh => h hh.1)]


theorem arpValid_safe (p : Bytes) : (arpValid p).safe = true := by
  unfold arpValid
  by_cases h : p.length < 28
  · rw [if_pos h]; rfl
  · rw [if_neg h, be16At_u16 p 0 (by omega), be16At_u16 p 2 (by omega), byteN_at p 4 (by omega), byteN_at p 5 (by omega)]
    simp only [Outcome.bind_ok]
    repeat (first | rfl | split)

theorem arpValid_len (p : Bytes) (h : arpValid p = .ok ()) : 28 ≤ p.length := by
  unfold arpValid at h
  by_cases h' : p.length < 28
  · rw [if_pos h'] at h; cases h
  · omega

theorem rsValid_safe (p : Bytes) : (rsValid p).safe = true := by
  unfold rsValid
  by_cases h : p.length < 8
  · rw [if_pos h]; rfl
  · rw [if_neg h, byteN_at p 0 (by omega)]
    simp only [Outcome.bind_ok]
    repeat (first | rfl | split)

theorem rsValid_len (p : Bytes) (h : rsValid p = .ok ()) : 8 ≤ p.length := by
  unfold rsValid at h
  by_cases h' : p.length < 8
  · rw [if_pos h'] at h; cases h
  · omega

theorem pauseValid_safe (p : Bytes) : (pauseValid p).safe = true := by
  unfold pauseValid
  by_cases h : p.length < 46
  · rw [if_pos h]; rfl
  · rw [if_neg h, be16At_u16 p 0 (by omega)]
    simp only [Outcome.bind_ok]
    repeat (first | rfl | split)

theorem pauseValid_len (p : Bytes) (h : pauseValid p = .ok ()) : 46 ≤ p.length := by
  unfold pauseValid at h
  by_cases h' : p.length < 46
  · rw [if_pos h'] at h; cases h
  · omega

theorem redirValid_safe (p : Bytes) : (redirValid p).safe = true := by
  unfold redirValid
  by_cases h : p.length < 8
  · rw [if_pos h]; rfl
  · rw [if_neg h, byteN_at p 4 (by omega), byteN_at p 5 (by omega), byteN_at p 0 (by omega)]
    simp only [Outcome.bind_ok]
    repeat (first | rfl | split)

theorem redirValid_ok (p : Bytes) (h : redirValid p = .ok ()) :
    8 ≤ p.length ∧ 8 + Spec.at_ p 4 * Spec.at_ p 5 * 4 ≤ p.length ∧ (Spec.at_ p 5 = 4 ∨ Spec.at_ p 5 = 10) := by
  unfold redirValid at h
  by_cases h' : p.length < 8
  · rw [if_pos h'] at h; cases h
  · rw [if_neg h', byteN_at p 4 (by omega), byteN_at p 5 (by omega), byteN_at p 0 (by omega)] at h
    simp only [Outcome.bind_ok] at h
    split at h
    · cases h
    · split at h
      · cases h
      · split at h
        · cases h
        · rename_i h1 _ h3
          simp only [bne_iff_ne, ne_eq] at h3
          exact ⟨by omega, by omega, by omega⟩

theorem hbhLen_eq (p : Bytes) (h : 2 ≤ p.length) : hbhLen p = .ok (Spec.at_ p 1 * 8 + 8) := by
  unfold hbhLen; rw [byteN_at p 1 (by omega)]; rfl

theorem hbhValid_safe (p : Bytes) : (hbhValid p).safe = true := by
  unfold hbhValid
  by_cases h : p.length < 2
  · rw [if_pos h]; rfl
  · rw [if_neg h, hbhLen_eq p (by omega)]
    simp only [Outcome.bind_ok]
    repeat (first | rfl | split)

theorem hbhValid_ok (p : Bytes) (h : hbhValid p = .ok ()) :
    2 ≤ p.length ∧ Spec.at_ p 1 * 8 + 8 + 2 ≤ p.length := by
  unfold hbhValid at h
  by_cases h' : p.length < 2
  · rw [if_pos h'] at h; cases h
  · rw [if_neg h', hbhLen_eq p (by omega)] at h
    simp only [Outcome.bind_ok] at h
    split at h
    · cases h
    · omega


theorem dhcpValidateOpts_safe (fuel : Nat) (opts : Bytes) : (dhcpValidateOpts fuel opts).safe = true := by
  induction fuel generalizing opts with
  | zero => rfl
  | succ n ih =>
    unfold dhcpValidateOpts
    split
    · repeat (first | rfl | apply ih | split)
    · rfl

theorem dhcpValid_safe (p : Bytes) : (dhcpValid p).safe = true := by
  unfold dhcpValid
  by_cases h : p.length < 240
  · rw [if_pos h]; rfl
  · rw [if_neg h, byteN_at p 0 (by omega), byteN_at p 2 (by omega)]
    simp only [Outcome.bind_ok]
    repeat (first | rfl | apply dhcpValidateOpts_safe | split)

theorem dhcpValid_len (p : Bytes) (h : dhcpValid p = .ok ()) : 240 ≤ p.length := by
  unfold dhcpValid at h
  by_cases h' : p.length < 240
  · rw [if_pos h'] at h; cases h
  · omega

/-- pure form of `LLC.Type()` -/
def llcTypeOf (d s c : Nat) : String :=
  if c == 0x03 ∧ d == 0xaa ∧ s == 0xaa then "snap"
  else if c &&& 0x3 == 0x03 then "u"
  else if c &&& 0x01 == 0x01 then "s"
  else "i"

theorem llcType_eq (p : Bytes) (h : 3 ≤ p.length) :
    llcType p = .ok (llcTypeOf (Spec.at_ p 0) (Spec.at_ p 1) (Spec.at_ p 2)) := by
  unfold llcType
  rw [byteN_at p 0 (by omega), byteN_at p 1 (by omega), byteN_at p 2 (by omega)]
  simp only [Outcome.bind_ok, llcTypeOf, Outcome.pure_eq]
  repeat (first | rfl | split)

theorem llcValid_eq (p : Bytes) :
    llcValid p = if 3 ≤ p.length ∧ ¬ (llcTypeOf (Spec.at_ p 0) (Spec.at_ p 1) (Spec.at_ p 2) ≠ "u" ∧ p.length < 4)
      then .ok () else .err .frameLen := by
  unfold llcValid
  by_cases h : p.length < 3
  · rw [if_pos h, if_neg (by omega)]
  · rw [if_neg h, llcType_eq p (by omega)]
    simp only [Outcome.bind_ok, bne_iff_ne, ne_eq]
    have h3 : 3 ≤ p.length := by omega
    simp only [h3, true_and]
    split <;> rfl


/-- a getter call returned a value whose slices lie inside the view -/
def GOk (p : Bytes) (o : Outcome Val) : Prop := ∃ v, o = .ok v ∧ v.inside p.length

theorem etherValid_ok (p : Bytes) (h : etherValid p = .ok ()) :
    14 ≤ p.length ∧ etherHeaderLenOf (Spec.u16 p 12) ≤ p.length := by
  rw [etherValid_eq] at h
  split at h
  · assumption
  · cases h

theorem etherHeaderLen_getter (p : Bytes) (hv : etherValid p = .ok ()) :
    GOk p (do let n ← etherHeaderLen p; pure (.n n)) := by
  rw [etherHeaderLen_eq p (etherValid_ok p hv).1]
  exact ⟨_, rfl, trivial⟩

theorem etherPayload_getter (p : Bytes) (hv : etherValid p = .ok ()) : GOk p (etherPayload p) := by
  obtain ⟨h1, h2⟩ := etherValid_ok p hv
  unfold etherPayload
  rw [etherHeaderLen_eq p h1]
  simp only [Outcome.bind_ok, Outcome.pure_eq]
  split
  · exact ⟨_, rfl, by simp only [Val.inside]; omega⟩
  · split
    · exact ⟨_, rfl, by simp only [Val.inside]; omega⟩
    · exact ⟨_, rfl, trivial⟩

theorem etherIP_getter (o4 o6 : Nat) (h4 : o4 ≤ 16) (h6 : o6 ≤ 24) (p : Bytes) (hv : etherValid p = .ok ()) :
    GOk p (etherIP o4 o6 p) := by
  obtain ⟨h1, _⟩ := etherValid_ok p hv
  unfold etherIP
  rw [be16At_u16 p 12 (by omega)]
  simp only [Outcome.bind_ok, Outcome.pure_eq]
  split
  · split
    · rw [slice_field p _ _ (by omega) (by omega)]; exact ⟨_, rfl, trivial⟩
    · exact ⟨_, rfl, trivial⟩
  · split
    · split
      · rw [slice_field p _ _ (by omega) (by omega)]; exact ⟨_, rfl, trivial⟩
      · exact ⟨_, rfl, trivial⟩
    · exact ⟨_, rfl, trivial⟩

theorem ip4Valid_ok (p : Bytes) (h : ip4Valid p = .ok ()) :
    20 ≤ p.length ∧ 20 ≤ Spec.at_ p 0 % 16 * 4 ∧ Spec.at_ p 0 % 16 * 4 ≤ p.length ∧
        Spec.u16 p 2 ≤ p.length ∧ Spec.at_ p 0 % 16 * 4 ≤ Spec.u16 p 2 := by
  rw [ip4Valid_eq] at h
  split at h
  · assumption
  · cases h

theorem ip4Payload_eq (p : Bytes) (h : ip4Valid p = .ok ()) :
    ip4Payload p = .ok (.span (Spec.at_ p 0 % 16 * 4) (Spec.u16 p 2 - Spec.at_ p 0 % 16 * 4)) := by
  obtain ⟨h1, h2, h3, h4, h5⟩ := ip4Valid_ok p h
  unfold ip4Payload
  rw [ip4IHL_eq p (by omega), ip4TotalLen_eq p (by omega)]
  simp only [Outcome.bind_ok, Outcome.pure_eq]
  rw [if_pos ⟨h5, h4⟩]

theorem ip4Payload_getter (p : Bytes) (hv : ip4Valid p = .ok ()) : GOk p (ip4Payload p) := by
  obtain ⟨h1, h2, h3, h4, h5⟩ := ip4Valid_ok p hv
  rw [ip4Payload_eq p hv]
  exact ⟨_, rfl, by simp only [Val.inside]; omega⟩

theorem tcpValid_ok (p : Bytes) (h : tcpValid p = .ok ()) :
    20 ≤ p.length ∧ 20 ≤ Spec.at_ p 12 / 16 * 4 ∧ Spec.at_ p 12 / 16 * 4 ≤ p.length := by
  rw [tcpValid_eq] at h
  split at h
  · assumption
  · cases h

theorem tcpPayload_eq (p : Bytes) (h : tcpValid p = .ok ()) :
    tcpPayload p = .ok (.span (Spec.at_ p 12 / 16 * 4) (p.length - Spec.at_ p 12 / 16 * 4)) := by
  obtain ⟨h1, h2, h3⟩ := tcpValid_ok p h
  unfold tcpPayload
  rw [tcpHeaderLen_eq p (by omega)]
  simp only [Outcome.bind_ok, Outcome.pure_eq]
  rw [if_pos h3]

theorem tcpPayload_getter (p : Bytes) (hv : tcpValid p = .ok ()) : GOk p (tcpPayload p) := by
  obtain ⟨h1, h2, h3⟩ := tcpValid_ok p hv
  rw [tcpPayload_eq p hv]
  exact ⟨_, rfl, by simp only [Val.inside]; omega⟩

theorem icmpPayload_getter (p : Bytes) : GOk p (icmpPayload p) := by
  unfold icmpPayload
  split
  · exact ⟨_, rfl, by simp only [Val.inside]; omega⟩
  · exact ⟨_, rfl, trivial⟩

theorem echoData_getter (p : Bytes) : GOk p (echoData p) := by
  unfold echoData
  split
  · exact ⟨_, rfl, by simp only [Val.inside]; omega⟩
  · exact ⟨_, rfl, trivial⟩

theorem redirGo_ok (p : Bytes) (sz n : Nat) (hsz : sz = 4 ∨ sz = 10) (hlen : 8 + n * sz * 4 ≤ p.length)
    (fuel i : Nat) (acc : List (Nat × Nat)) (hi : i + fuel ≤ n) (hacc : ∀ e ∈ acc, e.1 + e.2 ≤ p.length) :
    ∃ l, redirAddrs.go p sz i fuel acc = .ok l ∧ ∀ e ∈ l, e.1 + e.2 ≤ p.length := by
  induction fuel generalizing i acc with
  | zero =>
    refine ⟨acc.reverse, rfl, ?_⟩
    intro e he; exact hacc e (List.mem_reverse.mp he)
  | succ f ih =>
    unfold redirAddrs.go
    have hb : i * sz * 4 + (if (sz == 4) = true then 4 else 16) ≤ p.length := by
      rcases hsz with rfl | rfl
      · simp only [beq_self_eq_true, if_true]; omega
      · have : ((10 : Nat) == 4) = false := by decide
        simp only [this, Bool.false_eq_true, if_false]; omega
    simp only [hb, if_true]
    apply ih
    · omega
    · intro e he
      rcases List.mem_cons.mp he with rfl | he
      · exact hb
      · exact hacc e he

theorem redirAddrs_getter (p : Bytes) (hv : redirValid p = .ok ()) : GOk p (redirAddrs p) := by
  obtain ⟨h1, h2, h3⟩ := redirValid_ok p hv
  unfold redirAddrs
  rw [byteN_at p 4 (by omega), byteN_at p 5 (by omega)]
  simp only [Outcome.bind_ok]
  obtain ⟨l, hl, hin⟩ := redirGo_ok p _ _ h3 h2 (Spec.at_ p 4) 0 [] (by omega) (by intro e he; cases he)
  rw [hl]
  exact ⟨_, rfl, hin⟩

theorem optLLA_getter (minLen tOff t l lo hi : Nat) (h1 : tOff + 2 ≤ minLen) (h2 : lo ≤ hi) (h3 : hi ≤ minLen)
    (p : Bytes) : GOk p (optLLA minLen tOff t l lo hi p) := by
  unfold optLLA
  split
  · rw [byteN_at p tOff (by omega), byteN_at p (tOff + 1) (by omega)]
    simp only [Outcome.bind_ok, Outcome.pure_eq]
    split
    · rw [slice_field p lo hi h2 (by omega)]
      exact ⟨_, rfl, by simp only [Val.inside]; omega⟩
    · exact ⟨_, rfl, trivial⟩
  · exact ⟨_, rfl, trivial⟩


theorem length_takeWhile_le {α} (f : α → Bool) (l : List α) : (l.takeWhile f).length ≤ l.length := by
  induction l with
  | nil => exact Nat.le_refl _
  | cons a t ih =>
    rw [List.takeWhile_cons]
    split
    · simp only [List.length_cons]; omega
    · simp only [List.length_nil, List.length_cons]; omega

theorem trimNullSpan_getter (lo hi : Nat) (h1 : lo ≤ hi) (p : Bytes) (h2 : hi ≤ p.length) :
    GOk p (trimNullSpan lo hi p) := by
  unfold trimNullSpan
  rw [slice_field p lo hi h1 h2]
  refine ⟨_, rfl, ?_⟩
  have := length_takeWhile_le (fun x : UInt8 => x != 0) (Spec.field p lo (hi - lo))
  rw [field_length p lo (hi - lo) (by omega)] at this
  simp only [Val.inside]; omega

theorem dhcpOptions_getter (p : Bytes) : GOk p (dhcpOptions p) := by
  unfold dhcpOptions
  split
  · exact ⟨_, rfl, by simp only [Val.inside]; omega⟩
  · exact ⟨_, rfl, trivial⟩

theorem llcValid_ok (p : Bytes) (h : llcValid p = .ok ()) :
    3 ≤ p.length ∧ ¬ (llcTypeOf (Spec.at_ p 0) (Spec.at_ p 1) (Spec.at_ p 2) ≠ "u" ∧ p.length < 4) := by
  rw [llcValid_eq] at h
  split at h
  · assumption
  · cases h

theorem llcType_getter (p : Bytes) (hv : llcValid p = .ok ()) :
    GOk p (do let t ← llcType p; pure (.s t)) := by
  rw [llcType_eq p (llcValid_ok p hv).1]
  exact ⟨_, rfl, trivial⟩

theorem llcPayload_getter (p : Bytes) (hv : llcValid p = .ok ()) : GOk p (llcPayload p) := by
  obtain ⟨h1, h2⟩ := llcValid_ok p hv
  unfold llcPayload
  rw [llcType_eq p h1]
  simp only [Outcome.bind_ok, Outcome.pure_eq, beq_iff_eq]
  split
  · exact ⟨_, rfl, by simp only [Val.inside]; omega⟩
  · rename_i hne
    have h4 : 4 ≤ p.length := by
      apply Decidable.byContradiction; intro hc; exact h2 ⟨hne, by omega⟩
    rw [if_pos h4]; exact ⟨_, rfl, by simp only [Val.inside]; omega⟩

theorem lldpGetTLV_cases (p : Bytes) (n : Nat) :
    (∃ e, lldpGetTLV p n = .err e) ∨ (∃ t l v, lldpGetTLV p n = .ok (t, l, v) ∧ v.inside p.length) := by
  unfold lldpGetTLV
  by_cases h : p.length ≤ n + 2
  · rw [if_pos h]; exact .inl ⟨_, rfl⟩
  · rw [if_neg h, byteN_at p n (by omega), byteN_at p (n + 1) (by omega)]
    simp only [Outcome.bind_ok, Outcome.pure_eq]
    split
    · exact .inr ⟨_, _, _, rfl, trivial⟩
    · split
      · rename_i hl
        rw [if_pos (by omega)]
        exact .inr ⟨_, _, _, rfl, by simp only [Val.inside]; omega⟩
      · exact .inl ⟨_, rfl⟩

theorem lldpValue_getter (p : Bytes) (n : Nat) : GOk p (lldpValue p n) := by
  unfold lldpValue
  rcases lldpGetTLV_cases p n with ⟨e, he⟩ | ⟨t, l, v, hv, hin⟩
  · rw [he]; exact ⟨_, rfl, trivial⟩
  · rw [hv]; exact ⟨_, rfl, hin⟩

theorem lldpPortID_getter (p : Bytes) : GOk p (lldpPortID p) := by
  unfold lldpPortID
  obtain ⟨v, hv, _⟩ := lldpValue_getter p 0
  rw [hv]
  exact lldpValue_getter p _

theorem hbhData_getter (p : Bytes) (hv : hbhValid p = .ok ()) : GOk p (hbhData p) := by
  obtain ⟨h1, h2⟩ := hbhValid_ok p hv
  unfold hbhData
  rw [hbhLen_eq p h1]
  simp only [Outcome.bind_ok, Outcome.pure_eq]
  rw [if_pos ⟨by omega, by omega⟩]
  exact ⟨_, rfl, by simp only [Val.inside]; omega⟩


theorem lenAtLeast_safe (p : Bytes) (n : Nat) (e : Err) : (lenAtLeast p n e).safe = true := by
  rw [lenAtLeast_eq]; split <;> rfl

theorem lenAtLeast_len (p : Bytes) (n : Nat) (e : Err) (h : lenAtLeast p n e = .ok ()) : n ≤ p.length := by
  rw [lenAtLeast_eq] at h
  split at h
  · assumption
  · cases h

theorem etherValid_safe (p : Bytes) : (etherValid p).safe = true := by rw [etherValid_eq]; split <;> rfl
theorem ip4Valid_safe (p : Bytes) : (ip4Valid p).safe = true := by rw [ip4Valid_eq]; split <;> rfl
theorem tcpValid_safe (p : Bytes) : (tcpValid p).safe = true := by rw [tcpValid_eq]; split <;> rfl
theorem ip6Valid_safe (p : Bytes) : (ip6Valid p).safe = true := by rw [ip6Valid_eq]; split <;> rfl
theorem llcValid_safe (p : Bytes) : (llcValid p).safe = true := by rw [llcValid_eq]; split <;> rfl

theorem ip6Valid_ok (p : Bytes) (h : ip6Valid p = .ok ()) : 40 ≤ p.length ∧ Spec.u16 p 4 + 40 = p.length := by
  rw [ip6Valid_eq] at h
  split at h
  · assumption
  · cases h

theorem mem_allViews (V : View) (hV : V ∈ allViews) :
    V = vEther ∨ V = vIP4 ∨ V = vUDP ∨ V = vTCP ∨ V = vIP6 ∨ V = vARP ∨ V = vICMP ∨ V = vICMPEcho ∨
    V = vICMP4Redirect ∨ V = vRS ∨ V = vRA ∨ V = vNA ∨ V = vNS ∨ V = vRedirect6 ∨ V = vDHCP4 ∨ V = vDNS ∨
    V = vLLC ∨ V = vSNAP ∨ V = vRRCP ∨ V = vIEEE1905 ∨ V = vPause ∨ V = vLLDP ∨ V = vHopByHop := by
  simpa only [allViews, List.mem_cons, List.not_mem_nil, or_false] using hV

theorem view_valid_safe (V : View) (hV : V ∈ allViews) (p : Bytes) : (V.valid p).safe = true := by
  rcases mem_allViews V hV with rfl | rfl | rfl | rfl | rfl | rfl | rfl | rfl | rfl | rfl | rfl | rfl | rfl |
    rfl | rfl | rfl | rfl | rfl | rfl | rfl | rfl | rfl | rfl
  · exact etherValid_safe p
  · exact ip4Valid_safe p
  · exact lenAtLeast_safe p 8 _
  · exact tcpValid_safe p
  · exact ip6Valid_safe p
  · exact arpValid_safe p
  · exact lenAtLeast_safe p 8 _
  · exact lenAtLeast_safe p 8 _
  · exact redirValid_safe p
  · exact rsValid_safe p
  · exact lenAtLeast_safe p 16 _
  · exact lenAtLeast_safe p 24 _
  · exact lenAtLeast_safe p 24 _
  · exact lenAtLeast_safe p 40 _
  · exact dhcpValid_safe p
  · exact lenAtLeast_safe p 12 _
  · exact llcValid_safe p
  · exact lenAtLeast_safe p 9 _
  · exact lenAtLeast_safe p 16 _
  · exact lenAtLeast_safe p 8 _
  · exact pauseValid_safe p
  · exact lenAtLeast_safe p 6 _
  · exact hbhValid_safe p

theorem view_valid_minLen (V : View) (hV : V ∈ allViews) (p : Bytes) (h : V.valid p = .ok ()) :
    V.minLen ≤ p.length := by
  rcases mem_allViews V hV with rfl | rfl | rfl | rfl | rfl | rfl | rfl | rfl | rfl | rfl | rfl | rfl | rfl |
    rfl | rfl | rfl | rfl | rfl | rfl | rfl | rfl | rfl | rfl
  · exact (etherValid_ok p h).1
  · exact (ip4Valid_ok p h).1
  · exact lenAtLeast_len p 8 _ h
  · exact (tcpValid_ok p h).1
  · exact (ip6Valid_ok p h).1
  · exact arpValid_len p h
  · exact lenAtLeast_len p 8 _ h
  · exact lenAtLeast_len p 8 _ h
  · exact (redirValid_ok p h).1
  · exact rsValid_len p h
  · exact lenAtLeast_len p 16 _ h
  · exact lenAtLeast_len p 24 _ h
  · exact lenAtLeast_len p 24 _ h
  · exact lenAtLeast_len p 40 _ h
  · exact dhcpValid_len p h
  · exact lenAtLeast_len p 12 _ h
  · exact (llcValid_ok p h).1
  · exact lenAtLeast_len p 9 _ h
  · exact lenAtLeast_len p 16 _ h
  · exact lenAtLeast_len p 8 _ h
  · exact pauseValid_len p h
  · exact lenAtLeast_len p 6 _ h
  · exact (hbhValid_ok p h).1

theorem view_fixed_safe (V : View) (hV : V ∈ allViews) (p : Bytes) (hv : V.valid p = .ok ()) :
    ∀ e ∈ V.fixed, ∃ v, e.2.eval p = .ok v ∧ v.inside p.length := by
  intro e he
  have hlen := view_valid_minLen V hV p hv
  have h0 := tablesOk_true
  unfold tablesOk at h0
  rw [List.all_eq_true] at h0
  have h1 := h0 V hV
  rw [List.all_eq_true] at h1
  have h2 := h1 e he
  simp only [Bool.and_eq_true, decide_eq_true_eq] at h2
  exact G.eval_ok e.2 p h2.1 (by omega)

theorem view_dyn_safe (V : View) (hV : V ∈ allViews) (p : Bytes) (hv : V.valid p = .ok ()) :
    ∀ e ∈ V.dyn, GOk p (e.2 p) := by
  intro e he
  rcases mem_allViews V hV with rfl | rfl | rfl | rfl | rfl | rfl | rfl | rfl | rfl | rfl | rfl | rfl | rfl |
    rfl | rfl | rfl | rfl | rfl | rfl | rfl | rfl | rfl | rfl
  · simp only [vEther, List.mem_cons, List.not_mem_nil, or_false] at he
    rcases he with rfl | rfl | rfl | rfl
    · exact etherHeaderLen_getter p hv
    · exact etherPayload_getter p hv
    · exact etherIP_getter 12 8 (by omega) (by omega) p hv
    · exact etherIP_getter 16 24 (by omega) (by omega) p hv
  · simp only [vIP4, List.mem_cons, List.not_mem_nil, or_false] at he
    subst he; exact ip4Payload_getter p hv
  · cases he
  · simp only [vTCP, List.mem_cons, List.not_mem_nil, or_false] at he
    subst he; exact tcpPayload_getter p hv
  · cases he
  · cases he
  · simp only [vICMP, List.mem_cons, List.not_mem_nil, or_false] at he
    subst he; exact icmpPayload_getter p
  · simp only [vICMPEcho, List.mem_cons, List.not_mem_nil, or_false] at he
    subst he; exact echoData_getter p
  · simp only [vICMP4Redirect, List.mem_cons, List.not_mem_nil, or_false] at he
    subst he; exact redirAddrs_getter p hv
  · simp only [vRS, List.mem_cons, List.not_mem_nil, or_false] at he
    subst he; exact optLLA_getter 26 8 1 3 10 26 (by omega) (by omega) (by omega) p
  · cases he
  · simp only [vNA, List.mem_cons, List.not_mem_nil, or_false] at he
    subst he; exact optLLA_getter 32 24 2 1 26 32 (by omega) (by omega) (by omega) p
  · simp only [vNS, List.mem_cons, List.not_mem_nil, or_false] at he
    subst he; exact optLLA_getter 32 24 1 1 26 32 (by omega) (by omega) (by omega) p
  · simp only [vRedirect6, List.mem_cons, List.not_mem_nil, or_false] at he
    subst he; exact optLLA_getter 48 40 2 1 42 48 (by omega) (by omega) (by omega) p
  · have hl := dhcpValid_len p hv
    simp only [vDHCP4, List.mem_cons, List.not_mem_nil, or_false] at he
    rcases he with rfl | rfl | rfl
    · exact trimNullSpan_getter 44 108 (by omega) p (by omega)
    · exact trimNullSpan_getter 108 236 (by omega) p (by omega)
    · exact dhcpOptions_getter p
  · cases he
  · simp only [vLLC, List.mem_cons, List.not_mem_nil, or_false] at he
    rcases he with rfl | rfl
    · exact llcType_getter p hv
    · exact llcPayload_getter p hv
  · cases he
  · cases he
  · cases he
  · cases he
  · simp only [vLLDP, List.mem_cons, List.not_mem_nil, or_false] at he
    rcases he with rfl | rfl
    · exact lldpValue_getter p 0
    · exact lldpPortID_getter p
  · simp only [vHopByHop, List.mem_cons, List.not_mem_nil, or_false] at he
    subst he; exact hbhData_getter p hv


theorem shl_or_byte (a b : Nat) (hb : b < 256) : a <<< 8 ||| b = a * 256 + b := by
  rw [← Nat.shiftLeft_add_eq_or_of_lt (i := 8) hb, Nat.shiftLeft_eq]

theorem NE_byte_eval (p : Bytes) (k : Nat) (h : k < p.length) : (NE.byte k).eval p = .ok (Spec.at_ p k) := by
  show (do let v ← idx p k; pure v.toNat) = _
  exact byteN_at p k h

theorem be16_value (p : Bytes) (k : Nat) (h : k + 2 ≤ p.length) : (NE.be16 k).eval p = .ok (Spec.u16 p k) := by
  unfold NE.be16
  simp only [NE.eval]
  have h0 := NE_byte_eval p k (by omega)
  have h1 := NE_byte_eval p (k+1) (by omega)
  simp only [NE.eval] at h0 h1
  rw [h0, h1]
  simp only [Outcome.bind_ok, Outcome.pure_eq]
  rw [shl_or_byte _ _ (at_lt p (k+1))]; rfl


theorem be32_bits (a b c d : Nat) (hb : b < 256) (hc : c < 256) (hd : d < 256) :
    a <<< 24 ||| b <<< 16 ||| c <<< 8 ||| d = ((a * 256 + b) * 256 + c) * 256 + d := by
  rw [← shl_or_byte a b hb, ← shl_or_byte _ c hc, ← shl_or_byte _ d hd]
  simp only [Nat.shiftLeft_or_distrib, ← Nat.shiftLeft_add]

theorem be32_value (p : Bytes) (k : Nat) (h : k + 4 ≤ p.length) :
    (NE.be32 k).eval p = .ok (((Spec.at_ p k * 256 + Spec.at_ p (k+1)) * 256 + Spec.at_ p (k+2)) * 256 + Spec.at_ p (k+3)) := by
  unfold NE.be32
  have h0 := NE_byte_eval p k (by omega)
  have h1 := NE_byte_eval p (k+1) (by omega)
  have h2 := NE_byte_eval p (k+2) (by omega)
  have h3 := NE_byte_eval p (k+3) (by omega)
  simp only [NE.eval] at h0 h1 h2 h3 ⊢
  rw [h0, h1, h2, h3]
  simp only [Outcome.bind_ok, Outcome.pure_eq]
  rw [be32_bits _ _ _ _ (at_lt p (k+1)) (at_lt p (k+2)) (at_lt p (k+3))]

theorem and31 (n : Nat) : n &&& 31 = n % 32 := Nat.and_two_pow_sub_one_eq_mod n 5

theorem ip4_fragment (p : Bytes) (h : ip4Valid p = .ok ()) :
    (G.num (.or (.shl (.and (.byte 6) (.const 0x1f)) 8) (.byte 7))).eval p = .ok (.n (Spec.u16 p 6 % 8192)) := by
  have hl := (ip4Valid_ok p h).1
  have h0 := NE_byte_eval p 6 (by omega)
  have h1 := NE_byte_eval p 7 (by omega)
  simp only [G.eval, NE.eval] at h0 h1 ⊢
  rw [h0, h1]
  simp only [Outcome.bind_ok, Outcome.pure_eq]
  rw [shl_or_byte _ _ (at_lt p 7), and31]
  have := at_lt p 7
  unfold Spec.u16
  simp only [Nat.reduceAdd]
  congr 2
  omega


theorem span_set_inside (p : Bytes) (o l i : Nat) (x : UInt8) :
    ((p.set (o + i) x).drop o).take l = ((p.drop o).take l).set i x := by
  rw [← List.set_drop, List.take_set]

theorem span_set_outside (p : Bytes) (o l k : Nat) (x : UInt8) (hk : k < o ∨ o + l ≤ k) :
    ((p.set k x).drop o).take l = (p.drop o).take l := by
  rw [List.drop_set]
  split
  · rfl
  · rw [List.take_set, List.set_eq_of_length_le]
    rw [List.length_take]
    omega
end PV.Lemmas
