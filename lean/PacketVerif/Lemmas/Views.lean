import PacketVerif.Model.Parse
namespace PV.Lemmas
open PV PV.Model

/-! ### primitives succeed under their bounds -/

theorem idx_ok (p : Bytes) (k : Nat) (h : k < p.length) : ∃ v, idx p k = .ok v := by
  unfold idx
  rw [List.getElem?_eq_getElem h]
  exact ⟨_, rfl⟩

theorem idx_ok' (p : Bytes) (k : Nat) (h : k < p.length) : idx p k = .ok (p[k]'h) := by
  unfold idx
  rw [List.getElem?_eq_getElem h]

theorem byteN_ok (p : Bytes) (k : Nat) (h : k < p.length) : byteN p k = .ok (p[k]'h).toNat := by
  unfold byteN; rw [idx_ok' p k h]; rfl

theorem be16At_ok (p : Bytes) (k : Nat) (h : k + 1 < p.length) :
    be16At p k = .ok (be16 (p[k]'(by omega)) (p[k+1]'h)) := by
  unfold be16At; rw [idx_ok' p k (by omega), idx_ok' p (k+1) h]; rfl

theorem slice_ok (p : Bytes) (lo hi : Nat) (h1 : lo ≤ hi) (h2 : hi ≤ p.length) :
    slice p lo hi = .ok ((p.take hi).drop lo) := by
  unfold slice; simp [h1, h2]

theorem slice_len (p : Bytes) (lo hi : Nat) (h1 : lo ≤ hi) (h2 : hi ≤ p.length) :
    ((p.take hi).drop lo).length = hi - lo := by
  simp [List.length_drop, List.length_take]; omega

theorem sliceFrom_ok (p : Bytes) (lo : Nat) (h : lo ≤ p.length) : sliceFrom p lo = .ok (p.drop lo) := by
  unfold sliceFrom; simp [h]

/-! ### table-driven getters -/

theorem NE.eval_ok (e : NE) (p : Bytes) (h : e.need ≤ p.length) : ∃ v, e.eval p = .ok v := by
  induction e with
  | byte k =>
    simp only [NE.need] at h
    obtain ⟨v, hv⟩ := idx_ok p k (by omega)
    exact ⟨v.toNat, by simp [NE.eval, hv]⟩
  | const n => exact ⟨n, rfl⟩
  | and a b iha ihb | or a b iha ihb | add a b iha ihb | mul a b iha ihb =>
    simp only [NE.need] at h
    obtain ⟨x, hx⟩ := iha (by omega)
    obtain ⟨y, hy⟩ := ihb (by omega)
    simp only [NE.eval, hx, hy]
    exact ⟨_, rfl⟩
  | shl a n ih | shr a n ih =>
    simp only [NE.need] at h
    obtain ⟨x, hx⟩ := ih h
    simp only [NE.eval, hx]
    exact ⟨_, rfl⟩

theorem G.eval_ok (g : G) (p : Bytes) (hw : g.wf = true) (h : g.need ≤ p.length) :
    ∃ v, g.eval p = .ok v ∧ v.inside p.length := by
  cases g with
  | num e => obtain ⟨v, hv⟩ := NE.eval_ok e p h; exact ⟨.n v, by simp [G.eval, hv], trivial⟩
  | flag e => obtain ⟨v, hv⟩ := NE.eval_ok e p h; exact ⟨.b (v != 0), by simp [G.eval, hv], trivial⟩
  | eq e c => obtain ⟨v, hv⟩ := NE.eval_ok e p h; exact ⟨.b (v == c), by simp [G.eval, hv], trivial⟩
  | span lo hi =>
    simp only [G.wf, decide_eq_true_eq] at hw
    simp only [G.need] at h
    refine ⟨.span lo (hi - lo), by simp [G.eval, hw, h], ?_⟩
    simp only [Val.inside]; omega
  | tail lo =>
    simp only [G.need] at h
    refine ⟨.span lo (p.length - lo), by simp [G.eval, h], ?_⟩
    simp only [Val.inside]; omega
  | ip k len =>
    simp only [G.need] at h
    exact ⟨.ip ((p.take (k+len)).drop k), by simp [G.eval, slice_ok p k (k+len) (by omega) h], trivial⟩

/-- every regular getter of every view needs no more bytes than `IsValid` guarantees -/
def tablesOk : Bool :=
  allViews.all fun V => V.fixed.all fun e => e.2.wf && decide (e.2.need ≤ V.minLen)

theorem tablesOk_true : tablesOk = true := by decide

end PV.Lemmas
