/-
  Helper lemmas for C03 / C07, part 4 (entry point; imports the memory model lemmas and the frame equations):
  decoding of the literal frames of `EncodeFrames*.lean` by the reference decoder `Spec.Wire`, the checksum side
  conditions (via the C15 theorems) and the classification of the UDP/IPv4 frame by `Model.parse`.
-/
import PacketVerif.Lemmas.EncodeFrames
import PacketVerif.Lemmas.EncodeFrames6
import PacketVerif.Model.Parse
import PacketVerif.Spec.Wire
import PacketVerif.Lemmas.Views
import PacketVerif.Lemmas.Checksum
import PacketVerif.Props.C15
set_option linter.unusedSimpArgs false
namespace PV.Lemmas
open PV PV.Model PV.Spec.Wire
open PV.Spec hiding u16 at_ field

/-! ### bytes of 16-bit fields -/

theorem hi8_lo8_toNat (v : Nat) (h : v < 65536) : (hi8 v).toNat * 256 + (lo8 v).toNat = v :=
  be16_hi8_lo8 v h

theorem hi8_toNat (v : Nat) (h : v < 65536) : (hi8 v).toNat = v / 256 := by
  unfold hi8; rw [UInt8.toNat_ofNat']; omega

theorem lo8_toNat (v : Nat) : (lo8 v).toNat = v % 256 := by
  unfold lo8; rw [UInt8.toNat_ofNat']

theorem shl8_or_hi8_lo8 (v : Nat) (h : v < 65536) : (hi8 v).toNat <<< 8 ||| (lo8 v).toNat = v := by
  have hb := (lo8 v).toNat_lt
  rw [← Nat.shiftLeft_add_eq_or_of_lt (by omega), Nat.shiftLeft_eq]
  exact hi8_lo8_toNat v h

theorem len4 {l : Bytes} (h : l.length = 4) : ∃ a b c d, l = [a, b, c, d] := by
  cells h; exact ⟨_, _, _, _, rfl⟩

/-! ### structural decoding of the headers -/

theorem decEth_frame (dm sm : Bytes) (a b : UInt8) (rest : Bytes) (hd : dm.length = 6) (hs : sm.length = 6) :
    decEth (dm ++ (sm ++ (a :: b :: rest))) = some ⟨dm, sm, a.toNat * 256 + b.toNat, rest⟩ := by
  cells hd; cells hs
  simp [decEth, sub, u16, u8]

theorem decArp_frame (op : Nat) (sha spa tha tpa : Bytes) (h1 : sha.length = 6) (h2 : spa.length = 4)
    (h3 : tha.length = 6) (h4 : tpa.length = 4) (hop : op < 65536) :
    decArp (0 :: 1 :: 8 :: 0 :: 6 :: 4 :: hi8 op :: lo8 op :: (sha ++ (spa ++ (tha ++ tpa)))) =
      some ⟨op, sha, spa, tha, tpa⟩ := by
  cells h1; cells h2; cells h3; cells h4
  simp [decArp, sub, u16, u8, hi8_lo8_toNat op hop]


/-! ### IPv4 header -/

theorem ip4Hdr_length (tl : Nat) (ttl proto : UInt8) (sip dip : Bytes) (h3 : sip.length = 4) (h4 : dip.length = 4) :
    (ip4Hdr tl ttl proto sip dip).length = 20 := by
  simp [ip4Hdr, ip4HdrNoCk, h3, h4]

/-- the header checksum the encoders store makes the header verify (C15) -/
theorem ip4Hdr_verifies (tl : Nat) (ttl proto : UInt8) (sip dip : Bytes) (h3 : sip.length = 4) (h4 : dip.length = 4) :
    verifies (ip4Hdr tl ttl proto sip dip) := by
  have ha : (ip4HdrNoCk tl ttl proto).length = 10 := rfl
  have hv := verifies_insert (ip4HdrNoCk tl ttl proto) (sip ++ dip) 0 0 (ip4Cks tl ttl proto sip dip)
    (by rw [ha])
    (by
      unfold ip4Cks
      rw [PV.Props.C15.checksum_eq_rfc1071 _ (by simp [ha, h3, h4]), rfc1071, sumBE_append_even _ _ (by rw [ha])])
  rw [putChecksum_append] at hv
  simpa [ip4Hdr, List.append_assoc] using hv

theorem decIp4_hdr (tl : Nat) (ttl proto : UInt8) (sip dip rest : Bytes) (h3 : sip.length = 4) (h4 : dip.length = 4)
    (htl : tl = 20 + rest.length) (hsmall : tl < 65536) :
    decIp4 (ip4Hdr tl ttl proto sip dip ++ rest) = some ⟨sip, dip, proto.toNat, ttl.toNat, rest⟩ := by
  have hl := ip4Hdr_length tl ttl proto sip dip h3 h4
  have hv := ip4Hdr_verifies tl ttl proto sip dip h3 h4
  have htake : (ip4Hdr tl ttl proto sip dip ++ rest).take 20 = ip4Hdr tl ttl proto sip dip := List.take_left' hl
  have hdrop : (ip4Hdr tl ttl proto sip dip ++ rest).drop 20 = rest := List.drop_left' hl
  have hlen : (ip4Hdr tl ttl proto sip dip ++ rest).length = tl := by rw [List.length_append, hl, htl]
  unfold verifies at hv
  rw [← htake] at hv
  have h0 : u8 (ip4Hdr tl ttl proto sip dip ++ rest) 0 = 69 := by simp [ip4Hdr, ip4HdrNoCk, u8]
  have h2 : u16 (ip4Hdr tl ttl proto sip dip ++ rest) 2 = tl := by
    simp [ip4Hdr, ip4HdrNoCk, u8, u16, hi8_lo8_toNat tl hsmall]
  have h6 : u16 (ip4Hdr tl ttl proto sip dip ++ rest) 6 = 0 := by simp [ip4Hdr, ip4HdrNoCk, u8, u16]
  have h8 : u8 (ip4Hdr tl ttl proto sip dip ++ rest) 8 = ttl.toNat := by simp [ip4Hdr, ip4HdrNoCk, u8]
  have h9 : u8 (ip4Hdr tl ttl proto sip dip ++ rest) 9 = proto.toNat := by simp [ip4Hdr, ip4HdrNoCk, u8]
  have h12 : sub (ip4Hdr tl ttl proto sip dip ++ rest) 12 4 = sip := by
    obtain ⟨s0, s1, s2, s3, rfl⟩ := len4 h3
    simp [ip4Hdr, ip4HdrNoCk, sub]
  have h16 : sub (ip4Hdr tl ttl proto sip dip ++ rest) 16 4 = dip := by
    obtain ⟨s0, s1, s2, s3, rfl⟩ := len4 h3
    obtain ⟨d0, d1, d2, d3, rfl⟩ := len4 h4
    simp [ip4Hdr, ip4HdrNoCk, sub]
  generalize ip4Hdr tl ttl proto sip dip ++ rest = p at *
  unfold decIp4
  simp only [h0, h2, h6, h8, h9, hlen, h12, h16, hdrop]
  have e20 : 69 % 16 * 4 = 20 := rfl
  rw [e20, if_neg (by omega), if_neg (by rw [hv]; simp), if_neg (by decide)]


/-! ### UDP header -/

theorem decUdp_hdr (sp dp len : Nat) (c0 c1 : UInt8) (pl : Bytes) (hsp : sp < 65536) (hdp : dp < 65536)
    (hlen : len = 8 + pl.length) (hsmall : len < 65536) :
    decUdp (udpHdr sp dp len c0 c1 ++ pl) = some ⟨sp, dp, c0.toNat * 256 + c1.toNat, pl⟩ := by
  have hl : (udpHdr sp dp len c0 c1 ++ pl).length = len := by simp [udpHdr, hlen]; omega
  unfold decUdp
  have h4 : u16 (udpHdr sp dp len c0 c1 ++ pl) 4 = len := by simp [udpHdr, u16, u8, hi8_lo8_toNat len hsmall]
  rw [if_neg (by rw [h4, hl]; omega)]
  simp [udpHdr, u16, u8, hi8_lo8_toNat sp hsp, hi8_lo8_toNat dp hdp]

/-! ### IPv6 header -/

theorem ip6Hdr_length (plen : Nat) (nh hop : UInt8) (sip dip : Bytes) (h3 : sip.length = 16) (h4 : dip.length = 16) :
    (ip6Hdr plen nh hop sip dip).length = 40 := by
  simp [ip6Hdr, h3, h4]

theorem decIp6_hdr (plen : Nat) (nh hop : UInt8) (sip dip rest : Bytes) (h3 : sip.length = 16) (h4 : dip.length = 16)
    (hpl : plen = rest.length) (hsmall : plen < 65536) :
    decIp6 (ip6Hdr plen nh hop sip dip ++ rest) = some ⟨sip, dip, nh.toNat, hop.toNat, rest⟩ := by
  have hl := ip6Hdr_length plen nh hop sip dip h3 h4
  have hdrop : (ip6Hdr plen nh hop sip dip ++ rest).drop 40 = rest := List.drop_left' hl
  have hlen : (ip6Hdr plen nh hop sip dip ++ rest).length = plen + 40 := by rw [List.length_append, hl, hpl]; omega
  have h0 : u8 (ip6Hdr plen nh hop sip dip ++ rest) 0 = 96 := by simp [ip6Hdr, u8]
  have h4' : u16 (ip6Hdr plen nh hop sip dip ++ rest) 4 = plen := by
    simp [ip6Hdr, u8, u16, hi8_lo8_toNat plen hsmall]
  have h6 : u8 (ip6Hdr plen nh hop sip dip ++ rest) 6 = nh.toNat := by simp [ip6Hdr, u8]
  have h7 : u8 (ip6Hdr plen nh hop sip dip ++ rest) 7 = hop.toNat := by simp [ip6Hdr, u8]
  have h8 : sub (ip6Hdr plen nh hop sip dip ++ rest) 8 16 = sip := by
    simp [ip6Hdr, sub, List.take_append, h3]
  have h24 : sub (ip6Hdr plen nh hop sip dip ++ rest) 24 16 = dip := by
    simp [ip6Hdr, sub, List.take_append, List.drop_append, h3, h4]
  generalize ip6Hdr plen nh hop sip dip ++ rest = p at *
  unfold decIp6
  simp only [h0, h4', h6, h7, hlen, h8, h24, hdrop]
  rw [if_neg (by omega)]


/-! ### the reference decoder accepts the literal frames -/

theorem wfARP_frame (hostMAC dst : Bytes) (op : Nat) (sha spa tha tpa : Bytes)
    (h1 : hostMAC.length = 6) (h2 : dst.length = 6) (h3 : sha.length = 6) (h4 : spa.length = 4)
    (h5 : tha.length = 6) (h6 : tpa.length = 4) (hop : op < 65536) :
    wfARP hostMAC dst op sha spa tha tpa
      (dst ++ hostMAC ++ [8, 6] ++ [0, 1, 8, 0, 6, 4, hi8 op, lo8 op] ++ sha ++ spa ++ tha ++ tpa) = none := by
  simp only [List.append_assoc, List.cons_append, List.nil_append]
  unfold wfARP
  rw [decEth_frame dst hostMAC 8 6 _ h2 h1]
  simp only [decArp_frame op sha spa tha tpa h3 h4 h5 h6 hop]
  simp

theorem wfUDP4_frame (sm dm sip dip : Bytes) (ttl : UInt8) (sp dp : Nat) (pl : Bytes)
    (h1 : sm.length = 6) (h2 : dm.length = 6) (h3 : sip.length = 4) (h4 : dip.length = 4)
    (hsp : sp < 65536) (hdp : dp < 65536) (hsmall : 28 + pl.length < 65536) :
    wfUDP4 sm dm sip dip sp dp pl
      (dm ++ sm ++ [8, 0] ++ ip4Hdr (28 + pl.length) ttl 17 sip dip ++ udpHdr sp dp (8 + pl.length) 0 0 ++ pl) = none := by
  simp only [List.append_assoc, List.cons_append, List.nil_append]
  unfold wfUDP4
  rw [decEth_frame dm sm 8 0 _ h2 h1]
  simp only [decIp4_hdr (28 + pl.length) ttl 17 sip dip (udpHdr sp dp (8 + pl.length) 0 0 ++ pl) h3 h4
      (by simp [udpHdr]; omega) hsmall,
    decUdp_hdr sp dp (8 + pl.length) 0 0 pl hsp hdp rfl (by omega)]
  simp


theorem zero16_putChecksum (t code x y : UInt8) (rest : Bytes) (cs : UInt16) :
    zero16 (putChecksum (t :: code :: x :: y :: rest) 2 cs) 2 = zero16 (t :: code :: x :: y :: rest) 2 := by
  simp [putChecksum, zero16]

theorem wfICMP4_frame (hm dm sip dip : Bytes) (t code : UInt8) (rest : Bytes)
    (h1 : hm.length = 6) (h2 : dm.length = 6) (h3 : sip.length = 4) (h4 : dip.length = 4)
    (hlen : 4 ≤ rest.length) (hsmall : 24 + rest.length < 65536) :
    wfICMP4 hm dm sip dip (t :: code :: 0 :: 0 :: rest)
      (dm ++ hm ++ [8, 0] ++ ip4Hdr (20 + (t :: code :: 0 :: 0 :: rest).length) 50 1 sip dip ++
        putChecksum (t :: code :: 0 :: 0 :: rest) 2 (checksum (t :: code :: 0 :: 0 :: rest))) = none := by
  have hv := PV.Props.C15.icmp4_verifies t code rest (by omega)
  unfold verifies at hv
  have hpl := putChecksum_length (t :: code :: 0 :: 0 :: rest) 2 (checksum (t :: code :: 0 :: 0 :: rest))
  have hz := zero16_putChecksum t code 0 0 rest (checksum (t :: code :: 0 :: 0 :: rest))
  generalize putChecksum (t :: code :: 0 :: 0 :: rest) 2 (checksum (t :: code :: 0 :: 0 :: rest)) = b at *
  simp only [List.append_assoc, List.cons_append, List.nil_append]
  unfold wfICMP4
  rw [decEth_frame dm hm 8 0 _ h2 h1]
  simp only [decIp4_hdr _ 50 1 sip dip b h3 h4 (by rw [hpl]) (by simp; omega)]
  simp only [List.length_cons] at hpl
  simp [icmp4Ok, hv, hz, hpl]
  omega


theorem u8_toNat_eq (d : UInt8) (n : Nat) (hn : n < 256) : (d.toNat = n) ↔ d = UInt8.ofNat n := by
  constructor
  · intro h; apply UInt8.toNat_inj.1; rw [h, UInt8.toNat_ofNat']; omega
  · intro h; rw [h, UInt8.toNat_ofNat']; omega

theorem linkLocal6_isLLU (dip : Bytes) (h : dip.length = 16) (hl : linkLocal6 dip = true) : isLLUorLLM dip = true := by
  cells h
  rename_i d0 d1 _ _ _ _ _ _ _ _ _ _ _ _ _ _
  simp only [linkLocal6, u8, List.getElem?_cons_zero, List.getElem?_cons_succ, Option.getD_some, Bool.or_eq_true,
    Bool.and_eq_true, beq_iff_eq] at hl
  have h0 : d0 ≠ 0 := by
    intro h0; subst h0
    rcases hl with ⟨h, _⟩ | ⟨h, _⟩ <;> simp at h
  simp [isLLUorLLM, h0]
  rcases hl with ⟨ha, hb⟩ | ⟨ha, hb⟩
  · exact Or.inl ⟨(u8_toNat_eq d0 254 (by decide)).1 ha, hb⟩
  · exact Or.inr ⟨(u8_toNat_eq d0 255 (by decide)).1 ha, hb⟩


theorem pseudo6_icmp (sip dip p : Bytes) : pseudo6 sip dip p.length 58 ++ p = icmp6Pseudo sip dip p := by
  simp [pseudo6, icmp6Pseudo]

theorem wfICMP6_frame (hm dm sip dip : Bytes) (t code : UInt8) (rest : Bytes)
    (h1 : hm.length = 6) (h2 : dm.length = 6) (h3 : sip.length = 16) (h4 : dip.length = 16)
    (hlen : 4 ≤ rest.length) (hsmall : 4 + rest.length < 65536)
    (hmc : u8 dip 0 = 0xff → dm = mcastMAC6 dip) :
    wfICMP6 hm dm sip dip (t :: code :: 0 :: 0 :: rest)
      (dm ++ hm ++ ([0x86, 0xdd] : Bytes) ++
        ip6Hdr (t :: code :: 0 :: 0 :: rest).length 58 (if isLLUorLLM dip then 255 else 64) sip dip ++
        putChecksum (t :: code :: 0 :: 0 :: rest) 2 (checksum (icmp6Pseudo sip dip (t :: code :: 0 :: 0 :: rest)))) =
      none := by
  have hv := PV.Props.C15.icmp6_verifies sip dip h3 h4 t code rest (by omega)
  simp only at hv
  unfold verifies at hv
  rw [← pseudo6_icmp] at hv
  have hpl := putChecksum_length (t :: code :: 0 :: 0 :: rest) 2
    (checksum (icmp6Pseudo sip dip (t :: code :: 0 :: 0 :: rest)))
  have hz := zero16_putChecksum t code 0 0 rest (checksum (icmp6Pseudo sip dip (t :: code :: 0 :: 0 :: rest)))
  generalize putChecksum (t :: code :: 0 :: 0 :: rest) 2
    (checksum (icmp6Pseudo sip dip (t :: code :: 0 :: 0 :: rest))) = b at *
  simp only [List.append_assoc, List.cons_append, List.nil_append]
  unfold wfICMP6
  rw [decEth_frame dm hm 0x86 0xdd _ h2 h1]
  simp only [decIp6_hdr _ 58 _ sip dip b h3 h4 hpl.symm (by simp; omega)]
  have hhop : linkLocal6 dip = true → (if isLLUorLLM dip = true then (255 : UInt8) else 64).toNat = 255 := by
    intro hl; rw [if_pos (linkLocal6_isLLU dip h4 hl)]; rfl
  simp only [List.length_cons] at hpl
  simp [icmp6Ok, hz, hpl]
  rw [← hpl, if_neg (by intro ⟨ha, hb⟩; exact hb (hmc ha)),
    if_neg (by intro h; rcases h with h | h; omega; exact h hv),
    if_neg (by intro ⟨_, hl, hn⟩; exact hn (hhop hl))]


/-! ### UDP over IPv6: mandatory checksum, 0 transmitted as 0xffff -/

/-- when the computed checksum is 0 the block already sums to all ones, and inserting 0xffff keeps it so -/
theorem verifies_insert_ffff (a c : Bytes) (ha : a.length % 2 = 0) (hlen : (a ++ 0 :: 0 :: c).length ≤ 131072)
    (h0 : (checksum (a ++ 0 :: 0 :: c)).toNat = 0) : verifies (a ++ 0xff :: 0xff :: c) := by
  rw [PV.Props.C15.checksum_eq_rfc1071 _ hlen, rfc1071, sumBE_append_even _ _ ha] at h0
  unfold verifies
  rw [sumBE_append_even _ _ ha]
  simp only [sumBE] at h0 ⊢
  rw [fold16_eq_canon] at h0 ⊢
  have e0 : (0 : UInt8).toNat = 0 := rfl
  have e255 : (0xff : UInt8).toNat = 255 := rfl
  rw [e0] at h0
  rw [e255]
  have hc := canon_le (sumBE a + (0 * 256 + 0 + sumBE c))
  have h1 : canon (sumBE a + (0 * 256 + 0 + sumBE c)) = 65535 := by
    unfold swap16 at h0; omega
  have e : sumBE a + (255 * 256 + 255 + sumBE c) = sumBE a + (0 * 256 + 0 + sumBE c) + 65535 := by omega
  rw [e]
  generalize sumBE a + (0 * 256 + 0 + sumBE c) = S at *
  unfold canon at h1 ⊢
  split at h1
  · omega
  · rw [if_neg (by omega)]; omega

def udp6A (sip dip : Bytes) (sp dp n : Nat) : Bytes :=
  pseudo6 sip dip (8 + n) 17 ++ [hi8 sp, lo8 sp, hi8 dp, lo8 dp, hi8 (8 + n), lo8 (8 + n)]

theorem udp6Psh_eq (sip dip : Bytes) (sp dp : Nat) (pl : Bytes) :
    udp6Psh sip dip sp dp pl = udp6A sip dip sp dp pl.length ++ 0 :: 0 :: pl := by
  simp [udp6Psh, udp6A, pseudo6, udpHdr]

theorem udp6_wire_eq (sip dip : Bytes) (sp dp : Nat) (c0 c1 : UInt8) (pl : Bytes) :
    pseudo6 sip dip (udpHdr sp dp (8 + pl.length) c0 c1 ++ pl).length 17 ++ (udpHdr sp dp (8 + pl.length) c0 c1 ++ pl) =
      udp6A sip dip sp dp pl.length ++ c0 :: c1 :: pl := by
  have : (udpHdr sp dp (8 + pl.length) c0 c1 ++ pl).length = 8 + pl.length := by simp [udpHdr]; omega
  rw [this]
  simp [udp6A, pseudo6, udpHdr]

theorem udp6Cks_ok (sip dip : Bytes) (sp dp : Nat) (pl : Bytes) (h3 : sip.length = 16) (h4 : dip.length = 16)
    (hsmall : 8 + pl.length < 65536) :
    udp6Cks sip dip sp dp pl ≠ 0 ∧
    verifies (udp6A sip dip sp dp pl.length ++ (udp6Cks sip dip sp dp pl).toUInt8 ::
      (udp6Cks sip dip sp dp pl >>> 8).toUInt8 :: pl) := by
  have hA : (udp6A sip dip sp dp pl.length).length = 46 := by simp [udp6A, pseudo6, h3, h4]
  have hlen : (udp6A sip dip sp dp pl.length ++ 0 :: 0 :: pl).length ≤ 131072 := by
    simp [hA]; omega
  unfold udp6Cks
  rw [udp6Psh_eq]
  generalize udp6A sip dip sp dp pl.length = A at *
  by_cases h0 : checksum (A ++ 0 :: 0 :: pl) = 0
  · rw [h0]
    refine ⟨by decide, ?_⟩
    have := verifies_insert_ffff A pl (by omega) hlen (by rw [h0]; rfl)
    have e1 : (0xffff : UInt16).toUInt8 = 0xff := by decide
    have e2 : ((0xffff : UInt16) >>> 8).toUInt8 = 0xff := by decide
    simp only [beq_self_eq_true, if_true]
    rw [e1, e2]; exact this
  · have hb : (checksum (A ++ 0 :: 0 :: pl) == 0) = false := by simpa using h0
    rw [hb]
    refine ⟨by simpa using h0, ?_⟩
    have := PV.Props.C15.zeroed_field_verifies A pl (by omega) hlen
    rw [putChecksum_append] at this
    simpa using this


theorem wfUDP6_frame (sm dm sip dip : Bytes) (hop : UInt8) (sp dp : Nat) (pl : Bytes)
    (h1 : sm.length = 6) (h2 : dm.length = 6) (h3 : sip.length = 16) (h4 : dip.length = 16)
    (hsp : sp < 65536) (hdp : dp < 65536) (hsmall : 8 + pl.length < 65536)
    (hmc : u8 dip 0 = 0xff → dm = mcastMAC6 dip) :
    wfUDP6 sm dm sip dip sp dp pl
      (dm ++ sm ++ ([0x86, 0xdd] : Bytes) ++ ip6Hdr (8 + pl.length) 17 hop sip dip ++
        udpHdr sp dp (8 + pl.length) (udp6Cks sip dip sp dp pl).toUInt8 (udp6Cks sip dip sp dp pl >>> 8).toUInt8 ++
        pl) = none := by
  obtain ⟨hnz, hv⟩ := udp6Cks_ok sip dip sp dp pl h3 h4 hsmall
  unfold verifies at hv
  rw [← udp6_wire_eq] at hv
  have hu6 : u16 (udpHdr sp dp (8 + pl.length) (udp6Cks sip dip sp dp pl).toUInt8
      (udp6Cks sip dip sp dp pl >>> 8).toUInt8 ++ pl) 6 ≠ 0 := by
    have hn : (udp6Cks sip dip sp dp pl).toNat ≠ 0 := fun h => hnz (UInt16.toNat_inj.1 (by rw [h]; rfl))
    simp only [udpHdr, u16, u8, List.cons_append, List.getElem?_cons_succ, List.getElem?_cons_zero, Option.getD_some]
    rw [cs_hi, cs_lo]
    omega
  generalize udp6Cks sip dip sp dp pl = cs at *
  simp only [List.append_assoc, List.cons_append, List.nil_append]
  unfold wfUDP6
  rw [decEth_frame dm sm 0x86 0xdd _ h2 h1]
  simp only [decIp6_hdr (8 + pl.length) 17 hop sip dip (udpHdr sp dp (8 + pl.length) cs.toUInt8 (cs >>> 8).toUInt8 ++ pl)
      h3 h4 (by simp [udpHdr]; omega) hsmall,
    decUdp_hdr sp dp (8 + pl.length) cs.toUInt8 (cs >>> 8).toUInt8 pl hsp hdp rfl hsmall]
  simp only [List.length_append] at hv
  simp [udp6CksumOk, hv, hu6]
  exact hmc


/-! ### the library's own views / parser on the literal frames -/

theorem arpValid_frame (hostMAC dst : Bytes) (op : Nat) (sha spa tha tpa : Bytes)
    (h1 : hostMAC.length = 6) (h2 : dst.length = 6) (h3 : sha.length = 6) (h4 : spa.length = 4)
    (h5 : tha.length = 6) (h6 : tpa.length = 4) :
    arpValid ((dst ++ hostMAC ++ [8, 6] ++ [0, 1, 8, 0, 6, 4, hi8 op, lo8 op] ++ sha ++ spa ++ tha ++ tpa).drop 14) =
      .ok () := by
  have hd : (dst ++ hostMAC ++ [8, 6] ++ [0, 1, 8, 0, 6, 4, hi8 op, lo8 op] ++ sha ++ spa ++ tha ++ tpa).drop 14 =
      0 :: 1 :: 8 :: 0 :: 6 :: 4 :: hi8 op :: lo8 op :: (sha ++ (spa ++ (tha ++ tpa))) := by
    have : (dst ++ hostMAC ++ [8, 6]).length = 14 := by simp [h1, h2]
    simp only [List.append_assoc] at this ⊢
    rw [← List.append_assoc dst, ← List.append_assoc (dst ++ hostMAC), List.drop_left' (by simpa using this)]
    rfl
  rw [hd]
  unfold arpValid
  rw [if_neg (by simp [h3, h4, h5, h6])]
  simp [be16At, byteN, idx, be16]


theorem parse_udp4_frame (cfg : Cfg) (sm dm sip dip : Bytes) (ttl : UInt8) (sp dp : Nat) (pl : Bytes)
    (h1 : sm.length = 6) (h2 : dm.length = 6) (h3 : sip.length = 4) (h4 : dip.length = 4)
    (hsp : sp < 65536) (hdp : dp < 65536) (hsmall : 28 + pl.length < 65536)
    (hu : ∀ b, sm[0]? = some b → b &&& 0x01 = 0) :
    ∃ r, parse cfg (dm ++ sm ++ [8, 0] ++ ip4Hdr (28 + pl.length) ttl 17 sip dip ++
        udpHdr sp dp (8 + pl.length) 0 0 ++ pl) = .ok r ∧ r.err = none ∧
      r.frame.pid = (udpClass sp dp).getD Pid.udp ∧ r.frame.srcPort = sp ∧ r.frame.dstPort = dp ∧
      r.frame.srcIP = sip ∧ r.frame.dstIP = dip ∧ r.frame.offIP4 = 14 ∧ r.frame.offUDP = 34 := by
  generalize hc0 : (ip4Cks (28 + pl.length) ttl 17 sip dip).toUInt8 = c0
  generalize hc1 : (ip4Cks (28 + pl.length) ttl 17 sip dip >>> 8).toUInt8 = c1
  obtain ⟨s0, s1, s2, s3, rfl⟩ := len4 h3
  obtain ⟨d0, d1, d2, d3, rfl⟩ := len4 h4
  cells h1; cells h2
  rename_i m0 _ _ _ _ _ _ _ _ _ _ _
  have hu0 := hu m0 rfl
  simp only [ip4Hdr, ip4HdrNoCk, udpHdr, hc0, hc1, List.append_assoc, List.cons_append, List.nil_append]
  simp [parse, etherValid, etherHeaderLen, etherHeaderLenOf, be16At, idx, be16, slice, sliceFrom, hu0,
    ip4Valid, ip4IHL, ip4TotalLen, byteN, Model.guard, parseProto, lenAtLeast, hi8_lo8_toNat _ hsmall,
    hi8_lo8_toNat _ hsp, hi8_lo8_toNat _ hdp]
  rw [if_pos (by omega)]
  cases hcl : udpClass sp dp with
  | none => exact ⟨_, rfl, rfl, rfl, rfl, rfl, rfl, rfl, rfl, rfl⟩
  | some pid => exact ⟨_, rfl, rfl, rfl, rfl, rfl, rfl, rfl, rfl, rfl⟩

end PV.Lemmas
