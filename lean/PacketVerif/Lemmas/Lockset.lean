import PacketVerif.Model.Lockset
namespace PV.Lemmas.Lockset
open PV.Model.Lockset
set_option linter.unusedSectionVars false

section
variable {L X : Type} [DecidableEq L]

theorem mem_release {l : L} {h : List (L × Mode)} {p : L × Mode} (hp : p ∈ release l h) : p ∈ h := by
  induction h with
  | nil => simp [release] at hp
  | cons a as ih =>
    obtain ⟨l', m⟩ := a
    simp only [release] at hp
    split at hp
    · exact List.mem_cons_of_mem _ hp
    · rcases List.mem_cons.mp hp with rfl | hp
      · exact List.mem_cons_self ..
      · exact List.mem_cons_of_mem _ (ih hp)

/-- reading thread `j` of a state in which thread `i` was replaced -/
theorem get_set {s : State L X} {i j : Nat} {v t : Thread L X} (h : (s.set i v)[j]? = some t) :
    (i = j ∧ t = v) ∨ (i ≠ j ∧ s[j]? = some t) := by
  rw [List.getElem?_set] at h
  by_cases hij : i = j
  · left
    rw [if_pos hij] at h
    split at h
    · exact ⟨hij, (Option.some.inj h).symm⟩
    · cases h
  · right
    rw [if_neg hij] at h
    exact ⟨hij, h⟩

/-- a step that changes the held set of thread `i` from `t.held` to `h'` keeps mutual exclusion if every
    new holding is compatible with what the other threads hold -/
theorem consistent_set {s : State L X} {i : Nat} {t : Thread L X} {h' : List (L × Mode)} {p : List (Op L X)}
    (hc : Consistent s) (hi : s[i]? = some t)
    (hnew : ∀ q ∈ h', q ∈ t.held ∨
      (∀ (j : Nat) (tj : Thread L X), j ≠ i → s[j]? = some tj →
        (q.2 = Mode.excl → ∀ m, (q.1, m) ∉ tj.held) ∧ (q.1, Mode.excl) ∉ tj.held)) :
    Consistent (s.set i ⟨h', p⟩) := by
  intro a b ta tb hab ha hb l hl m hm
  rcases get_set ha with ⟨rfl, rfl⟩ | ⟨hia, ha'⟩
  · -- the stepping thread holds l exclusively
    rcases get_set hb with ⟨hib, _⟩ | ⟨_, hb'⟩
    · exact hab hib
    · rcases hnew _ hl with hold | hfresh
      · exact hc _ _ _ _ hab hi hb' l hold m hm
      · exact (hfresh b tb (Ne.symm hab) hb').1 rfl m hm
  · rcases get_set hb with ⟨rfl, rfl⟩ | ⟨_, hb'⟩
    · -- the stepping thread is the other one
      rcases hnew _ hm with hold | hfresh
      · exact hc _ _ _ _ hab ha' hi l hl m hold
      · exact (hfresh a ta hab ha').2 hl
    · exact hc _ _ _ _ hab ha' hb' l hl m hm

theorem consistent_step {s s' : State L X} (h : Step s s') (hc : Consistent s) : Consistent s' := by
  cases h with
  | acq i t l m rest hi hp hf =>
    apply consistent_set hc hi
    intro q hq
    rcases List.mem_cons.mp hq with rfl | hq
    · right
      intro j tj _ hj
      have hmem : tj ∈ s := List.mem_of_getElem? hj
      cases m with
      | excl =>
        have hf' : ∀ t ∈ s, ∀ m, (l, m) ∉ t.held := hf
        exact ⟨fun _ m => hf' tj hmem m, hf' tj hmem Mode.excl⟩
      | shared =>
        have hf' : ∀ t ∈ s, (l, Mode.excl) ∉ t.held := hf
        exact ⟨fun h => (by cases h), hf' tj hmem⟩
    · exact Or.inl hq
  | rel i t l rest hi hp =>
    apply consistent_set hc hi
    intro q hq
    exact Or.inl (mem_release hq)
  | read i t x rest hi hp =>
    apply consistent_set hc hi
    intro q hq
    exact Or.inl hq
  | write i t x rest hi hp =>
    apply consistent_set hc hi
    intro q hq
    exact Or.inl hq

theorem follows_set {P : Policy L X} {s : State L X} {i : Nat} {v : Thread L X}
    (ha : AllFollow P s) (hv : Follows P i v.held v.prog) : AllFollow P (s.set i v) := by
  intro j t hj
  rcases get_set hj with ⟨rfl, rfl⟩ | ⟨_, hj'⟩
  · exact hv
  · exact ha j t hj'

theorem follows_step {P : Policy L X} {s s' : State L X} (h : Step s s') (ha : AllFollow P s) :
    AllFollow P s' := by
  cases h with
  | acq i t l m rest hi hp hf =>
    apply follows_set ha
    have := ha i t hi
    rw [hp] at this
    exact this
  | rel i t l rest hi hp =>
    apply follows_set ha
    have := ha i t hi
    rw [hp] at this
    exact this
  | read i t x rest hi hp =>
    apply follows_set ha
    have := ha i t hi
    rw [hp] at this
    exact this.2
  | write i t x rest hi hp =>
    apply follows_set ha
    have := ha i t hi
    rw [hp] at this
    exact this.2

theorem invariants_reach {P : Policy L X} {s s' : State L X} (h : Reach s s')
    (hc : Consistent s) (ha : AllFollow P s) : Consistent s' ∧ AllFollow P s' := by
  induction h with
  | refl => exact ⟨hc, ha⟩
  | step _ hs ih => exact ⟨consistent_step hs ih.1, follows_step hs ih.2⟩

/-- what the discipline says about a thread that is about to access `x` -/
theorem allowed_of_next {P : Policy L X} {i : Nat} {t : Thread L X} {x : X} {w : Bool}
    (hf : Follows P i t.held t.prog) (hn : nextAccess t x w) : P i x t.held w := by
  cases w with
  | true =>
    obtain ⟨rest, hp⟩ := hn
    rw [hp] at hf
    exact hf.1
  | false =>
    obtain ⟨rest, hp⟩ := hn
    rw [hp] at hf
    exact hf.1

theorem consistent_init (progs : List (List (Op L X))) : Consistent (init progs) := by
  intro i j ti tj _ hi _ l hl
  have : ti ∈ init progs := List.mem_of_getElem? hi
  obtain ⟨p, _, rfl⟩ := List.mem_map.mp this
  cases hl

theorem holdsSome_iff {h : List (L × Mode)} {l : L} : holdsSome h l ↔ ∃ m, (l, m) ∈ h := by
  constructor
  · rintro (h | h)
    · exact ⟨_, h⟩
    · exact ⟨_, h⟩
  · rintro ⟨m, hm⟩
    cases m with
    | shared => exact Or.inl hm
    | excl => exact Or.inr hm

/-- the guard-table policy satisfies the pairwise lockset condition -/
theorem guardPolicy_compat (g : X → Guard L) : Compat (guardPolicy g) := by
  intro i j x h1 h2 w1 w2 hij p1 p2 hw
  unfold guardPolicy at p1 p2
  cases hg : g x with
  | lock l =>
    rw [hg] at p1 p2
    simp only at p1 p2
    cases w1 with
    | true =>
      cases w2 with
      | true => exact ⟨l, Or.inl ⟨by simpa using p1, Mode.excl, by simpa using p2⟩⟩
      | false => exact ⟨l, Or.inl ⟨by simpa using p1, holdsSome_iff.mp (by simpa using p2)⟩⟩
    | false =>
      cases w2 with
      | true => exact ⟨l, Or.inr ⟨by simpa using p2, holdsSome_iff.mp (by simpa using p1)⟩⟩
      | false => rcases hw with h | h <;> cases h
  | writeAllReadAny ls =>
    rw [hg] at p1 p2
    simp only at p1 p2
    cases w1 with
    | true =>
      have p1' : ls ≠ [] ∧ ∀ l ∈ ls, (l, Mode.excl) ∈ h1 := by simpa using p1
      cases w2 with
      | true =>
        have p2' : ls ≠ [] ∧ ∀ l ∈ ls, (l, Mode.excl) ∈ h2 := by simpa using p2
        obtain ⟨l, hl⟩ := List.exists_mem_of_ne_nil ls p1'.1
        exact ⟨l, Or.inl ⟨p1'.2 l hl, Mode.excl, p2'.2 l hl⟩⟩
      | false =>
        have p2' : ∃ l ∈ ls, holdsSome h2 l := by simpa using p2
        obtain ⟨l, hl, hs⟩ := p2'
        exact ⟨l, Or.inl ⟨p1'.2 l hl, holdsSome_iff.mp hs⟩⟩
    | false =>
      cases w2 with
      | true =>
        have p2' : ls ≠ [] ∧ ∀ l ∈ ls, (l, Mode.excl) ∈ h2 := by simpa using p2
        have p1' : ∃ l ∈ ls, holdsSome h1 l := by simpa using p1
        obtain ⟨l, hl, hs⟩ := p1'
        exact ⟨l, Or.inr ⟨p2'.2 l hl, holdsSome_iff.mp hs⟩⟩
      | false => rcases hw with h | h <;> cases h
  | immutable =>
    rw [hg] at p1 p2
    simp only at p1 p2
    rcases hw with h | h
    · rw [h] at p1; cases p1
    · rw [h] at p2; cases p2
  | owner k =>
    rw [hg] at p1 p2
    simp only at p1 p2
    exact absurd (p1.trans p2.symm) hij

end
end PV.Lemmas.Lockset
