/-
  Invariants of the ARP hunt machine (Model/ArpHunt.lean) and the budgets of a blocked loop.
-/
import PacketVerif.Model.ArpHunt
namespace PV.Lemmas.ArpHunt
open PV PV.Model.ArpHunt

@[simp] theorem updLoop_same (f : Nat → Loop) (i : Nat) (l : Loop) : updLoop f i l i = l := by simp [updLoop]
theorem updLoop_other (f : Nat → Loop) (i j : Nat) (l : Loop) (h : j ≠ i) : updLoop f i l j = f j := by
  simp [updLoop, h]

@[simp] theorem setPc_same (s : State) (i : Nat) (pc : Pc) : ((setPc s i pc).loops i).pc = pc := by simp [setPc]
@[simp] theorem setPc_mac (s : State) (i j : Nat) (pc : Pc) : ((setPc s i pc).loops j).mac = (s.loops j).mac := by
  by_cases h : j = i
  · subst h; simp [setPc]
  · simp [setPc, updLoop_other _ _ _ _ h]
theorem setPc_other (s : State) (i j : Nat) (pc : Pc) (h : j ≠ i) : (setPc s i pc).loops j = s.loops j := by
  simp [setPc, updLoop_other _ _ _ _ h]
@[simp] theorem setPc_hunt (s : State) (i : Nat) (pc : Pc) : (setPc s i pc).hunt = s.hunt := rfl
@[simp] theorem setPc_closed (s : State) (i : Nat) (pc : Pc) : (setPc s i pc).closed = s.closed := rfl
@[simp] theorem setPc_nloops (s : State) (i : Nat) (pc : Pc) : (setPc s i pc).nloops = s.nloops := rfl
@[simp] theorem setPc_started (s : State) (i : Nat) (pc : Pc) : (setPc s i pc).started = s.started := rfl
@[simp] theorem setPc_replies (s : State) (i : Nat) (pc : Pc) : (setPc s i pc).replies = s.replies := rfl

structure Inv (s : State) : Prop where
  nodup : s.hunt.Nodup
  started : ∀ i, (s.loops i).pc ≠ .done → (s.loops i).mac ∈ s.started
  huntStarted : ∀ m ∈ s.hunt, m ∈ s.started
  repliesStarted : ∀ m ∈ s.replies, m ∈ s.started
  fresh : ∀ i, s.nloops ≤ i → (s.loops i).pc = .done

theorem inv_init : Inv {} := by constructor <;> simp

/-- a loop moves from a live pc to any pc -/
theorem inv_setPc {s : State} (h : Inv s) (i : Nat) (pc : Pc) (hl : (s.loops i).pc ≠ .done) : Inv (setPc s i pc) := by
  obtain ⟨h1, h2, h3, h4, h5⟩ := h
  refine ⟨h1, ?_, h3, h4, ?_⟩
  · intro j hj
    simp only [setPc_mac, setPc_started]
    by_cases hji : j = i
    · subst hji; exact h2 j hl
    · rw [setPc_other _ _ _ _ hji] at hj; exact h2 j hj
  · intro j hj
    by_cases hji : j = i
    · subst hji; exact absurd (h5 j hj) hl
    · rw [setPc_other _ _ _ _ hji]; exact h5 j hj

theorem inv_step {s s' : State} {e : Event} {o : Out} (h : Inv s) (hs : step s e = some (s', o)) : Inv s' := by
  cases e with
  | rxOther => simp only [step] at hs; cases hs; exact h
  | rxProbe a b c d => simp only [step] at hs; split at hs <;> (cases hs; exact h)
  | close =>
    simp only [step] at hs; cases hs
    exact ⟨h.nodup, h.started, h.huntStarted, h.repliesStarted, h.fresh⟩
  | stopHunt mac _ip =>
    simp only [step] at hs; cases hs
    exact ⟨h.nodup.erase mac, h.started, fun m hm => h.huntStarted m (List.mem_of_mem_erase hm),
      h.repliesStarted, h.fresh⟩
  | rxRequest _esrc smac tr =>
    simp only [step] at hs
    split at hs
    · rename_i hc
      cases hs
      refine ⟨h.nodup, h.started, h.huntStarted, ?_, h.fresh⟩
      intro m hm
      simp at hm
      rcases hm with rfl | hm
      · exact h.huntStarted _ hc.1
      · exact h.repliesStarted m hm
    · cases hs; exact h
  | reply smac =>
    simp only [step] at hs
    split at hs
    · cases hs
      exact ⟨h.nodup, h.started, h.huntStarted, fun m hm => h.repliesStarted m (List.mem_of_mem_erase hm), h.fresh⟩
    · cases hs
  | startHunt mac v =>
    simp only [step] at hs
    split at hs
    · cases hs; exact h
    · split at hs
      · cases hs; exact h
      · rename_i hnm
        cases hs
        obtain ⟨h1, h2, h3, h4, h5⟩ := h
        refine ⟨List.nodup_cons.2 ⟨hnm, h1⟩, ?_, ?_, ?_, ?_⟩
        · intro i hi
          by_cases hi' : i = s.nloops
          · subst hi'; simp
          · simp only [updLoop_other _ _ _ _ hi'] at hi ⊢
            exact List.mem_cons_of_mem _ (h2 i hi)
        · intro m hm
          simp at hm
          rcases hm with rfl | hm
          · simp
          · exact List.mem_cons_of_mem _ (h3 m hm)
        · intro m hm; exact List.mem_cons_of_mem _ (h4 m hm)
        · intro i hi
          have : i ≠ s.nloops := by simp at hi; omega
          simp only [updLoop_other _ _ _ _ this]
          exact h5 i (by simp at hi; omega)
  | check i =>
    simp only [step] at hs
    split at hs
    · rename_i hc; cases hs; exact inv_setPc h i _ (by rw [hc]; simp)
    · cases hs
  | gate i =>
    simp only [step] at hs
    split at hs
    · rename_i b hc
      split at hs <;> (cases hs; exact inv_setPc h i _ (by rw [hc]; simp))
    · cases hs
  | exitRead i =>
    simp only [step] at hs
    split at hs
    · rename_i hc
      split at hs <;> (cases hs; exact inv_setPc h i _ (by rw [hc]; simp))
    · cases hs
  | restore i =>
    simp only [step] at hs
    split at hs
    · rename_i hc; cases hs; exact inv_setPc h i _ (by rw [hc]; simp)
    · cases hs
  | forge i =>
    simp only [step] at hs
    split at hs
    · rename_i hc; cases hs; exact inv_setPc h i _ (by rw [hc]; simp)
    · cases hs
  | wake i =>
    simp only [step] at hs
    split at hs
    · rename_i hc; cases hs; exact inv_setPc h i _ (by rw [hc]; simp)
    · cases hs

theorem inv_run {s s' : State} {tr : List Event} {os : List Out} (h : Inv s)
    (hr : run s tr = some (s', os)) : Inv s' := by
  induction tr generalizing s os with
  | nil => simp [run] at hr; obtain ⟨rfl, _⟩ := hr; exact h
  | cons e es ih =>
    simp only [run] at hr
    cases hs : step s e with
    | none => simp [hs] at hr
    | some p =>
      obtain ⟨s1, o⟩ := p
      simp only [hs] at hr
      cases hr2 : run s1 es with
      | none => simp [hr2] at hr
      | some q =>
        obtain ⟨s2, os2⟩ := q
        simp only [hr2] at hr
        cases hr
        exact ih (inv_step h hs) hr2

/-! ### budgets of a blocked loop -/

/-- forged announcements the loop may still write without passing a check that finds it hunted -/
def forgeBudget (s : State) (i : Nat) : Nat :=
  match (s.loops i).pc with
  | .forge => 1
  | .gate true => if s.closed then 0 else 1
  | _ => 0

/-- restoring requests the loop may still write -/
def restoreBudget (s : State) (i : Nat) : Nat :=
  match (s.loops i).pc with
  | .done => 0
  | _ => 1

def forgesOf (i : Nat) : List Event → Nat
  | [] => 0
  | .forge j :: rest => (if j = i then 1 else 0) + forgesOf i rest
  | _ :: rest => forgesOf i rest

def restoresOf (i : Nat) : List Event → Nat
  | [] => 0
  | .restore j :: rest => (if j = i then 1 else 0) + restoresOf i rest
  | _ :: rest => restoresOf i rest

/-- no StartHunt for `mac` that would be accepted -/
def NoRestart (mac : Bytes) (tr : List Event) : Prop := ∀ e ∈ tr, e ≠ .startHunt mac true

/-- loop `i` cannot pass its check-and-gate: its MAC is not in the hunt list, or the handler is closed -/
def Blocked (s : State) (i : Nat) : Prop := (s.loops i).mac ∉ s.hunt ∨ s.closed = true


/-- what one step does to a blocked loop's budgets -/
structure StepOK (s s' : State) (e : Event) (i : Nat) : Prop where
  idx : i < s'.nloops
  mac : (s'.loops i).mac = (s.loops i).mac
  blocked : Blocked s' i
  forge : forgeBudget s' i + (if e = .forge i then 1 else 0) ≤ forgeBudget s i
  restore : restoreBudget s' i + (if e = .restore i then 1 else 0) ≤ restoreBudget s i
  restoreEq : s'.closed = false → restoreBudget s' i + (if e = .restore i then 1 else 0) = restoreBudget s i

/-- a step that leaves loop `i`, the hunt list and `closed` alone -/
theorem stepOK_frame {s s' : State} {e : Event} {i : Nat} (hi : i < s.nloops) (hb : Blocked s i)
    (hl : s'.loops i = s.loops i) (hh : ∀ m, m ∈ s'.hunt → m ∈ s.hunt) (hc : s.closed = true → s'.closed = true)
    (_hc' : s'.closed = true → s.closed = true ∨ e = .close)
    (hn : s.nloops ≤ s'.nloops) (he1 : e ≠ .forge i) (he2 : e ≠ .restore i) : StepOK s s' e i := by
  refine ⟨by omega, by rw [hl], ?_, ?_, ?_, ?_⟩
  · unfold Blocked at hb ⊢
    rw [hl]
    rcases hb with hb | hb
    · left; exact fun h => hb (hh _ h)
    · right; exact hc hb
  · simp only [he1, if_false, forgeBudget, hl]
    split
    · exact Nat.le_refl _
    · split
      · omega
      · split
        · rename_i h1 h2; exact absurd (hc h2) (by simpa using h1)
        · exact Nat.le_refl _
    · exact Nat.le_refl _
  · simp only [he2, if_false, restoreBudget, hl]; exact Nat.le_refl _
  · intro _; simp only [he2, if_false, restoreBudget, hl, Nat.add_zero]

theorem blocked_step {s s' : State} {e : Event} {o : Out} (i : Nat) (hi : i < s.nloops)
    (hb : Blocked s i) (hs : step s e = some (s', o)) (hn : e ≠ .startHunt (s.loops i).mac true) :
    StepOK s s' e i := by
  -- steps of another loop `j ≠ i`
  have other : ∀ j pc, j ≠ i → s' = setPc s j pc → e ≠ .forge i → e ≠ .restore i → StepOK s s' e i := by
    intro j pc hj he h1 h2
    subst he
    exact stepOK_frame hi hb (setPc_other _ _ _ _ (fun h => hj h.symm)) (fun _ h => h) (fun h => h)
      (fun h => Or.inl h) (Nat.le_refl _) h1 h2
  have keep : ∀ (s'' : State), s''.loops = s.loops → (∀ m, m ∈ s''.hunt → m ∈ s.hunt) → s''.closed = s.closed →
      s''.nloops = s.nloops → e ≠ .forge i → e ≠ .restore i → StepOK s s'' e i := by
    intro s'' h1 h2 h3 h4 h5 h6
    exact stepOK_frame hi hb (by rw [h1]) h2 (fun h => by rw [h3]; exact h) (fun h => Or.inl (by rw [← h3]; exact h))
      (by rw [h4]; exact Nat.le_refl _) h5 h6
  cases e with
  | rxOther =>
    simp only [step] at hs; cases hs
    exact keep _ rfl (fun _ h => h) rfl rfl (by simp) (by simp)
  | rxProbe a b c d =>
    simp only [step] at hs
    split at hs <;> (cases hs; exact keep _ rfl (fun _ h => h) rfl rfl (by simp) (by simp))
  | rxRequest _e a b =>
    simp only [step] at hs
    split at hs <;> (cases hs; exact keep _ rfl (fun _ h => h) rfl rfl (by simp) (by simp))
  | reply a =>
    simp only [step] at hs
    split at hs
    · cases hs; exact keep _ rfl (fun _ h => h) rfl rfl (by simp) (by simp)
    · cases hs
  | close =>
    simp only [step] at hs; cases hs
    exact stepOK_frame hi hb rfl (fun _ h => h) (fun _ => rfl) (fun _ => Or.inr rfl) (Nat.le_refl _) (by simp) (by simp)
  | stopHunt mac _ip =>
    simp only [step] at hs; cases hs
    exact keep _ rfl (fun _ h => List.mem_of_mem_erase h) rfl rfl (by simp) (by simp)
  | startHunt mac v =>
    simp only [step] at hs
    split at hs
    · cases hs; exact keep _ rfl (fun _ h => h) rfl rfl (by simp) (by simp)
    · split at hs
      · cases hs; exact keep _ rfl (fun _ h => h) rfl rfl (by simp) (by simp)
      · rename_i hv hnm
        cases hs
        have hne : i ≠ s.nloops := by omega
        have hv' : v = true := by simpa using hv
        subst hv'
        have hmac : mac ≠ (s.loops i).mac := by
          intro he; subst he; exact hn rfl
        refine ⟨by simp; omega, by simp only [updLoop_other _ _ _ _ hne], ?_, ?_, ?_, ?_⟩
        · unfold Blocked at hb ⊢
          simp only [updLoop_other _ _ _ _ hne]
          rcases hb with hb | hb
          · left; intro hm; simp at hm
            rcases hm with hm | hm
            · exact hmac hm.symm
            · exact hb hm
          · right; exact hb
        · simp [forgeBudget, updLoop_other _ _ _ _ hne]
        · simp [restoreBudget, updLoop_other _ _ _ _ hne]
        · intro _; simp [restoreBudget, updLoop_other _ _ _ _ hne]
  | check j =>
    simp only [step] at hs
    split at hs
    · rename_i hc
      cases hs
      by_cases hji : j = i
      · subst hji
        refine ⟨hi, by simp, ?_, ?_, ?_, ?_⟩
        · unfold Blocked at hb ⊢; simpa using hb
        · simp only [forgeBudget, setPc_same, setPc_closed, hc]
          have : (Event.check j = Event.forge j) = False := by simp
          simp only [this, if_false]
          unfold Blocked at hb
          rcases hb with hb | hb
          · simp [hb]
          · simp only [hb, if_true]
            cases decide ((s.loops j).mac ∈ s.hunt) <;> simp
        · simp [restoreBudget, hc]
        · intro _; simp [restoreBudget, hc]
      · exact other j _ hji rfl (by simp) (by simp)
    · cases hs
  | gate j =>
    simp only [step] at hs
    split at hs
    · rename_i b hc
      by_cases hji : j = i
      · subst hji
        split at hs
        · cases hs
          refine ⟨hi, by simp, ?_, ?_, ?_, ?_⟩
          · unfold Blocked at hb ⊢; simpa using hb
          · simp [forgeBudget]
          · simp [restoreBudget, hc]
          · intro _; simp [restoreBudget, hc]
        · rename_i hcond
          cases hs
          have hb' : b = true ∧ s.closed = false := by
            cases b <;> cases hcl : s.closed <;> simp_all
          refine ⟨hi, by simp, ?_, ?_, ?_, ?_⟩
          · unfold Blocked at hb ⊢; simpa using hb
          · simp [forgeBudget, hc, hb'.1, hb'.2]
          · simp [restoreBudget, hc]
          · intro _; simp [restoreBudget, hc]
      · split at hs <;> (cases hs; exact other j _ hji rfl (by simp) (by simp))
    · cases hs
  | exitRead j =>
    simp only [step] at hs
    split at hs
    · rename_i hc
      by_cases hji : j = i
      · subst hji
        split at hs
        · cases hs
          refine ⟨hi, by simp, ?_, ?_, ?_, ?_⟩
          · unfold Blocked at hb ⊢; simpa using hb
          · simp [forgeBudget, hc]
          · simp [restoreBudget, hc]
          · intro _; simp [restoreBudget, hc]
        · rename_i hcl
          cases hs
          refine ⟨hi, by simp, ?_, ?_, ?_, ?_⟩
          · unfold Blocked at hb ⊢; simpa using hb
          · simp [forgeBudget, hc]
          · simp [restoreBudget, hc]
          · intro hcf; simp at hcf; simp [hcf] at hcl
      · split at hs <;> (cases hs; exact other j _ hji rfl (by simp) (by simp))
    · cases hs
  | restore j =>
    simp only [step] at hs
    split at hs
    · rename_i hc
      cases hs
      by_cases hji : j = i
      · subst hji
        refine ⟨hi, by simp, ?_, ?_, ?_, ?_⟩
        · unfold Blocked at hb ⊢; simpa using hb
        · simp [forgeBudget, hc]
        · simp [restoreBudget, hc]
        · intro _; simp [restoreBudget, hc]
      · exact other j _ hji rfl (by simp) (by simp [hji])
    · cases hs
  | forge j =>
    simp only [step] at hs
    split at hs
    · rename_i hc
      cases hs
      by_cases hji : j = i
      · subst hji
        refine ⟨hi, by simp, ?_, ?_, ?_, ?_⟩
        · unfold Blocked at hb ⊢; simpa using hb
        · simp [forgeBudget, hc]
        · simp [restoreBudget, hc]
        · intro _; simp [restoreBudget, hc]
      · exact other j _ hji rfl (by simp [hji]) (by simp)
    · cases hs
  | wake j =>
    simp only [step] at hs
    split at hs
    · rename_i hc
      cases hs
      by_cases hji : j = i
      · subst hji
        refine ⟨hi, by simp, ?_, ?_, ?_, ?_⟩
        · unfold Blocked at hb ⊢; simpa using hb
        · simp [forgeBudget, hc]
        · simp [restoreBudget, hc]
        · intro _; simp [restoreBudget, hc]
      · exact other j _ hji rfl (by simp) (by simp)
    · cases hs

theorem closed_mono {s s' : State} {e : Event} {o : Out} (hs : step s e = some (s', o)) (hc : s'.closed = false) :
    s.closed = false := by
  cases hcl : s.closed with
  | false => rfl
  | true =>
    have : s'.closed = true := by
      cases e <;> simp only [step] at hs <;> (try split at hs) <;> (try split at hs) <;>
        first | (cases hs; simp_all [setPc]) | cases hs
    rw [this] at hc; cases hc

theorem closed_mono_run : ∀ (tr : List Event) (s s' : State) (os : List Out), run s tr = some (s', os) →
    s'.closed = false → s.closed = false
  | [], s, s', _, hr, hc => by simp [run] at hr; obtain ⟨rfl, _⟩ := hr; exact hc
  | e :: es, s, s', os, hr, hc => by
    simp only [run] at hr
    cases hs : step s e with
    | none => simp [hs] at hr
    | some p =>
      obtain ⟨s1, o⟩ := p
      simp only [hs] at hr
      cases hr2 : run s1 es with
      | none => simp [hr2] at hr
      | some q =>
        obtain ⟨s2, os2⟩ := q
        simp only [hr2] at hr
        cases hr
        exact closed_mono hs (closed_mono_run es s1 s' os2 hr2 hc)

/-- **budgets over a whole continuation** -/
theorem blocked_run : ∀ (tr : List Event) (s s' : State) (os : List Out) (i : Nat), i < s.nloops →
    Blocked s i → NoRestart (s.loops i).mac tr → run s tr = some (s', os) →
    forgesOf i tr ≤ forgeBudget s i ∧
    restoresOf i tr + restoreBudget s' i ≤ restoreBudget s i ∧
    (s'.closed = false → restoresOf i tr + restoreBudget s' i = restoreBudget s i)
  | [], s, s', _, i, _, _, _, hr => by
    simp [run] at hr
    obtain ⟨rfl, _⟩ := hr
    simp [forgesOf, restoresOf]
  | e :: es, s, s', os, i, hi, hb, hn, hr => by
    simp only [run] at hr
    cases hs : step s e with
    | none => simp [hs] at hr
    | some p =>
      obtain ⟨s1, o⟩ := p
      simp only [hs] at hr
      cases hr2 : run s1 es with
      | none => simp [hr2] at hr
      | some q =>
        obtain ⟨s2, os2⟩ := q
        simp only [hr2] at hr
        cases hr
        have st := blocked_step i hi hb hs (hn e (by simp))
        obtain ⟨ih1, ih2, ih3⟩ := blocked_run es s1 s' os2 i st.idx st.blocked (by
          rw [st.mac]; intro e' he'; exact hn e' (by simp [he'])) hr2
        have f := st.forge
        have r := st.restore
        have hF : forgesOf i (e :: es) = (if e = .forge i then 1 else 0) + forgesOf i es := by
          cases e <;> simp [forgesOf]
        have hR : restoresOf i (e :: es) = (if e = .restore i then 1 else 0) + restoresOf i es := by
          cases e <;> simp [restoresOf]
        refine ⟨by rw [hF]; omega, by rw [hR]; omega, ?_⟩
        intro hc
        have hc1 : s1.closed = false := closed_mono_run es s1 s' os2 hr2 hc
        have := st.restoreEq hc1
        have := ih3 hc
        rw [hR]; omega

end PV.Lemmas.ArpHunt
