/-
  Invariants of the ARP hunt machine (Model/ArpHunt.lean): the mutex discipline (`Inv`), silence for a
  MAC that is not in the hunt list (`quiet_run`) and after Close (`closed_run`), and the restoring
  request of a stopped loop (`blocked_run`).
-/
import PacketVerif.Model.ArpHunt
namespace PV.Lemmas.ArpHunt
open PV PV.Model.ArpHunt

@[simp] theorem updLoop_same (f : Nat → Loop) (i : Nat) (l : Loop) : updLoop f i l i = l := by simp [updLoop]
theorem updLoop_other (f : Nat → Loop) (i j : Nat) (l : Loop) (h : j ≠ i) : updLoop f i l j = f j := by
  simp [updLoop, h]

@[simp] theorem setPc_same (s : State) (i : Nat) (pc : Pc) : ((setPc s i pc).loops i).pc = pc := by simp [setPc]
@[simp] theorem setPc_mac (s : State) (i j : Nat) (pc : Pc) : ((setPc s i pc).loops j).mac = (s.loops j).mac := by
  by_cases h : j = i
  · subst h; simp [setPc]
  · simp [setPc, updLoop_other _ _ _ _ h]
theorem setPc_other (s : State) (i j : Nat) (pc : Pc) (h : j ≠ i) : (setPc s i pc).loops j = s.loops j := by
  simp [setPc, updLoop_other _ _ _ _ h]
@[simp] theorem setPc_hunt (s : State) (i : Nat) (pc : Pc) : (setPc s i pc).hunt = s.hunt := rfl
@[simp] theorem setPc_closed (s : State) (i : Nat) (pc : Pc) : (setPc s i pc).closed = s.closed := rfl
@[simp] theorem setPc_nloops (s : State) (i : Nat) (pc : Pc) : (setPc s i pc).nloops = s.nloops := rfl
@[simp] theorem setPc_started (s : State) (i : Nat) (pc : Pc) : (setPc s i pc).started = s.started := rfl
@[simp] theorem setPc_holder (s : State) (i : Nat) (pc : Pc) : (setPc s i pc).holder = s.holder := rfl

structure Inv (s : State) : Prop where
  nodup : s.hunt.Nodup
  started : ∀ i, (s.loops i).pc ≠ .done → (s.loops i).mac ∈ s.started
  huntStarted : ∀ m ∈ s.hunt, m ∈ s.started
  fresh : ∀ i, s.nloops ≤ i → (s.loops i).pc = .done
  /-- a loop about to write a forged announcement holds the mutex, and its lookup still holds: its
      MAC is hunted and the handler is open -/
  forgeOK : ∀ i, (s.loops i).pc = .forge → s.holder = some (.loop i) ∧ (s.loops i).mac ∈ s.hunt ∧ s.closed = false
  /-- a loop about to write the restoring request holds the mutex; its MAC is not hunted -/
  restoreOK : ∀ i, (s.loops i).pc = .restore → s.holder = some (.loop i) ∧ (s.loops i).mac ∉ s.hunt ∧ s.closed = false
  holderLoop : ∀ i, s.holder = some (.loop i) → (s.loops i).pc = .forge ∨ (s.loops i).pc = .restore
  /-- a forged reply about to be written goes to a hunted MAC -/
  holderRx : ∀ m, s.holder = some (.rx m) → m ∈ s.hunt

theorem inv_init : Inv {} := by constructor <;> simp

/-- while the mutex is free no loop is between its lookup and its frame -/
theorem free_pcs {s : State} (h : Inv s) (hf : s.holder = none) (i : Nat) :
    (s.loops i).pc ≠ .forge ∧ (s.loops i).pc ≠ .restore := by
  constructor
  · intro hp; have := (h.forgeOK i hp).1; rw [hf] at this; cases this
  · intro hp; have := (h.restoreOK i hp).1; rw [hf] at this; cases this

/-- hunt list / closed flag change while the mutex is free; loops are untouched -/
theorem inv_free_change {s s' : State} (h : Inv s) (hf : s.holder = none) (hl : s'.loops = s.loops)
    (hn : s'.nloops = s.nloops) (hs : s'.started = s.started) (hho : s'.holder = none)
    (hnd : s'.hunt.Nodup) (hh : ∀ m ∈ s'.hunt, m ∈ s.hunt) : Inv s' := by
  refine ⟨hnd, ?_, ?_, ?_, ?_, ?_, ?_, ?_⟩
  · intro i hi; rw [hl] at hi ⊢; rw [hs]; exact h.started i hi
  · intro m hm; rw [hs]; exact h.huntStarted m (hh m hm)
  · intro i hi; rw [hl]; rw [hn] at hi; exact h.fresh i hi
  · intro i hp; rw [hl] at hp; exact absurd hp (free_pcs h hf i).1
  · intro i hp; rw [hl] at hp; exact absurd hp (free_pcs h hf i).2
  · intro i hp; rw [hho] at hp; cases hp
  · intro m hp; rw [hho] at hp; cases hp

/-- loop `i` moves between states that hold no mutex (check / wait / done); holder unchanged -/
theorem inv_setPc_plain {s : State} (h : Inv s) (i : Nat) (pc : Pc) (hl : (s.loops i).pc ≠ .done)
    (hold1 : (s.loops i).pc ≠ .forge) (hold2 : (s.loops i).pc ≠ .restore)
    (hnew1 : pc ≠ .forge) (hnew2 : pc ≠ .restore) : Inv (setPc s i pc) := by
  refine ⟨h.nodup, ?_, h.huntStarted, ?_, ?_, ?_, ?_, h.holderRx⟩
  · intro j hj
    simp only [setPc_mac, setPc_started]
    by_cases hji : j = i
    · subst hji; exact h.started j hl
    · rw [setPc_other _ _ _ _ hji] at hj; exact h.started j hj
  · intro j hj
    by_cases hji : j = i
    · subst hji; exact absurd (h.fresh j hj) hl
    · rw [setPc_other _ _ _ _ hji]; exact h.fresh j hj
  · intro j hp
    by_cases hji : j = i
    · subst hji; simp at hp; exact absurd hp hnew1
    · rw [setPc_other _ _ _ _ hji] at hp ⊢; exact h.forgeOK j hp
  · intro j hp
    by_cases hji : j = i
    · subst hji; simp at hp; exact absurd hp hnew2
    · rw [setPc_other _ _ _ _ hji] at hp ⊢; exact h.restoreOK j hp
  · intro j hp
    simp only [setPc_holder] at hp
    by_cases hji : j = i
    · subst hji
      rcases h.holderLoop j hp with h1 | h1
      · exact absurd h1 hold1
      · exact absurd h1 hold2
    · rw [setPc_other _ _ _ _ hji]; exact h.holderLoop j hp

/-- loop `i` takes the mutex at its check (pc := forge / restore, holder := loop i) -/
theorem inv_take {s : State} (h : Inv s) (i : Nat) (pc : Pc) (hc : (s.loops i).pc = .check) (hf : s.holder = none)
    (hpc : pc = .forge ∨ pc = .restore)
    (hfo : pc = .forge → (s.loops i).mac ∈ s.hunt ∧ s.closed = false)
    (hre : pc = .restore → (s.loops i).mac ∉ s.hunt ∧ s.closed = false) :
    Inv { setPc s i pc with holder := some (.loop i) } := by
  have hl : (s.loops i).pc ≠ .done := by rw [hc]; simp
  refine ⟨h.nodup, ?_, h.huntStarted, ?_, ?_, ?_, ?_, ?_⟩
  · intro j hj
    show ((setPc s i pc).loops j).mac ∈ s.started
    rw [setPc_mac]
    by_cases hji : j = i
    · subst hji; exact h.started j hl
    · have : ((setPc s i pc).loops j).pc ≠ .done := hj
      rw [setPc_other _ _ _ _ hji] at this; exact h.started j this
  · intro j hj
    show ((setPc s i pc).loops j).pc = .done
    by_cases hji : j = i
    · subst hji; exact absurd (h.fresh j hj) hl
    · rw [setPc_other _ _ _ _ hji]; exact h.fresh j hj
  · intro j hp
    have hp' : ((setPc s i pc).loops j).pc = .forge := hp
    show some (Holder.loop i) = some (Holder.loop j) ∧ ((setPc s i pc).loops j).mac ∈ s.hunt ∧ s.closed = false
    by_cases hji : j = i
    · subst hji
      simp at hp'
      rw [setPc_mac]
      exact ⟨rfl, hfo hp'⟩
    · rw [setPc_other _ _ _ _ hji] at hp'
      exact absurd hp' (free_pcs h hf j).1
  · intro j hp
    have hp' : ((setPc s i pc).loops j).pc = .restore := hp
    show some (Holder.loop i) = some (Holder.loop j) ∧ ((setPc s i pc).loops j).mac ∉ s.hunt ∧ s.closed = false
    by_cases hji : j = i
    · subst hji
      simp at hp'
      rw [setPc_mac]
      exact ⟨rfl, hre hp'⟩
    · rw [setPc_other _ _ _ _ hji] at hp'
      exact absurd hp' (free_pcs h hf j).2
  · intro j hp
    have hp' : some (Holder.loop i) = some (Holder.loop j) := hp
    cases hp'
    show ((setPc s i pc).loops i).pc = .forge ∨ ((setPc s i pc).loops i).pc = .restore
    simpa using hpc
  · intro m hp
    have hp' : some (Holder.loop i) = some (Holder.rx m) := hp
    cases hp'

/-- loop `i` writes its frame and releases the mutex -/
theorem inv_release {s : State} (h : Inv s) (i : Nat) (pc : Pc) (hh : s.holder = some (.loop i))
    (hl : (s.loops i).pc ≠ .done) (hnew1 : pc ≠ .forge) (hnew2 : pc ≠ .restore) :
    Inv { setPc s i pc with holder := none } := by
  have hothers : ∀ j, j ≠ i → (s.loops j).pc ≠ .forge ∧ (s.loops j).pc ≠ .restore := by
    intro j hji
    constructor
    · intro hp; have := (h.forgeOK j hp).1; rw [hh] at this; simp at this; exact hji this.symm
    · intro hp; have := (h.restoreOK j hp).1; rw [hh] at this; simp at this; exact hji this.symm
  refine ⟨h.nodup, ?_, h.huntStarted, ?_, ?_, ?_, ?_, ?_⟩
  · intro j hj
    show ((setPc s i pc).loops j).mac ∈ s.started
    rw [setPc_mac]
    by_cases hji : j = i
    · subst hji; exact h.started j hl
    · have : ((setPc s i pc).loops j).pc ≠ .done := hj
      rw [setPc_other _ _ _ _ hji] at this; exact h.started j this
  · intro j hj
    show ((setPc s i pc).loops j).pc = .done
    by_cases hji : j = i
    · subst hji; exact absurd (h.fresh j hj) hl
    · rw [setPc_other _ _ _ _ hji]; exact h.fresh j hj
  · intro j hp
    have hp' : ((setPc s i pc).loops j).pc = .forge := hp
    by_cases hji : j = i
    · subst hji; simp at hp'; exact absurd hp' hnew1
    · rw [setPc_other _ _ _ _ hji] at hp'; exact absurd hp' (hothers j hji).1
  · intro j hp
    have hp' : ((setPc s i pc).loops j).pc = .restore := hp
    by_cases hji : j = i
    · subst hji; simp at hp'; exact absurd hp' hnew2
    · rw [setPc_other _ _ _ _ hji] at hp'; exact absurd hp' (hothers j hji).2
  · intro j hp; cases hp
  · intro m hp; cases hp

theorem inv_step {s s' : State} {e : Event} {o : Out} (h : Inv s) (hs : step s e = some (s', o)) : Inv s' := by
  cases e with
  | rxOther => simp only [step] at hs; cases hs; exact h
  | rxProbe a b c d => simp only [step] at hs; split at hs <;> (cases hs; exact h)
  | close =>
    simp only [step] at hs
    split at hs
    · rename_i hf; cases hs
      exact inv_free_change h hf rfl rfl rfl hf h.nodup (fun _ hm => hm)
    · cases hs
  | stopHunt mac _ip =>
    simp only [step] at hs
    split at hs
    · rename_i hf; cases hs
      exact inv_free_change h hf rfl rfl rfl hf (h.nodup.erase mac) (fun _ hm => List.mem_of_mem_erase hm)
    · cases hs
  | rxRequest _esrc smac tr =>
    simp only [step] at hs
    split at hs
    · rename_i hf
      split at hs
      · rename_i hc
        cases hs
        refine ⟨h.nodup, h.started, h.huntStarted, h.fresh, ?_, ?_, ?_, ?_⟩
        · intro i hp; exact absurd hp (free_pcs h hf i).1
        · intro i hp; exact absurd hp (free_pcs h hf i).2
        · intro i hp; cases hp
        · intro m hp; cases hp; exact hc.1
      · cases hs; exact h
    · cases hs
  | reply smac =>
    simp only [step] at hs
    split at hs
    · rename_i hh
      cases hs
      refine ⟨h.nodup, h.started, h.huntStarted, h.fresh, ?_, ?_, ?_, ?_⟩
      · intro i hp; have := (h.forgeOK i hp).1; rw [hh] at this; cases this
      · intro i hp; have := (h.restoreOK i hp).1; rw [hh] at this; cases this
      · intro i hp; cases hp
      · intro m hp; cases hp
    · cases hs
  | startHunt mac v =>
    simp only [step] at hs
    split at hs
    · cases hs; exact h
    · split at hs
      · cases hs
      · rename_i hf
        have hf' : s.holder = none := by simpa [free] using hf
        split at hs
        · cases hs; exact h
        · rename_i hnm
          cases hs
          have hfr : (s.loops s.nloops).pc = .done := h.fresh _ (Nat.le_refl _)
          refine ⟨List.nodup_cons.2 ⟨hnm, h.nodup⟩, ?_, ?_, ?_, ?_, ?_, ?_, ?_⟩
          · intro i hi
            by_cases hi' : i = s.nloops
            · subst hi'; simp
            · simp only [updLoop_other _ _ _ _ hi'] at hi ⊢
              exact List.mem_cons_of_mem _ (h.started i hi)
          · intro m hm
            simp at hm
            rcases hm with rfl | hm
            · simp
            · exact List.mem_cons_of_mem _ (h.huntStarted m hm)
          · intro i hi
            have : i ≠ s.nloops := by simp at hi; omega
            simp only [updLoop_other _ _ _ _ this]
            exact h.fresh i (by simp at hi; omega)
          · intro i hp
            by_cases hi' : i = s.nloops
            · subst hi'; simp at hp
            · simp only [updLoop_other _ _ _ _ hi'] at hp; exact absurd hp (free_pcs h hf' i).1
          · intro i hp
            by_cases hi' : i = s.nloops
            · subst hi'; simp at hp
            · simp only [updLoop_other _ _ _ _ hi'] at hp; exact absurd hp (free_pcs h hf' i).2
          · intro i hp; rw [hf'] at hp; cases hp
          · intro m hp; rw [hf'] at hp; cases hp
  | check i =>
    simp only [step] at hs
    split at hs
    · rename_i hcf
      obtain ⟨hc, hf⟩ := hcf
      have hl : (s.loops i).pc ≠ .done := by rw [hc]; simp
      split at hs
      · cases hs
        exact inv_setPc_plain h i _ hl (by rw [hc]; simp) (by rw [hc]; simp) (by simp) (by simp)
      · rename_i hcl
        have hcl' : s.closed = false := by simpa using hcl
        split at hs
        · rename_i hm
          cases hs
          exact inv_take h i .forge hc hf (Or.inl rfl) (fun _ => ⟨hm, hcl'⟩) (fun hp => by cases hp)
        · rename_i hm
          cases hs
          exact inv_take h i .restore hc hf (Or.inr rfl) (fun hp => by cases hp) (fun _ => ⟨hm, hcl'⟩)
    · cases hs
  | restore i =>
    simp only [step] at hs
    split at hs
    · rename_i hc; cases hs
      exact inv_release h i .done (h.restoreOK i hc).1 (by rw [hc]; simp) (by simp) (by simp)
    · cases hs
  | forge i =>
    simp only [step] at hs
    split at hs
    · rename_i hc; cases hs
      exact inv_release h i .wait (h.forgeOK i hc).1 (by rw [hc]; simp) (by simp) (by simp)
    · cases hs
  | wake i =>
    simp only [step] at hs
    split at hs
    · rename_i hc; cases hs
      exact inv_setPc_plain h i _ (by rw [hc]; simp) (by rw [hc]; simp) (by rw [hc]; simp) (by simp) (by simp)
    · cases hs

theorem inv_run {s s' : State} {tr : List Event} {os : List Out} (h : Inv s)
    (hr : run s tr = some (s', os)) : Inv s' := by
  induction tr generalizing s os with
  | nil => simp [run] at hr; obtain ⟨rfl, _⟩ := hr; exact h
  | cons e es ih =>
    simp only [run] at hr
    cases hs : step s e with
    | none => simp [hs] at hr
    | some p =>
      obtain ⟨s1, o⟩ := p
      simp only [hs] at hr
      cases hr2 : run s1 es with
      | none => simp [hr2] at hr
      | some q =>
        obtain ⟨s2, os2⟩ := q
        simp only [hr2] at hr
        cases hr
        exact ih (inv_step h hs) hr2

/-- a run over a concatenation splits at the seam; the outputs are produced one per event -/
theorem run_append (a b : List Event) (s s' : State) (os : List Out)
    (h : run s (a ++ b) = some (s', os)) :
    ∃ s1 os1 os2, run s a = some (s1, os1) ∧ run s1 b = some (s', os2) ∧ os = os1 ++ os2 ∧
      os1.length = a.length := by
  induction a generalizing s os with
  | nil => exact ⟨s, [], os, rfl, h, rfl, rfl⟩
  | cons e es ih =>
    simp only [List.cons_append, run] at h
    cases hs : step s e with
    | none => simp [hs] at h
    | some p =>
      obtain ⟨s1, o⟩ := p
      simp only [hs] at h
      cases hr2 : run s1 (es ++ b) with
      | none => simp [hr2] at h
      | some q =>
        obtain ⟨s2, os2⟩ := q
        simp only [hr2] at h
        cases h
        obtain ⟨t1, o1, o2, r1, r2, he, hlen⟩ := ih s1 os2 hr2
        refine ⟨t1, o :: o1, o2, ?_, r2, by simp [he], by simp [hlen]⟩
        simp [run, hs, r1]

/-- splitting a run at a distinguished event -/
theorem run_split (pre post : List Event) (e : Event) (s : State) (os : List Out)
    (h : run {} (pre ++ [e] ++ post) = some (s, os)) :
    ∃ s0 s1 o os1 os2, run {} pre = some (s0, os1) ∧ step s0 e = some (s1, o) ∧
      run s1 post = some (s, os2) ∧ os.drop (pre.length + 1) = os2 ∧ os[pre.length]? = some o := by
  rw [List.append_assoc] at h
  obtain ⟨s0, os1, osr, r1, r2, he, hlen⟩ := run_append pre ([e] ++ post) {} s os h
  simp only [List.singleton_append, run] at r2
  cases hs : step s0 e with
  | none => simp [hs] at r2
  | some q =>
    obtain ⟨s1, o⟩ := q
    simp only [hs] at r2
    cases hr2 : run s1 post with
    | none => simp [hr2] at r2
    | some q2 =>
      obtain ⟨s2, os2⟩ := q2
      simp only [hr2] at r2
      cases r2
      refine ⟨s0, s1, o, os1, os2, r1, hs, hr2, ?_, ?_⟩
      · subst he; rw [← hlen]; simp
      · subst he; rw [← hlen]; simp

/-! ### silence -/

/-- no StartHunt for `mac` that would be accepted -/
def NoRestart (mac : Bytes) (tr : List Event) : Prop := ∀ e ∈ tr, e ≠ .startHunt mac true

/-- **a MAC that is not in the hunt list gets no forged packet**, and stays out of the list until a
    StartHunt for it is accepted: every forged frame is written inside the critical section whose
    lookup found the MAC in the list -/
theorem quiet_step {mac : Bytes} {s s' : State} {e : Event} {o : Out} (h : Inv s) (hq : mac ∉ s.hunt)
    (hs : step s e = some (s', o)) (hn : e ≠ .startHunt mac true) :
    mac ∉ s'.hunt ∧ forgedTo mac o = false := by
  cases e with
  | rxOther => simp only [step] at hs; cases hs; exact ⟨hq, rfl⟩
  | rxProbe a b c d => simp only [step] at hs; split at hs <;> (cases hs; exact ⟨hq, rfl⟩)
  | close =>
    simp only [step] at hs
    split at hs
    · cases hs; exact ⟨hq, rfl⟩
    · cases hs
  | stopHunt m _ip =>
    simp only [step] at hs
    split at hs
    · cases hs; exact ⟨fun hm => hq (List.mem_of_mem_erase hm), rfl⟩
    · cases hs
  | rxRequest _esrc smac tr =>
    simp only [step] at hs
    split at hs
    · split at hs <;> (cases hs; exact ⟨hq, rfl⟩)
    · cases hs
  | reply smac =>
    simp only [step] at hs
    split at hs
    · rename_i hh
      cases hs
      refine ⟨hq, ?_⟩
      have hm := h.holderRx smac hh
      simp only [forgedTo, decide_eq_false_iff_not]
      intro he; subst he; exact hq hm
    · cases hs
  | startHunt m v =>
    simp only [step] at hs
    split at hs
    · cases hs; exact ⟨hq, rfl⟩
    · rename_i hv
      split at hs
      · cases hs
      · split at hs
        · cases hs; exact ⟨hq, rfl⟩
        · cases hs
          refine ⟨?_, rfl⟩
          intro hm
          simp at hm
          rcases hm with hm | hm
          · subst hm
            have hv' : v = true := by simpa using hv
            subst hv'
            exact hn rfl
          · exact hq hm
  | check i =>
    simp only [step] at hs
    split at hs
    · split at hs
      · cases hs; exact ⟨hq, rfl⟩
      · split at hs <;> (cases hs; exact ⟨hq, rfl⟩)
    · cases hs
  | restore i =>
    simp only [step] at hs
    split at hs
    · cases hs; exact ⟨hq, rfl⟩
    · cases hs
  | forge i =>
    simp only [step] at hs
    split at hs
    · rename_i hc
      cases hs
      refine ⟨hq, ?_⟩
      have hm := (h.forgeOK i hc).2.1
      simp only [forgedTo, decide_eq_false_iff_not]
      intro he; rw [he] at hm; exact hq hm
    · cases hs
  | wake i =>
    simp only [step] at hs
    split at hs
    · cases hs; exact ⟨hq, rfl⟩
    · cases hs

theorem quiet_run : ∀ (tr : List Event) (mac : Bytes) (s s' : State) (os : List Out),
    Inv s → mac ∉ s.hunt → NoRestart mac tr → run s tr = some (s', os) → forgedCount mac os = 0
  | [], _, _, _, _, _, _, _, hr => by simp [run] at hr; obtain ⟨_, rfl⟩ := hr; rfl
  | e :: es, mac, s, s', os, hI, hq, hn, hr => by
    simp only [run] at hr
    cases hs : step s e with
    | none => simp [hs] at hr
    | some p =>
      obtain ⟨s1, o⟩ := p
      simp only [hs] at hr
      cases hr2 : run s1 es with
      | none => simp [hr2] at hr
      | some q =>
        obtain ⟨s2, os2⟩ := q
        simp only [hr2] at hr
        cases hr
        obtain ⟨a, b⟩ := quiet_step hI hq hs (hn e (by simp))
        have ih := quiet_run es mac s1 _ os2 (inv_step hI hs) a (fun e' he' => hn e' (by simp [he'])) hr2
        simp [forgedCount, b, ih]

/-- frames a loop writes -/
def loopFrame : Out → Bool
  | .forged _ => true
  | .restoring _ => true
  | _ => false

/-- **after Close no loop writes anything**: no forged announcement and no restoring request, whatever
    happens (a loop past its lookup holds the mutex Close needs, so none is when Close runs) -/
theorem closed_step {s s' : State} {e : Event} {o : Out} (h : Inv s) (hc : s.closed = true)
    (hs : step s e = some (s', o)) : s'.closed = true ∧ loopFrame o = false := by
  cases e with
  | rxOther => simp only [step] at hs; cases hs; exact ⟨hc, rfl⟩
  | rxProbe a b c d => simp only [step] at hs; split at hs <;> (cases hs; exact ⟨hc, rfl⟩)
  | close =>
    simp only [step] at hs
    split at hs
    · cases hs; exact ⟨rfl, rfl⟩
    · cases hs
  | stopHunt m _ip =>
    simp only [step] at hs
    split at hs
    · cases hs; exact ⟨hc, rfl⟩
    · cases hs
  | rxRequest _esrc smac tr =>
    simp only [step] at hs
    split at hs
    · split at hs <;> (cases hs; exact ⟨hc, rfl⟩)
    · cases hs
  | reply smac =>
    simp only [step] at hs
    split at hs
    · cases hs; exact ⟨hc, rfl⟩
    · cases hs
  | startHunt m v =>
    simp only [step] at hs
    split at hs
    · cases hs; exact ⟨hc, rfl⟩
    · split at hs
      · cases hs
      · split at hs <;> (cases hs; exact ⟨hc, rfl⟩)
  | check i =>
    simp only [step] at hs
    split at hs
    · cases hs; exact ⟨hc, rfl⟩
    · cases hs
  | restore i =>
    simp only [step] at hs
    split at hs
    · rename_i hp; have := (h.restoreOK i hp).2.2; rw [hc] at this; cases this
    · cases hs
  | forge i =>
    simp only [step] at hs
    split at hs
    · rename_i hp; have := (h.forgeOK i hp).2.2; rw [hc] at this; cases this
    · cases hs
  | wake i =>
    simp only [step] at hs
    split at hs
    · cases hs; exact ⟨hc, rfl⟩
    · cases hs

theorem closed_run : ∀ (tr : List Event) (s s' : State) (os : List Out),
    Inv s → s.closed = true → run s tr = some (s', os) → ∀ o ∈ os, loopFrame o = false
  | [], _, _, _, _, _, hr => by simp [run] at hr; obtain ⟨_, rfl⟩ := hr; simp
  | e :: es, s, s', os, hI, hc, hr => by
    simp only [run] at hr
    cases hs : step s e with
    | none => simp [hs] at hr
    | some p =>
      obtain ⟨s1, o⟩ := p
      simp only [hs] at hr
      cases hr2 : run s1 es with
      | none => simp [hr2] at hr
      | some q =>
        obtain ⟨s2, os2⟩ := q
        simp only [hr2] at hr
        cases hr
        obtain ⟨a, b⟩ := closed_step hI hc hs
        have ih := closed_run es s1 _ os2 (inv_step hI hs) a hr2
        intro o' ho'
        simp at ho'
        rcases ho' with rfl | ho'
        · exact b
        · exact ih o' ho'

/-! ### the restoring request of a stopped loop -/

def forgesOf (i : Nat) : List Event → Nat
  | [] => 0
  | .forge j :: rest => (if j = i then 1 else 0) + forgesOf i rest
  | _ :: rest => forgesOf i rest

def restoresOf (i : Nat) : List Event → Nat
  | [] => 0
  | .restore j :: rest => (if j = i then 1 else 0) + restoresOf i rest
  | _ :: rest => restoresOf i rest

/-- restoring requests the loop may still write -/
def restoreBudget (s : State) (i : Nat) : Nat :=
  match (s.loops i).pc with
  | .done => 0
  | _ => 1

/-- what one step does to a stopped loop (its MAC is not in the hunt list) -/
structure StepOK (s s' : State) (e : Event) (i : Nat) : Prop where
  idx : i < s'.nloops
  mac : (s'.loops i).mac = (s.loops i).mac
  stopped : (s'.loops i).mac ∉ s'.hunt
  noForge : e ≠ .forge i
  restore : restoreBudget s' i + (if e = .restore i then 1 else 0) ≤ restoreBudget s i
  restoreEq : s'.closed = false → restoreBudget s' i + (if e = .restore i then 1 else 0) = restoreBudget s i

theorem stopped_step {s s' : State} {e : Event} {o : Out} (h : Inv s) (i : Nat) (hi : i < s.nloops)
    (hb : (s.loops i).mac ∉ s.hunt) (hs : step s e = some (s', o)) (hn : e ≠ .startHunt (s.loops i).mac true) :
    StepOK s s' e i := by
  have hq := (quiet_step h hb hs hn).1
  -- a step that leaves loop `i` alone
  have frame : s'.loops i = s.loops i → s.nloops ≤ s'.nloops → e ≠ .forge i → e ≠ .restore i → StepOK s s' e i := by
    intro hl hn' h1 h2
    refine ⟨by omega, by rw [hl], by rw [hl]; exact hq, h1, ?_, ?_⟩
    · simp [h2, restoreBudget, hl]
    · intro _; simp [h2, restoreBudget, hl]
  have other : ∀ j pc hd, j ≠ i → s' = { setPc s j pc with holder := hd } → e ≠ .forge i → e ≠ .restore i →
      StepOK s s' e i := by
    intro j pc hd hj he h1 h2
    subst he
    exact frame (setPc_other _ _ _ _ (fun h => hj h.symm)) (Nat.le_refl _) h1 h2
  -- loop `i` itself moves to pc' (not through forge: its MAC is not hunted)
  have self : ∀ pc' hd, s' = { setPc s i pc' with holder := hd } → e ≠ .forge i →
      restoreBudget s' i + (if e = .restore i then 1 else 0) ≤ restoreBudget s i →
      (s'.closed = false → restoreBudget s' i + (if e = .restore i then 1 else 0) = restoreBudget s i) →
      StepOK s s' e i := by
    intro pc' hd he h1 h2 h3
    refine ⟨by subst he; exact hi, by subst he; exact setPc_mac _ _ _ _, ?_, h1, h2, h3⟩
    have : (s'.loops i).mac = (s.loops i).mac := by subst he; exact setPc_mac _ _ _ _
    rw [this]; exact hq
  cases e with
  | rxOther => simp only [step] at hs; cases hs; exact frame rfl (Nat.le_refl _) (by simp) (by simp)
  | rxProbe a b c d =>
    simp only [step] at hs
    split at hs <;> (cases hs; exact frame rfl (Nat.le_refl _) (by simp) (by simp))
  | rxRequest _e a b =>
    simp only [step] at hs
    split at hs
    · split at hs <;> (cases hs; exact frame rfl (Nat.le_refl _) (by simp) (by simp))
    · cases hs
  | reply a =>
    simp only [step] at hs
    split at hs
    · cases hs; exact frame rfl (Nat.le_refl _) (by simp) (by simp)
    · cases hs
  | close =>
    simp only [step] at hs
    split at hs
    · cases hs; exact frame rfl (Nat.le_refl _) (by simp) (by simp)
    · cases hs
  | stopHunt mac _ip =>
    simp only [step] at hs
    split at hs
    · cases hs; exact frame rfl (Nat.le_refl _) (by simp) (by simp)
    · cases hs
  | startHunt mac v =>
    simp only [step] at hs
    split at hs
    · cases hs; exact frame rfl (Nat.le_refl _) (by simp) (by simp)
    · split at hs
      · cases hs
      · split at hs
        · cases hs; exact frame rfl (Nat.le_refl _) (by simp) (by simp)
        · cases hs
          have hne : i ≠ s.nloops := by omega
          exact frame (by simp only [updLoop_other _ _ _ _ hne]) (by simp) (by simp) (by simp)
  | check j =>
    simp only [step] at hs
    split at hs
    · rename_i hcf
      by_cases hji : j = i
      · subst hji
        split at hs
        · rename_i hcl
          cases hs
          refine self .done s.holder rfl (by simp) ?_ ?_
          · simp [restoreBudget]
          · intro hc; simp at hc; rw [hc] at hcl; cases hcl
        · cases hs
          refine self .restore _ rfl (by simp) ?_ ?_
          · simp [restoreBudget, hcf.1]
          · intro _; simp [restoreBudget, hcf.1]
      · split at hs
        · cases hs; exact other j _ s.holder hji rfl (by simp) (by simp)
        · split at hs <;> (cases hs; exact other j _ _ hji rfl (by simp) (by simp))
    · cases hs
  | restore j =>
    simp only [step] at hs
    split at hs
    · rename_i hc
      cases hs
      by_cases hji : j = i
      · subst hji
        refine self .done _ rfl (by simp) ?_ ?_
        · simp [restoreBudget, hc]
        · intro _; simp [restoreBudget, hc]
      · exact other j _ _ hji rfl (by simp) (by simp [hji])
    · cases hs
  | forge j =>
    simp only [step] at hs
    split at hs
    · rename_i hc
      cases hs
      by_cases hji : j = i
      · subst hji; exact absurd (h.forgeOK j hc).2.1 hb
      · exact other j _ _ hji rfl (by simp [hji]) (by simp)
    · cases hs
  | wake j =>
    simp only [step] at hs
    split at hs
    · rename_i hc
      cases hs
      by_cases hji : j = i
      · subst hji
        refine self .check s.holder rfl (by simp) ?_ ?_
        · simp [restoreBudget, hc]
        · intro _; simp [restoreBudget, hc]
      · exact other j _ s.holder hji rfl (by simp) (by simp)
    · cases hs

theorem closed_mono {s s' : State} {e : Event} {o : Out} (hs : step s e = some (s', o)) (hc : s'.closed = false) :
    s.closed = false := by
  cases hcl : s.closed with
  | false => rfl
  | true =>
    have : s'.closed = true := by
      cases e <;> simp only [step] at hs <;> (try split at hs) <;> (try split at hs) <;> (try split at hs) <;>
        first | (cases hs; simp_all [setPc]) | cases hs
    rw [this] at hc; cases hc

theorem closed_mono_run : ∀ (tr : List Event) (s s' : State) (os : List Out), run s tr = some (s', os) →
    s'.closed = false → s.closed = false
  | [], s, s', _, hr, hc => by simp [run] at hr; obtain ⟨rfl, _⟩ := hr; exact hc
  | e :: es, s, s', os, hr, hc => by
    simp only [run] at hr
    cases hs : step s e with
    | none => simp [hs] at hr
    | some p =>
      obtain ⟨s1, o⟩ := p
      simp only [hs] at hr
      cases hr2 : run s1 es with
      | none => simp [hr2] at hr
      | some q =>
        obtain ⟨s2, os2⟩ := q
        simp only [hr2] at hr
        cases hr
        exact closed_mono hs (closed_mono_run es s1 s' os2 hr2 hc)

/-- **a stopped loop over a whole continuation**: no forged announcement, at most one restoring
    request, exactly one once it has finished unless the handler was closed -/
theorem stopped_run : ∀ (tr : List Event) (s s' : State) (os : List Out) (i : Nat), Inv s → i < s.nloops →
    (s.loops i).mac ∉ s.hunt → NoRestart (s.loops i).mac tr → run s tr = some (s', os) →
    forgesOf i tr = 0 ∧
    restoresOf i tr + restoreBudget s' i ≤ restoreBudget s i ∧
    (s'.closed = false → restoresOf i tr + restoreBudget s' i = restoreBudget s i)
  | [], s, s', _, i, _, _, _, _, hr => by
    simp [run] at hr
    obtain ⟨rfl, _⟩ := hr
    simp [forgesOf, restoresOf]
  | e :: es, s, s', os, i, hI, hi, hb, hn, hr => by
    simp only [run] at hr
    cases hs : step s e with
    | none => simp [hs] at hr
    | some p =>
      obtain ⟨s1, o⟩ := p
      simp only [hs] at hr
      cases hr2 : run s1 es with
      | none => simp [hr2] at hr
      | some q =>
        obtain ⟨s2, os2⟩ := q
        simp only [hr2] at hr
        cases hr
        have st := stopped_step hI i hi hb hs (hn e (by simp))
        obtain ⟨ih1, ih2, ih3⟩ := stopped_run es s1 s' os2 i (inv_step hI hs) st.idx st.stopped (by
          rw [st.mac]; intro e' he'; exact hn e' (by simp [he'])) hr2
        have r := st.restore
        have hF : forgesOf i (e :: es) = (if e = .forge i then 1 else 0) + forgesOf i es := by
          cases e <;> simp [forgesOf]
        have hR : restoresOf i (e :: es) = (if e = .restore i then 1 else 0) + restoresOf i es := by
          cases e <;> simp [restoresOf]
        refine ⟨by rw [hF, ih1]; simp [st.noForge], by rw [hR]; omega, ?_⟩
        intro hc
        have hc1 : s1.closed = false := closed_mono_run es s1 s' os2 hr2 hc
        have := st.restoreEq hc1
        have := ih3 hc
        rw [hR]; omega

end PV.Lemmas.ArpHunt
