/-
  Lemmas for the merge algebra (`mergeAttr`, `Names.get/set`) and totality of the NBNS decoders.
-/
import PacketVerif.Lemmas.DnsRR
import PacketVerif.Model.Naming
import PacketVerif.Spec.NbnsWire
namespace PV.Lemmas.Naming
open PV PV.Model PV.Spec PV.Lemmas.Dns

theorem mergeAttr_no_erase (c n : Bytes) : (mergeAttr c n).1 = [] → c = [] := by
  unfold mergeAttr; split <;> simp_all

theorem mergeAttr_changed (c n : Bytes) : (mergeAttr c n).2 = true ↔ (mergeAttr c n).1 ≠ c := by
  unfold mergeAttr
  split
  next h => simp; exact fun hh => h.2 hh.symm
  next h => simp

theorem mergeAttr_idem (c n : Bytes) : mergeAttr (mergeAttr c n).1 n = ((mergeAttr c n).1, false) := by
  unfold mergeAttr
  split
  next h => simp
  next h => simp only []

theorem mergeAttr_fst (c n : Bytes) : (mergeAttr c n).1 = if n ≠ [] ∧ c ≠ n then n else c := by
  unfold mergeAttr; split <;> rfl

theorem get_set_same (ns : Names) (s : Source) (e : NameEntry) : (ns.set s e).get s = e := by
  cases s <;> rfl

theorem get_set_other (ns : Names) (s s' : Source) (e : NameEntry) (h : s' ≠ s) : (ns.set s e).get s' = ns.get s' := by
  cases s <;> cases s' <;> first | rfl | exact absurd rfl h

theorem set_set (ns : Names) (s : Source) (e e' : NameEntry) : (ns.set s e).set s e' = ns.set s e' := by
  cases s <;> rfl

theorem set_get (ns : Names) (s : Source) : ns.set s (ns.get s) = ns := by
  cases s <;> rfl

/-! ### NBNS decoders never panic -/

theorem nbnsPairs_returns : ∀ (n : Nat) (buf : Bytes) (i : Nat), i + 2 * n ≤ buf.length → Returns (nbnsPairs n buf i) := by
  intro n
  induction n with
  | zero => intro buf i _; exact returns_ok _
  | succ k ih =>
    intro buf i h
    rw [nbnsPairs, idx_ok (by omega), idx_ok (by omega)]
    simp only []
    have := ih buf (i + 2) (by omega)
    cases hr : nbnsPairs k buf (i + 2) with
    | ok v => exact returns_ok _
    | err e => exact returns_err _
    | panic => exact absurd hr this.1
    | hang => exact absurd hr this.2

theorem decodeNBNSName_returns (buf : Bytes) : Returns (decodeNBNSName buf) := by
  unfold decodeNBNSName
  split
  · exact returns_err _
  next h =>
    rw [idx_ok (by omega), idx_ok (by omega)]
    simp only []
    split
    · exact returns_err _
    split
    · exact returns_err _
    · unfold sliceFrom
      rw [if_pos (by omega)]
      simp only []
      have := nbnsPairs_returns 16 (buf.drop 1) 0 (by simp; omega)
      cases hr : nbnsPairs 16 (buf.drop 1) 0 with
      | ok v => exact returns_ok _
      | err e => exact returns_err _
      | panic => exact absurd hr this.1
      | hang => exact absurd hr this.2

theorem nodeNames_returns : ∀ (c : Nat) (b : Bytes) (i : Nat), 18 * (i + c) ≤ b.length → Returns (nodeNames c b i) := by
  intro c
  induction c with
  | zero => intro b i _; exact returns_ok _
  | succ k ih =>
    intro b i h
    rw [nodeNames]
    have e : 18 * i + 18 = 18 * i + 16 + 2 := by omega
    rw [e, slice2 (by omega)]
    simp only []
    have hrec := ih b (i + 1) (by omega)
    split
    · rw [slice_ok (by omega) (by omega)]
      simp only []
      cases hr : nodeNames k b (i + 1) with
      | ok v => exact returns_ok _
      | err e => exact returns_err _
      | panic => exact absurd hr hrec.1
      | hang => exact absurd hr hrec.2
    · exact hrec

theorem parseNodeNameArray_returns (b : Bytes) : Returns (parseNodeNameArray b) := by
  unfold parseNodeNameArray
  split
  · exact returns_err _
  · split
    · exact returns_err _
    · apply nodeNames_returns; omega

theorem nbnsNodeStatus_returns (b : Bytes) : Returns (nbnsNodeStatus b) := by
  unfold nbnsNodeStatus
  split
  · exact returns_err _
  · exact parseNodeNameArray_returns b

/-! ### node name array = RFC 1002 reference -/

theorem trim_eq_stripPad (nm : Bytes) : trimRight (trimRight nm 0) 32 = stripPad nm := by
  simp [trimRight, stripPad]

set_option maxRecDepth 100000 in
theorem group_bit_fin : ∀ i : Fin 256, (UInt8.ofNat i.val &&& 0x80 == 0) = decide (i.val < 128) := by decide

theorem group_bit (b : UInt8) : (b &&& 0x80 == 0) = decide (b.toNat < 128) := by
  have := group_bit_fin ⟨b.toNat, b.toNat_lt⟩
  simpa [ofNat_toNat] using this

theorem nodeNames_eq_spec : ∀ (c : Nat) (b : Bytes) (i : Nat), 18 * (i + c) ≤ b.length →
    ∃ l, nodeNameArray c (b.drop (18 * i)) = some l ∧ nodeNames c b i = .ok l := by
  intro c
  induction c with
  | zero => intro b i _; exact ⟨[], rfl, rfl⟩
  | succ k ih =>
    intro b i h
    obtain ⟨l, h1, h2⟩ := ih b (i + 1) (by omega)
    rw [nodeNames, nodeNameArray]
    have e : 18 * i + 18 = 18 * i + 16 + 2 := by omega
    rw [e, slice2 (by omega)]
    simp only []
    have hlen : ¬ ((b.drop (18 * i)).length < 18) := by simp only [List.length_drop]; omega
    rw [if_neg hlen]
    have hfl : (b.drop (18 * i))[16]? = some (b[18 * i + 16]'(by omega)) := by
      rw [List.getElem?_drop, List.getElem?_eq_getElem (by omega)]
    have hdd : (b.drop (18 * i)).drop 18 = b.drop (18 * (i + 1)) := by
      rw [List.drop_drop]; congr 1
    rw [hfl, hdd, h1]
    simp only []
    rw [group_bit]
    by_cases hg : (b[18 * i + 16]'(by omega)).toNat < 128
    · simp only [hg, decide_true, if_true]
      rw [slice_ok (by omega) (by omega), h2]
      simp only []
      refine ⟨_, rfl, ?_⟩
      rw [trim_eq_stripPad, slice_eq_drop_take]
      have : 18 * i + 16 - 18 * i = 16 := by omega
      rw [this]
    · simp only [hg, decide_false, if_false, Bool.false_eq_true]
      exact ⟨l, rfl, h2⟩

/-- parseNodeNameArray = the RFC 1002 reference on every input -/
theorem parseNodeNameArray_eq_spec (n : UInt8) (rest : Bytes) :
    parseNodeNameArray (n :: rest) =
      (if rest.length < n.toNat * 18 then .err .frameLen
       else match nodeNameArray n.toNat rest with
         | some l => .ok l
         | none => .err .frameLen) := by
  unfold parseNodeNameArray
  simp only []
  split
  · rfl
  next hl =>
    obtain ⟨l, h1, h2⟩ := nodeNames_eq_spec n.toNat rest 0 (by omega)
    simp at h1
    rw [h1, h2]

end PV.Lemmas.Naming
