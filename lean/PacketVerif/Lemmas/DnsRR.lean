/-
  Totality (no panic, no hang) of the question / resource-record decoders and of ProcessDNS.
-/
import PacketVerif.Lemmas.DnsName
import PacketVerif.Model.DnsRR
namespace PV.Lemmas.Dns
open PV PV.Model

/-- `x` returned: a value or an error -/
def Returns {α : Type} (x : Outcome α) : Prop := x ≠ .panic ∧ x ≠ .hang

theorem returns_ok {α} (a : α) : Returns (Outcome.ok a) := by simp [Returns]
theorem returns_err {α} (e : Err) : Returns (Outcome.err e : Outcome α) := by simp [Returns]

theorem slice4 {b : Bytes} {i : Nat} (h : i + 4 ≤ b.length) :
    slice b i (i + 4) = .ok [b[i]'(by omega), b[i+1]'(by omega), b[i+2]'(by omega), b[i+3]'(by omega)] := by
  rw [slice_ok (by omega) h, slice_eq_drop_take]
  have : i + 4 - i = 4 := by omega
  rw [this]
  have e1 : b.drop i = b[i] :: b.drop (i + 1) := List.drop_eq_getElem_cons (by omega)
  have e2 : b.drop (i + 1) = b[i + 1] :: b.drop (i + 2) := List.drop_eq_getElem_cons (by omega)
  have e3 : b.drop (i + 2) = b[i + 2] :: b.drop (i + 3) := List.drop_eq_getElem_cons (by omega)
  have e4 : b.drop (i + 3) = b[i + 3] :: b.drop (i + 4) := List.drop_eq_getElem_cons (by omega)
  rw [e1, e2, e3, e4]; rfl

theorem rd16_ok {p : Bytes} {i : Nat} (h : i + 2 ≤ p.length) : ∃ v, rd16 p i = .ok v := by
  unfold rd16; rw [slice2 h]; exact ⟨_, rfl⟩

theorem rd32_ok {p : Bytes} {i : Nat} (h : i + 4 ≤ p.length) : ∃ v, rd32 p i = .ok v := by
  unfold rd32; rw [slice4 h]; exact ⟨_, rfl⟩

theorem decodeName_cases (data : Bytes) (offset : Int) :
    (∃ n e, decodeName data offset 1 = .ok (n, e)) ∨ (∃ er, decodeName data offset 1 = .err er) := by
  have := decodeName_safe data offset 1 (Nat.le_refl _)
  cases h : decodeName data offset 1 with
  | ok v => left; exact ⟨v.1, v.2, rfl⟩
  | err er => right; exact ⟨er, rfl⟩
  | panic => exact absurd h this.1
  | hang => exact absurd h this.2

theorem decodeQuestion_returns (p : Bytes) (index : Int) : Returns (decodeQuestion p index) := by
  unfold decodeQuestion
  split
  · exact returns_err _
  next h12 =>
    obtain ⟨qd, hqd⟩ := rd16_ok (p := p) (i := 4) (by omega)
    rw [hqd]
    simp only []
    split
    · exact returns_err _
    split
    · exact returns_err _
    rcases decodeName_cases p index with ⟨n, e, hn⟩ | ⟨er, hn⟩
    · rw [hn]
      simp only []
      split
      · exact returns_err _
      next hle =>
        obtain ⟨t, ht⟩ := rd16_ok (p := p) (i := e) (by omega)
        obtain ⟨c, hc⟩ := rd16_ok (p := p) (i := e + 2) (by omega)
        rw [ht, hc]
        exact returns_ok _
    · rw [hn]; exact returns_err _

theorem decodeRR_returns (ip6 : Bytes → PtrIP) (e : DNSEntry) (p : Bytes) (offset : Int) :
    Returns (decodeRR ip6 e p offset) := by
  unfold decodeRR
  rcases decodeName_cases p offset with ⟨n, endq, hn⟩ | ⟨er, hn⟩
  · rw [hn]
    simp only []
    split
    · exact returns_err _
    next hle =>
      obtain ⟨t, ht⟩ := rd16_ok (p := p) (i := endq) (by omega)
      obtain ⟨ttl, httl⟩ := rd32_ok (p := p) (i := endq + 4) (by omega)
      obtain ⟨dl, hdl⟩ := rd16_ok (p := p) (i := endq + 8) (by omega)
      rw [ht, httl, hdl]
      simp only []
      split
      · exact returns_err _
      next hoff =>
        split
        · split
          · exact returns_err _
          next h4 =>
            rw [slice_ok (by omega) (by omega)]
            simp only []
            split <;> exact returns_ok _
        split
        · split
          · exact returns_err _
          next h16 =>
            rw [slice_ok (by omega) (by omega)]
            simp only []
            split <;> exact returns_ok _
        split
        · rcases decodeName_cases p ((endq + 10 : Nat) : Int) with ⟨cn, ce, hc⟩ | ⟨er, hc⟩
          · rw [hc]; simp only []; split <;> exact returns_ok _
          · rw [hc]; exact returns_err _
        split
        · exact returns_ok _
        split
        · split
          · exact returns_ok _
          · exact returns_ok _
          · rcases decodeName_cases p ((endq + 10 : Nat) : Int) with ⟨cn, ce, hc⟩ | ⟨er, hc⟩
            · rw [hc]; simp only []; split <;> exact returns_ok _
            · rw [hc]; exact returns_err _
        · exact returns_ok _
  · rw [hn]; exact returns_err _

theorem decodeRRs_returns (ip6 : Bytes → PtrIP) : ∀ (count : Nat) (e : DNSEntry) (p : Bytes) (offset : Int) (u : Bool),
    Returns (decodeRRs ip6 count e p offset u).2 := by
  intro count
  induction count with
  | zero => intro e p offset u; exact returns_ok _
  | succ n ih =>
    intro e p offset u
    rw [decodeRRs]
    have := decodeRR_returns ip6 e p offset
    cases h : decodeRR ip6 e p offset with
    | ok v => obtain ⟨e', off', u'⟩ := v; simp only []; exact ih _ _ _ _
    | err er => exact returns_err _
    | panic => exact absurd h this.1
    | hang => exact absurd h this.2

theorem decodeAnswers_returns (ip6 : Bytes → PtrIP) (e : DNSEntry) (p : Bytes) (offset : Int) :
    Returns (decodeAnswers ip6 e p offset).2 := by
  unfold decodeAnswers
  split
  · exact returns_err _
  next h12 =>
    obtain ⟨an, han⟩ := rd16_ok (p := p) (i := 6) (by omega)
    rw [han]
    exact decodeRRs_returns ip6 _ _ _ _ _

theorem processDNS_returns (ip6 : Bytes → PtrIP) (t : DNSTable) (p : Bytes) : Returns (processDNS ip6 t p).2 := by
  unfold processDNS
  split
  · exact returns_err _
  · have hq := decodeQuestion_returns p 12
    cases h : decodeQuestion p 12 with
    | ok v =>
      obtain ⟨q, index⟩ := v
      simp only []
      have ha := decodeAnswers_returns ip6 (match t.find q.name with | some e => e | none => DNSEntry.empty q.name) p index
      cases hr : (decodeAnswers ip6 (match t.find q.name with | some e => e | none => DNSEntry.empty q.name) p index) with
      | mk e' r =>
        rw [hr] at ha
        simp only [] at ha ⊢
        cases r with
        | ok v => obtain ⟨o, u⟩ := v; simp only []; split <;> exact returns_ok _
        | err er => exact returns_err _
        | panic => exact absurd rfl ha.1
        | hang => exact absurd rfl ha.2
    | err er => exact returns_err _
    | panic => exact absurd h hq.1
    | hang => exact absurd h hq.2

end PV.Lemmas.Dns
