/-
  Ties of the regenerated message handlers handleDecline / handleRelease / handleDiscover of the
  DHCPv4 server to Model/Dhcp4Srv.lean (`decline`, `release`, `discover`).  States are compared after
  `touch · (clientId m)` (the model re-inserts the client's entry at the head of its association
  list, the code rewrites it in place).
-/
import PacketVerif.Lemmas.DhcpSrvTieA
namespace PV.Lemmas.DhcpSrvTie
open PV PV.Model.Dhcp4Srv PV.Model.DhcpSrvGo PV.Lemmas.Dhcp4Srv PV.Gen.DhcpSrv

/-- `s2` differs from `s` in the entry of `c` and the cursors only -/
structure Frame (c : Cid) (s s2 : State) : Prop where
  del : delLease s2.table c = delLease s.table c
  hosts : s2.hosts = s.hosts
  captured : s2.captured = s.captured

theorem frame_refl (c : Cid) (s : State) : Frame c s s := ⟨rfl, rfl, rfl⟩

theorem frame_updL {c : Cid} {s s2 : State} (h : Frame c s s2) (f : Lease → Lease) : Frame c s (updL s2 c f) :=
  ⟨by rw [delLease_updL]; exact h.del, h.hosts, h.captured⟩

theorem frame_setCursor {c : Cid} {s s2 : State} (h : Frame c s s2) (sub : SubId) (n : IP) : Frame c s (setCursor s2 sub n) := by
  cases sub <;> exact ⟨h.del, h.hosts, h.captured⟩

theorem frame_foc (cfg : Cfg) (s : State) (c : Cid) (mac : MAC) : Frame c s (Handler_findOrCreate cfg s c mac).1 := by
  obtain ⟨h1, h2, _, _, h5, _⟩ := findOrCreate_fields cfg s c mac
  exact ⟨h5, h1, h2⟩

theorem setLease_eq_of_del {t t' : Table} {c : Cid} (h : delLease t' c = delLease t c) (l : Lease) : setLease t' c l = setLease t c l := by
  unfold setLease; rw [h]

theorem touch_of_frame {c : Cid} {s s2 : State} (h : Frame c s s2) {l2 : Lease} (h2 : Has s2 c l2) :
    touch s2 c = { table := setLease s.table c l2, next1 := s2.next1, next2 := s2.next2, hosts := s.hosts, captured := s.captured } := by
  rw [touch_has h2, setLease_eq_of_del h.del]
  cases s2; cases s
  simp only [State.mk.injEq, true_and]
  exact ⟨h.hosts, h.captured⟩

theorem touch_set (s : State) (c : Cid) (l : Lease) :
    touch { s with table := setLease s.table c l } c = { s with table := setLease s.table c l } := by
  have h : Has ({ s with table := setLease s.table c l }) c l := getLease_setLease_self s.table c l
  rw [touch_has h]
  simp only [setLease_setLease]

theorem touch_del (s : State) (t : Table) (c : Cid) :
    touch { s with table := delLease t c } c = { s with table := delLease t c } := by
  unfold touch
  simp only [getLease_delLease_self]

theorem inUse_frame {c : Cid} {s s2 : State} (h : Frame c s s2) (o : Option IP) : inUse s2.table c o = inUse s.table c o := by
  rw [← inUse_delLease s2.table, h.del, inUse_delLease]

theorem sessionKnows_frame {c : Cid} {s s2 : State} (h : Frame c s s2) (a : IP) : sessionKnows s2 a = sessionKnows s a := by
  unfold sessionKnows; rw [h.hosts]

theorem takenByOther_frame {c : Cid} {s s2 : State} (h : Frame c s s2) (mac : MAC) (o : Option IP) :
    takenByOther s2 mac o = takenByOther s mac o := by
  unfold takenByOther
  cases o with
  | none => rfl
  | some a => simp only [sessionKnows_frame h]

theorem isCaptured_frame {c : Cid} {s s2 : State} (h : Frame c s s2) (mac : MAC) : isCaptured s2 mac = isCaptured s mac := by
  unfold isCaptured; rw [h.captured]

theorem sameAddr_eq (req : AddrV) (o : Option IP) : sameAddr req o = (AddrV.ofOpt o == req) := by
  rw [Bool.eq_iff_iff]
  cases req <;> cases o <;> simp [sameAddr, AddrV.ofOpt]
  exact eq_comm

/-! ### handleRelease -/

theorem handleRelease_tie (cfg : Cfg) (s : State) (m : Msg) :
    touch (Handler_handleRelease cfg s m).1 (clientId m) = touch (release cfg s m).1 (clientId m)
      ∧ (Handler_handleRelease cfg s m).2.toList = (release cfg s m).2 := by
  unfold Handler_handleRelease release
  simp only [getClientID_tie, ite_self, Option.toList]
  refine ⟨?_, trivial⟩
  rw [touch_set, touch_of_frame (frame_foc cfg s _ _) (findOrCreate_has cfg s _ _)]
  obtain ⟨_, _, h3, h4, _, _⟩ := findOrCreate_fields cfg s (clientId m) m.chaddr
  rw [h3, h4]

/-! ### handleDecline -/

theorem handleDecline_tie (cfg : Cfg) (s : State) (m : Msg) :
    touch (Handler_handleDecline cfg s m).1 (clientId m) = touch (decline cfg s m).1 (clientId m)
      ∧ (Handler_handleDecline cfg s m).2.toList = (decline cfg s m).2 := by
  have hfr := frame_foc cfg s (clientId m) m.chaddr
  have hhas := findOrCreate_has cfg s (clientId m) m.chaddr
  obtain ⟨_, _, h3, h4, _, h6⟩ := findOrCreate_fields cfg s (clientId m) m.chaddr
  unfold Handler_handleDecline decline
  simp only [getClientID_tie, h6, has_L hhas, sameAddr_eq]
  generalize hl : findOrCreate s (clientId m) m.chaddr = l at *
  generalize hs1 : (Handler_findOrCreate cfg s (clientId m) m.chaddr).1 = s1 at *
  by_cases hsrv : addrFromSlice (optBytes m.srvOpt) = AddrV.v4 (cfg.sub l.sub).server
  · have e1 : (AddrV.v4 (cfg.sub l.sub).server != addrFromSlice (optBytes m.srvOpt)) = false := by simp [hsrv]
    have e2 : (addrFromSlice (optBytes m.srvOpt) != AddrV.v4 (cfg.sub l.sub).server) = false := by simp [hsrv]
    simp only [e1, e2, Bool.false_eq_true, if_false, Bool.false_or]
    by_cases hbad : ((AddrV.ofOpt l.ip != addrFromSlice (optBytes m.reqOpt)) || !(l.mac == m.chaddr)) = true
    · have hbad' : ((!(AddrV.ofOpt l.ip == addrFromSlice (optBytes m.reqOpt))) || (l.mac != m.chaddr)) = true := by
        simpa [bne] using hbad
      rw [if_pos hbad, if_pos hbad']
      simp only [ite_self, Option.toList, and_true]
      rw [touch_set, touch_of_frame hfr hhas, h3, h4]
    · have hbad' : ¬ ((!(AddrV.ofOpt l.ip == addrFromSlice (optBytes m.reqOpt))) || (l.mac != m.chaddr)) = true := by
        simpa [bne] using hbad
      rw [if_neg hbad, if_neg hbad']
      simp only [Option.toList, and_true]
      rw [touch_set]
      rw [touch_of_frame (frame_updL (frame_updL (frame_updL hfr _) _) _) (has_updL (has_updL (has_updL hhas _) _) _)]
      simp only [updL_next1, updL_next2, h3, h4, toOpt_invalid]
  · have e1 : (AddrV.v4 (cfg.sub l.sub).server != addrFromSlice (optBytes m.srvOpt)) = true := by
      simp only [bne_iff_ne, ne_eq]; exact fun h => hsrv h.symm
    have e2 : (addrFromSlice (optBytes m.srvOpt) != AddrV.v4 (cfg.sub l.sub).server) = true := by
      simp only [bne_iff_ne, ne_eq]; exact hsrv
    simp only [e1, e2, if_true, Option.toList, and_true]
    rw [touch_set, touch_of_frame hfr hhas, h3, h4]

end PV.Lemmas.DhcpSrvTie
