/-
  Composition of the separately proved models: what the byte-level `Model.parse` decodes is what the
  host-table machine (`Model.Tables`) and the ping-waiter machine (`Model.Ping`) consume.

  This file has (1) the translation functions from the byte world to the table / ping world
  (`ipOfBytes`, `cfgOf`, `frameEvOf`, `echoOf`, `pingEventOf`), written directly over the frame bytes
  with the cursor vocabulary of `Spec.decode` (`at_`, `u16`, `field`), (2) the bridging lemmas between
  the byte-level `Model.Netip` predicates and the numeric predicates of `Tables.IP`, and (3) the
  projections of `Spec.decode` that the composition theorems of `Props/Compose.lean` need.
-/
import PacketVerif.Lemmas.Parse
import PacketVerif.Model.Tables
import PacketVerif.Model.Ping
namespace PV.Lemmas.Compose
open PV PV.Model PV.Lemmas
open PV.Spec (at_ u16 field)

/-! ### translation functions -/

/-- `netip.Addr` from its bytes: 4 bytes ↦ IPv4 (big-endian number), 16 bytes ↦ IPv6, else the zero Addr -/
def ipOfBytes (b : Bytes) : Tables.IP :=
  if b.length = 4 then .v4 (Netip.toNat b)
  else if b.length = 16 then .v6 (Netip.toNat b)
  else .none

/-- the table-machine configuration that corresponds to a byte-level configuration; the fields the
    byte level does not have (own / router IPv4, LLA, deadlines) are taken from `base` -/
def cfgOf (c : Model.Cfg) (base : Tables.Cfg := default) : Tables.Cfg :=
  { base with
    hostMAC := c.hostMAC
    routerMAC := c.routerMAC
    lanValid := c.lanAddr.length == 4 && decide (c.lanBits ≤ 32)
    lanBase := Netip.toNat c.lanAddr
    lanBits := c.lanBits }

/-- length of the Ethernet header incl. 802.1Q / 802.1ad tags -/
def hdrLen (p : Bytes) : Nat :=
  if u16 p 12 == 0x8100 then 18 else if u16 p 12 == 0x88a8 then 22 else 14

/-- `Ether.IsValid` -/
def etherOK (p : Bytes) : Bool := decide (14 ≤ p.length ∧ hdrLen p ≤ p.length)

/-- the Ethernet source has the group bit clear -/
def srcUnicast (p : Bytes) : Bool := at_ p 6 % 2 == 0

/-- EtherType 0x0800 and a valid IPv4 header (RFC 791 lengths) at offset 14 -/
def ip4OK (p : Bytes) : Bool :=
  decide (14 ≤ p.length ∧ u16 p 12 = 0x0800 ∧ 20 ≤ p.length - 14 ∧ 20 ≤ at_ p 14 % 16 * 4 ∧
    at_ p 14 % 16 * 4 ≤ p.length - 14 ∧ at_ p 14 % 16 * 4 ≤ u16 p 16 ∧ u16 p 16 ≤ p.length - 14)

/-- EtherType 0x86dd and a valid IPv6 header at offset 14 (payload length fills the frame) -/
def ip6OK (p : Bytes) : Bool :=
  decide (14 ≤ p.length ∧ u16 p 12 = 0x86dd ∧ 40 ≤ p.length - 14 ∧ u16 p 18 + 40 = p.length - 14)

/-- EtherType 0x0806, at least 28 bytes of ARP, hardware address length 6 -/
def arpOK (p : Bytes) : Bool :=
  decide (14 ≤ p.length ∧ u16 p 12 = 0x0806 ∧ 28 ≤ p.length - 14 ∧ at_ p 18 = 6)

def kindOf (p : Bytes) : Tables.FKind :=
  if ip4OK p then .ip4 else if ip6OK p then .ip6 else if arpOK p then .arp else .other

/-- (protocol / next header, offset of the IP payload) of a frame with a valid IP header -/
def ipPayload (p : Bytes) : Option (Nat × Nat) :=
  if ip4OK p then some (at_ p 23, 14 + at_ p 14 % 16 * 4)
  else if ip6OK p then some (at_ p 20, 54)
  else none

/-- the UDP ports that Parse classifies as DHCPv4 (first match of the service table: 443 wins) -/
def dhcp4Ports (sp dp : Nat) : Bool := sp != 443 && dp != 443 && (dp == 67 || dp == 68)

/-- the frame is classified `PayloadDHCP4` -/
def dhcp4Of (p : Bytes) : Bool :=
  srcUnicast p &&
  match ipPayload p with
  | some (proto, o) => proto == 17 && decide (8 ≤ p.length - o) && dhcp4Ports (u16 p o) (u16 p (o + 2))
  | none => false

/-- the frame event of the table machine, read straight from the frame bytes -/
def frameEvOf (p : Bytes) : Tables.FrameEv :=
  if etherOK p then
    { srcMAC := field p 6 6
      kind := kindOf p
      srcIP := match kindOf p with
        | .ip4 => ipOfBytes (field p 26 4)
        | .ip6 => ipOfBytes (field p 22 16)
        | .arp => ipOfBytes (field p 28 4)
        | .other => .none
      arpMAC := match kindOf p with
        | .arp => field p 22 6
        | _ => []
      dhcp4 := dhcp4Of p }
  else { srcMAC := [], kind := .other, srcIP := .none, arpMAC := [], dhcp4 := false }

/-- the identifier Parse hands to `echoNotify`, in the vocabulary of the ping machine: the ICMP message
    of a frame with unicast source and valid IP header, classified by `Ping.classify` -/
def echoOf (p : Bytes) : Option Nat :=
  if srcUnicast p then
    match ipPayload p with
    | some (proto, o) =>
      if proto = 1 then Ping.classify false (p.drop o)
      else if proto = 58 then Ping.classify true (p.drop o)
      else none
    | none => none
  else none

/-- the event of the ping machine that a received frame is -/
def pingEventOf (p : Bytes) : Ping.Event :=
  match echoOf p with
  | some id => .echo id
  | none => .other

/-- byte-level description of an echo reply with identifier `id`: unicast source, valid IPv4 / IPv6
    header, ICMPv4 (protocol 1) type 0 or ICMPv6 (protocol 58) type 129, at least 8 bytes of ICMP,
    `id` = big-endian 16 bits at bytes 4–5 of the ICMP message -/
def IsEchoReply (p : Bytes) (id : Nat) : Prop :=
  srcUnicast p = true ∧ ∃ proto o, ipPayload p = some (proto, o) ∧ 8 ≤ p.length - o ∧
    ((proto = 1 ∧ at_ p o = 0) ∨ (proto = 58 ∧ at_ p o = 129)) ∧ id = u16 p (o + 4)

/-! ### bytes ↔ numbers -/

theorem len16 (a : Bytes) (h : a.length = 16) :
    ∃ b0 b1 b2 b3 b4 b5 b6 b7 b8 b9 b10 b11 b12 b13 b14 b15 : UInt8,
      a = [b0,b1,b2,b3,b4,b5,b6,b7,b8,b9,b10,b11,b12,b13,b14,b15] := by
  match a, h with
  | [b0,b1,b2,b3,b4,b5,b6,b7,b8,b9,b10,b11,b12,b13,b14,b15], _ => exact ⟨_,_,_,_,_,_,_,_,_,_,_,_,_,_,_,_, rfl⟩

theorem len4 (a : Bytes) (h : a.length = 4) : ∃ b0 b1 b2 b3 : UInt8, a = [b0,b1,b2,b3] := by
  match a, h with
  | [b0,b1,b2,b3], _ => exact ⟨_,_,_,_, rfl⟩

theorem u8_eq0 (b : UInt8) : b = 0 ↔ b.toNat = 0 :=
  ⟨fun h => by subst h; rfl, fun h => UInt8.toNat_inj.mp (by rw [h]; rfl)⟩
theorem u8_eq255 (b : UInt8) : b = 255 ↔ b.toNat = 255 :=
  ⟨fun h => by subst h; rfl, fun h => UInt8.toNat_inj.mp (by rw [h]; rfl)⟩

/- destructure the 16-byte address `a` (length hypothesis `h`) and record the byte bounds -/
set_option hygiene false in
macro "bytes16" : tactic => `(tactic| (
  obtain ⟨b0,b1,b2,b3,b4,b5,b6,b7,b8,b9,b10,b11,b12,b13,b14,b15, rfl⟩ := len16 a h
  have := b0.toNat_lt; have := b1.toNat_lt; have := b2.toNat_lt; have := b3.toNat_lt
  have := b4.toNat_lt; have := b5.toNat_lt; have := b6.toNat_lt; have := b7.toNat_lt
  have := b8.toNat_lt; have := b9.toNat_lt; have := b10.toNat_lt; have := b11.toNat_lt
  have := b12.toNat_lt; have := b13.toNat_lt; have := b14.toNat_lt; have := b15.toNat_lt))

theorem toNat16_top8 (a : Bytes) (h : a.length = 16) : Netip.toNat a / 2 ^ 120 = Netip.byteAt a 0 := by
  bytes16
  simp [Netip.toNat, Netip.byteAt]
  omega

theorem toNat16_top10 (a : Bytes) (h : a.length = 16) :
    Netip.toNat a / 2 ^ 118 = Netip.byteAt a 0 * 4 + Netip.byteAt a 1 / 64 := by
  bytes16
  simp [Netip.toNat, Netip.byteAt]
  omega

theorem toNat16_low32 (a : Bytes) (h : a.length = 16) : Netip.toNat a % 2 ^ 32 = Netip.toNat (a.drop 12) := by
  bytes16
  simp [Netip.toNat]
  omega

theorem toNat16_zero (a : Bytes) (h : a.length = 16) : (Netip.toNat a == 0) = a.all (· == 0) := by
  bytes16
  rw [Bool.eq_iff_iff]
  simp [Netip.toNat, u8_eq0]
  omega

theorem toNat16_one (a : Bytes) (h : a.length = 16) :
    (Netip.toNat a == 1) = ((a.take 15).all (· == 0) && Netip.byteAt a 15 == 1) := by
  bytes16
  rw [Bool.eq_iff_iff]
  simp [Netip.toNat, Netip.byteAt, u8_eq0]
  omega

/-- `Is4In6` on the bytes = on the 128-bit number -/
theorem is4in6_eq (a : Bytes) (h : a.length = 16) : Netip.is4in6 a = Tables.IP.is4in6 (Netip.toNat a) := by
  bytes16
  rw [Bool.eq_iff_iff]
  simp [Netip.is4in6, Netip.toNat, Tables.IP.is4in6, u8_eq0, u8_eq255]
  omega

theorem llu4_eq (c : Bytes) (h : c.length = 4) :
    Netip.isLinkLocalUnicast c = Tables.IP.llu4 (Netip.toNat c) := by
  obtain ⟨b0,b1,b2,b3, rfl⟩ := len4 c h
  rw [Bool.eq_iff_iff]
  simp [Netip.isLinkLocalUnicast, Netip.unmap, Netip.is4in6, Netip.is4, Netip.byteAt, Netip.toNat, Tables.IP.llu4]
  have := b0.toNat_lt; have := b1.toNat_lt; have := b2.toNat_lt; have := b3.toNat_lt
  omega

theorem gu4_eq (c : Bytes) (h : c.length = 4) :
    Netip.isGlobalUnicast c = Tables.IP.gu4 (Netip.toNat c) := by
  obtain ⟨b0,b1,b2,b3, rfl⟩ := len4 c h
  rw [Bool.eq_iff_iff]
  simp [Netip.isGlobalUnicast, Netip.isValid, Netip.isLoopback, Netip.isMulticast, Netip.isLinkLocalUnicast,
    Netip.unmap, Netip.is4in6, Netip.is4, Netip.is6, Netip.byteAt, Netip.toNat, Tables.IP.gu4, Tables.IP.llu4,
    u8_eq0, u8_eq255]
  have := b0.toNat_lt; have := b1.toNat_lt; have := b2.toNat_lt; have := b3.toNat_lt
  omega

theorem is4in6_short (c : Bytes) (h : c.length ≠ 16) : Netip.is4in6 c = false := by
  simp [Netip.is4in6, h]

theorem unmap_short (c : Bytes) (h : c.length ≠ 16) : Netip.unmap c = c := by
  simp [Netip.unmap, is4in6_short c h]

theorem byteAt_lt (a : Bytes) (k : Nat) : Netip.byteAt a k < 256 := UInt8.toNat_lt _

/-! ### the bridging lemmas: `Model.Netip` predicates on bytes = `Tables.IP` predicates on numbers -/

/-- `IsLinkLocalUnicast` of an IPv6 source (4in6 included) -/
theorem llu16_eq (a : Bytes) (h : a.length = 16) :
    Netip.isLinkLocalUnicast a = Tables.IP.isLinkLocalUnicast (.v6 (Netip.toNat a)) := by
  simp only [Tables.IP.isLinkLocalUnicast]
  rw [← is4in6_eq a h]
  cases h4 : Netip.is4in6 a
  · have hu : Netip.unmap a = a := by simp [Netip.unmap, h4]
    have := byteAt_lt a 0; have := byteAt_lt a 1
    rw [Bool.eq_iff_iff]
    simp [Netip.isLinkLocalUnicast, hu, Netip.is4, Netip.is6, h, toNat16_top10 a h]
    omega
  · have hl : (a.drop 12).length = 4 := by simp [h]
    have hu : Netip.unmap a = a.drop 12 := by simp [Netip.unmap, h4]
    have := llu4_eq (a.drop 12) hl
    have hu2 := unmap_short (a.drop 12) (by omega)
    simp only [Netip.isLinkLocalUnicast, hu2] at this
    simp only [Netip.isLinkLocalUnicast, hu, if_true, toNat16_low32 a h]
    exact this

/-- `IsGlobalUnicast` of an IPv6 source (4in6 included) -/
theorem gu16_eq (a : Bytes) (h : a.length = 16) :
    Netip.isGlobalUnicast a = Tables.IP.isGlobalUnicast (.v6 (Netip.toNat a)) := by
  simp only [Tables.IP.isGlobalUnicast]
  rw [← is4in6_eq a h]
  cases h4 : Netip.is4in6 a
  · have hu : Netip.unmap a = a := by simp [Netip.unmap, h4]
    have := byteAt_lt a 0; have := byteAt_lt a 1
    have h0 := toNat16_zero a h
    have h1 := toNat16_one a h
    rw [Bool.eq_iff_iff]
    simp [Netip.isGlobalUnicast, Netip.isValid, Netip.isLoopback, Netip.isMulticast, Netip.isLinkLocalUnicast, hu,
      Netip.is4, Netip.is6, h, toNat16_top10 a h, toNat16_top8 a h, bne, h0, h1]
    intros; omega
  · have hl : (a.drop 12).length = 4 := by simp [h]
    have hu : Netip.unmap a = a.drop 12 := by simp [Netip.unmap, h4]
    have := gu4_eq (a.drop 12) hl
    have hu2 := unmap_short (a.drop 12) (by omega)
    simp only [Netip.isGlobalUnicast, hu2, Netip.isValid, hl] at this
    simp only [Netip.isGlobalUnicast, hu, Netip.isValid, h, if_true, toNat16_low32 a h]
    exact this

/-- `HomeLAN4.Contains` of an IPv4 source / ARP sender: no side condition on the configuration – a zero or
    IPv6 prefix contains no IPv4 address on either side -/
theorem lan_contains_eq (c : Model.Cfg) (base : Tables.Cfg) (ip : Bytes) (h : ip.length = 4) :
    Netip.prefixContains c.lanAddr c.lanBits ip = (cfgOf c base).lanContains (ipOfBytes ip) := by
  simp only [ipOfBytes, h, if_true, Tables.Cfg.lanContains, cfgOf, Netip.prefixContains, Netip.isValid]
  by_cases hl : c.lanAddr.length = 4
  · by_cases hb : c.lanBits ≤ 32
    · simp [hl, hb, show ¬ c.lanBits > 32 by omega]
    · simp [hl, hb, show c.lanBits > 32 by omega]
  · by_cases h16 : c.lanAddr.length = 16
    · simp [h16]
    · simp [hl, h16]

theorem ipOfBytes_v4 (b : Bytes) (h : b.length = 4) : ipOfBytes b = .v4 (Netip.toNat b) := by
  simp [ipOfBytes, h]
theorem ipOfBytes_v6 (b : Bytes) (h : b.length = 16) : ipOfBytes b = .v6 (Netip.toNat b) := by
  simp [ipOfBytes, h]

theorem llu_eq (a : Bytes) (h : a.length = 16) :
    Netip.isLinkLocalUnicast a = (ipOfBytes a).isLinkLocalUnicast := by
  rw [ipOfBytes_v6 a h]; exact llu16_eq a h
theorem gu_eq (a : Bytes) (h : a.length = 16) :
    Netip.isGlobalUnicast a = (ipOfBytes a).isGlobalUnicast := by
  rw [ipOfBytes_v6 a h]; exact gu16_eq a h

/-! ### projections of the reference decoder -/

theorem transport_host (p : Bytes) (d : Spec.Decoded) (proto o : Nat) :
    (Spec.transport p d proto o).host = d.host := by
  unfold Spec.transport
  simp only []
  repeat' split
  all_goals rfl

theorem transport_srcMAC (p : Bytes) (d : Spec.Decoded) (proto o : Nat) :
    (Spec.transport p d proto o).srcMAC = d.srcMAC := by
  unfold Spec.transport
  simp only []
  repeat' split
  all_goals rfl

/-- `Ping.classify` on the ICMP message at offset `o`, in cursor form -/
theorem classify_drop (v6 : Bool) (p : Bytes) (o : Nat) :
    Ping.classify v6 (p.drop o) =
      if p.length - o < 8 then none
      else if at_ p o = (if v6 then 129 else 0) then some (u16 p (o + 4)) else none := by
  have hl : (p.drop o).length = p.length - o := List.length_drop
  rw [← hl, ← Nat.add_zero o, ← at_drop, ← u16_drop, Nat.add_zero]
  generalize p.drop o = q
  unfold Ping.classify
  by_cases h8 : q.length < 8
  · rw [if_pos h8, if_pos h8]
  · rw [if_neg h8, if_neg h8]
    match q, h8 with
    | t :: a :: b :: c :: i1 :: i0 :: rest, _ =>
      have h0 : at_ (t :: a :: b :: c :: i1 :: i0 :: rest) 0 = t.toNat := rfl
      have h4 : u16 (t :: a :: b :: c :: i1 :: i0 :: rest) 4 = be16 i1 i0 := rfl
      simp only [h0, h4]
      cases v6
      · have : t = 0 ↔ t.toNat = 0 := u8_eq0 t
        simp [this]
      · have : t = 129 ↔ t.toNat = 129 :=
          ⟨fun h => by subst h; rfl, fun h => UInt8.toNat_inj.mp (by rw [h]; rfl)⟩
        simp [this]
    | [], h | [_], h | [_,_], h | [_,_,_], h | [_,_,_,_], h | [_,_,_,_,_], h => exact absurd (by simp) h

theorem transport_echo (p : Bytes) (d : Spec.Decoded) (proto o : Nat) (he : d.echo = none) :
    (Spec.transport p d proto o).echo =
      if proto = 1 then Ping.classify false (p.drop o)
      else if proto = 58 then Ping.classify true (p.drop o)
      else none := by
  unfold Spec.transport
  simp only [classify_drop]
  by_cases h17 : proto = 17
  · subst h17
    simp only [BEq.rfl, if_true, Nat.reduceEqDiff, if_false]
    repeat' split
    all_goals exact he
  by_cases h6 : proto = 6
  · subst h6
    simp only [Nat.reduceBEq, Bool.false_eq_true, if_false, BEq.rfl, if_true, Nat.reduceEqDiff]
    repeat' split
    all_goals exact he
  by_cases h1 : proto = 1
  · subst h1
    simp only [Nat.reduceBEq, Bool.false_eq_true, if_false, BEq.rfl, if_true, true_or, beq_iff_eq]
    split
    · exact he
    · rfl
  by_cases h58 : proto = 58
  · subst h58
    simp only [Nat.reduceBEq, Bool.false_eq_true, if_false, BEq.rfl, if_true, or_true, beq_iff_eq,
      Nat.reduceEqDiff]
    split
    · exact he
    · rfl
  simp only [beq_iff_eq, h17, h6, h1, h58, if_false, or_self]
  split <;> exact he

/-- the documented service table yields DHCPv4 exactly for destination port 67/68 when neither port is 443 -/
theorem udpService_dhcp4 (sp dp : Nat) : (Spec.udpService sp dp == some 10) = dhcp4Ports sp dp := by
  rw [← udp_class_eq_table]
  unfold udpClass dhcp4Ports
  simp only [Pid.ssl, Pid.dhcp4, Pid.dhcp6, Pid.dns, Pid.mdns, Pid.llmnr, Pid.ntp, Pid.ssdp, Pid.wsdp, Pid.nbns,
    Pid.plex, Pid.ubiquiti]
  by_cases c1 : (sp == 443 || dp == 443) = true
  · rw [if_pos c1]
    simp only [Bool.or_eq_true, beq_iff_eq] at c1
    rcases c1 with c1 | c1 <;> simp [c1]
  · rw [if_neg c1]
    simp only [Bool.or_eq_true, beq_iff_eq, not_or] at c1
    by_cases c2 : (dp == 67 || dp == 68) = true
    · rw [if_pos c2]
      simp [c1.1, c1.2, c2]
    · rw [if_neg c2]
      have hr : ∀ x : Option Nat, (x = some 10 → False) → (x == some 10) = false := by
        intro x hx; cases h : x == some 10
        · rfl
        · exact absurd (eq_of_beq h) hx
      simp only [Bool.not_eq_true] at c2
      rw [c2, Bool.and_false]
      apply hr
      repeat' split
      all_goals intro h; cases h

theorem transport_dhcp4 (p : Bytes) (d : Spec.Decoded) (proto o : Nat) (hd : d.pid ≠ 10) :
    ((Spec.transport p d proto o).pid == 10) =
      (proto == 17 && decide (8 ≤ p.length - o) && dhcp4Ports (u16 p o) (u16 p (o + 2))) := by
  rw [← udpService_dhcp4]
  have hf : (d.pid == 10) = false := by
    cases h : d.pid == 10
    · rfl
    · exact absurd (eq_of_beq h) hd
  unfold Spec.transport
  by_cases h17 : proto = 17
  · subst h17
    simp only [BEq.rfl, if_true, Bool.true_and]
    by_cases h8 : p.length - o < 8
    · rw [if_pos h8]; simp [show ¬ 8 ≤ p.length - o by omega]
    · rw [if_neg h8]
      simp only [show 8 ≤ p.length - o by omega, decide_true, Bool.true_and]
      cases hs : Spec.udpService (u16 p o) (u16 p (o + 2)) with
      | none => rfl
      | some pid => simp
  · have h17' : (proto == 17) = false := by simp [h17]
    simp only [h17', Bool.false_eq_true, if_false, Bool.false_and]
    repeat' split
    all_goals first | exact hf | rfl

/-- the tracked-host decision of the byte level, over the header predicates of this file -/
def hostOf (c : Model.Cfg) (p : Bytes) : Option (Bytes × Bytes) :=
  if etherOK p && srcUnicast p then
    if ip4OK p then
      if field p 6 6 != c.hostMAC && Netip.prefixContains c.lanAddr c.lanBits (field p 26 4)
      then some (field p 6 6, field p 26 4) else none
    else if ip6OK p then
      if field p 6 6 != c.hostMAC &&
          (Netip.isLinkLocalUnicast (field p 22 16) ||
            (Netip.isGlobalUnicast (field p 22 16) && field p 6 6 != c.routerMAC))
      then some (field p 6 6, field p 22 16) else none
    else if arpOK p then
      if field p 6 6 != c.hostMAC && Netip.prefixContains c.lanAddr c.lanBits (field p 28 4)
      then some (field p 22 6, field p 28 4) else none
    else none
  else none

/-- what the composition needs from the reference decoder, in the vocabulary of this file -/
def DecProj (cfg : Model.Cfg) (p : Bytes) : Prop :=
  (Spec.decode (toSC cfg) p).host = hostOf cfg p ∧
  (Spec.decode (toSC cfg) p).echo = echoOf p ∧
  ((Spec.decode (toSC cfg) p).pid == 10) = (frameEvOf p).dhcp4 ∧
  (Spec.decode (toSC cfg) p).srcMAC = (frameEvOf p).srcMAC

theorem hdrLen_eq (p : Bytes) : hdrLen p = etherHeaderLenOf (u16 p 12) := rfl

theorem etherOK_of (p : Bytes) (h14 : 14 ≤ p.length) (hh : etherHeaderLenOf (u16 p 12) ≤ p.length) :
    etherOK p = true := by simp [etherOK, hdrLen_eq, h14, hh]

theorem ip4OK_et (p : Bytes) (h : u16 p 12 ≠ 0x0800) : ip4OK p = false := by simp [ip4OK, h]
theorem ip6OK_et (p : Bytes) (h : u16 p 12 ≠ 0x86dd) : ip6OK p = false := by simp [ip6OK, h]
theorem arpOK_et (p : Bytes) (h : u16 p 12 ≠ 0x0806) : arpOK p = false := by simp [arpOK, h]

theorem srcUnicast_of (p : Bytes) (hg : ¬ (at_ p 6 % 2 == 1) = true) : srcUnicast p = true := by
  simp only [beq_iff_eq] at hg; simp only [srcUnicast, beq_iff_eq]; omega
theorem srcUnicast_not (p : Bytes) (hg : (at_ p 6 % 2 == 1) = true) : srcUnicast p = false := by
  simp only [beq_iff_eq] at hg; simp [srcUnicast, hg]

theorem decProj_invalid (cfg : Model.Cfg) (p : Bytes)
    (h : ¬ (14 ≤ p.length ∧ etherHeaderLenOf (u16 p 12) ≤ p.length)) : DecProj cfg p := by
  have he : etherOK p = false := by simp only [etherOK, hdrLen_eq]; exact decide_eq_false h
  have h4 : ip4OK p = false := by
    apply decide_eq_false; intro hc
    apply h; refine ⟨hc.1, ?_⟩; rw [hc.2.1]; exact hc.1
  have h6 : ip6OK p = false := by
    apply decide_eq_false; intro hc
    apply h; refine ⟨hc.1, ?_⟩; rw [hc.2.1]; exact hc.1
  unfold DecProj
  rw [decode_invalid _ p h]
  simp [hostOf, echoOf, ipPayload, frameEvOf, he, h4, h6]

theorem decProj_group (cfg : Model.Cfg) (p : Bytes) (h14 : 14 ≤ p.length)
    (hh : etherHeaderLenOf (u16 p 12) ≤ p.length) (hg : (at_ p 6 % 2 == 1) = true) : DecProj cfg p := by
  have he := etherOK_of p h14 hh
  have hu := srcUnicast_not p hg
  unfold DecProj
  decode_prefix
  simp only [hg, if_true]
  simp [hostOf, echoOf, frameEvOf, dhcp4Of, he, hu]

theorem decProj_8023 (cfg : Model.Cfg) (p : Bytes) (h14 : 14 ≤ p.length)
    (hh : etherHeaderLenOf (u16 p 12) ≤ p.length) (hg : ¬ (at_ p 6 % 2 == 1) = true)
    (het : u16 p 12 < 1536) : DecProj cfg p := by
  have he := etherOK_of p h14 hh
  have h4 := ip4OK_et p (by omega)
  have h6 := ip6OK_et p (by omega)
  have ha := arpOK_et p (by omega)
  unfold DecProj
  decode_prefix
  simp only [hg, het, if_true]
  simp [hostOf, echoOf, frameEvOf, dhcp4Of, ipPayload, kindOf, he, h4, h6, ha]

theorem l2Table_ne10 (et pid : Nat) (h : Spec.l2Table.lookup et = some pid) : (pid == 10) = false := by
  unfold Spec.l2Table at h
  simp only [lookup_cons_ite, List.lookup_nil] at h
  repeat' split at h
  all_goals first | (cases h; rfl) | cases h

theorem decProj_other (cfg : Model.Cfg) (p : Bytes) (h14 : 14 ≤ p.length)
    (hh : etherHeaderLenOf (u16 p 12) ≤ p.length) (hg : ¬ (at_ p 6 % 2 == 1) = true)
    (het : ¬ u16 p 12 < 1536) (h4 : u16 p 12 ≠ 0x0800) (h6 : u16 p 12 ≠ 0x86dd)
    (ha : u16 p 12 ≠ 0x0806) : DecProj cfg p := by
  have he := etherOK_of p h14 hh
  have h4' := ip4OK_et p h4
  have h6' := ip6OK_et p h6
  have ha' := arpOK_et p ha
  unfold DecProj
  decode_prefix
  simp only [hg, het, beq_iff_eq, h4, h6, ha, if_false]
  cases hl : List.lookup (u16 p 12) Spec.l2Table with
  | none => simp [hostOf, echoOf, frameEvOf, dhcp4Of, ipPayload, kindOf, he, h4', h6', ha']
  | some pid =>
    have := l2Table_ne10 _ _ hl
    simp [hostOf, echoOf, frameEvOf, dhcp4Of, ipPayload, kindOf, he, h4', h6', ha', this]

theorem decProj_ip4 (cfg : Model.Cfg) (p : Bytes) (h14 : 14 ≤ p.length)
    (hg : ¬ (at_ p 6 % 2 == 1) = true) (het : u16 p 12 = 0x0800) : DecProj cfg p := by
  have hh : etherHeaderLenOf (u16 p 12) ≤ p.length := by rw [het, hdr_ip4]; exact h14
  have he := etherOK_of p h14 hh
  have hu := srcUnicast_of p hg
  have h6 := ip6OK_et p (by omega)
  have ha := arpOK_et p (by omega)
  unfold DecProj
  decode_prefix
  simp only [hg, het, hdr_ip4, if_false, Nat.reduceLT, BEq.rfl, if_true, Nat.reduceAdd, Bool.false_eq_true]
  by_cases hc : p.length - 14 < 20 ∨ at_ p 14 % 16 * 4 < 20 ∨ p.length - 14 < at_ p 14 % 16 * 4 ∨
      u16 p 16 < at_ p 14 % 16 * 4 ∨ p.length - 14 < u16 p 16
  · have h4 : ip4OK p = false := by apply decide_eq_false; omega
    rw [if_pos hc]
    simp [hostOf, echoOf, frameEvOf, dhcp4Of, ipPayload, kindOf, he, h4, h6, ha]
  · have h4 : ip4OK p = true := by apply decide_eq_true; omega
    rw [if_neg hc]
    rw [transport_host, transport_srcMAC, transport_echo _ _ _ _ rfl, transport_dhcp4 _ _ _ _ (by simp)]
    simp [hostOf, echoOf, frameEvOf, dhcp4Of, ipPayload, kindOf, he, hu, h4, toSC]

theorem decProj_ip6 (cfg : Model.Cfg) (p : Bytes) (h14 : 14 ≤ p.length)
    (hg : ¬ (at_ p 6 % 2 == 1) = true) (het : u16 p 12 = 0x86dd) : DecProj cfg p := by
  have hh : etherHeaderLenOf (u16 p 12) ≤ p.length := by rw [het, hdr_ip6]; exact h14
  have he := etherOK_of p h14 hh
  have hu := srcUnicast_of p hg
  have h4 := ip4OK_et p (by omega)
  have ha := arpOK_et p (by omega)
  unfold DecProj
  decode_prefix
  simp only [hg, het, hdr_ip6, if_false, Nat.reduceLT, Nat.reduceBEq, BEq.rfl, if_true, Nat.reduceAdd,
    Bool.false_eq_true]
  by_cases hc : p.length - 14 < 40 ∨ u16 p 18 + 40 ≠ p.length - 14
  · have h6 : ip6OK p = false := by apply decide_eq_false; omega
    rw [if_pos hc]
    simp [hostOf, echoOf, frameEvOf, dhcp4Of, ipPayload, kindOf, he, h4, h6, ha]
  · have h6 : ip6OK p = true := by apply decide_eq_true; omega
    rw [if_neg hc]
    rw [transport_host, transport_srcMAC, transport_echo _ _ _ _ rfl, transport_dhcp4 _ _ _ _ (by simp)]
    simp [hostOf, echoOf, frameEvOf, dhcp4Of, ipPayload, kindOf, he, hu, h4, h6, toSC]

theorem decProj_arp (cfg : Model.Cfg) (p : Bytes) (h14 : 14 ≤ p.length)
    (hg : ¬ (at_ p 6 % 2 == 1) = true) (het : u16 p 12 = 0x0806) : DecProj cfg p := by
  have hh : etherHeaderLenOf (u16 p 12) ≤ p.length := by rw [het, hdr_arp]; exact h14
  have he := etherOK_of p h14 hh
  have hu := srcUnicast_of p hg
  have h4 := ip4OK_et p (by omega)
  have h6 := ip6OK_et p (by omega)
  unfold DecProj
  decode_prefix
  simp only [hg, het, hdr_arp, if_false, Nat.reduceLT, Nat.reduceBEq, BEq.rfl, if_true, Nat.reduceAdd,
    Bool.false_eq_true]
  by_cases hc : p.length - 14 < 28 ∨ at_ p 18 ≠ 6
  · have ha : arpOK p = false := by apply decide_eq_false; omega
    rw [if_pos hc]
    simp [hostOf, echoOf, frameEvOf, dhcp4Of, ipPayload, kindOf, he, h4, h6, ha]
  · have ha : arpOK p = true := by apply decide_eq_true; omega
    rw [if_neg hc]
    simp [hostOf, echoOf, frameEvOf, dhcp4Of, ipPayload, kindOf, he, hu, h4, h6, ha, toSC]

/-- host decision, echo identifier, DHCPv4 classification and source MAC of the reference decoder are the
    byte-level functions of this file, for every frame -/
theorem decProj (cfg : Model.Cfg) (p : Bytes) : DecProj cfg p := by
  by_cases hv : 14 ≤ p.length ∧ etherHeaderLenOf (u16 p 12) ≤ p.length
  · obtain ⟨h14, hh⟩ := hv
    by_cases hg : (at_ p 6 % 2 == 1) = true
    · exact decProj_group cfg p h14 hh hg
    by_cases het : u16 p 12 < 1536
    · exact decProj_8023 cfg p h14 hh hg het
    by_cases h4 : u16 p 12 = 0x0800
    · exact decProj_ip4 cfg p h14 hg h4
    by_cases h6 : u16 p 12 = 0x86dd
    · exact decProj_ip6 cfg p h14 hg h6
    by_cases ha : u16 p 12 = 0x0806
    · exact decProj_arp cfg p h14 hg ha
    exact decProj_other cfg p h14 hh hg het h4 h6 ha
  · exact decProj_invalid cfg p hv

/-- the same four facts about what `Model.parse` returns -/
theorem parse_proj (cfg : Model.Cfg) (p : Bytes) (r : Model.ParseRes) (h : parse cfg p = .ok r) :
    r.frame.hostEv = hostOf cfg p ∧ r.frame.echo = echoOf p ∧
    (r.frame.pid == Pid.dhcp4) = (frameEvOf p).dhcp4 ∧ r.frame.srcMAC = (frameEvOf p).srcMAC := by
  obtain ⟨r', h1, h2⟩ := parse_spec cfg p
  rw [h] at h1; cases h1
  obtain ⟨a, b, c, d⟩ := decProj cfg p
  rw [← h2] at a b c d
  exact ⟨a, b, c, d⟩

/-! ### the byte-level host decision is the creation rule of the table machine -/

theorem field_cons (p : Bytes) (k n : Nat) (h : k < p.length) :
    field p k (n + 1) = p[k] :: field p (k + 1) n := by
  unfold Spec.field
  rw [List.drop_eq_getElem_cons h, List.take_succ_cons]

theorem unicastMAC_eq (p : Bytes) (h14 : 14 ≤ p.length) :
    Tables.isUnicastMAC (field p 6 6) = srcUnicast p := by
  rw [field_cons p 6 5 (by omega)]
  simp only [Tables.isUnicastMAC, srcUnicast, at_eq p 6 (by omega)]

theorem etherOK_len (p : Bytes) (h : etherOK p = true) : 14 ≤ p.length := by
  simp only [etherOK, decide_eq_true_eq] at h; exact h.1

theorem hostOf_eq_hostEvent (cfg : Model.Cfg) (base : Tables.Cfg) (p : Bytes) :
    (hostOf cfg p).map (fun mi => (mi.1, ipOfBytes mi.2)) =
      Tables.hostEvent (cfgOf cfg base) (frameEvOf p) := by
  cases he : etherOK p
  · simp [hostOf, frameEvOf, he, Tables.hostEvent, Tables.isUnicastMAC]
  have h14 := etherOK_len p he
  have hm := unicastMAC_eq p h14
  cases hu : srcUnicast p
  · rw [hu] at hm
    simp [hostOf, frameEvOf, he, hu, Tables.hostEvent, hm]
  rw [hu] at hm
  cases h4 : ip4OK p
  · cases h6 : ip6OK p
    · cases ha : arpOK p
      · simp [hostOf, frameEvOf, kindOf, he, hu, h4, h6, ha, Tables.hostEvent, hm]
      · have hl : (field p 28 4).length = 4 := by
          simp only [arpOK, decide_eq_true_eq] at ha
          exact field_length p 28 4 (by omega)
        simp only [hostOf, frameEvOf, kindOf, he, hu, h4, h6, ha, Tables.hostEvent,
          lan_contains_eq cfg base _ hl]
        simp [cfgOf, hm]
    · have hl : (field p 22 16).length = 16 := by
        simp only [ip6OK, decide_eq_true_eq] at h6
        exact field_length p 22 16 (by omega)
      simp only [hostOf, frameEvOf, kindOf, he, hu, h4, h6, Tables.hostEvent, llu_eq _ hl, gu_eq _ hl]
      simp [cfgOf, hm]
  · have hl : (field p 26 4).length = 4 := by
      simp only [ip4OK, decide_eq_true_eq] at h4
      exact field_length p 26 4 (by omega)
    simp only [hostOf, frameEvOf, kindOf, he, hu, h4, Tables.hostEvent, lan_contains_eq cfg base _ hl]
    simp [cfgOf, hm]

/-! ### the echo identifier -/

theorem echoOf_iff (p : Bytes) (id : Nat) : echoOf p = some id ↔ IsEchoReply p id := by
  unfold echoOf IsEchoReply
  cases hu : srcUnicast p
  · simp
  simp only [if_true, true_and]
  cases hp : ipPayload p with
  | none => simp
  | some po =>
    obtain ⟨proto, o⟩ := po
    simp only [classify_drop, Option.some.injEq, Prod.mk.injEq, Bool.false_eq_true, if_false, if_true]
    by_cases h8 : p.length - o < 8
    · simp only [h8, if_true, ite_self]
      constructor
      · intro h; cases h
      · rintro ⟨_, _, ⟨_, rfl⟩, h, _⟩; omega
    simp only [h8, if_false]
    by_cases h1 : proto = 1
    · subst h1
      simp only [if_true]
      by_cases ht : at_ p o = 0
      · simp only [ht, if_true, Option.some.injEq]
        constructor
        · rintro rfl; exact ⟨1, o, ⟨rfl, rfl⟩, by omega, .inl ⟨rfl, ht⟩, rfl⟩
        · rintro ⟨_, _, ⟨_, rfl⟩, _, _, rfl⟩; rfl
      · simp only [ht, if_false]
        constructor
        · intro h; cases h
        · rintro ⟨_, _, ⟨rfl, rfl⟩, _, hc, _⟩
          rcases hc with ⟨_, h⟩ | ⟨h, _⟩
          · exact absurd h ht
          · cases h
    rw [if_neg h1]
    by_cases h58 : proto = 58
    · subst h58
      simp only [if_true]
      by_cases ht : at_ p o = 129
      · simp only [ht, if_true, Option.some.injEq]
        constructor
        · rintro rfl; exact ⟨58, o, ⟨rfl, rfl⟩, by omega, .inr ⟨rfl, ht⟩, rfl⟩
        · rintro ⟨_, _, ⟨_, rfl⟩, _, _, rfl⟩; rfl
      · simp only [ht, if_false]
        constructor
        · intro h; cases h
        · rintro ⟨_, _, ⟨rfl, rfl⟩, _, hc, _⟩
          rcases hc with ⟨h, _⟩ | ⟨_, h⟩
          · cases h
          · exact absurd h ht
    rw [if_neg h58]
    constructor
    · intro h; cases h
    · rintro ⟨_, _, ⟨rfl, rfl⟩, _, hc, _⟩
      rcases hc with ⟨h, _⟩ | ⟨h, _⟩
      · exact absurd h h1
      · exact absurd h h58

/-! ### the session driven by raw frames: byte-level `Parse` feeding the table machine -/

/-- the (MAC, IP) that the byte-level Parse hands to `findOrCreateHostWithLock`, as the table machine sees it -/
def hostEvOf (r : Model.ParseRes) : Option (Tables.MAC × Tables.IP) :=
  r.frame.hostEv.map (fun mi => (mi.1, ipOfBytes mi.2))

/-- the table side of `Session.Parse` for a given host hand-over (the body of `Tables.parse` after its
    creation decision) -/
def applyHostEv (s : Tables.Sess) (he : Option (Tables.MAC × Tables.IP)) (now : Int) (manuf : String) :
    Tables.ParseRes :=
  match he with
  | none => { s := s }
  | some (mac, ip) =>
    let r := Tables.findOrCreateHost s mac ip now manuf
    if r.panic then { s := r.s, panic := true } else
    match Tables.hostById r.s r.host with
    | none => { s := r.s, host := some r.host }
    | some h =>
      if h.online then { s := r.s, host := some r.host }
      else { s := Tables.onlineTransition r.s r.host, host := some r.host, flag := true }

theorem tables_parse_eq (c : Tables.Cfg) (s : Tables.Sess) (ev : Tables.FrameEv) (now : Int) (manuf : String) :
    Tables.parse c s ev now manuf = applyHostEv s (Tables.hostEvent c ev) now manuf := by
  unfold Tables.parse applyHostEv
  cases Tables.hostEvent c ev with
  | none => rfl
  | some mi => rfl

/-- `Session.Parse` on the bytes of a frame: the byte-level Parse, then the table work for the host it
    hands over -/
def parseBytes (pc : Model.Cfg) (s : Tables.Sess) (p : Bytes) (now : Int) (manuf : String) :
    Outcome (Model.ParseRes × Tables.ParseRes) :=
  match Model.parse pc p with
  | .ok r => .ok (r, applyHostEv s (hostEvOf r) now manuf)
  | .err e => .err e
  | .panic => .panic
  | .hang => .hang

/-- `Parse`, (a protocol handler learns a name), `Notify(frame)` on the bytes of a frame: `Notify` looks at
    the frame's `PayloadID == PayloadDHCP4` and `SrcAddr.MAC` as decoded by the byte-level Parse -/
def packetBytes (pc : Model.Cfg) (s : Tables.Sess) (p : Bytes) (now : Int) (manuf : String)
    (upd : Option (Tables.NameKind × Tables.NameEntry)) : Tables.Sess × List Tables.Notif :=
  match parseBytes pc s p now manuf with
  | .ok (r, t) =>
    if t.panic then (t.s, []) else
    let s1 := match t.host, upd with
      | some hid, some (k, n) => Tables.updateName t.s hid k n
      | _, _ => t.s
    Tables.notifyOp s1 t.host (r.frame.pid == Pid.dhcp4) r.frame.srcMAC t.flag
  | _ => (s, [])

/-- a history step that starts from raw frames -/
inductive RawOp where
  | frame (p : Bytes) (now : Int) (manuf : String)
  | api (op : Tables.Op)

/-- the abstract operation a raw step is -/
def opOf : RawOp → Tables.Op
  | .frame p now manuf => .frame (frameEvOf p) now manuf
  | .api op => op

/-- one raw step on the tables: a frame goes through the byte-level Parse -/
def stepBytes (pc : Model.Cfg) (tc : Tables.Cfg) (s : Tables.Sess) : RawOp → Tables.Sess
  | .frame p now manuf =>
    match parseBytes pc s p now manuf with
    | .ok (_, t) => t.s
    | _ => s
  | .api op => (Tables.step tc s op).1

def runBytes (pc : Model.Cfg) (tc : Tables.Cfg) (s : Tables.Sess) (ops : List RawOp) : Tables.Sess :=
  ops.foldl (stepBytes pc tc) s

/-- C06 histories from raw frames -/
inductive RawOp6 where
  | packet (p : Bytes) (now : Int) (manuf : String) (upd : Option (Tables.NameKind × Tables.NameEntry))
  | api (op : Tables.Op)

def op6Of : RawOp6 → Tables.Op6
  | .packet p now manuf upd => .packet (frameEvOf p) now manuf upd
  | .api op => .api op

def step6Bytes (pc : Model.Cfg) (tc : Tables.Cfg) (s : Tables.Sess) : RawOp6 → Tables.Sess × List Tables.Notif
  | .packet p now manuf upd => packetBytes pc s p now manuf upd
  | .api op => ((Tables.step tc s op).1, (Tables.step tc s op).2.notifs)

def run6Bytes (pc : Model.Cfg) (tc : Tables.Cfg) : Tables.Sess → List RawOp6 → Tables.Sess × List Tables.Notif
  | s, [] => (s, [])
  | s, op :: rest =>
    let r := step6Bytes pc tc s op
    let r2 := run6Bytes pc tc r.1 rest
    (r2.1, r.2 ++ r2.2)

/-- what Parse does to the ping machine with the frame it decoded: `echoNotify(id)` or nothing -/
def pingEventOfRes (r : Model.ParseRes) : Ping.Event :=
  match r.frame.echo with
  | some id => .echo id
  | none => .other

end PV.Lemmas.Compose
