import PacketVerif.Model.Locks
namespace PV.Lemmas.Locks
open PV.Model.Locks

theorem wf_step {s s' : State} (h : Step s s') (hw : ∀ t ∈ s, t.wf) : ∀ t ∈ s', t.wf := by
  cases h with
  | acq i t l rest hi hp hf =>
    intro u hu
    rcases List.mem_or_eq_of_mem_set hu with hu | hu
    · exact hw u hu
    · subst hu
      have ht := hw t (List.mem_of_getElem? hi)
      unfold Thread.wf at ht ⊢
      rw [hp] at ht
      exact ht.2
  | rel i t l rest hi hp =>
    intro u hu
    rcases List.mem_or_eq_of_mem_set hu with hu | hu
    · exact hw u hu
    · subst hu
      have ht := hw t (List.mem_of_getElem? hi)
      unfold Thread.wf at ht ⊢
      rw [hp] at ht
      exact ht.2

theorem wf_reach {s s' : State} (h : Reach s s') (hw : ∀ t ∈ s, t.wf) : ∀ t ∈ s', t.wf := by
  induction h with
  | refl => exact hw
  | step _ hs ih => exact wf_step hs ih

/-- sum of all lock ids a program mentions: an upper bound for every lock it can wait for -/
def progBound : List Op → Nat
  | [] => 0
  | .acq l :: rest => l + progBound rest
  | .rel l :: rest => l + progBound rest

def stateBound : State → Nat
  | [] => 0
  | t :: ts => progBound t.prog + stateBound ts

theorem le_stateBound {s : State} {t : Thread} (ht : t ∈ s) : progBound t.prog ≤ stateBound s := by
  induction s with
  | nil => cases ht
  | cons a as ih =>
    simp only [stateBound]
    rcases List.mem_cons.mp ht with rfl | h
    · omega
    · have := ih h; omega

/-- in a deadlocked well-formed state, from any blocked thread one finds another blocked thread waiting for
    a strictly higher lock -/
theorem climb {s : State} (hw : ∀ t ∈ s, t.wf) (hd : deadlocked s)
    {t : Thread} (ht : t ∈ s) {l : Nat} (hb : blockedOn s t l) :
    ∃ t' ∈ s, ∃ l' : Nat, blockedOn s t' l' ∧ l < l' := by
  obtain ⟨rest, hp, hnf⟩ := hb
  -- someone holds l
  have : ∃ t' ∈ s, l ∈ t'.held := by
    unfold free at hnf
    apply Classical.byContradiction
    intro hne
    apply hnf
    intro u hu hl
    exact hne ⟨u, hu, hl⟩
  obtain ⟨t', ht', hl⟩ := this
  -- the holder is unfinished (balanced programs hold nothing at the end)
  have hunf : ¬ finished t' := by
    intro hfin
    have hwf := hw t' ht'
    unfold Thread.wf at hwf
    unfold finished at hfin
    rw [hfin] at hwf
    simp only [respects] at hwf
    rw [hwf] at hl
    cases hl
  obtain ⟨l', hb'⟩ := hd.2 t' ht' hunf
  refine ⟨t', ht', l', hb', ?_⟩
  obtain ⟨rest', hp', _⟩ := hb'
  have hwf := hw t' ht'
  unfold Thread.wf at hwf
  rw [hp'] at hwf
  exact hwf.1 l hl

theorem climb_n {s : State} (hw : ∀ t ∈ s, t.wf) (hd : deadlocked s) (k : Nat)
    {t : Thread} (ht : t ∈ s) {l : Nat} (hb : blockedOn s t l) :
    ∃ t' ∈ s, ∃ l' : Nat, blockedOn s t' l' ∧ l + k ≤ l' := by
  induction k with
  | zero => exact ⟨t, ht, l, hb, by omega⟩
  | succ k ih =>
    obtain ⟨t1, h1, l1, hb1, hle⟩ := ih
    obtain ⟨t2, h2, l2, hb2, hlt⟩ := climb hw hd h1 hb1
    exact ⟨t2, h2, l2, hb2, by omega⟩

theorem blocked_le_bound {s : State} {t : Thread} (ht : t ∈ s) {l : Nat} (hb : blockedOn s t l) :
    l ≤ stateBound s := by
  obtain ⟨rest, hp, _⟩ := hb
  have := le_stateBound ht
  rw [hp] at this
  simp only [progBound] at this
  omega

end PV.Lemmas.Locks

namespace PV.Lemmas.Locks
open PV.Model.Locks

/-- nested critical sections: acquire `ls` in order, release in reverse order -/
def nest (ls : List Nat) : List Op := ls.map Op.acq ++ ls.reverse.map Op.rel

theorem respects_nest (ls : List Nat) : ∀ (held : List Nat) (k : List Op),
    (∀ h ∈ held, ∀ l ∈ ls, h < l) → ls.Pairwise (· < ·) → respects held k →
    respects held (ls.map Op.acq ++ ls.reverse.map Op.rel ++ k) := by
  induction ls with
  | nil => intro held k _ _ hk; simpa using hk
  | cons a as ih =>
    intro held k hlt hp hk
    have hp' := List.pairwise_cons.mp hp
    have e : (a :: as).map Op.acq ++ (a :: as).reverse.map Op.rel ++ k
        = Op.acq a :: (as.map Op.acq ++ as.reverse.map Op.rel ++ (Op.rel a :: k)) := by
      simp [List.reverse_cons, List.map_append, List.append_assoc]
    rw [e]
    refine ⟨fun h hh => hlt h hh a (List.mem_cons_self ..), ?_⟩
    apply ih (a :: held) (Op.rel a :: k)
    · intro h hh l hl
      rcases List.mem_cons.mp hh with rfl | hh
      · exact hp'.1 l hl
      · exact hlt h hh l (List.mem_cons_of_mem _ hl)
    · exact hp'.2
    · refine ⟨List.mem_cons_self .., ?_⟩
      simpa using hk

theorem nest_wf (ls : List Nat) (hp : ls.Pairwise (· < ·)) : (⟨[], nest ls⟩ : Thread).wf := by
  have := respects_nest ls [] [] (by intro h hh; cases hh) hp (by simp [respects])
  simpa [Thread.wf, nest] using this

end PV.Lemmas.Locks
