/-
  Helper lemmas for C03 / C07, part 2: the **frame equations** of the send paths of `Model/Encode.lean`:
  under the well-formedness hypotheses each composition returns an explicit byte string that no longer mentions the
  buffer (so its previous contents are irrelevant).
-/
import PacketVerif.Lemmas.EncodeMem
set_option linter.unusedSimpArgs false
namespace PV.Lemmas
open PV PV.Model

theorem sendARP_frame (g : Mem) (hostMAC dst : Bytes) (op : Nat) (smac sip tmac tip : Bytes)
    (h1 : hostMAC.length = 6) (h2 : dst.length = 6) (h3 : smac.length = 6) (h4 : sip.length = 4)
    (h5 : tmac.length = 6) (h6 : tip.length = 4) (hop : op < 65536) (hcap : 42 ≤ g.length) :
    sendARP g hostMAC dst op smac sip tmac tip =
      .ok (dst ++ hostMAC ++ [8, 6] ++ [0, 1, 8, 0, 6, 4, hi8 op, lo8 op] ++ smac ++ sip ++ tmac ++ tip) := by
  cells h1; cells h2; cells h3; cells h4; cells h5; cells h6; cells_le hcap
  unfold sendARP
  enc_exec
  frame_simp




theorem sendUDP4_frame (g : Mem) (sm dm sip dip : Bytes) (ttl : UInt8) (sp dp : Nat) (pl : Bytes)
    (h1 : sm.length = 6) (h2 : dm.length = 6) (h3 : sip.length = 4) (h4 : dip.length = 4)
    (hsp : sp < 65536) (hdp : dp < 65536) (hfit : 42 + pl.length ≤ g.length) (hsmall : 28 + pl.length < 65536) :
    sendUDP4 g sm dm ttl sip dip sp dp pl =
      .ok (dm ++ sm ++ [8, 0] ++ ip4Hdr (28 + pl.length) ttl 17 sip dip ++ udpHdr sp dp (8 + pl.length) 0 0 ++ pl) := by
  have hcap : 42 ≤ g.length := by omega
  cells h1; cells h2; cells h3; cells h4; cells_le hcap
  rename_i T
  simp only [List.length_cons] at hfit
  obtain ⟨A, T', rfl, hA⟩ := split_tail T pl.length (by omega)
  unfold sendUDP4
  enc_exec
  rw [show 20 + (8 + pl.length) = 28 + pl.length by omega]
  frame_close T'


theorem sessionArpRequest_frame (g : Mem) (hostMAC dst smac sip tmac tip : Bytes)
    (h1 : hostMAC.length = 6) (h2 : dst.length = 6) (h3 : smac.length = 6) (h4 : sip.length = 4)
    (h5 : tmac.length = 6) (h6 : tip.length = 4) (hcap : 42 ≤ g.length) :
    sessionArpRequest g hostMAC dst smac sip tmac tip =
      .ok (dst ++ hostMAC ++ [8, 6] ++ [0, 1, 8, 0, 6, 4, 0, 1] ++ smac ++ sip ++ tmac ++ tip) := by
  cells h1; cells h2; cells h3; cells h4; cells h5; cells h6; cells_le hcap
  unfold sessionArpRequest
  enc_exec
  frame_simp

theorem putChecksum_length (p : Bytes) (k : Nat) (cs : UInt16) : (putChecksum p k cs).length = p.length := by
  simp [putChecksum]

/-- Ethernet/IPv4 + opaque ICMP message through `IP4.AppendPayload` -/
theorem composeICMP4_frame (g : Mem) (sm dm sip dip : Bytes) (ttl : UInt8) (b : Bytes)
    (h1 : sm.length = 6) (h2 : dm.length = 6) (h3 : sip.length = 4) (h4 : dip.length = 4)
    (hfit : 34 + b.length ≤ g.length) (hsmall : 20 + b.length < 65536) :
    composeICMP4 g sm dm ttl sip dip b = .ok (dm ++ sm ++ [8, 0] ++ ip4Hdr (20 + b.length) ttl 1 sip dip ++ b) := by
  have hcap : 34 ≤ g.length := by omega
  cells h1; cells h2; cells h3; cells h4; cells_le hcap
  rename_i T
  simp only [List.length_cons] at hfit
  obtain ⟨A, T', rfl, hA⟩ := split_tail T b.length (by omega)
  unfold composeICMP4
  enc_exec
  frame_close T'


theorem sendICMP4_frame (g : Mem) (hm dm sip dip msg : Bytes)
    (h1 : hm.length = 6) (h2 : dm.length = 6) (h3 : sip.length = 4) (h4 : dip.length = 4)
    (hl : 4 ≤ msg.length) (hfit : 34 + msg.length ≤ g.length) (hsmall : 20 + msg.length < 65536) :
    sendICMP4 g hm dm sip dip msg =
      .ok (dm ++ hm ++ [8, 0] ++ ip4Hdr (20 + msg.length) 50 1 sip dip ++ putChecksum msg 2 (checksum msg)) := by
  have e : sendICMP4 g hm dm sip dip msg = composeICMP4 g hm dm 50 sip dip (putChecksum msg 2 (checksum msg)) := by
    unfold sendICMP4 composeICMP4
    rw [if_neg (by omega)]
  rw [e, composeICMP4_frame g hm dm sip dip 50 _ h1 h2 h3 h4 (by rw [putChecksum_length]; exact hfit)
    (by rw [putChecksum_length]; exact hsmall), putChecksum_length]

/-! ### `ErrPayloadTooBig` (no hypothesis on the address arguments: `copy` is clipped) -/

theorem copyAt_abs_take (m : Mem) (s : Sl) (a b : Nat) (src : Bytes) (hab : a ≤ b) (hb : s.off + b ≤ m.length) :
    s.copyAt m a b src = .ok (poke m (s.off + a) (src.take (b - a))) := by
  unfold Sl.copyAt
  rw [reslice_abs m s a b hab hb]
  rfl

/-- a clipped write of at most `w` bytes changes at most the `w` bytes after its offset -/
theorem poke_prefix (m : Bytes) (w : Nat) (D : Bytes) (hD : D.length ≤ w) (hm : w ≤ m.length) :
    ∃ E : Bytes, E.length = w ∧ poke m 0 D = E ++ m.drop w := by
  refine ⟨D ++ (m.drop D.length).take (w - D.length), by simp; omega, ?_⟩
  rw [poke_zero, List.append_assoc]
  congr 1
  have : m.drop w = (m.drop D.length).drop (w - D.length) := by
    rw [List.drop_drop]; congr 1; omega
  rw [this, List.take_append_drop]

theorem as4_length (ip : Bytes) : (as4 ip).length = 4 := by
  unfold as4; split
  · simp_all
  · rfl

theorem encodeEther_any (g : Mem) (n t : Nat) (src dst : Bytes) (hg : 14 ≤ g.length) :
    ∃ E : Bytes, E.length = 12 ∧
      encodeEther g ⟨0, n⟩ t src dst = .ok (E ++ [hi8 (t % 65536), lo8 (t % 65536)] ++ g.drop 14, ⟨0, 14⟩) := by
  obtain ⟨E1, hE1, e1⟩ := poke_prefix g 6 (dst.take 6) (by simp; omega) (by omega)
  obtain ⟨E2, hE2, e2⟩ := poke_prefix (g.drop 6) 6 (src.take 6) (by simp; omega) (by simp; omega)
  refine ⟨E1 ++ E2, by simp [hE1, hE2], ?_⟩
  unfold encodeEther
  rw [if_neg (by simp [Sl.cap]; omega), reslice_abs _ _ 0 14 (by omega) (by simpa using hg)]
  simp only [bind_ok', Nat.add_zero, Nat.sub_zero]
  rw [copyAt_abs_take _ _ 0 6 _ (by omega) (by simp; omega)]
  simp only [bind_ok', Nat.add_zero, Nat.sub_zero, e1]
  rw [copyAt_abs_take _ _ 6 12 _ (by omega) (by simp; omega)]
  simp only [bind_ok', Nat.zero_add, Nat.reduceSub]
  rw [poke_pre E1 _ 6 0 _ (by omega), e2, List.drop_drop]
  unfold Sl.put16
  rw [copyAt_abs_take _ _ 12 14 _ (by omega) (by simp; omega)]
  simp only [bind_ok', Outcome.pure_eq, Nat.zero_add, Nat.reduceSub, Nat.reduceAdd]
  rw [← List.append_assoc, poke_pre (E1 ++ E2) _ 12 0 _ (by simp; omega), poke_zero, List.drop_drop]
  simp

theorem sendUDP4_too_big (g : Mem) (srcMAC dstMAC sip dip : Bytes) (ttl : UInt8) (sp dp : Nat) (payload : Bytes)
    (hcap : 42 ≤ g.length) (hbig : g.length < 42 + payload.length) :
    sendUDP4 g srcMAC dstMAC ttl sip dip sp dp payload = .err .payloadTooBig := by
  obtain ⟨E, hE, he⟩ := encodeEther_any g g.length 0x0800 srcMAC dstMAC (by omega)
  unfold sendUDP4
  rw [show whole g = ⟨0, g.length⟩ from rfl, he]
  simp only [bind_ok', encodeIP4]
  have hs := as4_length sip
  have hd := as4_length dip
  generalize as4 sip = S at hs
  generalize as4 dip = D at hd
  have hT : 28 ≤ (g.drop 14).length := by simp; omega
  have hT2 : (g.drop 14).length < 28 + payload.length := by simp; omega
  generalize g.drop 14 = T at hT hT2
  cells hE; cells hs; cells hd; cells_le hT
  simp only [List.length_cons] at hT2
  simp only [List.cons_append, List.nil_append]
  enc_exec
  simp (disch := mdisch) only [udpAppendPayload_big, bind_err']

end PV.Lemmas
