/-
  DHCPv4 option map as association list: the two phases of `AppendOptions` emit every entry of a map
  with unique keys exactly once (permutation), and folding `optSet` over a sequence with unique keys
  rebuilds that sequence.  Pure list lemmas; the property theorems are in `Props/C03Dhcp.lean`.
-/
import PacketVerif.Model.Dhcp4Opt
namespace PV.Lemmas.Dhcp4OptPerm
open PV PV.Model.Dhcp4Opt

/-! ### lookup / delete on association lists -/

theorem optGet_nil (c : UInt8) : optGet [] c = none := rfl

theorem optGet_cons (e : UInt8 × Bytes) (o : Opts) (c : UInt8) :
    optGet (e :: o) c = if e.1 = c then some e.2 else optGet o c := by
  unfold optGet
  by_cases h : e.1 = c
  · simp [h]
  · simp [h]

theorem optGet_eq_none {o : Opts} {c : UInt8} : optGet o c = none ↔ c ∉ o.map (·.1) := by
  induction o with
  | nil => simp [optGet_nil]
  | cons e o ih =>
    rw [optGet_cons]
    by_cases h : e.1 = c
    · simp [h]
    · have h' : ¬ c = e.1 := fun x => h x.symm
      simp only [h, if_false, ih, List.map_cons, List.mem_cons, h', false_or]

theorem optGet_mem {o : Opts} {c : UInt8} {v : Bytes} (h : optGet o c = some v) : (c, v) ∈ o := by
  induction o with
  | nil => simp [optGet_nil] at h
  | cons e o ih =>
    rw [optGet_cons] at h
    by_cases hc : e.1 = c
    · simp only [hc, if_true, Option.some.injEq] at h
      have : e = (c, v) := by rw [← hc, ← h]
      rw [this]; exact List.mem_cons_self ..
    · simp only [hc, if_false] at h
      exact List.mem_cons_of_mem _ (ih h)

/-- with unique keys, lookup is membership -/
theorem optGet_eq_some {o : Opts} (hn : (o.map (·.1)).Nodup) {c : UInt8} {v : Bytes} :
    optGet o c = some v ↔ (c, v) ∈ o := by
  refine ⟨optGet_mem, ?_⟩
  induction o with
  | nil => intro h; cases h
  | cons e o ih =>
    intro h
    rw [List.map_cons, List.nodup_cons] at hn
    rw [optGet_cons]
    by_cases hc : e.1 = c
    · simp only [hc, if_true]
      rcases List.mem_cons.1 h with h | h
      · rw [← h]
      · exfalso; apply hn.1; rw [hc]
        exact List.mem_map.2 ⟨(c, v), h, rfl⟩
    · simp only [hc, if_false]
      rcases List.mem_cons.1 h with h | h
      · exfalso; apply hc; rw [← h]
      · exact ih hn.2 h

theorem mem_optDel {o : Opts} {c : UInt8} {e : UInt8 × Bytes} : e ∈ optDel o c ↔ e ∈ o ∧ e.1 ≠ c := by
  unfold optDel; simp

theorem optDel_of_not_mem {o : Opts} {c : UInt8} (h : c ∉ o.map (·.1)) : optDel o c = o := by
  unfold optDel
  rw [List.filter_eq_self]
  intro e he
  have : e.1 ≠ c := fun x => h (List.mem_map.2 ⟨e, he, x⟩)
  simpa using this

theorem optDel_cons (e : UInt8 × Bytes) (o : Opts) (c : UInt8) :
    optDel (e :: o) c = if e.1 = c then optDel o c else e :: optDel o c := by
  unfold optDel
  by_cases h : e.1 = c
  · simp [h]
  · simp [h]

theorem nodup_optDel {o : Opts} (hn : (o.map (·.1)).Nodup) (c : UInt8) : ((optDel o c).map (·.1)).Nodup := by
  unfold optDel
  exact hn.sublist (List.filter_sublist.map _)

theorem keys_optDel_sub {o : Opts} {c k : UInt8} (h : k ∈ (optDel o c).map (·.1)) : k ∈ o.map (·.1) ∧ k ≠ c := by
  obtain ⟨e, he, rfl⟩ := List.mem_map.1 h
  obtain ⟨h1, h2⟩ := mem_optDel.1 he
  exact ⟨List.mem_map.2 ⟨e, h1, rfl⟩, h2⟩

theorem optGet_optDel_ne {o : Opts} {c c' : UInt8} (h : c' ≠ c) : optGet (optDel o c) c' = optGet o c' := by
  induction o with
  | nil => rfl
  | cons e o ih =>
    rw [optDel_cons]
    by_cases hc : e.1 = c
    · simp only [hc, if_true]
      rw [optGet_cons, ih]
      have : ¬ e.1 = c' := by rw [hc]; exact fun x => h x.symm
      simp only [this, if_false]
    · simp only [hc, if_false]
      rw [optGet_cons, optGet_cons, ih]

theorem nodup_optSet {o : Opts} (hn : (o.map (·.1)).Nodup) (c : UInt8) (v : Bytes) :
    ((optSet o c v).map (·.1)).Nodup := by
  unfold optSet
  rw [List.map_cons, List.nodup_cons]
  refine ⟨?_, nodup_optDel hn c⟩
  intro h
  exact (keys_optDel_sub h).2 rfl

/-- lookup after `optSet`: the new binding for the code set, the old map elsewhere -/
theorem optGet_optSet (o : Opts) (c : UInt8) (v : Bytes) (c' : UInt8) :
    optGet (optSet o c v) c' = if c' = c then some v else optGet o c' := by
  unfold optSet
  rw [optGet_cons]
  by_cases h : c' = c
  · simp [h]
  · have : ¬ c = c' := fun x => h x.symm
    simp only [this, h, if_false]
    exact optGet_optDel_ne h

/-- with unique keys, taking one binding out and putting it in front is a permutation -/
theorem perm_cons_optDel {o : Opts} (hn : (o.map (·.1)).Nodup) {c : UInt8} {v : Bytes}
    (h : optGet o c = some v) : ((c, v) :: optDel o c).Perm o := by
  induction o with
  | nil => simp [optGet_nil] at h
  | cons e o ih =>
    rw [List.map_cons, List.nodup_cons] at hn
    rw [optGet_cons] at h
    rw [optDel_cons]
    by_cases hc : e.1 = c
    · simp only [hc, if_true, Option.some.injEq] at h ⊢
      have he : e = (c, v) := by rw [← hc, ← h]
      rw [optDel_of_not_mem (by rw [← hc]; exact hn.1), he]
    · simp only [hc, if_false] at h ⊢
      exact (List.Perm.swap e (c, v) _).trans ((ih hn.2 h).cons e)

/-! ### the two phases of `AppendOptions` -/

/-- first phase: what is written together with what is left is a permutation of the map, and what is
    left still has unique keys -/
theorem orderedPhase_perm : ∀ (cs : List UInt8) (o : Opts), (o.map (·.1)).Nodup →
    ((orderedPhase cs o).1 ++ (orderedPhase cs o).2).Perm o ∧ ((orderedPhase cs o).2.map (·.1)).Nodup
  | [], o, hn => ⟨by simp [orderedPhase], by simpa [orderedPhase] using hn⟩
  | c :: cs, o, hn => by
    unfold orderedPhase
    cases h : optGet o c with
    | none => exact orderedPhase_perm cs o hn
    | some v =>
      obtain ⟨ih1, ih2⟩ := orderedPhase_perm cs (optDel o c) (nodup_optDel hn c)
      refine ⟨?_, ih2⟩
      simp only [List.cons_append]
      exact (ih1.cons (c, v)).trans (perm_cons_optDel hn h)

/-- what is left after the first phase is part of the map -/
theorem orderedPhase_rest_sub : ∀ (cs : List UInt8) (o : Opts) (e : UInt8 × Bytes),
    e ∈ (orderedPhase cs o).2 → e ∈ o
  | [], o, e, h => by simpa [orderedPhase] using h
  | c :: cs, o, e, h => by
    unfold orderedPhase at h
    cases hg : optGet o c with
    | none => rw [hg] at h; exact orderedPhase_rest_sub cs o e h
    | some v =>
      rw [hg] at h
      exact (mem_optDel.1 (orderedPhase_rest_sub cs (optDel o c) e h)).1

theorem tailPhase_nil (o : Opts) : tailPhase [] o = [] := rfl

theorem tailPhase_cons (c : UInt8) (t : List UInt8) (o : Opts) :
    tailPhase (c :: t) o = match optGet o c with
      | some v => (c, v) :: tailPhase t o
      | none => tailPhase t o := by
  unfold tailPhase
  rw [List.filterMap_cons]
  cases optGet o c <;> rfl

/-- the second phase does not see a deleted code that the iteration order does not visit -/
theorem tailPhase_optDel {c : UInt8} : ∀ (t : List UInt8) (o : Opts), c ∉ t → tailPhase t (optDel o c) = tailPhase t o
  | [], o, _ => rfl
  | k :: t, o, h => by
    have hk : k ≠ c := fun x => h (by rw [x]; exact List.mem_cons_self ..)
    have ht : c ∉ t := fun x => h (List.mem_cons_of_mem _ x)
    rw [tailPhase_cons, tailPhase_cons, optGet_optDel_ne hk, tailPhase_optDel t o ht]

/-- second phase: an iteration order without repetition that visits every key of the remaining map
    writes a permutation of the remaining map -/
theorem tailPhase_perm : ∀ (t : List UInt8) (o : Opts), (o.map (·.1)).Nodup → t.Nodup →
    (∀ e, e ∈ o → e.1 ∈ t) → (tailPhase t o).Perm o
  | [], o, _, _, hc => by
    cases o with
    | nil => exact List.Perm.refl _
    | cons e o => exact absurd (hc e (List.mem_cons_self ..)) (by simp)
  | c :: t, o, hn, ht, hc => by
    rw [List.nodup_cons] at ht
    rw [tailPhase_cons]
    cases h : optGet o c with
    | none =>
      simp only []
      apply tailPhase_perm t o hn ht.2
      intro e he
      rcases List.mem_cons.1 (hc e he) with h1 | h1
      · exfalso
        exact (optGet_eq_none.1 h) (List.mem_map.2 ⟨e, he, h1⟩)
      · exact h1
    | some v =>
      simp only []
      rw [← tailPhase_optDel t o ht.1]
      have ih := tailPhase_perm t (optDel o c) (nodup_optDel hn c) ht.2 (by
        intro e he
        obtain ⟨h1, h2⟩ := mem_optDel.1 he
        rcases List.mem_cons.1 (hc e h1) with h3 | h3
        · exact absurd h3 h2
        · exact h3)
      exact (ih.cons (c, v)).trans (perm_cons_optDel hn h)

/-- **`AppendOptions` writes a permutation of the option map** -/
theorem emitSeq_perm (opts : Opts) (order : Bytes) (tail : List UInt8)
    (hn : (opts.map (·.1)).Nodup) (ht : tail.Nodup)
    (hc : ∀ e, e ∈ (orderedPhase (fullOrder order) opts).2 → e.1 ∈ tail) :
    (emitSeq opts order tail).Perm opts := by
  unfold emitSeq
  obtain ⟨h1, h2⟩ := orderedPhase_perm (fullOrder order) opts hn
  simp only []
  exact ((tailPhase_perm tail _ h2 ht hc).append_left _).trans h1

/-! ### rebuilding the map by `optSet` -/

theorem foldl_optSet_nodup : ∀ (seq : List (UInt8 × Bytes)) (acc : Opts), (seq.map (·.1)).Nodup →
    (∀ e, e ∈ seq → e.1 ∉ acc.map (·.1)) →
    seq.foldl (fun a e => optSet a e.1 e.2) acc = seq.reverse ++ acc
  | [], acc, _, _ => by simp
  | e :: seq, acc, hn, hd => by
    rw [List.map_cons, List.nodup_cons] at hn
    rw [List.foldl_cons]
    have h0 : optSet acc e.1 e.2 = e :: acc := by
      unfold optSet
      rw [optDel_of_not_mem (hd e (List.mem_cons_self ..))]
    rw [h0, foldl_optSet_nodup seq (e :: acc) hn.2]
    · simp
    · intro x hx
      rw [List.map_cons, List.mem_cons]
      rintro (h | h)
      · exact hn.1 (by rw [← h]; exact List.mem_map.2 ⟨x, hx, rfl⟩)
      · exact hd x (List.mem_cons_of_mem _ hx) h

/-- a sequence with unique codes is rebuilt (reversed) by the parser's `optSet` fold -/
theorem foldl_optSet_reverse (seq : List (UInt8 × Bytes)) (hn : (seq.map (·.1)).Nodup) :
    seq.foldl (fun a e => optSet a e.1 e.2) [] = seq.reverse := by
  rw [foldl_optSet_nodup seq [] hn (by simp)]
  simp

/-- two maps with unique keys that are permutations of each other are the same lookup function -/
theorem optGet_perm {o o' : Opts} (hp : o.Perm o') (hn : (o.map (·.1)).Nodup) (c : UInt8) :
    optGet o c = optGet o' c := by
  have hn' : (o'.map (·.1)).Nodup := (hp.map _).nodup_iff.1 hn
  apply Option.ext
  intro v
  rw [optGet_eq_some hn, optGet_eq_some hn', hp.mem_iff]

/-- converse: two maps with unique keys and the same lookup function are permutations of each other -/
theorem perm_of_optGet {o o' : Opts} (hn : (o.map (·.1)).Nodup) (hn' : (o'.map (·.1)).Nodup)
    (h : ∀ c, optGet o c = optGet o' c) : o.Perm o' := by
  have nd : ∀ {l : Opts}, (l.map (·.1)).Nodup → l.Nodup := fun hl =>
    List.Pairwise.of_map (·.1) (fun a b hab x => hab (by rw [x])) hl
  rw [List.perm_ext_iff_of_nodup (nd hn) (nd hn')]
  intro e
  obtain ⟨c, v⟩ := e
  rw [← optGet_eq_some hn, ← optGet_eq_some hn', h c]

end PV.Lemmas.Dhcp4OptPerm
