/-
  ProcessMDNS against the RFC 1035 reference decoder (`Spec.DnsWire`), record by record.

  For a response whose questions and records the reference decodes, the model of
  `DNSHandler.ProcessMDNS` (over the model of `dnsmessage.Parser`) returns exactly `refMdns`:
  one entry per A record and one per AAAA record of the answer, authority and additional
  sections, in wire order, each carrying the owner name of THAT record (dnsmessage text form,
  ".local." stripped) and the RDATA of THAT record.
-/
import PacketVerif.Lemmas.DnsMsg
import PacketVerif.Lemmas.DnsMsgSpec
import PacketVerif.Lemmas.DnsRRComplete
namespace PV.Lemmas.Mdns
open PV PV.Model PV.Spec PV.Model.DnsMsg PV.Lemmas.Dns PV.Lemmas.DnsMsg

/-! ### primitive readers -/

theorem u16At_bound {m : Bytes} {i v : Nat} (h : u16At m i = some v) : i + 2 ≤ m.length := by
  unfold u16At at h
  cases h0 : m[i]? with
  | none => rw [h0] at h; simp at h
  | some a =>
    cases h1 : m[i + 1]? with
    | none => rw [h0, h1] at h; simp at h
    | some b =>
      have := (List.getElem?_eq_some_iff.mp h1).1
      omega

theorem unpackUint16_of {m : Bytes} {i v : Nat} (h : u16At m i = some v) : unpackUint16 m i = .ok (v, i + 2) := by
  have hb := u16At_bound h
  unfold u16At at h
  unfold unpackUint16
  rw [if_neg (by omega)]
  cases h0 : m[i]? with
  | none => rw [h0] at h; simp at h
  | some a =>
    cases h1 : m[i + 1]? with
    | none => rw [h0, h1] at h; simp at h
    | some b =>
      rw [h0, h1] at h
      simp only [] at h ⊢
      injection h with h
      rw [h]

theorem skipUint16_of {m : Bytes} {i v : Nat} (h : u16At m i = some v) : skipUint16 m i = .ok (i + 2) := by
  have hb := u16At_bound h
  unfold skipUint16
  rw [if_neg (by omega)]

theorem u32At_bound {m : Bytes} {i v : Nat} (h : u32At m i = some v) : i + 4 ≤ m.length := by
  unfold u32At at h
  cases h0 : m[i]? with
  | none => rw [h0] at h; simp at h
  | some a =>
    cases h1 : m[i + 1]? with
    | none => rw [h0, h1] at h; simp at h
    | some b =>
      cases h2 : m[i + 2]? with
      | none => rw [h0, h1, h2] at h; simp at h
      | some c =>
        cases h3 : m[i + 3]? with
        | none => rw [h0, h1, h2, h3] at h; simp at h
        | some d =>
          have := (List.getElem?_eq_some_iff.mp h3).1
          omega

theorem unpackUint32_of {m : Bytes} {i v : Nat} (h : u32At m i = some v) : unpackUint32 m i = .ok (v, i + 4) := by
  have hb := u32At_bound h
  unfold u32At at h
  unfold unpackUint32
  rw [if_neg (by omega)]
  cases h0 : m[i]? with
  | none => rw [h0] at h; simp at h
  | some a =>
    cases h1 : m[i + 1]? with
    | none => rw [h0, h1] at h; simp at h
    | some b =>
      cases h2 : m[i + 2]? with
      | none => rw [h0, h1, h2] at h; simp at h
      | some c =>
        cases h3 : m[i + 3]? with
        | none => rw [h0, h1, h2, h3] at h; simp at h
        | some d =>
          rw [h0, h1, h2, h3] at h
          simp only [] at h ⊢
          injection h with h
          rw [h]

theorem skipUint32_of {m : Bytes} {i v : Nat} (h : u32At m i = some v) : skipUint32 m i = .ok (i + 4) := by
  have hb := u32At_bound h
  unfold skipUint32
  rw [if_neg (by omega)]

/-! ### `skipName` on a reference name -/

/-- `skipName` walks the labels of a reference name and stops after its root octet or first
    pointer: it returns the end of the name's own encoding. -/
theorem skipName_of_nameAt {m : Bytes} {start pos : Nat} {ls : List Bytes} {e d : Nat} (hn : NameAt m start pos ls e d) :
    skipName m pos = .ok e := by
  induction hn with
  | @root start pos h0 =>
    rw [skipName.eq_def]
    split
    · simp_all
    next c hc =>
      have : c = 0 := by rw [h0] at hc; injection hc with hc; exact hc.symm
      subst this
      have e1 : ((0 : UInt8) &&& 0xC0 == 0x00) = true := by decide
      simp
  | @label start pos n rest e d h0 h1 h63 hin hsub ih =>
    rw [skipName.eq_def]
    split
    · simp_all
    next c hc =>
      have : c = n := by rw [h0] at hc; injection hc with hc; exact hc.symm
      subst this
      have hb := bits c
      have e0 : (c == 0) = false := by rw [hb.2.2.2.1]; simp; omega
      have e00 : (c &&& 0xC0 == 0x00) = true := by
        have hx : ∀ i : Fin 256, i.val < 64 → (UInt8.ofNat i.val &&& 0xC0 == 0x00) = true := by
          set_option maxRecDepth 100000 in decide
        have := hx ⟨c.toNat, c.toNat_lt⟩ (by simp; omega)
        simpa [ofNat_toNat] using this
      simp only [e00, e0, if_true, Bool.false_eq_true, if_false]
      rw [if_neg (by omega)]
      exact ih
  | @ptr start pos hi lo rest e d h0 h192 h1 htgt hsub ih =>
    rw [skipName.eq_def]
    split
    · simp_all
    next c hc =>
      have : c = hi := by rw [h0] at hc; injection hc with hc; exact hc.symm
      subst this
      have hb := bits c
      have ec0 : (c &&& 0xC0 == 0xC0) = true := by rw [hb.1]; simp; omega
      have e00 : (c &&& 0xC0 == 0x00) = false := by
        have hx : ∀ i : Fin 256, 192 ≤ i.val → (UInt8.ofNat i.val &&& 0xC0 == 0x00) = false := by
          set_option maxRecDepth 100000 in decide
        have := hx ⟨c.toNat, c.toNat_lt⟩ (by simp; omega)
        simpa [ofNat_toNat] using this
      simp [e00, ec0]

/-! ### the record header -/

/-- dnsmessage's text form (`Name.String()`) of a name whose reference text — labels joined by
    dots, no trailing dot — is `t`: "." for the root, else the text followed by a dot -/
def dmText (t : Bytes) : Bytes := if t = [] then [46] else t ++ [46]

theorem dottedR_eq_text : ∀ (ls : List Bytes), ls ≠ [] → dottedR ls = text ls ++ [46]
  | [], h => absurd rfl h
  | [l], _ => by simp [dottedR, text]
  | l :: r :: rs, _ => by
    have ih := dottedR_eq_text (r :: rs) (by simp)
    rw [dottedR, ih]
    simp [text]

theorem dmText_text (ls : List Bytes) : dmText (text ls) = if ls = [] then [46] else dottedR ls := by
  cases ls with
  | nil => rfl
  | cons l rest =>
    rw [if_neg (by simp), dottedR_eq_text _ (by simp)]
    unfold dmText
    split
    next h => rw [h]; rfl
    · rfl

/-- every field of `rrAt? = some` (as `rrAt_facts`, with the class) -/
theorem rrAt_fields {m : Bytes} {off : Nat} {r : RR} {o : Nat} (h : rrAt? m off = some (r, o)) :
    ∃ e d rdl, decodeName? m off = some (r.name, e, d) ∧ u16At m e = some r.rtype ∧ u16At m (e + 2) = some r.rclass ∧
      u32At m (e + 4) = some r.ttl ∧ u16At m (e + 8) = some rdl ∧ e + 10 + rdl ≤ m.length ∧
      r.rdata = (m.drop (e + 10)).take rdl ∧ r.rdataOff = e + 10 ∧ o = e + 10 + rdl := by
  unfold rrAt? at h
  cases hn : decodeName? m off with
  | none => rw [hn] at h; simp [bind, Option.bind] at h
  | some v =>
    obtain ⟨t, e, d⟩ := v
    rw [hn] at h
    simp only [bind, Option.bind, pure] at h
    cases ht : u16At m e with
    | none => rw [ht] at h; simp at h
    | some ty =>
      cases hc : u16At m (e + 2) with
      | none => rw [ht, hc] at h; simp at h
      | some cl =>
        cases httl : u32At m (e + 4) with
        | none => rw [ht, hc, httl] at h; simp at h
        | some ttl =>
          cases hl : u16At m (e + 8) with
          | none => rw [ht, hc, httl, hl] at h; simp at h
          | some rdl =>
            rw [ht, hc, httl, hl] at h
            simp only [] at h
            split at h
            next hle =>
              simp at h
              obtain ⟨rfl, rfl⟩ := h
              exact ⟨e, d, rdl, rfl, ht, hc, httl, hl, hle, by simp, rfl, rfl⟩
            · simp at h

/-- the owner name at `off` is one `dnsmessage` accepts: at most 10 compression pointers, no dot
    inside a label, text form (with the trailing dot) of at most 254 octets -/
def OwnerOK (m : Bytes) (off : Nat) : Prop :=
  ∃ ls e d, NameAt m off off ls e d ∧ d ≤ 10 ∧ (∀ l ∈ ls, ∀ c ∈ l, c ≠ 46) ∧ (dottedR ls).length ≤ 254

/-- `ResourceHeader.unpack` on a reference record whose owner name dnsmessage accepts: the
    reference fields, the name in dnsmessage's text form, the cursor at the reference RDATA offset -/
theorem unpackRHeader_of_rrAt {m : Bytes} {off : Nat} {r : RR} {o : Nat} (h : rrAt? m off = some (r, o))
    (hok : OwnerOK m off) :
    unpackRHeader m off = .ok ({ name := dmText r.name, rtype := r.rtype, rclass := r.rclass, ttl := r.ttl,
                                 length := r.rdata.length }, r.rdataOff) ∧
    r.rdataOff + r.rdata.length = o ∧ o ≤ m.length ∧ r.rdata = (m.drop r.rdataOff).take r.rdata.length := by
  obtain ⟨e, d, rdl, hn, h1, h2, h3, h4, h5, h6, h7, h8⟩ := rrAt_fields h
  obtain ⟨ls, e', d', hna, hd, hdots, hlen⟩ := hok
  have hex := nameAt?_complete hna
  have hname : r.name = text ls ∧ e = e' := by
    unfold decodeName? at hn
    rw [hex] at hn
    simp only [] at hn
    split at hn
    · injection hn with hn
      injection hn with a b
      injection b with b c
      exact ⟨a.symm, b.symm⟩
    · cases hn
  obtain ⟨hnm, rfl⟩ := hname
  have hun : unpackName m off = .ok (dmText r.name, e) := by
    have := unpackName_complete hna 0 none [] (by omega) hdots (by simpa using hlen)
    unfold unpackName
    rw [this, hnm, dmText_text]
    cases ls with
    | nil => simp [dottedR]
    | cons l rest => simp [dottedR]
  have hrl : r.rdata.length = rdl := by rw [h6]; simp; omega
  refine ⟨?_, by rw [h7, hrl, h8], by rw [h8]; exact h5, by rw [hrl, h7]; exact h6⟩
  unfold unpackRHeader
  simp only [bind, Except.bind, pure, Except.pure]
  rw [hun]
  simp only []
  rw [unpackUint16_of h1]
  simp only []
  rw [unpackUint16_of h2]
  simp only []
  rw [unpackUint32_of h3]
  simp only []
  rw [show e + 2 + 2 + 4 = e + 8 by omega, unpackUint16_of h4]
  simp only []
  rw [hrl, h7]

/-! ### parser operations on a cursor that stands at a record -/

/-- the cursor after the record whose header is pending -/
def adv (p : Parser) : Parser :=
  { p with off := p.off + p.resHeaderLength, resHeaderValid := false, index := p.index + 1 }

theorem typedResource_pending {α : Type} (p : Parser) (ok : Nat → Bool) (unpack : Bytes → Nat → Nat → R α)
    (hv : p.resHeaderValid = true) (ht : ok p.resHeaderType = true) :
    typedResource p ok unpack =
      (match unpack p.msg p.off p.resHeaderLength with
       | .error e => (p, .error e)
       | .ok r => (adv p, .ok r)) := by
  unfold typedResource
  rw [hv, ht]
  simp only [Bool.not_true, Bool.or_self, Bool.false_eq_true, if_false]
  cases unpack p.msg p.off p.resHeaderLength <;> rfl

theorem skipResource_pending (p : Parser) (sec : Nat) (hv : p.resHeaderValid = true) (hs : p.sect = sec)
    (hle : p.off + p.resHeaderLength ≤ p.msg.length) : skipResource p sec = (adv p, none) := by
  unfold skipResource
  rw [if_pos ⟨hv, hs⟩]
  simp only []
  rw [if_neg (by omega)]
  rfl

theorem resourceHeader_ready (p : Parser) (sec : Nat) (hdr : RHeader) (o : Nat)
    (hr : p.resHeaderValid = false) (hs : p.sect = sec) (hi : p.index ≠ p.count sec)
    (hu : unpackRHeader p.msg p.off = .ok (hdr, o)) :
    resourceHeader p sec =
      ({ p with resHeaderValid := true, resHeaderOffset := p.off, resHeaderType := hdr.rtype,
                resHeaderLength := hdr.length, off := o }, .ok hdr) := by
  unfold resourceHeader
  rw [hr]
  simp only [Bool.false_eq_true, if_false]
  have hca : checkAdvance p sec = ({ p with resHeaderValid := false }, none) := by
    simp only [checkAdvance]
    rw [if_neg (by omega), if_neg (by omega)]
    rw [if_neg (by simpa [Parser.count] using hi)]
  rw [hca]
  simp only []
  rw [hu]

theorem resourceHeader_done (p : Parser) (sec : Nat)
    (hr : p.resHeaderValid = false) (hs : p.sect = sec) (hi : p.index = p.count sec) :
    resourceHeader p sec =
      ({ p with resHeaderValid := false, index := 0, sect := p.sect + 1 }, .error .sectionDone) := by
  unfold resourceHeader
  rw [hr]
  simp only [Bool.false_eq_true, if_false]
  have hca : checkAdvance p sec = ({ p with resHeaderValid := false, index := 0, sect := p.sect + 1 }, some .sectionDone) := by
    simp only [checkAdvance]
    rw [if_neg (by omega), if_neg (by omega)]
    rw [if_pos (by simpa [Parser.count] using hi)]
  rw [hca]

/-! ### the reference result -/

/-- the name ProcessMDNS reports for a record: dnsmessage's text form of the owner name with the
    suffix ".local." removed (`strings.TrimSuffix(hdr.Name.String(), ".local.")`) -/
def mdnsName (r : RR) : Bytes := trimSuffix (dmText r.name) sLocal

/-- the (name, address) entry of ONE address record: its own owner name, its own RDATA -/
def entryOf (r : RR) : IPName := { name := mdnsName r, ip := r.rdata, model := [], manufacturer := [] }

def stepV4 (v4 : List IPName) (r : RR) : List IPName := if r.rtype = 1 then v4 ++ [entryOf r] else v4
def stepV6 (v6 : List IPName) (r : RR) : List IPName := if r.rtype = 28 then v6 ++ [entryOf r] else v6

/-- the model string after a record: a TXT record (type 16) whose strings — read by dnsmessage's
    TXT decoder from the record's own RDATA — name a model replaces it -/
def stepModel (m : Bytes) (model : Bytes) (r : RR) : Bytes :=
  if r.rtype = 16 then
    match unpackTXT m r.rdataOff r.rdata.length with
    | .ok txt => if parseTXT txt ≠ [] then parseTXT txt else model
    | .error _ => model
  else model

/-- the parser after a reference record: cursor behind its RDATA, one more record counted -/
def recAdv (p : Parser) (r : RR) : Parser :=
  adv { p with resHeaderValid := true, resHeaderOffset := p.off, resHeaderType := r.rtype,
               resHeaderLength := r.rdata.length, off := r.rdataOff }

/-- **one record = one step**: with the cursor at a reference record whose owner name dnsmessage
    accepts (and 4 / 16 octets of RDATA for A / AAAA), one iteration of the ProcessMDNS loop
    appends that record's own (name, address) entry — A to the IPv4 list, AAAA to the IPv6 list,
    nothing for any other type — takes the model string from a TXT record, and leaves the cursor
    behind the record's RDATA.  PTR / SRV / TXT / OPT bodies that dnsmessage cannot read are
    skipped by RDLENGTH; every other type is skipped by RDLENGTH. -/
theorem mdnsStep_record (s : MdnsState) (r : RR) (o : Nat)
    (hr : s.p.resHeaderValid = false) (hs : s.p.sect = s.sec) (hi : s.p.index ≠ s.p.count s.sec)
    (hrr : rrAt? s.p.msg s.p.off = some (r, o)) (hown : OwnerOK s.p.msg s.p.off)
    (hA : r.rtype = 1 → r.rdata.length = 4) (hAAAA : r.rtype = 28 → r.rdata.length = 16) :
    mdnsStep s = .next { p := recAdv s.p r, sec := s.sec, model := stepModel s.p.msg s.model r,
                         v4 := stepV4 s.v4 r, v6 := stepV6 s.v6 r } := by
  obtain ⟨hun, hoff, hle, hrd⟩ := unpackRHeader_of_rrAt hrr hown
  unfold mdnsStep
  rw [resourceHeader_ready s.p s.sec _ _ hr hs hi hun]
  simp only []
  -- the pending-header parser
  generalize hp1 : Parser.mk s.p.msg s.p.qd s.p.an s.p.ns s.p.ar s.p.sect r.rdataOff s.p.index true s.p.off r.rtype r.rdata.length = p1
  have hv : p1.resHeaderValid = true := by rw [← hp1]
  have hty : p1.resHeaderType = r.rtype := by rw [← hp1]
  have hlen : p1.resHeaderLength = r.rdata.length := by rw [← hp1]
  have hoff1 : p1.off = r.rdataOff := by rw [← hp1]
  have hmsg : p1.msg = s.p.msg := by rw [← hp1]
  have hsect : p1.sect = s.sec := by rw [← hp1]; exact hs
  have hadv : recAdv s.p r = adv p1 := by rw [← hp1]; rfl
  have hskip : skipOr s p1 = .next { s with p := adv p1 } := by
    unfold skipOr
    rw [skipResource_pending p1 s.sec hv hsect (by rw [hoff1, hlen, hmsg]; omega)]
  have hpos : ∀ {α : Type} (t : Nat) (unpack : Bytes → Nat → Nat → R α) (k : α → MdnsState → MdnsState),
      r.rtype = t →
      parseOrSkip s p1 t unpack k =
        (match unpack s.p.msg r.rdataOff r.rdata.length with
         | .ok a => .next (k a { s with p := adv p1 })
         | .error _ => .next { s with p := adv p1 }) := by
    intro α t unpack k ht
    unfold parseOrSkip
    rw [typedResource_pending p1 (· == t) unpack hv (by simp [hty, ht]), hmsg, hoff1, hlen]
    cases unpack s.p.msg r.rdataOff r.rdata.length with
    | ok a => rfl
    | error e => exact hskip
  by_cases t1 : r.rtype = 1
  · rw [if_pos t1]
    rw [typedResource_pending p1 (· == 1) unpackA hv (by simp [hty, t1]), hmsg, hoff1, hlen]
    have h4 := hA t1
    have hua : unpackA s.p.msg r.rdataOff r.rdata.length = .ok r.rdata := by
      unfold unpackA unpackBytesN
      rw [if_neg (by omega), ← h4, ← hrd]
    rw [hua]
    simp only []
    rw [hadv]
    simp [stepV4, stepV6, stepModel, t1, entryOf, mdnsName]
  rw [if_neg t1]
  by_cases t28 : r.rtype = 28
  · rw [if_pos t28]
    rw [typedResource_pending p1 (· == 28) unpackAAAA hv (by simp [hty, t28]), hmsg, hoff1, hlen]
    have h16 := hAAAA t28
    have hua : unpackAAAA s.p.msg r.rdataOff r.rdata.length = .ok r.rdata := by
      unfold unpackAAAA unpackBytesN
      rw [if_neg (by omega), ← h16, ← hrd]
    rw [hua]
    simp only []
    rw [hadv]
    simp [stepV4, stepV6, stepModel, t28, entryOf, mdnsName]
  rw [if_neg t28]
  have hv4 : stepV4 s.v4 r = s.v4 := by simp [stepV4, t1]
  have hv6 : stepV6 s.v6 r = s.v6 := by simp [stepV6, t28]
  rw [hv4, hv6, hadv]
  by_cases t12 : r.rtype = 12
  · rw [if_pos t12, hpos 12 unpackPTR _ t12]
    have : stepModel s.p.msg s.model r = s.model := by simp [stepModel, t12]
    rw [this]
    cases unpackPTR s.p.msg r.rdataOff r.rdata.length <;> rfl
  rw [if_neg t12]
  by_cases t33 : r.rtype = 33
  · rw [if_pos t33, hpos 33 unpackSRV _ t33]
    have : stepModel s.p.msg s.model r = s.model := by simp [stepModel, t33]
    rw [this]
    cases unpackSRV s.p.msg r.rdataOff r.rdata.length <;> rfl
  rw [if_neg t33]
  by_cases t16 : r.rtype = 16
  · rw [if_pos t16, hpos 16 unpackTXT _ t16]
    unfold stepModel
    rw [if_pos t16]
    cases unpackTXT s.p.msg r.rdataOff r.rdata.length <;> rfl
  rw [if_neg t16]
  have hm : stepModel s.p.msg s.model r = s.model := by simp [stepModel, t16]
  rw [hm]
  by_cases t41 : r.rtype = 41
  · rw [if_pos t41, hpos 41 unpackOPT _ t41]
    cases unpackOPT s.p.msg r.rdataOff r.rdata.length <;> rfl
  rw [if_neg t41]
  exact hskip

theorem mdnsStep_sectionDone (s : MdnsState)
    (hr : s.p.resHeaderValid = false) (hs : s.p.sect = s.sec) (hi : s.p.index = s.p.count s.sec) :
    mdnsStep s =
      (if s.sec ≥ secAdditionals then .done (finalize s.model s.v4 s.v6)
       else .next { s with p := { s.p with resHeaderValid := false, index := 0, sect := s.p.sect + 1 }, sec := s.sec + 1 }) := by
  unfold mdnsStep
  rw [resourceHeader_done s.p s.sec hr hs hi]

/-! ### the whole record walk -/

/-- what ProcessMDNS needs of a reference record at `off` to get past it: an owner name dnsmessage
    accepts; 4 octets of RDATA in an A record, 16 in an AAAA record (`AResource` / `AAAAResource`
    read that many octets whatever RDLENGTH says) -/
def MRecOK (m : Bytes) (off : Nat) (r : RR) : Prop :=
  OwnerOK m off ∧ (r.rtype = 1 → r.rdata.length = 4) ∧ (r.rtype = 28 → r.rdata.length = 16)

/-- `n` consecutive reference records from `off` (the list `rrs`, ending at `o`), each `MRecOK` -/
def RecsOK (m : Bytes) : Nat → Nat → List RR → Nat → Prop
  | 0, off, rrs, o => rrs = [] ∧ o = off
  | n + 1, off, rrs, o => ∃ r o1 rs, rrAt? m off = some (r, o1) ∧ MRecOK m off r ∧ RecsOK m n o1 rs o ∧ rrs = r :: rs

def refModel (m : Bytes) (model : Bytes) (rrs : List RR) : Bytes := rrs.foldl (stepModel m) model
def refV4 (v4 : List IPName) (rrs : List RR) : List IPName := rrs.foldl stepV4 v4
def refV6 (v6 : List IPName) (rrs : List RR) : List IPName := rrs.foldl stepV6 v6

theorem mdnsLoop_eq_ref : ∀ (fuel : Nat) (s : MdnsState) (rrs : List RR) (o : Nat),
    s.p.resHeaderValid = false → s.p.sect = s.sec → 3 ≤ s.sec → s.sec ≤ 5 → DnsMsg.Inv s.p →
    RecsOK s.p.msg ((s.p.count s.sec - s.p.index) + after s.p s.sec) s.p.off rrs o →
    mu s.p s.sec < fuel →
    mdnsLoop fuel s = .ok (finalize (refModel s.p.msg s.model rrs) (refV4 s.v4 rrs) (refV6 s.v6 rrs)) := by
  intro fuel
  induction fuel with
  | zero => intro s rrs o _ _ _ _ _ _ h; omega
  | succ n ih =>
    intro s rrs o hr hs h3 h5 hinv hrecs hmu
    rw [mdnsLoop]
    by_cases hi : s.p.index = s.p.count s.sec
    · have hstep := mdnsStep_sectionDone s hr hs hi
      by_cases hlast : s.sec ≥ secAdditionals
      · rw [if_pos hlast] at hstep
        rw [hstep]
        simp only []
        have h5' : s.sec = 5 := by unfold secAdditionals at hlast; omega
        have h0 : (s.p.count s.sec - s.p.index) + after s.p s.sec = 0 := by
          rw [hi, h5']; simp [after]
        rw [h0] at hrecs
        obtain ⟨rfl, _⟩ := hrecs
        rfl
      · rw [if_neg hlast] at hstep
        rw [hstep]
        simp only []
        have hlt : s.sec ≤ 4 := by unfold secAdditionals at hlast; omega
        obtain ⟨a, _, c, d, e⟩ := mdnsStep_next s _ hstep hinv h3 h5
        have hcnt : (({ s.p with resHeaderValid := false, index := 0, sect := s.p.sect + 1 } : Parser).count (s.sec + 1) - 0)
            + after ({ s.p with resHeaderValid := false, index := 0, sect := s.p.sect + 1 } : Parser) (s.sec + 1)
            = (s.p.count s.sec - s.p.index) + after s.p s.sec := by
          rw [hi, after_succ s.p s.sec (by omega) hlt]
          simp [Parser.count, after]
        have := ih { s with p := { s.p with resHeaderValid := false, index := 0, sect := s.p.sect + 1 }, sec := s.sec + 1 }
          rrs o rfl (by simp only []; omega) (by simp only []; omega) (by simp only []; omega) a
          (by simp only [] at hcnt ⊢; rw [hcnt]; exact hrecs) (by simp only [] at e ⊢; omega)
        exact this
    · have hlt : s.p.index < s.p.count s.sec := by
        unfold DnsMsg.Inv at hinv; rw [hs] at hinv; omega
      obtain ⟨k, hk⟩ : ∃ k, (s.p.count s.sec - s.p.index) + after s.p s.sec = k + 1 :=
        ⟨(s.p.count s.sec - s.p.index) + after s.p s.sec - 1, by omega⟩
      rw [hk] at hrecs
      obtain ⟨r, o1, rs, hrr, ⟨hown, hA, hAAAA⟩, hrest, rfl⟩ := hrecs
      have hstep := mdnsStep_record s r o1 hr hs hi hrr hown hA hAAAA
      obtain ⟨_, hoff, _, _⟩ := unpackRHeader_of_rrAt hrr hown
      rw [hstep]
      simp only []
      obtain ⟨a, _, c, d, e⟩ := mdnsStep_next s _ hstep hinv h3 h5
      have hcnt : ((recAdv s.p r).count s.sec - (recAdv s.p r).index) + after (recAdv s.p r) s.sec = k := by
        have : (recAdv s.p r).index = s.p.index + 1 := rfl
        have h1 : (recAdv s.p r).count s.sec = s.p.count s.sec := rfl
        have h2 : after (recAdv s.p r) s.sec = after s.p s.sec := rfl
        rw [this, h1, h2]; omega
      have hoff' : (recAdv s.p r).off = o1 := hoff
      have := ih { p := recAdv s.p r, sec := s.sec, model := stepModel s.p.msg s.model r, v4 := stepV4 s.v4 r, v6 := stepV6 s.v6 r }
        rs o rfl hs h3 h5 a (by simp only []; rw [hcnt, hoff']; exact hrest) (by simp only [] at e ⊢; omega)
      exact this

/-! ### header and question section -/

theorem start_of_header {m : Bytes} {id bits qd an ns ar : Nat}
    (h0 : u16At m 0 = some id) (h2 : u16At m 2 = some bits) (h4 : u16At m 4 = some qd)
    (h6 : u16At m 6 = some an) (h8 : u16At m 8 = some ns) (h10 : u16At m 10 = some ar) :
    start m = .ok ({ msg := m, qd := qd, an := an, ns := ns, ar := ar, sect := secQuestions, off := 12, index := 0,
                     resHeaderValid := false, resHeaderOffset := 0, resHeaderType := 0, resHeaderLength := 0 },
                   { id := id, response := bits / 32768 % 2 == 1 }) := by
  unfold start
  simp only [bind, Except.bind, pure, Except.pure]
  rw [unpackUint16_of h0]
  simp only []
  rw [unpackUint16_of h2]
  simp only []
  rw [unpackUint16_of h4]
  simp only []
  rw [unpackUint16_of h6]
  simp only []
  rw [unpackUint16_of h8]
  simp only []
  rw [unpackUint16_of h10]

theorem questionAt_fields {m : Bytes} {off : Nat} {q : Spec.Question} {e : Nat} (h : questionAt? m off = some (q, e)) :
    ∃ e0 d t c, decodeName? m off = some (q.name, e0, d) ∧ u16At m e0 = some t ∧ u16At m (e0 + 2) = some c ∧ e = e0 + 4 := by
  unfold questionAt? at h
  cases hn : decodeName? m off with
  | none => rw [hn] at h; simp [bind, Option.bind] at h
  | some v =>
    obtain ⟨nm, e0, d⟩ := v
    rw [hn] at h
    simp only [bind, Option.bind, pure] at h
    cases ht : u16At m e0 with
    | none => rw [ht] at h; simp at h
    | some t =>
      cases hc : u16At m (e0 + 2) with
      | none => rw [ht, hc] at h; simp at h
      | some c =>
        rw [ht, hc] at h
        simp at h
        obtain ⟨rfl, rfl⟩ := h
        exact ⟨e0, d, t, c, rfl, ht, hc, rfl⟩

theorem nameAt_of_decodeName {m : Bytes} {off : Nat} {t : Bytes} {e d : Nat} (h : decodeName? m off = some (t, e, d)) :
    ∃ ls, NameAt m off off ls e d := by
  unfold decodeName? at h
  cases hn : nameAt? m off off with
  | none => rw [hn] at h; simp at h
  | some v =>
    obtain ⟨ls, e', d'⟩ := v
    rw [hn] at h
    simp only [] at h
    split at h
    · injection h with h
      injection h with _ h
      injection h with h1 h2
      subst h1; subst h2
      exact ⟨ls, nameAt?_sound m off off ls e' d' hn⟩
    · cases h

theorem skipQuestion_of {p : Parser} {q : Spec.Question} {e : Nat} (hs : p.sect = secQuestions) (hi : p.index ≠ p.qd)
    (hq : questionAt? p.msg p.off = some (q, e)) :
    skipQuestion p = ({ p with resHeaderValid := false, off := e, index := p.index + 1 }, none) := by
  obtain ⟨e0, d, t, c, hn, ht, hc, rfl⟩ := questionAt_fields hq
  obtain ⟨ls, hna⟩ := nameAt_of_decodeName hn
  unfold skipQuestion
  have hca : checkAdvance p secQuestions = ({ p with resHeaderValid := false }, none) := by
    simp only [checkAdvance]
    rw [if_neg (by omega), if_neg (by omega)]
    rw [if_neg (by simpa [Parser.count, secQuestions] using hi)]
  rw [hca]
  simp only [bind, Except.bind]
  rw [skipName_of_nameAt hna]
  simp only []
  rw [skipUint16_of ht]
  simp only []
  rw [skipUint16_of hc]

theorem skipQuestion_done {p : Parser} (hs : p.sect = secQuestions) (hi : p.index = p.qd) :
    skipQuestion p = ({ p with resHeaderValid := false, index := 0, sect := p.sect + 1 }, some .sectionDone) := by
  unfold skipQuestion
  have hca : checkAdvance p secQuestions = ({ p with resHeaderValid := false, index := 0, sect := p.sect + 1 }, some .sectionDone) := by
    simp only [checkAdvance]
    rw [if_neg (by omega), if_neg (by omega)]
    rw [if_pos (by simpa [Parser.count, secQuestions] using hi)]
  rw [hca]

/-- `SkipAllQuestions` over a reference question section ends behind it, in the answer section -/
theorem skipAllQuestions_of : ∀ (fuel : Nat) (p : Parser) (qs : List Spec.Question) (e : Nat),
    p.sect = secQuestions → p.index ≤ p.qd → questionsAt? p.msg (p.qd - p.index) p.off = some (qs, e) →
    p.qd - p.index < fuel →
    ∃ p1, skipAllQuestions fuel p = .ok (p1, none) ∧ p1.msg = p.msg ∧ p1.sect = secAnswers ∧ p1.index = 0 ∧
      p1.off = e ∧ p1.resHeaderValid = false ∧ Same p p1 := by
  intro fuel
  induction fuel with
  | zero => intro p qs e _ _ _ h; omega
  | succ n ih =>
    intro p qs e hs hle hq hf
    rw [skipAllQuestions]
    by_cases hi : p.index = p.qd
    · rw [skipQuestion_done hs hi]
      simp only []
      have h0 : p.qd - p.index = 0 := by omega
      rw [h0] at hq
      simp only [questionsAt?] at hq
      injection hq with hq
      injection hq with _ hq
      exact ⟨_, rfl, rfl, by simp only []; rw [hs]; rfl, rfl, hq, rfl, ⟨rfl, rfl, rfl, rfl⟩⟩
    · obtain ⟨k, hk⟩ : ∃ k, p.qd - p.index = k + 1 := ⟨p.qd - p.index - 1, by omega⟩
      rw [hk] at hq
      rw [questionsAt?] at hq
      cases hq1 : questionAt? p.msg p.off with
      | none => rw [hq1] at hq; simp [bind, Option.bind] at hq
      | some v =>
        obtain ⟨q, o1⟩ := v
        rw [hq1] at hq
        simp only [bind, Option.bind] at hq
        cases hrest : questionsAt? p.msg k o1 with
        | none => rw [hrest] at hq; simp at hq
        | some w =>
          obtain ⟨qs', e'⟩ := w
          rw [hrest] at hq
          simp [pure] at hq
          obtain ⟨_, rfl⟩ := hq
          rw [skipQuestion_of hs hi hq1]
          simp only []
          obtain ⟨p1, h1, h2, h3, h4, h5, h6, h7⟩ := ih { p with resHeaderValid := false, off := o1, index := p.index + 1 } qs' e' hs
            (by simp only []; omega)
            (by simp only []; rw [show p.qd - (p.index + 1) = k by omega]; exact hrest)
            (by simp only []; omega)
          exact ⟨p1, h1, h2, h3, h4, h5, h6, h7⟩

/-! ### the whole call -/

/-- the reference result of ProcessMDNS on a response whose records are `rrs` (answer, authority and
    additional sections in wire order) -/
def refMdns (m : Bytes) (rrs : List RR) : MdnsOut :=
  finalize (refModel m [] rrs) (refV4 [] rrs) (refV6 [] rrs)

theorem processMDNS_eq_ref (payload : Bytes) (fuel : Nat) (id bits qd an ns ar : Nat)
    (qs : List Spec.Question) (qe : Nat) (rrs : List RR) (o : Nat)
    (h0 : u16At payload 0 = some id) (h2 : u16At payload 2 = some bits) (h4 : u16At payload 4 = some qd)
    (h6 : u16At payload 6 = some an) (h8 : u16At payload 8 = some ns) (h10 : u16At payload 10 = some ar)
    (hresp : bits / 32768 % 2 = 1)
    (hqs : questionsAt? payload qd 12 = some (qs, qe))
    (hrecs : RecsOK payload (an + ns + ar) qe rrs o)
    (hf : qd + an + ns + ar + 5 ≤ fuel) :
    processMDNS fuel payload = .ok (refMdns payload rrs) := by
  unfold processMDNS
  rw [start_of_header h0 h2 h4 h6 h8 h10]
  simp only []
  have hr : (bits / 32768 % 2 == 1) = true := by simp [hresp]
  rw [hr]
  simp only [Bool.not_true, Bool.false_eq_true, if_false]
  obtain ⟨p1, h1, hm, hsect, hidx, hoff, hv, hsame⟩ := skipAllQuestions_of fuel
    { msg := payload, qd := qd, an := an, ns := ns, ar := ar, sect := secQuestions, off := 12, index := 0,
      resHeaderValid := false, resHeaderOffset := 0, resHeaderType := 0, resHeaderLength := 0 } qs qe rfl
    (by simp only []; omega) (by simpa using hqs) (by simp only []; omega)
  rw [h1]
  simp only []
  simp only [] at hm
  obtain ⟨s1, s2, s3, s4⟩ := hsame
  simp only [] at s1 s2 s3 s4
  have hcount : (p1.count secAnswers - p1.index) + after p1 secAnswers = an + ns + ar := by
    simp [Parser.count, after, secAnswers, hidx, s2, s3, s4]
    omega
  have := mdnsLoop_eq_ref fuel { p := p1, sec := secAnswers, model := [], v4 := [], v6 := [] } rrs o hv hsect
    (by simp [secAnswers]) (by simp [secAnswers]) (by unfold DnsMsg.Inv; rw [hidx]; omega)
    (by simp only []; rw [hcount, hm, hoff]; exact hrecs)
    (by
      have := mu3_le p1
      simp only [secAnswers]
      rw [s2, s3, s4] at this
      omega)
  rw [this]
  simp only [hm]
  rfl

/-! ### closed forms -/

theorem refV4_eq (rrs : List RR) : ∀ (v4 : List IPName), refV4 v4 rrs = v4 ++ (rrs.filter (fun r => r.rtype = 1)).map entryOf := by
  induction rrs with
  | nil => intro v4; simp [refV4]
  | cons r rs ih =>
    intro v4
    have : refV4 v4 (r :: rs) = refV4 (stepV4 v4 r) rs := rfl
    rw [this, ih]
    by_cases h : r.rtype = 1 <;> simp [stepV4, h]

theorem refV6_eq (rrs : List RR) : ∀ (v6 : List IPName), refV6 v6 rrs = v6 ++ (rrs.filter (fun r => r.rtype = 28)).map entryOf := by
  induction rrs with
  | nil => intro v6; simp [refV6]
  | cons r rs ih =>
    intro v6
    have : refV6 v6 (r :: rs) = refV6 (stepV6 v6 r) rs := rfl
    rw [this, ih]
    by_cases h : r.rtype = 28 <;> simp [stepV6, h]

/-- `finalize` only fills in the model string: names and addresses are untouched -/
theorem finalize_pairs (model : Bytes) (v4 v6 : List IPName) :
    (finalize model v4 v6).ipv4.map (fun x => (x.name, x.ip)) = v4.map (fun x => (x.name, x.ip)) ∧
    (finalize model v4 v6).ipv6.map (fun x => (x.name, x.ip)) = v6.map (fun x => (x.name, x.ip)) ∧
    (finalize model v4 v6).err = false := by
  unfold finalize
  split
  · simp [List.map_map, Function.comp_def]
  · simp

/-- from the flat reference list (`rrsAt?`) and a per-record hypothesis to `RecsOK` -/
theorem recsOK_of_rrsAt {m : Bytes} : ∀ (n off : Nat) (rrs : List RR) (o : Nat), rrsAt? m n off = some (rrs, o) →
    (∀ k pre off' r o', k < n → rrsAt? m k off = some (pre, off') → rrAt? m off' = some (r, o') → MRecOK m off' r) →
    RecsOK m n off rrs o := by
  intro n
  induction n with
  | zero =>
    intro off rrs o h _
    simp [rrsAt?] at h
    exact ⟨h.1, h.2.symm⟩
  | succ n ih =>
    intro off rrs o h hok
    obtain ⟨r, o1, rs, h1, h2, rfl⟩ := rrsAt_succ h
    refine ⟨r, o1, rs, h1, hok 0 [] off r o1 (by omega) rfl h1, ?_, rfl⟩
    apply ih o1 rs o h2
    intro k pre off' r' o' hk hpre hr'
    exact hok (k + 1) (r :: pre) off' r' o' (by omega) (rrsAt_succ_of h1 hpre) hr'

/-- and back: `RecsOK` gives the per-record hypothesis over the flat list -/
theorem mrecOK_of_recsOK {m : Bytes} : ∀ (n off : Nat) (rrs : List RR) (o : Nat), RecsOK m n off rrs o →
    ∀ k pre off' r o', k < n → rrsAt? m k off = some (pre, off') → rrAt? m off' = some (r, o') → MRecOK m off' r := by
  intro n
  induction n with
  | zero => intro off rrs o _ k pre off' r o' hk; omega
  | succ n ih =>
    intro off rrs o ⟨r0, o1, rs, h1, hok0, hrest, _⟩ k pre off' r o' hk hpre hr
    cases k with
    | zero =>
      simp [rrsAt?] at hpre
      obtain ⟨_, rfl⟩ := hpre
      rw [h1] at hr
      injection hr with hr
      injection hr with hr _
      subst hr
      exact hok0
    | succ k =>
      obtain ⟨r1, o1', pre', g1, g2, _⟩ := rrsAt_succ hpre
      rw [h1] at g1
      injection g1 with g1
      injection g1 with _ g1
      subst g1
      exact ih o1 rs o hrest k pre' off' r o' (by omega) g2 hr

theorem rrsAt_of_recsOK {m : Bytes} : ∀ (n off : Nat) (rrs : List RR) (o : Nat), RecsOK m n off rrs o →
    rrsAt? m n off = some (rrs, o) := by
  intro n
  induction n with
  | zero => intro off rrs o ⟨h1, h2⟩; rw [h1, h2]; rfl
  | succ n ih =>
    intro off rrs o ⟨r, o1, rs, h1, _, h3, h4⟩
    rw [h4]
    exact rrsAt_succ_of h1 (ih o1 rs o h3)

/-! ### messages that stop being decodable in the middle: what was found so far stays, in order -/

/-- the (name, address) pairs of a result list -/
def pairs (l : List IPName) : List (Bytes × Bytes) := l.map (fun x => (x.name, x.ip))

theorem pairs_append (a b : List IPName) : pairs (a ++ b) = pairs a ++ pairs b := by simp [pairs]

theorem skipOr_lists (s s' : MdnsState) (p1 : Parser) (h : skipOr s p1 = .next s') : s'.v4 = s.v4 ∧ s'.v6 = s.v6 :=
  (skipOr_names s s' p1 h).2

/-- one iteration only appends to the two lists -/
theorem mdnsStep_next_mono (s s' : MdnsState) (h : mdnsStep s = .next s') :
    (∃ t, s'.v4 = s.v4 ++ t) ∧ (∃ t, s'.v6 = s.v6 ++ t) := by
  unfold mdnsStep at h
  cases hrh : resourceHeader s.p s.sec with
  | mk p1 r =>
    rw [hrh] at h
    cases r with
    | error e =>
      cases e with
      | sectionDone =>
        simp only [] at h
        split at h
        · simp at h
        · injection h with h; subst h; exact ⟨⟨[], by simp⟩, ⟨[], by simp⟩⟩
      | notStarted => simp at h
      | other => simp at h
    | ok hdr =>
      simp only [] at h
      have keep : ∀ s'' : MdnsState, (s''.p.msg = p1.msg ∧ s''.v4 = s.v4 ∧ s''.v6 = s.v6) →
          (∃ t, s''.v4 = s.v4 ++ t) ∧ (∃ t, s''.v6 = s.v6 ++ t) := by
        intro s'' ⟨_, b, c⟩
        exact ⟨⟨[], by rw [b]; simp⟩, ⟨[], by rw [c]; simp⟩⟩
      split at h
      · cases ht : typedResource p1 (· == 1) unpackA with
        | mk p2 r =>
          rw [ht] at h
          cases r with
          | error e => simp at h
          | ok a =>
            simp only [] at h
            injection h with h; subst h
            exact ⟨⟨_, rfl⟩, ⟨[], by simp⟩⟩
      split at h
      · cases ht : typedResource p1 (· == 28) unpackAAAA with
        | mk p2 r =>
          rw [ht] at h
          cases r with
          | error e => simp at h
          | ok a =>
            simp only [] at h
            injection h with h; subst h
            exact ⟨⟨[], by simp⟩, ⟨_, rfl⟩⟩
      split at h
      · exact keep _ (parseOrSkip_names s s' p1 12 unpackPTR _ (fun _ _ => ⟨rfl, rfl, rfl⟩) h)
      split at h
      · exact keep _ (parseOrSkip_names s s' p1 33 unpackSRV _ (fun _ _ => ⟨rfl, rfl, rfl⟩) h)
      split at h
      · exact keep _ (parseOrSkip_names s s' p1 16 unpackTXT
          (fun txt st => let m := parseTXT txt; { st with model := if m ≠ [] then m else st.model }) (fun _ _ => ⟨rfl, rfl, rfl⟩) h)
      split at h
      · exact keep _ (parseOrSkip_names s s' p1 41 unpackOPT _ (fun _ _ => ⟨rfl, rfl, rfl⟩) h)
      · exact keep _ (skipOr_names s s' p1 h)

/-- the last iteration returns the lists as they are (with the model string filled in at the
    regular end, as they are on an error) -/
theorem mdnsStep_done_pairs (s : MdnsState) (o : MdnsOut) (h : mdnsStep s = .done o) :
    pairs o.ipv4 = pairs s.v4 ∧ pairs o.ipv6 = pairs s.v6 := by
  unfold mdnsStep at h
  cases hrh : resourceHeader s.p s.sec with
  | mk p1 r =>
    rw [hrh] at h
    have errcase : ∀ o', o' = ({ ipv4 := s.v4, ipv6 := s.v6, err := true } : MdnsOut) →
        pairs o'.ipv4 = pairs s.v4 ∧ pairs o'.ipv6 = pairs s.v6 := by
      intro o' ho; subst ho; exact ⟨rfl, rfl⟩
    have skipcase : ∀ p1, skipOr s p1 = .done o → pairs o.ipv4 = pairs s.v4 ∧ pairs o.ipv6 = pairs s.v6 := by
      intro p1 hh
      unfold skipOr at hh
      cases hsk : skipResource p1 s.sec with
      | mk p2 r =>
        rw [hsk] at hh
        cases r with
        | some e => simp only [] at hh; injection hh with hh; exact errcase o hh.symm
        | none => simp at hh
    have poscase : ∀ {α : Type} (p1 : Parser) (t : Nat) (unpack : Bytes → Nat → Nat → R α) (k : α → MdnsState → MdnsState),
        parseOrSkip s p1 t unpack k = .done o → pairs o.ipv4 = pairs s.v4 ∧ pairs o.ipv6 = pairs s.v6 := by
      intro α p1 t unpack k hh
      unfold parseOrSkip at hh
      cases ht : typedResource p1 (· == t) unpack with
      | mk p2 r =>
        rw [ht] at hh
        cases r with
        | error e => exact skipcase p1 hh
        | ok a => simp at hh
    cases r with
    | error e =>
      cases e with
      | sectionDone =>
        simp only [] at h
        split at h
        · injection h with h; subst h
          have := finalize_pairs s.model s.v4 s.v6
          exact ⟨this.1, this.2.1⟩
        · simp at h
      | notStarted => simp only [] at h; injection h with h; exact errcase o h.symm
      | other => simp only [] at h; injection h with h; exact errcase o h.symm
    | ok hdr =>
      simp only [] at h
      split at h
      · cases ht : typedResource p1 (· == 1) unpackA with
        | mk p2 r =>
          rw [ht] at h
          cases r with
          | error e => simp only [] at h; injection h with h; exact errcase o h.symm
          | ok a => simp at h
      split at h
      · cases ht : typedResource p1 (· == 28) unpackAAAA with
        | mk p2 r =>
          rw [ht] at h
          cases r with
          | error e => simp only [] at h; injection h with h; exact errcase o h.symm
          | ok a => simp at h
      split at h
      · exact poscase p1 12 unpackPTR _ h
      split at h
      · exact poscase p1 33 unpackSRV _ h
      split at h
      · exact poscase p1 16 unpackTXT _ h
      split at h
      · exact poscase p1 41 unpackOPT _ h
      · exact skipcase p1 h

/-- whatever the rest of the message holds, the loop only extends the lists it starts with -/
theorem mdnsLoop_mono : ∀ (fuel : Nat) (s : MdnsState) (out : MdnsOut), mdnsLoop fuel s = .ok out →
    (∃ t, pairs out.ipv4 = pairs s.v4 ++ t) ∧ (∃ t, pairs out.ipv6 = pairs s.v6 ++ t) := by
  intro fuel
  induction fuel with
  | zero => intro s out h; simp [mdnsLoop] at h
  | succ n ih =>
    intro s out h
    rw [mdnsLoop] at h
    cases hst : mdnsStep s with
    | done o' =>
      rw [hst] at h
      simp only [] at h
      injection h with h; subst h
      obtain ⟨a, b⟩ := mdnsStep_done_pairs s _ hst
      exact ⟨⟨[], by rw [a]; simp⟩, ⟨[], by rw [b]; simp⟩⟩
    | next s' =>
      rw [hst] at h
      simp only [] at h
      obtain ⟨⟨t4, h4⟩, ⟨t6, h6⟩⟩ := mdnsStep_next_mono s s' hst
      obtain ⟨⟨u4, g4⟩, ⟨u6, g6⟩⟩ := ih s' out h
      refine ⟨⟨pairs t4 ++ u4, ?_⟩, ⟨pairs t6 ++ u6, ?_⟩⟩
      · rw [g4, h4, pairs_append, List.append_assoc]
      · rw [g6, h6, pairs_append, List.append_assoc]

/-- **prefix form**: with the cursor at `k` reference records that are `MRecOK` (`k` at most the
    records still announced), whatever follows them, a returning loop reports the entries of
    these `k` records first, in wire order, each from its own record. -/
theorem mdnsLoop_prefix : ∀ (fuel : Nat) (s : MdnsState) (k : Nat) (rrs : List RR) (o : Nat) (out : MdnsOut),
    s.p.resHeaderValid = false → s.p.sect = s.sec → 3 ≤ s.sec → s.sec ≤ 5 → DnsMsg.Inv s.p →
    k ≤ (s.p.count s.sec - s.p.index) + after s.p s.sec →
    RecsOK s.p.msg k s.p.off rrs o →
    mdnsLoop fuel s = .ok out →
    (∃ t, pairs out.ipv4 = pairs (refV4 s.v4 rrs) ++ t) ∧ (∃ t, pairs out.ipv6 = pairs (refV6 s.v6 rrs) ++ t) := by
  intro fuel
  induction fuel with
  | zero => intro s k rrs o out _ _ _ _ _ _ _ h; simp [mdnsLoop] at h
  | succ n ih =>
    intro s k rrs o out hr hs h3 h5 hinv hk hrecs hloop
    cases k with
    | zero =>
      obtain ⟨rfl, _⟩ := hrecs
      exact mdnsLoop_mono _ s out hloop
    | succ k =>
      rw [mdnsLoop] at hloop
      by_cases hi : s.p.index = s.p.count s.sec
      · have hstep := mdnsStep_sectionDone s hr hs hi
        have hlast : ¬ s.sec ≥ secAdditionals := by
          intro hl
          have h5' : s.sec = 5 := by unfold secAdditionals at hl; omega
          rw [hi, h5'] at hk
          simp [after] at hk
        rw [if_neg hlast] at hstep
        rw [hstep] at hloop
        simp only [] at hloop
        have hlt : s.sec ≤ 4 := by unfold secAdditionals at hlast; omega
        obtain ⟨a, _, c, d, e⟩ := mdnsStep_next s _ hstep hinv h3 h5
        have hcnt : (({ s.p with resHeaderValid := false, index := 0, sect := s.p.sect + 1 } : Parser).count (s.sec + 1) - 0)
            + after ({ s.p with resHeaderValid := false, index := 0, sect := s.p.sect + 1 } : Parser) (s.sec + 1)
            = (s.p.count s.sec - s.p.index) + after s.p s.sec := by
          rw [hi, after_succ s.p s.sec (by omega) hlt]
          simp [Parser.count, after]
        exact ih { s with p := { s.p with resHeaderValid := false, index := 0, sect := s.p.sect + 1 }, sec := s.sec + 1 }
          (k + 1) rrs o out rfl (by simp only []; omega) (by simp only []; omega) (by simp only []; omega) a
          (by simp only [] at hcnt ⊢; rw [hcnt]; exact hk) hrecs hloop
      · have hlt : s.p.index < s.p.count s.sec := by
          unfold DnsMsg.Inv at hinv; rw [hs] at hinv; omega
        obtain ⟨r, o1, rs, hrr, ⟨hown, hA, hAAAA⟩, hrest, rfl⟩ := hrecs
        have hstep := mdnsStep_record s r o1 hr hs hi hrr hown hA hAAAA
        obtain ⟨_, hoff, _, _⟩ := unpackRHeader_of_rrAt hrr hown
        rw [hstep] at hloop
        simp only [] at hloop
        obtain ⟨a, _, c, d, e⟩ := mdnsStep_next s _ hstep hinv h3 h5
        have hcnt : ((recAdv s.p r).count s.sec - (recAdv s.p r).index) + after (recAdv s.p r) s.sec + 1
            = (s.p.count s.sec - s.p.index) + after s.p s.sec := by
          have : (recAdv s.p r).index = s.p.index + 1 := rfl
          have h1 : (recAdv s.p r).count s.sec = s.p.count s.sec := rfl
          have h2 : after (recAdv s.p r) s.sec = after s.p s.sec := rfl
          rw [this, h1, h2]; omega
        have hoff' : (recAdv s.p r).off = o1 := hoff
        exact ih { p := recAdv s.p r, sec := s.sec, model := stepModel s.p.msg s.model r, v4 := stepV4 s.v4 r, v6 := stepV6 s.v6 r }
          k rs o out rfl hs h3 h5 a (by simp only []; omega) (by simp only []; rw [hoff']; exact hrest) hloop

theorem processMDNS_prefix (payload : Bytes) (fuel : Nat) (id bits qd an ns ar : Nat)
    (qs : List Spec.Question) (qe : Nat) (k : Nat) (rrs : List RR) (o : Nat) (out : MdnsOut)
    (h0 : u16At payload 0 = some id) (h2 : u16At payload 2 = some bits) (h4 : u16At payload 4 = some qd)
    (h6 : u16At payload 6 = some an) (h8 : u16At payload 8 = some ns) (h10 : u16At payload 10 = some ar)
    (hresp : bits / 32768 % 2 = 1)
    (hqs : questionsAt? payload qd 12 = some (qs, qe))
    (hk : k ≤ an + ns + ar) (hrecs : RecsOK payload k qe rrs o)
    (hf : qd < fuel) (hout : processMDNS fuel payload = .ok out) :
    (∃ t, pairs out.ipv4 = pairs (refV4 [] rrs) ++ t) ∧ (∃ t, pairs out.ipv6 = pairs (refV6 [] rrs) ++ t) := by
  unfold processMDNS at hout
  rw [start_of_header h0 h2 h4 h6 h8 h10] at hout
  simp only [] at hout
  have hr : (bits / 32768 % 2 == 1) = true := by simp [hresp]
  rw [hr] at hout
  simp only [Bool.not_true, Bool.false_eq_true, if_false] at hout
  obtain ⟨p1, h1, hm, hsect, hidx, hoff, hv, hsame⟩ := skipAllQuestions_of fuel
    { msg := payload, qd := qd, an := an, ns := ns, ar := ar, sect := secQuestions, off := 12, index := 0,
      resHeaderValid := false, resHeaderOffset := 0, resHeaderType := 0, resHeaderLength := 0 } qs qe rfl
    (by simp only []; omega) (by simpa using hqs) (by simp only []; omega)
  rw [h1] at hout
  simp only [] at hout
  simp only [] at hm
  obtain ⟨s1, s2, s3, s4⟩ := hsame
  simp only [] at s1 s2 s3 s4
  have hcount : (p1.count secAnswers - p1.index) + after p1 secAnswers = an + ns + ar := by
    simp [Parser.count, after, secAnswers, hidx, s2, s3, s4]
    omega
  exact mdnsLoop_prefix fuel { p := p1, sec := secAnswers, model := [], v4 := [], v6 := [] } k rrs o out hv hsect
    (by simp [secAnswers]) (by simp [secAnswers]) (by unfold DnsMsg.Inv; rw [hidx]; omega)
    (by simp only []; rw [hcount]; exact hk)
    (by simp only []; rw [hm, hoff]; exact hrecs) hout

/-! ### why `MRecOK` asks for 4 / 16 octets: A / AAAA records of any RDLENGTH -/

/-- an A record of ANY RDLENGTH (owner name accepted by dnsmessage): `AResource` reads the four
    octets at the RDATA offset whatever RDLENGTH says — the call fails when the message ends before
    them, otherwise the entry carries these four octets (the RDATA itself exactly when RDLENGTH = 4)
    and the cursor moves on by RDLENGTH. -/
theorem mdnsStep_A_any (s : MdnsState) (r : RR) (o : Nat)
    (hr : s.p.resHeaderValid = false) (hs : s.p.sect = s.sec) (hi : s.p.index ≠ s.p.count s.sec)
    (hrr : rrAt? s.p.msg s.p.off = some (r, o)) (hown : OwnerOK s.p.msg s.p.off) (t1 : r.rtype = 1) :
    mdnsStep s =
      (if r.rdataOff + 4 ≤ s.p.msg.length then
        .next { s with p := recAdv s.p r,
                       v4 := s.v4 ++ [{ name := mdnsName r, ip := (s.p.msg.drop r.rdataOff).take 4, model := [], manufacturer := [] }] }
       else .done { ipv4 := s.v4, ipv6 := s.v6, err := true }) := by
  obtain ⟨hun, hoff, hle, hrd⟩ := unpackRHeader_of_rrAt hrr hown
  unfold mdnsStep
  rw [resourceHeader_ready s.p s.sec _ _ hr hs hi hun]
  simp only []
  rw [if_pos t1]
  rw [typedResource_pending _ (· == 1) unpackA rfl (by simp [t1])]
  simp only [unpackA, unpackBytesN]
  by_cases hb : r.rdataOff + 4 ≤ s.p.msg.length
  · rw [if_neg (by omega), if_pos hb]
    rfl
  · rw [if_pos (by omega), if_neg hb]

theorem mdnsStep_AAAA_any (s : MdnsState) (r : RR) (o : Nat)
    (hr : s.p.resHeaderValid = false) (hs : s.p.sect = s.sec) (hi : s.p.index ≠ s.p.count s.sec)
    (hrr : rrAt? s.p.msg s.p.off = some (r, o)) (hown : OwnerOK s.p.msg s.p.off) (t28 : r.rtype = 28) :
    mdnsStep s =
      (if r.rdataOff + 16 ≤ s.p.msg.length then
        .next { s with p := recAdv s.p r,
                       v6 := s.v6 ++ [{ name := mdnsName r, ip := (s.p.msg.drop r.rdataOff).take 16, model := [], manufacturer := [] }] }
       else .done { ipv4 := s.v4, ipv6 := s.v6, err := true }) := by
  obtain ⟨hun, hoff, hle, hrd⟩ := unpackRHeader_of_rrAt hrr hown
  unfold mdnsStep
  rw [resourceHeader_ready s.p s.sec _ _ hr hs hi hun]
  simp only []
  rw [if_neg (by omega), if_pos t28]
  rw [typedResource_pending _ (· == 28) unpackAAAA rfl (by simp [t28])]
  simp only [unpackAAAA, unpackBytesN]
  by_cases hb : r.rdataOff + 16 ≤ s.p.msg.length
  · rw [if_neg (by omega), if_pos hb]
    rfl
  · rw [if_pos (by omega), if_neg hb]

/-- a record whose header dnsmessage cannot read (owner name with more than 10 pointers, a dot
    inside a label, reserved label bits, a truncated fixed part, …) ends the call with the error
    flag and the entries found so far -/
theorem mdnsStep_header_error (s : MdnsState) (e : PErr)
    (hr : s.p.resHeaderValid = false) (hs : s.p.sect = s.sec) (hi : s.p.index ≠ s.p.count s.sec)
    (hu : unpackRHeader s.p.msg s.p.off = .error e) (he : e ≠ .sectionDone) :
    mdnsStep s = .done { ipv4 := s.v4, ipv6 := s.v6, err := true } := by
  unfold mdnsStep
  have hrh : resourceHeader s.p s.sec = ({ s.p with resHeaderValid := false }, .error e) := by
    unfold resourceHeader
    rw [hr]
    simp only [Bool.false_eq_true, if_false]
    have hca : checkAdvance s.p s.sec = ({ s.p with resHeaderValid := false }, none) := by
      simp only [checkAdvance]
      rw [if_neg (by omega), if_neg (by omega)]
      rw [if_neg (by simpa [Parser.count] using hi)]
    rw [hca]
    simp only []
    rw [hu]
  rw [hrh]
  cases e with
  | sectionDone => exact absurd rfl he
  | notStarted => rfl
  | other => rfl

end PV.Lemmas.Mdns
