/-
  Helper lemmas about the primitives of Model/LoopGo.lean (used by the loop-translation ties
  Props/C15Tie.lean and Props/C20Tie.lean).
-/
import PacketVerif.Model.LoopGo
namespace PV.Lemmas.LoopGo
open PV PV.Model.LoopGo

theorem idxI_natCast (b : Bytes) (n : Nat) : idxI b (n : Int) = idx b n := by
  simp [idxI]

theorem idxI_append_at (pre rest : Bytes) (a : UInt8) :
    idxI (pre ++ a :: rest) (pre.length : Int) = .ok a := by
  simp [idxI, idx]

theorem idxI_append_at1 (pre rest : Bytes) (a b : UInt8) :
    idxI (pre ++ a :: b :: rest) ((pre.length : Int) + 1) = .ok b := by
  have h1 : ((pre.length : Int) + 1).toNat = pre.length + 1 := by omega
  have h0 : (0 : Int) ≤ (pre.length : Int) + 1 := by omega
  simp [idxI, idx, h1, h0]

theorem idxI_neg (b : Bytes) (i : Int) (h : i < 0) : idxI b i = .panic := by
  simp [idxI]; omega

theorem idx_lt (b : Bytes) (n : Nat) (h : n < b.length) : idx b n = .ok b[n] := by
  simp [idx, h]

theorem idx_ge (b : Bytes) (n : Nat) (h : b.length ≤ n) : idx b n = .panic := by
  simp [idx, h]

end PV.Lemmas.LoopGo
