/-
  Invariant of the session life cycle (Model/SessionLife.lean) and its preservation.
-/
import PacketVerif.Model.SessionLife
import PacketVerif.Lemmas.Tables
namespace PV.Lemmas.SessionLife
open PV PV.Model PV.Model.SessionLife PV.Spec
open PV.Model.Tables (Cfg Sess Op purge)

/-- the call that set `closed` (the winner) is the only call past the mark; the channels are closed exactly as
    far as the winner has got; without a winner everything is open -/
def LInv (s : Life) : Prop :=
  (s.closed = s.winner.isSome) ∧
  (∀ p, 1 ≤ s.cl p ∧ s.cl p ≤ 5 → s.winner = some p) ∧
  (∀ w, s.winner = some w → 1 ≤ s.cl w ∧ s.cl w ≤ 5 ∧ s.chClosed = decide (2 ≤ s.cl w) ∧
      s.cClosed = decide (3 ≤ s.cl w) ∧ s.connClosed = (if 4 ≤ s.cl w then 1 else 0)) ∧
  (s.winner = none → s.chClosed = false ∧ s.cClosed = false ∧ s.connClosed = 0)

theorem linv_new (c : Cfg) (now : Int) (mh mr : String) : LInv (newSession c now mh mr) := by
  simp [LInv, newSession]

theorem linv_closeMark {c : Cfg} {s s' : Life} {p : Nat} (h : LInv s) (hs : step c s (.closeMark p) = .next s') : LInv s' := by
  obtain ⟨h1, h2, h3, h4⟩ := h
  simp only [step] at hs
  split at hs
  · cases hs
  · rename_i h0
    have h0 : s.cl p = 0 := by simpa using h0
    split at hs
    · -- already closed: early return
      rename_i hc
      cases hs
      refine ⟨h1, ?_, ?_, h4⟩
      · intro q hq
        by_cases hqp : q = p
        · subst hqp; simp [setCl] at hq
        · simp [setCl, hqp] at hq; exact h2 q hq
      · intro w hw
        have := h3 w hw
        have hwp : w ≠ p := by intro e; subst e; omega
        simpa [setCl, hwp] using this
    · rename_i hc
      have hc : s.closed = false := by simpa using hc
      have hn : s.winner = none := by
        rw [hc] at h1; cases hw : s.winner <;> simp_all
      cases hs
      refine ⟨by simp [setCl], ?_, ?_, by simp [setCl]⟩
      · intro q hq
        by_cases hqp : q = p
        · subst hqp; rfl
        · simp [setCl, hqp] at hq
          have := h2 q hq; rw [hn] at this; cases this
      · intro w hw
        have hwp : w = p := by simpa [setCl] using hw.symm
        subst hwp
        have := h4 hn
        simp [setCl, this]

theorem linv_closeStep {c : Cfg} {s s' : Life} {p : Nat} (h : LInv s) (hs : step c s (.closeStep p) = .next s') : LInv s' := by
  obtain ⟨h1, h2, h3, h4⟩ := h
  have key : ∀ n, 1 ≤ n → n ≤ 4 → s.cl p = n → ∀ (t : Life),
      t.closed = s.closed → t.winner = s.winner → (∀ q, t.cl q = if q = p then n + 1 else s.cl q) →
      t.chClosed = decide (2 ≤ n + 1) → t.cClosed = decide (3 ≤ n + 1) → t.connClosed = (if 4 ≤ n + 1 then 1 else 0) →
      LInv t := by
    intro n hn1 hn4 hcl t tc tw tcl tch tcc tco
    have hw : s.winner = some p := h2 p (by omega)
    refine ⟨by rw [tc, tw]; exact h1, ?_, ?_, ?_⟩
    · intro q hq
      rw [tw]
      by_cases hqp : q = p
      · subst hqp; exact hw
      · rw [tcl] at hq; simp [hqp] at hq; exact h2 q hq
    · intro w hw'
      rw [tw, hw] at hw'
      have : w = p := by cases hw'; rfl
      subst this
      rw [tcl]; simp only [if_true]
      exact ⟨by omega, by omega, tch, tcc, tco⟩
    · intro hn; rw [tw, hw] at hn; cases hn
  simp only [step] at hs
  split at hs
  · rename_i hc
    have hw : s.winner = some p := h2 p (by omega)
    have := h3 p hw
    split at hs
    · cases hs
    · cases hs
      apply key 1 (by omega) (by omega) hc <;> simp [setCl, this.2.2.2.1, this.2.2.2.2, hc]
  · split at hs
    · rename_i hc
      have hw : s.winner = some p := h2 p (by omega)
      have := h3 p hw
      split at hs
      · cases hs
      · cases hs
        apply key 2 (by omega) (by omega) hc <;> simp [setCl, this.2.2.1, this.2.2.2.2, hc]
    · split at hs
      · rename_i hc
        have hw : s.winner = some p := h2 p (by omega)
        have := h3 p hw
        cases hs
        apply key 3 (by omega) (by omega) hc <;> simp [setCl, this.2.2.1, this.2.2.2.1, this.2.2.2.2, hc]
      · split at hs
        · rename_i hc
          have hw : s.winner = some p := h2 p (by omega)
          have := h3 p hw
          cases hs
          apply key 4 (by omega) (by omega) hc <;> simp [setCl, this.2.2.1, this.2.2.2.1, this.2.2.2.2, hc]
        · cases hs

/-- the other steps do not touch the fields of the invariant -/
theorem linv_frame {s t : Life} (h : LInv s) (h1 : t.closed = s.closed) (h2 : t.winner = s.winner) (h3 : t.cl = s.cl)
    (h4 : t.chClosed = s.chClosed) (h5 : t.cClosed = s.cClosed) (h6 : t.connClosed = s.connClosed) : LInv t := by
  unfold LInv; rw [h1, h2, h3, h4, h5, h6]; exact h

theorem linv_step {c : Cfg} {s s' : Life} {e : Ev} (h : LInv s) (hs : step c s e = .next s') : LInv s' := by
  cases e with
  | closeMark p => exact linv_closeMark h hs
  | closeStep p => exact linv_closeStep h hs
  | minuteTick now => simp only [step] at hs; split at hs <;> cases hs; exact linv_frame h rfl rfl rfl rfl rfl rfl
  | minuteExit => simp only [step] at hs; split at hs <;> cases hs; exact linv_frame h rfl rfl rfl rfl rfl rfl
  | monitorTick => simp only [step] at hs; split at hs <;> cases hs; exact linv_frame h rfl rfl rfl rfl rfl rfl
  | monitorExit => simp only [step] at hs; split at hs <;> cases hs; exact linv_frame h rfl rfl rfl rfl rfl rfl
  | purgeRun => simp only [step] at hs; split at hs <;> cases hs; exact linv_frame h rfl rfl rfl rfl rfl rfl
  | tableOp op => simp only [step] at hs; cases hs; exact linv_frame h rfl rfl rfl rfl rfl rfl
  | sendOne =>
    simp only [step] at hs
    split at hs
    · cases hs
    · split at hs
      · cases hs; exact linv_frame h rfl rfl rfl rfl rfl rfl
      · split at hs
        · cases hs
        · split at hs <;> cases hs <;> exact linv_frame h rfl rfl rfl rfl rfl rfl
  | recv => simp only [step] at hs; split at hs <;> cases hs; exact linv_frame h rfl rfl rfl rfl rfl rfl
  | parseIP => simp only [step] at hs; cases hs; exact linv_frame h rfl rfl rfl rfl rfl rfl

/-- under the invariant no step panics: the winner closes each channel once, and a notification is sent on `C`
    only while `closed` is false, i.e. before anybody could close `C` -/
theorem step_no_panic {c : Cfg} {s : Life} (h : LInv s) (e : Ev) : step c s e ≠ .panic := by
  obtain ⟨h1, h2, h3, h4⟩ := h
  cases e with
  | closeStep p =>
    simp only [step]
    split
    · rename_i hc
      have := h3 p (h2 p (by omega))
      simp [this.2.2.1, hc]
    · split
      · rename_i hc
        have := h3 p (h2 p (by omega))
        simp [this.2.2.2.1, hc]
      · split
        · simp
        · split <;> simp
  | sendOne =>
    simp only [step]
    split
    · simp
    · split
      · simp
      · rename_i hc
        have hc : s.closed = false := by simpa using hc
        have hn : s.winner = none := by rw [hc] at h1; cases hw : s.winner <;> simp_all
        simp [(h4 hn).2.1]
        split <;> simp
  | closeMark p =>
    simp only [step]
    split
    · simp
    · split <;> simp
  | minuteTick now => simp only [step]; split <;> simp
  | minuteExit => simp only [step]; split <;> simp
  | monitorTick => simp only [step]; split <;> simp
  | monitorExit => simp only [step]; split <;> simp
  | purgeRun => simp only [step]; split <;> simp
  | tableOp op => simp [step]
  | recv => simp only [step]; split <;> simp
  | parseIP => simp [step]

/-- the tables keep the C05 invariant through every step -/
theorem tables_step {c : Cfg} {s s' : Life} {e : Ev} (h : Inv s.tables) (hs : step c s e = .next s') : Inv s'.tables := by
  cases e with
  | purgeRun =>
    simp only [step] at hs
    split at hs
    · cases hs
    · cases hs; exact Lemmas.Tables.inv_step h c (.purge _)
  | tableOp op => simp only [step] at hs; cases hs; exact Lemmas.Tables.inv_step h c op
  | closeMark p =>
    simp only [step] at hs
    split at hs
    · cases hs
    · split at hs <;> cases hs <;> exact h
  | closeStep p =>
    simp only [step] at hs
    repeat' split at hs
    all_goals first | cases hs; exact h | cases hs
  | minuteTick now => simp only [step] at hs; split at hs <;> cases hs; exact h
  | minuteExit => simp only [step] at hs; split at hs <;> cases hs; exact h
  | monitorTick => simp only [step] at hs; split at hs <;> cases hs; exact h
  | monitorExit => simp only [step] at hs; split at hs <;> cases hs; exact h
  | sendOne =>
    simp only [step] at hs
    repeat' split at hs
    all_goals first | cases hs; exact h | cases hs
  | recv => simp only [step] at hs; split at hs <;> cases hs; exact h
  | parseIP => simp only [step] at hs; cases hs; exact h

/-- once closed, always closed, and nothing more is sent on `C` -/
theorem closed_step {c : Cfg} {s s' : Life} {e : Ev} (hc : s.closed = true) (hs : step c s e = .next s') :
    s'.closed = true ∧ s'.out = s.out := by
  cases e with
  | closeMark p =>
    simp only [step, hc, if_true] at hs
    split at hs <;> cases hs; exact ⟨hc, rfl⟩
  | closeStep p =>
    simp only [step] at hs
    repeat' split at hs
    all_goals first | cases hs; exact ⟨hc, rfl⟩ | cases hs
  | sendOne =>
    simp only [step, hc, if_true] at hs
    split at hs <;> cases hs; exact ⟨rfl, rfl⟩
  | minuteTick now => simp only [step] at hs; split at hs <;> cases hs; exact ⟨hc, rfl⟩
  | minuteExit => simp only [step] at hs; split at hs <;> cases hs; exact ⟨hc, rfl⟩
  | monitorTick => simp only [step] at hs; split at hs <;> cases hs; exact ⟨hc, rfl⟩
  | monitorExit => simp only [step] at hs; split at hs <;> cases hs; exact ⟨hc, rfl⟩
  | purgeRun => simp only [step] at hs; split at hs <;> cases hs; exact ⟨hc, rfl⟩
  | tableOp op => simp only [step] at hs; cases hs; exact ⟨hc, rfl⟩
  | recv => simp only [step] at hs; split at hs <;> cases hs; exact ⟨hc, rfl⟩
  | parseIP => simp only [step] at hs; cases hs; exact ⟨hc, rfl⟩

end PV.Lemmas.SessionLife
