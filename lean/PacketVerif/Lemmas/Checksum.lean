import PacketVerif.Model.Checksum
import PacketVerif.Spec.Rfc1071
namespace PV.Lemmas
open PV PV.Model PV.Spec

/-- sum of the little-endian words (what the Go loop accumulates) -/
def sumLE : Bytes → Nat
  | a :: b :: rest => (b.toNat * 256 + a.toNat) + sumLE rest
  | [a] => a.toNat
  | [] => 0

/-- sum of the bytes at even offsets -/
def evenSum : Bytes → Nat
  | a :: _ :: rest => a.toNat + evenSum rest
  | [a] => a.toNat
  | [] => 0

theorem word_toNat (a b : UInt8) :
    ((b.toUInt32 <<< 8) ||| a.toUInt32).toNat = b.toNat * 256 + a.toNat := by
  have ha := a.toNat_lt
  have hb := b.toNat_lt
  rw [UInt32.toNat_or, UInt32.toNat_shiftLeft, UInt8.toNat_toUInt32, UInt8.toNat_toUInt32]
  have h8 : (8 : UInt32).toNat % 32 = 8 := by decide
  rw [h8, Nat.shiftLeft_eq]
  have : b.toNat * 2 ^ 8 % 2 ^ 32 = b.toNat * 2 ^ 8 := by omega
  rw [this, ← Nat.shiftLeft_eq, ← Nat.shiftLeft_add_eq_or_of_lt (by omega)]

theorem sumLE_le (b : Bytes) : sumLE b ≤ 65535 * ((b.length + 1) / 2) := by
  fun_induction sumLE b with
  | case1 a b rest ih =>
    have ha := a.toNat_lt; have hb := b.toNat_lt
    simp only [List.length_cons]; omega
  | case2 a => have ha := a.toNat_lt; simp; omega
  | case3 => simp

theorem cksumAcc_toNat (b : Bytes) (s : UInt32) (h : s.toNat + sumLE b < 2 ^ 32) :
    (cksumAcc b s).toNat = s.toNat + sumLE b := by
  fun_induction cksumAcc b s with
  | case1 a b rest s ih =>
    simp only [sumLE] at h ⊢
    have hw := word_toNat a b
    have hs : (s + ((b.toUInt32 <<< 8) ||| a.toUInt32)).toNat = s.toNat + (b.toNat * 256 + a.toNat) := by
      rw [UInt32.toNat_add, hw]; omega
    rw [ih (by rw [hs]; omega), hs]; omega
  | case2 a s =>
    simp only [sumLE] at h ⊢
    rw [UInt32.toNat_add, UInt8.toNat_toUInt32]; omega
  | case3 s => simp [sumLE]

/-- big-endian and little-endian sums are congruent up to the factor 256 (mod 65535) -/
theorem sumBE_sumLE (b : Bytes) : 256 * sumBE b = sumLE b + 65535 * evenSum b := by
  fun_induction sumBE b with
  | case1 a b rest ih => simp only [sumLE, evenSum]; omega
  | case2 a => simp only [sumLE, evenSum]; omega
  | case3 => simp [sumLE, evenSum]

theorem evenSum_zero_of_sumLE_zero (b : Bytes) (h : sumLE b = 0) : evenSum b = 0 := by
  fun_induction sumLE b with
  | case1 a b rest ih => simp only [evenSum]; have := ih (by omega); omega
  | case2 a => simp only [evenSum]; omega
  | case3 => simp [evenSum]

/-- canonical representative of the 1's complement sum -/
def canon (n : Nat) : Nat := if n = 0 then 0 else 1 + (n - 1) % 65535

theorem fold16_eq_canon (n : Nat) : fold16 n = canon n := by
  induction n using Nat.strongRecOn with
  | _ n ih =>
    unfold fold16
    split
    · unfold canon; split <;> omega
    · rename_i h
      rw [ih _ (by omega)]
      unfold canon; split <;> split <;> omega

theorem canon_le (n : Nat) : canon n ≤ 65535 := by unfold canon; split <;> omega

/-- the two folds of the Go code compute the canonical representative (no third fold needed) -/
theorem two_folds_eq_canon (L : Nat) (h : L < 2 ^ 32) :
    ((L / 65536 + L % 65536) + (L / 65536 + L % 65536) / 65536) % 65536 = canon L := by
  have hdm := Nat.div_add_mod L 65536
  have hr := Nat.mod_lt L (show 65536 > 0 by decide)
  have hq : L / 65536 < 65536 := by omega
  clear h
  generalize L / 65536 = q at *
  generalize L % 65536 = r at *
  subst hdm
  unfold canon
  by_cases h0 : q + r = 0
  · have : q = 0 := by omega
    have : r = 0 := by omega
    subst_vars; simp
  · have hne : 65536 * q + r ≠ 0 := by omega
    simp only [hne, if_false]
    have e : 65536 * q + r - 1 = (q + r - 1) + 65535 * q := by omega
    rw [e, Nat.add_mul_mod_self_left]
    by_cases hs : q + r < 65536
    · have : (q + r) / 65536 = 0 := by omega
      rw [this]
      by_cases hs2 : q + r - 1 < 65535
      · rw [Nat.mod_eq_of_lt hs2]; omega
      · have : q + r - 1 = 65535 := by omega
        rw [this]; omega
    · have : (q + r) / 65536 = 1 := by omega
      rw [this]
      have e2 : q + r - 1 = (q + r - 65536) + 65535 * 1 := by omega
      have h3 : q + r - 65536 < 65535 := by omega
      rw [e2, Nat.add_mul_mod_self_left, Nat.mod_eq_of_lt h3]
      omega

/-- multiplying by 256 modulo 65535 is the byte swap -/
theorem canon_swap (B L E : Nat) (hrel : 256 * B = L + 65535 * E) (hz : L = 0 → E = 0) :
    canon L = swap16 (canon B) := by
  unfold swap16
  by_cases hL : L = 0
  · have hE := hz hL; subst hL; subst hE
    have : B = 0 := by omega
    subst this; simp [canon]
  · have hB : B ≠ 0 := by intro h0; subst h0; omega
    have hv : canon B = 1 + (B - 1) % 65535 := by simp [canon, hB]
    have hw : canon L = 1 + (L - 1) % 65535 := by simp [canon, hL]
    generalize canon B = v at *
    generalize canon L = w at *
    omega

theorem swap16_compl (v : Nat) (h : v ≤ 65535) : swap16 (65535 - v) = 65535 - swap16 v := by
  unfold swap16; omega

theorem sumBE_append_even (a b : Bytes) (h : a.length % 2 = 0) : sumBE (a ++ b) = sumBE a + sumBE b := by
  fun_induction sumBE a with
  | case1 x y rest ih =>
    simp only [List.length_cons] at h
    simp only [List.cons_append, sumBE]; rw [ih (by omega)]; omega
  | case2 x => simp at h
  | case3 => simp

end PV.Lemmas

namespace PV.Lemmas
open PV PV.Model PV.Spec

theorem putChecksum_append (a c : Bytes) (x y : UInt8) (cs : UInt16) :
    putChecksum (a ++ x :: y :: c) a.length cs = a ++ cs.toUInt8 :: (cs >>> 8).toUInt8 :: c := by
  induction a with
  | nil => simp [putChecksum]
  | cons h t ih => simp [putChecksum]

theorem cs_lo (cs : UInt16) : cs.toUInt8.toNat = cs.toNat % 256 := by
  simp [UInt16.toNat_toUInt8]

theorem cs_hi (cs : UInt16) : (cs >>> 8).toUInt8.toNat = cs.toNat / 256 := by
  have h8 : (8 : UInt16).toNat % 16 = 8 := by decide
  have := cs.toNat_lt
  rw [UInt16.toNat_toUInt8, UInt16.toNat_shiftRight, h8, Nat.shiftRight_eq_div_pow]
  omega

theorem canon_add_compl (S : Nat) : canon (S + (65535 - canon S)) = 65535 := by
  unfold canon
  by_cases h : S = 0
  · subst h; simp
  · simp only [h, if_false]
    have hm := Nat.mod_lt (S - 1) (show 65535 > 0 by decide)
    have hd := Nat.div_add_mod (S - 1) 65535
    have hne : S + (65535 - (1 + (S - 1) % 65535)) ≠ 0 := by omega
    simp only [hne, if_false]
    have e : S + (65535 - (1 + (S - 1) % 65535)) - 1 = 65534 + 65535 * ((S - 1) / 65535) := by omega
    rw [e, Nat.add_mul_mod_self_left]

/-- inserting the checksum of `a ++ 0 0 ++ c` (or of `a ++ c`) at an even offset makes the block verify -/
theorem verifies_insert (a c : Bytes) (x y : UInt8) (cs : UInt16) (ha : a.length % 2 = 0)
    (hcs : cs.toNat = swap16 (65535 - fold16 (sumBE a + sumBE c))) :
    verifies (putChecksum (a ++ x :: y :: c) a.length cs) := by
  rw [putChecksum_append]
  unfold verifies
  rw [sumBE_append_even _ _ ha]
  simp only [sumBE]
  rw [cs_lo, cs_hi, hcs, fold16_eq_canon, fold16_eq_canon]
  have hc := canon_le (sumBE a + sumBE c)
  have := canon_add_compl (sumBE a + sumBE c)
  generalize canon (sumBE a + sumBE c) = v at *
  have e : swap16 (65535 - v) % 256 * 256 + swap16 (65535 - v) / 256 = 65535 - v := by
    unfold swap16; omega
  have : sumBE a + (swap16 (65535 - v) % 256 * 256 + swap16 (65535 - v) / 256 + sumBE c)
       = sumBE a + sumBE c + (65535 - v) := by omega
  rw [this]; assumption

theorem sumBE_cons (z : UInt8) (b : Bytes) : sumBE (z :: b) = z.toNat * 256 + sumLE b := by
  fun_induction sumLE b generalizing z with
  | case1 x y rest ih => simp only [sumBE]; rw [ih]; omega
  | case2 x => simp [sumBE]
  | case3 => simp [sumBE]

theorem sumBE_append_odd (a b : Bytes) (h : a.length % 2 = 1) : sumBE (a ++ b) = sumBE a + sumLE b := by
  fun_induction sumBE a with
  | case1 x y rest ih =>
    simp only [List.length_cons] at h
    simp only [List.cons_append, sumBE]; rw [ih (by omega)]; omega
  | case2 x => simp only [List.cons_append, List.nil_append, sumBE_cons]
  | case3 => simp at h

end PV.Lemmas
