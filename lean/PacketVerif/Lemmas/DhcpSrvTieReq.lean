import PacketVerif.Lemmas.DhcpSrvTieA
namespace PV.Lemmas.DhcpSrvTie.Req
open PV PV.Model.Dhcp4Srv PV.Model.DhcpSrvGo PV.Lemmas.Dhcp4Srv PV.Gen.DhcpSrv

/-! ### the pieces of the generated `Handler_handleRequest` (same text, named) -/

/-- one `if tmp, ok := options[..]; ok { addr, ok = netip.AddrFromSlice(tmp); if !ok || !addr.Is4() { addr = 0.0.0.0 } }` block -/
def prePair (o : Option Bytes) : AddrV × Bool :=
  let reqIP := (AddrV.v4 0)
  let tmp := (optBytes o)
  let ok := o.isSome
  if ok then
    let reqIP_new := (addrFromSlice tmp)
    let ok_new := (addrFromSlice tmp != AddrV.invalid)
    let reqIP := reqIP_new
    let ok := ok_new
    let reqIP :=
      if ((!ok) || (!(AddrV.is4 reqIP))) then
        let reqIP := (AddrV.v4 0)
        reqIP
      else
        reqIP
    (reqIP, ok)
  else
    (reqIP, ok)

/-- the tagless switch that classifies the request -/
def opSel (m : Msg) (senderIP reqIP serverIP : AddrV) : Nat × AddrV :=
  if (serverIP != (AddrV.v4 0)) then
    let operation := (1 : Nat)
    (operation, reqIP)
  else
    if ((reqIP == (AddrV.v4 0)) && (senderIP != (AddrV.v4 4294967295))) then
      let reqIP := (AddrV.v4 m.ciaddr)
      let operation := (2 : Nat)
      (operation, reqIP)
    else
      if ((reqIP == (AddrV.v4 0)) && (senderIP == (AddrV.v4 4294967295))) then
        let reqIP := (AddrV.v4 m.ciaddr)
        let operation := (0 : Nat)
        (operation, reqIP)
      else
        let operation := (3 : Nat)
        (operation, reqIP)

/-- the ACK tail (four copies in the generated text) -/
def ackTail (cfg : Cfg) (now : Nat) (m : Msg) (s : State) (lease : Cid) : State × Option Reply :=
  let s :=
    if ((L s lease).state == LState.discover) then
      let s := updL s lease (fun l => { l with ip := AddrV.toOpt (AddrV.ofOpt (L s lease).offer) })
      let s := updL s lease (fun l => { l with offer := AddrV.toOpt AddrV.invalid })
      s
    else
      s
  let s := updL s lease (fun l => { l with state := LState.allocated })
  let s := updL s lease (fun l => { l with expiry := (now + (cfg.sub (L s lease).sub).dur) })
  let opts := (((L s lease).sub, none) : OptsV)
  let opts : OptsV := (opts.1, some (cfg.sub (L s lease).sub).dur)
  let ret := (some (encodeReply cfg m RType.ack (AddrV.ofOpt (L s lease).ip) opts))
  (s, ret)

/-- everything after `findOrCreate` -/
def reqTail (cfg : Cfg) (now : Nat) (m : Msg) (clientID : Bytes) (captured : Bool) (subnet : SubId)
    (s : State) (lease : Cid) (operation : Nat) (reqIP serverIP : AddrV) : State × Option Reply :=
    if (operation == (1 : Nat)) then
      if (serverIP != (AddrV.v4 (cfg.sub subnet).server)) then
        let s :=
          if ((L s lease).state != LState.discover) then
            let s := updL s lease (fun l => { l with state := LState.free })
            let s := updL s lease (fun l => { l with ip := AddrV.toOpt AddrV.invalid })
            s
          else
            s
        if ((cfg.mode == Mode.secondary) || (((cfg.mode == Mode.nice) && captured))) then
          (s, (some (nakReplyV m (AddrV.v4 (cfg.sub subnet).server) clientID)))
        else
          (s, none)
      else
        if (((((L s lease).state == LState.free) || (!((L s lease).mac == m.chaddr))) || ((((L s lease).state == LState.discover) && ((((!((L s lease).xid == m.xid)) || ((AddrV.ofOpt (L s lease).offer) != reqIP)) || (Handler_inUse cfg s lease (AddrV.ofOpt (L s lease).offer))))))) || ((((L s lease).state == LState.allocated) && ((((AddrV.ofOpt (L s lease).ip) != reqIP) || (Handler_takenByOther cfg s lease (AddrV.ofOpt (L s lease).ip))))))) then
          (s, (some (nakReplyV m (AddrV.v4 (cfg.sub subnet).server) clientID)))
        else
          ackTail cfg now m s lease
    else
      if (operation == (2 : Nat)) then
        if (((((L s lease).state != LState.allocated) || ((AddrV.ofOpt (L s lease).ip) != reqIP)) || (!((L s lease).mac == m.chaddr))) || (decide ((L s lease).expiry < now))) then
          (s, (some (nakReplyV m (AddrV.v4 (cfg.sub subnet).server) clientID)))
        else
          if (Handler_takenByOther cfg s lease (AddrV.ofOpt (L s lease).ip)) then
            (s, (some (nakReplyV m (AddrV.v4 (cfg.sub subnet).server) clientID)))
          else
            ackTail cfg now m s lease
      else
        if ((operation == (3 : Nat)) || (operation == (0 : Nat))) then
          let taken := (Handler_takenByOther cfg s lease reqIP)
          if ((L s lease).state == LState.free) then
            if ((cfg.mode == Mode.secondary) || (((cfg.mode == Mode.nice) && captured))) then
              (s, (some (nakReplyV m (AddrV.v4 (cfg.sub SubId.net1).gw) clientID)))
            else
              if ((((((L s lease).state != LState.allocated) || ((AddrV.ofOpt (L s lease).ip) != reqIP)) || (!((L s lease).mac == m.chaddr))) || (!(subContains (cfg.sub subnet) (AddrV.ofOpt (L s lease).ip)))) || taken) then
                (s, (some (nakReplyV m (AddrV.v4 (cfg.sub subnet).server) clientID)))
              else
                ackTail cfg now m s lease
          else
            if ((((((L s lease).state != LState.allocated) || ((AddrV.ofOpt (L s lease).ip) != reqIP)) || (!((L s lease).mac == m.chaddr))) || (!(subContains (cfg.sub subnet) (AddrV.ofOpt (L s lease).ip)))) || taken) then
              (s, (some (nakReplyV m (AddrV.v4 (cfg.sub subnet).server) clientID)))
            else
              ackTail cfg now m s lease
        else
          (s, none)

/-- the generated function, cut into the named pieces (definitional) -/
theorem handleRequest_pieces (cfg : Cfg) (now : Nat) (s : State) (host : Option MAC) (m : Msg) (senderIP : AddrV) :
    Handler_handleRequest cfg now s host m senderIP
      = (if ((!((opSel m senderIP (prePair m.reqOpt).1 (prePair m.srvOpt).1).2 != AddrV.invalid))
              || (AddrV.isUnspec (opSel m senderIP (prePair m.reqOpt).1 (prePair m.srvOpt).1).2)) then (s, none)
         else
           reqTail cfg now m (getClientID cfg s m) (isCaptured s m.chaddr) (selSub s m.chaddr)
             (Handler_findOrCreate cfg s (getClientID cfg s m) m.chaddr).1
             (Handler_findOrCreate cfg s (getClientID cfg s m) m.chaddr).2
             (opSel m senderIP (prePair m.reqOpt).1 (prePair m.srvOpt).1).1
             (opSel m senderIP (prePair m.reqOpt).1 (prePair m.srvOpt).1).2
             (prePair m.srvOpt).1) := rfl

/-! ### preamble: pure facts about the message -/

theorem v4_bne (a b : IP) : (AddrV.v4 a != AddrV.v4 b) = (a != b) := by
  simp only [bne, v4_beq]

theorem prePair_fst (o : Option Bytes) : (prePair o).1 = AddrV.v4 (reqAddr o) := by
  unfold prePair reqAddr optBytes
  cases o with
  | none => rfl
  | some b =>
    simp only [Option.isSome_some, if_true, Option.getD_some]
    cases h : addrFromSlice b <;> simp [AddrV.is4]

/-- operation codes of request.go: selecting = 1, renewing = 2, rebinding = 0, rebooting = 3 -/
def kindCode : ReqKind → Nat
  | .selecting => 1
  | .renewing => 2
  | .rebinding => 0
  | .rebooting => 3

theorem opSel_eq (m : Msg) :
    opSel m (AddrV.v4 m.srcIP) (AddrV.v4 (reqAddr m.reqOpt)) (AddrV.v4 (reqAddr m.srvOpt))
      = (kindCode (reqKind m), AddrV.v4 (reqIPOf m)) := by
  unfold opSel reqIPOf reqKind
  simp only [v4_bne, v4_beq]
  by_cases h1 : (reqAddr m.srvOpt != 0) = true
  · simp [h1, kindCode]
  · by_cases h2 : (reqAddr m.reqOpt == 0 && m.srcIP != 4294967295) = true
    · simp [h1, h2, kindCode]
    · by_cases h3 : (reqAddr m.reqOpt == 0 && m.srcIP == 4294967295) = true
      · simp [h1, h2, h3, kindCode]
      · simp [h1, h2, h3, kindCode]

theorem guard_eq (x : IP) : ((!(AddrV.v4 x != AddrV.invalid)) || (AddrV.isUnspec (AddrV.v4 x))) = (x == 0) := by
  simp [AddrV.isUnspec]

/-- the generated function after the preamble -/
theorem handleRequest_pre (cfg : Cfg) (now : Nat) (s : State) (host : Option MAC) (m : Msg) :
    Handler_handleRequest cfg now s host m (AddrV.v4 m.srcIP)
      = (if reqIPOf m == 0 then (s, none)
         else
           reqTail cfg now m (clientId m) (isCaptured s m.chaddr) (selSub s m.chaddr)
             (Handler_findOrCreate cfg s (clientId m) m.chaddr).1
             (Handler_findOrCreate cfg s (clientId m) m.chaddr).2
             (kindCode (reqKind m)) (AddrV.v4 (reqIPOf m)) (AddrV.v4 (reqAddr m.srvOpt))) := by
  rw [handleRequest_pieces, prePair_fst, prePair_fst, opSel_eq, getClientID_tie]
  simp only [guard_eq]

/-! ### field stores through a published pointer -/

theorem isSome_updL (s : State) (c : Cid) (f : Lease → Lease) :
    (getLease (updL s c f).table c).isSome = (getLease s.table c).isSome := by
  unfold updL
  simp only [getLease_map_upd, BEq.rfl, if_true]
  cases getLease s.table c <;> rfl

theorem L_updL (s : State) (c : Cid) (f : Lease → Lease) (hs : (getLease s.table c).isSome = true) :
    L (updL s c f) c = f (L s c) := by
  cases hg : getLease s.table c with
  | none => rw [hg] at hs; cases hs
  | some l => rw [has_L (has_updL hg f), has_L hg]

theorem touch_updL (s : State) (c : Cid) (f : Lease → Lease) (hs : (getLease s.table c).isSome = true) :
    touch (updL s c f) c = { s with table := setLease s.table c (f (L s c)) } := by
  cases hg : getLease s.table c with
  | none => rw [hg] at hs; cases hs
  | some l =>
    rw [touch_has (has_updL hg f), has_L hg, setLease_updL]
    rfl

theorem has_isSome {s : State} {c : Cid} {l : Lease} (h : Has s c l) : (getLease s.table c).isSome = true := by
  rw [h]; rfl

theorem touch_set (s : State) (c : Cid) (x : Lease) :
    touch { s with table := setLease s.table c x } c = { s with table := setLease s.table c x } := by
  have hx : Has ({ s with table := setLease s.table c x } : State) c x := getLease_setLease_self s.table c x
  rw [touch_has hx]
  simp only [setLease_setLease]

/-! ### the ACK tail -/

theorem ackTail_tie (cfg : Cfg) (now : Nat) (m : Msg) (s1 : State) (c : Cid) (l : Lease) (h : Has s1 c l) :
    touch (ackTail cfg now m s1 c).1 c = (ackLease cfg s1 now m c l).1
    ∧ (ackTail cfg now m s1 c).2.toList = (ackLease cfg s1 now m c l).2 := by
  have hs := has_isSome h
  unfold ackTail ackLease
  by_cases hd : l.state = LState.discover
  · simp only [has_L h, hd, BEq.rfl, if_true, L_updL, isSome_updL, hs, touch_updL, setLease_updL, ofOpt_toOpt,
      toOpt_invalid, Option.toList_some, encodeReply_mk]
    exact ⟨rfl, rfl⟩
  · have hb : (l.state == LState.discover) = false := by simpa using hd
    simp only [has_L h, hd, hb, if_false, Bool.false_eq_true, L_updL, isSome_updL, hs, touch_updL, setLease_updL, ofOpt_toOpt,
      toOpt_invalid, Option.toList_some, encodeReply_mk]
    exact ⟨rfl, rfl⟩

/-! ### the model after `findOrCreate` -/

/-- `request` after `findOrCreate` returned `l` -/
def reqModel (cfg : Cfg) (s : State) (now : Nat) (m : Msg) (c : Cid) (l : Lease) : State × List Reply :=
  match verdict cfg s now m l with
  | .nak server l' => ({ s with table := setLease s.table c l' }, [nakReply m server c])
  | .silent l' => ({ s with table := setLease s.table c l' }, [])
  | .ack => ackLease cfg s now m c l

theorem request_eq (cfg : Cfg) (s : State) (now : Nat) (m : Msg) :
    request cfg s now m
      = if reqIPOf m == 0 then (s, []) else reqModel cfg s now m (clientId m) (findOrCreate s (clientId m) m.chaddr) := rfl

theorem ofOpt_bne_v4 (o : Option IP) (a : IP) : (AddrV.ofOpt o != AddrV.v4 a) = (o != some a) := by
  have := ofOpt_eq_iff o (some a)
  show (!(AddrV.ofOpt o == AddrV.ofOpt (some a))) = !(o == some a)
  rw [this]

theorem subContains_ofOpt (n : Subnet) (o : Option IP) :
    subContains n (AddrV.ofOpt o) = (match o with | some ip => n.contains ip | none => false) := by
  cases o <;> rfl

theorem attacks_eq (cfg : Cfg) (s : State) (mac : MAC) :
    ((cfg.mode == Mode.secondary) || (((cfg.mode == Mode.nice) && isCaptured s mac))) = attacks cfg s mac := rfl

theorem touch_self {s : State} {c : Cid} {l : Lease} (h : Has s c l) :
    touch s c = { s with table := setLease s.table c l } := touch_has h

/-! ### selecting -/

theorem reqTail_selecting (cfg : Cfg) (now : Nat) (m : Msg) (s1 : State) (hu : KeysUnique s1.table) (l : Lease)
    (h : Has s1 (clientId m) l) (hk : reqKind m = .selecting) :
    touch (reqTail cfg now m (clientId m) (isCaptured s1 m.chaddr) (selSub s1 m.chaddr) s1 (clientId m)
        (kindCode (reqKind m)) (AddrV.v4 (reqIPOf m)) (AddrV.v4 (reqAddr m.srvOpt))).1 (clientId m)
      = (reqModel cfg s1 now m (clientId m) l).1
    ∧ (reqTail cfg now m (clientId m) (isCaptured s1 m.chaddr) (selSub s1 m.chaddr) s1 (clientId m)
        (kindCode (reqKind m)) (AddrV.v4 (reqIPOf m)) (AddrV.v4 (reqAddr m.srvOpt))).2.toList
      = (reqModel cfg s1 now m (clientId m) l).2 := by
  have hs := has_isSome h
  have hin := inUse_tie cfg s1 hu (clientId m) l.offer
  unfold reqTail reqModel verdict
  simp only [hk, kindCode, BEq.rfl, if_true, v4_bne, has_L h, attacks_eq, takenByOther_tie, hin, ofOpt_toOpt, ofOpt_bne_v4]
  by_cases hsrv : (reqAddr m.srvOpt != (cfg.sub (selSub s1 m.chaddr)).server) = true
  · simp only [hsrv, if_true]
    unfold otherServer
    by_cases hd : (l.state != LState.discover) = true <;> by_cases ha : attacks cfg s1 m.chaddr = true
    all_goals
      simp only [hd, ha, if_true, if_false, Bool.false_eq_true, touch_updL, L_updL, isSome_updL, hs, has_L h, setLease_updL,
        toOpt_invalid, touch_self h, Option.toList_some, Option.toList_none]
      try (refine ⟨?_, ?_⟩ <;> first | rfl | trivial)
  · simp only [hsrv, if_false, Bool.false_eq_true]
    have hc : ((l.state == LState.free || !l.mac == m.chaddr) ||
          l.state == LState.discover && ((!l.xid == m.xid || l.offer != some (reqIPOf m)) ||
            (inUse s1.table (clientId m) l.offer || takenByOther s1 l.mac l.offer)) ||
          l.state == LState.allocated && (l.ip != some (reqIPOf m) || takenByOther s1 l.mac l.ip))
        = selBad s1 m l := by
      unfold selBad
      simp only [bne, Bool.or_assoc]
    rw [hc]
    by_cases hb : selBad s1 m l = true
    · simp only [hb, if_true, touch_self h, Option.toList_some]
      try (refine ⟨?_, ?_⟩ <;> first | rfl | trivial)
    · simp only [hb, if_false, Bool.false_eq_true]
      exact ackTail_tie cfg now m s1 (clientId m) l h

/-! ### renewing -/

theorem reqTail_renewing (cfg : Cfg) (now : Nat) (m : Msg) (s1 : State) (l : Lease)
    (h : Has s1 (clientId m) l) (hk : reqKind m = .renewing) :
    touch (reqTail cfg now m (clientId m) (isCaptured s1 m.chaddr) (selSub s1 m.chaddr) s1 (clientId m)
        (kindCode (reqKind m)) (AddrV.v4 (reqIPOf m)) (AddrV.v4 (reqAddr m.srvOpt))).1 (clientId m)
      = (reqModel cfg s1 now m (clientId m) l).1
    ∧ (reqTail cfg now m (clientId m) (isCaptured s1 m.chaddr) (selSub s1 m.chaddr) s1 (clientId m)
        (kindCode (reqKind m)) (AddrV.v4 (reqIPOf m)) (AddrV.v4 (reqAddr m.srvOpt))).2.toList
      = (reqModel cfg s1 now m (clientId m) l).2 := by
  unfold reqTail reqModel verdict
  have h21 : ((2 : Nat) == 1) = false := by decide
  simp only [hk, kindCode, h21, BEq.rfl, if_true, if_false, Bool.false_eq_true, has_L h, takenByOther_tie, ofOpt_toOpt,
    ofOpt_bne_v4]
  have hc : ((((l.state != LState.allocated || l.ip != some (reqIPOf m)) || !l.mac == m.chaddr) || decide (l.expiry < now))
        || takenByOther s1 l.mac l.ip) = renewBad s1 now m l := by
    unfold renewBad
    simp only [bne]
  rw [← hc]
  by_cases ha : (((l.state != LState.allocated || l.ip != some (reqIPOf m)) || !l.mac == m.chaddr) || decide (l.expiry < now)) = true
  · simp only [ha, Bool.true_or, if_true, touch_self h, Option.toList_some]
    try (refine ⟨?_, ?_⟩ <;> first | rfl | trivial)
  · have ha' := Bool.eq_false_iff.2 ha
    simp only [ha', Bool.false_or, if_false, Bool.false_eq_true]
    by_cases hb : takenByOther s1 l.mac l.ip = true
    · simp only [hb, if_true, touch_self h, Option.toList_some]
      try (refine ⟨?_, ?_⟩ <;> first | rfl | trivial)
    · simp only [hb, if_false, Bool.false_eq_true]
      exact ackTail_tie cfg now m s1 (clientId m) l h

/-! ### rebooting / rebinding -/

theorem reqTail_reboot (cfg : Cfg) (now : Nat) (m : Msg) (s1 : State) (l : Lease)
    (h : Has s1 (clientId m) l) (hk : reqKind m = .rebooting ∨ reqKind m = .rebinding) :
    touch (reqTail cfg now m (clientId m) (isCaptured s1 m.chaddr) (selSub s1 m.chaddr) s1 (clientId m)
        (kindCode (reqKind m)) (AddrV.v4 (reqIPOf m)) (AddrV.v4 (reqAddr m.srvOpt))).1 (clientId m)
      = (reqModel cfg s1 now m (clientId m) l).1
    ∧ (reqTail cfg now m (clientId m) (isCaptured s1 m.chaddr) (selSub s1 m.chaddr) s1 (clientId m)
        (kindCode (reqKind m)) (AddrV.v4 (reqIPOf m)) (AddrV.v4 (reqAddr m.srvOpt))).2.toList
      = (reqModel cfg s1 now m (clientId m) l).2 := by
  have hv : verdict cfg s1 now m l
      = (if l.state == .free && attacks cfg s1 m.chaddr then .nak cfg.net1.gw l
         else if rebootBad s1 (cfg.sub (selSub s1 m.chaddr)) m l then .nak (cfg.sub (selSub s1 m.chaddr)).server l
         else .ack) := by
    unfold verdict
    cases hk with
    | inl hk => simp only [hk]
    | inr hk => simp only [hk]
  have hop : ((kindCode (reqKind m) == 1) = false) ∧ ((kindCode (reqKind m) == 2) = false)
      ∧ (((kindCode (reqKind m) == 3) || (kindCode (reqKind m) == 0)) = true) := by
    cases hk with
    | inl hk => rw [hk]; decide
    | inr hk => rw [hk]; decide
  unfold reqTail reqModel
  rw [hv]
  simp only [hop.1, hop.2.1, hop.2.2, if_true, if_false, Bool.false_eq_true, has_L h, takenByOther_tie, ofOpt_toOpt,
    ofOpt_bne_v4, toOpt_v4, attacks_eq]
  have hc : ((((l.state != LState.allocated || l.ip != some (reqIPOf m)) || !l.mac == m.chaddr) ||
          !subContains (cfg.sub (selSub s1 m.chaddr)) (AddrV.ofOpt l.ip))
        || takenByOther s1 l.mac (some (reqIPOf m))) = rebootBad s1 (cfg.sub (selSub s1 m.chaddr)) m l := by
    unfold rebootBad
    cases hip : l.ip <;> rfl
  rw [hc]
  by_cases hf : (l.state == LState.free) = true <;> by_cases ha : attacks cfg s1 m.chaddr = true <;>
    by_cases hb : rebootBad s1 (cfg.sub (selSub s1 m.chaddr)) m l = true
  all_goals
    simp only [hf, ha, hb, if_true, if_false, Bool.false_eq_true, Bool.and_true, Bool.and_false,
      touch_self h, Option.toList_some]
    first
      | exact ackTail_tie cfg now m s1 (clientId m) l h
      | (refine ⟨?_, ?_⟩ <;> first | rfl | trivial)

/-! ### all kinds; the state `findOrCreate` leaves against the state it started from -/

theorem reqTail_tie (cfg : Cfg) (now : Nat) (m : Msg) (s1 : State) (hu : KeysUnique s1.table) (l : Lease)
    (h : Has s1 (clientId m) l) :
    touch (reqTail cfg now m (clientId m) (isCaptured s1 m.chaddr) (selSub s1 m.chaddr) s1 (clientId m)
        (kindCode (reqKind m)) (AddrV.v4 (reqIPOf m)) (AddrV.v4 (reqAddr m.srvOpt))).1 (clientId m)
      = (reqModel cfg s1 now m (clientId m) l).1
    ∧ (reqTail cfg now m (clientId m) (isCaptured s1 m.chaddr) (selSub s1 m.chaddr) s1 (clientId m)
        (kindCode (reqKind m)) (AddrV.v4 (reqIPOf m)) (AddrV.v4 (reqAddr m.srvOpt))).2.toList
      = (reqModel cfg s1 now m (clientId m) l).2 := by
  cases hk : reqKind m with
  | selecting => rw [← hk]; exact reqTail_selecting cfg now m s1 hu l h hk
  | renewing => rw [← hk]; exact reqTail_renewing cfg now m s1 l h hk
  | rebinding => rw [← hk]; exact reqTail_reboot cfg now m s1 l h (Or.inr hk)
  | rebooting => rw [← hk]; exact reqTail_reboot cfg now m s1 l h (Or.inl hk)

theorem takenByOther_congr {s1 s : State} (hh : s1.hosts = s.hosts) (mac : MAC) (o : Option IP) :
    takenByOther s1 mac o = takenByOther s mac o := by
  unfold takenByOther sessionKnows; rw [hh]

theorem isCaptured_congr {s1 s : State} (hc : s1.captured = s.captured) (mac : MAC) :
    isCaptured s1 mac = isCaptured s mac := by
  unfold isCaptured; rw [hc]

theorem verdict_congr (cfg : Cfg) (now : Nat) (m : Msg) (l : Lease) {s1 s : State} (hh : s1.hosts = s.hosts)
    (hc : s1.captured = s.captured) (hi : ∀ o, inUse s1.table (clientId m) o = inUse s.table (clientId m) o) :
    verdict cfg s1 now m l = verdict cfg s now m l := by
  unfold verdict selBad renewBad rebootBad attacks selSub
  simp only [takenByOther_congr hh, isCaptured_congr hc, hi]

theorem reqModel_congr (cfg : Cfg) (now : Nat) (m : Msg) (l : Lease) {s1 s : State} (hh : s1.hosts = s.hosts)
    (hc : s1.captured = s.captured) (hi : ∀ o, inUse s1.table (clientId m) o = inUse s.table (clientId m) o)
    (hf : ∀ x : Lease, ({ s1 with table := setLease s1.table (clientId m) x } : State)
        = { s with table := setLease s.table (clientId m) x }) :
    reqModel cfg s1 now m (clientId m) l = reqModel cfg s now m (clientId m) l := by
  unfold reqModel ackLease
  rw [verdict_congr cfg now m l hh hc hi]
  cases verdict cfg s now m l <;> simp only [hf]

theorem touch_reqModel (cfg : Cfg) (s : State) (now : Nat) (m : Msg) (c : Cid) (l : Lease) :
    touch (reqModel cfg s now m c l).1 c = (reqModel cfg s now m c l).1 := by
  unfold reqModel ackLease
  cases verdict cfg s now m l <;> exact touch_set s c _

/-! ### handleRequest -/

theorem handleRequest_tie (cfg : Cfg) (now : Nat) (s : State) (hu : KeysUnique s.table) (host : Option MAC) (m : Msg) :
    touch (Handler_handleRequest cfg now s host m (AddrV.v4 m.srcIP)).1 (clientId m) = touch (request cfg s now m).1 (clientId m)
    ∧ (Handler_handleRequest cfg now s host m (AddrV.v4 m.srcIP)).2.toList = (request cfg s now m).2 := by
  rw [handleRequest_pre, request_eq]
  by_cases h0 : (reqIPOf m == 0) = true
  · simp only [h0, if_true]
    exact ⟨trivial, rfl⟩
  · simp only [h0, if_false, Bool.false_eq_true]
    obtain ⟨hh, hc, _, _, hdel, hp⟩ := findOrCreate_fields cfg s (clientId m) m.chaddr
    have hhas := findOrCreate_has cfg s (clientId m) m.chaddr
    have hkeys := findOrCreate_keys cfg s hu (clientId m) m.chaddr
    have hframe := findOrCreate_frame cfg s (clientId m) m.chaddr
    rw [hp]
    generalize (Handler_findOrCreate cfg s (clientId m) m.chaddr).1 = s1 at hh hc hdel hhas hkeys hframe ⊢
    have hi : ∀ o, inUse s1.table (clientId m) o = inUse s.table (clientId m) o := by
      intro o
      rw [← inUse_delLease s1.table, hdel, inUse_delLease]
    have hcap : isCaptured s m.chaddr = isCaptured s1 m.chaddr := (isCaptured_congr hc m.chaddr).symm
    have hsub : selSub s m.chaddr = selSub s1 m.chaddr := by unfold selSub; rw [hcap]
    rw [hcap, hsub]
    have ht := reqTail_tie cfg now m s1 hkeys (findOrCreate s (clientId m) m.chaddr) hhas
    rw [reqModel_congr cfg now m _ hh hc hi hframe] at ht
    rw [touch_reqModel]
    exact ht

end PV.Lemmas.DhcpSrvTie.Req
