import PacketVerif.Lemmas.DhcpSrvTieA
namespace PV.Lemmas.DhcpSrvTie
open PV PV.Model.Dhcp4Srv PV.Model.DhcpSrvGo PV.Lemmas.Dhcp4Srv PV.Gen.DhcpSrv

/-! ### the pieces of the generated `Handler_handleRequest` (same text, named) -/

/-- one `if tmp, ok := options[..]; ok { addr, ok = netip.AddrFromSlice(tmp); if !ok || !addr.Is4() { addr = 0.0.0.0 } }` block -/
def prePair (o : Option Bytes) : AddrV × Bool :=
  let reqIP := (AddrV.v4 0)
  let tmp := (optBytes o)
  let ok := o.isSome
  if ok then
    let reqIP_new := (addrFromSlice tmp)
    let ok_new := (addrFromSlice tmp != AddrV.invalid)
    let reqIP := reqIP_new
    let ok := ok_new
    let reqIP :=
      if ((!ok) || (!(AddrV.is4 reqIP))) then
        let reqIP := (AddrV.v4 0)
        reqIP
      else
        reqIP
    (reqIP, ok)
  else
    (reqIP, ok)

/-- the tagless switch that classifies the request -/
def opSel (m : Msg) (senderIP reqIP serverIP : AddrV) : Nat × AddrV :=
  if (serverIP != (AddrV.v4 0)) then
    let operation := (1 : Nat)
    (operation, reqIP)
  else
    if ((reqIP == (AddrV.v4 0)) && (senderIP != (AddrV.v4 4294967295))) then
      let reqIP := (AddrV.v4 m.ciaddr)
      let operation := (2 : Nat)
      (operation, reqIP)
    else
      if ((reqIP == (AddrV.v4 0)) && (senderIP == (AddrV.v4 4294967295))) then
        let reqIP := (AddrV.v4 m.ciaddr)
        let operation := (0 : Nat)
        (operation, reqIP)
      else
        let operation := (3 : Nat)
        (operation, reqIP)

/-- the ACK tail (four copies in the generated text) -/
def ackTail (cfg : Cfg) (now : Nat) (m : Msg) (s : State) (lease : Cid) : State × Option Reply :=
  let s :=
    if ((L s lease).state == LState.discover) then
      let s := updL s lease (fun l => { l with ip := AddrV.toOpt (AddrV.ofOpt (L s lease).offer) })
      let s := updL s lease (fun l => { l with offer := AddrV.toOpt AddrV.invalid })
      s
    else
      s
  let s := updL s lease (fun l => { l with state := LState.allocated })
  let s := updL s lease (fun l => { l with expiry := (now + (cfg.sub (L s lease).sub).dur) })
  let opts := (((L s lease).sub, none) : OptsV)
  let opts : OptsV := (opts.1, some (cfg.sub (L s lease).sub).dur)
  let ret := (some (encodeReply cfg m RType.ack (AddrV.ofOpt (L s lease).ip) opts))
  (s, ret)

/-- everything after `findOrCreate` -/
def reqTail (cfg : Cfg) (now : Nat) (m : Msg) (clientID : Bytes) (captured : Bool) (subnet : SubId)
    (s : State) (lease : Cid) (operation : Nat) (reqIP serverIP : AddrV) : State × Option Reply :=
    if (operation == (1 : Nat)) then
      if (serverIP != (AddrV.v4 (cfg.sub subnet).server)) then
        let s :=
          if ((L s lease).state != LState.discover) then
            let s := updL s lease (fun l => { l with state := LState.free })
            let s := updL s lease (fun l => { l with ip := AddrV.toOpt AddrV.invalid })
            s
          else
            s
        if ((cfg.mode == Mode.secondary) || (((cfg.mode == Mode.nice) && captured))) then
          (s, (some (nakReplyV m (AddrV.v4 (cfg.sub subnet).server) clientID)))
        else
          (s, none)
      else
        if (((((L s lease).state == LState.free) || (!((L s lease).mac == m.chaddr))) || ((((L s lease).state == LState.discover) && ((((!((L s lease).xid == m.xid)) || ((AddrV.ofOpt (L s lease).offer) != reqIP)) || (Handler_inUse cfg s lease (AddrV.ofOpt (L s lease).offer))))))) || ((((L s lease).state == LState.allocated) && ((((AddrV.ofOpt (L s lease).ip) != reqIP) || (Handler_takenByOther cfg s lease (AddrV.ofOpt (L s lease).ip))))))) then
          (s, (some (nakReplyV m (AddrV.v4 (cfg.sub subnet).server) clientID)))
        else
          ackTail cfg now m s lease
    else
      if (operation == (2 : Nat)) then
        if (((((L s lease).state != LState.allocated) || ((AddrV.ofOpt (L s lease).ip) != reqIP)) || (!((L s lease).mac == m.chaddr))) || (decide ((L s lease).expiry < now))) then
          (s, (some (nakReplyV m (AddrV.v4 (cfg.sub subnet).server) clientID)))
        else
          if (Handler_takenByOther cfg s lease (AddrV.ofOpt (L s lease).ip)) then
            (s, (some (nakReplyV m (AddrV.v4 (cfg.sub subnet).server) clientID)))
          else
            ackTail cfg now m s lease
      else
        if ((operation == (3 : Nat)) || (operation == (0 : Nat))) then
          let taken := (Handler_takenByOther cfg s lease reqIP)
          if ((L s lease).state == LState.free) then
            if ((cfg.mode == Mode.secondary) || (((cfg.mode == Mode.nice) && captured))) then
              (s, (some (nakReplyV m (AddrV.v4 (cfg.sub SubId.net1).gw) clientID)))
            else
              if ((((((L s lease).state != LState.allocated) || ((AddrV.ofOpt (L s lease).ip) != reqIP)) || (!((L s lease).mac == m.chaddr))) || (!(subContains (cfg.sub subnet) (AddrV.ofOpt (L s lease).ip)))) || taken) then
                (s, (some (nakReplyV m (AddrV.v4 (cfg.sub subnet).server) clientID)))
              else
                ackTail cfg now m s lease
          else
            if ((((((L s lease).state != LState.allocated) || ((AddrV.ofOpt (L s lease).ip) != reqIP)) || (!((L s lease).mac == m.chaddr))) || (!(subContains (cfg.sub subnet) (AddrV.ofOpt (L s lease).ip)))) || taken) then
              (s, (some (nakReplyV m (AddrV.v4 (cfg.sub subnet).server) clientID)))
            else
              ackTail cfg now m s lease
        else
          (s, none)

/-- the generated function, cut into the named pieces (definitional) -/
theorem handleRequest_pieces (cfg : Cfg) (now : Nat) (s : State) (host : Option MAC) (m : Msg) (senderIP : AddrV) :
    Handler_handleRequest cfg now s host m senderIP
      = (if ((!((opSel m senderIP (prePair m.reqOpt).1 (prePair m.srvOpt).1).2 != AddrV.invalid))
              || (AddrV.isUnspec (opSel m senderIP (prePair m.reqOpt).1 (prePair m.srvOpt).1).2)) then (s, none)
         else
           reqTail cfg now m (getClientID cfg s m) (isCaptured s m.chaddr) (selSub s m.chaddr)
             (Handler_findOrCreate cfg s (getClientID cfg s m) m.chaddr).1
             (Handler_findOrCreate cfg s (getClientID cfg s m) m.chaddr).2
             (opSel m senderIP (prePair m.reqOpt).1 (prePair m.srvOpt).1).1
             (opSel m senderIP (prePair m.reqOpt).1 (prePair m.srvOpt).1).2
             (prePair m.srvOpt).1) := rfl

/-! ### preamble: pure facts about the message -/

theorem v4_bne (a b : IP) : (AddrV.v4 a != AddrV.v4 b) = (a != b) := by
  simp only [bne, v4_beq]

theorem prePair_fst (o : Option Bytes) : (prePair o).1 = AddrV.v4 (reqAddr o) := by
  unfold prePair reqAddr optBytes
  cases o with
  | none => rfl
  | some b =>
    simp only [Option.isSome_some, if_true, Option.getD_some]
    cases h : addrFromSlice b <;> simp [AddrV.is4]

/-- operation codes of request.go: selecting = 1, renewing = 2, rebinding = 0, rebooting = 3 -/
def kindCode : ReqKind → Nat
  | .selecting => 1
  | .renewing => 2
  | .rebinding => 0
  | .rebooting => 3

theorem opSel_eq (m : Msg) :
    opSel m (AddrV.v4 m.srcIP) (AddrV.v4 (reqAddr m.reqOpt)) (AddrV.v4 (reqAddr m.srvOpt))
      = (kindCode (reqKind m), AddrV.v4 (reqIPOf m)) := by
  unfold opSel reqIPOf reqKind
  simp only [v4_bne, v4_beq]
  by_cases h1 : (reqAddr m.srvOpt != 0) = true
  · simp [h1, kindCode]
  · by_cases h2 : (reqAddr m.reqOpt == 0 && m.srcIP != 4294967295) = true
    · simp [h1, h2, kindCode]
    · by_cases h3 : (reqAddr m.reqOpt == 0 && m.srcIP == 4294967295) = true
      · simp [h1, h2, h3, kindCode]
      · simp [h1, h2, h3, kindCode]

theorem guard_eq (x : IP) : ((!(AddrV.v4 x != AddrV.invalid)) || (AddrV.isUnspec (AddrV.v4 x))) = (x == 0) := by
  simp [AddrV.isUnspec]

/-- the generated function after the preamble -/
theorem handleRequest_pre (cfg : Cfg) (now : Nat) (s : State) (host : Option MAC) (m : Msg) :
    Handler_handleRequest cfg now s host m (AddrV.v4 m.srcIP)
      = (if reqIPOf m == 0 then (s, none)
         else
           reqTail cfg now m (clientId m) (isCaptured s m.chaddr) (selSub s m.chaddr)
             (Handler_findOrCreate cfg s (clientId m) m.chaddr).1
             (Handler_findOrCreate cfg s (clientId m) m.chaddr).2
             (kindCode (reqKind m)) (AddrV.v4 (reqIPOf m)) (AddrV.v4 (reqAddr m.srvOpt))) := by
  rw [handleRequest_pieces, prePair_fst, prePair_fst, opSel_eq, getClientID_tie]
  simp only [guard_eq]

/-! ### field stores through a published pointer -/

theorem isSome_updL (s : State) (c : Cid) (f : Lease → Lease) :
    (getLease (updL s c f).table c).isSome = (getLease s.table c).isSome := by
  unfold updL
  simp only [getLease_map_upd, BEq.rfl, if_true]
  cases getLease s.table c <;> rfl

theorem L_updL (s : State) (c : Cid) (f : Lease → Lease) (hs : (getLease s.table c).isSome = true) :
    L (updL s c f) c = f (L s c) := by
  cases hg : getLease s.table c with
  | none => rw [hg] at hs; cases hs
  | some l => rw [has_L (has_updL hg f), has_L hg]

theorem touch_updL (s : State) (c : Cid) (f : Lease → Lease) (hs : (getLease s.table c).isSome = true) :
    touch (updL s c f) c = { s with table := setLease s.table c (f (L s c)) } := by
  cases hg : getLease s.table c with
  | none => rw [hg] at hs; cases hs
  | some l =>
    rw [touch_has (has_updL hg f), has_L hg, setLease_updL]
    rfl

theorem has_isSome {s : State} {c : Cid} {l : Lease} (h : Has s c l) : (getLease s.table c).isSome = true := by
  rw [h]; rfl

theorem touch_set (s : State) (c : Cid) (x : Lease) :
    touch { s with table := setLease s.table c x } c = { s with table := setLease s.table c x } := by
  rw [touch_has (l := x) (getLease_setLease_self s.table c x)]
  simp only [setLease_setLease]

/-! ### the ACK tail -/

theorem ackTail_tie (cfg : Cfg) (now : Nat) (m : Msg) (s1 : State) (c : Cid) (l : Lease) (h : Has s1 c l) :
    touch (ackTail cfg now m s1 c).1 c = (ackLease cfg s1 now m c l).1
    ∧ (ackTail cfg now m s1 c).2.toList = (ackLease cfg s1 now m c l).2 := by
  have hs := has_isSome h
  unfold ackTail ackLease
  by_cases hd : l.state = LState.discover
  · simp only [has_L h, hd, BEq.rfl, if_true, L_updL, isSome_updL, hs, touch_updL, setLease_updL, ofOpt_toOpt,
      toOpt_invalid, Option.toList_some, encodeReply_mk]
    exact ⟨rfl, rfl⟩
  · have hb : (l.state == LState.discover) = false := by simpa using hd
    simp only [has_L h, hd, hb, if_false, Bool.false_eq_true, L_updL, isSome_updL, hs, touch_updL, setLease_updL, ofOpt_toOpt,
      toOpt_invalid, Option.toList_some, encodeReply_mk]
    exact ⟨rfl, rfl⟩

end PV.Lemmas.DhcpSrvTie
