/-
  Helper lemmas for Props/C08Handlers.lean: the handler bodies of Model/Handlers.lean return on every frame.
-/
import PacketVerif.Model.Handlers
import PacketVerif.Lemmas.ComposeArp
import PacketVerif.Lemmas.ComposeIcmp6
import PacketVerif.Lemmas.EncodeFrames
import PacketVerif.Lemmas.EncodeFrames6
set_option linter.unusedSimpArgs false
set_option linter.unusedVariables false
namespace PV.Lemmas.Handlers
open PV PV.Model PV.Model.Handlers PV.Lemmas PV.Lemmas.Compose PV.Lemmas.ComposeArp
open PV.Lemmas.Ndp
open PV.Spec (at_ u16 field)

/-! ### ARP -/

/-- the session is as `NewSession` / `GetNICInfo` leave it: a connection, a 6-byte interface MAC; the pooled
    buffer has room for the 42-byte frame -/
structure ArpEnvOK (e : ArpEnv) : Prop where
  conn : e.conn ≠ .nil
  host : e.cfg.parse.hostMAC.length = 6
  pool : 42 ≤ e.pool.length

/-- the forged reply / probe reject as bytes -/
def replyBytes (hostMAC dst sip tmac tip : Bytes) : Bytes :=
  dst ++ hostMAC ++ [8, 6] ++ [0, 1, 8, 0, 6, 4, 0, 2] ++ hostMAC ++ sip ++ tmac ++ tip

theorem arpClassify_ok (b : Bytes) : ∃ c, Ndp.arpClassify b = .ok c := by
  by_cases h : b.length < 28
  · exact ⟨.errLen, by unfold Ndp.arpClassify; rw [if_pos h]⟩
  · exact ⟨_, arpClassify_ref b (by omega)⟩

theorem request_lengths (b smac sip tip : Bytes) (h : Ndp.arpClassify b = .ok (.request smac sip tip)) :
    smac.length = 6 ∧ sip.length = 4 ∧ tip.length = 4 := by
  by_cases hl : b.length < 28
  · unfold Ndp.arpClassify at h; rw [if_pos hl] at h; cases h
  · rw [arpClassify_ref b (by omega)] at h
    unfold classRef at h
    repeat' split at h
    all_goals first
      | (injection h with h; injection h with h1 h2 h3; subst h1; subst h2; subst h3
         exact ⟨field_len b 8 6 (by omega), field_len b 14 4 (by omega), field_len b 24 4 (by omega)⟩)
      | (injection h with h; cases h)

theorem probe_lengths (b smac tip : Bytes) (h : Ndp.arpClassify b = .ok (.probe smac tip)) :
    smac.length = 6 ∧ tip.length = 4 := by
  by_cases hl : b.length < 28
  · unfold Ndp.arpClassify at h; rw [if_pos hl] at h; cases h
  · rw [arpClassify_ref b (by omega)] at h
    unfold classRef at h
    repeat' split at h
    all_goals first
      | (injection h with h; injection h with h1 h2; subst h1; subst h2
         exact ⟨field_len b 8 6 (by omega), field_len b 24 4 (by omega)⟩)
      | (injection h with h; cases h)

/-- `reply` returns; it leaves mutex and hunt list alone and writes at most the one frame -/
theorem arpReply_ok (e : ArpEnv) (he : ArpEnvOK e) (st : ArpSt) (dst sip tip : Bytes)
    (h1 : dst.length = 6) (h2 : sip.length = 4) (h3 : tip.length = 4) :
    ∃ st' ok, arpReply e st dst e.cfg.parse.hostMAC sip dst tip = .ok (st', ok) ∧ st'.mu = st.mu ∧
      st'.hunt = st.hunt ∧
      ((e.conn = .up ∧ st'.sent = st.sent ++ [replyBytes e.cfg.parse.hostMAC dst sip dst tip]) ∨
       (e.conn = .failing ∧ st'.sent = st.sent)) := by
  unfold arpReply
  rw [sendARP_frame e.pool e.cfg.parse.hostMAC dst 2 e.cfg.parse.hostMAC sip dst tip he.host h1 he.host h2 h1 h3
    (by omega) he.pool]
  have hc := he.conn
  cases hcn : e.conn with
  | nil => exact absurd hcn hc
  | failing => exact ⟨_, _, rfl, rfl, rfl, Or.inr ⟨rfl, rfl⟩⟩
  | up => exact ⟨_, _, rfl, rfl, rfl, Or.inl ⟨rfl, rfl⟩⟩

/-- what a call may have appended to the frames written -/
def AtMostOne (before after : List Bytes) : Prop := after = before ∨ ∃ f, after = before ++ [f]

/-- **`arp.ProcessPacket` returns** for every `Frame` value whose payload offset lies inside the buffer -/
theorem arpProcess_ok (e : ArpEnv) (he : ArpEnvOK e) (st : ArpSt) (hmu : st.mu = false) (fr : Frame) (p : Bytes)
    (hoff : fr.offPayload ≤ p.length) :
    ∃ st' r, arpProcess e st fr p = .ok (st', r) ∧ st'.mu = false ∧ st'.hunt = st.hunt ∧
      AtMostOne st.sent st'.sent := by
  unfold arpProcess
  by_cases hp : fr.pid ≠ Pid.arp
  · rw [if_pos hp]; exact ⟨_, _, rfl, hmu, rfl, Or.inl rfl⟩
  rw [if_neg hp, sliceFrom_ok p _ hoff]
  simp only [Outcome.bind_ok]
  obtain ⟨c, hc⟩ := arpClassify_ok (p.drop fr.offPayload)
  rw [hc]
  simp only [Outcome.bind_ok]
  cases c with
  | request smac sip tip =>
    obtain ⟨l1, l2, l3⟩ := request_lengths _ _ _ _ hc
    simp only [lock, hmu, Bool.false_eq_true, if_false, Outcome.bind_ok]
    by_cases hh : smac ∈ st.hunt ∧ tip = e.cfg.routerIP
    · rw [if_pos hh]
      obtain ⟨st', ok, hr, hm, hh', hs⟩ := arpReply_ok e he { st with mu := true } smac tip sip l1 l3 l2
      rw [hr]
      simp only [Outcome.bind_ok]
      have hm' : st'.mu = true := hm
      simp only [unlock, hm', if_true, Outcome.bind_ok, Outcome.pure_eq]
      refine ⟨_, _, rfl, rfl, hh', ?_⟩
      rcases hs with ⟨_, hs⟩ | ⟨_, hs⟩
      · exact Or.inr ⟨_, hs⟩
      · exact Or.inl hs
    · rw [if_neg hh]
      simp only [unlock, if_true, Outcome.bind_ok, Outcome.pure_eq]
      exact ⟨_, _, rfl, rfl, rfl, Or.inl rfl⟩
  | probe smac tip =>
    obtain ⟨l1, l2⟩ := probe_lengths _ _ _ hc
    simp only []
    cases ho : e.offer smac with
    | none => exact ⟨_, _, rfl, hmu, rfl, Or.inl rfl⟩
    | some o =>
      simp only []
      by_cases hh : o ≠ tip ∧ Netip.prefixContains e.cfg.parse.lanAddr e.cfg.parse.lanBits tip = true
      · rw [if_pos hh]
        obtain ⟨st', ok, hr, hm, hh', hs⟩ := arpReply_ok e he st smac tip [255, 255, 255, 255] l1 l2 rfl
        rw [hr]
        simp only [Outcome.bind_ok, Outcome.pure_eq]
        refine ⟨_, _, rfl, hm.trans hmu, hh', ?_⟩
        rcases hs with ⟨_, hs⟩ | ⟨_, hs⟩
        · exact Or.inr ⟨_, hs⟩
        · exact Or.inl hs
      · rw [if_neg hh]; exact ⟨_, _, rfl, hmu, rfl, Or.inl rfl⟩
  | _ => exact ⟨_, _, rfl, hmu, rfl, Or.inl rfl⟩

/-- Parse leaves the payload offset of an ARP frame inside the buffer -/
theorem parse_arp_off (c : Model.Cfg) (p : Bytes) (r : ParseRes) (hp : parse c p = .ok r)
    (he : r.err.isSome = false) (hpid : r.frame.pid = Pid.arp) : r.frame.offPayload = 14 ∧ 42 ≤ p.length := by
  obtain ⟨r', hp', hd⟩ := parse_spec c p
  rw [hp] at hp'; cases hp'
  obtain ⟨hiff, hpay⟩ := decArp c p
  rw [← hd] at hiff hpay
  have hg : arpGate p = true := hiff.1 ⟨hpid, he⟩
  have ha : arpOK p = true := by unfold arpGate at hg; simp at hg; exact hg.2
  have ha' := of_decide_eq_true ha
  exact ⟨(hpay hg).1, by omega⟩

/-! ### ICMPv6 -/

open PV.Model.Icmp6Hunt in
/-- the handler is as `New6` builds it and as its own operations leave it: `LANRouters` is a map, and
    `closeChan` refers to a closed channel only after `Close` -/
def Inv6 (st : H6St) : Prop := st.lanNil = false ∧ (st.chanClosed = true → st.base.closed = true)

/-- the session is as `NewSession` / `GetNICInfo` leave it; the pooled buffer has room for the 86-byte
    neighbour solicitation -/
structure H6EnvOK (e : H6Env) : Prop where
  conn : e.conn ≠ .nil
  host : e.cfg.hostMAC.length = 6
  lla : e.hostLLA.length = 16
  pool : 86 ≤ e.pool.length

/-- what `Session.Parse` guarantees about the `Frame` it hands to the ICMPv6 handler: the accessors
    `Ether().Src()/Dst()`, `IP6()` + 40-byte header, `Payload()` slice inside the buffer -/
def FrameOK6 (fr : Frame) (p : Bytes) : Prop :=
  fr.offIP6 ≠ 0 → 12 ≤ p.length ∧ fr.offPayload ≤ p.length ∧ fr.offIP6 + 40 ≤ p.length

theorem naTargetLLA_ok (p : Bytes) : ∃ l, Ndp.naTargetLLA p = .ok l := by
  unfold Ndp.naTargetLLA
  split
  · exact ⟨_, rfl⟩
  · simp (disch := omega) only [idx_eq_ok, slice_eq_ok, Outcome.bind_ok]
    split <;> exact ⟨_, rfl⟩

/-- the dispatch of every type other than a processed router advertisement classifies (no error value) -/
theorem icmp6Dispatch_ok (p : Bytes) (u h : Bool) : ∃ c, Ndp.icmp6Dispatch p u h false = .ok c := by
  unfold Ndp.icmp6Dispatch
  split
  · exact ⟨_, rfl⟩
  · rw [idx_eq_ok (by omega)]
    simp only [Outcome.bind_ok]
    split
    · split
      · exact ⟨_, rfl⟩
      · rw [idx_eq_ok (by omega)]
        simp only [Outcome.bind_ok]
        split
        · obtain ⟨l, hl⟩ := naTargetLLA_ok p
          rw [hl]; cases l <;> exact ⟨_, rfl⟩
        · exact ⟨_, rfl⟩
    split
    · split
      · exact ⟨_, rfl⟩
      · split
        · exact ⟨_, rfl⟩
        · rw [slice_eq_ok (by omega) (by omega)]
          simp only [Outcome.bind_ok]
          split <;> exact ⟨_, rfl⟩
    split
    · split
      · exact ⟨_, rfl⟩
      · split
        · exact ⟨_, rfl⟩
        · rename_i hc; exact absurd (by simp) hc
    split
    · exact ⟨_, rfl⟩
    split
    · exact ⟨_, rfl⟩
    split
    · exact ⟨_, rfl⟩
    split
    · exact ⟨_, rfl⟩
    split
    · split <;> exact ⟨_, rfl⟩
    split
    · exact ⟨_, rfl⟩
    · exact ⟨_, rfl⟩

/-- a solicitation classified "global target" has its 16-byte target field -/
theorem nsGlobal_len (p : Bytes) (u h : Bool) (hc : Ndp.icmp6Dispatch p u h false = .ok .nsGlobal) :
    24 ≤ p.length := by
  apply Classical.byContradiction
  intro hl
  have hl : p.length < 24 := by omega
  unfold Ndp.icmp6Dispatch at hc
  split at hc
  · cases hc
  · rw [idx_eq_ok (by omega)] at hc
    simp only [Outcome.bind_ok] at hc
    repeat' split at hc
    all_goals first
      | omega
      | (injection hc with hc; cases hc)
      | (cases hc)
      | (rename_i hx; exact absurd (by simp) hx)

theorem nsMarshal_len (tgt mac : Bytes) (h1 : tgt.length = 16) (h2 : mac.length = 6) :
    (nsMarshal tgt mac).length = 32 := by
  simp [nsMarshal, h1, h2]

theorem learn_hunt (s : Icmp6Hunt.State) (r : Icmp6Hunt.RaIn) (hdr : Ndp.RaHeader) (o : Ndp.Options) :
    (Icmp6Hunt.learn s r hdr o).hunt = s.hunt ∧ (Icmp6Hunt.learn s r hdr o).closed = s.closed ∧
    (Icmp6Hunt.learn s r hdr o).rep = s.rep := by
  unfold Icmp6Hunt.learn
  split <;> exact ⟨rfl, rfl, rfl⟩

/-- what `ProcessPacket` leaves alone -/
def Keeps6 (st st' : H6St) : Prop :=
  st'.base.hunt = st.base.hunt ∧ st'.base.closed = st.base.closed ∧ st'.chanClosed = st.chanClosed ∧
  st'.lanNil = st.lanNil

/-- the router-advertisement case returns -/
theorem h6RA_ok (st : H6St) (hmu : st.mu = false) (hinv : Inv6 st) (fr : Frame) (p pay : Bytes)
    (hp : 12 ≤ p.length) :
    ∃ st' r, h6RA st fr p pay = .ok (st', r) ∧ st'.mu = false ∧ Keeps6 st st' ∧ st'.sent = st.sent := by
  unfold h6RA
  by_cases h16 : pay.length < 16
  · rw [if_pos h16]; exact ⟨_, _, rfl, hmu, ⟨rfl, rfl, rfl, rfl⟩, rfl⟩
  rw [if_neg h16]
  simp only [lock, hmu, Bool.false_eq_true, if_false, Outcome.bind_ok]
  -- the wake-up section
  have hwake : ∃ st1 : H6St,
      (if 0 < st.base.hunt.length ∧ st.base.closed = false then
        (if st.chanClosed = true then Outcome.panic
         else Outcome.ok { st with mu := true, wakes := st.wakes + 1 })
       else Outcome.ok { st with mu := true }) = .ok st1 ∧ st1.mu = true ∧ st1.base = st.base ∧
        st1.chanClosed = st.chanClosed ∧ st1.lanNil = st.lanNil ∧ st1.sent = st.sent := by
    by_cases hw : 0 < st.base.hunt.length ∧ st.base.closed = false
    · rw [if_pos hw]
      have hcc : ¬ st.chanClosed = true := by
        intro hc; have := hinv.2 hc; rw [hw.2] at this; cases this
      rw [if_neg hcc]; exact ⟨_, rfl, rfl, rfl, rfl, rfl, rfl⟩
    · rw [if_neg hw]; exact ⟨_, rfl, rfl, rfl, rfl, rfl, rfl⟩
  obtain ⟨st1, hw, hm1, hb1, hc1, hl1, hs1⟩ := hwake
  rw [hw]
  simp only [Outcome.bind_ok, unlock, hm1, if_true]
  by_cases hrep : (st1.base.rep + 1) % 4 ≠ 0
  · rw [if_pos hrep]
    exact ⟨_, _, rfl, rfl, ⟨by simp [hb1], by simp [hb1], hc1, hl1⟩, hs1⟩
  rw [if_neg hrep]
  by_cases hh : fr.hostEv.isNone = true
  · rw [if_pos hh]
    exact ⟨_, _, rfl, rfl, ⟨by simp [hb1], by simp [hb1], hc1, hl1⟩, hs1⟩
  rw [if_neg hh]
  have hsafe := raOptions_safe pay
  cases ho : Ndp.raOptions pay with
  | panic => rw [ho] at hsafe; cases hsafe
  | hang => rw [ho] at hsafe; cases hsafe
  | err x => exact ⟨_, _, rfl, rfl, ⟨by simp [hb1], by simp [hb1], hc1, hl1⟩, hs1⟩
  | ok o =>
    simp only []
    rw [slice_eq_ok (by omega) (by omega)]
    simp only [Outcome.bind_ok, lock, Bool.false_eq_true, if_false]
    have hnil : ¬ ((List.find? (fun x => decide (x.fst = fr.srcIP)) st1.base.routers).isNone = true ∧
        st1.lanNil = true) := by
      intro h; rw [hl1, hinv.1] at h; cases h.2
    rw [if_neg hnil]
    obtain ⟨fx, _, hhdr⟩ := Icmp6Hunt.raHeader_eq pay (by omega)
    rw [hhdr]
    simp only [Outcome.bind_ok, unlock, if_true, Outcome.pure_eq]
    refine ⟨_, _, rfl, rfl, ⟨?_, ?_, hc1, hl1⟩, hs1⟩
    · simp only [(learn_hunt _ _ _ _).1, hb1]
    · simp only [(learn_hunt _ _ _ _).2.1, hb1]

/-- **`Handler6.ProcessPacket` returns** for every `Frame` value whose offsets lie inside the buffer -/
theorem h6Process_ok (e : H6Env) (he : H6EnvOK e) (st : H6St) (hmu : st.mu = false) (hinv : Inv6 st)
    (fr : Frame) (p : Bytes) (hf : FrameOK6 fr p) :
    ∃ st' r, h6Process e st fr p = .ok (st', r) ∧ st'.mu = false ∧ Keeps6 st st' ∧
      AtMostOne st.sent st'.sent := by
  unfold h6Process
  by_cases h0 : fr.offIP6 = 0
  · rw [if_pos h0]; exact ⟨_, _, rfl, hmu, ⟨rfl, rfl, rfl, rfl⟩, Or.inl rfl⟩
  obtain ⟨h12, hpay, hip6⟩ := hf h0
  rw [if_neg h0, sliceFrom_ok p _ (by omega), sliceFrom_ok p _ hpay]
  simp only [Outcome.bind_ok]
  by_cases h8 : (p.drop fr.offPayload).length < 8
  · rw [if_pos h8]; exact ⟨_, _, rfl, hmu, ⟨rfl, rfl, rfl, rfl⟩, Or.inl rfl⟩
  rw [if_neg h8, idx_eq_ok (by omega)]
  simp only [Outcome.bind_ok]
  split
  · obtain ⟨st', r, h1, h2, h3, h4⟩ := h6RA_ok st hmu hinv fr p (p.drop fr.offPayload) h12
    exact ⟨st', r, h1, h2, h3, Or.inl h4⟩
  · obtain ⟨c, hc⟩ := icmp6Dispatch_ok (p.drop fr.offPayload) (fr.srcIP.all (· == 0)) fr.hostEv.isSome
    rw [hc]
    simp only [Outcome.bind_ok]
    cases c with
    | nsGlobal =>
      have h24 := nsGlobal_len _ _ _ hc
      simp only []
      rw [slice_eq_ok (by omega) h24, slice_eq_ok (by omega) (by omega),
        slice_eq_ok (by omega) (by rw [List.length_drop]; omega)]
      simp only [Outcome.bind_ok]
      have l1 : (List.drop 8 (List.take 24 (List.drop fr.offPayload p))).length = 16 := by
        rw [List.length_drop, List.length_take]; omega
      have l2 : (List.drop 0 (List.take 6 p)).length = 6 := by
        rw [List.length_drop, List.length_take]; omega
      have l3 : (List.drop 24 (List.take 40 (List.drop fr.offIP6 p))).length = 16 := by
        rw [List.length_drop, List.length_take, List.length_drop]; omega
      have l4 := nsMarshal_len _ e.cfg.hostMAC l1 he.host
      rw [sendICMP6_frame e.pool e.cfg.hostMAC _ e.hostLLA _ _ he.host l2 he.lla l3 (by omega)
        (by rw [l4]; exact he.pool) (by omega)]
      simp only []
      have hcn := he.conn
      cases hcc : e.conn with
      | nil => exact absurd hcc hcn
      | failing => exact ⟨_, _, rfl, hmu, ⟨rfl, rfl, rfl, rfl⟩, Or.inl rfl⟩
      | up => exact ⟨_, _, rfl, hmu, ⟨rfl, rfl, rfl, rfl⟩, Or.inr ⟨_, rfl⟩⟩
    | _ => exact ⟨_, _, rfl, hmu, ⟨rfl, rfl, rfl, rfl⟩, Or.inl rfl⟩

/-- `Close` returns and keeps the invariant -/
theorem close6_ok (st : H6St) (hmu : st.mu = false) (hinv : Inv6 st) :
    ∃ st', close6 st = .ok st' ∧ st'.mu = false ∧ Inv6 st' ∧ st'.base.closed = true := by
  unfold close6
  simp only [lock, hmu, Bool.false_eq_true, if_false, Outcome.bind_ok, unlock, if_true]
  by_cases hc : st.base.closed = true
  · rw [if_pos hc]; exact ⟨_, rfl, rfl, hinv, hc⟩
  · rw [if_neg hc]
    have hcc : ¬ st.chanClosed = true := fun h => hc (hinv.2 h)
    rw [if_neg hcc]
    exact ⟨_, rfl, rfl, ⟨hinv.1, fun _ => rfl⟩, rfl⟩

open PV.Lemmas.ComposeIcmp6 in
/-- the reference decoder puts the IPv6 header of a frame of `icmp6Gate` at offset 14 -/
theorem dec_ip6_off (cfg : Model.Cfg) (p : Bytes) (hgate : icmp6Gate p = true) :
    (Spec.decode (toSC cfg) p).ip6 = 14 ∧ 62 ≤ p.length := by
  have hu : srcUnicast p = true := by unfold icmp6Gate at hgate; simp at hgate; exact hgate.1.1
  have h6 : ip6OK p = true := by unfold icmp6Gate at hgate; simp at hgate; exact hgate.1.2
  have h8 : 8 ≤ p.length - 54 := by unfold icmp6Gate at hgate; simp at hgate; exact hgate.2.2
  have h6' := of_decide_eq_true h6
  have h14 : 14 ≤ p.length := h6'.1
  have het : u16 p 12 = 0x86dd := h6'.2.1
  have hg : ¬ (at_ p 6 % 2 == 1) = true := by
    unfold srcUnicast at hu
    have := of_decide_eq_true hu
    intro hc; have := of_decide_eq_true hc; omega
  have hh : etherHeaderLenOf (u16 p 12) ≤ p.length := by rw [het, hdr_ip6]; exact h14
  refine ⟨?_, by omega⟩
  decode_prefix
  simp only [hg, het, hdr_ip6, if_false, Nat.reduceLT, Nat.reduceBEq, BEq.rfl, if_true, Nat.reduceAdd,
    Bool.false_eq_true]
  have hc : ¬ (p.length - 14 < 40 ∨ u16 p 18 + 40 ≠ p.length - 14) := by omega
  rw [if_neg hc, transport_ip6]

open PV.Lemmas.ComposeIcmp6 in
/-- **Parse establishes `FrameOK6`** for every frame it classifies ICMPv6 without error -/
theorem parse_frameOK6 (c : Model.Cfg) (p : Bytes) (r : ParseRes) (hp : parse c p = .ok r)
    (he : r.err.isSome = false) (hpid : r.frame.pid = Pid.icmp6) : FrameOK6 r.frame p := by
  intro h0
  obtain ⟨r', hp', hd⟩ := parse_spec c p
  rw [hp] at hp'; cases hp'
  obtain ⟨hiff, hpay⟩ := decIcmp6 c p
  rw [← hd] at hiff hpay
  have hg : icmp6Gate p = true := hiff.1 ⟨hpid, he, h0⟩
  have h1 := (hpay hg).1
  have h2 := dec_ip6_off c p hg
  rw [← hd] at h2
  have e1 : (toDec r).pay = r.frame.offPayload := rfl
  have e2 : (toDec r).ip6 = r.frame.offIP6 := rfl
  rw [e1] at h1
  rw [e2] at h2
  exact ⟨by omega, by omega, by omega⟩

open PV.Lemmas.ComposeIcmp6 in
/-- the Ethernet source Parse records for a frame of `icmp6Gate` is `p[6:12]` (what `pkt.Ether().Src()` reads) -/
theorem srcMAC_of_gate (c : Model.Cfg) (p : Bytes) (r : ParseRes) (hp : parse c p = .ok r) (hg : icmp6Gate p = true) :
    r.frame.srcMAC = (p.take 12).drop 6 := by
  obtain ⟨_, _, _, hsrc⟩ := parse_proj c p r hp
  have h6 : ip6OK p = true := by unfold icmp6Gate at hg; simp at hg; exact hg.1.2
  have h6' := of_decide_eq_true h6
  have hok : etherOK p = true := by
    unfold etherOK hdrLen
    apply decide_eq_true
    rw [h6'.2.1]
    refine ⟨h6'.1, ?_⟩
    simp; omega
  rw [hsrc]
  unfold frameEvOf
  rw [if_pos hok]
  simp only [field]
  rw [List.drop_take]

end PV.Lemmas.Handlers
