/-
  The ping machine over SEVERAL sessions (Model/PingMulti.lean): the invariant of Lemmas/Ping without any bound on the
  identifier counter (the uint16 counter may wrap; the hypothesis is `NoCollide`: a registering call is never given an
  identifier that is still held), and the projection of a multi-session schedule onto the process-global machine.
-/
import PacketVerif.Lemmas.Ping
import PacketVerif.Model.PingMulti
namespace PV.Lemmas.PingMulti
open PV PV.Model.Ping PV.Model.PingMulti PV.Lemmas.Ping

/-- the invariant of Lemmas/Ping `Inv` without the bound `id < nextId`: it needs no hypothesis on the counter, only
    that a registering call is not given an identifier that is still held (`NoCollide`) -/
structure InvC (s : State) : Prop where
  w : InvW s
  distinct : ∀ p q, (s.th p).active = true → (s.th q).active = true → (s.th p).id = (s.th q).id → p = q
  inTab : ∀ p, (s.th p).active = true →
      (((s.th p).id, p) ∈ s.table ∧ (s.th p).seen = false) ∨
      ((s.th p).recv = true ∧ (s.th p).closes = 1 ∧ (s.th p).seen = true)
  sentPc : ∀ p, (((s.th p).pc = .wait ∨ (s.th p).pc = .unreg) → (s.th p).sent = true) ∧
               (((s.th p).pc = .send ∨ (s.th p).pc = .cleanup) → (s.th p).sent = false)
  doneRet : ∀ p, (s.th p).pc = .done →
      ((s.th p).ret = .nil ↔ ((s.th p).sent = true ∧ (s.th p).seen = true)) ∧
      ((s.th p).ret = .timeout ↔ ((s.th p).sent = true ∧ (s.th p).seen = false)) ∧
      ((s.th p).ret = .sendErr ↔ (s.th p).sent = false)

theorem invC_init (id0 : Nat) : InvC (init id0) := by
  refine ⟨invW_init id0, ?_, ?_, ?_, ?_⟩ <;> simp [init, Thread.active]

/-- a thread moves between two registered program counters; table and counter untouched -/
theorem invC_pcmove {s : State} (h : InvC s) (p : Nat) (pc' : Pc) (sent' : Bool)
    (hact : (s.th p).active = true)
    (hact' : ({ s.th p with pc := pc', sent := sent' } : Thread).active = true)
    (hsent : ((pc' = .wait ∨ pc' = .unreg) → sent' = true) ∧ ((pc' = .send ∨ pc' = .cleanup) → sent' = false))
    (hw : InvW { s with th := upd s.th p { s.th p with pc := pc', sent := sent' } }) :
    InvC { s with th := upd s.th p { s.th p with pc := pc', sent := sent' } } := by
  obtain ⟨_, hD, hT, hS, hR⟩ := h
  have act : ∀ q, (upd s.th p { s.th p with pc := pc', sent := sent' } q).active = (s.th q).active := by
    intro q; by_cases hq : q = p
    · subst hq; simp [hact]; exact hact'
    · simp [upd_other _ _ _ _ hq]
  have idq : ∀ q, (upd s.th p { s.th p with pc := pc', sent := sent' } q).id = (s.th q).id := by
    intro q; by_cases hq : q = p
    · subst hq; simp
    · simp [upd_other _ _ _ _ hq]
  refine ⟨hw, ?_, ?_, ?_, ?_⟩
  · intro q r hq hr he; simp only [act, idq] at hq hr he; exact hD q r hq hr he
  · intro q hq; simp only [act, idq] at hq ⊢
    by_cases hqp : q = p
    · subst hqp; simpa using hT q hq
    · simpa [upd_other _ _ _ _ hqp] using hT q hq
  · intro q; by_cases hqp : q = p
    · subst hqp; simpa using hsent
    · simpa [upd_other _ _ _ _ hqp] using hS q
  · intro q; by_cases hqp : q = p
    · subst hqp; intro hpc; simp at hpc; subst hpc; simp [Thread.active] at hact'
    · simpa [upd_other _ _ _ _ hqp] using hR q

/-- a registered thread unregisters (`cleanup` / `unreg`) -/
theorem invC_leave {s : State} (h : InvC s) (p : Nat) (r : Ret)
    (hact : (s.th p).active = true)
    (hret : (r = .nil ↔ ((s.th p).sent = true ∧ (s.th p).seen = true)) ∧
            (r = .timeout ↔ ((s.th p).sent = true ∧ (s.th p).seen = false)) ∧
            (r = .sendErr ↔ (s.th p).sent = false))
    (hw : InvW { s with table := tdel s.table (s.th p).id, th := upd s.th p { s.th p with pc := .done, ret := r } }) :
    InvC { s with table := tdel s.table (s.th p).id, th := upd s.th p { s.th p with pc := .done, ret := r } } := by
  obtain ⟨_, hD, hT, hS, hR⟩ := h
  refine ⟨hw, ?_, ?_, ?_, ?_⟩
  · intro q r' hq hr he
    by_cases hqp : q = p
    · subst hqp; simp [Thread.active] at hq
    · by_cases hrp : r' = p
      · subst hrp; simp [Thread.active] at hr
      · simp only [upd_other _ _ _ _ hqp, upd_other _ _ _ _ hrp] at hq hr he; exact hD q r' hq hr he
  · intro q hq; by_cases hqp : q = p
    · subst hqp; simp [Thread.active] at hq
    · simp only [upd_other _ _ _ _ hqp] at hq ⊢
      rcases hT q hq with ⟨hm, hs⟩ | hr
      · left; refine ⟨mem_tdel.mpr ⟨hm, ?_⟩, hs⟩
        intro he; exact hqp (hD q p hq hact he)
      · right; exact hr
  · intro q; by_cases hqp : q = p
    · subst hqp; simp
    · simpa [upd_other _ _ _ _ hqp] using hS q
  · intro q; by_cases hqp : q = p
    · subst hqp; intro _; simpa using hret
    · simpa [upd_other _ _ _ _ hqp] using hR q

theorem invC_step {s s' : State} {e : Event} (h : InvC s) (hs : step s e = some s')
    (hnc : ∀ p, e = .reg p → ∀ q, (s.th q).active = true → (s.th q).id ≠ s.nextId) : InvC s' := by
  have hw' : InvW s' := invW_step h.w hs
  cases e with
  | other => simp only [step] at hs; cases hs; exact h
  | sendOk p =>
    simp only [step] at hs
    split at hs
    · rename_i hp; cases hs
      exact invC_pcmove h p .wait true (by simp [Thread.active, hp]) (by simp [Thread.active]) (by simp) hw'
    · cases hs
  | sendErr p =>
    simp only [step] at hs
    split at hs
    · rename_i hp; cases hs
      have := (h.sentPc p).2 (Or.inl hp)
      have e1 : ({ s.th p with pc := Pc.cleanup } : Thread) = { s.th p with pc := Pc.cleanup, sent := false } := by
        rw [← this]
      rw [e1] at hw' ⊢
      exact invC_pcmove h p .cleanup false (by simp [Thread.active, hp]) (by simp [Thread.active]) (by simp) hw'
    · cases hs
  | wake p =>
    simp only [step] at hs
    split at hs
    · rename_i hp; cases hs
      have := (h.sentPc p).1 (Or.inl hp.1)
      have e1 : ({ s.th p with pc := Pc.unreg } : Thread) = { s.th p with pc := Pc.unreg, sent := true } := by
        rw [← this]
      rw [e1] at hw' ⊢
      exact invC_pcmove h p .unreg true (by simp [Thread.active, hp.1]) (by simp [Thread.active]) (by simp) hw'
    · cases hs
  | timeout p =>
    simp only [step] at hs
    split at hs
    · rename_i hp; cases hs
      have := (h.sentPc p).1 (Or.inl hp)
      have e1 : ({ s.th p with pc := Pc.unreg } : Thread) = { s.th p with pc := Pc.unreg, sent := true } := by
        rw [← this]
      rw [e1] at hw' ⊢
      exact invC_pcmove h p .unreg true (by simp [Thread.active, hp]) (by simp [Thread.active]) (by simp) hw'
    · cases hs
  | cleanup p =>
    simp only [step] at hs
    split at hs
    · rename_i hp; cases hs
      have hsent := (h.sentPc p).2 (Or.inr hp)
      exact invC_leave h p .sendErr (by simp [Thread.active, hp]) (by simp [hsent]) hw'
    · cases hs
  | unreg p =>
    simp only [step] at hs
    split at hs
    · rename_i hp; cases hs
      have hact : (s.th p).active = true := by simp [Thread.active, hp]
      have hsent := (h.sentPc p).1 (Or.inr hp)
      refine invC_leave h p _ hact ?_ hw'
      rcases h.inTab p hact with ⟨hm, hseen⟩ | ⟨hr, _, hseen⟩
      · have := (h.w.entry _ _ hm).2.2.2
        simp [this, hsent, hseen]
      · simp [hr, hsent, hseen]
    · cases hs
  | reg p =>
    have hn := hnc p rfl
    simp only [step] at hs
    split at hs
    · rename_i hp; cases hs
      obtain ⟨hW, hD, hT, hS, hR⟩ := h
      have hnact : (s.th p).active = false := by simp [Thread.active, hp]
      refine ⟨hw', ?_, ?_, ?_, ?_⟩
      · intro q r hq hr he
        by_cases hqp : q = p <;> by_cases hrp : r = p
        · rw [hqp, hrp]
        · subst hqp; simp only [upd_other _ _ _ _ hrp] at hr he; simp at he
          first | exact absurd he (hn r hr) | exact absurd he.symm (hn r hr)
        · subst hrp; simp only [upd_other _ _ _ _ hqp] at hq he; simp at he
          first | exact absurd he (hn q hq) | exact absurd he.symm (hn q hq)
        · simp only [upd_other _ _ _ _ hqp, upd_other _ _ _ _ hrp] at hq hr he; exact hD q r hq hr he
      · intro q hq
        by_cases hqp : q = p
        · subst hqp; left; simp [mem_tset]
          exact (hW.fresh q hp).2.2.1
        · simp only [upd_other _ _ _ _ hqp] at hq ⊢
          rcases hT q hq with ⟨hm, hs⟩ | hr
          · left; exact ⟨mem_tset.mpr (Or.inr ⟨hm, hn q hq⟩), hs⟩
          · right; exact hr
      · intro q; by_cases hqp : q = p
        · subst hqp; simp; exact (hW.fresh q hp).2.2.2
        · simpa [upd_other _ _ _ _ hqp] using hS q
      · intro q; by_cases hqp : q = p
        · subst hqp; simp
        · simpa [upd_other _ _ _ _ hqp] using hR q
    · cases hs
  | echo id =>
    obtain ⟨hW, hD, hT, hS, hR⟩ := h
    have ms : ∀ q, (markSeen s.th id q).pc = (s.th q).pc ∧ (markSeen s.th id q).id = (s.th q).id ∧
        (markSeen s.th id q).closes = (s.th q).closes ∧ (markSeen s.th id q).recv = (s.th q).recv ∧
        (markSeen s.th id q).sent = (s.th q).sent ∧ (markSeen s.th id q).active = (s.th q).active ∧
        (markSeen s.th id q).ret = (s.th q).ret := by
      intro q; unfold markSeen; split <;> simp [Thread.active]
    have ms_seen : ∀ q, (markSeen s.th id q).seen =
        (if (s.th q).active = true ∧ (s.th q).id = id then true else (s.th q).seen) := by
      intro q; unfold markSeen; split <;> simp
    -- when no entry for `id` exists every registered call with that id has already been completed
    have base : (∀ q, (id, q) ∉ s.table) → InvW { s with th := markSeen s.th id } →
        InvC { s with th := markSeen s.th id } := by
      intro hno hw
      refine ⟨hw, ?_, ?_, ?_, ?_⟩
      · intro q r hq hr he
        simp only [(ms q).2.2.2.2.2.1, (ms r).2.2.2.2.2.1, (ms q).2.1, (ms r).2.1] at hq hr he
        exact hD q r hq hr he
      · intro q hq
        simp only [(ms q).2.2.2.2.2.1] at hq
        simp only [(ms q).2.1, (ms q).2.2.1, (ms q).2.2.2.1, ms_seen q]
        rcases hT q hq with ⟨hm, hs⟩ | ⟨hr, hc, hs⟩
        · left; refine ⟨hm, ?_⟩
          have : (s.th q).id ≠ id := by intro he; rw [he] at hm; exact hno q hm
          simp [this, hs]
        · right; simp [hr, hc, hs]
      · intro q; simp only [(ms q).1, (ms q).2.2.2.2.1]; exact hS q
      · intro q; simp only [(ms q).1]; intro hpc
        have : (s.th q).active = false := by simp [Thread.active, hpc]
        simp only [(ms q).2.2.2.2.1, (ms q).2.2.2.2.2.2, ms_seen q, this]
        simpa using hR q hpc
    simp only [step] at hs
    split at hs
    · rename_i hemp; cases hs
      apply base _ hw'
      intro q hq; simp [List.isEmpty_iff] at hemp; rw [hemp] at hq; simp at hq
    · split at hs
      · rename_i hg; cases hs
        exact base (tget_none hg) hw'
      · rename_i q hg; cases hs
        have hm := tget_some hg
        obtain ⟨qa, qid, qc, qr⟩ := hW.entry id q hm
        have uniq : ∀ r, (s.th r).active = true → (s.th r).id = id → r = q :=
          fun r hr he => hD r q hr qa (he.trans qid.symm)
        refine ⟨hw', ?_, ?_, ?_, ?_⟩
        · have actq : ∀ r, (upd (markSeen s.th id) q
              { markSeen s.th id q with recv := true, closes := (markSeen s.th id q).closes + 1 } r).active
              = (s.th r).active := by
            intro r; by_cases hrq : r = q
            · subst hrq; simp [Thread.active, (ms r).1]
            · simp [upd_other _ _ _ _ hrq, (ms r).2.2.2.2.2.1]
          have idq : ∀ r, (upd (markSeen s.th id) q
              { markSeen s.th id q with recv := true, closes := (markSeen s.th id q).closes + 1 } r).id
              = (s.th r).id := by
            intro r; by_cases hrq : r = q
            · subst hrq; simp [(ms r).2.1]
            · simp [upd_other _ _ _ _ hrq, (ms r).2.1]
          intro a b ha hb he; simp only [actq, idq] at ha hb he; exact hD a b ha hb he
        · intro r hr; by_cases hrq : r = q
          · subst hrq; right
            simp [(ms r).2.2.1, qc, ms_seen r, qa, qid]
          · simp only [upd_other _ _ _ _ hrq, (ms r).2.2.2.2.2.1] at hr
            simp only [upd_other _ _ _ _ hrq, (ms r).2.1, (ms r).2.2.1, (ms r).2.2.2.1, ms_seen r]
            have hne : (s.th r).id ≠ id := fun he => hrq (uniq r hr he)
            rcases hT r hr with ⟨hmr, hs⟩ | ⟨hr1, hc, hs⟩
            · left; exact ⟨mem_tdel.mpr ⟨hmr, hne⟩, by simp [hne, hs]⟩
            · right; simp [hr1, hc, hs]
        · intro r; by_cases hrq : r = q
          · subst hrq; simp [(ms r).1, (ms r).2.2.2.2.1]; exact hS r
          · simp only [upd_other _ _ _ _ hrq, (ms r).1, (ms r).2.2.2.2.1]; exact hS r
        · intro r; by_cases hrq : r = q
          · subst hrq; intro hpc; simp [(ms r).1] at hpc
            simp [Thread.active, hpc] at qa
          · simp only [upd_other _ _ _ _ hrq, (ms r).1]; intro hpc
            have : (s.th r).active = false := by simp [Thread.active, hpc]
            simp only [(ms r).2.2.2.2.1, (ms r).2.2.2.2.2.2, ms_seen r, this]
            simpa using hR r hpc


theorem invC_run {s s' : State} {tr : List Event} (h : InvC s) (hn : NoCollide s tr) (hr : run s tr = some s') :
    InvC s' := by
  induction tr generalizing s with
  | nil => simp [run] at hr; subst hr; exact h
  | cons e es ih =>
    simp only [run] at hr
    simp only [NoCollide] at hn
    cases hs : step s e with
    | none => simp [hs] at hr
    | some s1 =>
      simp only [hs] at hr hn
      exact ih (invC_step h hs hn.1) hn.2 hr

/-- the old hypothesis implies the new one: while the counter does not wrap every held identifier is below it -/
theorem noCollide_of_noWrap {s : State} {tr : List Event} (h : Inv s) (hn : NoWrap s tr) : NoCollide s tr := by
  induction tr generalizing s with
  | nil => trivial
  | cons e es ih =>
    simp only [NoWrap] at hn
    simp only [NoCollide]
    refine ⟨fun p _ q hq => Nat.ne_of_lt (h.lt q hq), ?_⟩
    cases hs : step s e with
    | none => trivial
    | some s1 =>
      simp only [hs] at hn ⊢
      exact ih (inv_step h hs hn.1) hn.2

/-! ### projection of a multi-session schedule -/

theorem mstep_on {s s' : MState} {k : Nat} {e : Event} (h : mstep s (.on k e) = some s') :
    step s.base e = some s'.base ∧ timerOk s.due e = true ∧ s'.due = s.due ∧ s'.closed = s.closed := by
  simp only [mstep] at h
  split at h
  · rename_i ht
    cases hb : step s.base e with
    | none => simp [hb] at h
    | some b => simp [hb] at h; subst h; exact ⟨rfl, ht, rfl, rfl⟩
  · cases h

/-- `Session.Close` and the deadline of a timer leave the process-global machine — table, counter, every call's
    record — exactly as it was -/
theorem mstep_close {s s' : MState} {k : Nat} (h : mstep s (.close k) = some s') : s'.base = s.base ∧ s'.due = s.due := by
  simp only [mstep] at h; cases h; exact ⟨rfl, rfl⟩

theorem mstep_deadline {s s' : MState} {p : Nat} (h : mstep s (.deadline p) = some s') : s'.base = s.base := by
  simp only [mstep] at h; cases h; rfl

/-- every multi-session schedule, with any number of sessions, Close steps and timer events interleaved, projects
    onto a run of the process-global ping machine over its `on` steps -/
theorem mrun_base {s s' : MState} {tr : List MEvent} (h : mrun s tr = some s') : run s.base (erase tr) = some s'.base := by
  induction tr generalizing s with
  | nil => simp [mrun] at h; subst h; rfl
  | cons e es ih =>
    simp only [mrun] at h
    cases hs : mstep s e with
    | none => simp [hs] at h
    | some s1 =>
      simp only [hs] at h
      cases e with
      | on k ev =>
        simp only [erase, run, (mstep_on hs).1]; exact ih h
      | close k => simp only [erase]; rw [← (mstep_close hs).1]; exact ih h
      | deadline p => simp only [erase]; rw [← mstep_deadline hs]; exact ih h

/-- a call that took the timer branch did so after its deadline: `due p` holds from then on -/
structure InvD (s : MState) : Prop where
  rc : ∀ p, (s.base.th p).recv = false → (s.base.th p).closes = 0
  unreg : ∀ p, (s.base.th p).pc = .unreg → (s.base.th p).closes = 0 → s.due p = true
  done : ∀ p, (s.base.th p).pc = .done → (s.base.th p).ret = .timeout → s.due p = true
  init : ∀ p, (s.base.th p).pc = .init → (s.base.th p).ret = .none

theorem invD_init (id0 : Nat) : InvD (minit id0) := by
  constructor <;> simp [minit, Model.Ping.init]

/-- a step that rewrites the record of one call `p` and leaves `due` alone -/
theorem invD_upd {s : MState} (h : InvD s) (b : State) (p : Nat) (t : Thread) (hth : b.th = upd s.base.th p t)
    (h1 : t.recv = false → t.closes = 0) (h2 : t.pc = .unreg → t.closes = 0 → s.due p = true)
    (h3 : t.pc = .done → t.ret = .timeout → s.due p = true) (h4 : t.pc = .init → t.ret = .none)
    (sessOf : Nat → Nat) : InvD { s with base := b, sessOf := sessOf } := by
  obtain ⟨a1, a2, a3, a4⟩ := h
  refine ⟨?_, ?_, ?_, ?_⟩ <;> intro q <;> simp only [hth] <;> by_cases hq : q = p
  · subst hq; simpa using h1
  · simpa [upd_other _ _ _ _ hq] using a1 q
  · subst hq; simpa using h2
  · simpa [upd_other _ _ _ _ hq] using a2 q
  · subst hq; simpa using h3
  · simpa [upd_other _ _ _ _ hq] using a3 q
  · subst hq; simpa using h4
  · simpa [upd_other _ _ _ _ hq] using a4 q

theorem invD_step {s s' : MState} {e : MEvent} (h : InvD s) (hs : mstep s e = some s') : InvD s' := by
  cases e with
  | close k => simp only [mstep] at hs; cases hs; exact ⟨h.rc, h.unreg, h.done, h.init⟩
  | deadline p =>
    simp only [mstep] at hs; cases hs
    refine ⟨h.rc, ?_, ?_, h.init⟩
    · intro q hq hc; simp only []; by_cases hqp : q = p
      · simp [hqp]
      · simp [hqp]; exact h.unreg q hq hc
    · intro q hq hr; simp only []; by_cases hqp : q = p
      · simp [hqp]
      · simp [hqp]; exact h.done q hq hr
  | on k ev =>
    simp only [mstep] at hs
    split at hs
    · rename_i hto
      cases hb : step s.base ev with
      | none => simp [hb] at hs
      | some b =>
        simp only [hb] at hs; cases hs
        cases ev with
        | other => simp only [step] at hb; cases hb; exact ⟨h.rc, h.unreg, h.done, h.init⟩
        | reg p =>
          simp only [step] at hb; split at hb
          · rename_i hp; cases hb
            exact invD_upd h _ p _ rfl (by simpa using h.rc p) (by simp) (by simp) (by simp) _
          · cases hb
        | sendOk p =>
          simp only [step] at hb; split at hb
          · cases hb; exact invD_upd h _ p _ rfl (by simpa using h.rc p) (by simp) (by simp) (by simp) _
          · cases hb
        | sendErr p =>
          simp only [step] at hb; split at hb
          · cases hb; exact invD_upd h _ p _ rfl (by simpa using h.rc p) (by simp) (by simp) (by simp) _
          · cases hb
        | cleanup p =>
          simp only [step] at hb; split at hb
          · cases hb; exact invD_upd h _ p _ rfl (by simpa using h.rc p) (by simp) (by simp) (by simp) _
          · cases hb
        | wake p =>
          simp only [step] at hb; split at hb
          · rename_i hp; cases hb
            exact invD_upd h _ p _ rfl (by simpa using h.rc p) (by simp; intro hc; omega) (by simp) (by simp) _
          · cases hb
        | timeout p =>
          simp only [step] at hb; split at hb
          · cases hb
            have hd : s.due p = true := by simpa [timerOk] using hto
            exact invD_upd h _ p _ rfl (by simpa using h.rc p) (by simp [hd]) (by simp) (by simp) _
          · cases hb
        | unreg p =>
          simp only [step] at hb; split at hb
          · rename_i hp; cases hb
            refine invD_upd h _ p _ rfl (by simpa using h.rc p) (by simp) ?_ (by simp) _
            simp only []
            intro _ hr
            have hrecv : (s.base.th p).recv = false := by
              cases hrc : (s.base.th p).recv with
              | false => rfl
              | true => simp [hrc] at hr
            exact h.unreg p hp (h.rc p hrecv)
          · cases hb
        | echo id =>
          have ms : ∀ q, (markSeen s.base.th id q).pc = (s.base.th q).pc ∧ (markSeen s.base.th id q).closes = (s.base.th q).closes ∧
              (markSeen s.base.th id q).recv = (s.base.th q).recv ∧ (markSeen s.base.th id q).ret = (s.base.th q).ret := by
            intro q; unfold markSeen; split <;> simp
          have base : InvD { s with base := { s.base with th := markSeen s.base.th id }, sessOf := sessAfter s.sessOf k (.echo id) } := by
            refine ⟨?_, ?_, ?_, ?_⟩ <;> intro q <;> simp only [(ms q).1, (ms q).2.1, (ms q).2.2.1, (ms q).2.2.2]
            · exact h.rc q
            · exact h.unreg q
            · exact h.done q
            · exact h.init q
          simp only [step] at hb
          split at hb
          · cases hb; exact base
          · split at hb
            · cases hb; exact base
            · rename_i q _; cases hb
              exact invD_upd base _ q _ rfl (by simp) (by simp) (by simp [(ms q).1, (ms q).2.2.2]; exact h.done q)
                (by simp [(ms q).1, (ms q).2.2.2]; exact h.init q) _
    · cases hs

theorem invD_run {s s' : MState} {tr : List MEvent} (h : InvD s) (hr : mrun s tr = some s') : InvD s' := by
  induction tr generalizing s with
  | nil => simp [mrun] at hr; subst hr; exact h
  | cons e es ih =>
    simp only [mrun] at hr
    cases hs : mstep s e with
    | none => simp [hs] at hr
    | some s1 => simp only [hs] at hr; exact ih (invD_step h hs) hr

end PV.Lemmas.PingMulti
