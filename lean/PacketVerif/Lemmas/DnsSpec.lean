/-
  The model's name decoder against the RFC 1035 reference (`Spec.NameAt`):
  completeness (every well-formed name within the size / pointer-depth limits decodes to the
  spec's labels) and soundness (whatever is accepted is a `NameAt` derivation).
-/
import PacketVerif.Lemmas.DnsName
import PacketVerif.Spec.DnsWire
namespace PV.Lemmas.Dns
open PV PV.Model PV.Spec

/-- what the decoder appends to the buffer for a label list: every label preceded by a dot -/
def dotted : List Bytes → Bytes
  | [] => []
  | l :: rest => 46 :: l ++ dotted rest

theorem dotted_append (a b : List Bytes) : dotted (a ++ b) = dotted a ++ dotted b := by
  induction a with
  | nil => rfl
  | cons l rest ih => simp [dotted, ih]

theorem dotted_length (ls : List Bytes) : (dotted ls).length + 1 = wireLen ls := by
  induction ls with
  | nil => rfl
  | cons l rest ih =>
    simp only [dotted, wireLen, List.map_cons, List.sum_cons, List.length_cons, List.length_append] at *
    omega

theorem dotted_eq_text : ∀ (ls : List Bytes), ls ≠ [] → dotted ls = 46 :: text ls
  | [], h => absurd rfl h
  | [l], _ => by simp [dotted, text]
  | l :: r :: rs, _ => by
    have ih := dotted_eq_text (r :: rs) (by simp)
    rw [dotted, ih]
    rfl

theorem nameOf_dotted (ls : List Bytes) : nameOf (dotted ls) = text ls := by
  cases ls with
  | nil => rfl
  | cons l rest => rw [dotted_eq_text _ (by simp)]; rfl

theorem getElem?_lt {m : Bytes} {i : Nat} {v : UInt8} (h : m[i]? = some v) : i < m.length :=
  (List.getElem?_eq_some_iff.mp h).1

theorem getElem_of {m : Bytes} {i : Nat} {v : UInt8} (h : m[i]? = some v) : m[i]'(getElem?_lt h) = v :=
  (List.getElem?_eq_some_iff.mp h).2

/-! ### completeness -/

theorem seg_complete {m : Bytes} {start pos : Nat} {ls : List Bytes} {e d : Nat} (hn : NameAt m start pos ls e d) :
    ∀ (acc : Bytes) (sf f level : Nat), start ≤ pos → acc.length = pos - start →
      acc.length + (dotted ls).length ≤ 255 → level + d ≤ 255 → m.length - pos ≤ sf → d ≤ f →
      afterScan m start (fun o => decodeSeg f m o (level + 1)) (scanLabels sf m start pos acc)
        = .ok (acc ++ dotted ls, e) := by
  induction hn with
  | @root start pos h0 =>
    intro acc sf f level hsp hacc hlen hlev hsf hf
    have hlt := getElem?_lt h0
    obtain ⟨sf', rfl⟩ : ∃ k, sf = k + 1 := ⟨sf - 1, by omega⟩
    rw [scanLabels, idx_ok hlt, getElem_of h0]
    simp only [dotted, List.append_nil] at *
    simp [afterScan, finishName]
    omega
  | @label start pos n rest e d h0 h1 h63 hin hsub ih =>
    intro acc sf f level hsp hacc hlen hlev hsf hf
    have hlt := getElem?_lt h0
    obtain ⟨sf', rfl⟩ : ∃ k, sf = k + 1 := ⟨sf - 1, by omega⟩
    have hb := bits n
    rw [scanLabels, idx_ok hlt, getElem_of h0]
    have e0 : (n == 0) = false := by rw [hb.2.2.2.1]; simp; omega
    have e1 : (n &&& 0xc0 == 0xc0) = false := by rw [hb.1]; simp; omega
    have e2 : (n &&& 0xc0 == 0x40) = false := by rw [hb.2.1]; simp; omega
    have e3 : (n &&& 0xc0 == 0x80) = false := by rw [hb.2.2.1]; simp; omega
    simp only [e0, e1, e2, e3, Bool.false_eq_true, if_false]
    have hdl : (dotted (((m.drop (pos + 1)).take n.toNat) :: rest)).length = 1 + n.toNat + (dotted rest).length := by
      simp [dotted]; omega
    have hnext : pos + 1 + n.toNat < m.length := by
      cases hsub with
      | root h => exact getElem?_lt h
      | label h _ _ _ _ => exact getElem?_lt h
      | ptr h _ _ _ _ => exact getElem?_lt h
    have c1 : ¬ (pos + n.toNat + 1 - start > 255) := by omega
    have c2 : ¬ (pos + n.toNat + 1 > m.length) := by omega
    have c3 : ¬ (pos + n.toNat + 1 ≥ m.length) := by omega
    simp only [c1, c2, c3, if_false]
    rw [slice_ok (by omega) (by omega), slice_eq_drop_take]
    simp only []
    have hk : pos + n.toNat + 1 - (pos + 1) = n.toNat := by omega
    rw [hk]
    have hidx : pos + n.toNat + 1 = pos + 1 + n.toNat := by omega
    rw [hidx]
    have := ih (acc ++ 46 :: (m.drop (pos + 1)).take n.toNat) sf' f level (by omega)
      (by simp; omega) (by simp; omega) hlev (by omega) hf
    rw [this]
    simp [dotted]
  | @ptr start pos hi lo rest e d h0 h192 h1 htgt hsub ih =>
    intro acc sf f level hsp hacc hlen hlev hsf hf
    have hlt := getElem?_lt h0
    have hlt1 := getElem?_lt h1
    obtain ⟨sf', rfl⟩ : ∃ k, sf = k + 1 := ⟨sf - 1, by omega⟩
    obtain ⟨f', rfl⟩ : ∃ k, f = k + 1 := ⟨f - 1, by omega⟩
    have hb := bits hi
    rw [scanLabels, idx_ok hlt, getElem_of h0]
    have e0 : (hi == 0) = false := by rw [hb.2.2.2.1]; simp; omega
    have e1 : (hi &&& 0xc0 == 0xc0) = true := by rw [hb.1]; simp; omega
    simp only [e0, e1, Bool.false_eq_true, if_false, if_true]
    simp only [afterScan]
    have c1 : ¬ (pos + 2 > m.length) := by omega
    simp only [c1, if_false]
    rw [slice2 (by omega)]
    simp only [getElem_of h0, getElem_of h1, ptrTarget_eq hi lo h192]
    have c2 : ¬ ((hi.toNat - 192) * 256 + lo.toNat ≥ start) := by omega
    simp only [c2, if_false]
    -- the recursive call
    have htl : (hi.toNat - 192) * 256 + lo.toNat < m.length := by
      cases hsub with
      | root h => exact getElem?_lt h
      | label h _ _ _ _ => exact getElem?_lt h
      | ptr h _ _ _ _ => exact getElem?_lt h
    have hrec : decodeSeg (f' + 1) m ((hi.toNat - 192) * 256 + lo.toNat) (level + 1) = .ok (dotted rest, e) := by
      rw [decodeSeg]
      have c3 : ¬ (level + 1 > maxRecursionLevel) := by unfold maxRecursionLevel; omega
      have c4 : ¬ ((hi.toNat - 192) * 256 + lo.toNat ≥ m.length) := by omega
      simp only [c3, c4, if_false]
      rw [idx_ok htl]
      simp only []
      have := ih [] m.length f' (level + 1) (Nat.le_refl _) (by simp) (by simp at hlen ⊢; omega) (by omega) (by omega) (by omega)
      split
      next hz =>
        -- first octet zero: the scan stops immediately with the same result
        have hsf : ∃ k, m.length = k + 1 := ⟨m.length - 1, by omega⟩
        obtain ⟨k, hk⟩ := hsf
        rw [hk, scanLabels, idx_ok htl] at this
        simp [hz, afterScan, finishName] at this
        rw [← this.1, ← this.2]
      next => simpa using this
    rw [hrec]
    simp only [finishName]
    simp
    omega


/-- completeness at the level of one `decodeName` call -/
theorem decodeSeg_complete {m : Bytes} {off : Nat} {ls : List Bytes} {e d : Nat} (hn : NameAt m off off ls e d)
    (f level : Nat) (hlen : (dotted ls).length ≤ 255) (hlev : level + d ≤ 255) (hf : d ≤ f) :
    decodeSeg (f + 1) m off level = .ok (dotted ls, e) := by
  have htl : off < m.length := by
    cases hn with
    | root h => exact getElem?_lt h
    | label h _ _ _ _ => exact getElem?_lt h
    | ptr h _ _ _ _ => exact getElem?_lt h
  rw [decodeSeg]
  have c3 : ¬ (level > maxRecursionLevel) := by unfold maxRecursionLevel; omega
  have c4 : ¬ (off ≥ m.length) := by omega
  simp only [c3, c4, if_false]
  rw [idx_ok htl]
  simp only []
  have := seg_complete hn [] m.length f level (Nat.le_refl _) (by simp) (by simpa using hlen) hlev (by omega) hf
  split
  next hz =>
    obtain ⟨k, hk⟩ : ∃ k, m.length = k + 1 := ⟨m.length - 1, by omega⟩
    rw [hk, scanLabels, idx_ok htl] at this
    simp [hz, afterScan, finishName] at this
    rw [← this.1, ← this.2]
  next => simpa using this

/-! ### soundness -/

def _root_.PV.Model.Scan.acc : Scan → Bytes | .done a _ => a | .ptr a _ => a
def _root_.PV.Model.Scan.index : Scan → Nat | .done _ i => i | .ptr _ i => i
/-- the octet at which the scan stopped: zero for `done`, a pointer octet for `ptr` -/
def _root_.PV.Model.Scan.stopOK (m : Bytes) : Scan → Prop
  | .done _ p => m[p]? = some 0
  | .ptr _ p => ∃ hi, m[p]? = some hi ∧ 192 ≤ hi.toNat

theorem scan_sound : ∀ (sf : Nat) (m : Bytes) (start pos : Nat) (acc : Bytes) (r : Scan),
    scanLabels sf m start pos acc = .ok r →
    ∃ ls, r.acc = acc ++ dotted ls ∧ r.stopOK m ∧ pos ≤ r.index ∧
      (r.index - pos = (dotted ls).length) ∧
      (∀ rest e d, NameAt m start r.index rest e d → NameAt m start pos (ls ++ rest) e d) := by
  intro sf
  induction sf with
  | zero => intro m start pos acc r h; simp [scanLabels] at h
  | succ n ih =>
    intro m start pos acc r h
    rw [scanLabels] at h
    rcases idx_cases m pos with ⟨b, hb, hlt⟩ | ⟨hp, _⟩
    · rw [hb] at h
      simp only [] at h
      have hbm : m[pos]? = some b := idx_eq_ok_iff.mp hb
      have bb := bits b
      split at h
      next hz =>
        injection h with h; subst h
        refine ⟨[], by simp [Scan.acc, dotted], ?_, by simp [Scan.index], by simp [Scan.index, dotted], ?_⟩
        · simp only [Scan.stopOK]
          have : b = 0 := by simpa using hz
          rw [hbm, this]
        · intro rest e d hh; simpa [Scan.index] using hh
      split at h
      next hz hc =>
        injection h with h; subst h
        refine ⟨[], by simp [Scan.acc, dotted], ?_, by simp [Scan.index], by simp [Scan.index, dotted], ?_⟩
        · simp only [Scan.stopOK]
          refine ⟨b, hbm, ?_⟩
          rw [bb.1] at hc; simpa using hc
        · intro rest e d hh; simpa [Scan.index] using hh
      split at h
      · simp at h
      split at h
      · simp at h
      next hz hc1 hc2 hc3 =>
        split at h
        · simp at h
        split at h
        · simp at h
        next hle1 hle2 =>
          rw [slice_ok (by omega) (by omega), slice_eq_drop_take] at h
          simp only [] at h
          split at h
          · simp at h
          next hlt2 =>
            have hk : pos + b.toNat + 1 - (pos + 1) = b.toNat := by omega
            rw [hk] at h
            obtain ⟨ls, h1, h2, h3, h4, h5⟩ := ih m start (pos + b.toNat + 1) _ r h
            rw [bb.2.2.2.1] at hz; rw [bb.1] at hc1; rw [bb.2.1] at hc2; rw [bb.2.2.1] at hc3
            simp at hz hc1 hc2 hc3
            have hb63 : b.toNat ≤ 63 := by omega
            refine ⟨((m.drop (pos + 1)).take b.toNat) :: ls, ?_, h2, by omega, ?_, ?_⟩
            · rw [h1]; simp [dotted]
            · simp [dotted]; omega
            · intro rest e d hh
              have := h5 rest e d hh
              have e1 : pos + b.toNat + 1 = pos + 1 + b.toNat := by omega
              rw [e1] at this
              exact NameAt.label hbm (by omega) hb63 (by omega) this
    · rw [hp] at h; simp at h

theorem finishName_ok {seg : Bytes} {i : Nat} {r : Bytes × Nat} (h : finishName seg i = .ok r) :
    r = (seg, i + 1) ∧ seg.length ≤ 255 := by
  unfold finishName at h
  split at h
  · simp at h
  · injection h with h; exact ⟨h.symm, by omega⟩

theorem seg_sound : ∀ (f : Nat) (m : Bytes) (off level : Nat) (seg : Bytes) (e : Nat),
    decodeSeg f m off level = .ok (seg, e) →
    ∃ ls d, NameAt m off off ls e d ∧ seg = dotted ls ∧ seg.length ≤ 255 ∧ level + d ≤ 255 := by
  intro f
  induction f with
  | zero => intro m off level seg e h; simp [decodeSeg] at h
  | succ n ih =>
    intro m off level seg e h
    rw [decodeSeg] at h
    split at h
    · simp at h
    split at h
    · simp at h
    next hlev hoff =>
      unfold maxRecursionLevel at hlev
      have hlt : off < m.length := by omega
      rw [idx_ok hlt] at h
      simp only [] at h
      split at h
      next hz =>
        injection h with h
        have h1 : seg = [] := by injection h with a b; exact a.symm
        have h2 : e = off + 1 := by injection h with a b; exact b.symm
        subst h1; subst h2
        have : m[off] = 0 := by simpa using hz
        refine ⟨[], 0, NameAt.root ?_, rfl, by simp, by omega⟩
        rw [List.getElem?_eq_getElem hlt, this]
      next hnz =>
        cases hs : scanLabels m.length m off off [] with
        | err er => rw [hs] at h; simp [afterScan] at h
        | panic => rw [hs] at h; simp [afterScan] at h
        | hang => rw [hs] at h; simp [afterScan] at h
        | ok r =>
          rw [hs] at h
          obtain ⟨ls, h1, h2, h3, h4, h5⟩ := scan_sound _ _ _ _ _ _ hs
          cases r with
          | done acc p =>
            simp only [afterScan] at h
            obtain ⟨hr, hl⟩ := finishName_ok h
            injection hr with ha hb
            simp only [Scan.acc, Scan.index, Scan.stopOK, List.nil_append] at h1 h2 h3 h4 h5
            subst ha; subst hb
            refine ⟨ls, 0, ?_, h1, hl, by omega⟩
            have := h5 [] (p + 1) 0 (NameAt.root h2)
            simpa using this
          | ptr acc p =>
            simp only [afterScan] at h
            simp only [Scan.acc, Scan.index, Scan.stopOK, List.nil_append] at h1 h2 h3 h4 h5
            obtain ⟨hi, hhi, h192⟩ := h2
            split at h
            · simp at h
            next hp2 =>
              rw [slice2 (by omega)] at h
              simp only [] at h
              split at h
              · simp at h
              next htgt =>
                have ehi : m[p]'(by omega) = hi := getElem_of hhi
                rw [ehi, ptrTarget_eq hi _ h192] at htgt h
                cases hr : decodeSeg n m ((hi.toNat - 192) * 256 + (m[p + 1]'(by omega)).toNat) (level + 1) with
                | err er => rw [hr] at h; simp at h
                | panic => rw [hr] at h; simp at h
                | hang => rw [hr] at h; simp at h
                | ok v =>
                  rw [hr] at h
                  obtain ⟨seg', e'⟩ := v
                  simp only [] at h
                  obtain ⟨ls', d', hn', hs', _, hd'⟩ := ih _ _ _ _ _ hr
                  obtain ⟨hr2, hl⟩ := finishName_ok h
                  injection hr2 with ha hb
                  subst ha; subst hb
                  refine ⟨ls ++ ls', d' + 1, ?_, ?_, hl, by omega⟩
                  · apply h5
                    exact NameAt.ptr hhi h192 (List.getElem?_eq_getElem (by omega)) (by omega) hn'
                  · rw [h1, hs', dotted_append]

/-! ### the executable spec decides the relation -/

theorem nameAt?_sound (m : Bytes) (start pos : Nat) : ∀ ls e d, nameAt? m start pos = some (ls, e, d) → NameAt m start pos ls e d := by
  fun_induction nameAt? m start pos with
  | case1 start pos h => intro ls e d hh; simp at hh
  | case2 start pos n h hz =>
    intro ls e d hh
    simp at hh
    obtain ⟨rfl, rfl, rfl⟩ := hh
    have : n = 0 := by
      apply UInt8.toNat_inj.mp; simpa using hz
    exact NameAt.root (this ▸ h)
  | case3 start pos n h hz h63 hin rest e d hrec ih =>
    intro ls e' d' hh
    simp at hh
    obtain ⟨rfl, rfl, rfl⟩ := hh
    exact NameAt.label h (by omega) h63 hin (ih _ _ _ hrec)
  | case4 => intro ls e d hh; simp at hh
  | case5 => intro ls e d hh; simp at hh
  | case6 => intro ls e d hh; simp at hh
  | case7 start pos n h hz h63 hge lo hlo hlt rest e0 d hrec ih =>
    intro ls e' d' hh
    simp at hh
    obtain ⟨rfl, rfl, rfl⟩ := hh
    exact NameAt.ptr h hge hlo hlt (ih _ _ _ hrec)
  | case8 => intro ls e d hh; simp at hh
  | case9 => intro ls e d hh; simp at hh
  | case10 => intro ls e d hh; simp at hh

theorem nameAt?_complete {m : Bytes} {start pos : Nat} {ls : List Bytes} {e d : Nat} (hn : NameAt m start pos ls e d) :
    nameAt? m start pos = some (ls, e, d) := by
  induction hn with
  | @root start pos h0 =>
    rw [nameAt?]
    split
    · simp_all
    next n hn =>
      have : n = 0 := by rw [h0] at hn; injection hn with hn; exact hn.symm
      subst this; simp
  | @label start pos n rest e d h0 h1 h63 hin hsub ih =>
    rw [nameAt?]
    split
    · simp_all
    next n' hn =>
      have : n' = n := by rw [h0] at hn; injection hn with hn; exact hn.symm
      subst this
      have c0 : ¬ (n'.toNat = 0) := by omega
      simp only [c0, h63, hin, if_true, if_false, ih]
  | @ptr start pos hi lo rest e d h0 h192 h1 htgt hsub ih =>
    rw [nameAt?]
    split
    · simp_all
    next n' hn =>
      have : n' = hi := by rw [h0] at hn; injection hn with hn; exact hn.symm
      subst this
      have c0 : ¬ (n'.toNat = 0) := by omega
      have c1 : ¬ (n'.toNat ≤ 63) := by omega
      simp only [c0, c1, if_false, h192, dite_true, h1, htgt, ih]

/-- whatever `decodeName` accepts is a reference derivation (used by Props.C17.decodeName_sound) -/
theorem decodeName_accepts (m : Bytes) (off : Int) (n : Bytes) (e : Nat)
    (h : decodeName m off 1 = .ok (n, e)) :
    0 ≤ off ∧ ∃ ls d, NameAt m off.toNat off.toNat ls e d ∧ n = text ls ∧ wireLen ls ≤ 256 ∧ d ≤ 254 := by
  unfold decodeName at h
  split at h
  · simp at h
  split at h
  · simp at h
  split at h
  · simp at h
  next _ _ hneg =>
    cases hs : decodeSeg nameFuel m off.toNat 1 with
    | err er => rw [hs] at h; simp at h
    | panic => rw [hs] at h; simp at h
    | hang => rw [hs] at h; simp at h
    | ok v =>
      obtain ⟨seg, e'⟩ := v
      rw [hs] at h
      simp only [] at h
      injection h with h
      injection h with h1 h2
      subst h1; subst h2
      obtain ⟨ls, d, hn, hseg, hlen, hd⟩ := seg_sound _ _ _ _ _ _ hs
      refine ⟨by omega, ls, d, hn, ?_, ?_, by omega⟩
      · rw [hseg, nameOf_dotted]
      · have := dotted_length ls; rw [hseg] at hlen; omega


end PV.Lemmas.Dns
