/-
  Composition Parse ∘ ICMPv6 handler: the `RaIn` that `Model.Icmp6Frame.raInOf` builds from the frame
  bytes, in the vocabulary of the reference reading `Spec.RaFrame`, and the projections of `Spec.decode`
  it needs.
-/
import PacketVerif.Lemmas.ComposeArp
import PacketVerif.Lemmas.Icmp6Hunt
import PacketVerif.Model.Icmp6Frame
import PacketVerif.Spec.RaFrame
namespace PV.Lemmas.ComposeIcmp6
open PV PV.Model PV.Lemmas PV.Lemmas.Compose PV.Lemmas.ComposeArp
open PV.Spec (at_ u16 field)
open PV.Spec.RaFrame

/-- the frame reaches the type switch of `Handler6.ProcessPacket`: unicast Ethernet source, valid IPv6
    header whose next header is 58, at least 8 bytes of ICMPv6 -/
def icmp6Gate (p : Bytes) : Bool :=
  srcUnicast p && ip6OK p && decide (at_ p 20 = 58 ∧ 8 ≤ p.length - 54)

theorem udpService_ne7 (sp dp pid : Nat) (h : Spec.udpService sp dp = some pid) : pid ≠ 7 := by
  obtain ⟨e, he, rfl⟩ := udpService_mem sp dp pid h
  have : ∀ e ∈ Spec.udpTable, e.2.2 ≠ 7 := by decide
  exact this e he

theorem l2Table_ne7 (et pid : Nat) (h : Spec.l2Table.lookup et = some pid) : pid ≠ 7 := by
  unfold Spec.l2Table at h
  simp only [lookup_cons_ite, List.lookup_nil] at h
  repeat' split at h
  all_goals first | (cases h; omega) | cases h

/-- the transport switch yields "ICMPv6, no error" exactly for protocol 58 with 8 bytes available; the
    header offsets and addresses decoded before it are kept -/
theorem transport_icmp6 (p : Bytes) (d : Spec.Decoded) (proto o : Nat) (hd : d.pid ≠ 7) (he : d.err = false) :
    (((Spec.transport p d proto o).pid = 7 ∧ (Spec.transport p d proto o).err = false) ↔
      (proto = 58 ∧ 8 ≤ p.length - o)) ∧
    (Spec.transport p d proto o).ip6 = d.ip6 ∧ (Spec.transport p d proto o).srcIP = d.srcIP ∧
    (proto = 58 → (Spec.transport p d proto o).pay = d.pay) := by
  unfold Spec.transport
  by_cases h17 : proto = 17
  · subst h17
    simp only [BEq.rfl, if_true]
    by_cases h8 : p.length - o < 8
    · rw [if_pos h8]; simp
    · rw [if_neg h8]
      cases hs : Spec.udpService (u16 p o) (u16 p (o + 2)) with
      | none => simp
      | some pid =>
        have := udpService_ne7 _ _ _ hs
        simp [this]
  · have e17 : (proto == 17) = false := by simp [h17]
    simp only [e17, Bool.false_eq_true, if_false]
    by_cases h6 : proto = 6
    · subst h6
      simp only [BEq.rfl, if_true]
      split <;> simp
    · have e6 : (proto == 6) = false := by simp [h6]
      simp only [e6, Bool.false_eq_true, if_false]
      by_cases h1 : proto = 1
      · subst h1
        simp only [BEq.rfl, true_or, if_true]
        split
        · simp
        · simp
      · by_cases h58 : proto = 58
        · subst h58
          simp only [Nat.reduceBEq, Bool.false_eq_true, false_or, BEq.rfl, if_true, if_false]
          by_cases h8 : p.length - o < 8
          · rw [if_pos h8]
            refine ⟨⟨fun h => by simp at h, fun h => by omega⟩, rfl, rfl, fun _ => rfl⟩
          · rw [if_neg h8]
            refine ⟨⟨fun _ => ⟨trivial, by omega⟩, fun _ => ⟨rfl, he⟩⟩, rfl, rfl, fun _ => rfl⟩
        · have e1 : (proto == 1) = false := by simp [h1]
          have e58 : (proto == 58) = false := by simp [h58]
          simp only [e1, e58, Bool.false_eq_true, or_self, if_false]
          by_cases h2 : proto = 2
          · subst h2; simp [h58]
          · have e2 : (proto == 2) = false := by simp [h2]
            simp only [e2, Bool.false_eq_true, if_false]
            simp [hd, he, h58]

theorem transport_ip6 (p : Bytes) (d : Spec.Decoded) (proto o : Nat) :
    (Spec.transport p d proto o).ip6 = d.ip6 := by
  unfold Spec.transport
  simp only []
  repeat' split
  all_goals rfl

/-- what the composition needs from the reference decoder -/
def DecIcmp6 (cfg : Model.Cfg) (p : Bytes) : Prop :=
  (((Spec.decode (toSC cfg) p).pid = 7 ∧ (Spec.decode (toSC cfg) p).err = false ∧ (Spec.decode (toSC cfg) p).ip6 ≠ 0) ↔
      icmp6Gate p = true) ∧
  (icmp6Gate p = true → (Spec.decode (toSC cfg) p).pay = 54 ∧ (Spec.decode (toSC cfg) p).srcIP = field p 22 16)

theorem gate_false_of (p : Bytes) (h : srcUnicast p = false ∨ ip6OK p = false) : icmp6Gate p = false := by
  unfold icmp6Gate; rcases h with h | h <;> simp [h]

theorem decIcmp6_invalid (cfg : Model.Cfg) (p : Bytes)
    (h : ¬ (14 ≤ p.length ∧ etherHeaderLenOf (u16 p 12) ≤ p.length)) : DecIcmp6 cfg p := by
  have h6 : ip6OK p = false := by
    apply decide_eq_false; intro hc
    apply h; refine ⟨hc.1, ?_⟩; rw [hc.2.1]; exact hc.1
  unfold DecIcmp6
  rw [decode_invalid _ p h, gate_false_of p (Or.inr h6)]
  simp

theorem decIcmp6_group (cfg : Model.Cfg) (p : Bytes) (h14 : 14 ≤ p.length)
    (hh : etherHeaderLenOf (u16 p 12) ≤ p.length) (hg : (at_ p 6 % 2 == 1) = true) : DecIcmp6 cfg p := by
  have hgate := gate_false_of p (Or.inl (srcUnicast_not p hg))
  unfold DecIcmp6
  decode_prefix
  simp only [hg, if_true, hgate]
  simp

theorem decIcmp6_8023 (cfg : Model.Cfg) (p : Bytes) (h14 : 14 ≤ p.length)
    (hh : etherHeaderLenOf (u16 p 12) ≤ p.length) (hg : ¬ (at_ p 6 % 2 == 1) = true)
    (het : u16 p 12 < 1536) : DecIcmp6 cfg p := by
  have hgate := gate_false_of p (Or.inr (ip6OK_et p (by omega)))
  unfold DecIcmp6
  decode_prefix
  simp only [hg, het, if_true, hgate]
  simp

theorem decIcmp6_other (cfg : Model.Cfg) (p : Bytes) (h14 : 14 ≤ p.length)
    (hh : etherHeaderLenOf (u16 p 12) ≤ p.length) (hg : ¬ (at_ p 6 % 2 == 1) = true)
    (het : ¬ u16 p 12 < 1536) (h4 : u16 p 12 ≠ 0x0800) (h6 : u16 p 12 ≠ 0x86dd)
    (ha : u16 p 12 ≠ 0x0806) : DecIcmp6 cfg p := by
  have hgate := gate_false_of p (Or.inr (ip6OK_et p h6))
  unfold DecIcmp6
  decode_prefix
  simp only [hg, het, beq_iff_eq, h4, h6, ha, if_false, hgate]
  cases hl : List.lookup (u16 p 12) Spec.l2Table with
  | none => simp
  | some pid =>
    have := l2Table_ne7 _ _ hl
    simp [this]

theorem decIcmp6_arp (cfg : Model.Cfg) (p : Bytes) (h14 : 14 ≤ p.length)
    (hg : ¬ (at_ p 6 % 2 == 1) = true) (het : u16 p 12 = 0x0806) : DecIcmp6 cfg p := by
  have hh : etherHeaderLenOf (u16 p 12) ≤ p.length := by rw [het, hdr_arp]; exact h14
  have hgate := gate_false_of p (Or.inr (ip6OK_et p (by omega)))
  unfold DecIcmp6
  decode_prefix
  simp only [hg, het, hdr_arp, if_false, Nat.reduceLT, Nat.reduceBEq, BEq.rfl, if_true, Nat.reduceAdd,
    Bool.false_eq_true, hgate]
  split <;> simp

theorem decIcmp6_ip4 (cfg : Model.Cfg) (p : Bytes) (h14 : 14 ≤ p.length)
    (hg : ¬ (at_ p 6 % 2 == 1) = true) (het : u16 p 12 = 0x0800) : DecIcmp6 cfg p := by
  have hh : etherHeaderLenOf (u16 p 12) ≤ p.length := by rw [het, hdr_ip4]; exact h14
  have hgate := gate_false_of p (Or.inr (ip6OK_et p (by omega)))
  unfold DecIcmp6
  decode_prefix
  simp only [hg, het, hdr_ip4, if_false, Nat.reduceLT, BEq.rfl, if_true, Nat.reduceAdd, Bool.false_eq_true, hgate]
  split
  · simp
  · refine ⟨⟨fun h => ?_, fun h => by cases h⟩, fun h => by cases h⟩
    have h3 := h.2.2
    rw [transport_ip6] at h3
    exact absurd rfl h3

theorem decIcmp6_ip6 (cfg : Model.Cfg) (p : Bytes) (h14 : 14 ≤ p.length)
    (hg : ¬ (at_ p 6 % 2 == 1) = true) (het : u16 p 12 = 0x86dd) : DecIcmp6 cfg p := by
  have hh : etherHeaderLenOf (u16 p 12) ≤ p.length := by rw [het, hdr_ip6]; exact h14
  have hu := srcUnicast_of p hg
  unfold DecIcmp6
  decode_prefix
  simp only [hg, het, hdr_ip6, if_false, Nat.reduceLT, Nat.reduceBEq, BEq.rfl, if_true, Nat.reduceAdd,
    Bool.false_eq_true]
  by_cases hc : p.length - 14 < 40 ∨ u16 p 18 + 40 ≠ p.length - 14
  · have h6 : ip6OK p = false := by apply decide_eq_false; omega
    rw [if_pos hc, gate_false_of p (Or.inr h6)]
    simp
  · have h6 : ip6OK p = true := by apply decide_eq_true; omega
    rw [if_neg hc]
    obtain ⟨t1, t2, t3, t4⟩ := transport_icmp6 p
      { pid := 5, ip6 := 14, pay := 54, srcMAC := field p 6 6, dstMAC := field p 0 6, srcIP := field p 22 16,
        dstIP := field p 38 16,
        host := if (field p 6 6 != (toSC cfg).hostMAC &&
            (Netip.isLinkLocalUnicast (field p 22 16) ||
              (Netip.isGlobalUnicast (field p 22 16) && field p 6 6 != (toSC cfg).routerMAC))) = true
          then some (field p 6 6, field p 22 16) else none } (at_ p 20) 54 (by simp) rfl
    have hgate : icmp6Gate p = decide (at_ p 20 = 58 ∧ 8 ≤ p.length - 54) := by simp [icmp6Gate, hu, h6]
    rw [hgate]
    refine ⟨⟨fun h => ?_, fun h => ?_⟩, fun h => ?_⟩
    · exact decide_eq_true (t1.1 ⟨h.1, h.2.1⟩)
    · have := t1.2 (of_decide_eq_true h)
      exact ⟨this.1, this.2, by rw [t2]; simp⟩
    · have h58 := (of_decide_eq_true h).1
      exact ⟨by rw [t4 h58], by rw [t3]⟩

theorem decIcmp6 (cfg : Model.Cfg) (p : Bytes) : DecIcmp6 cfg p := by
  by_cases hv : 14 ≤ p.length ∧ etherHeaderLenOf (u16 p 12) ≤ p.length
  · obtain ⟨h14, hh⟩ := hv
    by_cases hg : (at_ p 6 % 2 == 1) = true
    · exact decIcmp6_group cfg p h14 hh hg
    by_cases het : u16 p 12 < 1536
    · exact decIcmp6_8023 cfg p h14 hh hg het
    by_cases h4 : u16 p 12 = 0x0800
    · exact decIcmp6_ip4 cfg p h14 hg h4
    by_cases h6 : u16 p 12 = 0x86dd
    · exact decIcmp6_ip6 cfg p h14 hg h6
    by_cases ha : u16 p 12 = 0x0806
    · exact decIcmp6_arp cfg p h14 hg ha
    exact decIcmp6_other cfg p h14 hh hg het h4 h6 ha
  · exact decIcmp6_invalid cfg p hv

/-! ### the `RaIn` of a frame, read off the bytes with the reference reading -/

open Icmp6Hunt in
def raInRef (c : Model.Cfg) (p : Bytes) : Option Icmp6Hunt.RaIn :=
  if srcIndividual p then
    (decodeRaFrame p).map fun f =>
      { etherSrc := f.etherSrc, ipSrc := f.ipSrc,
        hostKnown := senderTracked c.hostMAC c.routerMAC f.etherSrc f.ipSrc, payload := f.icmp }
  else none

theorem gate_of_decode (p : Bytes) (f : RaPkt) (h : decodeRaFrame p = some f) (hu : srcIndividual p = true) :
    icmp6Gate p = true ∧ at_ p 54 = 134 ∧ 62 ≤ p.length ∧
      f = { etherSrc := field p 6 6, ipSrc := field p 22 16, hopLimit := at_ p 21, icmp := p.drop 54 } := by
  unfold decodeRaFrame at h
  by_cases c1 : p.length < 62
  · rw [if_pos c1] at h; cases h
  rw [if_neg c1] at h
  by_cases c2 : u16 p 12 ≠ 0x86dd
  · rw [if_pos c2] at h; cases h
  rw [if_neg c2] at h
  by_cases c3 : u16 p 18 + 54 ≠ p.length
  · rw [if_pos c3] at h; cases h
  rw [if_neg c3] at h
  by_cases c4 : at_ p 20 ≠ 58
  · rw [if_pos c4] at h; cases h
  rw [if_neg c4] at h
  by_cases c5 : at_ p 54 ≠ 134
  · rw [if_pos c5] at h; cases h
  rw [if_neg c5] at h
  cases h
  have h6 : ip6OK p = true := by apply decide_eq_true; omega
  have hu' : srcUnicast p = true := hu
  refine ⟨?_, by omega, by omega, rfl⟩
  simp only [icmp6Gate, hu', h6, Bool.and_self, Bool.true_and, decide_eq_true_eq]
  omega

theorem decode_of_gate (p : Bytes) (hg : icmp6Gate p = true) (h134 : at_ p 54 = 134) :
    decodeRaFrame p =
      some { etherSrc := field p 6 6, ipSrc := field p 22 16, hopLimit := at_ p 21, icmp := p.drop 54 } := by
  simp only [icmp6Gate, Bool.and_eq_true, decide_eq_true_eq] at hg
  obtain ⟨⟨_, h6⟩, h58, h8⟩ := hg
  have h6' := of_decide_eq_true h6
  unfold decodeRaFrame
  rw [if_neg (by omega), if_neg (by omega), if_neg (by omega), if_neg (by omega), if_neg (by omega)]

theorem raInOf_ref (c : Model.Cfg) (p : Bytes) : Icmp6Frame.raInOf c p = .ok (raInRef c p) := by
  obtain ⟨r, hp, hd⟩ := parse_spec c p
  obtain ⟨hiff, hpay⟩ := decIcmp6 c p
  obtain ⟨hhost, _, _, hsrc⟩ := parse_proj c p r hp
  rw [← hd] at hiff hpay
  have epid : (toDec r).pid = r.frame.pid := rfl
  have eerr : (toDec r).err = r.err.isSome := rfl
  have eip6 : (toDec r).ip6 = r.frame.offIP6 := rfl
  have epay : (toDec r).pay = r.frame.offPayload := rfl
  have esip : (toDec r).srcIP = r.frame.srcIP := rfl
  rw [epid, eerr, eip6] at hiff
  rw [epay, esip] at hpay
  unfold Icmp6Frame.raInOf
  rw [hp]
  simp only [Outcome.bind_ok]
  cases hg : icmp6Gate p with
  | false =>
    have href : raInRef c p = none := by
      unfold raInRef
      by_cases hu : srcIndividual p = true
      · rw [if_pos hu]
        cases hdec : decodeRaFrame p with
        | none => rfl
        | some f =>
          have := (gate_of_decode p f hdec hu).1
          rw [hg] at this; cases this
      · rw [if_neg hu]
    rw [href]
    by_cases he : r.err.isSome = true
    · rw [if_pos he]; rfl
    rw [if_neg he]
    by_cases hpid : r.frame.pid ≠ Pid.icmp6
    · rw [if_pos hpid]; rfl
    rw [if_neg hpid]
    by_cases h6 : r.frame.offIP6 = 0
    · rw [if_pos h6]; rfl
    exfalso
    have := hiff.1 ⟨by simpa [Pid.icmp6] using hpid, by simpa using he, h6⟩
    rw [hg] at this; cases this
  | true =>
    obtain ⟨hpid, herr, h6⟩ := hiff.2 hg
    obtain ⟨h54, hsip⟩ := hpay hg
    rw [if_neg (by rw [herr]; simp), if_neg (by rw [hpid]; simp [Pid.icmp6]), if_neg h6, h54]
    have hgate := hg
    simp only [icmp6Gate, Bool.and_eq_true, decide_eq_true_eq] at hgate
    obtain ⟨⟨hu, hip6⟩, h58, h8⟩ := hgate
    have hip6' := of_decide_eq_true hip6
    rw [sliceFrom_ok p 54 (by omega)]
    simp only [Outcome.bind_ok]
    rw [if_neg (by simp; omega), Ndp.idx_eq_ok (by simp; omega)]
    simp only [Outcome.bind_ok]
    have hat : ((p.drop 54)[0]'(by simp; omega)).toNat = at_ p 54 := by
      rw [← at_eq (p.drop 54) 0 (by simp; omega), at_drop]
    have hne : ((p.drop 54)[0]'(by simp; omega) ≠ 134) ↔ at_ p 54 ≠ 134 := by
      rw [← hat]; exact u8_ne _ 134 (by omega)
    by_cases h134 : at_ p 54 = 134
    · rw [if_neg (by rw [hne]; omega)]
      unfold raInRef
      rw [if_pos (show srcIndividual p = true from hu), decode_of_gate p hg h134]
      simp only [Outcome.pure_eq, Option.map_some]
      congr 2
      have he : etherOK p = true := by apply decide_eq_true; simp only [hdrLen]; rw [hip6'.2.1]; simp; omega
      have hs : r.frame.srcMAC = field p 6 6 := by rw [hsrc]; simp [frameEvOf, he]
      have h4 : ip4OK p = false := ip4OK_et p (by omega)
      have hk : r.frame.hostEv.isSome = senderTracked c.hostMAC c.routerMAC (field p 6 6) (field p 22 16) := by
        rw [hhost]
        unfold hostOf
        rw [if_pos (by simp [he, hu]), if_neg (by simp [h4]), if_pos hip6]
        unfold senderTracked
        generalize (field p 6 6 != c.hostMAC &&
          (Netip.isLinkLocalUnicast (field p 22 16) ||
            (Netip.isGlobalUnicast (field p 22 16) && field p 6 6 != c.routerMAC))) = b
        cases b <;> rfl
      rw [hs, hsip, hk]
    · rw [if_pos (by rw [hne]; exact h134)]
      have href : raInRef c p = none := by
        unfold raInRef
        rw [if_pos (show srcIndividual p = true from hu)]
        cases hdec : decodeRaFrame p with
        | none => rfl
        | some f => exact absurd (gate_of_decode p f hdec hu).2.1 h134
      rw [href]; rfl

/-! ### where a learned router comes from -/

open PV.Model.Icmp6Hunt PV.Lemmas.Icmp6Hunt in
theorem keys_learn_sub (s : State) (r : RaIn) (hdr : Ndp.RaHeader) (o : Ndp.Options) (k : Bytes)
    (h : k ∈ keys (learn s r hdr o)) : k ∈ keys s ∨ k = r.ipSrc := by
  unfold learn at h
  split at h
  · left
    simp only [keys, List.map_map] at h ⊢
    obtain ⟨e, he, rfl⟩ := List.mem_map.1 h
    refine List.mem_map.2 ⟨e, he, ?_⟩
    simp only [Function.comp]
    split <;> rfl
  · simp only [keys, List.map_append, List.mem_append, List.map_cons, List.map_nil, List.mem_singleton] at h
    exact h

open PV.Model.Icmp6Hunt PV.Lemmas.Icmp6Hunt in
/-- a router is in the table only because a router advertisement with that source address was processed -/
theorem router_origin (k : Bytes) : ∀ (tr : List Event) (s0 s : State) (os : List Out),
    run s0 tr = some (s, os) → k ∈ keys s → k ∈ keys s0 ∨ ∃ r, Event.ra r ∈ tr ∧ r.ipSrc = k
  | [], s0, s, _, hr, hk => by
    simp [run] at hr; obtain ⟨rfl, _⟩ := hr; exact Or.inl hk
  | ev :: es, s0, s, os, hr, hk => by
    simp only [run] at hr
    cases hs : step s0 ev with
    | none => simp [hs] at hr
    | some q =>
      obtain ⟨s1, o⟩ := q
      simp only [hs] at hr
      cases hr2 : run s1 es with
      | none => simp [hr2] at hr
      | some q2 =>
        obtain ⟨s2, os2⟩ := q2
        simp only [hr2] at hr
        cases hr
        rcases router_origin k es s1 _ os2 hr2 hk with h1 | ⟨r, hr', he⟩
        · -- keys s1 vs keys s0
          have same : s1.routers = s0.routers → k ∈ keys s0 ∨ ∃ r, Event.ra r ∈ ev :: es ∧ r.ipSrc = k := by
            intro h; left; unfold keys at h1 ⊢; rw [← h]; exact h1
          cases ev with
          | rxOther => simp only [step] at hs; cases hs; exact same rfl
          | envRepeat v => simp only [step] at hs; cases hs; exact same rfl
          | close =>
            simp only [step] at hs
            split at hs
            · cases hs; exact same rfl
            · cases hs
          | stopHunt m eff =>
            simp only [step] at hs
            split at hs
            · split at hs
              · cases hs; exact same rfl
              · cases hs
            · cases hs; exact same rfl
          | startHunt m cls =>
            simp only [step] at hs
            split at hs
            · cases hs; exact same rfl
            · split at hs
              · cases hs; exact same rfl
              · split at hs
                · cases hs
                · split at hs <;> (cases hs; exact same rfl)
          | wake i =>
            simp only [step] at hs
            split at hs
            · cases hs; exact same rfl
            · cases hs
          | check i =>
            simp only [step] at hs
            split at hs
            · split at hs
              · cases hs; exact same rfl
              · split at hs
                · split at hs <;> (cases hs; exact same rfl)
                · cases hs; exact same rfl
            · cases hs
          | send i x =>
            simp only [step] at hs
            split at hs
            · split at hs
              · split at hs <;> (cases hs; exact same rfl)
              · cases hs
            · cases hs
          | ra r =>
            rcases step_ra_cases s0 r s1 o hs with rfl | rfl | ⟨hdr, o', rfl⟩
            · exact Or.inl h1
            · exact Or.inl h1
            · rcases keys_learn_sub _ r hdr o' k h1 with h | h
              · exact Or.inl h
              · exact Or.inr ⟨r, by simp, h.symm⟩
        · exact Or.inr ⟨r, List.mem_cons_of_mem _ hr', he⟩
