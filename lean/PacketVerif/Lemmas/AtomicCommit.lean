/-
  Lemmas for Props/C09AtomicCommit.lean: the invariant of the section-granular atomicity machine
  (Model/AtomicCommit.lean).
-/
import PacketVerif.Model.AtomicCommit
namespace PV.Lemmas.AtomicCommit
open PV.Model.AtomicCommit

section
variable {L S : Type}

@[simp] theorem setTh_same (th : Nat → Thread L S) (i : Nat) (t : Thread L S) : setTh th i t i = t := by simp [setTh]
theorem setTh_ne (th : Nat → Thread L S) {i j : Nat} (t : Thread L S) (hne : j ≠ i) : setTh th i t j = th j := by
  simp [setTh, hne]

theorem serial_append (l0 : L) (a : List (Op L S)) (op : Op L S) (st : S) :
    serial l0 (a ++ [op]) st = runOp l0 op (serial l0 a st) := by
  induction a generalizing st with
  | nil => simp [serial]
  | cons x xs ih => simp [serial, ih]

/-- read-only sections leave the shared state alone -/
theorem runSecs_ro (ss : List (Sec L S)) (h : ∀ s ∈ ss, ReadOnly s) (l : L) (st : S) : (runSecs ss (l, st)).2 = st := by
  induction ss generalizing l with
  | nil => simp [runSecs]
  | cons x xs ih =>
    simp only [runSecs]
    have hx := h x (List.mem_cons_self ..)
    have : x (l, st) = ((x (l, st)).1, st) := Prod.ext rfl (hx l st)
    rw [this]
    exact ih (fun s hs => h s (List.mem_cons_of_mem _ hs)) _

/-- a commit-disciplined operation run on its own changes the shared state exactly as its commit section does, entered
    with ANY local state if there were sections before it and with the initial local state otherwise -/
theorem runOp_commit (l0 : L) (op : Op L S) (hd : CommitDisciplined op) (l : L) (hl : op.pre = [] → l = l0) (st : S) :
    runOp l0 op st = (op.mid (l, st)).2 := by
  unfold runOp
  have hpre : runSecs op.pre (l0, st) = ((runSecs op.pre (l0, st)).1, st) := Prod.ext rfl (runSecs_ro op.pre hd.1 l0 st)
  rw [hpre]
  have hpost := runSecs_ro op.post hd.2.1 (op.mid ((runSecs op.pre (l0, st)).1, st)).1 (op.mid ((runSecs op.pre (l0, st)).1, st)).2
  rw [show op.mid ((runSecs op.pre (l0, st)).1, st) =
      ((op.mid ((runSecs op.pre (l0, st)).1, st)).1, (op.mid ((runSecs op.pre (l0, st)).1, st)).2) from rfl, hpost]
  by_cases hp : op.pre = []
  · rw [hl hp, hp]; simp [runSecs]
  · exact hd.2.2 hp _ _ _

/-- the invariant of the machine -/
structure Inv (l0 : L) (st0 : S) (progs : Nat → List (Op L S)) (σ : State L S) : Prop where
  disc : ∀ i, ∀ op ∈ (σ.th i).ops, CommitDisciplined op
  pre_ro : ∀ i, ∀ s ∈ (σ.th i).pre, ReadOnly s
  post_ro : ∀ i, ∀ s ∈ (σ.th i).post, ReadOnly s
  /-- before the commit: the thread still carries the commit section of its (disciplined) operation; if the operation has
      no sections before the commit section the local state is still the initial one -/
  mid_ok : ∀ i s, (σ.th i).mid = some s →
      s = (σ.th i).curOp.mid ∧ CommitDisciplined (σ.th i).curOp ∧ ((σ.th i).curOp.pre = [] → (σ.th i).pre = [] → (σ.th i).loc = l0) ∧
      ((σ.th i).curOp.pre = [] → (σ.th i).pre = [])
  /-- after the commit no section before it is left -/
  done_pre : ∀ i, (σ.th i).mid = none → (σ.th i).pre = []
  ser : serial l0 (σ.hist.map (·.2)) st0 = σ.store
  order : ∀ i, ((σ.hist.filter (fun e => e.1 == i)).map (·.2)) ++ pending (σ.th i) = progs i

theorem inv_init (l0 : L) (st0 : S) (progs : Nat → List (Op L S)) (hd : ∀ i, ∀ op ∈ progs i, CommitDisciplined op) :
    Inv l0 st0 progs (init l0 st0 progs) := by
  refine ⟨?_, ?_, ?_, ?_, ?_, ?_, ?_⟩
  · intro i; simpa [init] using hd i
  · intro i s hs; simp [init] at hs
  · intro i s hs; simp [init] at hs
  · intro i s h; simp [init] at h
  · intro i _; simp [init]
  · simp [init, serial]
  · intro i; simp [init, pending]

theorem filter_append_other {α : Type} (h : List (Nat × α)) (i j : Nat) (x : α) (hne : j ≠ i) :
    (h ++ [(i, x)]).filter (fun e => e.1 == j) = h.filter (fun e => e.1 == j) := by
  have : (i == j) = false := by simp; exact fun e => hne e.symm
  simp [List.filter_append, this]

theorem inv_step (l0 : L) (st0 : S) (progs : Nat → List (Op L S)) (σ σ' : State L S)
    (hi : Inv l0 st0 progs σ) (hs : Step l0 σ σ') : Inv l0 st0 progs σ' := by
  obtain ⟨hdisc, hpre, hpost, hmid, hdone, hser, hord⟩ := hi
  cases hs with
  | start i op ops' hp hm hpo hops =>
    have hdop : CommitDisciplined op := hdisc i op (by rw [hops]; exact List.mem_cons_self ..)
    refine ⟨?_, ?_, ?_, ?_, ?_, ?_, ?_⟩
    · intro j o ho
      by_cases hj : j = i
      · subst hj; simp only [setTh_same] at ho
        exact hdisc j o (by rw [hops]; exact List.mem_cons_of_mem _ ho)
      · simp only [setTh_ne _ _ hj] at ho; exact hdisc j o ho
    · intro j s hs
      by_cases hj : j = i
      · subst hj; simp only [setTh_same] at hs; exact hdop.1 s hs
      · simp only [setTh_ne _ _ hj] at hs; exact hpre j s hs
    · intro j s hs
      by_cases hj : j = i
      · subst hj; simp only [setTh_same] at hs; exact hdop.2.1 s hs
      · simp only [setTh_ne _ _ hj] at hs; exact hpost j s hs
    · intro j s h
      by_cases hj : j = i
      · subst hj; simp only [setTh_same] at h ⊢
        have : s = op.mid := by simpa using h.symm
        exact ⟨this, hdop, by simp, fun h0 => h0⟩
      · simp only [setTh_ne _ _ hj] at h ⊢; exact hmid j s h
    · intro j h
      by_cases hj : j = i
      · subst hj; simp at h
      · simp only [setTh_ne _ _ hj] at h ⊢; exact hdone j h
    · exact hser
    · intro j
      by_cases hj : j = i
      · subst hj
        have := hord j
        simp only [pending, hm, hops] at this
        simpa [pending] using this
      · simpa [setTh_ne _ _ hj] using hord j
  | pre i s r hp =>
    have hro : ReadOnly s := hpre i s (by rw [hp]; exact List.mem_cons_self ..)
    refine ⟨?_, ?_, ?_, ?_, ?_, ?_, ?_⟩
    · intro j o ho
      by_cases hj : j = i
      · subst hj; simp only [setTh_same] at ho; exact hdisc j o ho
      · simp only [setTh_ne _ _ hj] at ho; exact hdisc j o ho
    · intro j x hx
      by_cases hj : j = i
      · subst hj; simp only [setTh_same] at hx; exact hpre j x (by rw [hp]; exact List.mem_cons_of_mem _ hx)
      · simp only [setTh_ne _ _ hj] at hx; exact hpre j x hx
    · intro j x hx
      by_cases hj : j = i
      · subst hj; simp only [setTh_same] at hx; exact hpost j x hx
      · simp only [setTh_ne _ _ hj] at hx; exact hpost j x hx
    · intro j x h
      by_cases hj : j = i
      · subst hj; simp only [setTh_same] at h ⊢
        obtain ⟨h1, h2, _, h4⟩ := hmid j x h
        refine ⟨h1, h2, ?_, ?_⟩
        · intro h0; have := h4 h0; rw [hp] at this; cases this
        · intro h0; have := h4 h0; rw [hp] at this; cases this
      · simp only [setTh_ne _ _ hj] at h ⊢; exact hmid j x h
    · intro j h
      by_cases hj : j = i
      · subst hj; simp only [setTh_same] at h ⊢
        have := hdone j h; rw [hp] at this; cases this
      · simp only [setTh_ne _ _ hj] at h ⊢; exact hdone j h
    · show serial l0 (σ.hist.map (·.2)) st0 = _
      rw [hser, hro]
    · intro j
      by_cases hj : j = i
      · subst hj; simpa [pending] using hord j
      · simpa [setTh_ne _ _ hj] using hord j
  | commit i s hp hm =>
    obtain ⟨hs1, hcd, hloc, _⟩ := hmid i s hm
    refine ⟨?_, ?_, ?_, ?_, ?_, ?_, ?_⟩
    · intro j o ho
      by_cases hj : j = i
      · subst hj; simp only [setTh_same] at ho; exact hdisc j o ho
      · simp only [setTh_ne _ _ hj] at ho; exact hdisc j o ho
    · intro j x hx
      by_cases hj : j = i
      · subst hj; simp only [setTh_same] at hx; exact hpre j x hx
      · simp only [setTh_ne _ _ hj] at hx; exact hpre j x hx
    · intro j x hx
      by_cases hj : j = i
      · subst hj; simp only [setTh_same] at hx; exact hpost j x hx
      · simp only [setTh_ne _ _ hj] at hx; exact hpost j x hx
    · intro j x h
      by_cases hj : j = i
      · subst hj; simp at h
      · simp only [setTh_ne _ _ hj] at h ⊢; exact hmid j x h
    · intro j h
      by_cases hj : j = i
      · subst hj; simp only [setTh_same]; exact hp
      · simp only [setTh_ne _ _ hj] at h ⊢; exact hdone j h
    · show serial l0 ((σ.hist ++ [(i, (σ.th i).curOp)]).map (·.2)) st0 = _
      rw [List.map_append, List.map_singleton, serial_append, hser,
        runOp_commit l0 (σ.th i).curOp hcd (σ.th i).loc (fun h0 => hloc h0 hp) σ.store, ← hs1]
    · intro j
      by_cases hj : j = i
      · subst hj
        have := hord j
        simp only [pending, hm] at this
        simp only [pending, setTh_same, List.filter_append, List.map_append]
        simpa using this
      · simp only [setTh_ne _ _ hj]
        rw [filter_append_other _ _ _ _ hj]
        exact hord j
  | post i s r hp hm hpo =>
    have hro : ReadOnly s := hpost i s (by rw [hpo]; exact List.mem_cons_self ..)
    refine ⟨?_, ?_, ?_, ?_, ?_, ?_, ?_⟩
    · intro j o ho
      by_cases hj : j = i
      · subst hj; simp only [setTh_same] at ho; exact hdisc j o ho
      · simp only [setTh_ne _ _ hj] at ho; exact hdisc j o ho
    · intro j x hx
      by_cases hj : j = i
      · subst hj; simp only [setTh_same] at hx; exact hpre j x hx
      · simp only [setTh_ne _ _ hj] at hx; exact hpre j x hx
    · intro j x hx
      by_cases hj : j = i
      · subst hj; simp only [setTh_same] at hx; exact hpost j x (by rw [hpo]; exact List.mem_cons_of_mem _ hx)
      · simp only [setTh_ne _ _ hj] at hx; exact hpost j x hx
    · intro j x h
      by_cases hj : j = i
      · subst hj; simp only [setTh_same] at h; rw [hm] at h; cases h
      · simp only [setTh_ne _ _ hj] at h ⊢; exact hmid j x h
    · intro j h
      by_cases hj : j = i
      · subst hj; simp only [setTh_same]; exact hp
      · simp only [setTh_ne _ _ hj] at h ⊢; exact hdone j h
    · show serial l0 (σ.hist.map (·.2)) st0 = _
      rw [hser, hro]
    · intro j
      by_cases hj : j = i
      · subst hj; simpa [pending] using hord j
      · simpa [setTh_ne _ _ hj] using hord j

theorem inv_reach (l0 : L) (st0 : S) (progs : Nat → List (Op L S)) (hd : ∀ i, ∀ op ∈ progs i, CommitDisciplined op)
    (σ : State L S) (hr : Reach l0 (init l0 st0 progs) σ) : Inv l0 st0 progs σ := by
  induction hr with
  | refl => exact inv_init l0 st0 progs hd
  | step _ hs ih => exact inv_step l0 st0 progs _ _ ih hs

end
end PV.Lemmas.AtomicCommit
