/-
  The DNS query encoders (`encodeName`, `EncodeDNSQuery`) against the RFC 1035 wire form and the
  decoders: `encodeName` writes `Spec.wireOf` of the labels of a dotted name, the message built
  from it is read back by the reference decoder (`Spec.DnsWire`) with the values supplied.
-/
import PacketVerif.Model.DnsQuery
import PacketVerif.Lemmas.DnsName
import PacketVerif.Lemmas.DnsSpec
import PacketVerif.Lemmas.Views
namespace PV.Lemmas.DnsQuery
open PV PV.Model PV.Spec PV.Lemmas.Dns

/-! ### list surgery -/

theorem set_mid (a : Bytes) (x v : UInt8) (b : Bytes) : (a ++ x :: b).set a.length v = a ++ v :: b := by
  induction a with
  | nil => rfl
  | cons h t ih => simp [ih]

theorem setIdx_mid (a : Bytes) (x v : UInt8) (b : Bytes) {i : Nat} (hi : i = a.length) :
    setIdx (a ++ x :: b) i v = .ok (a ++ v :: b) := by
  subst hi
  unfold setIdx
  rw [if_pos (by simp), set_mid]

/-! ### the `for i := range name` loop, label by label

State of the loop in front of the rest of the name: the buffer is
`pre ++ done ++ slot :: cur ++ tail` — `pre` the bytes before `offset`, `done` the wire form of
the completed labels, `slot` the octet that will receive the length of the current label, `cur`
the octets of the current label written so far, `tail` the unwritten rest; the loop index is
`i = |done| + |cur|` and the running label length `l = |cur|`. -/

theorem loop_chars : ∀ (r0 rest pre done : Bytes) (slot : UInt8) (cur tail : Bytes) (i l : Nat),
    (∀ c ∈ r0, c ≠ 46) → i = done.length + cur.length → r0.length ≤ tail.length →
    encodeNameLoop (r0 ++ rest) i l (pre ++ (done ++ (slot :: (cur ++ tail)))) pre.length =
    encodeNameLoop rest (i + r0.length) (l + r0.length)
      (pre ++ (done ++ (slot :: ((cur ++ r0) ++ tail.drop r0.length)))) pre.length := by
  intro r0
  induction r0 with
  | nil => intro rest pre done slot cur tail i l _ _ _; simp
  | cons c r ih =>
    intro rest pre done slot cur tail i l hnd hi hlen
    cases tail with
    | nil => simp at hlen
    | cons t0 tail' =>
      have hc : (c == 46) = false := by
        have := hnd c (List.mem_cons_self ..)
        simpa using this
      rw [List.cons_append, encodeNameLoop]
      simp only [hc, Bool.false_eq_true, if_false]
      have hset : setIdx (pre ++ (done ++ (slot :: (cur ++ t0 :: tail')))) (pre.length + i + 1) c
          = .ok (pre ++ (done ++ (slot :: (cur ++ c :: tail')))) := by
        have := setIdx_mid (pre ++ (done ++ (slot :: cur))) t0 c tail' (i := pre.length + i + 1)
          (by simp; omega)
        simpa [List.append_assoc] using this
      rw [hset]
      simp only []
      have := ih rest pre done slot (cur ++ [c]) tail' (i + 1) (l + 1)
        (fun x hx => hnd x (List.mem_cons_of_mem _ hx)) (by simp; omega) (by simpa using hlen)
      simp only [List.append_assoc, List.singleton_append] at this
      rw [this]
      simp only [List.length_cons, List.drop_succ_cons, List.append_assoc, List.cons_append]
      congr 1 <;> omega

theorem loop_dot (rest pre done : Bytes) (slot : UInt8) (cur : Bytes) (t0 : UInt8) (tail : Bytes) (i l : Nat)
    (hi : i = done.length + cur.length) (hl : l = cur.length) :
    encodeNameLoop (46 :: rest) i l (pre ++ (done ++ (slot :: (cur ++ t0 :: tail)))) pre.length =
    encodeNameLoop rest (i + 1) 0 (pre ++ ((done ++ UInt8.ofNat l :: cur) ++ (t0 :: ([] ++ tail)))) pre.length := by
  rw [encodeNameLoop]
  simp only [beq_self_eq_true, if_true]
  have hset : setIdx (pre ++ (done ++ (slot :: (cur ++ t0 :: tail)))) (pre.length + i - l) (UInt8.ofNat l)
      = .ok (pre ++ (done ++ (UInt8.ofNat l :: (cur ++ t0 :: tail)))) := by
    have := setIdx_mid (pre ++ done) slot (UInt8.ofNat l) (cur ++ t0 :: tail) (i := pre.length + i - l)
      (by simp; omega)
    simpa [List.append_assoc] using this
  rw [hset]
  simp [List.append_assoc]

/-- the labels that follow the current one, each introduced by its dot -/
theorem loop_labels : ∀ (ls : List Bytes) (pre done : Bytes) (slot : UInt8) (cur tail : Bytes) (i l : Nat),
    (∀ x ∈ ls, ∀ c ∈ x, c ≠ 46) → i = done.length + cur.length → l = cur.length →
    (dotted ls).length ≤ tail.length →
    ∃ (init : List Bytes) (last : Bytes) (slot' : UInt8), cur :: ls = init ++ [last] ∧
      encodeNameLoop (dotted ls) i l (pre ++ (done ++ (slot :: (cur ++ tail)))) pre.length =
        .ok (pre ++ ((done ++ wireLabels init) ++ (slot' :: (last ++ tail.drop (dotted ls).length))), last.length) := by
  intro ls
  induction ls with
  | nil =>
    intro pre done slot cur tail i l _ _ hl _
    exact ⟨[], cur, slot, rfl, by simp [dotted, encodeNameLoop, wireLabels, hl]⟩
  | cons l1 more ih =>
    intro pre done slot cur tail i l hnd hi hl hlen
    simp only [dotted, List.length_cons, List.length_append] at hlen
    cases tail with
    | nil => simp at hlen
    | cons t0 tail' =>
      simp only [List.length_cons] at hlen
      have h1 := loop_dot (l1 ++ dotted more) pre done slot cur t0 tail' i l hi hl
      have h2 := loop_chars l1 (dotted more) pre (done ++ UInt8.ofNat l :: cur) t0 [] tail' (i + 1) 0
        (hnd l1 (List.mem_cons_self ..)) (by simp; omega) (by omega)
      obtain ⟨init1, last, slot', hsplit, h3⟩ := ih pre (done ++ UInt8.ofNat l :: cur) t0 l1 (tail'.drop l1.length)
        (i + 1 + l1.length) (0 + l1.length)
        (fun x hx => hnd x (List.mem_cons_of_mem _ hx)) (by simp; omega) (by simp) (by simp; omega)
      refine ⟨cur :: init1, last, slot', by rw [List.cons_append, ← hsplit], ?_⟩
      show encodeNameLoop (46 :: (l1 ++ dotted more)) i l _ _ = _
      rw [h1, h2]
      simp only [List.nil_append] at h3 ⊢
      rw [h3]
      simp only [wireLabels, hl, List.append_assoc, List.cons_append, List.drop_drop, dotted,
        List.length_cons, List.length_append, List.drop_succ_cons]

/-! ### `encodeName` writes the RFC 1035 wire form -/

theorem text_cons (l : Bytes) (ls : List Bytes) : text (l :: ls) = l ++ dotted ls := by
  cases ls with
  | nil => simp [text, dotted]
  | cons r rs => rw [dotted_eq_text (r :: rs) (by simp)]; rfl

theorem wireLabels_append (a b : List Bytes) : wireLabels (a ++ b) = wireLabels a ++ wireLabels b := by
  induction a with
  | nil => rfl
  | cons l rest ih => simp [wireLabels, ih]

theorem wireLabels_length (ls : List Bytes) : (wireLabels ls).length + 1 = wireLen ls := by
  induction ls with
  | nil => rfl
  | cons l rest ih =>
    simp only [wireLabels, wireLen, List.map_cons, List.sum_cons, List.length_cons, List.length_append] at *
    omega

theorem text_length (ls : List Bytes) (h : ls ≠ []) : (text ls).length + 2 = wireLen ls := by
  have := dotted_length ls
  rw [dotted_eq_text ls h] at this
  simp at this
  omega

theorem text_snoc_length (init : List Bytes) (last : Bytes) :
    (text (init ++ [last])).length = (wireLabels init).length + last.length := by
  have h1 := text_length (init ++ [last]) (by simp)
  have h2 := wireLabels_length (init ++ [last])
  rw [wireLabels_append] at h2
  simp [wireLabels] at h2
  omega

/-- **`encodeName` on a dotted name** whose labels contain no dot (the name is not the root):
    the octets from `offset` on become the wire form of the labels and the root octet, the rest
    of the buffer is untouched, the returned offset is behind the root octet. -/
theorem encodeName_wire (ls : List Bytes) (hnd : ∀ x ∈ ls, ∀ c ∈ x, c ≠ 46) (hne : text ls ≠ [])
    (pre : Bytes) (s0 : UInt8) (tail : Bytes) (hroom : (text ls).length + 1 ≤ tail.length) :
    encodeName (text ls) (pre ++ s0 :: tail) pre.length =
      .ok (pre ++ (wireLabels ls ++ 0 :: tail.drop ((text ls).length + 1)), pre.length + (text ls).length + 2) := by
  cases ls with
  | nil => exact absurd rfl hne
  | cons l1 more =>
    have htl : (text (l1 :: more)).length = l1.length + (dotted more).length := by rw [text_cons]; simp
    unfold encodeName
    have hc := loop_chars l1 (dotted more) pre [] s0 [] tail 0 0 (hnd l1 (List.mem_cons_self ..)) (by simp) (by omega)
    obtain ⟨init, last, slot', hsplit, hl⟩ := loop_labels more pre [] s0 l1 (tail.drop l1.length) (0 + l1.length) (0 + l1.length)
      (fun x hx => hnd x (List.mem_cons_of_mem _ hx)) (by simp) (by simp) (by simp; omega)
    have hloop : encodeNameLoop (text (l1 :: more)) 0 0 (pre ++ s0 :: tail) pre.length =
        .ok (pre ++ (wireLabels init ++ (slot' :: (last ++ tail.drop (text (l1 :: more)).length))), last.length) := by
      rw [text_cons]
      simp only [List.nil_append] at hc hl
      rw [hc, hl]
      simp [List.drop_drop]
    rw [hloop]
    simp only []
    have hnz : ((text (l1 :: more)).length == 0) = false := by
      cases h : text (l1 :: more) with
      | nil => exact absurd h hne
      | cons a b => simp
    rw [hnz]
    simp only [Bool.false_eq_true, if_false]
    have hlen : (text (l1 :: more)).length = (wireLabels init).length + last.length := by
      rw [hsplit]; exact text_snoc_length init last
    -- the length octet of the last label
    have hs1 := setIdx_mid (pre ++ wireLabels init) slot' (UInt8.ofNat last.length)
      (last ++ tail.drop (text (l1 :: more)).length) (i := pre.length + (text (l1 :: more)).length - last.length)
      (by simp; omega)
    simp only [List.append_assoc] at hs1
    rw [hs1]
    simp only []
    -- the root octet
    obtain ⟨t0, tl, htail⟩ : ∃ t0 tl, tail.drop (text (l1 :: more)).length = t0 :: tl := by
      cases h : tail.drop (text (l1 :: more)).length with
      | nil =>
        have := congrArg List.length h
        simp at this
        omega
      | cons a b => exact ⟨a, b, rfl⟩
    have hs2 := setIdx_mid (pre ++ (wireLabels init ++ (UInt8.ofNat last.length :: last))) t0 0 tl
      (i := pre.length + (text (l1 :: more)).length + 1) (by simp; omega)
    rw [htail]
    simp only [List.append_assoc, List.cons_append] at hs2 ⊢
    rw [hs2]
    have htl2 : tail.drop ((text (l1 :: more)).length + 1) = tl := by
      have : tail.drop ((text (l1 :: more)).length + 1) = (tail.drop (text (l1 :: more)).length).drop 1 := by
        rw [List.drop_drop]
      rw [this, htail]; rfl
    rw [htl2, hsplit, wireLabels_append]
    simp [wireLabels]

/-! ### the whole query -/

/-- **valid dotted name**, as a list of labels (the text is `Spec.text ls`, labels joined by dots,
    no trailing dot; `[]` is the root, text ""): every label has 1..63 octets and contains no
    dot.  (The RFC 1035 §3.1 size `wireLen ls ≤ 255` is a separate hypothesis where needed.) -/
def ValidLabels (ls : List Bytes) : Prop := ∀ l ∈ ls, 1 ≤ l.length ∧ l.length ≤ 63 ∧ ∀ c ∈ l, c ≠ 46

theorem text_ne_nil {ls : List Bytes} (hv : ValidLabels ls) (h : ls ≠ []) : text ls ≠ [] := by
  cases ls with
  | nil => exact absurd rfl h
  | cons l rest =>
    rw [text_cons]
    have := (hv l (List.mem_cons_self ..)).1
    intro hh
    have h3 : l = [] := (List.append_eq_nil_iff.mp hh).1
    rw [h3] at this
    simp at this

/-- the bytes `encodeName` leaves in a fresh buffer = the RFC 1035 wire form (root included) -/
theorem encodedName_wire (ls : List Bytes) (hv : ValidLabels ls) : encodedName (text ls) = .ok (wireOf ls) := by
  cases ls with
  | nil => rfl
  | cons l rest =>
    have hne := text_ne_nil hv (by simp)
    have hw := encodeName_wire (l :: rest) (fun x hx => (hv x hx).2.2) hne [] 0
      (List.replicate ((text (l :: rest)).length + 1) 0) (by simp)
    unfold encodedName
    have hbuf : List.replicate ((text (l :: rest)).length + 2) (0 : UInt8) =
        [] ++ 0 :: List.replicate ((text (l :: rest)).length + 1) 0 := by
      simp [List.replicate_succ]
    have hw' : encodeName (text (l :: rest)) ([] ++ 0 :: List.replicate ((text (l :: rest)).length + 1) 0) 0 = _ := hw
    rw [hbuf, hw']
    simp only [List.nil_append, List.length_nil, Nat.zero_add]
    have hlen := wireLabels_length (l :: rest)
    have htl := text_length (l :: rest) (by simp)
    congr 1
    unfold wireOf
    have : List.drop ((text (l :: rest)).length + 1) (List.replicate ((text (l :: rest)).length + 1) (0 : UInt8)) = [] := by
      simp
    rw [this]
    apply List.take_of_length_le
    simp
    omega

/-- the query message for id, flags, labels and type: header (QDCOUNT 1, other counts 0), the
    wire form of the name, QTYPE, QCLASS IN -/
def queryBytes (id flags : Nat) (ls : List Bytes) (qtype : Nat) : Bytes :=
  put16 id ++ put16 flags ++ put16 1 ++ put16 0 ++ put16 0 ++ put16 0 ++ wireOf ls ++ put16 qtype ++ put16 1

theorem wireOf_length (ls : List Bytes) : (wireOf ls).length = wireLen ls := by
  unfold wireOf
  have := wireLabels_length ls
  simp
  omega

/-- `EncodeDNSQuery` on an encoded name of at most 496 octets (room for type and class in the
    512-octet buffer) -/
theorem encodeDNSQuery_ok (id flags : Nat) (en : Bytes) (qtype : Nat) (h : en.length ≤ 496) :
    encodeDNSQuery id flags en qtype =
      .ok (put16 id ++ put16 flags ++ put16 1 ++ put16 0 ++ put16 0 ++ put16 0 ++ en ++ put16 qtype ++ put16 1) := by
  unfold encodeDNSQuery
  have hmin : min en.length 500 = en.length := by omega
  simp only [hmin]
  rw [if_neg (by omega), if_neg (by omega), List.take_length]

theorem buildQuery_eq (id flags : Nat) (ls : List Bytes) (qtype : Nat) (hv : ValidLabels ls) (hlen : wireLen ls ≤ 496) :
    buildQuery id flags (text ls) qtype = .ok (queryBytes id flags ls qtype) := by
  unfold buildQuery
  rw [encodedName_wire ls hv]
  simp only []
  rw [encodeDNSQuery_ok _ _ _ _ (by rw [wireOf_length]; exact hlen)]
  rfl

/-! ### the reference decoder reads the query back -/

theorem toNat_ofNat_lt {n : Nat} (h : n < 256) : (UInt8.ofNat n).toNat = n := by
  simp [UInt8.toNat_ofNat']
  omega

theorem getElem?_mid (a : Bytes) (x : UInt8) (b : Bytes) : (a ++ x :: b)[a.length]? = some x := by
  simp

/-- the wire form of valid labels, wherever it stands in a message, is a reference name (no
    pointers) ending behind its root octet -/
theorem nameAt_wire : ∀ (ls : List Bytes), ValidLabels ls → ∀ (pre suf : Bytes) (start : Nat),
    NameAt (pre ++ (wireOf ls ++ suf)) start pre.length ls (pre.length + wireLen ls) 0 := by
  intro ls
  induction ls with
  | nil =>
    intro _ pre suf start
    have : pre ++ (wireOf [] ++ suf) = pre ++ 0 :: suf := rfl
    rw [this]
    exact NameAt.root (getElem?_mid pre 0 suf)
  | cons l rest ih =>
    intro hv pre suf start
    obtain ⟨h1, h63, _⟩ := hv l (List.mem_cons_self ..)
    have hrest : ValidLabels rest := fun x hx => hv x (List.mem_cons_of_mem _ hx)
    have hm : pre ++ (wireOf (l :: rest) ++ suf) = pre ++ UInt8.ofNat l.length :: (l ++ (wireOf rest ++ suf)) := by
      simp [wireOf, wireLabels]
    have hm2 : pre ++ (wireOf (l :: rest) ++ suf) = (pre ++ UInt8.ofNat l.length :: l) ++ (wireOf rest ++ suf) := by
      rw [hm]; simp
    have hn : (UInt8.ofNat l.length).toNat = l.length := toNat_ofNat_lt (by omega)
    have hsub := ih hrest (pre ++ UInt8.ofNat l.length :: l) suf start
    rw [← hm2] at hsub
    have hpos : pre.length + 1 + (UInt8.ofNat l.length).toNat = (pre ++ UInt8.ofNat l.length :: l).length := by
      rw [hn]; simp; omega
    have hlab : ((pre ++ (wireOf (l :: rest) ++ suf)).drop (pre.length + 1)).take (UInt8.ofNat l.length).toNat = l := by
      rw [hm, hn]
      have : pre ++ UInt8.ofNat l.length :: (l ++ (wireOf rest ++ suf)) = (pre ++ [UInt8.ofNat l.length]) ++ (l ++ (wireOf rest ++ suf)) := by simp
      rw [this, List.drop_left' (by simp), List.take_left' rfl]
    have hlen : wireLen (l :: rest) = l.length + 1 + wireLen rest := by
      simp [wireLen]; omega
    have hend : pre.length + wireLen (l :: rest) = (pre ++ UInt8.ofNat l.length :: l).length + wireLen rest := by
      rw [hlen]; simp; omega
    rw [hend]
    have key := NameAt.label (m := pre ++ (wireOf (l :: rest) ++ suf)) (start := start) (pos := pre.length)
      (n := UInt8.ofNat l.length) (rest := rest) (e := (pre ++ UInt8.ofNat l.length :: l).length + wireLen rest) (d := 0)
      (by rw [hm]; exact getElem?_mid pre _ _) (by omega) (by omega)
      (by rw [hpos, hm2]; simp) (by rw [hpos]; exact hsub)
    rw [hlab] at key
    exact key

theorem u16At_put16 (pre : Bytes) (v : Nat) (suf : Bytes) (h : v < 65536) {i : Nat} (hi : i = pre.length) :
    u16At (pre ++ (put16 v ++ suf)) i = some v := by
  subst hi
  unfold u16At put16
  have h0 : (pre ++ ([UInt8.ofNat (v / 256), UInt8.ofNat v] ++ suf))[pre.length]? = some (UInt8.ofNat (v / 256)) := by simp
  have h1 : (pre ++ ([UInt8.ofNat (v / 256), UInt8.ofNat v] ++ suf))[pre.length + 1]? = some (UInt8.ofNat v) := by
    have : pre ++ ([UInt8.ofNat (v / 256), UInt8.ofNat v] ++ suf) = (pre ++ [UInt8.ofNat (v / 256)]) ++ (UInt8.ofNat v :: suf) := by simp
    rw [this]
    have h := getElem?_mid (pre ++ [UInt8.ofNat (v / 256)]) (UInt8.ofNat v) suf
    rw [show (pre ++ [UInt8.ofNat (v / 256)]).length = pre.length + 1 by simp] at h
    exact h
  rw [h0, h1]
  simp only [be16]
  rw [toNat_ofNat_lt (by omega)]
  have : (UInt8.ofNat v).toNat = v % 256 := by simp [UInt8.toNat_ofNat']
  rw [this]
  congr 1
  omega

/-- the twelve header octets -/
def queryHeader (id flags : Nat) : Bytes := put16 id ++ put16 flags ++ put16 1 ++ put16 0 ++ put16 0 ++ put16 0

theorem queryHeader_length (id flags : Nat) : (queryHeader id flags).length = 12 := rfl

theorem queryBytes_split (id flags : Nat) (ls : List Bytes) (qtype : Nat) :
    queryBytes id flags ls qtype = queryHeader id flags ++ (wireOf ls ++ (put16 qtype ++ put16 1)) := by
  simp [queryBytes, queryHeader, List.append_assoc]

theorem queryBytes_length (id flags : Nat) (ls : List Bytes) (qtype : Nat) :
    (queryBytes id flags ls qtype).length = 16 + wireLen ls := by
  rw [queryBytes_split]
  simp [queryHeader_length, wireOf_length, put16]
  omega

/-- **the reference decoder on the query**: header fields, the name as a pointer-free reference
    name, and the question (name, type, class IN) ending exactly at the end of the message -/
theorem query_reference (id flags qtype : Nat) (ls : List Bytes) (hv : ValidLabels ls) (hlen : wireLen ls ≤ 255)
    (hid : id < 65536) (hfl : flags < 65536) (hqt : qtype < 65536) :
    u16At (queryBytes id flags ls qtype) 0 = some id ∧ u16At (queryBytes id flags ls qtype) 2 = some flags ∧
    u16At (queryBytes id flags ls qtype) 4 = some 1 ∧ u16At (queryBytes id flags ls qtype) 6 = some 0 ∧
    u16At (queryBytes id flags ls qtype) 8 = some 0 ∧ u16At (queryBytes id flags ls qtype) 10 = some 0 ∧
    NameAt (queryBytes id flags ls qtype) 12 12 ls (12 + wireLen ls) 0 ∧
    decodeName? (queryBytes id flags ls qtype) 12 = some (text ls, 12 + wireLen ls, 0) ∧
    questionAt? (queryBytes id flags ls qtype) 12 =
      some ({ name := text ls, qtype := qtype, qclass := 1 }, (queryBytes id flags ls qtype).length) := by
  have hname : NameAt (queryBytes id flags ls qtype) 12 12 ls (12 + wireLen ls) 0 := by
    rw [queryBytes_split]
    exact nameAt_wire ls hv (queryHeader id flags) _ 12
  have hdec : decodeName? (queryBytes id flags ls qtype) 12 = some (text ls, 12 + wireLen ls, 0) := by
    unfold decodeName?
    rw [nameAt?_complete hname]
    simp only []
    rw [if_pos hlen]
  have hA : ∀ (pre : Bytes) (v : Nat) (suf : Bytes) (i : Nat), v < 65536 → i = pre.length →
      queryBytes id flags ls qtype = pre ++ (put16 v ++ suf) → u16At (queryBytes id flags ls qtype) i = some v := by
    intro pre v suf i hv' hi heq
    rw [heq]; exact u16At_put16 pre v suf hv' hi
  have h0 := hA [] id (put16 flags ++ (put16 1 ++ (put16 0 ++ (put16 0 ++ (put16 0 ++ (wireOf ls ++ (put16 qtype ++ put16 1))))))) 0 hid rfl
    (by simp [queryBytes, List.append_assoc])
  have h2 := hA (put16 id) flags (put16 1 ++ (put16 0 ++ (put16 0 ++ (put16 0 ++ (wireOf ls ++ (put16 qtype ++ put16 1)))))) 2 hfl rfl
    (by simp [queryBytes, List.append_assoc])
  have h4 := hA (put16 id ++ put16 flags) 1 (put16 0 ++ (put16 0 ++ (put16 0 ++ (wireOf ls ++ (put16 qtype ++ put16 1))))) 4 (by omega) rfl
    (by simp [queryBytes, List.append_assoc])
  have h6 := hA (put16 id ++ put16 flags ++ put16 1) 0 (put16 0 ++ (put16 0 ++ (wireOf ls ++ (put16 qtype ++ put16 1)))) 6 (by omega) rfl
    (by simp [queryBytes, List.append_assoc])
  have h8 := hA (put16 id ++ put16 flags ++ put16 1 ++ put16 0) 0 (put16 0 ++ (wireOf ls ++ (put16 qtype ++ put16 1))) 8 (by omega) rfl
    (by simp [queryBytes, List.append_assoc])
  have h10 := hA (put16 id ++ put16 flags ++ put16 1 ++ put16 0 ++ put16 0) 0 (wireOf ls ++ (put16 qtype ++ put16 1)) 10 (by omega) rfl
    (by simp [queryBytes, List.append_assoc])
  have ht := hA (queryHeader id flags ++ wireOf ls) qtype (put16 1) (12 + wireLen ls) hqt
    (by simp [queryHeader_length, wireOf_length]) (by rw [queryBytes_split]; simp [List.append_assoc])
  have hc := hA (queryHeader id flags ++ wireOf ls ++ put16 qtype) 1 [] (12 + wireLen ls + 2) (by omega)
    (by simp [queryHeader_length, wireOf_length, put16]; omega) (by rw [queryBytes_split]; simp [List.append_assoc])
  refine ⟨h0, h2, h4, h6, h8, h10, hname, hdec, ?_⟩
  unfold questionAt?
  rw [hdec]
  simp only [bind, Option.bind, pure]
  rw [ht, hc]
  simp only []
  rw [queryBytes_length]
  congr 2
  omega

/-! ### the DNS view getters on the query -/

/-- a getter of the `DNS` view by its Go method name (`Model/Views.lean`, table `vDNS`) -/
def dnsGet (name : String) (p : Bytes) : Outcome Val :=
  match vDNS.getter name with
  | some f => f p
  | none => .panic

set_option maxRecDepth 100000 in
theorem flagBits : ∀ h : Fin 256,
    ((h.val &&& 0x80) != 0) = decide (h.val / 128 % 2 = 1) ∧ ((h.val >>> 3) &&& 0x0f) = h.val / 8 % 16 ∧
    ((h.val &&& 0x04) != 0) = decide (h.val / 4 % 2 = 1) ∧ ((h.val &&& 0x02) != 0) = decide (h.val / 2 % 2 = 1) ∧
    ((h.val &&& 0x01) != 0) = decide (h.val % 2 = 1) ∧ ((h.val >>> 4) &&& 0x07) = h.val / 16 % 8 ∧
    (h.val &&& 0x0f) = h.val % 16 := by decide

theorem flagBitsNat (h : Nat) (hh : h < 256) :
    ((h &&& 0x80) != 0) = decide (h / 128 % 2 = 1) ∧ ((h >>> 3) &&& 0x0f) = h / 8 % 16 ∧
    ((h &&& 0x04) != 0) = decide (h / 4 % 2 = 1) ∧ ((h &&& 0x02) != 0) = decide (h / 2 % 2 = 1) ∧
    ((h &&& 0x01) != 0) = decide (h % 2 = 1) ∧ ((h >>> 4) &&& 0x07) = h / 16 % 8 ∧
    (h &&& 0x0f) = h % 16 := flagBits ⟨h, hh⟩

theorem u16_of_u16At {m : Bytes} {i v : Nat} (h : u16At m i = some v) : Spec.u16 m i = v := by
  unfold u16At at h
  unfold Spec.u16 Spec.at_
  cases h0 : m[i]? with
  | none => rw [h0] at h; simp at h
  | some a =>
    cases h1 : m[i + 1]? with
    | none => rw [h0, h1] at h; simp at h
    | some b =>
      rw [h0, h1] at h
      simp only [Option.some.injEq] at h
      simp only [Option.getD_some]
      exact h

theorem at_flags (id flags : Nat) (rest : Bytes) (hfl : flags < 65536) :
    Spec.at_ (queryHeader id flags ++ rest) 2 = flags / 256 ∧ Spec.at_ (queryHeader id flags ++ rest) 3 = flags % 256 := by
  have : queryHeader id flags ++ rest =
      UInt8.ofNat (id / 256) :: UInt8.ofNat id :: UInt8.ofNat (flags / 256) :: UInt8.ofNat flags :: (put16 1 ++ put16 0 ++ put16 0 ++ put16 0 ++ rest) := by
    simp [queryHeader, put16]
  rw [this]
  constructor
  · simp only [Spec.at_, List.getElem?_cons_succ, List.getElem?_cons_zero, Option.getD_some]
    exact toNat_ofNat_lt (by omega)
  · simp only [Spec.at_, List.getElem?_cons_succ, List.getElem?_cons_zero, Option.getD_some]
    simp [UInt8.toNat_ofNat']

/-- **the DNS view on the query returns the values supplied**: transaction id, the RFC 1035 fields
    of the flags word (QR, OPCODE, AA, TC, RD, RA, Z, RCODE), QDCOUNT 1 and the other counts 0 -/
theorem query_getters (id flags qtype : Nat) (ls : List Bytes) (hv : ValidLabels ls) (hlen : wireLen ls ≤ 255)
    (hid : id < 65536) (hfl : flags < 65536) (hqt : qtype < 65536) :
    dnsGet "TransactionID" (queryBytes id flags ls qtype) = .ok (.n id) ∧
    dnsGet "QR" (queryBytes id flags ls qtype) = .ok (.b (decide (flags / 32768 % 2 = 1))) ∧
    dnsGet "OpCode" (queryBytes id flags ls qtype) = .ok (.n (flags / 2048 % 16)) ∧
    dnsGet "AA" (queryBytes id flags ls qtype) = .ok (.b (decide (flags / 1024 % 2 = 1))) ∧
    dnsGet "TC" (queryBytes id flags ls qtype) = .ok (.b (decide (flags / 512 % 2 = 1))) ∧
    dnsGet "RD" (queryBytes id flags ls qtype) = .ok (.b (decide (flags / 256 % 2 = 1))) ∧
    dnsGet "RA" (queryBytes id flags ls qtype) = .ok (.b (decide (flags / 128 % 2 = 1))) ∧
    dnsGet "Z" (queryBytes id flags ls qtype) = .ok (.n (flags / 16 % 8)) ∧
    dnsGet "ResponseCode" (queryBytes id flags ls qtype) = .ok (.n (flags % 16)) ∧
    dnsGet "QDCount" (queryBytes id flags ls qtype) = .ok (.n 1) ∧
    dnsGet "ANCount" (queryBytes id flags ls qtype) = .ok (.n 0) ∧
    dnsGet "NSCount" (queryBytes id flags ls qtype) = .ok (.n 0) ∧
    dnsGet "ARCount" (queryBytes id flags ls qtype) = .ok (.n 0) := by
  obtain ⟨h0, h2, h4, h6, h8, h10, _, _, _⟩ := query_reference id flags qtype ls hv hlen hid hfl hqt
  have hl : 16 ≤ (queryBytes id flags ls qtype).length := by rw [queryBytes_length]; omega
  have hnum : ∀ (k v : Nat), k + 2 ≤ 12 → u16At (queryBytes id flags ls qtype) k = some v →
      G.eval (queryBytes id flags ls qtype) (.num (.be16 k)) = .ok (.n v) := by
    intro k v hk hu
    simp only [G.eval]
    rw [PV.Lemmas.be16_value _ k (by omega), u16_of_u16At hu]
    rfl
  obtain ⟨a2, a3⟩ := at_flags id flags (wireOf ls ++ (put16 qtype ++ put16 1)) hfl
  rw [← queryBytes_split] at a2 a3
  have b2 := PV.Lemmas.NE_byte_eval (queryBytes id flags ls qtype) 2 (by omega)
  have b3 := PV.Lemmas.NE_byte_eval (queryBytes id flags ls qtype) 3 (by omega)
  rw [a2] at b2
  rw [a3] at b3
  obtain ⟨f1, f2, f3, f4, f5, _, _⟩ := flagBitsNat (flags / 256) (by omega)
  obtain ⟨g1, _, _, _, _, g6, g7⟩ := flagBitsNat (flags % 256) (by omega)
  have e1 : decide (flags / 256 / 128 % 2 = 1) = decide (flags / 32768 % 2 = 1) := decide_eq_decide.mpr (by omega)
  have e2 : flags / 256 / 8 % 16 = flags / 2048 % 16 := by omega
  have e3 : decide (flags / 256 / 4 % 2 = 1) = decide (flags / 1024 % 2 = 1) := decide_eq_decide.mpr (by omega)
  have e4 : decide (flags / 256 / 2 % 2 = 1) = decide (flags / 512 % 2 = 1) := decide_eq_decide.mpr (by omega)
  have e6 : decide (flags % 256 / 128 % 2 = 1) = decide (flags / 128 % 2 = 1) := decide_eq_decide.mpr (by omega)
  have e7 : flags % 256 / 16 % 8 = flags / 16 % 8 := by omega
  have e8 : flags % 256 % 16 = flags % 16 := by omega
  refine ⟨hnum 0 id (by omega) h0, ?_, ?_, ?_, ?_, ?_, ?_, ?_, ?_, hnum 4 1 (by omega) h4, hnum 6 0 (by omega) h6,
    hnum 8 0 (by omega) h8, hnum 10 0 (by omega) h10⟩
  · show G.eval _ (.flag (.and (.byte 2) (.const 0x80))) = _
    simp only [G.eval, NE.eval] at b2 ⊢
    rw [b2]
    simp only [Outcome.bind_ok, Outcome.pure_eq]
    rw [f1, e1]
  · show G.eval _ (.num (.and (.shr (.byte 2) 3) (.const 0x0f))) = _
    simp only [G.eval, NE.eval] at b2 ⊢
    rw [b2]
    simp only [Outcome.bind_ok, Outcome.pure_eq]
    rw [f2, e2]
  · show G.eval _ (.flag (.and (.byte 2) (.const 0x04))) = _
    simp only [G.eval, NE.eval] at b2 ⊢
    rw [b2]
    simp only [Outcome.bind_ok, Outcome.pure_eq]
    rw [f3, e3]
  · show G.eval _ (.flag (.and (.byte 2) (.const 0x02))) = _
    simp only [G.eval, NE.eval] at b2 ⊢
    rw [b2]
    simp only [Outcome.bind_ok, Outcome.pure_eq]
    rw [f4, e4]
  · show G.eval _ (.flag (.and (.byte 2) (.const 0x01))) = _
    simp only [G.eval, NE.eval] at b2 ⊢
    rw [b2]
    simp only [Outcome.bind_ok, Outcome.pure_eq]
    rw [f5]
  · show G.eval _ (.flag (.and (.byte 3) (.const 0x80))) = _
    simp only [G.eval, NE.eval] at b3 ⊢
    rw [b3]
    simp only [Outcome.bind_ok, Outcome.pure_eq]
    rw [g1, e6]
  · show G.eval _ (.num (.and (.shr (.byte 3) 4) (.const 0x07))) = _
    simp only [G.eval, NE.eval] at b3 ⊢
    rw [b3]
    simp only [Outcome.bind_ok, Outcome.pure_eq]
    rw [g6, e7]
  · show G.eval _ (.num (.and (.byte 3) (.const 0x0f))) = _
    simp only [G.eval, NE.eval] at b3 ⊢
    rw [b3]
    simp only [Outcome.bind_ok, Outcome.pure_eq]
    rw [g7, e8]

end PV.Lemmas.DnsQuery
