/-
  Helper lemmas about the DHCP server model: lease-table algebra, `findOrCreate`,
  the allocation scan, the request verdict.
-/
import PacketVerif.Model.Dhcp4Srv
namespace PV.Lemmas.Dhcp4Srv
open PV PV.Model.Dhcp4Srv

/-! ### table algebra (membership view) -/

theorem mem_delLease {t : Table} {c k : Cid} {l : Lease} :
    (k, l) ∈ delLease t c ↔ k ≠ c ∧ (k, l) ∈ t := by
  simp [delLease, List.mem_filter, and_comm]

theorem mem_setLease {t : Table} {c k : Cid} {l v : Lease} :
    (k, l) ∈ setLease t c v ↔ (k = c ∧ l = v) ∨ (k ≠ c ∧ (k, l) ∈ t) := by
  simp [setLease, mem_delLease]

theorem getLease_mem {t : Table} {c : Cid} {l : Lease} (h : getLease t c = some l) : (c, l) ∈ t := by
  unfold getLease at h
  cases hf : t.find? (fun e => e.1 == c) with
  | none => simp [hf] at h
  | some e =>
    simp [hf] at h
    have hm := List.mem_of_find?_eq_some hf
    have hk := List.find?_some hf
    simp at hk
    subst h
    cases e with
    | mk k v => simp at hk; subst hk; exact hm

/-- the key set is duplicate free (what a Go map guarantees); preserved by every op -/
def KeysUnique (t : Table) : Prop := (t.map (·.1)).Nodup

theorem keysUnique_delLease {t : Table} (c : Cid) (h : KeysUnique t) : KeysUnique (delLease t c) := by
  unfold KeysUnique delLease at *
  exact List.Nodup.sublist (List.Sublist.map _ List.filter_sublist) h

theorem keysUnique_setLease {t : Table} (c : Cid) (v : Lease) (h : KeysUnique t) : KeysUnique (setLease t c v) := by
  unfold KeysUnique setLease
  simp only [List.map_cons, List.nodup_cons]
  refine ⟨?_, keysUnique_delLease c h⟩
  intro hm
  obtain ⟨e, he, hk⟩ := List.mem_map.1 hm
  cases e with
  | mk k l => exact (mem_delLease.1 he).1 hk

/-! ### findOrCreate -/

theorem findOrCreate_cases (s : State) (c : Cid) (mac : MAC) :
    ((c, findOrCreate s c mac) ∈ s.table ∧ (findOrCreate s c mac).sub = selSub s mac ∧ (findOrCreate s c mac).mac = mac)
      ∨ findOrCreate s c mac = freshLease mac (selSub s mac) := by
  unfold findOrCreate
  cases hg : getLease s.table c with
  | none => right; rfl
  | some l =>
    by_cases hc : l.sub = selSub s mac ∧ l.mac = mac
    · left; simp [hc]; exact getLease_mem hg
    · right; simp [hc]

theorem findOrCreate_sub (s : State) (c : Cid) (mac : MAC) : (findOrCreate s c mac).sub = selSub s mac := by
  rcases findOrCreate_cases s c mac with h | h
  · exact h.2.1
  · rw [h]; rfl

theorem findOrCreate_mac (s : State) (c : Cid) (mac : MAC) : (findOrCreate s c mac).mac = mac := by
  rcases findOrCreate_cases s c mac with h | h
  · exact h.2.2
  · rw [h]; rfl

/-! ### inUse -/

theorem inUse_false {t : Table} {c : Cid} {o : Option IP} (h : inUse t c o = false)
    {k : Cid} {l : Lease} (hm : (k, l) ∈ t) (hk : k ≠ c) (hs : l.state ≠ .free) : l.ip ≠ o := by
  unfold inUse at h
  rw [List.any_eq_false] at h
  have := h (k, l) hm
  intro heq
  apply this
  simp [hk, hs, heq]

/-! ### the cursor scan -/

theorem scanAux_some {av : IP → Bool} : ∀ {k : Nat} {n ip cur : IP}, scanAux av n k = (some ip, cur) → av ip = true
  | 0, n, ip, cur, h => by simp [scanAux] at h
  | k + 1, n, ip, cur, h => by
    unfold scanAux at h
    by_cases ha : av n = true
    · simp [ha] at h; rw [← h.1]; exact ha
    · simp [ha] at h; exact scanAux_some h

theorem scan_some {av : IP → Bool} {n b ip cur : IP} (h : scan av n b = (some ip, cur)) : av ip = true :=
  scanAux_some h

theorem allocIPOffer_some {cfg : Cfg} {s : State} {c : Cid} {sub : SubId} {req : AddrV} {ip cur : IP}
    (h : allocIPOffer cfg s c sub req = (some ip, cur)) : available cfg s c sub ip = true := by
  unfold allocIPOffer at h
  have scans : ∀ {ip cur : IP},
      (match scan (available cfg s c sub) (cursor s sub) (cfg.sub sub).bcast with
        | (some ip, cur) => (some ip, cur)
        | (none, _) => scan (available cfg s c sub) (cfg.sub sub).first (cfg.sub sub).bcast) = (some ip, cur) →
      available cfg s c sub ip = true := by
    intro ip cur h
    split at h
    · next i cu heq => simp at h; rw [← h.1]; exact scan_some heq
    · exact scan_some h
  cases req with
  | v4 r =>
    simp only at h
    by_cases ha : available cfg s c sub r = true
    · simp [ha] at h; rw [← h.1]; exact ha
    · simp [ha] at h; exact scans h
  | invalid => exact scans h
  | v6 => exact scans h

theorem available_usable {cfg : Cfg} {s : State} {c : Cid} {sub : SubId} {ip : IP}
    (h : available cfg s c sub ip = true) :
    usable cfg sub ip = true ∧ inUse s.table c (some ip) = false ∧ sessionKnows s ip = none := by
  unfold available at h
  simp only [Bool.and_eq_true, Bool.not_eq_true', Option.isNone_iff_eq_none] at h
  exact ⟨h.1.1, h.1.2, h.2⟩

end PV.Lemmas.Dhcp4Srv
